(* The lexer over raw bytes: the reference driver reads its input with
   bytes.Reader.ReadRune, modelled by Utf8Model.decode_all.  These corollaries
   restate the lexer theorems over ALL byte strings (valid, invalid and
   truncated UTF-8 alike): the range hypothesis on code points is discharged by
   the decoder's own theorem, and "every character" becomes "every byte". *)
From Coq Require Import List ZArith Bool Lia.
From Lox Require Import Lex.LexRuntime Lex.LexAuto Lex.LexEquiv Lex.LexEquivProofs
  Lex.LexTotalProofs Lex.Utf8Model Lex.Utf8Proofs.
Import ListNotations.
Local Open Scope Z_scope.

Definition lex_bytes (modes : list (list Z)) (fuel : nat) (bs : list Z) :=
  lex_tables modes fuel (decode_all bs).

Lemma total_width_decode bs : total_width (decode_all bs) = Z.of_nat (length bs).
Proof. exact (proj1 (decode_all_total_gen bs)). Qed.

Lemma decode_all_in_range bs r w : In (r, w) (decode_all bs) -> 0 <= r <= 1114111.
Proof.
  intros H. pose proof (proj2 (decode_all_total_gen bs)) as HF.
  rewrite Forall_forall in HF. unfold runes_of in HF.
  apply (HF r). change r with (fst (r, w)). apply in_map. exact H.
Qed.

Theorem lex_bytes_total modes bs : modes_wf modes = true ->
  exists segs, lex_bytes modes (3 * length (decode_all bs) + 1) bs = LDone segs.
Proof.
  intros Hwf. apply lex_total; [exact Hwf|].
  intros r w H. apply decode_all_in_range in H. lia.
Qed.

Theorem lex_bytes_tiling modes fuel bs segs :
  lex_bytes modes fuel bs = LDone segs ->
  let n := Z.of_nat (length bs) in
  exists pre, segs = pre ++ [SegEOF n n] /\ Forall noneof pre /\ tiles 0 pre n.
Proof.
  intros H n. subst n. rewrite <- total_width_decode.
  apply (lex_exact_tiling_any modes fuel); [|exact H].
  intros r w Hin. apply decode_all_in_range in Hin. lia.
Qed.

Theorem lex_bytes_equiv :
  forall (R : Type) (reqb : R -> R -> bool) (modes : list (list Z))
         (RA : nat -> R -> option (view R)) (rstart : nat -> R) (visited : list (pair R)),
    (forall a b, reqb a b = true <-> a = b) ->
    closed R reqb modes RA rstart visited = true ->
    modes_wf modes = true ->
    forall fuel bs,
      lex_bytes modes fuel bs = g_lex R RA rstart (length modes) fuel (decode_all bs).
Proof.
  intros R reqb modes RA rstart visited Heq Hc Hwf fuel bs.
  apply (equiv_lex R reqb modes RA rstart visited Heq Hc Hwf).
  intros r w H. exact (decode_all_in_range _ _ _ H).
Qed.

Print Assumptions lex_bytes_total.
Print Assumptions lex_bytes_tiling.
Print Assumptions lex_bytes_equiv.
