(* Exact mirror of the generated lexer state machine (PushRune / Reset in
   internal/codegen/emit_lexer.go) over the emitted []uint32 tables, and of the
   reference driver simplelexer.ReadToken (loxlex v0.5.0).  Go's
   index-out-of-range panic is the explicit crash result. *)
From Coq Require Import List ZArith Bool.
Import ListNotations.
Local Open Scope Z_scope.

Definition nthz (l : list Z) (i : Z) : option Z :=
  if i <? 0 then None else nth_error l (Z.to_nat i).

(* return codes of PushRune *)
Definition lexConsume : Z := 0.
Definition lexAccept : Z := 1.
Definition lexDiscard : Z := 2.
Definition lexTryAgain : Z := 3.
Definition lexEOF : Z := 4.
Definition lexError : Z := -1.

Record sm := {
  sm_token : Z;
  sm_state : Z;
  sm_consumed : bool;          (* a character of the current token has been consumed *)
  sm_accum : bool;             (* text of an action-less fragment is pending *)
  sm_mode : nat;               (* index into _lexerModes; Go keeps the slice itself, nil = mode 0 *)
  sm_stack : list nat;         (* modeStack, top first *)
}.

Definition sm_init : sm :=
  {| sm_token := 0; sm_state := 0; sm_consumed := false; sm_accum := false; sm_mode := O; sm_stack := [] |}.

Definition sm_reset (l : sm) : sm :=
  {| sm_token := sm_token l; sm_state := 0; sm_consumed := false; sm_accum := false;
     sm_mode := O; sm_stack := sm_stack l |}.

Section Lexer.
Variable modes : list (list Z).     (* _lexerModes *)

(* binary search over gotoN triples starting at i *)
Fixpoint bsearch (fuel : nat) (mode : list Z) (i r b e : Z) : option (option Z) :=
  (* None = crash; Some None = no transition; Some (Some s) = next state *)
  match fuel with
  | O => Some None
  | S f =>
    if b <? e then
      let j := b + (e - b) / 2 in
      let k := i + j * 3 in
      match nthz mode k, nthz mode (k + 1) with
      | Some lo, Some hi =>
        if (r >=? lo) && (r <=? hi) then
          match nthz mode (k + 2) with
          | Some s => Some (Some s)
          | None => None
          end
        else if r <? lo then bsearch f mode i r b j
        else bsearch f mode i r (j + 1) e
      | _, _ => None
      end
    else Some None
  end.

Inductive ares :=
| AReturn (code : Z) (l : sm)
| AFall (l : sm)
| ACrash.

(* the action loop: for ; i < end; i += 2 *)
Fixpoint run_actions (fuel : nat) (mode : list Z) (i e : Z) (l : sm) : ares :=
  match fuel with
  | O => AFall l
  | S f =>
    if i <? e then
      match nthz mode i, nthz mode (i + 1) with
      | Some ty, Some param =>
        if ty =? 1 then
          if (param <? 0) || (Z.of_nat (length modes) <=? param) then ACrash
          else run_actions f mode (i + 2) e
                 {| sm_token := sm_token l; sm_state := sm_state l; sm_consumed := sm_consumed l;
                    sm_accum := sm_accum l; sm_mode := Z.to_nat param; sm_stack := sm_mode l :: sm_stack l |}
        else if ty =? 2 then
          match sm_stack l with
          | [] => AReturn lexError l
          | m :: st =>
            run_actions f mode (i + 2) e
              {| sm_token := sm_token l; sm_state := sm_state l; sm_consumed := sm_consumed l;
                 sm_accum := sm_accum l; sm_mode := m; sm_stack := st |}
          end
        else if ty =? 3 then
          AReturn lexAccept
            {| sm_token := param; sm_state := 0; sm_consumed := false; sm_accum := false;
               sm_mode := sm_mode l; sm_stack := sm_stack l |}
        else if ty =? 4 then
          AReturn lexDiscard
            {| sm_token := sm_token l; sm_state := 0; sm_consumed := false; sm_accum := false;
               sm_mode := sm_mode l; sm_stack := sm_stack l |}
        else if ty =? 5 then
          AReturn lexTryAgain
            {| sm_token := sm_token l; sm_state := 0; sm_consumed := false; sm_accum := true;
               sm_mode := sm_mode l; sm_stack := sm_stack l |}
        else run_actions f mode (i + 2) e l
      | _, _ => ACrash
      end
    else AFall l
  end.

(* PushRune(r); r = -1 is end of input.  None = crash. *)
Definition push_rune (l : sm) (r : Z) : option (Z * sm) :=
  match nth_error modes (sm_mode l) with
  | None => None
  | Some mode =>
    match nthz mode (sm_state l) with
    | None => None
    | Some i0 =>
      match nthz mode i0 with
      | None => None
      | Some count =>
        let i := i0 + 1 in
        let e := i + count in
        match nthz mode i, nthz mode (i + 1) with
        | Some flags, Some goto_n =>
          let i2 := i + 2 in
          let found :=
            if Z.land flags 1 =? 0
            then bsearch (S (Z.to_nat goto_n)) mode i2 r 0 goto_n
            else Some None in
          match found with
          | None => None
          | Some (Some s) =>
            Some (lexConsume,
                  {| sm_token := sm_token l; sm_state := s; sm_consumed := true; sm_accum := sm_accum l;
                     sm_mode := sm_mode l; sm_stack := sm_stack l |})
          | Some None =>
            (* at a token boundary an empty match is not a token: the actions are skipped *)
            match (if negb (sm_consumed l) then AFall l
                   else run_actions (S (Z.to_nat count)) mode (i2 + goto_n * 3) e l) with
            | ACrash => None
            | AReturn code l' => Some (code, l')
            | AFall l' =>
              if negb (sm_consumed l') && (r =? -1) && negb (sm_accum l')
              then Some (lexEOF, l') else Some (lexError, l')
            end
          end
        | _, _ => None
        end
      end
    end
  end.

End Lexer.

(* --- simplelexer.Lexer over an input already decoded into (rune, width) ---
   generic in the state machine (the StateMachine interface: PushRune, Token,
   Reset), so that the same driver runs the emitted tables and the reference
   automata. *)

Section Driver.
Variable M : Type.
Variable m_push : M -> Z -> option (Z * M).
Variable m_token : M -> Z.
Variable m_reset : M -> M.
Variable m_init : M.


Record lexer := {
  lx_sm : M;
  lx_rest : list (Z * Z);      (* current char is the head; [] = char -1 *)
  lx_off : Z;                  (* byte offset of the current char *)
}.

Definition lx_char (x : lexer) : Z :=
  match lx_rest x with [] => -1 | (r, _) :: _ => r end.

Definition lx_consume (x : lexer) : lexer :=
  match lx_rest x with
  | [] => x
  | (_, w) :: rest => {| lx_sm := lx_sm x; lx_rest := rest; lx_off := lx_off x + w |}
  end.

(* what one ReadToken call reports, plus the stretches it dropped on the way *)
Inductive seg :=
| SegTok (ty : Z) (b e : Z)     (* token of type ty with text input[b:e] *)
| SegDiscard (b e : Z)          (* text input[b:e] dropped by a discard action *)
| SegError (b e : Z)            (* ERROR token positioned at b; input[b:e] skipped *)
| SegEOF (b e : Z).             (* EOF token positioned at b; b < e = text accumulated and lost *)

Fixpoint skip_line (fuel : nat) (x : lexer) : lexer :=
  match fuel with
  | O => x
  | S f =>
    if (lx_char x =? 10) || (lx_char x =? -1) then x else skip_line f (lx_consume x)
  end.

Inductive rres :=
| RTok (segs : list seg) (x : lexer)     (* segments in order; the last one is the token *)
| RCrash
| RFuel.

(* start = None encodes start == -1 *)
Fixpoint read_token (fuel : nat) (x : lexer) (start : option Z) (acc : list seg) : rres :=
  match fuel with
  | O => RFuel
  | S f =>
    let st := match start with Some s => s | None => lx_off x end in
    match m_push (lx_sm x) (lx_char x) with
    | None => RCrash
    | Some (code, l') =>
      let x1 := {| lx_sm := l'; lx_rest := lx_rest x; lx_off := lx_off x |} in
      if code =? lexConsume then read_token f (lx_consume x1) (Some st) acc
      else if code =? lexAccept then RTok (rev (SegTok (m_token l') st (lx_off x) :: acc)) x1
      else if code =? lexDiscard then read_token f x1 None (SegDiscard st (lx_off x) :: acc)
      else if code =? lexTryAgain then read_token f x1 (Some st) acc
      else if code =? lexEOF then RTok (rev (SegEOF st (lx_off x) :: acc)) x1
      else
        let x2 := skip_line (S (length (lx_rest x1))) x1 in
        let x3 := lx_consume x2 in
        RTok (rev (SegError st (lx_off x3) :: acc))
             {| lx_sm := m_reset (lx_sm x3); lx_rest := lx_rest x3; lx_off := lx_off x3 |}
    end
  end.

Definition is_eof_seg (s : seg) : bool := match s with SegEOF _ _ => true | _ => false end.

Inductive lres :=
| LDone (segs : list seg)
| LCrash
| LFuel.

(* call ReadToken until it returns EOF *)
Fixpoint lex_all (fuel : nat) (x : lexer) (acc : list seg) : lres :=
  match fuel with
  | O => LFuel
  | S f =>
    match read_token fuel x None [] with
    | RCrash => LCrash
    | RFuel => LFuel
    | RTok segs x' =>
      if existsb is_eof_seg segs then LDone (acc ++ segs)
      else lex_all f x' (acc ++ segs)
    end
  end.

Definition lex_input (fuel : nat) (inp : list (Z * Z)) : lres :=
  lex_all fuel {| lx_sm := m_init; lx_rest := inp; lx_off := 0 |} [].

End Driver.

Arguments lx_sm {M}. Arguments lx_rest {M}. Arguments lx_off {M}.

(* the emitted tables under the reference driver *)
Definition lex_tables (modes : list (list Z)) (fuel : nat) (inp : list (Z * Z)) : lres :=
  lex_input sm (push_rune modes) sm_token sm_reset sm_init fuel inp.
