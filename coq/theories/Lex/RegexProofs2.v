(* Theorems about the derivative reference automaton, part 2: G5 the
   token-level specification (longest viable run, earliest matching rule,
   error otherwise), G6 the non-greedy mark at machine level. *)
From Coq Require Import List ZArith Lia Bool Arith ZifyBool.
From Lox Require Import Lex.LexRuntime Lex.LexAuto Lex.RegexRef Lex.RegexProofs.
Import ListNotations.
Local Open Scope Z_scope.

(* ---------- specification vocabulary ---------- *)

Definition wf_rules (rules : list rule) : Prop := Forall (fun r => wf_re (r_re r)) rules.

(* u is still a prefix of some match of the mode *)
Definition viable (rules : list rule) (u : list Z) : Prop :=
  exists i r v, nth_error rules i = Some r /\ matches (r_re r) (u ++ v).

(* rule number i (= r) is the earliest-declared rule matching exactly u *)
Definition earliest (rules : list rule) (u : list Z) (i : nat) (r : rule) : Prop :=
  nth_error rules i = Some r /\ matches (r_re r) u /\
  forall j r', (j < i)%nat -> nth_error rules j = Some r' -> ~ matches (r_re r') u.

Definition no_match (rules : list rule) (u : list Z) : Prop :=
  forall i r, nth_error rules i = Some r -> ~ matches (r_re r) u.

(* the action list selected at the end of the run u *)
Definition sel_acts (rules : list rule) (u : list Z) (acts : list (Z * Z)) : Prop :=
  (exists i r, earliest rules u i r /\ acts = r_acts r) \/ (no_match rules u /\ acts = []).

(* some rule carrying the non-greedy mark matches exactly u *)
Definition ng_match (rules : list rule) (u : list Z) : Prop :=
  exists i r, nth_error rules i = Some r /\ r_ng r = true /\ matches (r_re r) u.

Definition greedy (rules : list rule) : Prop := forall r, In r rules -> r_ng r = false.

(* the reference state after reading u *)
Definition der (rules : list rule) (u : list Z) : list re :=
  fold_left (fun st c => map (deriv c) st) u (map r_re rules).

Definition derw (u : list Z) (r : re) : re := fold_left (fun d c => deriv c d) u r.

Fixpoint first_null (st : list re) : option nat :=
  match st with
  | [] => None
  | d :: ds => if nullable d then Some O else option_map S (first_null ds)
  end.

(* ---------- word derivatives ---------- *)

Lemma derw_correct : forall u r v, matches (derw u r) v <-> matches r (u ++ v).
Proof.
  induction u as [|c u IH]; intros r v; cbn [derw fold_left app]; [tauto|].
  fold (derw u (deriv c r)). rewrite IH. apply deriv_correct.
Qed.

Lemma derw_clean : forall u r, clean r -> clean (derw u r).
Proof.
  induction u as [|c u IH]; intros r H; cbn [derw fold_left]; [exact H|].
  apply IH. apply deriv_clean. exact H.
Qed.

Lemma der_gen : forall (X : Type) u (f : X -> re) (l : list X),
  fold_left (fun st c => map (deriv c) st) u (map f l) = map (fun x => derw u (f x)) l.
Proof.
  intros X. induction u as [|c u IH]; intros f l; cbn [fold_left]; [reflexivity|].
  rewrite map_map. rewrite (IH (fun x => deriv c (f x)) l). reflexivity.
Qed.

Lemma der_map : forall rules u, der rules u = map (fun r => derw u (r_re r)) rules.
Proof. intros rules u. apply der_gen. Qed.

Lemma der_nil : forall rules, der rules [] = map r_re rules.
Proof. reflexivity. Qed.

Lemma der_snoc : forall rules u c, der rules (u ++ [c]) = map (deriv c) (der rules u).
Proof. intros rules u c. unfold der. rewrite fold_left_app. reflexivity. Qed.

Lemma derw_null : forall u r, nullable (derw u r) = true <-> matches r u.
Proof.
  intros u r. rewrite nullable_correct, derw_correct, app_nil_r. tauto.
Qed.

(* ---------- G5a: not dead = viable ---------- *)

Lemma forallb_map_false : forall (X : Type) (f : re -> bool) (g : X -> re) (l : list X),
  forallb f (map g l) = false <-> exists i x, nth_error l i = Some x /\ f (g x) = false.
Proof.
  intros X f g. induction l as [|x l IH]; cbn [map forallb].
  - split; [discriminate|]. intros [[|i] [y [H _]]]; discriminate H.
  - rewrite andb_false_iff, IH. split.
    + intros [H|[i [y [Hy Hf]]]].
      * exists O, x. auto.
      * exists (S i), y. auto.
    + intros [[|i] [y [Hy Hf]]]; cbn [nth_error] in Hy.
      * injection Hy as ->. left. exact Hf.
      * right. exists i, y. auto.
Qed.

Lemma wf_rules_nth : forall rules i r, wf_rules rules -> nth_error rules i = Some r -> wf_re (r_re r).
Proof.
  intros rules i r Hwf Hi. unfold wf_rules in Hwf. rewrite Forall_forall in Hwf.
  apply Hwf. apply (nth_error_In _ _ Hi).
Qed.

Theorem der_viable : forall rules u, wf_rules rules ->
  (forallb is_empty (der rules u) = false <-> viable rules u).
Proof.
  intros rules u Hwf. rewrite der_map, forallb_map_false. unfold viable.
  split.
  - intros [i [r [Hi He]]]. exists i, r.
    assert (Hc : clean (derw u (r_re r))).
    { apply derw_clean. right. apply (wf_rules_nth rules i r Hwf Hi). }
    apply (is_empty_false _ Hc) in He. destruct He as [v Hv].
    exists v. split; [exact Hi|]. apply derw_correct. exact Hv.
  - intros [i [r [v [Hi Hm]]]]. exists i, r. split; [exact Hi|].
    assert (Hc : clean (derw u (r_re r))).
    { apply derw_clean. right. apply (wf_rules_nth rules i r Hwf Hi). }
    apply (is_empty_false _ Hc). exists v. apply derw_correct. exact Hm.
Qed.
Print Assumptions der_viable.

Lemma viable_prefix : forall rules u v, viable rules (u ++ v) -> viable rules u.
Proof.
  intros rules u v [i [r [w [Hi Hm]]]]. exists i, r, (v ++ w). split; [exact Hi|].
  rewrite app_assoc. exact Hm.
Qed.

(* ---------- G5b: the first nullable component is the earliest matching rule ---------- *)

Lemma first_null_gen : forall u rules i,
  first_null (map (fun r => derw u (r_re r)) rules) = Some i <-> exists r, earliest rules u i r.
Proof.
  intros u. induction rules as [|r0 rules IH]; intros i; cbn [map first_null].
  - split; [discriminate|]. intros [r [H _]]. destruct i; discriminate H.
  - destruct (nullable (derw u (r_re r0))) eqn:En.
    + apply derw_null in En. split.
      * intros H. injection H as <-. exists r0. split; [reflexivity|]. split; [exact En|].
        intros j r' Hj. lia.
      * intros [r [Hi [Hm Hbefore]]]. destruct i as [|i]; [reflexivity|].
        exfalso. apply (Hbefore O r0 ltac:(lia) eq_refl En).
    + assert (Hn : ~ matches (r_re r0) u).
      { intros Hm. apply derw_null in Hm. rewrite Hm in En. discriminate. }
      split.
      * intros H. destruct (first_null (map (fun r => derw u (r_re r)) rules)) as [i'|] eqn:Ef;
          [|discriminate H].
        cbn [option_map] in H. injection H as <-.
        destruct (proj1 (IH i') eq_refl) as [r [Hi [Hm Hbefore]]].
        exists r. split; [exact Hi|]. split; [exact Hm|].
        intros [|j] r' Hj Hr'; cbn [nth_error] in Hr'.
        -- injection Hr' as <-. exact Hn.
        -- apply (Hbefore j r' ltac:(lia) Hr').
      * intros [r [Hi [Hm Hbefore]]]. destruct i as [|i]; cbn [nth_error] in Hi.
        -- injection Hi as ->. contradiction.
        -- assert (He : exists r1, earliest rules u i r1).
           { exists r. split; [exact Hi|]. split; [exact Hm|].
             intros j r' Hj Hr'. apply (Hbefore (S j) r' ltac:(lia)). exact Hr'. }
           apply IH in He. rewrite He. reflexivity.
Qed.

Theorem der_label : forall rules u i,
  first_null (der rules u) = Some i <-> exists r, earliest rules u i r.
Proof. intros rules u i. rewrite der_map. apply first_null_gen. Qed.
Print Assumptions der_label.

Lemma first_null_none_gen : forall u rules,
  first_null (map (fun r => derw u (r_re r)) rules) = None <-> no_match rules u.
Proof.
  intros u. induction rules as [|r0 rules IH]; cbn [map first_null].
  - split; [|reflexivity]. intros _ i r H. destruct i; discriminate H.
  - destruct (nullable (derw u (r_re r0))) eqn:En.
    + apply derw_null in En. split; [discriminate|]. intros H. exfalso. apply (H O r0 eq_refl En).
    + assert (Hn : ~ matches (r_re r0) u).
      { intros Hm. apply derw_null in Hm. rewrite Hm in En. discriminate. }
      destruct (first_null (map (fun r => derw u (r_re r)) rules)) as [i'|] eqn:Ef; cbn [option_map].
      * split; [discriminate|]. intros H. exfalso.
        assert (Hnm : no_match rules u) by (intros i r Hi; apply (H (S i) r); exact Hi).
        apply IH in Hnm. discriminate Hnm.
      * split; [|reflexivity]. intros _ [|i] r Hi; cbn [nth_error] in Hi.
        -- injection Hi as <-. exact Hn.
        -- apply (proj1 IH eq_refl i r Hi).
Qed.

Theorem der_label_none : forall rules u, first_null (der rules u) = None <-> no_match rules u.
Proof. intros rules u. rewrite der_map. apply first_null_none_gen. Qed.

(* the action list of the view is that of the first nullable component *)
Lemma first_acts_first_null : forall (g : rule -> re) rules,
  first_acts rules (map g rules) =
  match first_null (map g rules) with
  | Some i => match nth_error rules i with Some r => r_acts r | None => [] end
  | None => []
  end.
Proof.
  intros g. induction rules as [|r0 rules IH]; cbn [map first_acts first_null]; [reflexivity|].
  destruct (nullable (g r0)); [reflexivity|]. rewrite IH.
  destruct (first_null (map g rules)) as [i|]; reflexivity.
Qed.

Theorem sel_acts_first : forall rules u acts,
  sel_acts rules u acts -> first_acts rules (der rules u) = acts.
Proof.
  intros rules u acts Hsel. rewrite der_map, first_acts_first_null.
  destruct Hsel as [[i [r [He ->]]]|[Hn ->]].
  - assert (Hf : first_null (map (fun r => derw u (r_re r)) rules) = Some i).
    { apply first_null_gen. exists r. exact He. }
    rewrite Hf. destruct He as [Hi _]. rewrite Hi. reflexivity.
  - apply first_null_none_gen in Hn. rewrite Hn. reflexivity.
Qed.

Theorem sel_acts_exists : forall rules u, sel_acts rules u (first_acts rules (der rules u)).
Proof.
  intros rules u. rewrite der_map, first_acts_first_null.
  destruct (first_null (map (fun r => derw u (r_re r)) rules)) as [i|] eqn:Ef.
  - apply first_null_gen in Ef. destruct Ef as [r He]. left. exists i, r. split; [exact He|].
    destruct He as [Hi _]. rewrite Hi. reflexivity.
  - apply first_null_none_gen in Ef. right. split; [exact Ef|reflexivity].
Qed.
Print Assumptions sel_acts_first.

(* the flag of the view: some marked rule matches exactly u *)
Lemma any_ng_gen : forall u rules,
  any_ng rules (map (fun r => derw u (r_re r)) rules) = true <-> ng_match rules u.
Proof.
  intros u. induction rules as [|r0 rules IH]; cbn [map any_ng].
  - split; [discriminate|]. intros [i [r [H _]]]. destruct i; discriminate H.
  - rewrite orb_true_iff, andb_true_iff, derw_null, IH. split.
    + intros [[Hng Hm]|[i [r [Hi [Hng Hm]]]]].
      * exists O, r0. auto.
      * exists (S i), r. auto.
    + intros [[|i] [r [Hi [Hng Hm]]]]; cbn [nth_error] in Hi.
      * injection Hi as ->. left. auto.
      * right. exists i, r. auto.
Qed.

Theorem view_flag : forall rules u,
  v_flag (re_view rules (der rules u)) = true <-> ng_match rules u.
Proof. intros rules u. cbn [re_view v_flag]. rewrite der_map. apply any_ng_gen. Qed.

Lemma greedy_no_ng : forall rules u, greedy rules -> ~ ng_match rules u.
Proof.
  intros rules u Hg [i [r [Hi [Hng _]]]]. apply nth_error_In in Hi.
  rewrite (Hg r Hi) in Hng. discriminate.
Qed.

(* ---------- the machine ---------- *)

Definition in_unicode (c : Z) : Prop := 0 <= c <= 1114111.
Definition is_nil (u : list Z) : bool := match u with [] => true | _ => false end.

Section Machine.
Variable modes : list (list rule).
Variable m : nat.
Notation rules := (nth m modes []).
Notation st := (gsm (list re)).

Definition push (l : st) (c : Z) : option (Z * st) :=
  g_push_rune (list re) (re_auto modes) (re_start modes) (length modes) l c.

(* what PushRune answers when it does not consume.
   - at a token boundary (nothing read: g_fresh) no action runs -- an empty
     match is not a token --: lexEOF iff the input is exhausted and no
     accumulated text is pending, otherwise lexError; the state is unchanged;
   - after a non-empty run: the selected actions, falling through to lexError *)
Definition boundary_result (l : st) (c : Z) : option (Z * st) :=
  Some (if (c =? -1) && negb (g_accum l) then lexEOF else lexError, l).

Definition act_result (acts : list (Z * Z)) (l : st) : option (Z * st) :=
  match g_actions (list re) (re_start modes) (length modes) acts l with
  | GCrash _ => None
  | GReturn _ code l' => Some (code, l')
  | GFall _ l' => Some (lexError, l')
  end.

Definition stuck_result (acts : list (Z * Z)) (l : st) (c : Z) : option (Z * st) :=
  if g_fresh l then boundary_result l c else act_result acts l.

(* the machine is in mode m, has read exactly u since the last token boundary *)
Definition in_state (l : st) (u : list Z) : Prop :=
  g_mode l = m /\ g_state l = der rules u /\ g_fresh l = is_nil u.

Lemma stuck_result_nil : forall acts l c,
  in_state l [] -> stuck_result acts l c = boundary_result l c.
Proof. intros acts l c [_ [_ Hf]]. unfold stuck_result. rewrite Hf. reflexivity. Qed.

Lemma stuck_result_cons : forall acts l c x u,
  in_state l (x :: u) -> stuck_result acts l c = act_result acts l.
Proof. intros acts l c x u [_ [_ Hf]]. unfold stuck_result. rewrite Hf. reflexivity. Qed.

Lemma g_actions_code : forall acts (l l' : st) code,
  g_actions (list re) (re_start modes) (length modes) acts l = GReturn _ code l' ->
  code <> lexConsume.
Proof.
  induction acts as [|[ty p] acts IH]; intros l l' code H; cbn [g_actions] in H; [discriminate H|].
  destruct (ty =? 1).
  { destruct ((p <? 0) || (Z.of_nat (length modes) <=? p)); [discriminate H|]. apply (IH _ _ _ H). }
  destruct (ty =? 2).
  { destruct (g_stack l) as [|m' s'].
    - injection H as <- _. unfold lexError, lexConsume. lia.
    - apply (IH _ _ _ H). }
  destruct (ty =? 3); [injection H as <- _; unfold lexAccept, lexConsume; lia|].
  destruct (ty =? 4); [injection H as <- _; unfold lexDiscard, lexConsume; lia|].
  destruct (ty =? 5); [injection H as <- _; unfold lexTryAgain, lexConsume; lia|].
  apply (IH _ _ _ H).
Qed.

(* falling through the action list leaves the fresh flag alone *)
Lemma g_actions_fall_fresh : forall acts (l l' : st),
  g_actions (list re) (re_start modes) (length modes) acts l = GFall _ l' ->
  g_fresh l' = g_fresh l.
Proof.
  induction acts as [|[ty p] acts IH]; intros l l' H; cbn [g_actions] in H.
  - injection H as <-. reflexivity.
  - destruct (ty =? 1).
    { destruct ((p <? 0) || (Z.of_nat (length modes) <=? p)); [discriminate H|].
      apply IH in H. exact H. }
    destruct (ty =? 2).
    { destruct (g_stack l) as [|m' s']; [discriminate H|]. apply IH in H. exact H. }
    destruct (ty =? 3); [discriminate H|].
    destruct (ty =? 4); [discriminate H|].
    destruct (ty =? 5); [discriminate H|].
    apply (IH _ _ H).
Qed.

Lemma stuck_not_consume : forall acts l c code l',
  stuck_result acts l c = Some (code, l') -> code <> lexConsume.
Proof.
  intros acts l c code l' H. unfold stuck_result, boundary_result, act_result in H.
  destruct (g_fresh l).
  - injection H as <- _. destruct ((c =? -1) && negb (g_accum l)); unfold lexEOF, lexError, lexConsume; lia.
  - destruct (g_actions (list re) (re_start modes) (length modes) acts l) as [code0 l0|l0|] eqn:E.
    + injection H as <- _. apply (g_actions_code acts l l0 code0 E).
    + injection H as <- _. unfold lexError, lexConsume. lia.
    + discriminate H.
Qed.

(* the shape of the non-consuming branch of PushRune *)
Lemma push_stuck_shape : forall acts (l : st) c,
  match (if g_fresh l then GFall (list re) l
         else g_actions (list re) (re_start modes) (length modes) acts l) with
  | GCrash _ => None
  | GReturn _ code l' => Some (code, l')
  | GFall _ l' =>
    if g_fresh l' && (c =? -1) && negb (g_accum l') then Some (lexEOF, l') else Some (lexError, l')
  end = stuck_result acts l c.
Proof.
  intros acts l c. unfold stuck_result, boundary_result, act_result.
  destruct (g_fresh l) eqn:Ef.
  - rewrite Ef. cbn [andb]. destruct ((c =? -1) && negb (g_accum l)); reflexivity.
  - destruct (g_actions (list re) (re_start modes) (length modes) acts l) as [code0 l0|l0|] eqn:E;
      try reflexivity.
    rewrite (g_actions_fall_fresh acts l l0 E), Ef. reflexivity.
Qed.

(* G5c, one step: the next character is consumed iff the run stays viable *)
Theorem ref_step_consume : forall u c l,
  wf_rules rules -> in_state l u -> ~ ng_match rules u ->
  in_unicode c -> viable rules (u ++ [c]) ->
  push l c = Some (lexConsume,
                   Build_gsm (list re) (g_token l) (der rules (u ++ [c])) false (g_accum l) m (g_stack l)).
Proof.
  intros u c l Hwf [Hmode [Hstate Hfresh]] Hng Hc Hv.
  unfold push, g_push_rune, re_auto. rewrite Hmode, Hstate.
  destruct (v_flag (re_view rules (der rules u))) eqn:Ef.
  { exfalso. apply Hng. apply view_flag. exact Ef. }
  rewrite (view_lookup rules (der rules u) c Hc), <- der_snoc.
  apply (der_viable rules (u ++ [c]) Hwf) in Hv. rewrite Hv. reflexivity.
Qed.

(* G5c, one step: otherwise the earliest rule matching u acts, else error / EOF *)
Theorem ref_step_stuck : forall u c l acts,
  wf_rules rules -> in_state l u -> ~ ng_match rules u ->
  c = -1 \/ (in_unicode c /\ ~ viable rules (u ++ [c])) ->
  sel_acts rules u acts ->
  push l c = stuck_result acts l c.
Proof.
  intros u c l acts Hwf [Hmode [Hstate Hfresh]] Hng Hc Hsel.
  unfold push, g_push_rune, re_auto. rewrite Hmode, Hstate.
  destruct (v_flag (re_view rules (der rules u))) eqn:Ef.
  { exfalso. apply Hng. apply view_flag. exact Ef. }
  assert (Hl : lookup (list re) (v_trans (re_view rules (der rules u))) c = None).
  { destruct Hc as [->|[Hc Hnv]]; [apply view_lookup_eof|].
    rewrite (view_lookup rules (der rules u) c Hc), <- der_snoc.
    destruct (forallb is_empty (der rules (u ++ [c]))) eqn:E; [reflexivity|].
    exfalso. apply Hnv. apply (der_viable rules (u ++ [c]) Hwf). exact E. }
  rewrite Hl. cbn [re_view v_acts]. rewrite (sel_acts_first rules u acts Hsel).
  apply push_stuck_shape.
Qed.

(* G6: once a marked rule matches the text read so far, nothing more is
   consumed, whatever comes next *)
Theorem ref_step_ng : forall u c l acts,
  in_state l u -> ng_match rules u -> sel_acts rules u acts ->
  push l c = stuck_result acts l c.
Proof.
  intros u c l acts [Hmode [Hstate Hfresh]] Hng Hsel.
  unfold push, g_push_rune, re_auto. rewrite Hmode, Hstate.
  apply view_flag in Hng. rewrite Hng.
  cbn [re_view v_acts]. rewrite (sel_acts_first rules u acts Hsel).
  apply push_stuck_shape.
Qed.

Theorem ref_step_iff : forall u c l,
  wf_rules rules -> in_state l u -> ~ ng_match rules u -> in_unicode c ->
  ((exists l', push l c = Some (lexConsume, l')) <-> viable rules (u ++ [c])).
Proof.
  intros u c l Hwf Hin Hng Hc. split.
  - intros [l' Hp].
    destruct (forallb is_empty (der rules (u ++ [c]))) eqn:E.
    + exfalso.
      assert (Hnv : ~ viable rules (u ++ [c])).
      { intros Hv. apply (der_viable rules (u ++ [c]) Hwf) in Hv. rewrite Hv in E. discriminate. }
      rewrite (ref_step_stuck u c l _ Hwf Hin Hng (or_intror (conj Hc Hnv)) (sel_acts_exists rules u)) in Hp.
      apply stuck_not_consume in Hp. apply Hp. reflexivity.
    + apply (der_viable rules (u ++ [c]) Hwf). exact E.
  - intros Hv. eexists. apply (ref_step_consume u c l Hwf Hin Hng Hc Hv).
Qed.

(* no rule matches the run: error, or EOF at a token boundary at end of input
   with no accumulated text pending *)
Corollary ref_step_no_rule : forall u c l,
  wf_rules rules -> in_state l u -> ~ ng_match rules u ->
  c = -1 \/ (in_unicode c /\ ~ viable rules (u ++ [c])) ->
  no_match rules u ->
  push l c = Some (if is_nil u && (c =? -1) && negb (g_accum l) then lexEOF else lexError, l).
Proof.
  intros u c l Hwf Hin Hng Hc Hnm.
  rewrite (ref_step_stuck u c l [] Hwf Hin Hng Hc (or_intror (conj Hnm eq_refl))).
  unfold stuck_result, boundary_result, act_result. destruct Hin as [_ [_ Hfresh]]. rewrite Hfresh.
  destruct u as [|x u]; cbn [is_nil andb g_actions]; reflexivity.
Qed.

(* at a token boundary no action runs, whatever the rules say about the empty
   string: EOF iff end of input and nothing pending, else error; state unchanged *)
Corollary ref_step_boundary : forall c l,
  wf_rules rules -> in_state l [] ->
  c = -1 \/ (in_unicode c /\ ~ viable rules [c]) \/ ng_match rules [] ->
  push l c = Some (if (c =? -1) && negb (g_accum l) then lexEOF else lexError, l).
Proof.
  intros c l Hwf Hin Hc.
  assert (Hgoal : push l c = stuck_result (first_acts rules (der rules [])) l c).
  { destruct (v_flag (re_view rules (der rules []))) eqn:Ef.
    - apply view_flag in Ef. apply (ref_step_ng [] c l _ Hin Ef (sel_acts_exists rules [])).
    - assert (Hng : ~ ng_match rules []).
      { intros H. apply view_flag in H. rewrite H in Ef. discriminate. }
      apply (ref_step_stuck [] c l _ Hwf Hin Hng); [|apply sel_acts_exists].
      destruct Hc as [Hc|[Hc|Hc]]; [left; exact Hc|right; exact Hc|contradiction]. }
  rewrite Hgoal. apply (stuck_result_nil _ l c Hin).
Qed.

(* ---------- feeding a run of characters ---------- *)

Fixpoint consume_all (l : st) (cs : list Z) : option st :=
  match cs with
  | [] => Some l
  | c :: cs' =>
    match push l c with
    | Some (code, l') => if code =? lexConsume then consume_all l' cs' else None
    | None => None
    end
  end.

Definition next_char (rest : list Z) : Z := match rest with [] => -1 | c :: _ => c end.

Lemma is_nil_snoc : forall u (c : Z), is_nil (u ++ [c]) = false.
Proof. intros [|x u] c; reflexivity. Qed.

Lemma run_consume : forall v u0 l,
  wf_rules rules -> in_state l u0 -> Forall in_unicode v -> viable rules (u0 ++ v) ->
  (forall v1 v2, v = v1 ++ v2 -> v2 <> [] -> ~ ng_match rules (u0 ++ v1)) ->
  exists l1, consume_all l v = Some l1 /\ in_state l1 (u0 ++ v) /\
             g_token l1 = g_token l /\ g_stack l1 = g_stack l /\ g_accum l1 = g_accum l.
Proof.
  induction v as [|c v IH]; intros u0 l Hwf Hin Hchars Hv Hng.
  - exists l. rewrite app_nil_r. cbn [consume_all]. auto.
  - cbn [consume_all].
    assert (Hc : in_unicode c) by (apply (Forall_inv Hchars)).
    assert (Hv1 : viable rules (u0 ++ [c])).
    { apply (viable_prefix rules (u0 ++ [c]) v). rewrite <- app_assoc. exact Hv. }
    assert (Hng0 : ~ ng_match rules u0).
    { rewrite <- (app_nil_r u0). apply (Hng [] (c :: v) eq_refl). discriminate. }
    rewrite (ref_step_consume u0 c l Hwf Hin Hng0 Hc Hv1).
    cbn [Z.eqb lexConsume].
    set (l' := Build_gsm (list re) (g_token l) (der rules (u0 ++ [c])) false (g_accum l) m (g_stack l)).
    assert (Hin' : in_state l' (u0 ++ [c])).
    { unfold in_state, l'. cbn [g_mode g_state g_fresh]. rewrite is_nil_snoc. auto. }
    destruct (IH (u0 ++ [c]) l' Hwf Hin' (Forall_inv_tail Hchars)) as [l1 [H1 [H2 [H3 [H4 H5]]]]].
    + rewrite <- app_assoc. exact Hv.
    + intros v1 v2 Hvv Hne. rewrite <- app_assoc. apply (Hng (c :: v1) v2); [|exact Hne].
      cbn [app]. rewrite Hvv. reflexivity.
    + exists l1. rewrite <- app_assoc in H2. cbn [app] in H2. auto.
Qed.

(* the machine consumes a prefix of the input completely iff that prefix is viable *)
Lemma consume_iff : forall v u0 l,
  wf_rules rules -> greedy rules -> in_state l u0 -> Forall in_unicode v -> viable rules u0 ->
  ((exists l1, consume_all l v = Some l1) <-> viable rules (u0 ++ v)).
Proof.
  induction v as [|c v IH]; intros u0 l Hwf Hg Hin Hchars Hv0.
  - rewrite app_nil_r. cbn [consume_all]. split; [intros _; exact Hv0|intros _; exists l; reflexivity].
  - assert (Hc : in_unicode c) by (apply (Forall_inv Hchars)).
    pose proof (greedy_no_ng rules u0 Hg) as Hng0.
    replace (u0 ++ c :: v) with ((u0 ++ [c]) ++ v) by (rewrite <- app_assoc; reflexivity).
    cbn [consume_all]. split.
    + intros [l1 H1].
      destruct (push l c) as [[code l']|] eqn:Ep; [|discriminate H1].
      destruct (code =? lexConsume) eqn:Ec; [|discriminate H1].
      assert (code = lexConsume) by lia. subst code.
      assert (Hv1 : viable rules (u0 ++ [c])).
      { apply (ref_step_iff u0 c l Hwf Hin Hng0 Hc). exists l'. exact Ep. }
      rewrite (ref_step_consume u0 c l Hwf Hin Hng0 Hc Hv1) in Ep. injection Ep as <-.
      set (l2 := Build_gsm (list re) (g_token l) (der rules (u0 ++ [c])) false (g_accum l) m (g_stack l)) in *.
      assert (Hin2 : in_state l2 (u0 ++ [c])).
      { unfold in_state, l2. cbn [g_mode g_state g_fresh]. rewrite is_nil_snoc. auto. }
      apply (proj1 (IH (u0 ++ [c]) l2 Hwf Hg Hin2 (Forall_inv_tail Hchars) Hv1)).
      exists l1. exact H1.
    + intros Hv.
      assert (Hv1 : viable rules (u0 ++ [c])) by (apply (viable_prefix rules _ v Hv)).
      rewrite (ref_step_consume u0 c l Hwf Hin Hng0 Hc Hv1). cbn [Z.eqb lexConsume].
      set (l2 := Build_gsm (list re) (g_token l) (der rules (u0 ++ [c])) false (g_accum l) m (g_stack l)).
      assert (Hin2 : in_state l2 (u0 ++ [c])).
      { unfold in_state, l2. cbn [g_mode g_state g_fresh]. rewrite is_nil_snoc. auto. }
      apply (proj2 (IH (u0 ++ [c]) l2 Hwf Hg Hin2 (Forall_inv_tail Hchars) Hv1)). exact Hv.
Qed.

(* G5c.  Greedy mode, the machine at a token boundary l0, input s.  Let u be
   the longest prefix of s that is still a prefix of some match of the mode.
   Then the machine answers lexConsume on every character of u; on the next
   character c (-1 at the end of s) it does not consume:
   - if u is not empty it runs the actions of the earliest-declared rule
     matching exactly u, and answers lexError if they fall through, in
     particular if no rule matches u (acts = []);
   - if u is empty (nothing can be read at this boundary) no action runs, an
     empty match is not a token: the answer is lexEOF iff c = -1 and no
     accumulated text is pending, otherwise lexError, the state unchanged.
   Moreover a prefix of s is consumed completely iff it is viable. *)
Theorem ref_consumes_longest_viable : forall s u rest l0 acts,
  wf_rules rules -> greedy rules -> Forall in_unicode s ->
  in_state l0 [] ->
  s = u ++ rest -> viable rules u ->
  (forall c rest', rest = c :: rest' -> ~ viable rules (u ++ [c])) ->
  sel_acts rules u acts ->
  exists l1,
    consume_all l0 u = Some l1 /\ in_state l1 u /\
    g_token l1 = g_token l0 /\ g_stack l1 = g_stack l0 /\ g_accum l1 = g_accum l0 /\
    push l1 (next_char rest) = stuck_result acts l1 (next_char rest) /\
    (u <> [] -> push l1 (next_char rest) = act_result acts l1) /\
    (u = [] -> l1 = l0 /\
               push l1 (next_char rest) =
               Some (if (next_char rest =? -1) && negb (g_accum l0) then lexEOF else lexError, l0)) /\
    (forall code l2, push l1 (next_char rest) = Some (code, l2) -> code <> lexConsume) /\
    (forall u' rest', s = u' ++ rest' ->
       ((exists l', consume_all l0 u' = Some l') <-> viable rules u')).
Proof.
  intros s u rest l0 acts Hwf Hg Hchars Hin0 Hs Hv Hmax Hsel.
  assert (Hcu : Forall in_unicode u).
  { rewrite Hs in Hchars. apply Forall_app in Hchars. apply Hchars. }
  destruct (run_consume u [] l0 Hwf Hin0 Hcu Hv) as [l1 [H1 [H2 [H3 [H4 H5]]]]].
  { intros v1 v2 _ _. apply greedy_no_ng. exact Hg. }
  cbn [app] in H2. exists l1.
  assert (Hstuck : push l1 (next_char rest) = stuck_result acts l1 (next_char rest)).
  { apply (ref_step_stuck u _ l1 acts Hwf H2 (greedy_no_ng rules u Hg)); [|exact Hsel].
    destruct rest as [|c rest']; [left; reflexivity|right]. cbn [next_char]. split.
    - rewrite Hs in Hchars. apply Forall_app in Hchars. destruct Hchars as [_ Hr].
      apply (Forall_inv Hr).
    - apply (Hmax c rest' eq_refl). }
  assert (Hpre : forall u' rest', s = u' ++ rest' -> Forall in_unicode u').
  { intros u' rest' Hs'. rewrite Hs' in Hchars. apply Forall_app in Hchars. apply Hchars. }
  split; [exact H1|]. split; [exact H2|]. split; [exact H3|]. split; [exact H4|]. split; [exact H5|].
  split; [exact Hstuck|]. split; [|split; [|split]].
  - intros Hne. rewrite Hstuck. destruct u as [|x u0]; [congruence|].
    apply (stuck_result_cons acts l1 _ x u0 H2).
  - intros ->. cbn [consume_all] in H1. injection H1 as <-. split; [reflexivity|].
    rewrite Hstuck. apply (stuck_result_nil acts l0 _ H2).
  - intros code l2 Hp. rewrite Hstuck in Hp. apply (stuck_not_consume _ _ _ _ _ Hp).
  - intros u' rest' Hs'.
    apply (consume_iff u' [] l0 Hwf Hg Hin0 (Hpre u' rest' Hs') (viable_prefix rules [] u Hv)).
Qed.

(* G6 at token level: with non-greedy marks, the token ends at the SHORTEST
   prefix u of the input that matches a marked rule exactly, provided the run
   stays viable up to there (u matching a rule, it is viable itself): every
   character of u is consumed, and then nothing more, whatever follows: for
   u <> [] the actions of the earliest rule matching u run (lexError if they
   fall through); for u = [] (a marked rule matching the empty string) nothing
   runs: lexEOF iff c = -1 and nothing pending, else lexError, state unchanged. *)
Theorem ref_ng_shortest : forall u l0 acts,
  wf_rules rules -> Forall in_unicode u -> in_state l0 [] ->
  ng_match rules u ->
  (forall u1 u2, u = u1 ++ u2 -> u2 <> [] -> ~ ng_match rules u1) ->
  sel_acts rules u acts ->
  exists l1,
    consume_all l0 u = Some l1 /\ in_state l1 u /\
    g_token l1 = g_token l0 /\ g_stack l1 = g_stack l0 /\ g_accum l1 = g_accum l0 /\
    forall c, push l1 c = stuck_result acts l1 c /\
              (u <> [] -> push l1 c = act_result acts l1) /\
              (u = [] -> l1 = l0 /\
                 push l1 c = Some (if (c =? -1) && negb (g_accum l0) then lexEOF else lexError, l0)) /\
              forall code l2, push l1 c = Some (code, l2) -> code <> lexConsume.
Proof.
  intros u l0 acts Hwf Hchars Hin0 Hng Hshort Hsel.
  assert (Hv : viable rules ([] ++ u)).
  { destruct Hng as [i [r [Hi [_ Hm]]]]. exists i, r, []. rewrite app_nil_r. auto. }
  destruct (run_consume u [] l0 Hwf Hin0 Hchars Hv Hshort) as [l1 [H1 [H2 [H3 [H4 H5]]]]].
  cbn [app] in H2. exists l1.
  split; [exact H1|]. split; [exact H2|]. split; [exact H3|]. split; [exact H4|]. split; [exact H5|].
  intros c. pose proof (ref_step_ng u c l1 acts H2 Hng Hsel) as Hstuck.
  split; [exact Hstuck|]. split; [|split].
  - intros Hne. rewrite Hstuck. destruct u as [|x u0]; [congruence|].
    apply (stuck_result_cons acts l1 c x u0 H2).
  - intros ->. cbn [consume_all] in H1. injection H1 as <-. split; [reflexivity|].
    rewrite Hstuck. apply (stuck_result_nil acts l0 c H2).
  - intros code l2 Hp. rewrite Hstuck in Hp. apply (stuck_not_consume _ _ _ _ _ Hp).
Qed.

End Machine.

Print Assumptions ref_step_consume.
Print Assumptions ref_step_stuck.
Print Assumptions ref_step_ng.
Print Assumptions ref_step_iff.
Print Assumptions ref_step_no_rule.
Print Assumptions ref_step_boundary.
Print Assumptions ref_consumes_longest_viable.
Print Assumptions ref_ng_shortest.
