(* Generic facts about the simplelexer driver mirror: the position part
   (rest, offset) evolves independently of the state machine, and two state
   machines related by a bisimulation give equal read_token / lex_all results. *)
From Coq Require Import List ZArith Lia Bool Arith ZifyBool ZifyNat.
From Lox Require Import Lex.LexRuntime.
Import ListNotations.
Local Open Scope Z_scope.

(* ---------- the position component ---------- *)

Definition char_of (rest : list (Z * Z)) : Z :=
  match rest with [] => -1 | (r, _) :: _ => r end.

Definition consume_ro (rest : list (Z * Z)) (off : Z) : list (Z * Z) * Z :=
  match rest with [] => ([], off) | (_, w) :: rest' => (rest', off + w) end.

Fixpoint skip_ro (fuel : nat) (rest : list (Z * Z)) (off : Z) : list (Z * Z) * Z :=
  match fuel with
  | O => (rest, off)
  | S f =>
    if (char_of rest =? 10) || (char_of rest =? -1) then (rest, off)
    else skip_ro f (fst (consume_ro rest off)) (snd (consume_ro rest off))
  end.

Lemma lx_char_eq : forall M a rest off, lx_char M (Build_lexer M a rest off) = char_of rest.
Proof. reflexivity. Qed.

Lemma lx_consume_eq : forall M a rest off,
  lx_consume M (Build_lexer M a rest off) =
  Build_lexer M a (fst (consume_ro rest off)) (snd (consume_ro rest off)).
Proof. intros M a [|[r w] rest] off; reflexivity. Qed.

Lemma skip_line_eq : forall M f a rest off,
  skip_line M f (Build_lexer M a rest off) =
  Build_lexer M a (fst (skip_ro f rest off)) (snd (skip_ro f rest off)).
Proof.
  intros M. induction f as [|f IH]; intros a rest off; cbn [skip_line skip_ro]; [reflexivity|].
  rewrite lx_char_eq.
  destruct ((char_of rest =? 10) || (char_of rest =? -1)); [reflexivity|].
  rewrite lx_consume_eq. apply IH.
Qed.

Lemma consume_ro_forall : forall (P : Z * Z -> Prop) rest off,
  Forall P rest -> Forall P (fst (consume_ro rest off)).
Proof.
  intros P [|[r w] rest] off H; cbn [consume_ro fst]; [constructor|].
  inversion H; assumption.
Qed.

Lemma skip_ro_forall : forall (P : Z * Z -> Prop) f rest off,
  Forall P rest -> Forall P (fst (skip_ro f rest off)).
Proof.
  intros P. induction f as [|f IH]; intros rest off H; cbn [skip_ro]; [exact H|].
  destruct ((char_of rest =? 10) || (char_of rest =? -1)); [exact H|].
  apply IH. apply consume_ro_forall. exact H.
Qed.

Lemma existsb_rev_cons : forall (f : seg -> bool) s acc,
  existsb f (rev (s :: acc)) = f s || existsb f (rev acc).
Proof.
  intros f s acc. cbn [rev]. rewrite existsb_app. cbn [existsb].
  rewrite orb_false_r. apply orb_comm.
Qed.

(* ---------- bisimulation ---------- *)

Section Bisim.
Variables MA MB : Type.
Variable pushA : MA -> Z -> option (Z * MA).
Variable tokA : MA -> Z.
Variable resetA : MA -> MA.
Variable pushB : MB -> Z -> option (Z * MB).
Variable tokB : MB -> Z.
Variable resetB : MB -> MB.
Variable Rel : MA -> MB -> Prop.
Variable okr : Z -> Prop.

Hypothesis okr_eof : okr (-1).
Hypothesis step : forall a b r, Rel a b -> okr r ->
  match pushA a r, pushB b r with
  | None, None => True
  | Some (c, a'), Some (c', b') =>
    c = c' /\ tokA a' = tokB b' /\
    (0 <= c <= 3 -> Rel a' b') /\
    (~ 0 <= c <= 4 -> Rel (resetA a') (resetB b'))
  | _, _ => False
  end.

Definition lxrel (x : lexer MA) (y : lexer MB) : Prop :=
  Rel (lx_sm x) (lx_sm y) /\ lx_rest x = lx_rest y /\ lx_off x = lx_off y /\
  Forall (fun p => okr (fst p)) (lx_rest x).

Definition rrel (ra : rres MA) (rb : rres MB) : Prop :=
  match ra, rb with
  | RTok _ sa xa, RTok _ sb xb => sa = sb /\ (existsb is_eof_seg sa = true \/ lxrel xa xb)
  | RCrash _, RCrash _ => True
  | RFuel _, RFuel _ => True
  | _, _ => False
  end.

Lemma okr_char : forall rest, Forall (fun p => okr (fst p)) rest -> okr (char_of rest).
Proof.
  intros [|[r w] rest] H; cbn [char_of]; [exact okr_eof|].
  inversion H; subst. assumption.
Qed.

Lemma read_token_bisim : forall fuel x y start acc,
  lxrel x y ->
  rrel (read_token MA pushA tokA resetA fuel x start acc)
       (read_token MB pushB tokB resetB fuel y start acc).
Proof.
  induction fuel as [|f IH]; intros x y start acc Hxy; [exact I|].
  destruct x as [a rest off]. destruct y as [b rest' off'].
  destruct Hxy as [Hrel [Hr [Ho Hok]]]. cbn [lx_sm lx_rest lx_off] in *. subst rest' off'.
  cbn [read_token]. rewrite !lx_char_eq. cbn [lx_sm lx_rest lx_off].
  pose proof (step a b (char_of rest) Hrel (okr_char rest Hok)) as Hstep.
  destruct (pushA a (char_of rest)) as [[c a']|]; destruct (pushB b (char_of rest)) as [[c' b']|];
    try contradiction; [|exact I].
  destruct Hstep as [<- [Htok [Hcont Hreset]]].
  destruct (c =? lexConsume) eqn:E0.
  { rewrite !lx_consume_eq. apply IH. unfold lxrel; cbn [lx_sm lx_rest lx_off].
    split; [apply Hcont; unfold lexConsume in E0; lia|].
    split; [reflexivity|]. split; [reflexivity|]. apply consume_ro_forall. exact Hok. }
  destruct (c =? lexAccept) eqn:E1.
  { cbn [rrel]. rewrite Htok. split; [reflexivity|]. right.
    unfold lxrel; cbn [lx_sm lx_rest lx_off].
    split; [apply Hcont; unfold lexAccept in E1; lia|]. auto. }
  destruct (c =? lexDiscard) eqn:E2.
  { apply IH. unfold lxrel; cbn [lx_sm lx_rest lx_off].
    split; [apply Hcont; unfold lexDiscard in E2; lia|]. auto. }
  destruct (c =? lexTryAgain) eqn:E3.
  { apply IH. unfold lxrel; cbn [lx_sm lx_rest lx_off].
    split; [apply Hcont; unfold lexTryAgain in E3; lia|]. auto. }
  destruct (c =? lexEOF) eqn:E4.
  { cbn [rrel]. split; [reflexivity|]. left. rewrite existsb_rev_cons. reflexivity. }
  rewrite !skip_line_eq, !lx_consume_eq. cbn [lx_sm lx_rest lx_off rrel length].
  split; [reflexivity|]. right. unfold lxrel; cbn [lx_sm lx_rest lx_off].
  split.
  { apply Hreset. unfold lexConsume, lexAccept, lexDiscard, lexTryAgain, lexEOF in *. lia. }
  split; [reflexivity|]. split; [reflexivity|].
  apply consume_ro_forall. apply skip_ro_forall. exact Hok.
Qed.

Lemma lex_all_bisim : forall fuel x y acc,
  lxrel x y ->
  lex_all MA pushA tokA resetA fuel x acc = lex_all MB pushB tokB resetB fuel y acc.
Proof.
  induction fuel as [|f IH]; intros x y acc Hxy; [reflexivity|].
  cbn [lex_all].
  pose proof (read_token_bisim (S f) x y None [] Hxy) as H.
  destruct (read_token MA pushA tokA resetA (S f) x None []) as [sa xa| |];
    destruct (read_token MB pushB tokB resetB (S f) y None []) as [sb xb| |];
    cbn [rrel] in H; try contradiction; try reflexivity.
  destruct H as [<- H].
  destruct (existsb is_eof_seg sa) eqn:E; [reflexivity|].
  destruct H as [H|H]; [discriminate|]. apply IH. exact H.
Qed.

Lemma lex_input_bisim : forall initA initB fuel inp,
  Rel initA initB -> (forall r w, In (r, w) inp -> okr r) ->
  lex_input MA pushA tokA resetA initA fuel inp = lex_input MB pushB tokB resetB initB fuel inp.
Proof.
  intros initA initB fuel inp Hinit Hinp. unfold lex_input. apply lex_all_bisim.
  unfold lxrel; cbn [lx_sm lx_rest lx_off].
  split; [exact Hinit|]. split; [reflexivity|]. split; [reflexivity|].
  apply Forall_forall. intros [r w] Hin. cbn [fst]. apply (Hinp r w Hin).
Qed.

End Bisim.
