(* Properties of the UTF-8 decoder model (Utf8Model.v, mirror of Go's
   utf8.DecodeRune / utf8.AppendRune).

   U1 decode_width            widths are 1..4 and account for the bytes consumed
   U2 decode_all_total        widths sum to the input length; every rune is a
                              Unicode scalar value (the hypothesis
                              0 <= r <= 1114111 of equiv_lex / lex_total)
   U3 decode_encode           decode (encode r ++ rest) = (r, |encode r|, rest)
   U4 invalid_gives_replacement
   U5 examples checked against Go 1.23 *)
From Coq Require Import List ZArith Lia Bool ZifyBool.
From Lox Require Import Lex.Utf8Model.
Import ListNotations.
Local Open Scope Z_scope.

Ltac Zify.zify_post_hook ::= Z.div_mod_to_equations.

(* ------------------------------------------------------------------ *)
(* U5: examples; the expected values are the output of a Go program using
   bytes.Reader.ReadRune / utf8.AppendRune (go 1.23) *)

Example ex_ascii : decode_all [65] = [(65, 1)].
Proof. vm_compute. reflexivity. Qed.
Example ex_ascii3 : decode_all [104; 105; 33] = [(104, 1); (105, 1); (33, 1)].
Proof. vm_compute. reflexivity. Qed.
Example ex_e_acute : decode_all [195; 169] = [(233, 2)].
Proof. vm_compute. reflexivity. Qed.
Example ex_euro : decode_all [226; 130; 172] = [(8364, 3)].
Proof. vm_compute. reflexivity. Qed.
Example ex_grin : decode_all [240; 159; 152; 128] = [(128512, 4)].
Proof. vm_compute. reflexivity. Qed.
Example ex_overlong : decode_all [192; 128] = [(65533, 1); (65533, 1)].
Proof. vm_compute. reflexivity. Qed.
Example ex_surrogate :
  decode_all [237; 160; 128] = [(65533, 1); (65533, 1); (65533, 1)].
Proof. vm_compute. reflexivity. Qed.
Example ex_truncated : decode_all [226; 130] = [(65533, 1); (65533, 1)].
Proof. vm_compute. reflexivity. Qed.
Example ex_lone_ff : decode_all [255] = [(65533, 1)].
Proof. vm_compute. reflexivity. Qed.
Example ex_above_max :
  decode_all [244; 144; 128; 128] =
  [(65533, 1); (65533, 1); (65533, 1); (65533, 1)].
Proof. vm_compute. reflexivity. Qed.
Example ex_max : decode_all [244; 143; 191; 191] = [(1114111, 4)].
Proof. vm_compute. reflexivity. Qed.
Example ex_d7ff : decode_all [237; 159; 191] = [(55295, 3)].
Proof. vm_compute. reflexivity. Qed.
Example ex_overlong3 :
  decode_all [224; 159; 191] = [(65533, 1); (65533, 1); (65533, 1)].
Proof. vm_compute. reflexivity. Qed.
Example ex_min3 : decode_all [224; 160; 128] = [(2048, 3)].
Proof. vm_compute. reflexivity. Qed.
Example ex_overlong4 :
  decode_all [240; 143; 191; 191] =
  [(65533, 1); (65533, 1); (65533, 1); (65533, 1)].
Proof. vm_compute. reflexivity. Qed.
Example ex_min4 : decode_all [240; 144; 128; 128] = [(65536, 4)].
Proof. vm_compute. reflexivity. Qed.
Example ex_mixed :
  decode_all [97; 226; 130; 65; 195; 169; 128; 240; 159; 152] =
  [(97, 1); (65533, 1); (65533, 1); (65, 1); (233, 2); (65533, 1);
   (65533, 1); (65533, 1); (65533, 1)].
Proof. vm_compute. reflexivity. Qed.
Example ex_real_fffd : decode_all [239; 191; 189] = [(65533, 3)].
Proof. vm_compute. reflexivity. Qed.
Example ex_min2 : decode_all [194; 128] = [(128, 2)].
Proof. vm_compute. reflexivity. Qed.
Example ex_max2 : decode_all [223; 191] = [(2047, 2)].
Proof. vm_compute. reflexivity. Qed.
Example ex_nul : decode_all [0; 127] = [(0, 1); (127, 1)].
Proof. vm_compute. reflexivity. Qed.
Example ex_empty : decode_all [] = [] /\ decode_rune [] = None.
Proof. vm_compute. split; reflexivity. Qed.

Example ex_encode :
  map encode_rune
    [0; 65; 127; 128; 233; 2047; 2048; 8364; 55295; 55296; 57343; 57344;
     65533; 65535; 65536; 128512; 1114111; 1114112; -1] =
  [[0]; [65]; [127]; [194; 128]; [195; 169]; [223; 191]; [224; 160; 128];
   [226; 130; 172]; [237; 159; 191]; [239; 191; 189]; [239; 191; 189];
   [238; 128; 128]; [239; 191; 189]; [239; 191; 191]; [240; 144; 128; 128];
   [240; 159; 152; 128]; [244; 143; 191; 191]; [239; 191; 189];
   [239; 191; 189]].
Proof. vm_compute. reflexivity. Qed.

(* checksums h := (h*31 + v) land 0x3FFFFFFF computed by the same Go program,
   v = r*8 + w over the ReadRune sequence of
     - all 4-byte strings with the first byte among 24 boundary values and the
       other bytes among 11 boundary values,
     - all 65536 2-byte strings;
   v = the bytes of AppendRune(nil, r) for r = -3, 94, .. (step 97) up to
   0x110003 *)
Definition hash_out (h : Z) (l : list (Z * Z)) : Z :=
  fold_left (fun h rw => Z.land (h * 31 + fst rw * 8 + snd rw) 1073741823) l h.

Definition boundary_bytes : list Z :=
  [0; 127; 128; 143; 144; 159; 160; 191; 192; 193; 194; 223; 224; 225; 236;
   237; 238; 239; 240; 241; 243; 244; 245; 255].
Definition tail_bytes : list Z :=
  [65; 127; 128; 143; 144; 159; 160; 191; 192; 226; 244].

Definition checksum4 : Z :=
  fold_left (fun h a => fold_left (fun h b => fold_left (fun h c =>
    fold_left (fun h d => hash_out h (decode_all [a; b; c; d]))
      tail_bytes h) tail_bytes h) tail_bytes h) boundary_bytes 0.

Definition all_bytes : list Z := map Z.of_nat (seq 0 256).

Definition checksum2 : Z :=
  fold_left (fun h a => fold_left (fun h b => hash_out h (decode_all [a; b]))
    all_bytes h) all_bytes 0.

Definition checksum_enc : Z :=
  fold_left (fun h k =>
    fold_left (fun h b => Z.land (h * 31 + b) 1073741823)
      (encode_rune (-3 + 97 * Z.of_nat k)) h) (seq 0 (Z.to_nat 11486)) 0.

Example ex_checksum4 : checksum4 = 982478160.
Proof. vm_compute. reflexivity. Qed.
Example ex_checksum2 : checksum2 = 680173056.
Proof. vm_compute. reflexivity. Qed.
Example ex_checksum_enc : checksum_enc = 106448942.
Proof. vm_compute. reflexivity. Qed.

(* ------------------------------------------------------------------ *)
(* the table `first` by byte class *)

Lemma first_spec b :
  (0 <= b < 128 /\ first b = as_) \/
  ((b < 0 \/ 128 <= b < 194 \/ 245 <= b) /\ first b = xx) \/
  (194 <= b < 224 /\ first b = s1) \/
  (b = 224 /\ first b = s2) \/
  ((225 <= b < 237 \/ 238 <= b < 240) /\ first b = s3) \/
  (b = 237 /\ first b = s4) \/
  (b = 240 /\ first b = s5) \/
  (241 <= b < 244 /\ first b = s6) \/
  (b = 244 /\ first b = s7).
Proof.
  unfold first.
  repeat match goal with
         | |- context [if ?c then _ else _] => destruct c eqn:?
         end; lia.
Qed.

(* ------------------------------------------------------------------ *)
(* decode_step by class of the first byte *)

Definition dec2 (p0 : Z) (t0 : list Z) : Z * Z * list Z :=
  match t0 with
  | b1 :: t1 => if cont_bad b1 then err t0 else (rune2 p0 b1, 2, t1)
  | _ => err t0
  end.

Definition dec3 (lo hi p0 : Z) (t0 : list Z) : Z * Z * list Z :=
  match t0 with
  | b1 :: b2 :: t2 =>
    if (b1 <? lo) || (hi <? b1) then err t0
    else if cont_bad b2 then err t0 else (rune3 p0 b1 b2, 3, t2)
  | _ => err t0
  end.

Definition dec4 (lo hi p0 : Z) (t0 : list Z) : Z * Z * list Z :=
  match t0 with
  | b1 :: b2 :: b3 :: t3 =>
    if (b1 <? lo) || (hi <? b1) then err t0
    else if cont_bad b2 then err t0
    else if cont_bad b3 then err t0 else (rune4 p0 b1 b2 b3, 4, t3)
  | _ => err t0
  end.

Lemma step_as p0 t0 : decode_step as_ p0 t0 = (p0, 1, t0).
Proof. reflexivity. Qed.
Lemma step_xx p0 t0 : decode_step xx p0 t0 = err t0.
Proof. reflexivity. Qed.
Lemma step_s1 p0 t0 : decode_step s1 p0 t0 = dec2 p0 t0.
Proof. destruct t0 as [|b1 t1]; reflexivity. Qed.

Lemma step_s2 p0 t0 : decode_step s2 p0 t0 = dec3 160 191 p0 t0.
Proof. destruct t0 as [|b1 [|b2 t2]]; reflexivity. Qed.
Lemma step_s3 p0 t0 : decode_step s3 p0 t0 = dec3 128 191 p0 t0.
Proof. destruct t0 as [|b1 [|b2 t2]]; reflexivity. Qed.
Lemma step_s4 p0 t0 : decode_step s4 p0 t0 = dec3 128 159 p0 t0.
Proof. destruct t0 as [|b1 [|b2 t2]]; reflexivity. Qed.
Lemma step_s5 p0 t0 : decode_step s5 p0 t0 = dec4 144 191 p0 t0.
Proof. destruct t0 as [|b1 [|b2 [|b3 t3]]]; reflexivity. Qed.
Lemma step_s6 p0 t0 : decode_step s6 p0 t0 = dec4 128 191 p0 t0.
Proof. destruct t0 as [|b1 [|b2 [|b3 t3]]]; reflexivity. Qed.
Lemma step_s7 p0 t0 : decode_step s7 p0 t0 = dec4 128 143 p0 t0.
Proof. destruct t0 as [|b1 [|b2 [|b3 t3]]]; reflexivity. Qed.

(* ------------------------------------------------------------------ *)
(* every result of decode_rune has one of five shapes (Table 3-7 of the
   Unicode standard, "well-formed UTF-8 byte sequences", plus the error) *)

Inductive shape : list Z -> Z -> Z -> list Z -> Prop :=
| sh_ascii p0 t : 0 <= p0 < 128 -> shape (p0 :: t) p0 1 t
| sh_err p0 t : p0 < 0 \/ 128 <= p0 -> shape (p0 :: t) RuneError 1 t
| sh_2 p0 b1 t :
    194 <= p0 < 224 -> 128 <= b1 <= 191 ->
    shape (p0 :: b1 :: t) (rune2 p0 b1) 2 t
| sh_3 p0 b1 b2 t :
    224 <= p0 < 240 -> 128 <= b1 <= 191 ->
    (p0 = 224 -> 160 <= b1) -> (p0 = 237 -> b1 <= 159) ->
    128 <= b2 <= 191 ->
    shape (p0 :: b1 :: b2 :: t) (rune3 p0 b1 b2) 3 t
| sh_4 p0 b1 b2 b3 t :
    240 <= p0 <= 244 -> 128 <= b1 <= 191 ->
    (p0 = 240 -> 144 <= b1) -> (p0 = 244 -> b1 <= 143) ->
    128 <= b2 <= 191 -> 128 <= b3 <= 191 ->
    shape (p0 :: b1 :: b2 :: b3 :: t) (rune4 p0 b1 b2 b3) 4 t.

Ltac split_ifs H :=
  repeat match type of H with
         | context [if ?c then _ else _] => destruct c eqn:?
         end.

Lemma dec2_shape p0 t0 r w rest :
  194 <= p0 < 224 -> dec2 p0 t0 = (r, w, rest) -> shape (p0 :: t0) r w rest.
Proof.
  intros Hp H. unfold dec2, err, cont_bad, locb, hicb in H.
  destruct t0 as [|b1 t1]; split_ifs H; inversion H; subst;
    constructor; lia.
Qed.

Lemma dec3_shape lo hi p0 t0 r w rest :
  224 <= p0 < 240 -> 128 <= lo -> hi <= 191 ->
  (p0 = 224 -> lo = 160) -> (p0 = 237 -> hi = 159) ->
  dec3 lo hi p0 t0 = (r, w, rest) -> shape (p0 :: t0) r w rest.
Proof.
  intros Hp Hlo Hhi H1 H2 H. unfold dec3, err, cont_bad, locb, hicb in H.
  destruct t0 as [|b1 [|b2 t2]]; split_ifs H; inversion H; subst;
    constructor; lia.
Qed.

Lemma dec4_shape lo hi p0 t0 r w rest :
  240 <= p0 <= 244 -> 128 <= lo -> hi <= 191 ->
  (p0 = 240 -> lo = 144) -> (p0 = 244 -> hi = 143) ->
  dec4 lo hi p0 t0 = (r, w, rest) -> shape (p0 :: t0) r w rest.
Proof.
  intros Hp Hlo Hhi H1 H2 H. unfold dec4, err, cont_bad, locb, hicb in H.
  destruct t0 as [|b1 [|b2 [|b3 t3]]]; split_ifs H; inversion H; subst;
    constructor; lia.
Qed.

Lemma decode_rune_shape bs r w rest :
  decode_rune bs = Some (r, w, rest) -> shape bs r w rest.
Proof.
  destruct bs as [|p0 t0]; [discriminate|]. unfold decode_rune. intros H.
  injection H as H.
  destruct (first_spec p0)
    as [[Hr Hf]|[[Hr Hf]|[[Hr Hf]|[[Hr Hf]|[[Hr Hf]|[[Hr Hf]|[[Hr Hf]|
        [[Hr Hf]|[Hr Hf]]]]]]]]]; rewrite Hf in H.
  - rewrite step_as in H. inversion H; subst. constructor; lia.
  - rewrite step_xx in H. inversion H; subst. constructor; lia.
  - rewrite step_s1 in H. apply dec2_shape; [lia|exact H].
  - rewrite step_s2 in H. eapply dec3_shape; [| | | | |exact H]; lia.
  - rewrite step_s3 in H. eapply dec3_shape; [| | | | |exact H]; lia.
  - rewrite step_s4 in H. eapply dec3_shape; [| | | | |exact H]; lia.
  - rewrite step_s5 in H. eapply dec4_shape; [| | | | |exact H]; lia.
  - rewrite step_s6 in H. eapply dec4_shape; [| | | | |exact H]; lia.
  - rewrite step_s7 in H. eapply dec4_shape; [| | | | |exact H]; lia.
Qed.

Lemma decode_rune_none bs : decode_rune bs = None <-> bs = [].
Proof. destruct bs; simpl; split; congruence. Qed.

(* ------------------------------------------------------------------ *)
(* U1 *)

Theorem decode_width bs r w rest :
  decode_rune bs = Some (r, w, rest) ->
  1 <= w <= 4 /\
  bs = firstn (Z.to_nat w) bs ++ rest /\
  Z.of_nat (length (firstn (Z.to_nat w) bs)) = w.
Proof.
  intros H. apply decode_rune_shape in H.
  destruct H; (split; [lia|split; reflexivity]).
Qed.
Print Assumptions decode_width.

Definition scalar (r : Z) : Prop :=
  0 <= r <= 1114111 /\ ~ (55296 <= r <= 57343).

Lemma decode_rune_scalar bs r w rest :
  decode_rune bs = Some (r, w, rest) -> scalar r.
Proof.
  intros H. apply decode_rune_shape in H. unfold scalar.
  destruct H; unfold RuneError, rune2, rune3, rune4; lia.
Qed.

(* ------------------------------------------------------------------ *)
(* U2 *)

Lemma shape_length bs r w rest :
  shape bs r w rest -> Z.of_nat (length bs) = w + Z.of_nat (length rest) /\ 1 <= w.
Proof. intros H. destruct H; cbn [length]; lia. Qed.

Lemma decode_all_fuel_total fuel : forall bs,
  (length bs < fuel)%nat ->
  sum_widths (decode_all_fuel fuel bs) = Z.of_nat (length bs) /\
  Forall scalar (runes_of (decode_all_fuel fuel bs)).
Proof.
  induction fuel as [|f IH]; intros bs Hlen; [lia|].
  cbn [decode_all_fuel].
  destruct (decode_rune bs) as [[[r w] rest]|] eqn:E.
  - pose proof (decode_rune_scalar _ _ _ _ E) as Hs.
    apply decode_rune_shape, shape_length in E.
    destruct (IH rest) as [IH1 IH2]; [lia|].
    unfold runes_of in *. cbn [sum_widths fold_right map fst snd].
    fold (sum_widths (decode_all_fuel f rest)).
    split; [lia|constructor; assumption].
  - apply decode_rune_none in E. subst. split; [reflexivity|constructor].
Qed.

(* no hypothesis on the input is needed: values outside 0..255 are decoded as
   invalid bytes *)
Theorem decode_all_total_gen bs :
  sum_widths (decode_all bs) = Z.of_nat (length bs) /\
  Forall (fun r => 0 <= r <= 1114111 /\ ~ (55296 <= r <= 57343))
         (runes_of (decode_all bs)).
Proof. unfold decode_all. apply decode_all_fuel_total. lia. Qed.

Theorem decode_all_total bs :
  Forall (fun b => 0 <= b <= 255) bs ->
  sum_widths (decode_all bs) = Z.of_nat (length bs) /\
  Forall (fun r => 0 <= r <= 1114111 /\ ~ (55296 <= r <= 57343))
         (runes_of (decode_all bs)).
Proof. intros _. apply decode_all_total_gen. Qed.
Print Assumptions decode_all_total.

(* the form asked by Lex/LexEquivProofs.equiv_lex and LexTotalProofs.lex_total *)
Corollary decode_all_runes_in_range bs :
  Forall (fun r => 0 <= r <= 1114111) (runes_of (decode_all bs)).
Proof.
  eapply Forall_impl; [|apply (proj2 (decode_all_total_gen bs))].
  cbv beta. intros r [H _]. exact H.
Qed.

(* every width is 1..4 *)
Lemma decode_all_fuel_widths fuel : forall bs,
  Forall (fun rw => 1 <= snd rw <= 4) (decode_all_fuel fuel bs).
Proof.
  induction fuel as [|f IH]; intros bs; cbn [decode_all_fuel]; [constructor|].
  destruct (decode_rune bs) as [[[r w] rest]|] eqn:E; [|constructor].
  constructor; [|apply IH]. apply decode_width in E. cbn [snd]. lia.
Qed.

Corollary decode_all_widths bs :
  Forall (fun rw => 1 <= snd rw <= 4) (decode_all bs).
Proof. apply decode_all_fuel_widths. Qed.

(* ------------------------------------------------------------------ *)
(* U3 *)

Ltac first_class b :=
  let Hr := fresh "Hr" in
  let Hf := fresh "Hf" in
  destruct (first_spec b)
    as [[Hr Hf]|[[Hr Hf]|[[Hr Hf]|[[Hr Hf]|[[Hr Hf]|[[Hr Hf]|[[Hr Hf]|
        [[Hr Hf]|[Hr Hf]]]]]]]]]; try (exfalso; lia); rewrite Hf; clear Hf.

Lemma orb_false_of a b : a = false -> b = false -> a || b = false.
Proof. intros -> ->. reflexivity. Qed.

Ltac kill_if :=
  match goal with
  | |- context [if ?c then _ else _] =>
    replace c with false
      by (symmetry; unfold cont_bad, locb, hicb; apply orb_false_of; lia)
  end.

Theorem decode_encode r rest :
  0 <= r <= 1114111 -> ~ (55296 <= r <= 57343) ->
  decode_rune (encode_rune r ++ rest) =
  Some (r, Z.of_nat (length (encode_rune r)), rest).
Proof.
  intros Hr Hs. unfold encode_rune, enc3, rune1Max, rune2Max, rune3Max,
    MaxRune, surrogateMin, surrogateMax.
  destruct ((0 <=? r) && (r <=? 127)) eqn:C1.
  { cbn [app length]. unfold decode_rune. first_class r.
    rewrite step_as. reflexivity. }
  destruct ((0 <=? r) && (r <=? 2047)) eqn:C2.
  { cbn [app length]. unfold decode_rune. first_class (192 + r / 64).
    rewrite step_s1. unfold dec2. kill_if.
    unfold rune2. do 3 f_equal. lia. }
  destruct ((r <? 0) || (1114111 <? r) || ((55296 <=? r) && (r <=? 57343)))
    eqn:C3; [exfalso; lia|].
  destruct (r <=? 65535) eqn:C4.
  { cbn [app length]. unfold decode_rune. first_class (224 + r / 4096).
    - rewrite step_s2. unfold dec3. do 2 kill_if.
      unfold rune3. do 3 f_equal. lia.
    - rewrite step_s3. unfold dec3. do 2 kill_if.
      unfold rune3. do 3 f_equal. lia.
    - rewrite step_s4. unfold dec3. do 2 kill_if.
      unfold rune3. do 3 f_equal. lia. }
  cbn [app length]. unfold decode_rune. first_class (240 + r / 262144).
  - rewrite step_s5. unfold dec4. do 3 kill_if.
    unfold rune4. do 3 f_equal. lia.
  - rewrite step_s6. unfold dec4. do 3 kill_if.
    unfold rune4. do 3 f_equal. lia.
  - rewrite step_s7. unfold dec4. do 3 kill_if.
    unfold rune4. do 3 f_equal. lia.
Qed.
Print Assumptions decode_encode.

(* ------------------------------------------------------------------ *)
(* U4 *)

Definition valid_prefix (bs : list Z) : Prop :=
  exists r' tl, scalar r' /\ bs = encode_rune r' ++ tl.

(* a (RuneError, 1) result means that the input does not start with the
   encoding of any scalar value (the first-byte hypothesis of the informal
   statement is not needed: U+FFFD itself decodes with width 3) *)
Theorem invalid_gives_replacement_gen bs rest :
  decode_rune bs = Some (RuneError, 1, rest) -> ~ valid_prefix bs.
Proof.
  intros H (r' & tl & [Hr Hs] & Hb). subst bs.
  rewrite (decode_encode r' tl Hr Hs) in H. injection H as H1 H2 H3.
  subst r'. vm_compute in H2. discriminate.
Qed.

Theorem invalid_gives_replacement p0 t rest :
  128 <= p0 ->
  decode_rune (p0 :: t) = Some (RuneError, 1, rest) ->
  ~ exists r' tl, (0 <= r' <= 1114111 /\ ~ (55296 <= r' <= 57343)) /\
                  p0 :: t = encode_rune r' ++ tl.
Proof. intros _ H. exact (invalid_gives_replacement_gen _ _ H). Qed.
Print Assumptions invalid_gives_replacement.

(* converse direction: a result other than (RuneError, 1) is the exact
   encoding of the rune returned, so DecodeRune recognises exactly the
   encodings produced by AppendRune on scalar values *)
Lemma shape_encode bs r w rest :
  shape bs r w rest ->
  (r = RuneError /\ w = 1) \/
  (bs = encode_rune r ++ rest /\ w = Z.of_nat (length (encode_rune r))).
Proof.
  intros H.
  destruct H; [right|left; split; reflexivity|right|right|right];
    unfold encode_rune, enc3, rune1Max, rune2Max, rune3Max, MaxRune,
      surrogateMin, surrogateMax, RuneError, rune2, rune3, rune4;
    repeat match goal with
           | |- context [if ?c then _ else _] => destruct c eqn:?
           end;
    try (exfalso; lia); cbn [app length];
    (split; [repeat f_equal; lia|reflexivity]).
Qed.

Theorem decode_valid_or_replacement bs r w rest :
  decode_rune bs = Some (r, w, rest) ->
  (r = RuneError /\ w = 1 /\ rest = tl bs /\ ~ valid_prefix bs) \/
  (scalar r /\ bs = encode_rune r ++ rest /\
   w = Z.of_nat (length (encode_rune r))).
Proof.
  intros H. pose proof (decode_rune_scalar _ _ _ _ H) as Hs.
  pose proof (decode_rune_shape _ _ _ _ H) as Hsh.
  destruct (shape_encode _ _ _ _ Hsh) as [[-> ->]|[Hb Hw]].
  - left. repeat split; [|exact (invalid_gives_replacement_gen _ _ H)].
    inversion Hsh; subst; try reflexivity.
  - right. auto.
Qed.
Print Assumptions decode_valid_or_replacement.

(* ------------------------------------------------------------------ *)
(* round trip on whole strings *)

Lemma encode_rune_length r : (1 <= length (encode_rune r) <= 4)%nat.
Proof.
  unfold encode_rune, enc3.
  repeat match goal with
         | |- context [if ?c then _ else _] => destruct c
         end; cbn [length]; lia.
Qed.

Lemma decode_all_fuel_encode_all rs : forall fuel,
  Forall scalar rs -> (length (encode_all rs) < fuel)%nat ->
  decode_all_fuel fuel (encode_all rs) =
  map (fun r => (r, Z.of_nat (length (encode_rune r)))) rs.
Proof.
  induction rs as [|r rs IH]; intros fuel Hs Hlen.
  - destruct fuel; reflexivity.
  - inversion Hs as [|? ? [Hr Hsr] Hs']; subst.
    destruct fuel as [|f]; [lia|].
    unfold encode_all in *. cbn [flat_map] in *. rewrite app_length in Hlen.
    cbn [decode_all_fuel]. rewrite (decode_encode r _ Hr Hsr).
    cbn [map]. f_equal. apply IH; [assumption|].
    pose proof (encode_rune_length r). lia.
Qed.

Theorem decode_all_encode_all rs :
  Forall (fun r => 0 <= r <= 1114111 /\ ~ (55296 <= r <= 57343)) rs ->
  decode_all (encode_all rs) =
  map (fun r => (r, Z.of_nat (length (encode_rune r)))) rs.
Proof.
  intros H. unfold decode_all. apply decode_all_fuel_encode_all; [exact H|lia].
Qed.

Corollary decode_all_encode_all_runes rs :
  Forall (fun r => 0 <= r <= 1114111 /\ ~ (55296 <= r <= 57343)) rs ->
  runes_of (decode_all (encode_all rs)) = rs.
Proof.
  intros H. rewrite (decode_all_encode_all rs H). unfold runes_of.
  rewrite map_map. cbn [fst]. apply map_id.
Qed.
Print Assumptions decode_all_encode_all_runes.
