(* Theorems about the derivative reference automaton, part 3: G6b the
   string-level meaning of a non-greedy-shaped rule  P B* T  (the shortest match
   ends at the first occurrence of T), and the shape of the transition list of
   a view (sorted, disjoint, inside 0..1114111). *)
From Coq Require Import List ZArith Lia Bool Arith ZifyBool.
From Lox Require Import Lex.LexRuntime Lex.LexAuto Lex.RegexRef Lex.RegexProofs.
Import ListNotations.
Local Open Scope Z_scope.

(* ---------- literals and starred classes ---------- *)

Lemma m_lit : forall cs w, matches (lit cs) w <-> w = cs.
Proof.
  induction cs as [|c cs IH]; intros w; cbn [lit].
  - apply m_eps.
  - assert (Hone : forall x, matches (RCls [(c, c)]) x <-> x = [c]).
    { intros x. rewrite m_cls. split.
      - intros [c' [-> Hc]]. apply in_cls_spec in Hc. destruct Hc as [lo [hi [[Heq|[]] Hr]]].
        injection Heq as <- <-. f_equal. lia.
      - intros ->. exists c. split; [reflexivity|]. apply in_cls_spec. exists c, c.
        split; [left; reflexivity|lia]. }
    destruct cs as [|c2 cs'].
    + apply Hone.
    + rewrite m_cat. split.
      * intros [u [v [-> [Hu Hv]]]]. apply Hone in Hu. apply IH in Hv. subst. reflexivity.
      * intros ->. exists [c], (c2 :: cs'). split; [reflexivity|]. split; [apply Hone; reflexivity|].
        apply IH. reflexivity.
Qed.

Definition in_B (bs : list (Z * Z)) (c : Z) : Prop := in_cls c bs = true.

Lemma m_star_cls : forall bs w, matches (RStar (RCls bs)) w <-> Forall (in_B bs) w.
Proof.
  intros bs w. split.
  - intros H. remember (RStar (RCls bs)) as r eqn:Er. revert Er.
    induction H as [| | | | | |a u v Hu IHu Hv IHv]; intros Er; try discriminate Er.
    + constructor.
    + injection Er as ->. apply Forall_app. split; [|apply IHv; reflexivity].
      apply m_cls in Hu. destruct Hu as [c [-> Hc]]. constructor; [exact Hc|constructor].
  - induction w as [|c w IH]; intros H; [constructor|].
    apply (MStarS (RCls bs) [c] w).
    + apply m_cls. exists c. split; [reflexivity|apply (Forall_inv H)].
    + apply IH. apply (Forall_inv_tail H).
Qed.

(* ---------- G6b ---------- *)

(* the shape lox gives to a non-greedy rule: prefix, any run of B, terminator *)
Definition ng_shape (P : re) (bs : list (Z * Z)) (T : re) : re :=
  RCat P (RCat (RStar (RCls bs)) T).

Definition fixed_len (P : re) (n : nat) : Prop := forall w, matches P w -> length w = n.

(* a match of P B* T is: a match of P, a run of B, the terminator *)
Theorem ng_shape_matches : forall P bs T t u,
  (forall w, matches T w <-> w = t) ->
  (matches (ng_shape P bs T) u <->
   exists p mid, u = p ++ mid ++ t /\ matches P p /\ Forall (in_B bs) mid).
Proof.
  intros P bs T t u HT. unfold ng_shape. rewrite m_cat. split.
  - intros [p [v [-> [Hp Hv]]]]. apply m_cat in Hv. destruct Hv as [mid [t' [-> [Hmid Ht]]]].
    apply HT in Ht. subst t'. apply m_star_cls in Hmid. exists p, mid. auto.
  - intros [p [mid [-> [Hp Hmid]]]]. exists p, (mid ++ t). split; [reflexivity|]. split; [exact Hp|].
    apply m_cat. exists mid, t. split; [reflexivity|]. split; [apply m_star_cls; exact Hmid|].
    apply HT. reflexivity.
Qed.

(* G6b, first half: every match ends with the terminator's code points *)
Theorem ng_shape_suffix : forall P bs t u,
  matches (ng_shape P bs (lit t)) u -> exists pre, u = pre ++ t.
Proof.
  intros P bs t u H. apply (ng_shape_matches P bs (lit t) t u (m_lit t)) in H.
  destruct H as [p [mid [-> _]]]. exists (p ++ mid). rewrite app_assoc. reflexivity.
Qed.

Lemma app_eq_len : forall (X : Type) (a1 a2 b1 b2 : list X),
  a1 ++ b1 = a2 ++ b2 -> length a1 = length a2 -> a1 = a2 /\ b1 = b2.
Proof.
  intros X. induction a1 as [|x a1 IH]; intros [|y a2] b1 b2 H Hlen; cbn [length] in Hlen;
    try discriminate Hlen.
  - cbn [app] in H. auto.
  - cbn [app] in H. injection H as -> H. injection Hlen as Hlen.
    destruct (IH a2 b1 b2 H Hlen) as [-> ->]. auto.
Qed.

(* G6b, second half.  s = u ++ rest, u the shortest prefix of s matching
   P B* T, P of fixed length n.  Then u = p ++ mid ++ t with |p| = n and mid a
   run of B, and this occurrence of t is the FIRST one at or after offset n
   that is separated from offset n by characters of B only. *)
Theorem first_occurrence_is_shortest_match_gen : forall P bs T t n s u rest,
  (forall w, matches T w <-> w = t) ->
  fixed_len P n ->
  s = u ++ rest ->
  matches (ng_shape P bs T) u ->
  (forall u' rest', s = u' ++ rest' -> matches (ng_shape P bs T) u' -> (length u <= length u')%nat) ->
  exists p mid,
    u = p ++ mid ++ t /\ length p = n /\ matches P p /\ Forall (in_B bs) mid /\
    forall p' mid' rest',
      s = p' ++ mid' ++ t ++ rest' -> length p' = n -> Forall (in_B bs) mid' ->
      (length mid <= length mid')%nat.
Proof.
  intros P bs T t n s u rest HT Hfix Hs Hm Hshort.
  apply (ng_shape_matches P bs T t u HT) in Hm. destruct Hm as [p [mid [Hu [Hp Hmid]]]].
  exists p, mid. pose proof (Hfix p Hp) as Hlen.
  split; [exact Hu|]. split; [exact Hlen|]. split; [exact Hp|]. split; [exact Hmid|].
  intros p' mid' rest' Hs' Hlen' Hmid'.
  assert (Hpp : p' = p).
  { rewrite Hs, Hu in Hs'. rewrite <- !app_assoc in Hs'.
    destruct (app_eq_len Z p p' _ _ Hs' ltac:(lia)) as [Heq _]. symmetry. exact Heq. }
  subst p'.
  assert (Hm' : matches (ng_shape P bs T) (p ++ mid' ++ t)).
  { apply (ng_shape_matches P bs T t _ HT). exists p, mid'. auto. }
  assert (Hs2 : s = (p ++ mid' ++ t) ++ rest').
  { rewrite Hs'. rewrite <- !app_assoc. reflexivity. }
  pose proof (Hshort _ rest' Hs2 Hm') as Hle.
  rewrite Hu in Hle. rewrite !app_length in Hle. lia.
Qed.

(* the instance for a literal terminator *)
Theorem first_occurrence_is_shortest_match : forall P bs t n s u rest,
  fixed_len P n ->
  s = u ++ rest ->
  matches (ng_shape P bs (lit t)) u ->
  (forall u' rest', s = u' ++ rest' -> matches (ng_shape P bs (lit t)) u' -> (length u <= length u')%nat) ->
  exists p mid,
    u = p ++ mid ++ t /\ length p = n /\ matches P p /\ Forall (in_B bs) mid /\
    forall p' mid' rest',
      s = p' ++ mid' ++ t ++ rest' -> length p' = n -> Forall (in_B bs) mid' ->
      (length mid <= length mid')%nat.
Proof.
  intros P bs t n s u rest. apply (first_occurrence_is_shortest_match_gen P bs (lit t) t n s u rest (m_lit t)).
Qed.
Print Assumptions first_occurrence_is_shortest_match.
Print Assumptions ng_shape_suffix.

(* prefixes of fixed length: literals and single classes *)
Lemma fixed_len_lit : forall t, fixed_len (lit t) (length t).
Proof. intros t w H. apply m_lit in H. subst. reflexivity. Qed.

Lemma fixed_len_cls : forall rs, fixed_len (RCls rs) 1.
Proof. intros rs w H. apply m_cls in H. destruct H as [c [-> _]]. reflexivity. Qed.

Lemma fixed_len_cat : forall a b n k, fixed_len a n -> fixed_len b k -> fixed_len (RCat a b) (n + k).
Proof.
  intros a b n k Ha Hb w H. apply m_cat in H. destruct H as [u [v [-> [Hu Hv]]]].
  rewrite app_length, (Ha u Hu), (Hb v Hv). reflexivity.
Qed.

(* ---------- the transition list of a view is sorted and disjoint ---------- *)

Fixpoint tr_sorted {X : Type} (prev : Z) (tr : list (Z * Z * X)) : Prop :=
  match tr with
  | [] => True
  | t :: rest => prev < fst (fst t) /\ fst (fst t) <= snd (fst t) <= 1114111 /\ tr_sorted (snd (fst t)) rest
  end.

Lemma tr_sorted_weaken : forall (X : Type) (tr : list (Z * Z * X)) p q,
  p <= q -> tr_sorted q tr -> tr_sorted p tr.
Proof.
  intros X [|t tr] p q Hpq H; [exact I|]. cbn [tr_sorted] in *. destruct H as [H1 H2]. split; [lia|exact H2].
Qed.

Lemma build_sorted : forall st pts prev,
  ssorted pts -> (forall p, In p pts -> prev < p <= 1114111) ->
  tr_sorted prev (build st (atoms pts)).
Proof.
  intros st. induction pts as [|p rest IH]; intros prev Hs Hr; [exact I|].
  cbn [ssorted] in Hs. destruct Hs as [Hp Hs].
  pose proof (Hr p (or_introl eq_refl)) as Hpr.
  cbn [atoms]. destruct rest as [|q rest'].
  - cbn [build fst snd]. destruct (forallb is_empty (map (deriv p) st)); [exact I|].
    cbn [tr_sorted fst snd]. split; [lia|]. split; [lia|exact I].
  - assert (Hpq : p < q) by (apply Hp; left; reflexivity).
    assert (Hrest : tr_sorted (q - 1) (build st (atoms (q :: rest')))).
    { apply IH; [exact Hs|]. intros y Hy. pose proof (Hr y (or_intror Hy)) as Hy1.
      destruct Hy as [<-|Hy]; [lia|]. cbn [ssorted] in Hs. destruct Hs as [Hq _].
      specialize (Hq y Hy). lia. }
    cbn [build fst snd]. destruct (forallb is_empty (map (deriv p) st)).
    + apply (tr_sorted_weaken _ _ prev (q - 1)); [lia|exact Hrest].
    + cbn [tr_sorted fst snd]. split; [lia|]. split; [|exact Hrest].
      pose proof (Hr q (or_intror (or_introl eq_refl))). lia.
Qed.

Theorem view_trans_sorted : forall rules st,
  tr_sorted (-1) (v_trans (re_view rules st)).
Proof.
  intros rules st. cbn [re_view v_trans]. rewrite st_points_eq.
  apply build_sorted; [apply pts_of_sorted|].
  intros p Hp. apply pts_of_in in Hp. destruct Hp as [->|[q [_ [Hr _]]]]; [lia|].
  unfold in_range in Hr. lia.
Qed.
Print Assumptions view_trans_sorted.

(* ---------- a non-greedy example:  '/*' .* '*/'  marked ---------- *)

Definition ex_comment : list rule :=
  [ {| r_re := ng_shape (lit [47; 42]) [(0, 1114111)] (lit [42; 47]); r_acts := [(4, 0)]; r_ng := true |} ].

Definition ex_run (cs : list Z) : list re :=
  fold_left (fun st c => map (deriv c) st) cs (re_start [ex_comment] 0).

(* after "/*a*/" the view stops (flag set) although '.' could go on *)
Example ex_comment_flag :
  v_flag (re_view ex_comment (ex_run [47; 42; 97; 42; 47])) = true /\
  v_acts (re_view ex_comment (ex_run [47; 42; 97; 42; 47])) = [(4, 0)] /\
  v_flag (re_view ex_comment (ex_run [47; 42; 97; 42])) = false.
Proof. vm_compute. auto. Qed.
