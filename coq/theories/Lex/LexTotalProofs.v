(* L6 / L7: on well-formed tables the lexer terminates on every input without
   crashing, and the segments it reports tile the input. *)
From Coq Require Import List ZArith Lia Bool Arith ZifyBool ZifyNat.
From Lox Require Import Lex.LexRuntime Lex.LexAuto
  Lex.LexLookupProofs Lex.LexDecodeProofs Lex.LexDriverProofs Lex.LexEquivProofs.
Import ListNotations.
Local Open Scope Z_scope.

Definition chars_ok (rest : list (Z * Z)) : Prop := Forall (fun p => 0 <= fst p) rest.

Lemma chars_ok_eof : forall rest, chars_ok rest -> char_of rest = -1 -> rest = [].
Proof.
  intros [|[r w] rest] H E; [reflexivity|]. cbn [char_of] in E. inversion H; subst.
  cbn [fst] in *. lia.
Qed.

Lemma consume_ro_len : forall rest off,
  (length (fst (consume_ro rest off)) <= length rest)%nat /\
  (rest <> [] -> (length (fst (consume_ro rest off)) < length rest)%nat).
Proof.
  intros [|[r w] rest] off; cbn [consume_ro fst length]; split; try lia. intros H. contradiction.
Qed.

Lemma skip_ro_len : forall f rest off, (length (fst (skip_ro f rest off)) <= length rest)%nat.
Proof.
  induction f as [|f IH]; intros rest off; cbn [skip_ro]; [cbn [fst]; lia|].
  destruct ((char_of rest =? 10) || (char_of rest =? -1)); [cbn [fst]; lia|].
  pose proof (IH (fst (consume_ro rest off)) (snd (consume_ro rest off))).
  pose proof (consume_ro_len rest off). lia.
Qed.

Lemma error_skip_len : forall f rest off,
  let p := skip_ro f rest off in
  (length (fst (consume_ro (fst p) (snd p))) <= length rest)%nat /\
  (rest <> [] -> (length (fst (consume_ro (fst p) (snd p))) < length rest)%nat).
Proof.
  intros f rest off p. pose proof (skip_ro_len f rest off) as H1. fold p in H1.
  pose proof (consume_ro_len (fst p) (snd p)) as [H2 H3].
  split; [lia|]. intros Hne.
  destruct (fst p) as [|q l] eqn:E.
  - cbn [consume_ro fst length]. destruct rest; [contradiction|cbn [length]; lia].
  - assert (q :: l <> []) by discriminate. specialize (H3 H). lia.
Qed.

(* ---------- what one PushRune call can do on well-formed tables ---------- *)

Lemma act_spec_term_code : forall nm acts md st c tk m' st',
  act_spec nm acts md st = OTerm c tk m' st' -> 1 <= c <= 3.
Proof.
  intros nm. induction acts as [|[ty p] rest IH]; intros md st c tk m' st' H; cbn [act_spec] in H;
    [discriminate|].
  destruct (ty =? 1).
  { destruct ((p <? 0) || (Z.of_nat nm <=? p)); [discriminate|]. eapply IH; exact H. }
  destruct (ty =? 2).
  { destruct st as [|m0 st0]; [discriminate|]. eapply IH; exact H. }
  destruct (ty =? 3); [injection H as <- _ _ _; unfold lexAccept; lia|].
  destruct (ty =? 4); [injection H as <- _ _ _; unfold lexDiscard; lia|].
  destruct (ty =? 5); [injection H as <- _ _ _; unfold lexTryAgain; lia|].
  eapply IH; exact H.
Qed.

Lemma push_rune_facts : forall modes l r,
  modes_wf modes = true -> sm_inv modes l ->
  exists c l', push_rune modes l r = Some (c, l') /\ sm_inv_w modes l' /\
    (c <> lexError -> sm_inv modes l') /\
    ((c = lexConsume /\ 0 <= r /\ sm_consumed l' = true /\ sm_accum l' = sm_accum l) \/
     (1 <= c <= 3 /\ sm_consumed l' = false /\ sm_consumed l = true /\
      sm_accum l' = (c =? lexTryAgain)) \/
     (c = lexEOF /\ r = -1 /\ sm_consumed l = false /\ sm_accum l = false) \/
     (c = lexError /\ (sm_consumed l = false -> r <> -1 \/ sm_accum l = true))).
Proof.
  intros modes l r Hwf [Hmd [Hs Hst]].
  destruct l as [tok s cn a md st]. cbn [sm_token sm_state sm_consumed sm_accum sm_mode sm_stack] in *.
  destruct (nth_error modes md) as [mode|] eqn:Emode; [|apply nth_error_None in Emode; lia].
  pose proof Hs as Hs_orig.
  rewrite (nth_error_nth _ _ _ Emode) in Hs.
  pose proof (modes_wf_mode _ _ _ Hwf Emode) as Hmwf.
  destruct (mode_wf_row _ _ _ Hmwf Hs) as [v [Hdec Hrow]].
  destruct Hrow as [Hsorted Htrans Hacts].
  rewrite (push_rune_eq modes md mode s v tok cn a st r Emode Hdec Hsorted).
  unfold sm_inv, sm_inv_w.
  destruct (if v_flag v then None else lookup Z (v_trans v) r) as [t|] eqn:Elk.
  - assert (Hlk : lookup Z (v_trans v) r = Some t) by (destruct (v_flag v); [discriminate|exact Elk]).
    destruct (lookup_some_in Z _ _ _ Hlk) as [lo [hi [Hin Hr]]].
    destruct (Htrans _ _ _ Hin) as [_ Ht].
    destruct (sorted_lo_pos _ _ _ _ Hsorted Hin) as [Hlo _].
    eexists. eexists. split; [reflexivity|].
    cbn [sm_token sm_state sm_consumed sm_accum sm_mode sm_stack].
    rewrite (nth_error_nth _ _ _ Emode).
    split; [split; assumption|]. split; [intros _; repeat split; try assumption; lia|].
    left. repeat split; try assumption; lia.
  - destruct cn; cbn [negb].
    2:{ cbn [sm_consumed sm_accum negb].
        destruct (true && (r =? -1) && negb a) eqn:Eeof.
        - eexists. eexists. split; [reflexivity|].
          cbn [sm_token sm_state sm_consumed sm_accum sm_mode sm_stack].
          split; [split; assumption|]. split; [intros _; split; [assumption|split; [exact Hs_orig|assumption]]|].
          right. right. left. split; [reflexivity|]. destruct a; cbn [negb] in Eeof; lia.
        - eexists. eexists. split; [reflexivity|].
          cbn [sm_token sm_state sm_consumed sm_accum sm_mode sm_stack].
          split; [split; assumption|]. split; [intros Hc; exfalso; apply Hc; reflexivity|].
          right. right. right. split; [reflexivity|]. intros _.
          destruct a; [right; reflexivity|left; cbn [negb] in Eeof; lia]. }
    pose proof (act_spec_ok (length modes) (v_acts v) md st Hacts Hmd Hst) as Hok.
    destruct (act_spec (length modes) (v_acts v) md st) as [|m' st'|c tk m' st'|m' st'] eqn:Eact;
      cbn [sm_out]; [contradiction| | |]; destruct Hok as [Hm' Hst'].
    + eexists. eexists. split; [reflexivity|].
      cbn [sm_token sm_state sm_consumed sm_accum sm_mode sm_stack].
      split; [split; assumption|]. split; [intros Hc; exfalso; apply Hc; reflexivity|].
      right. right. right. split; [reflexivity|]. intros Hc; discriminate Hc.
    + pose proof (act_spec_term_code _ _ _ _ _ _ _ _ Eact) as Hc.
      pose proof (nstates_pos modes m' Hwf Hm').
      eexists. eexists. split; [reflexivity|].
      cbn [sm_token sm_state sm_consumed sm_accum sm_mode sm_stack].
      split; [split; assumption|]. split; [intros _; repeat split; try assumption; lia|].
      right. left. split; [exact Hc|]. repeat split.
    + cbn [sm_consumed sm_accum negb andb].
      eexists. eexists. split; [reflexivity|].
      cbn [sm_token sm_state sm_consumed sm_accum sm_mode sm_stack].
      split; [split; assumption|]. split; [intros Hc; exfalso; apply Hc; reflexivity|].
      right. right. right. split; [reflexivity|]. intros Hc; discriminate Hc.
Qed.

(* the raw machine reports EOF only on the EOF rune, whatever the tables *)
Lemma run_actions_codes : forall modes fuel mode i e l c l',
  run_actions modes fuel mode i e l = AReturn c l' -> c <> lexEOF.
Proof.
  intros modes. induction fuel as [|f IH]; intros mode i e l c l' H; cbn [run_actions] in H;
    [discriminate|].
  destruct (i <? e); [|discriminate].
  destruct (nthz mode i) as [ty|]; [|discriminate].
  destruct (nthz mode (i + 1)) as [p|]; [|discriminate].
  destruct (ty =? 1).
  { destruct ((p <? 0) || (Z.of_nat (length modes) <=? p)); [discriminate|]. eapply IH; exact H. }
  destruct (ty =? 2).
  { destruct (sm_stack l); [injection H as <- _; discriminate|]. eapply IH; exact H. }
  destruct (ty =? 3); [injection H as <- _; discriminate|].
  destruct (ty =? 4); [injection H as <- _; discriminate|].
  destruct (ty =? 5); [injection H as <- _; discriminate|].
  eapply IH; exact H.
Qed.

Lemma push_rune_eof : forall modes l r l',
  push_rune modes l r = Some (lexEOF, l') -> r = -1.
Proof.
  intros modes l r l' H. unfold push_rune in H.
  destruct (nth_error modes (sm_mode l)) as [mode|]; [|discriminate].
  destruct (nthz mode (sm_state l)) as [i0|]; [|discriminate].
  destruct (nthz mode i0) as [count|]; [|discriminate].
  cbv zeta in H.
  destruct (nthz mode (i0 + 1)) as [flags|]; [|discriminate].
  destruct (nthz mode (i0 + 1 + 1)) as [goto_n|]; [|discriminate].
  match type of H with
  | match ?found with _ => _ end = _ => destruct found as [[t|]|]
  end; [discriminate| |discriminate].
  match type of H with
  | match ?ra with _ => _ end = _ => destruct ra as [c l1|l1|] eqn:Era
  end; [| |discriminate].
  - injection H as -> _. exfalso.
    destruct (negb (sm_consumed l)); [discriminate Era|].
    eapply run_actions_codes; [exact Era|reflexivity].
  - destruct (negb (sm_consumed l1) && (r =? -1) && negb (sm_accum l1)) eqn:E; [lia|discriminate].
Qed.

(* ---------- L7: tiling, for any state machine that reports EOF only at -1 ---------- *)

Definition seg_b (s : seg) : Z :=
  match s with SegTok _ b _ | SegDiscard b _ | SegError b _ | SegEOF b _ => b end.
Definition seg_e (s : seg) : Z :=
  match s with SegTok _ _ e | SegDiscard _ e | SegError _ e | SegEOF _ e => e end.

(* consecutive segments: the first begins at b, each begins where the previous
   one ends, the last ends at e *)
Fixpoint tiles (b : Z) (segs : list seg) (e : Z) : Prop :=
  match segs with
  | [] => b = e
  | s :: rest => seg_b s = b /\ tiles (seg_e s) rest e
  end.

Lemma tiles_app : forall l1 l2 b mid e, tiles b l1 mid -> tiles mid l2 e -> tiles b (l1 ++ l2) e.
Proof.
  induction l1 as [|s l1 IH]; intros l2 b mid e H1 H2; cbn [tiles app] in *.
  - subst. exact H2.
  - destruct H1 as [Hb H1]. split; [exact Hb|]. eapply IH; eassumption.
Qed.

Lemma tiles_last : forall pre s b e, tiles b (pre ++ [s]) e -> seg_e s = e.
Proof.
  induction pre as [|p pre IH]; intros s b e H; cbn [tiles app] in H.
  - destruct H as [_ H]. exact H.
  - destruct H as [_ H]. eapply IH. exact H.
Qed.

Definition total_width (inp : list (Z * Z)) : Z := fold_right (fun p a => snd p + a) 0 inp.

Lemma consume_ro_sum : forall rest off,
  snd (consume_ro rest off) + total_width (fst (consume_ro rest off)) = off + total_width rest.
Proof.
  intros [|[r w] rest] off; cbn [consume_ro fst snd total_width fold_right]; [reflexivity|].
  fold (total_width rest). lia.
Qed.

Lemma skip_ro_sum : forall f rest off,
  snd (skip_ro f rest off) + total_width (fst (skip_ro f rest off)) = off + total_width rest.
Proof.
  induction f as [|f IH]; intros rest off; cbn [skip_ro]; [reflexivity|].
  destruct ((char_of rest =? 10) || (char_of rest =? -1)); [reflexivity|].
  rewrite IH. apply consume_ro_sum.
Qed.

Definition noneof (s : seg) : Prop := is_eof_seg s = false.

Section Tiling.
Variable M : Type.
Variable push : M -> Z -> option (Z * M).
Variable tok : M -> Z.
Variable reset : M -> M.
Hypothesis eof_char : forall a r a', push a r = Some (lexEOF, a') -> r = -1.

Lemma read_token_tiles : forall fuel x start acc segs x',
  chars_ok (lx_rest x) ->
  read_token M push tok reset fuel x start acc = RTok M segs x' ->
  exists ds s,
    segs = rev acc ++ ds ++ [s] /\ Forall noneof ds /\
    tiles (match start with Some st => st | None => lx_off x end) (ds ++ [s]) (lx_off x') /\
    lx_off x' + total_width (lx_rest x') = lx_off x + total_width (lx_rest x) /\
    chars_ok (lx_rest x') /\
    (is_eof_seg s = true -> lx_rest x' = []).
Proof.
  induction fuel as [|f IH]; intros x start acc segs x' Hok H; [discriminate|].
  destruct x as [a rest off]. cbn [lx_sm lx_rest lx_off] in *.
  cbn [read_token] in H. rewrite lx_char_eq in H. cbn [lx_sm lx_rest lx_off] in H.
  set (st := match start with Some s => s | None => off end) in *.
  destruct (push a (char_of rest)) as [[c a']|] eqn:Ep; [|discriminate].
  destruct (c =? lexConsume) eqn:E0.
  { rewrite lx_consume_eq in H.
    pose proof (IH (Build_lexer M a' (fst (consume_ro rest off)) (snd (consume_ro rest off)))
                  (Some st) acc segs x' (consume_ro_forall _ rest off Hok) H) as H'.
    destruct H' as [ds [s [Hs [Hds [Ht [Hsum [Hok' Heof]]]]]]].
    cbn [lx_sm lx_rest lx_off] in *.
    exists ds, s. repeat split; try assumption.
    rewrite Hsum. apply consume_ro_sum. }
  destruct (c =? lexAccept) eqn:E1.
  { injection H as <- <-. cbn [lx_sm lx_rest lx_off].
    exists [], (SegTok (tok a') st off). cbn [rev app tiles seg_b seg_e is_eof_seg].
    repeat split; try assumption; try constructor. intros Hc; discriminate Hc. }
  destruct (c =? lexDiscard) eqn:E2.
  { destruct (IH (Build_lexer M a' rest off) None (SegDiscard st off :: acc) segs x' Hok H)
      as [ds [s [Hs [Hds [Ht [Hsum [Hok' Heof]]]]]]].
    cbn [lx_sm lx_rest lx_off] in *.
    exists (SegDiscard st off :: ds), s.
    split; [rewrite Hs; cbn [rev]; rewrite <- app_assoc; reflexivity|].
    split; [constructor; [reflexivity|exact Hds]|].
    split; [cbn [app tiles seg_b seg_e]; split; [reflexivity|exact Ht]|].
    repeat split; assumption. }
  destruct (c =? lexTryAgain) eqn:E3.
  { destruct (IH (Build_lexer M a' rest off) (Some st) acc segs x' Hok H)
      as [ds [s [Hs [Hds [Ht [Hsum [Hok' Heof]]]]]]].
    cbn [lx_sm lx_rest lx_off] in *.
    exists ds, s. repeat split; assumption. }
  destruct (c =? lexEOF) eqn:E4.
  { injection H as <- <-. cbn [lx_sm lx_rest lx_off].
    assert (c = lexEOF) by lia. subst c.
    pose proof (eof_char _ _ _ Ep) as Hch.
    exists [], (SegEOF st off). cbn [rev app tiles seg_b seg_e is_eof_seg].
    repeat split; try assumption; try constructor.
    intros _. apply chars_ok_eof; assumption. }
  rewrite skip_line_eq, lx_consume_eq in H.
  set (n := S (length _)) in H. clearbody n. cbn [lx_sm lx_rest lx_off] in H.
  injection H as <- <-. cbn [lx_sm lx_rest lx_off].
  eexists [], _. cbn [rev app tiles seg_b seg_e is_eof_seg].
  split; [reflexivity|]. split; [constructor|]. split; [split; reflexivity|].
  split; [rewrite consume_ro_sum; apply skip_ro_sum|].
  split; [apply consume_ro_forall; apply skip_ro_forall; exact Hok|].
  intros Hc; discriminate Hc.
Qed.

Lemma existsb_noneof : forall ds, Forall noneof ds -> existsb is_eof_seg ds = false.
Proof.
  induction ds as [|d ds IH]; intros H; [reflexivity|]. inversion H; subst.
  cbn [existsb]. rewrite H2. apply IH. assumption.
Qed.

Lemma noneof_existsb : forall ds, existsb is_eof_seg ds = false -> Forall noneof ds.
Proof.
  induction ds as [|d ds IH]; intros H; [constructor|]. cbn [existsb] in H.
  apply orb_false_iff in H. destruct H as [H1 H2]. constructor; [exact H1|apply IH; exact H2].
Qed.

Lemma lex_all_tiles : forall fuel x acc segs b0,
  chars_ok (lx_rest x) ->
  lex_all M push tok reset fuel x acc = LDone segs ->
  tiles b0 acc (lx_off x) -> Forall noneof acc ->
  exists pre s,
    segs = pre ++ [s] /\ is_eof_seg s = true /\ Forall noneof pre /\
    tiles b0 segs (lx_off x + total_width (lx_rest x)).
Proof.
  induction fuel as [|f IH]; intros x acc segs b0 Hok H Hacc Hne; [discriminate|].
  cbn [lex_all] in H.
  destruct (read_token M push tok reset (S f) x None []) as [segs1 x'| |] eqn:Er; try discriminate.
  destruct (read_token_tiles _ _ _ _ _ _ Hok Er) as [ds [s [Hs [Hds [Ht [Hsum [Hok' Heof]]]]]]].
  cbn [rev app] in Hs. subst segs1.
  destruct (existsb is_eof_seg (ds ++ [s])) eqn:Ee.
  - injection H as <-.
    rewrite existsb_app, (existsb_noneof ds Hds) in Ee. cbn [existsb orb] in Ee.
    rewrite orb_false_r in Ee.
    exists (acc ++ ds), s.
    split; [rewrite app_assoc; reflexivity|]. split; [exact Ee|].
    split; [apply Forall_app; split; assumption|].
    eapply tiles_app; [exact Hacc|].
    rewrite (Heof Ee) in Hsum. cbn [total_width fold_right] in Hsum.
    rewrite <- Hsum. replace (lx_off x' + 0) with (lx_off x') by lia. exact Ht.
  - rewrite <- Hsum. apply (IH x' (acc ++ ds ++ [s]) segs b0 Hok' H).
    + eapply tiles_app; [exact Hacc|exact Ht].
    + apply Forall_app. split; [exact Hne|]. apply noneof_existsb. exact Ee.
Qed.

End Tiling.

(* first segment begins at 0, each begins where the previous ends, exactly the
   last one is the EOF segment, and it ends at the total width of the input.
   (No well-formedness hypothesis on the tables is needed.) *)
Theorem lex_tiling : forall modes fuel inp segs,
  (forall r w, In (r, w) inp -> 0 <= r) ->
  lex_tables modes fuel inp = LDone segs ->
  exists pre b,
    segs = pre ++ [SegEOF b (total_width inp)] /\
    Forall noneof pre /\
    tiles 0 segs (total_width inp).
Proof.
  intros modes fuel inp segs Hinp H. unfold lex_tables, lex_input in H.
  assert (Hok : chars_ok inp).
  { apply Forall_forall. intros [r w] Hin. cbn [fst]. apply (Hinp r w Hin). }
  destruct (lex_all_tiles sm (push_rune modes) sm_token sm_reset (push_rune_eof modes)
              fuel (Build_lexer sm sm_init inp 0) [] segs 0 Hok H eq_refl (Forall_nil _)) as [pre [s [Hs [He [Hpre Ht]]]]].
  cbn [lx_off lx_rest] in Ht. replace (0 + total_width inp) with (total_width inp) in Ht by lia.
  pose proof Ht as Hlast. rewrite Hs in Hlast. apply tiles_last in Hlast.
  destruct s as [ty b e|b e|b e|b e]; try discriminate He. cbn [seg_e] in Hlast. subst e.
  exists pre, b. split; [exact Hs|]. split; [exact Hpre|exact Ht].
Qed.
Print Assumptions lex_tiling.

(* ---------- L6: totality ---------- *)

Definition phi (x : lexer sm) : nat :=
  (3 * length (lx_rest x) + (if sm_consumed (lx_sm x) then 2 else 0)
   + (if sm_accum (lx_sm x) then 1 else 0))%nat.

Section Total.
Variable modes : list (list Z).
Hypothesis Hwf : modes_wf modes = true.

Notation rt := (read_token sm (push_rune modes) sm_token sm_reset).
Notation la := (lex_all sm (push_rune modes) sm_token sm_reset).

Lemma read_token_total : forall fuel x start acc,
  sm_inv modes (lx_sm x) -> chars_ok (lx_rest x) -> (phi x < fuel)%nat ->
  exists segs x', rt fuel x start acc = RTok sm segs x' /\
    sm_inv modes (lx_sm x') /\ chars_ok (lx_rest x') /\
    (existsb is_eof_seg segs = true \/ (phi x' < phi x)%nat).
Proof.
  induction fuel as [|f IH]; intros x start acc Hinv Hok Hphi; [lia|].
  destruct x as [l rest off]. cbn [lx_sm lx_rest lx_off] in *.
  cbn [read_token]. rewrite lx_char_eq. cbn [lx_sm lx_rest lx_off].
  destruct (push_rune_facts modes l (char_of rest) Hwf Hinv)
    as [c [l' [Ep [Hw [Hfull Hcase]]]]].
  rewrite Ep. unfold phi in Hphi; cbn [lx_sm lx_rest] in Hphi.
  destruct Hcase as [[-> [Hr [Hs' Ha']]]|[[Hc [Hs' [Hs Ha']]]|[[-> [Hr _]]|[-> Hr]]]].
  - (* consume *)
    cbn [Z.eqb lexConsume]. rewrite lx_consume_eq.
    destruct rest as [|[r w] rest]; [cbn [char_of] in Hr; lia|].
    cbn [consume_ro fst snd].
    assert (Hinv' : sm_inv modes l') by (apply Hfull; discriminate).
    inversion Hok; subst.
    assert (Hdec : (phi (Build_lexer sm l' rest (off + w)) < phi (Build_lexer sm l ((r, w) :: rest) off))%nat).
    { unfold phi; cbn [lx_sm lx_rest length]. rewrite Ha', Hs'.
      destruct (sm_consumed l); lia. }
    destruct (IH (Build_lexer sm l' rest (off + w))
                (Some match start with Some s => s | None => off end) acc)
      as [segs [x' [Hrt [Hi [Hk Hd]]]]]; cbn [lx_sm lx_rest]; try assumption.
    { unfold phi in *; cbn [lx_sm lx_rest length] in *. lia. }
    exists segs, x'. split; [exact Hrt|]. split; [exact Hi|]. split; [exact Hk|].
    destruct Hd as [Hd|Hd]; [left; exact Hd|right; lia].
  - (* accept / discard / try again: back to state 0 *)
    assert (Hinv' : sm_inv modes l') by (apply Hfull; unfold lexError; lia).
    assert (Hdec : (phi (Build_lexer sm l' rest off) < phi (Build_lexer sm l rest off))%nat).
    { unfold phi; cbn [lx_sm lx_rest]. rewrite Hs', Hs.
      destruct (sm_accum l'); destruct (sm_accum l); lia. }
    destruct (c =? lexConsume) eqn:E0; [unfold lexConsume in E0; lia|].
    destruct (c =? lexAccept) eqn:E1.
    { eexists. eexists. split; [reflexivity|]. cbn [lx_sm lx_rest].
      split; [exact Hinv'|]. split; [exact Hok|]. right. exact Hdec. }
    assert (Hf : (phi (Build_lexer sm l' rest off) < f)%nat).
    { unfold phi in *; cbn [lx_sm lx_rest] in *. lia. }
    destruct (c =? lexDiscard) eqn:E2.
    { destruct (IH (Build_lexer sm l' rest off) None
                  (SegDiscard match start with Some s => s | None => off end off :: acc)
                  Hinv' Hok Hf) as [segs [x' [Hrt [Hi [Hk Hd]]]]].
      exists segs, x'. split; [exact Hrt|]. split; [exact Hi|]. split; [exact Hk|].
      destruct Hd as [Hd|Hd]; [left; exact Hd|right; lia]. }
    destruct (c =? lexTryAgain) eqn:E3; [|unfold lexAccept, lexDiscard, lexTryAgain in *; lia].
    destruct (IH (Build_lexer sm l' rest off)
                (Some match start with Some s => s | None => off end) acc
                Hinv' Hok Hf) as [segs [x' [Hrt [Hi [Hk Hd]]]]].
    exists segs, x'. split; [exact Hrt|]. split; [exact Hi|]. split; [exact Hk|].
    destruct Hd as [Hd|Hd]; [left; exact Hd|right; lia].
  - (* EOF *)
    cbn [Z.eqb lexEOF lexConsume lexAccept lexDiscard lexTryAgain].
    eexists. eexists. split; [reflexivity|]. cbn [lx_sm lx_rest].
    split; [apply Hfull; discriminate|]. split; [exact Hok|].
    left. rewrite existsb_rev_cons. reflexivity.
  - (* error: skip the line, reset *)
    cbn [Z.eqb lexError lexEOF lexConsume lexAccept lexDiscard lexTryAgain].
    rewrite skip_line_eq, lx_consume_eq. cbn [lx_sm lx_rest lx_off length].
    eexists. eexists. split; [reflexivity|]. cbn [lx_sm lx_rest].
    split; [apply sm_inv_reset; assumption|].
    split; [apply consume_ro_forall; apply skip_ro_forall; exact Hok|].
    right. unfold phi; cbn [lx_sm lx_rest sm_reset sm_consumed sm_accum].
    pose proof (error_skip_len (S (length rest)) rest off) as [Hle Hlt]. cbv zeta in Hle, Hlt.
    destruct (sm_consumed l) eqn:E; [lia|].
    destruct (Hr eq_refl) as [Hr'|Hacc].
    + assert (Hne : rest <> []).
      { intros ->. cbn [char_of] in Hr'. apply Hr'. reflexivity. }
      specialize (Hlt Hne). lia.
    + rewrite Hacc. lia.
Qed.

Lemma lex_all_total : forall fuel x acc,
  sm_inv modes (lx_sm x) -> chars_ok (lx_rest x) -> (phi x < fuel)%nat ->
  exists segs, la fuel x acc = LDone segs.
Proof.
  induction fuel as [|f IH]; intros x acc Hinv Hok Hphi; [lia|].
  cbn [lex_all].
  destruct (read_token_total (S f) x None [] Hinv Hok Hphi) as [segs [x' [Hrt [Hi [Hk Hd]]]]].
  rewrite Hrt. destruct (existsb is_eof_seg segs) eqn:E.
  - eexists. reflexivity.
  - destruct Hd as [Hd|Hd]; [discriminate|]. apply IH; try assumption. lia.
Qed.

Theorem lex_total : forall inp,
  (forall r w, In (r, w) inp -> 0 <= r) ->
  exists segs, lex_tables modes (3 * length inp + 1) inp = LDone segs.
Proof.
  intros inp Hinp. unfold lex_tables, lex_input. apply lex_all_total; cbn [lx_sm lx_rest].
  - apply sm_inv_init. exact Hwf.
  - apply Forall_forall. intros [r w] Hin. cbn [fst]. apply (Hinp r w Hin).
  - unfold phi; cbn [lx_sm lx_rest sm_init sm_consumed sm_accum]. lia.
Qed.

(* no crash, for any fuel and any input whatsoever *)
Lemma read_token_no_crash : forall fuel x start acc,
  sm_inv modes (lx_sm x) ->
  match rt fuel x start acc with
  | RCrash _ => False
  | RTok _ _ x' => sm_inv modes (lx_sm x')
  | RFuel _ => True
  end.
Proof.
  induction fuel as [|f IH]; intros x start acc Hinv; [exact I|].
  destruct x as [l rest off]. cbn [lx_sm lx_rest lx_off] in *.
  cbn [read_token]. rewrite lx_char_eq. cbn [lx_sm lx_rest lx_off].
  destruct (push_rune_facts modes l (char_of rest) Hwf Hinv)
    as [c [l' [Ep [Hw [Hfull _]]]]].
  rewrite Ep.
  destruct (c =? lexConsume) eqn:E0.
  { rewrite lx_consume_eq. apply IH. cbn [lx_sm]. apply Hfull. unfold lexConsume, lexError in *. lia. }
  destruct (c =? lexAccept) eqn:E1.
  { cbn [lx_sm]. apply Hfull. unfold lexAccept, lexError in *. lia. }
  destruct (c =? lexDiscard) eqn:E2.
  { apply IH. cbn [lx_sm]. apply Hfull. unfold lexDiscard, lexError in *. lia. }
  destruct (c =? lexTryAgain) eqn:E3.
  { apply IH. cbn [lx_sm]. apply Hfull. unfold lexTryAgain, lexError in *. lia. }
  destruct (c =? lexEOF) eqn:E4.
  { cbn [lx_sm]. apply Hfull. unfold lexEOF, lexError in *. lia. }
  rewrite skip_line_eq, lx_consume_eq. cbn [lx_sm lx_rest lx_off].
  apply sm_inv_reset; assumption.
Qed.

Lemma lex_all_no_crash : forall fuel x acc,
  sm_inv modes (lx_sm x) -> la fuel x acc <> LCrash.
Proof.
  induction fuel as [|f IH]; intros x acc Hinv; [discriminate|].
  cbn [lex_all]. pose proof (read_token_no_crash (S f) x None [] Hinv) as H.
  destruct (rt (S f) x None []) as [segs x'| |]; [|contradiction|discriminate].
  destruct (existsb is_eof_seg segs); [discriminate|]. apply IH. exact H.
Qed.

Theorem lex_no_crash : forall fuel inp, lex_tables modes fuel inp <> LCrash.
Proof.
  intros fuel inp. unfold lex_tables, lex_input. apply lex_all_no_crash.
  cbn [lx_sm]. apply sm_inv_init. exact Hwf.
Qed.

(* ---------- L9: nothing is swallowed: the EOF segment is empty ---------- *)

Lemma in_rev_cons : forall (x s : seg) acc, In x (rev acc ++ [s]) -> s = x \/ In x acc.
Proof.
  intros x s acc H. apply in_app_or in H. destruct H as [H|[H|[]]].
  - right. apply (proj2 (in_rev _ _)). exact H.
  - left. exact H.
Qed.

Lemma read_token_no_loss : forall fuel x start acc segs x',
  sm_inv modes (lx_sm x) ->
  (forall st, start = Some st -> sm_consumed (lx_sm x) = true \/ sm_accum (lx_sm x) = true) ->
  (forall b e, In (SegEOF b e) acc -> b = e) ->
  rt fuel x start acc = RTok sm segs x' ->
  (forall b e, In (SegEOF b e) segs -> b = e) /\ sm_inv modes (lx_sm x').
Proof.
  induction fuel as [|f IH]; intros x start acc segs x' Hinv Hstart Hacc H; [discriminate|].
  destruct x as [l rest off]. cbn [lx_sm lx_rest lx_off] in *.
  cbn [read_token] in H. rewrite lx_char_eq in H. cbn [lx_sm lx_rest lx_off] in H.
  destruct (push_rune_facts modes l (char_of rest) Hwf Hinv)
    as [c [l' [Ep [Hw [Hfull Hcase]]]]].
  rewrite Ep in H.
  destruct Hcase as [[-> [Hr [Hs' Ha']]]|[[Hc [Hs' [Hs Ha']]]|[[-> [Hr [Hcn Hac]]]|[-> Hr]]]].
  - (* consume *)
    cbn [Z.eqb lexConsume] in H. rewrite lx_consume_eq in H.
    apply (IH _ _ _ _ _) in H; [exact H| | |exact Hacc]; cbn [lx_sm].
    + apply Hfull. discriminate.
    + intros st _. left. exact Hs'.
  - assert (Hinv' : sm_inv modes l') by (apply Hfull; unfold lexError; lia).
    destruct (c =? lexConsume) eqn:E0; [unfold lexConsume in E0; lia|].
    destruct (c =? lexAccept) eqn:E1.
    { injection H as <- <-. cbn [lx_sm]. split; [|exact Hinv'].
      intros b e Hin. apply in_rev_cons in Hin. destruct Hin as [Hin|Hin]; [discriminate Hin|].
      apply Hacc. exact Hin. }
    destruct (c =? lexDiscard) eqn:E2.
    { apply (IH _ _ _ _ _) in H; [exact H|exact Hinv'|intros st Hst; discriminate Hst|].
      intros b e [Hin|Hin]; [discriminate Hin|apply Hacc; exact Hin]. }
    destruct (c =? lexTryAgain) eqn:E3; [|unfold lexAccept, lexDiscard, lexTryAgain in *; lia].
    apply (IH _ _ _ _ _) in H; [exact H|exact Hinv'| |exact Hacc].
    cbn [lx_sm]. intros st _. right. rewrite Ha'. reflexivity.
  - (* EOF: only at a token boundary with nothing pending, so the token started here *)
    cbn [Z.eqb lexEOF lexConsume lexAccept lexDiscard lexTryAgain] in H.
    injection H as <- <-. cbn [lx_sm]. split; [|apply Hfull; discriminate].
    destruct start as [st|].
    { destruct (Hstart st eq_refl) as [Hx|Hx]; rewrite Hx in *; discriminate. }
    intros b e Hin. apply in_rev_cons in Hin. destruct Hin as [Hin|Hin].
    + injection Hin as <- <-. reflexivity.
    + apply Hacc. exact Hin.
  - cbn [Z.eqb lexError lexEOF lexConsume lexAccept lexDiscard lexTryAgain] in H.
    rewrite skip_line_eq, lx_consume_eq in H. cbn [lx_sm lx_rest lx_off] in H.
    injection H as <- <-. cbn [lx_sm]. split; [|apply sm_inv_reset; assumption].
    intros b e Hin. apply in_rev_cons in Hin. destruct Hin as [Hin|Hin]; [discriminate Hin|].
    apply Hacc. exact Hin.
Qed.

Lemma lex_all_no_loss : forall fuel x acc segs,
  sm_inv modes (lx_sm x) ->
  (forall b e, In (SegEOF b e) acc -> b = e) ->
  la fuel x acc = LDone segs ->
  forall b e, In (SegEOF b e) segs -> b = e.
Proof.
  induction fuel as [|f IH]; intros x acc segs Hinv Hacc H; [discriminate|].
  cbn [lex_all] in H.
  destruct (rt (S f) x None []) as [segs1 x'| |] eqn:Er; try discriminate.
  destruct (read_token_no_loss (S f) x None [] segs1 x' Hinv) as [H1 Hinv']; try exact Er.
  { intros st Hst; discriminate Hst. }
  { intros b e []. }
  assert (Hacc' : forall b e, In (SegEOF b e) (acc ++ segs1) -> b = e).
  { intros b e Hin. apply in_app_or in Hin. destruct Hin as [Hin|Hin]; [apply Hacc|apply H1]; exact Hin. }
  destruct (existsb is_eof_seg segs1).
  - injection H as <-. exact Hacc'.
  - apply (IH x' (acc ++ segs1) segs Hinv' Hacc' H).
Qed.

(* the strongest form: no hypothesis on the input at all *)
Theorem lex_no_loss : forall fuel inp segs,
  lex_tables modes fuel inp = LDone segs ->
  forall b e, In (SegEOF b e) segs -> b = e.
Proof.
  intros fuel inp segs H. unfold lex_tables, lex_input in H.
  apply (lex_all_no_loss fuel (Build_lexer sm sm_init inp 0) [] segs); [|intros b e []|exact H].
  cbn [lx_sm]. apply sm_inv_init. exact Hwf.
Qed.

Lemma tiles_app_last : forall pre s b e, tiles b (pre ++ [s]) e -> tiles b pre (seg_b s).
Proof.
  induction pre as [|p pre IH]; intros s b e H; cbn [tiles app] in *.
  - destruct H as [H _]. symmetry. exact H.
  - destruct H as [Hb H]. split; [exact Hb|]. eapply IH. exact H.
Qed.

(* with lex_tiling: the token, discard and error segments tile
   [0, total_width inp) exactly and the EOF segment is the empty one at the end *)
Theorem lex_exact_tiling : forall fuel inp segs,
  (forall r w, In (r, w) inp -> 0 <= r) ->
  lex_tables modes fuel inp = LDone segs ->
  exists pre,
    segs = pre ++ [SegEOF (total_width inp) (total_width inp)] /\
    Forall noneof pre /\
    tiles 0 pre (total_width inp).
Proof.
  intros fuel inp segs Hinp H.
  destruct (lex_tiling modes fuel inp segs Hinp H) as [pre [b [Hs [Hpre Ht]]]].
  assert (Hb : b = total_width inp).
  { apply (lex_no_loss fuel inp segs H). rewrite Hs. apply in_or_app. right. left. reflexivity. }
  subst b. exists pre. split; [exact Hs|]. split; [exact Hpre|].
  rewrite Hs in Ht. apply tiles_app_last in Ht. exact Ht.
Qed.

End Total.

(* ---------- L9 without any hypothesis on the tables ---------- *)

Lemma run_actions_flags : forall modes fuel mode i e l,
  match run_actions modes fuel mode i e l with
  | AReturn c l' => c = lexError \/ c = lexAccept \/ c = lexDiscard \/
                    (c = lexTryAgain /\ sm_accum l' = true)
  | AFall l' => sm_consumed l' = sm_consumed l /\ sm_accum l' = sm_accum l
  | ACrash => True
  end.
Proof.
  intros modes. induction fuel as [|f IH]; intros mode i e l; cbn [run_actions]; [split; reflexivity|].
  destruct (i <? e); [|split; reflexivity].
  destruct (nthz mode i) as [ty|]; [|exact I].
  destruct (nthz mode (i + 1)) as [p|]; [|exact I].
  destruct (ty =? 1).
  { destruct ((p <? 0) || (Z.of_nat (length modes) <=? p)); [exact I|].
    match goal with |- match run_actions _ _ _ _ _ ?l1 with _ => _ end => specialize (IH mode (i + 2) e l1) end.
    cbn [sm_consumed sm_accum] in IH. exact IH. }
  destruct (ty =? 2).
  { destruct (sm_stack l); [left; reflexivity|].
    match goal with |- match run_actions _ _ _ _ _ ?l1 with _ => _ end => specialize (IH mode (i + 2) e l1) end.
    cbn [sm_consumed sm_accum] in IH. exact IH. }
  destruct (ty =? 3); [right; left; reflexivity|].
  destruct (ty =? 4); [right; right; left; reflexivity|].
  destruct (ty =? 5); [right; right; right; split; reflexivity|].
  apply IH.
Qed.

Lemma push_rune_flags : forall modes l r c l',
  push_rune modes l r = Some (c, l') ->
  (c = lexConsume -> sm_consumed l' = true) /\
  (c = lexTryAgain -> sm_accum l' = true) /\
  (c = lexEOF -> sm_consumed l = false /\ sm_accum l = false).
Proof.
  intros modes l r c l' H. unfold push_rune in H.
  destruct (nth_error modes (sm_mode l)) as [mode|]; [|discriminate].
  destruct (nthz mode (sm_state l)) as [i0|]; [|discriminate].
  destruct (nthz mode i0) as [count|]; [|discriminate].
  cbv zeta in H.
  destruct (nthz mode (i0 + 1)) as [flags|]; [|discriminate].
  destruct (nthz mode (i0 + 1 + 1)) as [goto_n|]; [|discriminate].
  match type of H with
  | match ?found with _ => _ end = _ => destruct found as [[t|]|]
  end; [| |discriminate].
  { injection H as <- <-. cbn [sm_consumed]. repeat split; try reflexivity; discriminate. }
  destruct (sm_consumed l) eqn:Ecn; cbn [negb] in H.
  - pose proof (run_actions_flags modes (S (Z.to_nat count)) mode (i0 + 1 + 2 + goto_n * 3)
                  (i0 + 1 + count) l) as Hf.
    destruct (run_actions modes (S (Z.to_nat count)) mode (i0 + 1 + 2 + goto_n * 3) (i0 + 1 + count) l)
      as [c1 l1|l1|]; [| |discriminate].
    + injection H as <- <-.
      destruct Hf as [->|[->|[->|[-> Ha]]]]; repeat split; try discriminate. intros _. exact Ha.
    + destruct Hf as [Hc _]. rewrite Hc, Ecn in H. cbn [negb andb] in H.
      injection H as <- <-. repeat split; discriminate.
  - rewrite Ecn in H. cbn [negb andb] in H.
    destruct ((r =? -1) && negb (sm_accum l)) eqn:E; injection H as <- <-.
    + split; [discriminate|]. split; [discriminate|]. intros _. split; [reflexivity|].
      destruct (sm_accum l); [cbn [negb] in E; lia|reflexivity].
    + repeat split; discriminate.
Qed.

Section NoLossAny.
Variable modes : list (list Z).
Notation rt := (read_token sm (push_rune modes) sm_token sm_reset).
Notation la := (lex_all sm (push_rune modes) sm_token sm_reset).

Lemma read_token_no_loss_any : forall fuel x start acc segs x',
  (forall st, start = Some st -> sm_consumed (lx_sm x) = true \/ sm_accum (lx_sm x) = true) ->
  (forall b e, In (SegEOF b e) acc -> b = e) ->
  rt fuel x start acc = RTok sm segs x' ->
  forall b e, In (SegEOF b e) segs -> b = e.
Proof.
  induction fuel as [|f IH]; intros x start acc segs x' Hstart Hacc H; [discriminate|].
  destruct x as [l rest off]. cbn [lx_sm lx_rest lx_off] in *.
  cbn [read_token] in H. rewrite lx_char_eq in H. cbn [lx_sm lx_rest lx_off] in H.
  destruct (push_rune modes l (char_of rest)) as [[c l']|] eqn:Ep; [|discriminate].
  destruct (push_rune_flags _ _ _ _ _ Ep) as [F0 [F3 F4]].
  destruct (c =? lexConsume) eqn:E0.
  { rewrite lx_consume_eq in H.
    refine (IH _ _ _ _ _ _ Hacc H). cbn [lx_sm].
    intros st _. left. apply F0. lia. }
  destruct (c =? lexAccept) eqn:E1.
  { injection H as <- _. intros b e Hin. apply in_rev_cons in Hin.
    destruct Hin as [Hin|Hin]; [discriminate Hin|apply Hacc; exact Hin]. }
  destruct (c =? lexDiscard) eqn:E2.
  { refine (IH _ _ _ _ _ _ _ H); [intros st Hst; discriminate Hst|].
    intros b e [Hin|Hin]; [discriminate Hin|apply Hacc; exact Hin]. }
  destruct (c =? lexTryAgain) eqn:E3.
  { refine (IH _ _ _ _ _ _ Hacc H). cbn [lx_sm].
    intros st _. right. apply F3. lia. }
  destruct (c =? lexEOF) eqn:E4.
  { injection H as <- _. destruct (F4 ltac:(lia)) as [Hcn Hac].
    destruct start as [st|].
    { destruct (Hstart st eq_refl) as [Hx|Hx]; rewrite Hx in *; discriminate. }
    intros b e Hin. apply in_rev_cons in Hin. destruct Hin as [Hin|Hin].
    - injection Hin as <- <-. reflexivity.
    - apply Hacc. exact Hin. }
  rewrite skip_line_eq, lx_consume_eq in H. cbn [lx_sm lx_rest lx_off] in H.
  injection H as <- _. intros b e Hin. apply in_rev_cons in Hin.
  destruct Hin as [Hin|Hin]; [discriminate Hin|apply Hacc; exact Hin].
Qed.

Lemma lex_all_no_loss_any : forall fuel x acc segs,
  (forall b e, In (SegEOF b e) acc -> b = e) ->
  la fuel x acc = LDone segs ->
  forall b e, In (SegEOF b e) segs -> b = e.
Proof.
  induction fuel as [|f IH]; intros x acc segs Hacc H; [discriminate|].
  cbn [lex_all] in H.
  destruct (rt (S f) x None []) as [segs1 x'| |] eqn:Er; try discriminate.
  assert (H1 : forall b e, In (SegEOF b e) segs1 -> b = e).
  { apply (read_token_no_loss_any (S f) x None [] segs1 x'); [|intros b e []|exact Er].
    intros st Hst; discriminate Hst. }
  assert (Hacc' : forall b e, In (SegEOF b e) (acc ++ segs1) -> b = e).
  { intros b e Hin. apply in_app_or in Hin. destruct Hin as [Hin|Hin]; [apply Hacc|apply H1]; exact Hin. }
  destruct (existsb is_eof_seg segs1).
  - injection H as <-. exact Hacc'.
  - apply (IH x' (acc ++ segs1) segs Hacc' H).
Qed.

(* whatever the tables and the input: if lexing finishes, every EOF segment is empty *)
Theorem lex_no_loss_any : forall fuel inp segs,
  lex_tables modes fuel inp = LDone segs ->
  forall b e, In (SegEOF b e) segs -> b = e.
Proof.
  intros fuel inp segs H. unfold lex_tables, lex_input in H.
  apply (lex_all_no_loss_any fuel (Build_lexer sm sm_init inp 0) [] segs); [intros b e []|exact H].
Qed.

(* tables-independent exact tiling *)
Theorem lex_exact_tiling_any : forall fuel inp segs,
  (forall r w, In (r, w) inp -> 0 <= r) ->
  lex_tables modes fuel inp = LDone segs ->
  exists pre,
    segs = pre ++ [SegEOF (total_width inp) (total_width inp)] /\
    Forall noneof pre /\
    tiles 0 pre (total_width inp).
Proof.
  intros fuel inp segs Hinp H.
  destruct (lex_tiling modes fuel inp segs Hinp H) as [pre [b [Hs [Hpre Ht]]]].
  assert (Hb : b = total_width inp).
  { apply (lex_no_loss_any fuel inp segs H). rewrite Hs. apply in_or_app. right. left. reflexivity. }
  subst b. exists pre. split; [exact Hs|]. split; [exact Hpre|].
  rewrite Hs in Ht. apply tiles_app_last in Ht. exact Ht.
Qed.

End NoLossAny.
Print Assumptions lex_no_loss_any.
Print Assumptions lex_exact_tiling_any.

(* the statement in the requested form *)
Corollary lex_total_fuel : forall modes,
  modes_wf modes = true ->
  forall inp, (forall r w, In (r, w) inp -> 0 <= r <= 1114111 /\ 0 < w) ->
  exists fuel segs, lex_tables modes fuel inp = LDone segs.
Proof.
  intros modes Hwf inp Hinp.
  destruct (lex_total modes Hwf inp) as [segs H].
  - intros r w Hin. destruct (Hinp r w Hin) as [[H0 _] _]. exact H0.
  - exists (3 * length inp + 1)%nat, segs. exact H.
Qed.
Print Assumptions lex_total.
Print Assumptions lex_total_fuel.
Print Assumptions lex_no_crash.
Print Assumptions lex_no_loss.
Print Assumptions lex_exact_tiling.
