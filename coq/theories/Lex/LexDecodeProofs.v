(* L3: on well-formed tables the raw PushRune mirror never crashes and computes
   exactly the view machine over [table_auto].  Both action loops are first
   related to one pure specification [act_spec] over (mode, stack). *)
From Coq Require Import List ZArith Lia Bool Arith ZifyBool ZifyNat.
From Lox Require Import Lex.LexRuntime Lex.LexAuto Lex.LexLookupProofs.
Import ListNotations.
Local Open Scope Z_scope.

(* ---------- the action loop as a pure function of (mode, stack) ---------- *)

Inductive aout :=
| OCrash                                                   (* push of an out-of-range mode *)
| OPopErr (m : nat) (st : list nat)                        (* pop of an empty stack *)
| OTerm (code : Z) (tk : option Z) (m : nat) (st : list nat) (* accept / discard / try-again *)
| OFall (m : nat) (st : list nat).                         (* ran off the end *)

Fixpoint act_spec (nmodes : nat) (acts : list (Z * Z)) (m : nat) (st : list nat) : aout :=
  match acts with
  | [] => OFall m st
  | (ty, param) :: rest =>
    if ty =? 1 then
      if (param <? 0) || (Z.of_nat nmodes <=? param) then OCrash
      else act_spec nmodes rest (Z.to_nat param) (m :: st)
    else if ty =? 2 then
      match st with
      | [] => OPopErr m st
      | m' :: st' => act_spec nmodes rest m' st'
      end
    else if ty =? 3 then OTerm lexAccept (Some param) m st
    else if ty =? 4 then OTerm lexDiscard None m st
    else if ty =? 5 then OTerm lexTryAgain None m st
    else act_spec nmodes rest m st
  end.

Definition sm_out (tok s : Z) (cn ac : bool) (o : aout) : ares :=
  match o with
  | OCrash => ACrash
  | OPopErr m st =>
    AReturn lexError {| sm_token := tok; sm_state := s; sm_consumed := cn; sm_accum := ac;
                        sm_mode := m; sm_stack := st |}
  | OTerm c tk m st =>
    AReturn c {| sm_token := match tk with Some p => p | None => tok end;
                 sm_state := 0; sm_consumed := false; sm_accum := (c =? lexTryAgain);
                 sm_mode := m; sm_stack := st |}
  | OFall m st => AFall {| sm_token := tok; sm_state := s; sm_consumed := cn; sm_accum := ac;
                           sm_mode := m; sm_stack := st |}
  end.

Definition g_out (S : Type) (start : nat -> S) (tok : Z) (s : S) (f ac : bool) (o : aout) : gares S :=
  match o with
  | OCrash => GCrash S
  | OPopErr m st => GReturn S lexError (Build_gsm S tok s f ac m st)
  | OTerm c tk m st =>
    GReturn S c (Build_gsm S (match tk with Some p => p | None => tok end) (start m) true
                           (c =? lexTryAgain) m st)
  | OFall m st => GFall S (Build_gsm S tok s f ac m st)
  end.

Lemma take_pairs_length : forall n m i ac, take_pairs n m i = Some ac -> length ac = n.
Proof.
  induction n as [|n IH]; intros m i ac H; cbn [take_pairs] in H.
  - injection H as <-. reflexivity.
  - destruct (nthz m i); [|discriminate]. destruct (nthz m (i + 1)); [|discriminate].
    destruct (take_pairs n m (i + 2)) as [rest|] eqn:Er; [|discriminate].
    injection H as <-. cbn [length]. f_equal. apply (IH m (i + 2) rest Er).
Qed.

(* L8(c): the raw action loop is the pure specification *)
Lemma run_actions_spec : forall modes m n i ac,
  take_pairs n m i = Some ac ->
  forall fuel tok s cn a md st, (n < fuel)%nat ->
  run_actions modes fuel m i (i + 2 * Z.of_nat n)
    {| sm_token := tok; sm_state := s; sm_consumed := cn; sm_accum := a; sm_mode := md; sm_stack := st |}
  = sm_out tok s cn a (act_spec (length modes) ac md st).
Proof.
  intros modes m. induction n as [|n IH]; intros i ac Htp fuel tok s cn a md st Hf.
  - cbn [take_pairs] in Htp. injection Htp as <-.
    destruct fuel as [|f]; [lia|]. cbn [run_actions act_spec sm_out].
    destruct (i <? i + 2 * Z.of_nat 0) eqn:E; [lia|reflexivity].
  - cbn [take_pairs] in Htp.
    destruct (nthz m i) as [ty|] eqn:Ea; [|discriminate].
    destruct (nthz m (i + 1)) as [p|] eqn:Eb; [|discriminate].
    destruct (take_pairs n m (i + 2)) as [rest|] eqn:Er; [|discriminate].
    injection Htp as <-.
    destruct fuel as [|f]; [lia|]. cbn [run_actions].
    destruct (i <? i + 2 * Z.of_nat (S n)) eqn:E; [|lia].
    rewrite Ea, Eb. cbn [act_spec sm_token sm_state sm_consumed sm_accum sm_mode sm_stack].
    replace (i + 2 * Z.of_nat (S n)) with (i + 2 + 2 * Z.of_nat n) by lia.
    destruct (ty =? 1) eqn:T1.
    { destruct ((p <? 0) || (Z.of_nat (length modes) <=? p)) eqn:C; [reflexivity|].
      apply IH; [exact Er|lia]. }
    destruct (ty =? 2) eqn:T2.
    { destruct st as [|m' st']; [reflexivity|]. apply IH; [exact Er|lia]. }
    destruct (ty =? 3) eqn:T3; [reflexivity|].
    destruct (ty =? 4) eqn:T4; [reflexivity|].
    destruct (ty =? 5) eqn:T5; [reflexivity|].
    apply IH; [exact Er|lia].
Qed.

Lemma g_actions_spec : forall (S : Type) (start : nat -> S) (nmodes : nat) acts tok s f a md st,
  g_actions S start nmodes acts (Build_gsm S tok s f a md st)
  = g_out S start tok s f a (act_spec nmodes acts md st).
Proof.
  intros S start nmodes. induction acts as [|[ty p] rest IH]; intros tok s f a md st.
  - reflexivity.
  - cbn [g_actions act_spec g_token g_state g_fresh g_accum g_mode g_stack].
    destruct (ty =? 1) eqn:T1.
    { destruct ((p <? 0) || (Z.of_nat nmodes <=? p)) eqn:C; [reflexivity|]. apply IH. }
    destruct (ty =? 2) eqn:T2.
    { destruct st as [|m' st']; [reflexivity|]. apply IH. }
    destruct (ty =? 3) eqn:T3; [reflexivity|].
    destruct (ty =? 4) eqn:T4; [reflexivity|].
    destruct (ty =? 5) eqn:T5; [reflexivity|].
    apply IH.
Qed.

(* ---------- unpacking the well-formedness checks ---------- *)

Definition acts_ok (nm : nat) (acts : list (Z * Z)) : Prop :=
  forall ty p, In (ty, p) acts -> 1 <= ty <= 5 /\ (ty = 1 -> 0 <= p < Z.of_nat nm).

Definition stack_ok (nm : nat) (st : list nat) : Prop := Forall (fun m => (m < nm)%nat) st.

Lemma act_spec_ok : forall nm acts md st,
  acts_ok nm acts -> (md < nm)%nat -> stack_ok nm st ->
  match act_spec nm acts md st with
  | OCrash => False
  | OPopErr m' st' | OTerm _ _ m' st' | OFall m' st' => (m' < nm)%nat /\ stack_ok nm st'
  end.
Proof.
  intros nm. induction acts as [|[ty p] rest IH]; intros md st Hok Hmd Hst; cbn [act_spec].
  - split; assumption.
  - assert (Hrest : acts_ok nm rest) by (intros ty' p' Hin; apply Hok; right; exact Hin).
    destruct (Hok ty p (or_introl eq_refl)) as [Hty Hp].
    destruct (ty =? 1) eqn:T1.
    { assert (Hp' : 0 <= p < Z.of_nat nm) by (apply Hp; lia).
      destruct ((p <? 0) || (Z.of_nat nm <=? p)) eqn:C; [lia|].
      apply IH; [exact Hrest|lia|constructor; assumption]. }
    destruct (ty =? 2) eqn:T2.
    { destruct st as [|m' st']; [split; assumption|].
      inversion Hst; subst. apply IH; assumption. }
    destruct (ty =? 3) eqn:T3; [split; assumption|].
    destruct (ty =? 4) eqn:T4; [split; assumption|].
    destruct (ty =? 5) eqn:T5; [split; assumption|].
    apply IH; assumption.
Qed.

Record row_ok (nm : nat) (n : Z) (v : view Z) : Prop := {
  ro_sorted : sorted_disjoint (-1) (v_trans v) = true;
  ro_trans : forall lo hi t, In (lo, hi, t) (v_trans v) -> hi <= 1114111 /\ 0 <= t < n;
  ro_acts : acts_ok nm (v_acts v);
}.

Lemma row_wf_ok : forall nm n v, row_wf (Z.of_nat nm) n v = true -> row_ok nm n v.
Proof.
  intros nm n v H. unfold row_wf in H.
  apply andb_true_iff in H. destruct H as [H H3].
  apply andb_true_iff in H. destruct H as [H1 H2].
  rewrite forallb_forall in H2, H3.
  constructor.
  - exact H1.
  - intros lo hi t Hin. specialize (H2 _ Hin). cbn beta iota in H2. lia.
  - intros ty p Hin. specialize (H3 _ Hin). cbn beta iota in H3.
    destruct (ty =? 1) eqn:T1; lia.
Qed.

Lemma modes_wf_mode : forall modes md mode,
  modes_wf modes = true -> nth_error modes md = Some mode ->
  mode_wf (Z.of_nat (length modes)) mode = true.
Proof.
  intros modes md mode H Hn. unfold modes_wf in H.
  apply andb_true_iff in H. destruct H as [_ H].
  rewrite forallb_forall in H. apply H. eapply nth_error_In. exact Hn.
Qed.

Lemma modes_wf_nonempty : forall modes, modes_wf modes = true -> (0 < length modes)%nat.
Proof.
  intros modes H. unfold modes_wf in H. apply andb_true_iff in H. destruct H as [H _].
  destruct (length modes); [discriminate|lia].
Qed.

Lemma mode_wf_pos : forall nm mode, mode_wf nm mode = true -> 0 < mode_nstates mode.
Proof.
  intros nm mode H. unfold mode_wf in H. cbv zeta in H.
  apply andb_true_iff in H. destruct H as [H _]. lia.
Qed.

Lemma mode_wf_row : forall nm mode s,
  mode_wf (Z.of_nat nm) mode = true -> 0 <= s < mode_nstates mode ->
  exists v, decode_row mode s = Some v /\ row_ok nm (mode_nstates mode) v.
Proof.
  intros nm mode s H Hs. unfold mode_wf in H. cbv zeta in H.
  apply andb_true_iff in H. destruct H as [_ H].
  rewrite forallb_forall in H. specialize (H (Z.to_nat s)).
  rewrite Z2Nat.id in H by lia.
  assert (Hin : In (Z.to_nat s) (seq 0 (Z.to_nat (mode_nstates mode)))) by (apply in_seq; lia).
  specialize (H Hin). destruct (decode_row mode s) as [v|]; [|discriminate].
  exists v. split; [reflexivity|]. apply row_wf_ok. exact H.
Qed.

Lemma progress_row : forall mode s v,
  mode_progress_ok mode = true -> 0 <= s < mode_nstates mode ->
  decode_row mode s = Some v ->
  forall lo hi t, In (lo, hi, t) (v_trans v) -> t <> 0.
Proof.
  intros mode s v H Hs Hdec lo hi t Hin. unfold mode_progress_ok in H. cbv zeta in H.
  apply andb_true_iff in H. destruct H as [H _].
  rewrite forallb_forall in H. specialize (H (Z.to_nat s)).
  rewrite Z2Nat.id in H by lia. rewrite Hdec in H.
  assert (Hin' : In (Z.to_nat s) (seq 0 (Z.to_nat (mode_nstates mode)))) by (apply in_seq; lia).
  specialize (H Hin'). rewrite forallb_forall in H. specialize (H _ Hin).
  cbn [snd] in H. lia.
Qed.

Lemma progress_row0 : forall mode v,
  mode_progress_ok mode = true -> decode_row mode 0 = Some v ->
  v_flag v = false.
Proof.
  intros mode v H Hdec. unfold mode_progress_ok in H. cbv zeta in H.
  apply andb_true_iff in H. destruct H as [_ H]. rewrite Hdec in H.
  destruct (v_flag v); [discriminate|reflexivity].
Qed.

Lemma progress_mode : forall modes md mode,
  forallb mode_progress_ok modes = true -> nth_error modes md = Some mode ->
  mode_progress_ok mode = true.
Proof.
  intros modes md mode H Hn. rewrite forallb_forall in H. apply H. eapply nth_error_In. exact Hn.
Qed.

(* ---------- PushRune, both machines, as functions of the decoded row ---------- *)

Lemma push_rune_eq : forall modes md mode s v tok cn a st r,
  nth_error modes md = Some mode -> decode_row mode s = Some v ->
  sorted_disjoint (-1) (v_trans v) = true ->
  push_rune modes {| sm_token := tok; sm_state := s; sm_consumed := cn; sm_accum := a;
                     sm_mode := md; sm_stack := st |} r =
  match (if v_flag v then None else lookup Z (v_trans v) r) with
  | Some t => Some (lexConsume, {| sm_token := tok; sm_state := t; sm_consumed := true; sm_accum := a;
                                   sm_mode := md; sm_stack := st |})
  | None =>
    match (if negb cn
           then AFall {| sm_token := tok; sm_state := s; sm_consumed := cn; sm_accum := a;
                         sm_mode := md; sm_stack := st |}
           else sm_out tok s cn a (act_spec (length modes) (v_acts v) md st)) with
    | ACrash => None
    | AReturn c l' => Some (c, l')
    | AFall l' => if negb (sm_consumed l') && (r =? -1) && negb (sm_accum l')
                  then Some (lexEOF, l') else Some (lexError, l')
    end
  end.
Proof.
  intros modes md mode s v tok cn a st r Emode Hdec Hsorted.
  destruct (decode_row_inv mode s v Hdec) as
    [i0 [count [flags [goto_n [E0 [E1 [E2 [E3 [Hg [Hc [Hf [Ht Hp]]]]]]]]]]]].
  unfold push_rune. cbn [sm_mode sm_state sm_token sm_consumed sm_accum sm_stack].
  rewrite Emode, E0, E1. cbv zeta.
  replace (i0 + 1 + 1) with (i0 + 2) by lia. rewrite E2, E3.
  replace (i0 + 1 + 2) with (i0 + 3) by lia.
  replace (i0 + 3 + goto_n * 3) with (i0 + 3 + 3 * goto_n) by lia.
  replace (i0 + 1 + count) with (i0 + 3 + 3 * goto_n + 2 * Z.of_nat (length (v_acts v))) by lia.
  rewrite (run_actions_spec modes mode _ _ _ Hp) by lia.
  rewrite Hf.
  destruct (Z.land flags 1 =? 0) eqn:Efl; cbn [negb].
  - rewrite (bsearch_triples mode (i0 + 3) goto_n (v_trans v) (-1) r Ht Hg Hsorted).
    destruct (lookup Z (v_trans v) r); reflexivity.
  - reflexivity.
Qed.

Lemma g_push_rune_eq : forall (S : Type) (A : nat -> S -> option (view S)) start nmodes tok s f a md st v r,
  A md s = Some v ->
  g_push_rune S A start nmodes (Build_gsm S tok s f a md st) r =
  match (if v_flag v then None else lookup S (v_trans v) r) with
  | Some t => Some (lexConsume, Build_gsm S tok t false a md st)
  | None =>
    match (if f then GFall S (Build_gsm S tok s f a md st)
           else g_out S start tok s f a (act_spec nmodes (v_acts v) md st)) with
    | GCrash _ => None
    | GReturn _ c l' => Some (c, l')
    | GFall _ l' => if g_fresh l' && (r =? -1) && negb (g_accum l')
                    then Some (lexEOF, l') else Some (lexError, l')
    end
  end.
Proof.
  intros S A start nmodes tok s f a md st v r HA.
  unfold g_push_rune. cbn [g_mode g_state g_token g_fresh g_accum g_stack]. rewrite HA.
  rewrite g_actions_spec. reflexivity.
Qed.

(* ---------- L3 ---------- *)

Definition rel_sm (l : sm) (gl : gsm Z) : Prop :=
  g_token gl = sm_token l /\ g_state gl = sm_state l /\ g_mode gl = sm_mode l /\
  g_stack gl = sm_stack l /\ g_fresh gl = negb (sm_consumed l) /\ g_accum gl = sm_accum l.

Ltac rel_tac :=
  unfold rel_sm;
  cbn [sm_token sm_state sm_consumed sm_accum sm_mode sm_stack g_token g_state g_fresh g_accum g_mode g_stack];
  repeat split; try reflexivity.

Lemma nstates_pos : forall modes md,
  modes_wf modes = true -> (md < length modes)%nat -> 0 < mode_nstates (nth md modes []).
Proof.
  intros modes md Hwf Hmd.
  destruct (nth_error modes md) as [mode|] eqn:E; [|apply nth_error_None in E; lia].
  rewrite (nth_error_nth _ _ _ E).
  apply (mode_wf_pos _ _ (modes_wf_mode _ _ _ Hwf E)).
Qed.

(* NOTE: the state-range invariant is only claimed when the code is not
   lexError: an action list [push m'] (or a failing pop after a successful
   one) without a terminal action leaves the old state number in the new mode.
   simplelexer calls Reset after every error, which restores it. *)
Theorem push_rune_decode : forall modes l gl r,
  modes_wf modes = true ->
  rel_sm l gl -> (sm_mode l < length modes)%nat ->
  0 <= sm_state l < mode_nstates (nth (sm_mode l) modes []) ->
  Forall (fun m => (m < length modes)%nat) (sm_stack l) ->
  match push_rune modes l r,
        g_push_rune Z (table_auto modes) (fun _ => 0) (length modes) gl r with
  | Some (c, l'), Some (c', gl') =>
    c = c' /\ rel_sm l' gl' /\ (sm_mode l' < length modes)%nat /\
    Forall (fun m => (m < length modes)%nat) (sm_stack l') /\
    (c <> lexError -> 0 <= sm_state l' < mode_nstates (nth (sm_mode l') modes []))
  | _, _ => False
  end.
Proof.
  intros modes l gl r Hwf Hrel Hmd Hs Hst.
  destruct l as [tok s cn a md st]. destruct gl as [gtok gs gf ga gmd gst].
  unfold rel_sm in Hrel.
  cbn [sm_token sm_state sm_consumed sm_accum sm_mode sm_stack
       g_token g_state g_fresh g_accum g_mode g_stack] in *.
  destruct Hrel as (-> & -> & -> & -> & -> & ->).
  destruct (nth_error modes md) as [mode|] eqn:Emode; [|apply nth_error_None in Emode; lia].
  pose proof Hs as Hs_orig.
  rewrite (nth_error_nth _ _ _ Emode) in Hs.
  pose proof (modes_wf_mode _ _ _ Hwf Emode) as Hmwf.
  destruct (mode_wf_row _ _ _ Hmwf Hs) as [v [Hdec Hrow]].
  destruct Hrow as [Hsorted Htrans Hacts].
  rewrite (push_rune_eq modes md mode s v tok cn a st r Emode Hdec Hsorted).
  rewrite (g_push_rune_eq Z (table_auto modes) (fun _ => 0) (length modes) tok s (negb cn) a md st v r)
    by (unfold table_auto; rewrite Emode; exact Hdec).
  destruct (if v_flag v then None else lookup Z (v_trans v) r) as [t|] eqn:Elk.
  - (* consume *)
    assert (Hlk : lookup Z (v_trans v) r = Some t) by (destruct (v_flag v); [discriminate|exact Elk]).
    destruct (lookup_some_in Z _ _ _ Hlk) as [lo [hi [Hin _]]].
    destruct (Htrans _ _ _ Hin) as [_ Ht].
    cbn [sm_token sm_state sm_consumed sm_accum sm_mode sm_stack].
    rewrite (nth_error_nth _ _ _ Emode).
    split; [reflexivity|]. split; [rel_tac|].
    split; [assumption|]. split; [assumption|]. intros _. exact Ht.
  - destruct (negb cn) eqn:Ecn.
    { (* token boundary: the actions are skipped *)
      cbn [sm_consumed sm_accum g_fresh g_accum]. rewrite Ecn.
      destruct (true && (r =? -1) && negb a) eqn:Eeof;
        cbn [sm_token sm_state sm_consumed sm_accum sm_mode sm_stack].
      - split; [reflexivity|]. split; [rel_tac; rewrite Ecn; reflexivity|].
        split; [assumption|]. split; [assumption|]. intros _. exact Hs_orig.
      - split; [reflexivity|]. split; [rel_tac; rewrite Ecn; reflexivity|].
        split; [assumption|]. split; [assumption|]. intros _. exact Hs_orig. }
    pose proof (act_spec_ok (length modes) (v_acts v) md st Hacts Hmd Hst) as Hok.
    destruct (act_spec (length modes) (v_acts v) md st) as [|m' st'|c tk m' st'|m' st'];
      cbn [sm_out g_out]; [contradiction| | |]; destruct Hok as [Hm' Hst'].
    + cbn [sm_token sm_state sm_consumed sm_accum sm_mode sm_stack].
      split; [reflexivity|]. split; [rel_tac; rewrite Ecn; reflexivity|].
      split; [assumption|]. split; [assumption|]. intros Hc. exfalso. apply Hc. reflexivity.
    + cbn [sm_token sm_state sm_consumed sm_accum sm_mode sm_stack].
      pose proof (nstates_pos modes m' Hwf Hm').
      split; [reflexivity|]. split; [rel_tac|].
      split; [assumption|]. split; [assumption|]. intros _. lia.
    + cbn [sm_consumed sm_accum g_fresh g_accum]. rewrite Ecn. cbn [andb].
      cbn [sm_token sm_state sm_consumed sm_accum sm_mode sm_stack].
      split; [reflexivity|]. split; [rel_tac; rewrite Ecn; reflexivity|].
      split; [assumption|]. split; [assumption|]. intros Hc. exfalso. apply Hc. reflexivity.
Qed.
Print Assumptions push_rune_decode.
