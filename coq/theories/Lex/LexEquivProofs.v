(* L4 / L5: a [closed] list of visited pairs is a bisimulation between the view
   machine of the emitted tables and the reference view machine, hence the
   emitted tables and the reference lex every input identically. *)
From Coq Require Import List ZArith Lia Bool Arith ZifyBool ZifyNat.
From Lox Require Import Lex.LexRuntime Lex.LexAuto Lex.LexEquiv
  Lex.LexLookupProofs Lex.LexDecodeProofs Lex.LexDriverProofs.
Import ListNotations.
Local Open Scope Z_scope.

Lemma act_spec_inv : forall nm acts md st,
  (md < nm)%nat -> stack_ok nm st ->
  match act_spec nm acts md st with
  | OCrash => True
  | OPopErr m' st' | OTerm _ _ m' st' | OFall m' st' => (m' < nm)%nat /\ stack_ok nm st'
  end.
Proof.
  intros nm. induction acts as [|[ty p] rest IH]; intros md st Hmd Hst; cbn [act_spec].
  - split; assumption.
  - destruct (ty =? 1) eqn:T1.
    { destruct ((p <? 0) || (Z.of_nat nm <=? p)) eqn:C; [exact I|].
      apply IH; [lia|constructor; assumption]. }
    destruct (ty =? 2) eqn:T2.
    { destruct st as [|m' st']; [split; assumption|].
      inversion Hst; subst. apply IH; assumption. }
    destruct (ty =? 3) eqn:T3; [split; assumption|].
    destruct (ty =? 4) eqn:T4; [split; assumption|].
    destruct (ty =? 5) eqn:T5; [split; assumption|].
    apply IH; assumption.
Qed.

Lemma bounds_in : forall (X : Type) (tr : list (Z * Z * X)) lo hi x,
  In (lo, hi, x) tr -> In lo (bounds_of tr) /\ In (hi + 1) (bounds_of tr).
Proof.
  intros X tr lo hi x Hin. unfold bounds_of.
  split; apply in_flat_map; exists (lo, hi, x); (split; [exact Hin|]); cbn [In]; auto.
Qed.

Section Equiv.
Variable R : Type.
Variable reqb : R -> R -> bool.
Variable modes : list (list Z).
Variable RA : nat -> R -> option (view R).
Variable rstart : nat -> R.
Variable visited : list (pair R).

Hypothesis reqb_ok : forall a b, reqb a b = true <-> a = b.
Hypothesis Hclosed : closed R reqb modes RA rstart visited = true.

Lemma acts_eqb_eq : forall a b, acts_eqb a b = true -> a = b.
Proof.
  induction a as [|[t p] a IH]; intros [|[t' p'] b] H; unfold acts_eqb in H; cbn [length combine forallb] in H;
    try reflexivity; try discriminate.
  apply andb_true_iff in H. destruct H as [Hlen H].
  apply andb_true_iff in H. destruct H as [Hhd Htl].
  cbn [fst snd] in Hhd.
  assert (t = t' /\ p = p') as [-> ->] by lia.
  f_equal. apply IH. unfold acts_eqb. apply andb_true_iff. split; [|exact Htl].
  cbn [Nat.eqb] in Hlen. exact Hlen.
Qed.

Lemma pair_eqb_eq : forall p q : pair R, pair_eqb R reqb p q = true -> p = q.
Proof.
  intros [[m s] r] [[m' s'] r'] H. unfold pair_eqb in H.
  apply andb_true_iff in H. destruct H as [H H3].
  apply andb_true_iff in H. destruct H as [H1 H2].
  apply Nat.eqb_eq in H1. apply Z.eqb_eq in H2. apply reqb_ok in H3. subst. reflexivity.
Qed.

Lemma existsb_pair_in : forall p, existsb (pair_eqb R reqb p) visited = true -> In p visited.
Proof.
  intros p H. apply existsb_exists in H. destruct H as [q [Hin Heq]].
  apply pair_eqb_eq in Heq. subst. exact Hin.
Qed.

Lemma closed_start : forall m, (m < length modes)%nat -> In (m, 0, rstart m) visited.
Proof.
  intros m Hm. unfold closed in Hclosed. apply andb_true_iff in Hclosed. destruct Hclosed as [H _].
  rewrite forallb_forall in H. apply existsb_pair_in. apply H. apply in_seq. lia.
Qed.

Definition row_pts (vt : view Z) (vr : view R) : list Z :=
  filter (fun b => (-1 <=? b) && (b <=? 1114111))
         (-1 :: 0 :: bounds_of (v_trans vt) ++ bounds_of (v_trans vr)).

Lemma closed_pair : forall m s rs,
  In (m, s, rs) visited ->
  exists vt vr,
    table_auto modes m s = Some vt /\ RA m rs = Some vr /\
    v_flag vt = v_flag vr /\ v_acts vt = v_acts vr /\
    (v_flag vt = false -> forall b, In b (row_pts vt vr) ->
       match lookup Z (v_trans vt) b, lookup R (v_trans vr) b with
       | None, None => True
       | Some s', Some r' => In (m, s', r') visited
       | _, _ => False
       end).
Proof.
  intros m s rs Hin. unfold closed in Hclosed. apply andb_true_iff in Hclosed.
  destruct Hclosed as [_ H]. rewrite forallb_forall in H. specialize (H _ Hin).
  unfold check_pair in H.
  destruct (table_auto modes m s) as [vt|]; [|discriminate].
  destruct (RA m rs) as [vr|]; [|discriminate].
  exists vt, vr. split; [reflexivity|]. split; [reflexivity|].
  destruct (negb (eqb (v_flag vt) (v_flag vr))) eqn:Ef; [discriminate|].
  apply negb_false_iff in Ef. apply eqb_prop in Ef.
  destruct (negb (acts_eqb (v_acts vt) (v_acts vr))) eqn:Ea; [discriminate|].
  apply negb_false_iff in Ea. apply acts_eqb_eq in Ea.
  split; [exact Ef|]. split; [exact Ea|].
  intros Hflag b Hb. rewrite Hflag in H. cbv zeta in H. fold (row_pts vt vr) in H.
  match type of H with
  | (let (_, _) := if forallb ?f ?l then _ else _ in _) = true =>
    destruct (forallb f l) eqn:Hall
  end.
  2:{ discriminate. }
  rewrite forallb_forall in Hall. specialize (Hall b Hb). cbv beta in Hall.
  rewrite forallb_forall in H.
  destruct (lookup Z (v_trans vt) b) as [s'|] eqn:Et;
    destruct (lookup R (v_trans vr) b) as [r'|] eqn:Er; try discriminate; [|exact I].
  apply existsb_pair_in.
  apply (H (b, (m, s', r'))).
  apply in_flat_map. exists b. split; [exact Hb|].
  rewrite Et, Er. left. reflexivity.
Qed.

(* ---------- L4 ---------- *)

Definition rel4w (gl : gsm Z) (gr : gsm R) : Prop :=
  g_token gl = g_token gr /\ g_fresh gl = g_fresh gr /\ g_accum gl = g_accum gr /\
  g_mode gl = g_mode gr /\
  g_stack gl = g_stack gr /\ (g_mode gl < length modes)%nat /\
  Forall (fun m => (m < length modes)%nat) (g_stack gl).

Definition rel4 (gl : gsm Z) (gr : gsm R) : Prop :=
  rel4w gl gr /\ In (g_mode gl, g_state gl, g_state gr) visited.

Lemma rel4_reset : forall gl gr,
  rel4w gl gr -> rel4 (g_reset Z (fun _ => 0) gl) (g_reset R rstart gr).
Proof.
  intros gl gr (Ht & Hf & Ha & Hm & Hs & Hlt & Hst).
  unfold rel4, rel4w, g_reset. cbn [g_token g_state g_fresh g_accum g_mode g_stack].
  split.
  - repeat split; try assumption; try reflexivity. lia.
  - apply closed_start. lia.
Qed.

Ltac g_cbn := cbn [g_token g_state g_fresh g_accum g_mode g_stack].
Ltac g_cbn_all := cbn [g_token g_state g_fresh g_accum g_mode g_stack] in *.

(* NOTE: when the code is lexError or lexEOF only [rel4w] is claimed: an action
   list that changes the mode and then falls through (or fails a pop) keeps
   the old state numbers in the new mode, and that triple need not be visited.
   The driver resets after an error and stops after EOF; [rel4_reset]. *)
Theorem equiv_step : forall gl gr r,
  rel4 gl gr -> -1 <= r <= 1114111 ->
  match g_push_rune Z (table_auto modes) (fun _ => 0) (length modes) gl r,
        g_push_rune R RA rstart (length modes) gr r with
  | None, None => True
  | Some (c, gl'), Some (c', gr') =>
    c = c' /\ rel4w gl' gr' /\ (c <> lexError -> c <> lexEOF -> rel4 gl' gr')
  | _, _ => False
  end.
Proof.
  intros gl gr r Hrel Hr.
  destruct gl as [tok s f a md st]. destruct gr as [tok' rs f' a' md' st'].
  destruct Hrel as [(Ht & Hf & Ha & Hm & Hs & Hlt & Hst) Hvis]. g_cbn_all. subst tok' f' a' md' st'.
  destruct (closed_pair _ _ _ Hvis) as [vt [vr [Et [Er [Hflag [Hacts Hstep]]]]]].
  rewrite (g_push_rune_eq Z (table_auto modes) (fun _ => 0) (length modes) tok s f a md st vt r Et).
  rewrite (g_push_rune_eq R RA rstart (length modes) tok rs f a md st vr r Er).
  rewrite <- Hflag, <- Hacts.
  assert (Hact :
    match
      match (if f then GFall Z (Build_gsm Z tok s f a md st)
             else g_out Z (fun _ => 0) tok s f a (act_spec (length modes) (v_acts vt) md st)) with
      | GCrash _ => None
      | GReturn _ c l' => Some (c, l')
      | GFall _ l' => if g_fresh l' && (r =? -1) && negb (g_accum l')
                      then Some (lexEOF, l') else Some (lexError, l')
      end,
      match (if f then GFall R (Build_gsm R tok rs f a md st)
             else g_out R rstart tok rs f a (act_spec (length modes) (v_acts vt) md st)) with
      | GCrash _ => None
      | GReturn _ c l' => Some (c, l')
      | GFall _ l' => if g_fresh l' && (r =? -1) && negb (g_accum l')
                      then Some (lexEOF, l') else Some (lexError, l')
      end
    with
    | None, None => True
    | Some (c, gl'), Some (c', gr') =>
      c = c' /\ rel4w gl' gr' /\ (c <> lexError -> c <> lexEOF -> rel4 gl' gr')
    | _, _ => False
    end).
  { destruct f.
    { g_cbn.
      assert (Hw : rel4w (Build_gsm Z tok s true a md st) (Build_gsm R tok rs true a md st)).
      { unfold rel4w; g_cbn. repeat split; assumption. }
      destruct (true && (r =? -1) && negb a).
      + split; [reflexivity|]. split; [exact Hw|]. intros _ Hc. exfalso. apply Hc. reflexivity.
      + split; [reflexivity|]. split; [exact Hw|]. intros Hc. exfalso. apply Hc. reflexivity. }
    pose proof (act_spec_inv (length modes) (v_acts vt) md st Hlt Hst) as Hinv.
    destruct (act_spec (length modes) (v_acts vt) md st) as [|m' st'|c tk m' st'|m' st'];
      cbn [g_out]; [exact I| | |]; destruct Hinv as [Hm' Hst'].
    - split; [reflexivity|]. split.
      + unfold rel4w; g_cbn. repeat split; assumption.
      + intros Hc. exfalso. apply Hc. reflexivity.
    - split; [reflexivity|].
      assert (Hw : rel4w (Build_gsm Z match tk with Some p => p | None => tok end 0 true
                                    (c =? lexTryAgain) m' st')
                         (Build_gsm R match tk with Some p => p | None => tok end (rstart m') true
                                    (c =? lexTryAgain) m' st')).
      { unfold rel4w; g_cbn. repeat split; assumption. }
      split; [exact Hw|]. intros _ _. split; [exact Hw|]. g_cbn. apply closed_start. exact Hm'.
    - g_cbn.
      assert (Hw : rel4w (Build_gsm Z tok s false a m' st') (Build_gsm R tok rs false a m' st')).
      { unfold rel4w; g_cbn. repeat split; assumption. }
      cbn [andb].
      split; [reflexivity|]. split; [exact Hw|]. intros Hc. exfalso. apply Hc. reflexivity. }
  destruct (v_flag vt) eqn:Efl; [exact Hact|].
  (* a boundary representative for r *)
  assert (Hm1 : In (-1) (row_pts vt vr)).
  { unfold row_pts. apply filter_In. split; [left; reflexivity|reflexivity]. }
  destruct (max_below (row_pts vt vr) r (-1) Hm1 ltac:(lia)) as [b [Hb [Hbr Hmax]]].
  assert (Hbge : -1 <= b) by (apply Hmax; [exact Hm1|lia]).
  assert (Hpt : forall p, In p (bounds_of (v_trans vt) ++ bounds_of (v_trans vr)) -> p <= r -> p <= b).
  { intros p Hp Hpr. destruct (Z_lt_ge_dec p (-1)) as [Hlow|Hge]; [lia|].
    apply Hmax; [|exact Hpr]. unfold row_pts. apply filter_In.
    split; [right; right; exact Hp|lia]. }
  assert (Elt : lookup Z (v_trans vt) r = lookup Z (v_trans vt) b).
  { apply lookup_rep_core; [exact Hbr|]. intros lo hi x Hin.
    destruct (bounds_in Z _ _ _ _ Hin) as [H1 H2].
    split; intros Hle; apply Hpt; try assumption; apply in_or_app; left; assumption. }
  assert (Elr : lookup R (v_trans vr) r = lookup R (v_trans vr) b).
  { apply lookup_rep_core; [exact Hbr|]. intros lo hi x Hin.
    destruct (bounds_in R _ _ _ _ Hin) as [H1 H2].
    split; intros Hle; apply Hpt; try assumption; apply in_or_app; right; assumption. }
  rewrite Elt, Elr. specialize (Hstep eq_refl b Hb).
  destruct (lookup Z (v_trans vt) b) as [s'|]; destruct (lookup R (v_trans vr) b) as [r'|];
    try contradiction; [|exact Hact].
  rename Hstep into Hvis'.
  assert (Hw : rel4w (Build_gsm Z tok s' false a md st) (Build_gsm R tok r' false a md st)).
  { unfold rel4w; g_cbn. repeat split; assumption. }
  split; [reflexivity|]. split; [exact Hw|]. intros _ _. split; [exact Hw|]. g_cbn. exact Hvis'.
Qed.

(* ---------- L5 ---------- *)

Hypothesis Hwf : modes_wf modes = true.

Theorem equiv_lex_ref : forall fuel inp,
  (forall r w, In (r, w) inp -> 0 <= r <= 1114111) ->
  g_lex Z (table_auto modes) (fun _ => 0) (length modes) fuel inp =
  g_lex R RA rstart (length modes) fuel inp.
Proof.
  intros fuel inp Hinp. unfold g_lex.
  apply (lex_input_bisim _ _ _ _ _ _ _ _ rel4 (fun r => -1 <= r <= 1114111)).
  - lia.
  - intros a b r Hab Hr. pose proof (equiv_step a b r Hab Hr) as H.
    destruct (g_push_rune Z (table_auto modes) (fun _ => 0) (length modes) a r) as [[c a']|];
      destruct (g_push_rune R RA rstart (length modes) b r) as [[c' b']|]; try contradiction; [|exact I].
    destruct H as [<- [Hw Hrel]].
    split; [reflexivity|]. split; [apply Hw|]. split.
    + intros Hc. apply Hrel; unfold lexError, lexEOF; lia.
    + intros _. apply rel4_reset. exact Hw.
  - pose proof (modes_wf_nonempty modes Hwf) as Hne.
    unfold g_init, rel4, rel4w. g_cbn.
    split; [repeat split; try reflexivity; [exact Hne|constructor]|].
    apply closed_start. exact Hne.
  - intros r w Hin. specialize (Hinp r w Hin). lia.
Qed.

End Equiv.

(* the raw machine and the decoded view machine lex identically *)
Definition sm_inv (modes : list (list Z)) (l : sm) : Prop :=
  (sm_mode l < length modes)%nat /\
  0 <= sm_state l < mode_nstates (nth (sm_mode l) modes []) /\
  Forall (fun m => (m < length modes)%nat) (sm_stack l).

Definition sm_inv_w (modes : list (list Z)) (l : sm) : Prop :=
  (sm_mode l < length modes)%nat /\ Forall (fun m => (m < length modes)%nat) (sm_stack l).

Lemma sm_inv_reset : forall modes l,
  modes_wf modes = true -> sm_inv_w modes l -> sm_inv modes (sm_reset l).
Proof.
  intros modes l Hwf [Hm Hst]. unfold sm_inv, sm_reset. cbn [sm_mode sm_state sm_stack].
  pose proof (modes_wf_nonempty modes Hwf) as Hne.
  pose proof (nstates_pos modes O Hwf Hne).
  split; [exact Hne|]. split; [lia|exact Hst].
Qed.

Lemma sm_inv_init : forall modes, modes_wf modes = true -> sm_inv modes sm_init.
Proof.
  intros modes Hwf. unfold sm_inv, sm_init. cbn [sm_mode sm_state sm_stack].
  pose proof (modes_wf_nonempty modes Hwf) as Hne.
  pose proof (nstates_pos modes O Hwf Hne).
  split; [exact Hne|]. split; [lia|constructor].
Qed.

Theorem decode_lex : forall modes fuel inp,
  modes_wf modes = true ->
  lex_tables modes fuel inp = g_lex Z (table_auto modes) (fun _ => 0) (length modes) fuel inp.
Proof.
  intros modes fuel inp Hwf. unfold lex_tables, g_lex.
  apply (lex_input_bisim _ _ _ _ _ _ _ _
           (fun l gl => rel_sm l gl /\ sm_inv modes l) (fun _ => True)).
  - exact I.
  - intros l gl r [Hrel [Hm [Hs Hst]]] _.
    pose proof (push_rune_decode modes l gl r Hwf Hrel Hm Hs Hst) as H.
    destruct (push_rune modes l r) as [[c l']|];
      destruct (g_push_rune Z (table_auto modes) (fun _ => 0) (length modes) gl r) as [[c' gl']|];
      try contradiction.
    destruct H as [<- [Hrel' [Hm' [Hst' Hs']]]].
    split; [reflexivity|]. split; [symmetry; apply Hrel'|]. split.
    + intros Hc. split; [exact Hrel'|]. split; [exact Hm'|]. split; [|exact Hst'].
      apply Hs'. unfold lexError. lia.
    + intros _. split.
      * destruct Hrel' as (Ht & _ & _ & Hstk & _).
        unfold rel_sm, sm_reset, g_reset.
        cbn [sm_token sm_state sm_consumed sm_accum sm_mode sm_stack g_token g_state g_fresh g_accum g_mode g_stack].
        repeat split; assumption.
      * apply sm_inv_reset; [exact Hwf|]. split; assumption.
  - split; [|apply sm_inv_init; exact Hwf].
    unfold rel_sm, sm_init, g_init.
    cbn [sm_token sm_state sm_consumed sm_accum sm_mode sm_stack g_token g_state g_fresh g_accum g_mode g_stack].
    repeat split.
  - intros; exact I.
Qed.
Print Assumptions decode_lex.

Theorem equiv_lex : forall (R : Type) (reqb : R -> R -> bool) (modes : list (list Z))
    (RA : nat -> R -> option (view R)) (rstart : nat -> R) (visited : list (pair R)),
  (forall a b, reqb a b = true <-> a = b) ->
  closed R reqb modes RA rstart visited = true ->
  modes_wf modes = true ->
  forall fuel inp, (forall r w, In (r, w) inp -> 0 <= r <= 1114111) ->
  lex_tables modes fuel inp = g_lex R RA rstart (length modes) fuel inp.
Proof.
  intros R reqb modes RA rstart visited Hreqb Hclosed Hwf fuel inp Hinp.
  rewrite (decode_lex modes fuel inp Hwf).
  apply (equiv_lex_ref R reqb modes RA rstart visited Hreqb Hclosed Hwf fuel inp Hinp).
Qed.
Print Assumptions equiv_step.
Print Assumptions equiv_lex.
