(* Reference automaton 1: the powerset of the NFA that lox built for a mode
   (dumped after input normalisation), with lox's meaning of the non-greedy
   mark (stop when the set holds the accepting state and a marked state of one
   and the same rule) and of
   rule priority (the action list with the smallest source position wins).
   This is "what the tables were built from" for property C10. *)
From Coq Require Import List ZArith Bool Arith.
From Lox Require Import Lex.LexAuto.
Import ListNotations.

Record nstate := {
  n_accept : bool;
  n_ng : bool;
  n_rule : nat;                          (* the rule the state was built for *)
  n_acts : option (Z * list (Z * Z));    (* source position, action pairs *)
  n_eps : list nat;
  n_edges : list (Z * Z * list nat);     (* [lo, hi] -> successors *)
}.

Definition nfa := list nstate.           (* indexed by state id *)

Definition nget (n : nfa) (i : nat) : nstate :=
  nth i n {| n_accept := false; n_ng := false; n_rule := O; n_acts := None; n_eps := []; n_edges := [] |}.

(* sorted duplicate-free lists of state ids *)
Fixpoint ins (x : nat) (l : list nat) : list nat :=
  match l with
  | [] => [x]
  | y :: l' => if Nat.ltb x y then x :: l else if Nat.eqb x y then l else y :: ins x l'
  end.
Definition mem (x : nat) (l : list nat) : bool := existsb (Nat.eqb x) l.

(* epsilon closure by a worklist, fuel = number of NFA states + 1 rounds *)
Fixpoint eclose (n : nfa) (fuel : nat) (work : list nat) (acc : list nat) : list nat :=
  match fuel with
  | O => acc
  | S f =>
    match work with
    | [] => acc
    | _ =>
      let fresh := filter (fun x => negb (mem x acc)) work in
      let acc' := fold_left (fun a x => ins x a) fresh acc in
      let next := flat_map (fun x => n_eps (nget n x)) fresh in
      eclose n f next acc'
    end
  end.

Definition closure (n : nfa) (l : list nat) : list nat := eclose n (S (length n)) l [].

Definition set_view (n : nfa) (set : list nat) : view (list nat) :=
  let sts := map (nget n) set in
  (* stop early iff the set holds the accepting state and a non-greedy state of one rule *)
  let acc_rules := map n_rule (filter n_accept sts) in
  let ngacc := existsb (fun s => n_ng s && existsb (Nat.eqb (n_rule s)) acc_rules) sts in
  (* every range leaving the set, with the closed successor set; ranges are
     pairwise equal or disjoint after normalisation, so grouping by equality
     is exact *)
  let edges := flat_map n_edges sts in
  let keys := fold_left (fun ks e => let '(lo, hi, _) := e in
                           if existsb (fun k => (fst k =? lo)%Z && (snd k =? hi)%Z) ks then ks
                           else ks ++ [(lo, hi)]) edges [] in
  let tr := map (fun k =>
              let tos := flat_map (fun e => let '(lo, hi, to) := e in
                            if (lo =? fst k)%Z && (hi =? snd k)%Z then to else []) edges in
              (fst k, snd k, closure n tos)) keys in
  (* pickAction: smallest position wins *)
  let best := fold_left (fun b s =>
                match n_acts s, b with
                | Some (p, a), Some (pb, _) => if (p <? pb)%Z then Some (p, a) else b
                | Some pa, None => Some pa
                | None, _ => b
                end) sts None in
  {| v_flag := ngacc;
     v_trans := tr;
     v_acts := match best with Some (_, a) => a | None => [] end |}.

(* one NFA per mode, each with the list of its rules' begin states *)
Definition nfa_auto (ns : list (nfa * list nat)) (m : nat) (set : list nat) : option (view (list nat)) :=
  match nth_error ns m with
  | Some (n, _) => Some (set_view n set)
  | None => None
  end.

Definition nfa_start (ns : list (nfa * list nat)) (m : nat) : list nat :=
  match nth_error ns m with
  | Some (n, b) => closure n b
  | None => []
  end.
