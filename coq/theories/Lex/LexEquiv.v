(* Product exploration deciding that the decoded table and a reference
   automaton behave identically on every input: a closed, locally consistent
   relation between their states.  Generic in the reference's state type.
   [equiv_check] returns the list of visited pairs on success, or a
   distinguishing path (one representative code point per step). *)
From Coq Require Import List ZArith Bool.
From Lox Require Import Lex.LexRuntime Lex.LexAuto.
Import ListNotations.
Local Open Scope Z_scope.

Section Equiv.
Variable R : Type.
Variable reqb : R -> R -> bool.
Variable modes : list (list Z).
Variable RA : nat -> R -> option (view R).
Variable rstart : nat -> R.

Definition pair := (nat * Z * R)%type.     (* mode, table state, reference state *)

Definition pair_eqb (a b : pair) : bool :=
  let '(m, s, r) := a in let '(m', s', r') := b in
  Nat.eqb m m' && (s =? s') && reqb r r'.

Definition acts_eqb (a b : list (Z * Z)) : bool :=
  (Nat.eqb (length a) (length b)) &&
  forallb (fun p => (fst (fst p) =? fst (snd p)) && (snd (fst p) =? snd (snd p))) (combine a b).

(* boundary points of a row: every lo and every hi+1, plus 0 and the EOF rune -1 *)
Definition bounds_of {X} (tr : list (Z * Z * X)) : list Z :=
  flat_map (fun t => let '(lo, hi, _) := t in [lo; hi + 1]) tr.

Inductive verdict :=
| VOk (visited : list pair)
| VDiff (path : list Z) (why : Z)      (* why: 1 flag, 2 actions, 3 transition defined on one side, 5 bad row.  Re-entering state 0 in the middle of
   a token is fine: the run-time tracks the token boundary with its own flag (g_fresh), not with the state number *)
| VFuel.

(* check one pair; returns the successor pairs to visit *)
Definition check_pair (p : pair) : option (list (Z * pair)) * Z :=
  let '(m, s, r) := p in
  match table_auto modes m s, RA m r with
  | Some vt, Some vr =>
    if negb (Bool.eqb (v_flag vt) (v_flag vr)) then (None, 1)
    else if negb (acts_eqb (v_acts vt) (v_acts vr)) then (None, 2)
    else if v_flag vt then (Some [], 0)
    else
      let pts := filter (fun b => (-1 <=? b) && (b <=? 1114111))
                        (-1 :: 0 :: bounds_of (v_trans vt) ++ bounds_of (v_trans vr)) in
      let step b :=
        match lookup Z (v_trans vt) b, lookup R (v_trans vr) b with
        | None, None => Some None
        | Some s', Some r' => Some (Some (b, (m, s', r')))
        | _, _ => None
        end in
      if forallb (fun b => match step b with Some _ => true | None => false end) pts
      then (Some (flat_map (fun b => match step b with Some (Some x) => [x] | _ => [] end) pts), 0)
      else
        (None, 3)
  | _, _ => (None, 5)
  end.

Definition path_to (paths : list (pair * list Z)) (p : pair) : list Z :=
  match find (fun x => pair_eqb (fst x) p) paths with
  | Some (_, l) => l
  | None => []
  end.

Fixpoint explore (fuel : nat) (work : list (pair * list Z)) (visited : list pair) : verdict :=
  match fuel with
  | O => VFuel
  | S f =>
    match work with
    | [] => VOk visited
    | (p, path) :: rest =>
      if existsb (pair_eqb p) visited then explore f rest visited
      else
        match check_pair p with
        | (None, why) => VDiff (rev path) why
        | (Some succs, _) =>
          explore f (rest ++ map (fun bp => (snd bp, fst bp :: path)) succs) (p :: visited)
        end
    end
  end.

Definition equiv_check (fuel : nat) : verdict :=
  explore fuel (map (fun m => ((m, 0, rstart m), [])) (seq 0 (length modes))) [].

(* the self-contained acceptance test used by the theorems: every visited pair
   is locally consistent, every successor is visited, the start pairs are
   visited.  (What explore returns satisfies it; the theorem is about this
   predicate, so explore itself needs no proof.) *)
Definition closed (visited : list pair) : bool :=
  forallb (fun m => existsb (pair_eqb (m, 0, rstart m)) visited) (seq 0 (length modes)) &&
  forallb (fun p =>
    match check_pair p with
    | (Some succs, _) => forallb (fun bp => existsb (pair_eqb (snd bp)) visited) succs
    | (None, _) => false
    end) visited.

End Equiv.
