(* Automaton-level view of a lexer: per mode, per state, a non-greedy flag, a
   list of range transitions and a list of action pairs.  [decode_modes] reads
   this view out of the emitted arrays; [ga_push_rune] is PushRune over a view
   with an arbitrary state type, so that the same semantics can be run on the
   decoded table, on the powerset of the NFA it was built from, and on
   derivatives of the rules. No proofs in this file. *)
From Coq Require Import List ZArith Bool.
From Lox Require Import Lex.LexRuntime.
Import ListNotations.
Local Open Scope Z_scope.

Record view (S : Type) := {
  v_flag : bool;                         (* non-greedy accepting *)
  v_trans : list (Z * Z * S);            (* [lo, hi] -> successor *)
  v_acts : list (Z * Z);                 (* (type, parameter) pairs in order *)
}.
Arguments v_flag {S}. Arguments v_trans {S}. Arguments v_acts {S}.

(* ---- decoding a _lexerModeN array ---- *)

Fixpoint take_triples (n : nat) (m : list Z) (i : Z) : option (list (Z * Z * Z)) :=
  match n with
  | O => Some []
  | S n' =>
    match nthz m i, nthz m (i + 1), nthz m (i + 2), take_triples n' m (i + 3) with
    | Some a, Some b, Some c, Some rest => Some ((a, b, c) :: rest)
    | _, _, _, _ => None
    end
  end.

Fixpoint take_pairs (n : nat) (m : list Z) (i : Z) : option (list (Z * Z)) :=
  match n with
  | O => Some []
  | S n' =>
    match nthz m i, nthz m (i + 1), take_pairs n' m (i + 2) with
    | Some a, Some b, Some rest => Some ((a, b) :: rest)
    | _, _, _ => None
    end
  end.

(* the row of state s in mode array m *)
Definition decode_row (m : list Z) (s : Z) : option (view Z) :=
  match nthz m s with
  | None => None
  | Some i0 =>
    match nthz m i0 with
    | None => None
    | Some count =>
      match nthz m (i0 + 1), nthz m (i0 + 2) with
      | Some flags, Some goto_n =>
        let rest := count - 2 - 3 * goto_n in
        if (goto_n <? 0) || (rest <? 0) || negb (Z.even rest) then None
        else
          match take_triples (Z.to_nat goto_n) m (i0 + 3),
                take_pairs (Z.to_nat (rest / 2)) m (i0 + 3 + 3 * goto_n) with
          | Some tr, Some ac =>
            Some {| v_flag := negb (Z.land flags 1 =? 0); v_trans := tr; v_acts := ac |}
          | _, _ => None
          end
      | _, _ => None
      end
    end
  end.

(* ---- structural well-formedness of an emitted mode table ---- *)

Fixpoint sorted_disjoint (prev : Z) (tr : list (Z * Z * Z)) : bool :=
  match tr with
  | [] => true
  | (lo, hi, _) :: rest => (prev <? lo) && (lo <=? hi) && sorted_disjoint hi rest
  end.

Definition row_wf (nmodes : Z) (nstates : Z) (v : view Z) : bool :=
  sorted_disjoint (-1) (v_trans v) &&
  forallb (fun t => let '(_, hi, s) := t in (hi <=? 1114111) && (0 <=? s) && (s <? nstates)) (v_trans v) &&
  forallb (fun a => let '(ty, p) := a in
             (1 <=? ty) && (ty <=? 5) &&
             (if ty =? 1 then (0 <=? p) && (p <? nmodes) else true)) (v_acts v).

(* number of states of a mode array: the index vector is as long as its first
   row offset (Array() puts maxIndex+1 index entries first, and state 0's row
   is the first row added) *)
Definition mode_nstates (m : list Z) : Z :=
  match nthz m 0 with Some i0 => i0 | None => 0 end.

Definition mode_wf (nmodes : Z) (m : list Z) : bool :=
  let n := mode_nstates m in
  (0 <? n) &&
  forallb (fun s => match decode_row m (Z.of_nat s) with
                    | Some v => row_wf nmodes n v
                    | None => false
                    end) (seq 0 (Z.to_nat n)).

Definition modes_wf (modes : list (list Z)) : bool :=
  negb (Nat.eqb (length modes) 0) &&
  forallb (mode_wf (Z.of_nat (length modes))) modes.

(* no transition of any state re-enters state 0: the run-time equates
   "state 0" with "at a token boundary, nothing consumed yet" (it skips the
   actions there and may report EOF there) *)
Definition mode_progress_ok (m : list Z) : bool :=
  let n := mode_nstates m in
  forallb (fun s => match decode_row m (Z.of_nat s) with
                    | Some v => forallb (fun t => negb (snd t =? 0)) (v_trans v)
                    | None => false
                    end) (seq 0 (Z.to_nat n)) &&
  match decode_row m 0 with
  | Some v => negb (v_flag v)
  | None => false
  end.

(* in every row, nothing follows an accept / discard / accum pair *)
Fixpoint terminal_last (acts : list (Z * Z)) : bool :=
  match acts with
  | [] => true
  | (ty, _) :: rest =>
    if (3 <=? ty) && (ty <=? 5) then match rest with [] => true | _ => false end
    else terminal_last rest
  end.

Definition mode_terminal_last (m : list Z) : bool :=
  let n := mode_nstates m in
  forallb (fun s => match decode_row m (Z.of_nat s) with
                    | Some v => terminal_last (v_acts v)
                    | None => false
                    end) (seq 0 (Z.to_nat n)).

(* ---- PushRune over views ---- *)

Section Generic.
Variable S : Type.
Variable A : nat -> S -> option (view S).    (* mode -> state -> row *)
Variable start : nat -> S.                   (* start state of a mode *)
Variable nmodes : nat.

Record gsm := {
  g_token : Z;
  g_state : S;
  g_fresh : bool;              (* nothing consumed since the last boundary *)
  g_accum : bool;              (* text of an action-less fragment is pending *)
  g_mode : nat;
  g_stack : list nat;
}.

Fixpoint lookup (tr : list (Z * Z * S)) (r : Z) : option S :=
  match tr with
  | [] => None
  | (lo, hi, s) :: rest => if (lo <=? r) && (r <=? hi) then Some s else lookup rest r
  end.

Inductive gares :=
| GReturn (code : Z) (l : gsm)
| GFall (l : gsm)
| GCrash.

Definition at_start (l : gsm) (code : Z) (tok : Z) : gsm :=
  {| g_token := tok; g_state := start (g_mode l); g_fresh := true;
     g_accum := (code =? lexTryAgain);
     g_mode := g_mode l; g_stack := g_stack l |}.

Fixpoint g_actions (acts : list (Z * Z)) (l : gsm) : gares :=
  match acts with
  | [] => GFall l
  | (ty, param) :: rest =>
    if ty =? 1 then
      if (param <? 0) || (Z.of_nat nmodes <=? param) then GCrash
      else g_actions rest {| g_token := g_token l; g_state := g_state l; g_fresh := g_fresh l;
                             g_accum := g_accum l;
                             g_mode := Z.to_nat param; g_stack := g_mode l :: g_stack l |}
    else if ty =? 2 then
      match g_stack l with
      | [] => GReturn lexError l
      | m :: st => g_actions rest {| g_token := g_token l; g_state := g_state l; g_fresh := g_fresh l;
                                     g_accum := g_accum l;
                                     g_mode := m; g_stack := st |}
      end
    else if ty =? 3 then GReturn lexAccept (at_start l lexAccept param)
    else if ty =? 4 then GReturn lexDiscard (at_start l lexDiscard (g_token l))
    else if ty =? 5 then GReturn lexTryAgain (at_start l lexTryAgain (g_token l))
    else g_actions rest l
  end.

Definition g_push_rune (l : gsm) (r : Z) : option (Z * gsm) :=
  match A (g_mode l) (g_state l) with
  | None => None
  | Some v =>
    match (if v_flag v then None else lookup (v_trans v) r) with
    | Some s' =>
      Some (lexConsume, {| g_token := g_token l; g_state := s'; g_fresh := false;
                           g_accum := g_accum l;
                           g_mode := g_mode l; g_stack := g_stack l |})
    | None =>
      (* at a token boundary an empty match is not a token: the actions are skipped *)
      match (if g_fresh l then GFall l else g_actions (v_acts v) l) with
      | GCrash => None
      | GReturn code l' => Some (code, l')
      | GFall l' =>
        if g_fresh l' && (r =? -1) && negb (g_accum l')
        then Some (lexEOF, l') else Some (lexError, l')
      end
    end
  end.

Definition g_reset (l : gsm) : gsm :=
  {| g_token := g_token l; g_state := start O; g_fresh := true; g_accum := false;
     g_mode := O; g_stack := g_stack l |}.

Definition g_init : gsm :=
  {| g_token := 0; g_state := start O; g_fresh := true; g_accum := false; g_mode := O; g_stack := [] |}.

(* the reference driver over a view automaton *)
Definition g_lex (fuel : nat) (inp : list (Z * Z)) : lres :=
  lex_input gsm g_push_rune g_token g_reset g_init fuel inp.

End Generic.

Arguments g_token {S}. Arguments g_state {S}. Arguments g_fresh {S}. Arguments g_accum {S}.
Arguments g_mode {S}. Arguments g_stack {S}.

(* the view automaton of the emitted tables *)
Definition table_auto (modes : list (list Z)) (m : nat) (s : Z) : option (view Z) :=
  match nth_error modes m with
  | Some arr => decode_row arr s
  | None => None
  end.
