(* Executable mirror of Go's unicode/utf8.DecodeRune and utf8.AppendRune
   (go 1.23, src/unicode/utf8/utf8.go).  The reference lexer driver reads its
   input with bytes.Reader.ReadRune, i.e. DecodeRune on the unread suffix:
   every call yields (rune, width); an invalid or truncated encoding yields
   (RuneError, 1).

   Bytes are Z in 0..255, runes are Z.  The bit operations of the Go source
   are written with the equal arithmetic on the same constants:
     b & maskx = b mod 64, p0 & mask2 = p0 mod 32, p0 & mask3 = p0 mod 16,
     p0 & mask4 = p0 mod 8, x & 7 = x mod 8, x >> 4 = x / 16,
     r >> 6k = r / 64^k, and a << k | b = a * 2^k + b (disjoint bit fields).
   Definitions only; this file is extracted and compared with Go. *)
From Coq Require Import List ZArith Bool.
Import ListNotations.
Local Open Scope Z_scope.

(* ---- constants ---- *)
Definition RuneError : Z := 65533.       (* U+FFFD *)
Definition RuneSelf : Z := 128.
Definition MaxRune : Z := 1114111.       (* U+10FFFF *)
Definition surrogateMin : Z := 55296.    (* 0xD800 *)
Definition surrogateMax : Z := 57343.    (* 0xDFFF *)
Definition rune1Max : Z := 127.
Definition rune2Max : Z := 2047.
Definition rune3Max : Z := 65535.
Definition locb : Z := 128.              (* 0b10000000 *)
Definition hicb : Z := 191.              (* 0b10111111 *)

(* entries of the table `first`: high nibble = index into acceptRanges (F for
   the one-byte cases), low nibble = length / status *)
Definition xx : Z := 241.   (* 0xF1 invalid: size 1 *)
Definition as_ : Z := 240.  (* 0xF0 ASCII: size 1 *)
Definition s1 : Z := 2.     (* 0x02 accept 0, size 2 *)
Definition s2 : Z := 19.    (* 0x13 accept 1, size 3 *)
Definition s3 : Z := 3.     (* 0x03 accept 0, size 3 *)
Definition s4 : Z := 35.    (* 0x23 accept 2, size 3 *)
Definition s5 : Z := 52.    (* 0x34 accept 3, size 4 *)
Definition s6 : Z := 4.     (* 0x04 accept 0, size 4 *)
Definition s7 : Z := 68.    (* 0x44 accept 4, size 4 *)

(* first[b]; a value that is not a byte is treated as invalid (never happens
   for byte input) *)
Definition first (b : Z) : Z :=
  if b <? 0 then xx
  else if b <? 128 then as_          (* 00..7F *)
  else if b <? 194 then xx           (* 80..BF continuation, C0 C1 overlong *)
  else if b <? 224 then s1           (* C2..DF *)
  else if b =? 224 then s2           (* E0 *)
  else if b <? 237 then s3           (* E1..EC *)
  else if b =? 237 then s4           (* ED *)
  else if b <? 240 then s3           (* EE EF *)
  else if b =? 240 then s5           (* F0 *)
  else if b <? 244 then s6           (* F1..F3 *)
  else if b =? 244 then s7           (* F4 *)
  else xx.                           (* F5..FF *)

(* acceptRanges[i].lo / .hi; the array has 16 entries, 5..15 are zero *)
Definition accept_lo (i : Z) : Z :=
  if i =? 0 then locb else if i =? 1 then 160 else if i =? 2 then locb
  else if i =? 3 then 144 else if i =? 4 then locb else 0.
Definition accept_hi (i : Z) : Z :=
  if i =? 0 then hicb else if i =? 1 then hicb else if i =? 2 then 159
  else if i =? 3 then hicb else if i =? 4 then 143 else 0.

(* len(l) >= n, looking at no more than n cells *)
Fixpoint has_len (n : nat) (l : list Z) : bool :=
  match n with
  | O => true
  | S n' => match l with [] => false | _ :: l' => has_len n' l' end
  end.

(* b < locb || hicb < b *)
Definition cont_bad (b : Z) : bool := (b <? locb) || (hicb <? b).

Definition err (t0 : list Z) : Z * Z * list Z := (RuneError, 1, t0).

Definition rune2 (p0 b1 : Z) : Z := (p0 mod 32) * 64 + b1 mod 64.
Definition rune3 (p0 b1 b2 : Z) : Z :=
  (p0 mod 16) * 4096 + (b1 mod 64) * 64 + b2 mod 64.
Definition rune4 (p0 b1 b2 b3 : Z) : Z :=
  (p0 mod 8) * 262144 + (b1 mod 64) * 4096 + (b2 mod 64) * 64 + b3 mod 64.

(* body of DecodeRune after x := first[p0]; p = p0 :: t0; the result is
   (rune, size, unread rest) *)
Definition decode_step (x p0 : Z) (t0 : list Z) : Z * Z * list Z :=
  if as_ <=? x then
    (* mask := rune(x) << 31 >> 31: all ones iff the low bit of x is set *)
    ((if x mod 2 =? 1 then RuneError else p0), 1, t0)
  else
    let sz := x mod 8 in
    let lo := accept_lo (x / 16) in
    let hi := accept_hi (x / 16) in
    if negb (has_len (Z.to_nat sz) (p0 :: t0)) then err t0       (* n < sz *)
    else
      match t0 with
      | [] => err t0                                  (* unreachable: sz >= 2 *)
      | b1 :: t1 =>
        if (b1 <? lo) || (hi <? b1) then err t0
        else if sz <=? 2 then (rune2 p0 b1, 2, t1)
        else
          match t1 with
          | [] => err t0                              (* unreachable: n >= sz *)
          | b2 :: t2 =>
            if cont_bad b2 then err t0
            else if sz <=? 3 then (rune3 p0 b1 b2, 3, t2)
            else
              match t2 with
              | [] => err t0                          (* unreachable: n >= sz *)
              | b3 :: t3 =>
                if cont_bad b3 then err t0
                else (rune4 p0 b1 b2 b3, 4, t3)
              end
          end
      end.

(* utf8.DecodeRune: None is Go's (RuneError, 0) on empty input *)
Definition decode_rune (p : list Z) : option (Z * Z * list Z) :=
  match p with
  | [] => None
  | p0 :: t0 => Some (decode_step (first p0) p0 t0)
  end.

(* the (rune, width) sequence the driver sees when it calls ReadRune until
   io.EOF *)
Fixpoint decode_all_fuel (fuel : nat) (bs : list Z) : list (Z * Z) :=
  match fuel with
  | O => []
  | S f =>
    match decode_rune bs with
    | None => []
    | Some (r, w, rest) => (r, w) :: decode_all_fuel f rest
    end
  end.

Definition decode_all (bs : list Z) : list (Z * Z) :=
  decode_all_fuel (S (length bs)) bs.

(* ---- utf8.AppendRune(nil, r) ---- *)
Definition enc3 (r : Z) : list Z :=
  [224 + r / 4096; 128 + (r / 64) mod 64; 128 + r mod 64].

(* Go switches on uint32(r): a negative rune is > MaxRune as uint32 and is
   encoded as RuneError, like surrogates and values above MaxRune *)
Definition encode_rune (r : Z) : list Z :=
  if (0 <=? r) && (r <=? rune1Max) then [r]
  else if (0 <=? r) && (r <=? rune2Max) then [192 + r / 64; 128 + r mod 64]
  else if (r <? 0) || (MaxRune <? r)
          || ((surrogateMin <=? r) && (r <=? surrogateMax)) then enc3 RuneError
  else if r <=? rune3Max then enc3 r
  else [240 + r / 262144; 128 + (r / 4096) mod 64; 128 + (r / 64) mod 64;
        128 + r mod 64].

Definition encode_all (rs : list Z) : list Z := flat_map encode_rune rs.

(* sum of the widths of a decode_all result *)
Definition sum_widths (l : list (Z * Z)) : Z :=
  fold_right (fun rw acc => snd rw + acc) 0 l.

Definition runes_of (l : list (Z * Z)) : list Z := map fst l.
