(* L8: mode-stack discipline of the action loop.  (a) when the terminal action
   is last, every push/pop pair of the list is executed, in order; (b) a push
   followed by a balanced sequence and a pop restores mode and stack. *)
From Coq Require Import List ZArith Lia Bool Arith ZifyBool ZifyNat.
From Lox Require Import Lex.LexRuntime Lex.LexAuto Lex.LexLookupProofs Lex.LexDecodeProofs.
Import ListNotations.
Local Open Scope Z_scope.

Section Modes.
Variable nmodes : nat.

(* fold the push/pop pairs over (mode, stack); None when popping an empty
   stack or pushing an out-of-range mode *)
Fixpoint apply_modes (acts : list (Z * Z)) (ms : nat * list nat) : option (nat * list nat) :=
  match acts with
  | [] => Some ms
  | (ty, p) :: rest =>
    if ty =? 1 then
      if (p <? 0) || (Z.of_nat nmodes <=? p) then None
      else apply_modes rest (Z.to_nat p, fst ms :: snd ms)
    else if ty =? 2 then
      match snd ms with
      | [] => None
      | m :: st => apply_modes rest (m, st)
      end
    else apply_modes rest ms
  end.

Definition is_terminal (ty : Z) : bool := (3 <=? ty) && (ty <=? 5).

Fixpoint first_terminal (acts : list (Z * Z)) : option (Z * Z) :=
  match acts with
  | [] => None
  | (ty, p) :: rest => if is_terminal ty then Some (ty, p) else first_terminal rest
  end.

Definition term_code (ty : Z) : Z :=
  if ty =? 3 then lexAccept else if ty =? 4 then lexDiscard else lexTryAgain.

(* under terminal_last the first terminal action is the last element *)
Lemma first_terminal_last : forall acts a,
  terminal_last acts = true -> first_terminal acts = Some a ->
  exists pre, acts = pre ++ [a] /\ first_terminal pre = None.
Proof.
  induction acts as [|[ty p] rest IH]; intros a Htl H; cbn [first_terminal] in H; [discriminate|].
  cbn [terminal_last] in Htl. unfold is_terminal in H.
  destruct ((3 <=? ty) && (ty <=? 5)) eqn:E.
  - injection H as <-. destruct rest; [|discriminate]. exists []. split; reflexivity.
  - destruct (IH a Htl H) as [pre [Hp Hn]]. exists ((ty, p) :: pre).
    split; [rewrite Hp; reflexivity|]. cbn [first_terminal]. unfold is_terminal. rewrite E. exact Hn.
Qed.

Lemma act_spec_apply : forall acts md st,
  terminal_last acts = true ->
  match apply_modes acts (md, st) with
  | Some (m', st') =>
    act_spec nmodes acts md st =
    match first_terminal acts with
    | Some (ty, p) => OTerm (term_code ty) (if ty =? 3 then Some p else None) m' st'
    | None => OFall m' st'
    end
  | None =>
    act_spec nmodes acts md st = OCrash \/
    exists m' st', act_spec nmodes acts md st = OPopErr m' st'
  end.
Proof.
  induction acts as [|[ty p] rest IH]; intros md st Htl.
  - reflexivity.
  - cbn [terminal_last] in Htl. cbn [apply_modes act_spec first_terminal fst snd].
    unfold is_terminal.
    destruct ((3 <=? ty) && (ty <=? 5)) eqn:Eterm.
    + destruct rest; [|discriminate]. cbn [apply_modes act_spec].
      destruct (ty =? 1) eqn:T1; [lia|]. destruct (ty =? 2) eqn:T2; [lia|].
      unfold term_code.
      destruct (ty =? 3) eqn:T3; [reflexivity|].
      destruct (ty =? 4) eqn:T4; [reflexivity|].
      destruct (ty =? 5) eqn:T5; [reflexivity|lia].
    + destruct (ty =? 1) eqn:T1.
      { destruct ((p <? 0) || (Z.of_nat nmodes <=? p)); [left; reflexivity|]. apply IH. exact Htl. }
      destruct (ty =? 2) eqn:T2.
      { destruct st as [|m0 st0]; [right; exists md, []; reflexivity|]. apply IH. exact Htl. }
      destruct (ty =? 3) eqn:T3; [lia|].
      destruct (ty =? 4) eqn:T4; [lia|].
      destruct (ty =? 5) eqn:T5; [lia|].
      apply IH. exact Htl.
Qed.

(* ---------- (a) for the view machine ---------- *)

Theorem actions_all_effective : forall (S : Type) (start : nat -> S) acts (l : gsm S),
  terminal_last acts = true ->
  match apply_modes acts (g_mode l, g_stack l) with
  | Some (m', st') =>
    g_actions S start nmodes acts l =
    match first_terminal acts with
    | Some (ty, p) =>
      GReturn S (term_code ty)
        (at_start S start (Build_gsm S (g_token l) (g_state l) (g_fresh l) (g_accum l) m' st')
                  (term_code ty) (if ty =? 3 then p else g_token l))
    | None => GFall S (Build_gsm S (g_token l) (g_state l) (g_fresh l) (g_accum l) m' st')
    end
  | None =>
    g_actions S start nmodes acts l = GCrash S \/
    exists l', g_actions S start nmodes acts l = GReturn S lexError l'
  end.
Proof.
  intros S start acts [tok s f a md st] Htl. cbn [g_token g_state g_fresh g_accum g_mode g_stack].
  rewrite g_actions_spec.
  pose proof (act_spec_apply acts md st Htl) as H.
  destruct (apply_modes acts (md, st)) as [[m' st']|].
  - rewrite H. destruct (first_terminal acts) as [[ty p]|]; cbn [g_out]; [|reflexivity].
    unfold at_start. cbn [g_mode g_stack g_token]. destruct (ty =? 3); reflexivity.
  - destruct H as [H|[m' [st' H]]]; rewrite H; cbn [g_out]; [left; reflexivity|].
    right. eexists. reflexivity.
Qed.

(* ---------- (c) the same for the raw action loop over a mode array ---------- *)

Theorem run_actions_all_effective : forall modes m n i ac fuel tok s cn a md st,
  nmodes = length modes ->
  take_pairs n m i = Some ac -> (n < fuel)%nat -> terminal_last ac = true ->
  let l0 := {| sm_token := tok; sm_state := s; sm_consumed := cn; sm_accum := a;
               sm_mode := md; sm_stack := st |} in
  match apply_modes ac (md, st) with
  | Some (m', st') =>
    run_actions modes fuel m i (i + 2 * Z.of_nat n) l0 =
    match first_terminal ac with
    | Some (ty, p) =>
      AReturn (term_code ty)
        {| sm_token := if ty =? 3 then p else tok; sm_state := 0; sm_consumed := false;
           sm_accum := (term_code ty =? lexTryAgain); sm_mode := m'; sm_stack := st' |}
    | None => AFall {| sm_token := tok; sm_state := s; sm_consumed := cn; sm_accum := a;
                       sm_mode := m'; sm_stack := st' |}
    end
  | None =>
    run_actions modes fuel m i (i + 2 * Z.of_nat n) l0 = ACrash \/
    exists l', run_actions modes fuel m i (i + 2 * Z.of_nat n) l0 = AReturn lexError l'
  end.
Proof.
  intros modes m n i ac fuel tok s cn a md st Hnm Htp Hf Htl l0. unfold l0.
  rewrite (run_actions_spec modes m n i ac Htp fuel tok s cn a md st Hf). rewrite <- Hnm.
  pose proof (act_spec_apply ac md st Htl) as H.
  destruct (apply_modes ac (md, st)) as [[m' st']|].
  - rewrite H. destruct (first_terminal ac) as [[ty p]|]; cbn [sm_out]; [|reflexivity].
    destruct (ty =? 3); reflexivity.
  - destruct H as [H|[m' [st' H]]]; rewrite H; cbn [sm_out]; [left; reflexivity|].
    right. eexists. reflexivity.
Qed.

(* ---------- (b) push ... balanced ... pop ---------- *)

Lemma apply_modes_app : forall a b ms,
  apply_modes (a ++ b) ms =
  match apply_modes a ms with Some ms' => apply_modes b ms' | None => None end.
Proof.
  induction a as [|[ty p] a IH]; intros b ms; [reflexivity|].
  cbn [app apply_modes].
  destruct (ty =? 1).
  { destruct ((p <? 0) || (Z.of_nat nmodes <=? p)); [reflexivity|]. apply IH. }
  destruct (ty =? 2).
  { destruct (snd ms); [reflexivity|]. apply IH. }
  apply IH.
Qed.

Inductive balanced : list (Z * Z) -> Prop :=
| bal_nil : balanced []
| bal_other : forall ty p, ty <> 1 -> ty <> 2 -> balanced [(ty, p)]
| bal_wrap : forall p q a, balanced a -> balanced ((1, p) :: a ++ [(2, q)])
| bal_app : forall a b, balanced a -> balanced b -> balanced (a ++ b).

Lemma balanced_restores : forall a, balanced a ->
  forall ms r, apply_modes a ms = Some r -> r = ms.
Proof.
  induction 1 as [|ty p H1 H2|p q a Ha IH|a b Ha IHa Hb IHb]; intros ms r Hr.
  - cbn [apply_modes] in Hr. injection Hr as <-. reflexivity.
  - cbn [apply_modes] in Hr.
    destruct (ty =? 1) eqn:T1; [lia|]. destruct (ty =? 2) eqn:T2; [lia|].
    injection Hr as <-. reflexivity.
  - cbn [apply_modes] in Hr. cbn [Z.eqb] in Hr.
    destruct ((p <? 0) || (Z.of_nat nmodes <=? p)); [discriminate|].
    rewrite apply_modes_app in Hr.
    destruct (apply_modes a (Z.to_nat p, fst ms :: snd ms)) as [ms'|] eqn:Ea; [|discriminate].
    apply IH in Ea. subst ms'. cbn [apply_modes Z.eqb snd] in Hr.
    injection Hr as <-. destruct ms; reflexivity.
  - rewrite apply_modes_app in Hr.
    destruct (apply_modes a ms) as [ms'|] eqn:Ea; [|discriminate].
    apply IHa in Ea. subst ms'. apply IHb. exact Hr.
Qed.

(* a balanced sequence never pops an empty stack: it can only fail by pushing
   an out-of-range mode *)
Lemma balanced_succeeds : forall a, balanced a ->
  (forall p, In (1, p) a -> 0 <= p < Z.of_nat nmodes) ->
  forall ms, apply_modes a ms = Some ms.
Proof.
  induction 1 as [|ty p H1 H2|p q a Ha IH|a b Ha IHa Hb IHb]; intros Hin ms.
  - reflexivity.
  - cbn [apply_modes]. destruct (ty =? 1) eqn:T1; [lia|]. destruct (ty =? 2) eqn:T2; [lia|].
    reflexivity.
  - cbn [apply_modes Z.eqb].
    pose proof (Hin p (or_introl eq_refl)) as Hp.
    destruct ((p <? 0) || (Z.of_nat nmodes <=? p)) eqn:C; [lia|].
    rewrite apply_modes_app, IH.
    + cbn [apply_modes Z.eqb snd]. destruct ms; reflexivity.
    + intros p' Hp'. apply Hin. right. apply in_or_app. left. exact Hp'.
  - rewrite apply_modes_app, IHa, IHb; [reflexivity| |].
    + intros p Hp. apply Hin. apply in_or_app. right. exact Hp.
    + intros p Hp. apply Hin. apply in_or_app. left. exact Hp.
Qed.

Theorem push_pop_restores : forall p q mid m st r,
  balanced mid ->
  apply_modes ((1, p) :: mid ++ [(2, q)]) (m, st) = Some r -> r = (m, st).
Proof.
  intros p q mid m st r Hb H.
  apply (balanced_restores _ (bal_wrap p q mid Hb) (m, st) r H).
Qed.

(* and it does succeed when the pushed modes are in range *)
Theorem push_pop_restores_ok : forall p q mid m st,
  balanced mid -> 0 <= p < Z.of_nat nmodes ->
  (forall p', In (1, p') mid -> 0 <= p' < Z.of_nat nmodes) ->
  apply_modes ((1, p) :: mid ++ [(2, q)]) (m, st) = Some (m, st).
Proof.
  intros p q mid m st Hb Hp Hmid.
  apply (balanced_succeeds _ (bal_wrap p q mid Hb)).
  intros p' [Hin|Hin]; [injection Hin as <-; exact Hp|].
  apply in_app_or in Hin. destruct Hin as [Hin|[Hin|[]]]; [apply Hmid; exact Hin|discriminate Hin].
Qed.

End Modes.

Print Assumptions actions_all_effective.
Print Assumptions run_actions_all_effective.
Print Assumptions push_pop_restores.
Print Assumptions push_pop_restores_ok.
