(* L1 / L2: the linear [lookup] of the view automaton is determined by boundary
   representatives, and the binary search of the generated PushRune computes
   exactly [lookup] on a decoded, sorted row.  Also the inversion lemmas for
   [nthz], [take_triples], [take_pairs], [decode_row] used by the later files. *)
From Coq Require Import List ZArith Lia Bool Arith ZifyBool ZifyNat.
From Lox Require Import Lex.LexRuntime Lex.LexAuto.
Import ListNotations.
Local Open Scope Z_scope.

(* ---------- L1 ---------- *)

Lemma lookup_rep_core : forall (X : Type) (tr : list (Z * Z * X)) (r b : Z),
  b <= r ->
  (forall lo hi x, In (lo, hi, x) tr ->
     (lo <= r -> lo <= b) /\ (hi + 1 <= r -> hi + 1 <= b)) ->
  lookup X tr r = lookup X tr b.
Proof.
  intros X tr r b Hbr.
  induction tr as [|[[lo hi] x] rest IH]; intros H; cbn [lookup]; [reflexivity|].
  destruct (H lo hi x (or_introl eq_refl)) as [H1 H2].
  rewrite IH by (intros lo' hi' x' Hin; apply (H lo' hi' x'); right; exact Hin).
  destruct ((lo <=? r) && (r <=? hi)) eqn:E1;
    destruct ((lo <=? b) && (b <=? hi)) eqn:E2; try reflexivity; lia.
Qed.

Theorem lookup_rep : forall (X : Type) (tr : list (Z * Z * X)) (pts : list Z) (r : Z),
  (forall lo hi x, In (lo, hi, x) tr -> In lo pts /\ In (hi + 1) pts) ->
  forall b, In b pts -> b <= r ->
  (forall b', In b' pts -> b' <= r -> b' <= b) ->
  lookup X tr r = lookup X tr b.
Proof.
  intros X tr pts r Hpts b Hb Hbr Hmax.
  apply lookup_rep_core; [exact Hbr|].
  intros lo hi x Hin. destruct (Hpts lo hi x Hin) as [Hlo Hhi].
  split; intros Hle; apply Hmax; assumption.
Qed.
Print Assumptions lookup_rep.

(* greatest point of a list below r *)
Lemma max_below : forall (pts : list Z) (r p0 : Z),
  In p0 pts -> p0 <= r ->
  exists b, In b pts /\ b <= r /\ forall b', In b' pts -> b' <= r -> b' <= b.
Proof.
  induction pts as [|p pts IH]; intros r p0 Hin Hle; [contradiction|].
  assert (Hcase : (exists q, In q pts /\ q <= r) \/ (forall q, In q pts -> r < q)).
  { clear. induction pts as [|q pts IH]; [right; intros q []|].
    destruct (Z_le_gt_dec q r) as [Hq|Hq].
    - left. exists q. split; [left; reflexivity|exact Hq].
    - destruct IH as [[q' [Hin Hle]]|Hall].
      + left. exists q'. split; [right; exact Hin|exact Hle].
      + right. intros q' [<-|Hin]; [lia|apply Hall; exact Hin]. }
  destruct Hcase as [[q [Hq Hqr]]|Hnone].
  - destruct (IH r q Hq Hqr) as [b [Hb [Hbr Hmax]]].
    destruct (Z_le_gt_dec p r) as [Hp|Hp].
    + destruct (Z_le_gt_dec p b) as [Hpb|Hpb].
      * exists b. split; [right; exact Hb|]. split; [exact Hbr|].
        intros b' [<-|Hin'] Hle'; [exact Hpb|apply Hmax; assumption].
      * exists p. split; [left; reflexivity|]. split; [exact Hp|].
        intros b' [<-|Hin'] Hle'; [lia|]. specialize (Hmax b' Hin' Hle'). lia.
    + exists b. split; [right; exact Hb|]. split; [exact Hbr|].
      intros b' [<-|Hin'] Hle'; [lia|apply Hmax; assumption].
  - destruct Hin as [->|Hin]; [|specialize (Hnone p0 Hin); lia].
    exists p0. split; [left; reflexivity|]. split; [exact Hle|].
    intros b' [<-|Hin'] Hle'; [lia|]. specialize (Hnone b' Hin'). lia.
Qed.

(* ---------- array access ---------- *)

Lemma nthz_some : forall l i v, nthz l i = Some v -> 0 <= i /\ nth_error l (Z.to_nat i) = Some v.
Proof.
  intros l i v H. unfold nthz in H. destruct (i <? 0) eqn:E; [discriminate|].
  split; [lia|exact H].
Qed.

Lemma take_triples_nth : forall n m i tr,
  take_triples n m i = Some tr ->
  length tr = n /\
  forall j lo hi s, nth_error tr j = Some (lo, hi, s) ->
    nthz m (i + 3 * Z.of_nat j) = Some lo /\
    nthz m (i + 3 * Z.of_nat j + 1) = Some hi /\
    nthz m (i + 3 * Z.of_nat j + 2) = Some s.
Proof.
  induction n as [|n IH]; intros m i tr H; cbn [take_triples] in H.
  - injection H as <-. split; [reflexivity|]. intros [|j] lo hi s Hj; discriminate Hj.
  - destruct (nthz m i) as [a|] eqn:Ea; [|discriminate].
    destruct (nthz m (i + 1)) as [b|] eqn:Eb; [|discriminate].
    destruct (nthz m (i + 2)) as [c|] eqn:Ec; [|discriminate].
    destruct (take_triples n m (i + 3)) as [rest|] eqn:Er; [|discriminate].
    injection H as <-. destruct (IH m (i + 3) rest Er) as [Hlen Hnth].
    split; [cbn [length]; rewrite Hlen; reflexivity|].
    intros [|j] lo hi s Hj; cbn [nth_error] in Hj.
    + injection Hj as <- <- <-.
      replace (i + 3 * Z.of_nat 0) with i by lia. auto.
    + destruct (Hnth j lo hi s Hj) as [H1 [H2 H3]].
      replace (i + 3 * Z.of_nat (S j)) with (i + 3 + 3 * Z.of_nat j) by lia. auto.
Qed.

(* ---------- sorted rows ---------- *)

Lemma sorted_nth : forall tr prev,
  sorted_disjoint prev tr = true ->
  (forall j lo hi s, nth_error tr j = Some (lo, hi, s) -> prev < lo /\ lo <= hi) /\
  (forall j1 j2 lo1 hi1 s1 lo2 hi2 s2, (j1 < j2)%nat ->
     nth_error tr j1 = Some (lo1, hi1, s1) -> nth_error tr j2 = Some (lo2, hi2, s2) ->
     hi1 < lo2).
Proof.
  induction tr as [|[[lo hi] s] rest IH]; intros prev H.
  - split; [intros [|j] ? ? ? Hj; discriminate Hj|].
    intros [|j1] ? ? ? ? ? ? ? _ Hj; discriminate Hj.
  - cbn [sorted_disjoint] in H.
    apply andb_true_iff in H. destruct H as [H H3].
    apply andb_true_iff in H. destruct H as [H1 H2].
    destruct (IH hi H3) as [IHa IHb].
    split.
    + intros [|j] lo' hi' s' Hj; cbn [nth_error] in Hj.
      * injection Hj as <- <- <-. lia.
      * specialize (IHa j lo' hi' s' Hj). lia.
    + intros [|j1] [|j2] lo1 hi1 s1 lo2 hi2 s2 Hlt Hj1 Hj2; cbn [nth_error] in Hj1, Hj2; try lia.
      * injection Hj1 as <- <- <-. specialize (IHa j2 lo2 hi2 s2 Hj2). lia.
      * apply (IHb j1 j2 lo1 hi1 s1 lo2 hi2 s2); [lia|assumption|assumption].
Qed.

Lemma sorted_lo_pos : forall tr lo hi s,
  sorted_disjoint (-1) tr = true -> In (lo, hi, s) tr -> 0 <= lo /\ lo <= hi.
Proof.
  intros tr lo hi s Hs Hin. apply In_nth_error in Hin. destruct Hin as [j Hj].
  destruct (sorted_nth tr (-1) Hs) as [Ha _]. specialize (Ha j lo hi s Hj). lia.
Qed.

Lemma lookup_none_nth : forall (X : Type) (tr : list (Z * Z * X)) r,
  (forall j lo hi s, nth_error tr j = Some (lo, hi, s) -> r < lo \/ hi < r) ->
  lookup X tr r = None.
Proof.
  induction tr as [|[[lo hi] s] rest IH]; intros r H; cbn [lookup]; [reflexivity|].
  pose proof (H O lo hi s eq_refl) as H0.
  destruct ((lo <=? r) && (r <=? hi)) eqn:E; [lia|].
  apply IH. intros j lo' hi' s' Hj. apply (H (S j) lo' hi' s'). exact Hj.
Qed.

Lemma lookup_hit_nth : forall (X : Type) (tr : list (Z * Z * X)) r j lo hi s,
  nth_error tr j = Some (lo, hi, s) -> lo <= r <= hi ->
  (forall j' lo' hi' s', (j' < j)%nat -> nth_error tr j' = Some (lo', hi', s') -> r < lo' \/ hi' < r) ->
  lookup X tr r = Some s.
Proof.
  induction tr as [|[[lo0 hi0] s0] rest IH]; intros r j lo hi s Hj Hr Hbefore.
  - destruct j; discriminate Hj.
  - cbn [lookup]. destruct j as [|j]; cbn [nth_error] in Hj.
    + injection Hj as -> -> ->.
      destruct ((lo <=? r) && (r <=? hi)) eqn:E; [reflexivity|lia].
    + pose proof (Hbefore O lo0 hi0 s0 ltac:(lia) eq_refl) as H0.
      destruct ((lo0 <=? r) && (r <=? hi0)) eqn:E; [lia|].
      apply (IH r j lo hi s Hj Hr).
      intros j' lo' hi' s' Hlt Hj'. apply (Hbefore (S j') lo' hi' s'); [lia|exact Hj'].
Qed.

Lemma lookup_some_in : forall (X : Type) (tr : list (Z * Z * X)) r s,
  lookup X tr r = Some s -> exists lo hi, In (lo, hi, s) tr /\ lo <= r <= hi.
Proof.
  induction tr as [|[[lo hi] s0] rest IH]; intros r s H; cbn [lookup] in H; [discriminate|].
  destruct ((lo <=? r) && (r <=? hi)) eqn:E.
  - injection H as ->. exists lo, hi. split; [left; reflexivity|lia].
  - destruct (IH r s H) as [lo' [hi' [Hin Hr]]]. exists lo', hi'. split; [right; exact Hin|exact Hr].
Qed.

(* ---------- L2: binary search = lookup ---------- *)

Ltac Zify.zify_post_hook ::= Z.div_mod_to_equations.

Lemma bsearch_spec : forall m i r tr prev,
  (forall j lo hi s, nth_error tr j = Some (lo, hi, s) ->
     nthz m (i + 3 * Z.of_nat j) = Some lo /\
     nthz m (i + 3 * Z.of_nat j + 1) = Some hi /\
     nthz m (i + 3 * Z.of_nat j + 2) = Some s) ->
  sorted_disjoint prev tr = true ->
  forall fuel b e,
  0 <= b -> e <= Z.of_nat (length tr) -> (Z.to_nat (e - b) < fuel)%nat ->
  (forall j lo hi s, nth_error tr j = Some (lo, hi, s) -> Z.of_nat j < b -> hi < r) ->
  (forall j lo hi s, nth_error tr j = Some (lo, hi, s) -> e <= Z.of_nat j -> r < lo) ->
  bsearch fuel m i r b e = Some (lookup Z tr r).
Proof.
  intros m i r tr prev Hdec Hsorted.
  destruct (sorted_nth tr prev Hsorted) as [Hsa Hsb].
  induction fuel as [|f IH]; intros b e Hb He Hfuel Hlow Hhigh; [lia|].
  cbn [bsearch]. destruct (b <? e) eqn:Hbe.
  - set (j := b + (e - b) / 2).
    assert (Hj : b <= j < e) by (unfold j; lia).
    destruct (nth_error tr (Z.to_nat j)) as [[[lo hi] s]|] eqn:Ej.
    2:{ apply nth_error_None in Ej. lia. }
    destruct (Hdec _ lo hi s Ej) as [D1 [D2 D3]].
    replace (i + 3 * Z.of_nat (Z.to_nat j)) with (i + j * 3) in D1, D2, D3 by lia.
    rewrite D1, D2.
    destruct ((r >=? lo) && (r <=? hi)) eqn:Ehit.
    + rewrite D3. f_equal. symmetry.
      apply (lookup_hit_nth Z tr r (Z.to_nat j) lo hi s Ej); [lia|].
      intros j' lo' hi' s' Hlt Hj'.
      pose proof (Hsb j' (Z.to_nat j) lo' hi' s' lo hi s Hlt Hj' Ej). lia.
    + destruct (r <? lo) eqn:Elo.
      * apply IH; [lia|lia|lia|exact Hlow|].
        intros j' lo' hi' s' Hj' Hge.
        destruct (Nat.eq_dec j' (Z.to_nat j)) as [->|Hne].
        -- rewrite Ej in Hj'. injection Hj' as <- <- <-. lia.
        -- pose proof (Hsb (Z.to_nat j) j' lo hi s lo' hi' s' ltac:(lia) Ej Hj').
           pose proof (Hsa _ lo hi s Ej). lia.
      * apply IH; [lia|lia|lia| |exact Hhigh].
        intros j' lo' hi' s' Hj' Hlt.
        destruct (Nat.eq_dec j' (Z.to_nat j)) as [->|Hne].
        -- rewrite Ej in Hj'. injection Hj' as <- <- <-. lia.
        -- pose proof (Hsb j' (Z.to_nat j) lo' hi' s' lo hi s ltac:(lia) Hj' Ej).
           pose proof (Hsa _ lo hi s Ej). lia.
  - f_equal. symmetry. apply lookup_none_nth.
    intros j lo hi s Hj.
    destruct (Z_lt_ge_dec (Z.of_nat j) b) as [Hlt|Hge].
    + right. apply (Hlow j lo hi s Hj Hlt).
    + left. apply (Hhigh j lo hi s Hj). lia.
Qed.

(* inversion of decode_row *)
Lemma decode_row_inv : forall m s v,
  decode_row m s = Some v ->
  exists i0 count flags goto_n,
    nthz m s = Some i0 /\ nthz m i0 = Some count /\
    nthz m (i0 + 1) = Some flags /\ nthz m (i0 + 2) = Some goto_n /\
    0 <= goto_n /\ count = 2 + 3 * goto_n + 2 * Z.of_nat (length (v_acts v)) /\
    v_flag v = negb (Z.land flags 1 =? 0) /\
    take_triples (Z.to_nat goto_n) m (i0 + 3) = Some (v_trans v) /\
    take_pairs (length (v_acts v)) m (i0 + 3 + 3 * goto_n) = Some (v_acts v).
Proof.
  intros m s v H. unfold decode_row in H.
  destruct (nthz m s) as [i0|] eqn:E0; [|discriminate].
  destruct (nthz m i0) as [count|] eqn:E1; [|discriminate].
  destruct (nthz m (i0 + 1)) as [flags|] eqn:E2; [|discriminate].
  destruct (nthz m (i0 + 2)) as [goto_n|] eqn:E3; [|discriminate].
  cbv zeta in H.
  destruct ((goto_n <? 0) || (count - 2 - 3 * goto_n <? 0) || negb (Z.even (count - 2 - 3 * goto_n))) eqn:Eg;
    [discriminate|].
  destruct (take_triples (Z.to_nat goto_n) m (i0 + 3)) as [tr|] eqn:Et; [|discriminate].
  destruct (take_pairs (Z.to_nat ((count - 2 - 3 * goto_n) / 2)) m (i0 + 3 + 3 * goto_n)) as [ac|] eqn:Ep;
    [|discriminate].
  injection H as <-. cbn [v_flag v_trans v_acts].
  apply orb_false_iff in Eg. destruct Eg as [Eg Eeven].
  apply orb_false_iff in Eg. destruct Eg as [Eg1 Eg2].
  apply negb_false_iff in Eeven. apply Z.even_spec in Eeven. destruct Eeven as [k Hk].
  assert (Hlen : length ac = Z.to_nat ((count - 2 - 3 * goto_n) / 2)).
  { clear - Ep. revert Ep. generalize (i0 + 3 + 3 * goto_n).
    generalize (Z.to_nat ((count - 2 - 3 * goto_n) / 2)). intros n. revert ac.
    induction n as [|n IH]; intros ac z H; cbn [take_pairs] in H.
    - injection H as <-. reflexivity.
    - destruct (nthz m z); [|discriminate]. destruct (nthz m (z + 1)); [|discriminate].
      destruct (take_pairs n m (z + 2)) as [rest|] eqn:Er; [|discriminate].
      injection H as <-. cbn [length]. f_equal. apply (IH rest (z + 2) Er). }
  exists i0, count, flags, goto_n.
  repeat split; try assumption; try lia.
  rewrite Hlen. exact Ep.
Qed.

Lemma bsearch_triples : forall m i g tr prev r,
  take_triples (Z.to_nat g) m i = Some tr -> 0 <= g ->
  sorted_disjoint prev tr = true ->
  bsearch (S (Z.to_nat g)) m i r 0 g = Some (lookup Z tr r).
Proof.
  intros m i g tr prev r Ht Hg Hsorted.
  destruct (take_triples_nth _ _ _ _ Ht) as [Hlen Hnth].
  apply (bsearch_spec m i r tr prev Hnth Hsorted); try lia.
  intros j lo hi s' Hj Hge.
  assert (Hlt : (j < length tr)%nat) by (apply nth_error_Some; rewrite Hj; discriminate). lia.
Qed.

Theorem bsearch_lookup : forall m s v r,
  decode_row m s = Some v ->
  sorted_disjoint (-1) (v_trans v) = true ->
  exists i0 count flags goto_n,
    nthz m s = Some i0 /\ nthz m i0 = Some count /\
    nthz m (i0 + 1) = Some flags /\ nthz m (i0 + 1 + 1) = Some goto_n /\
    bsearch (S (Z.to_nat goto_n)) m (i0 + 1 + 2) r 0 goto_n = Some (lookup Z (v_trans v) r).
Proof.
  intros m s v r Hdec Hsorted.
  destruct (decode_row_inv m s v Hdec) as
    [i0 [count [flags [goto_n [E0 [E1 [E2 [E3 [Hg [Hc [Hf [Ht Hp]]]]]]]]]]]].
  exists i0, count, flags, goto_n.
  replace (i0 + 1 + 1) with (i0 + 2) by lia. replace (i0 + 1 + 2) with (i0 + 3) by lia.
  repeat split; try assumption.
  apply (bsearch_triples m (i0 + 3) goto_n (v_trans v) (-1) r Ht Hg Hsorted).
Qed.
Print Assumptions bsearch_lookup.
