(* Reference automaton 2: Brzozowski derivatives of the lexer RULES.  A state
   is the list of the derivatives of every rule of the mode, in declaration
   order.  Executable model only (extracted to OCaml); the theorems are in
   RegexProofs.v / RegexProofs2.v. *)
From Coq Require Import List ZArith Bool Arith.
From Lox Require Import Lex.LexAuto.
Import ListNotations.
Local Open Scope Z_scope.

Inductive re :=
| REmpty
| REps
| RCls (rs : list (Z * Z))      (* one code point lying in one of the closed ranges *)
| RCat (a b : re)
| RAlt (a b : re)
| RStar (a : re).

Record rule := { r_re : re; r_acts : list (Z * Z); r_ng : bool }.

(* ---- a total order on regexes (only [= Eq] matters for correctness; the
   order itself just keeps alternatives in a canonical sequence) ---- *)

Fixpoint rs_cmp (a b : list (Z * Z)) : comparison :=
  match a, b with
  | [], [] => Eq
  | [], _ :: _ => Lt
  | _ :: _, [] => Gt
  | p :: a', q :: b' =>
    match fst p ?= fst q with
    | Eq => match snd p ?= snd q with Eq => rs_cmp a' b' | c => c end
    | c => c
    end
  end.

Definition re_tag (r : re) : nat :=
  match r with
  | REmpty => 0 | REps => 1 | RCls _ => 2 | RCat _ _ => 3 | RAlt _ _ => 4 | RStar _ => 5
  end%nat.

Fixpoint re_cmp (a b : re) : comparison :=
  match a, b with
  | RCls x, RCls y => rs_cmp x y
  | RCat a1 a2, RCat b1 b2 => match re_cmp a1 b1 with Eq => re_cmp a2 b2 | c => c end
  | RAlt a1 a2, RAlt b1 b2 => match re_cmp a1 b1 with Eq => re_cmp a2 b2 | c => c end
  | RStar a1, RStar b1 => re_cmp a1 b1
  | _, _ => Nat.compare (re_tag a) (re_tag b)
  end.

Definition re_eqb (a b : re) : bool :=
  match re_cmp a b with Eq => true | _ => false end.

Fixpoint st_eqb (a b : list re) : bool :=
  match a, b with
  | [], [] => true
  | x :: a', y :: b' => re_eqb x y && st_eqb a' b'
  | _, _ => false
  end.

(* ---- smart constructors ---- *)

Definition mk_cat (a b : re) : re :=
  match a, b with
  | REmpty, _ => REmpty
  | _, REmpty => REmpty
  | REps, _ => b
  | _, REps => a
  | _, _ => RCat a b
  end.

(* insert a non-alternative [a] into the right-nested ordered alternative [b] *)
Fixpoint alt_ins (a b : re) : re :=
  match b with
  | REmpty => a
  | RAlt b1 b2 =>
    match re_cmp a b1 with
    | Eq => b
    | Lt => RAlt a b
    | Gt => RAlt b1 (alt_ins a b2)
    end
  | _ =>
    match re_cmp a b with
    | Eq => b
    | Lt => RAlt a b
    | Gt => RAlt b a
    end
  end.

(* alternation modulo associativity, commutativity, idempotence, unit REmpty *)
Fixpoint mk_alt (a b : re) {struct a} : re :=
  match a with
  | REmpty => b
  | RAlt a1 a2 => mk_alt a1 (mk_alt a2 b)
  | _ => alt_ins a b
  end.

(* ---- derivatives ---- *)

Definition in1 (p : Z * Z) (c : Z) : bool := (fst p <=? c) && (c <=? snd p).
Definition in_cls (c : Z) (rs : list (Z * Z)) : bool := existsb (fun p => in1 p c) rs.

Fixpoint nullable (r : re) : bool :=
  match r with
  | REmpty => false
  | REps => true
  | RCls _ => false
  | RCat a b => nullable a && nullable b
  | RAlt a b => nullable a || nullable b
  | RStar _ => true
  end.

Fixpoint deriv (c : Z) (r : re) : re :=
  match r with
  | REmpty => REmpty
  | REps => REmpty
  | RCls rs => if in_cls c rs then REps else REmpty
  | RCat a b =>
    if nullable a then mk_alt (mk_cat (deriv c a) b) (deriv c b)
    else mk_cat (deriv c a) b
  | RAlt a b => mk_alt (deriv c a) (deriv c b)
  | RStar a => mk_cat (deriv c a) (RStar a)
  end.

(* after the smart constructors, the empty language is literally REmpty *)
Definition is_empty (r : re) : bool :=
  match r with REmpty => true | _ => false end.

(* well-formed rule body: no REmpty, classes non-empty, ranges inside Unicode *)
Fixpoint wf_reb (r : re) : bool :=
  match r with
  | REmpty => false
  | REps => true
  | RCls rs =>
    match rs with [] => false | _ => true end &&
    forallb (fun p => (0 <=? fst p) && (fst p <=? snd p) && (snd p <=? 1114111)) rs
  | RCat a b => wf_reb a && wf_reb b
  | RAlt a b => wf_reb a && wf_reb b
  | RStar a => wf_reb a
  end.

Definition wf_rulesb (rules : list rule) : bool := forallb (fun r => wf_reb (r_re r)) rules.

(* ---- the partition of 0..1114111 seen by one derivative step ---- *)

(* the classes a derivative of r looks at *)
Fixpoint heads (r : re) : list (Z * Z) :=
  match r with
  | REmpty => []
  | REps => []
  | RCls rs => rs
  | RCat a b => if nullable a then heads a ++ heads b else heads a
  | RAlt a b => heads a ++ heads b
  | RStar a => heads a
  end.

(* strictly increasing list of points *)
Fixpoint ins_pt (x : Z) (l : list Z) : list Z :=
  match l with
  | [] => [x]
  | y :: l' => if x <? y then x :: l else if x =? y then l else y :: ins_pt x l'
  end.

Definition in_range (p : Z) : bool := (0 <=? p) && (p <=? 1114111).
Definition add_pt (p : Z) (l : list Z) : list Z := if in_range p then ins_pt p l else l.

Definition st_points (st : list re) : list Z :=
  fold_right (fun p acc => add_pt (fst p) (add_pt (snd p + 1) acc)) [0] (flat_map heads st).

Fixpoint atoms (pts : list Z) : list (Z * Z) :=
  match pts with
  | [] => []
  | p :: rest =>
    match rest with
    | [] => [(p, 1114111)]
    | q :: _ => (p, q - 1) :: atoms rest
    end
  end.

Fixpoint build (st : list re) (ats : list (Z * Z)) : list (Z * Z * list re) :=
  match ats with
  | [] => []
  | a :: rest =>
    let st' := map (deriv (fst a)) st in
    if forallb is_empty st' then build st rest else (fst a, snd a, st') :: build st rest
  end.

(* ---- the view ---- *)

Fixpoint first_acts (rules : list rule) (st : list re) : list (Z * Z) :=
  match rules, st with
  | r :: rs, d :: ds => if nullable d then r_acts r else first_acts rs ds
  | _, _ => []
  end.

Fixpoint any_ng (rules : list rule) (st : list re) : bool :=
  match rules, st with
  | r :: rs, d :: ds => (r_ng r && nullable d) || any_ng rs ds
  | _, _ => false
  end.

Definition re_view (rules : list rule) (st : list re) : view (list re) :=
  {| v_flag := any_ng rules st;
     v_trans := build st (atoms (st_points st));
     v_acts := first_acts rules st |}.

Definition re_auto (modes : list (list rule)) (m : nat) (st : list re) : option (view (list re)) :=
  Some (re_view (nth m modes []) st).

Definition re_start (modes : list (list rule)) (m : nat) : list re :=
  map r_re (nth m modes []).

(* ---- conveniences for writing rules ---- *)

Fixpoint lit (cs : list Z) : re :=
  match cs with
  | [] => REps
  | c :: cs' => match cs' with [] => RCls [(c, c)] | _ => RCat (RCls [(c, c)]) (lit cs') end
  end.

Definition re_plus (a : re) : re := RCat a (RStar a).
Definition re_opt (a : re) : re := RAlt a REps.
