(* Theorems about the derivative reference automaton (RegexRef.v), part 1:
   G7 equality tests, G1 nullable, G2 derivatives, G3 emptiness, G4 the
   transition list of a view is the derivative step. *)
From Coq Require Import List ZArith Lia Bool Arith ZifyBool.
From Lox Require Import Lex.LexRuntime Lex.LexAuto Lex.LexLookupProofs Lex.RegexRef.
Import ListNotations.
Local Open Scope Z_scope.

(* ---------- a small example: rules  a+  and  'ab' ---------- *)

Definition ex_rules : list rule :=
  [ {| r_re := re_plus (RCls [(97, 97)]); r_acts := [(3, 0)]; r_ng := false |};
    {| r_re := lit [97; 98]; r_acts := [(3, 1)]; r_ng := false |} ].

Definition ex_s0 := re_start [ex_rules] 0.
Definition ex_s1 := map (deriv 97) ex_s0.      (* after "a" *)
Definition ex_s2 := map (deriv 98) ex_s1.      (* after "ab" *)

Example ex_view0 :
  re_view ex_rules ex_s0 =
  {| v_flag := false;
     v_trans := [(97, 97, [RStar (RCls [(97, 97)]); RCls [(98, 98)]])];
     v_acts := [] |}.
Proof. vm_compute. reflexivity. Qed.

Example ex_view1 :
  re_view ex_rules ex_s1 =
  {| v_flag := false;
     v_trans := [(97, 97, [RStar (RCls [(97, 97)]); REmpty]); (98, 98, [REmpty; REps])];
     v_acts := [(3, 0)] |}.
Proof. vm_compute. reflexivity. Qed.

Example ex_view2 :
  re_view ex_rules ex_s2 = {| v_flag := false; v_trans := []; v_acts := [(3, 1)] |}.
Proof. vm_compute. reflexivity. Qed.

(* ---------- G7: the equality tests reflect equality ---------- *)

Lemma rs_cmp_eq : forall a b, rs_cmp a b = Eq <-> a = b.
Proof.
  induction a as [|[l1 h1] a IH]; intros [|[l2 h2] b]; cbn [rs_cmp fst snd];
    try (split; intros H; [discriminate H|discriminate H]); [tauto|].
  destruct (l1 ?= l2) eqn:E1.
  - apply Z.compare_eq in E1. subst l2.
    destruct (h1 ?= h2) eqn:E2.
    + apply Z.compare_eq in E2. subst h2. rewrite IH.
      split; intros H; [subst b; reflexivity|injection H as ->; reflexivity].
    + split; [discriminate|]. intros H. injection H as -> ->. rewrite Z.compare_refl in E2. discriminate.
    + split; [discriminate|]. intros H. injection H as -> ->. rewrite Z.compare_refl in E2. discriminate.
  - split; [discriminate|]. intros H. injection H as -> -> ->. rewrite Z.compare_refl in E1. discriminate.
  - split; [discriminate|]. intros H. injection H as -> -> ->. rewrite Z.compare_refl in E1. discriminate.
Qed.

Lemma re_cmp_eq : forall a b, re_cmp a b = Eq <-> a = b.
Proof.
  induction a as [| |rs|a1 IH1 a2 IH2|a1 IH1 a2 IH2|a1 IH1]; intros b; destruct b as [| |rs'|b1 b2|b1 b2|b1];
    cbn [re_cmp re_tag Nat.compare];
    try (split; intros H; [discriminate H|discriminate H]); try tauto.
  - rewrite rs_cmp_eq. split; intros H; [subst; reflexivity|injection H as ->; reflexivity].
  - destruct (re_cmp a1 b1) eqn:E1.
    + apply IH1 in E1. subst b1. rewrite IH2.
      split; intros H; [subst; reflexivity|injection H as ->; reflexivity].
    + split; [discriminate|]. intros H. injection H as <- <-.
      assert (Hr : re_cmp a1 a1 = Eq) by (apply IH1; reflexivity). rewrite Hr in E1. discriminate.
    + split; [discriminate|]. intros H. injection H as <- <-.
      assert (Hr : re_cmp a1 a1 = Eq) by (apply IH1; reflexivity). rewrite Hr in E1. discriminate.
  - destruct (re_cmp a1 b1) eqn:E1.
    + apply IH1 in E1. subst b1. rewrite IH2.
      split; intros H; [subst; reflexivity|injection H as ->; reflexivity].
    + split; [discriminate|]. intros H. injection H as <- <-.
      assert (Hr : re_cmp a1 a1 = Eq) by (apply IH1; reflexivity). rewrite Hr in E1. discriminate.
    + split; [discriminate|]. intros H. injection H as <- <-.
      assert (Hr : re_cmp a1 a1 = Eq) by (apply IH1; reflexivity). rewrite Hr in E1. discriminate.
  - rewrite IH1. split; intros H; [subst; reflexivity|injection H as ->; reflexivity].
Qed.

Theorem re_eqb_eq : forall a b, re_eqb a b = true <-> a = b.
Proof.
  intros a b. unfold re_eqb. rewrite <- re_cmp_eq.
  destruct (re_cmp a b); split; intros H; try reflexivity; discriminate H.
Qed.
Print Assumptions re_eqb_eq.

Theorem st_eqb_eq : forall a b, st_eqb a b = true <-> a = b.
Proof.
  induction a as [|x a IH]; intros [|y b]; cbn [st_eqb];
    try (split; intros H; [discriminate H|discriminate H]); [tauto|].
  rewrite andb_true_iff, re_eqb_eq, IH.
  split; [intros [-> ->]; reflexivity|intros H; injection H as -> ->; split; reflexivity].
Qed.
Print Assumptions st_eqb_eq.

(* ---------- the semantics of regular expressions ---------- *)

Inductive matches : re -> list Z -> Prop :=
| MEps : matches REps []
| MCls : forall rs c lo hi, In (lo, hi) rs -> lo <= c <= hi -> matches (RCls rs) [c]
| MCat : forall a b u v, matches a u -> matches b v -> matches (RCat a b) (u ++ v)
| MAltL : forall a b u, matches a u -> matches (RAlt a b) u
| MAltR : forall a b u, matches b u -> matches (RAlt a b) u
| MStar0 : forall a, matches (RStar a) []
| MStarS : forall a u v, matches a u -> matches (RStar a) v -> matches (RStar a) (u ++ v).

Lemma m_empty : forall w, ~ matches REmpty w.
Proof. intros w H. inversion H. Qed.

Lemma m_eps : forall w, matches REps w <-> w = [].
Proof. intros w. split; intros H; [inversion H; reflexivity|subst; constructor]. Qed.

Lemma in_cls_spec : forall c rs, in_cls c rs = true <-> exists lo hi, In (lo, hi) rs /\ lo <= c <= hi.
Proof.
  intros c rs. unfold in_cls. rewrite existsb_exists. split.
  - intros [[lo hi] [Hin H1]]. unfold in1 in H1. cbn [fst snd] in H1. exists lo, hi. split; [exact Hin|lia].
  - intros [lo [hi [Hin H1]]]. exists (lo, hi). split; [exact Hin|]. unfold in1. cbn [fst snd]. lia.
Qed.

Lemma m_cls : forall rs w, matches (RCls rs) w <-> exists c, w = [c] /\ in_cls c rs = true.
Proof.
  intros rs w. split.
  - intros H. inversion H as [|rs' c lo hi Hin Hr| | | | |]. subst. exists c. split; [reflexivity|].
    apply in_cls_spec. exists lo, hi. split; assumption.
  - intros [c [-> Hc]]. apply in_cls_spec in Hc. destruct Hc as [lo [hi [Hin Hr]]].
    apply (MCls rs c lo hi Hin Hr).
Qed.

Lemma m_cat : forall a b w, matches (RCat a b) w <-> exists u v, w = u ++ v /\ matches a u /\ matches b v.
Proof.
  intros a b w. split.
  - intros H. inversion H as [| |a' b' u v Ha Hb| | | |]. subst. exists u, v. auto.
  - intros [u [v [-> [Ha Hb]]]]. constructor; assumption.
Qed.

Lemma m_alt : forall a b w, matches (RAlt a b) w <-> matches a w \/ matches b w.
Proof.
  intros a b w. split.
  - intros H. inversion H; subst; auto.
  - intros [H|H]; [apply MAltL|apply MAltR]; exact H.
Qed.

(* a non-empty match of a star starts with a non-empty match of the body *)
Lemma m_star_cons : forall a c w,
  matches (RStar a) (c :: w) <-> exists u v, w = u ++ v /\ matches a (c :: u) /\ matches (RStar a) v.
Proof.
  intros a c w. split.
  - intros H. remember (RStar a) as r eqn:Er. remember (c :: w) as cw eqn:Ew.
    revert a c w Er Ew.
    induction H as [| | | | | |a' u v Hu IHu Hv IHv]; intros a0 c0 w0 Er Ew; try discriminate Er.
    + discriminate Ew.
    + injection Er as ->. destruct u as [|c' u'].
      * cbn [app] in Ew. apply (IHv a0 c0 w0 eq_refl Ew).
      * cbn [app] in Ew. injection Ew as -> <-. exists u', v. auto.
  - intros [u [v [-> [Ha Hs]]]]. apply (MStarS a (c :: u) v Ha Hs).
Qed.

(* ---------- G1 ---------- *)

Theorem nullable_correct : forall r, nullable r = true <-> matches r [].
Proof.
  induction r as [| |rs|a IHa b IHb|a IHa b IHb|a IHa]; cbn [nullable].
  - split; [discriminate|]. intros H. inversion H.
  - split; [constructor|reflexivity].
  - split; [discriminate|]. intros H. inversion H.
  - rewrite andb_true_iff, IHa, IHb, m_cat. split.
    + intros [Ha Hb]. exists [], []. auto.
    + intros [u [v [Huv [Ha Hb]]]]. symmetry in Huv. apply app_eq_nil in Huv. destruct Huv as [-> ->]. auto.
  - rewrite orb_true_iff, IHa, IHb, m_alt. tauto.
  - split; [constructor|reflexivity].
Qed.
Print Assumptions nullable_correct.

(* ---------- the smart constructors are the constructors ---------- *)

Lemma m_mk_cat : forall a b w, matches (mk_cat a b) w <-> matches (RCat a b) w.
Proof.
  intros a b w.
  assert (Hel : forall x, matches (RCat REmpty x) w <-> matches REmpty w).
  { intros x. rewrite m_cat. split; [intros [u [v [_ [H _]]]]; inversion H|intros H; inversion H]. }
  assert (Her : forall x, matches (RCat x REmpty) w <-> matches REmpty w).
  { intros x. rewrite m_cat. split; [intros [u [v [_ [_ H]]]]; inversion H|intros H; inversion H]. }
  assert (Hul : forall x, matches (RCat REps x) w <-> matches x w).
  { intros x. rewrite m_cat. split.
    - intros [u [v [-> [Hu Hv]]]]. apply m_eps in Hu. subst u. exact Hv.
    - intros H. exists [], w. split; [reflexivity|]. split; [constructor|exact H]. }
  assert (Hur : forall x, matches (RCat x REps) w <-> matches x w).
  { intros x. rewrite m_cat. split.
    - intros [u [v [-> [Hu Hv]]]]. apply m_eps in Hv. subst v. rewrite app_nil_r. exact Hu.
    - intros H. exists w, []. split; [symmetry; apply app_nil_r|]. split; [exact H|constructor]. }
  destruct a; destruct b; cbn [mk_cat];
    first [reflexivity | symmetry; apply Hel | symmetry; apply Her | symmetry; apply Hul | symmetry; apply Hur].
Qed.

Lemma m_alt_ins : forall a b w, matches (alt_ins a b) w <-> matches a w \/ matches b w.
Proof.
  intros a b w. revert a.
  assert (Hbase : forall a b0, re_cmp a b0 = Eq -> matches b0 w <-> matches a w \/ matches b0 w).
  { intros a b0 E. apply re_cmp_eq in E. subst b0. tauto. }
  induction b as [| |rs|b1 IH1 b2 IH2|b1 IH1 b2 IH2|b1 IH1]; intros a; cbn [alt_ins].
  - split; [auto|]. intros [H|H]; [exact H|inversion H].
  - destruct (re_cmp a REps) eqn:E; [apply Hbase; exact E|rewrite m_alt; tauto|rewrite m_alt; tauto].
  - destruct (re_cmp a (RCls rs)) eqn:E; [apply Hbase; exact E|rewrite m_alt; tauto|rewrite m_alt; tauto].
  - destruct (re_cmp a (RCat b1 b2)) eqn:E; [apply Hbase; exact E|rewrite m_alt; tauto|rewrite m_alt; tauto].
  - destruct (re_cmp a b1) eqn:E.
    + apply re_cmp_eq in E. subst b1. rewrite m_alt. tauto.
    + rewrite m_alt. tauto.
    + rewrite !m_alt, IH2. tauto.
  - destruct (re_cmp a (RStar b1)) eqn:E; [apply Hbase; exact E|rewrite m_alt; tauto|rewrite m_alt; tauto].
Qed.

Lemma m_mk_alt : forall a b w, matches (mk_alt a b) w <-> matches (RAlt a b) w.
Proof.
  intros a b w. rewrite m_alt. revert b.
  induction a as [| |rs|a1 IH1 a2 IH2|a1 IH1 a2 IH2|a1 IH1]; intros b; cbn [mk_alt];
    try apply m_alt_ins.
  - split; [auto|]. intros [H|H]; [inversion H|exact H].
  - rewrite IH1, IH2, m_alt. tauto.
Qed.

(* ---------- G2 ---------- *)

Theorem deriv_correct : forall r c w, matches (deriv c r) w <-> matches r (c :: w).
Proof.
  induction r as [| |rs|a IHa b IHb|a IHa b IHb|a IHa]; intros c w; cbn [deriv].
  - split; intros H; inversion H.
  - split; intros H; inversion H.
  - rewrite m_cls. destruct (in_cls c rs) eqn:E.
    + rewrite m_eps. split.
      * intros ->. exists c. auto.
      * intros [c' [H1 _]]. injection H1 as _ ->. reflexivity.
    + split; [intros H; inversion H|].
      intros [c' [H1 H2]]. injection H1 as <- _. rewrite E in H2. discriminate.
  - assert (Hcat : matches (mk_cat (deriv c a) b) w <->
                   exists u v, w = u ++ v /\ matches a (c :: u) /\ matches b v).
    { rewrite m_mk_cat, m_cat. split; intros [u [v [Hw [Hu Hv]]]]; exists u, v;
        (split; [exact Hw|split; [apply IHa; exact Hu|exact Hv]]). }
    rewrite (m_cat a b (c :: w)).
    destruct (nullable a) eqn:En.
    + rewrite m_mk_alt, m_alt, Hcat, IHb. apply nullable_correct in En. split.
      * intros [[u [v [-> [Hu Hv]]]]|Hb].
        -- exists (c :: u), v. auto.
        -- exists [], (c :: w). auto.
      * intros [u [v [Huv [Hu Hv]]]]. destruct u as [|c' u'].
        -- cbn [app] in Huv. subst v. right. exact Hv.
        -- cbn [app] in Huv. injection Huv as <- ->. left. exists u', v. auto.
    + rewrite Hcat. split.
      * intros [u [v [-> [Hu Hv]]]]. exists (c :: u), v. auto.
      * intros [u [v [Huv [Hu Hv]]]]. destruct u as [|c' u'].
        -- apply nullable_correct in Hu. rewrite Hu in En. discriminate.
        -- cbn [app] in Huv. injection Huv as <- ->. exists u', v. auto.
  - rewrite m_mk_alt, !m_alt, IHa, IHb. tauto.
  - rewrite m_mk_cat, m_cat, m_star_cons.
    split; intros [u [v [Hw [Hu Hv]]]]; exists u, v;
      (split; [exact Hw|split; [apply IHa; exact Hu|exact Hv]]).
Qed.
Print Assumptions deriv_correct.

(* ---------- G3: emptiness is structural on clean terms ---------- *)

Definition wf_range (p : Z * Z) : Prop := 0 <= fst p <= snd p /\ snd p <= 1114111.

(* well-formed rule body: REmpty does not occur, every class is non-empty and
   made of ranges 0 <= lo <= hi <= 1114111 *)
Fixpoint wf_re (r : re) : Prop :=
  match r with
  | REmpty => False
  | REps => True
  | RCls rs => rs <> [] /\ Forall wf_range rs
  | RCat a b => wf_re a /\ wf_re b
  | RAlt a b => wf_re a /\ wf_re b
  | RStar a => wf_re a
  end.

(* what the smart constructors produce: REmpty only at the root *)
Definition clean (r : re) : Prop := r = REmpty \/ wf_re r.

Lemma wf_reb_ok : forall r, wf_reb r = true <-> wf_re r.
Proof.
  induction r as [| |rs|a IHa b IHb|a IHa b IHb|a IHa]; cbn [wf_reb wf_re].
  - split; [discriminate|intros []].
  - tauto.
  - rewrite andb_true_iff, forallb_forall, Forall_forall.
    assert (Hn : match rs with [] => false | _ :: _ => true end = true <-> rs <> []).
    { destruct rs; split; intros H; try reflexivity; try discriminate; congruence. }
    rewrite Hn. unfold wf_range.
    split; intros [H1 H2]; (split; [exact H1|]); intros p Hp; specialize (H2 p Hp); lia.
  - rewrite andb_true_iff, IHa, IHb. tauto.
  - rewrite andb_true_iff, IHa, IHb. tauto.
  - exact IHa.
Qed.

Lemma wf_inhabited : forall r, wf_re r -> exists w, matches r w.
Proof.
  induction r as [| |rs|a IHa b IHb|a IHa b IHb|a IHa]; cbn [wf_re]; intros H.
  - destruct H.
  - exists []. constructor.
  - destruct H as [Hne Hall]. destruct rs as [|[lo hi] rs]; [congruence|].
    apply Forall_inv in Hall. unfold wf_range in Hall. cbn [fst snd] in Hall.
    exists [lo]. apply (MCls _ lo lo hi); [left; reflexivity|lia].
  - destruct H as [Ha Hb]. destruct (IHa Ha) as [u Hu]. destruct (IHb Hb) as [v Hv].
    exists (u ++ v). constructor; assumption.
  - destruct H as [Ha _]. destruct (IHa Ha) as [u Hu]. exists u. apply MAltL. exact Hu.
  - exists []. constructor.
Qed.

Theorem is_empty_correct : forall r, clean r -> (is_empty r = true <-> forall w, ~ matches r w).
Proof.
  intros r [->|Hwf].
  - cbn [is_empty]. split; [intros _; apply m_empty|reflexivity].
  - destruct (wf_inhabited r Hwf) as [w Hw]. split.
    + intros H. destruct r; try discriminate H. destruct Hwf.
    + intros H. exfalso. apply (H w Hw).
Qed.
Print Assumptions is_empty_correct.

Lemma is_empty_false : forall r, clean r -> (is_empty r = false <-> exists w, matches r w).
Proof.
  intros r Hc. split.
  - intros H. destruct Hc as [->|Hwf]; [discriminate H|]. apply wf_inhabited. exact Hwf.
  - intros [w Hw]. destruct (is_empty r) eqn:E; [|reflexivity].
    exfalso. apply (proj1 (is_empty_correct r Hc) E w Hw).
Qed.

Lemma clean_wf : forall r, wf_re r -> clean r.
Proof. intros r H. right. exact H. Qed.

Lemma mk_cat_clean : forall a b, clean a -> clean b -> clean (mk_cat a b).
Proof.
  intros a b [->|Ha]; [left; reflexivity|]. intros [->|Hb].
  - left. destruct a; reflexivity.
  - destruct a; destruct b; cbn [mk_cat]; cbn [wf_re] in Ha, Hb;
      first [left; reflexivity | right; cbn [wf_re]; tauto].
Qed.

Lemma alt_ins_wf : forall a b, wf_re a -> clean b -> wf_re (alt_ins a b).
Proof.
  intros a b Ha. induction b as [| |rs|b1 IH1 b2 IH2|b1 IH1 b2 IH2|b1 IH1]; intros [Hb|Hb];
    try discriminate Hb; cbn [alt_ins]; try exact Ha.
  - destruct (re_cmp a REps); cbn [wf_re]; tauto.
  - destruct (re_cmp a (RCls rs)); cbn [wf_re] in *; tauto.
  - destruct (re_cmp a (RCat b1 b2)); cbn [wf_re] in *; tauto.
  - cbn [wf_re] in Hb. destruct Hb as [Hb1 Hb2].
    destruct (re_cmp a b1); cbn [wf_re]; try tauto.
    split; [exact Hb1|]. apply IH2. right. exact Hb2.
  - destruct (re_cmp a (RStar b1)); cbn [wf_re] in *; tauto.
Qed.

Lemma mk_alt_clean : forall a b, clean a -> clean b -> clean (mk_alt a b).
Proof.
  induction a as [| |rs|a1 IH1 a2 IH2|a1 IH1 a2 IH2|a1 IH1]; intros b Ha Hb; cbn [mk_alt];
    try exact Hb;
    destruct Ha as [Ha|Ha]; try discriminate Ha;
    try (right; apply alt_ins_wf; [exact Ha|exact Hb]).
  cbn [wf_re] in Ha. destruct Ha as [Ha1 Ha2].
  apply IH1; [right; exact Ha1|]. apply IH2; [right; exact Ha2|exact Hb].
Qed.

Lemma deriv_clean : forall r c, clean r -> clean (deriv c r).
Proof.
  intros r c [->|Hwf]; [left; reflexivity|]. revert Hwf.
  induction r as [| |rs|a IHa b IHb|a IHa b IHb|a IHa]; cbn [wf_re deriv]; intros H.
  - destruct H.
  - left. reflexivity.
  - destruct (in_cls c rs); [right; exact I|left; reflexivity].
  - destruct H as [Ha Hb]. destruct (nullable a).
    + apply mk_alt_clean; [apply mk_cat_clean; [apply IHa; exact Ha|right; exact Hb]|apply IHb; exact Hb].
    + apply mk_cat_clean; [apply IHa; exact Ha|right; exact Hb].
  - destruct H as [Ha Hb]. apply mk_alt_clean; [apply IHa; exact Ha|apply IHb; exact Hb].
  - apply mk_cat_clean; [apply IHa; exact H|right; exact H].
Qed.
Print Assumptions deriv_clean.

(* ---------- G4: the transition list of a view is the derivative step ---------- *)

Lemma in_cls_same : forall rs c b,
  (forall p, In p rs -> in1 p c = in1 p b) -> in_cls c rs = in_cls b rs.
Proof.
  induction rs as [|p rs IH]; intros c b H; [reflexivity|].
  unfold in_cls. cbn [existsb]. rewrite (H p (or_introl eq_refl)). f_equal.
  apply IH. intros q Hq. apply H. right. exact Hq.
Qed.

(* a derivative only looks at the head classes *)
Lemma deriv_same : forall r c b,
  (forall p, In p (heads r) -> in1 p c = in1 p b) -> deriv c r = deriv b r.
Proof.
  induction r as [| |rs|a IHa b0 IHb|a IHa b0 IHb|a IHa]; intros c b H; cbn [deriv heads] in *.
  - reflexivity.
  - reflexivity.
  - rewrite (in_cls_same rs c b H). reflexivity.
  - destruct (nullable a) eqn:En.
    + rewrite (IHa c b), (IHb c b); [reflexivity| |];
        intros p Hp; apply H; apply in_or_app; [right|left]; exact Hp.
    + rewrite (IHa c b H). reflexivity.
  - rewrite (IHa c b), (IHb c b); [reflexivity| |];
      intros p Hp; apply H; apply in_or_app; [right|left]; exact Hp.
  - rewrite (IHa c b H). reflexivity.
Qed.

(* strictly increasing lists *)
Fixpoint ssorted (l : list Z) : Prop :=
  match l with
  | [] => True
  | x :: l' => (forall y, In y l' -> x < y) /\ ssorted l'
  end.

Lemma ins_pt_in : forall x l y, In y (ins_pt x l) <-> y = x \/ In y l.
Proof.
  intros x l y. induction l as [|z l IH]; cbn [ins_pt].
  - cbn [In]. split; intros [H|H]; auto.
  - destruct (x <? z) eqn:E1.
    + cbn [In]. split; intros H; intuition auto.
    + destruct (x =? z) eqn:E2.
      * assert (x = z) by lia. subst z. cbn [In]. split; intros H; intuition auto.
      * cbn [In]. rewrite IH. split; intros H; intuition auto.
Qed.

Lemma ins_pt_sorted : forall x l, ssorted l -> ssorted (ins_pt x l).
Proof.
  intros x l. induction l as [|z l IH]; intros Hs; cbn [ins_pt].
  - cbn [ssorted]. split; [intros y []|exact I].
  - cbn [ssorted] in Hs. destruct Hs as [Hz Hs].
    destruct (x <? z) eqn:E1.
    + cbn [ssorted]. split; [|split; assumption].
      intros y [<-|Hy]; [lia|]. specialize (Hz y Hy). lia.
    + destruct (x =? z) eqn:E2.
      * cbn [ssorted]. split; assumption.
      * cbn [ssorted]. split; [|apply IH; exact Hs].
        intros y Hy. apply ins_pt_in in Hy. destruct Hy as [->|Hy]; [lia|apply Hz; exact Hy].
Qed.

Lemma add_pt_in : forall p l y, In y (add_pt p l) <-> (y = p /\ in_range p = true) \/ In y l.
Proof.
  intros p l y. unfold add_pt. destruct (in_range p) eqn:E.
  - rewrite ins_pt_in. split; intros [H|H]; auto. destruct H as [H _]. auto.
  - split; [auto|]. intros [[_ H]|H]; [discriminate H|exact H].
Qed.

Lemma add_pt_sorted : forall p l, ssorted l -> ssorted (add_pt p l).
Proof. intros p l H. unfold add_pt. destruct (in_range p); [apply ins_pt_sorted|]; exact H. Qed.

Definition pts_of (hs : list (Z * Z)) : list Z :=
  fold_right (fun p acc => add_pt (fst p) (add_pt (snd p + 1) acc)) [0] hs.

Lemma pts_of_sorted : forall hs, ssorted (pts_of hs).
Proof.
  induction hs as [|p hs IH]; cbn [pts_of fold_right].
  - cbn [ssorted]. split; [intros y []|exact I].
  - apply add_pt_sorted, add_pt_sorted. exact IH.
Qed.

Lemma pts_of_in : forall hs y,
  In y (pts_of hs) <->
  y = 0 \/ exists p, In p hs /\ in_range y = true /\ (y = fst p \/ y = snd p + 1).
Proof.
  induction hs as [|p hs IH]; intros y; cbn [pts_of fold_right].
  - cbn [In]. split.
    + intros [H|[]]. left. symmetry. exact H.
    + intros [H|[q [[] _]]]. left. symmetry. exact H.
  - fold (pts_of hs). rewrite !add_pt_in, IH. split.
    + intros [[-> Hr]|[[-> Hr]|[H|[q [Hq [Hr Hy]]]]]].
      * right. exists p. split; [left; reflexivity|]. auto.
      * right. exists p. split; [left; reflexivity|]. auto.
      * left. exact H.
      * right. exists q. split; [right; exact Hq|]. auto.
    + intros [H|[q [[<-|Hq] [Hr Hy]]]].
      * right. right. left. exact H.
      * destruct Hy as [->| ->]; [left|right; left]; auto.
      * right. right. right. exists q. auto.
Qed.

Lemma st_points_eq : forall st, st_points st = pts_of (flat_map heads st).
Proof. reflexivity. Qed.

(* the transition list, read at c, is the entry of the greatest point below c *)
Definition step_of (st : list re) (b : Z) : option (list re) :=
  if forallb is_empty (map (deriv b) st) then None else Some (map (deriv b) st).

Lemma atoms_lo_in : forall pts a, In a (atoms pts) -> In (fst a) pts.
Proof.
  induction pts as [|p rest IH]; intros a Ha; cbn [atoms] in Ha; [destruct Ha|].
  destruct rest as [|q rest'].
  - destruct Ha as [<-|[]]. left. reflexivity.
  - destruct Ha as [<-|Ha]; [left; reflexivity|]. right. apply IH. exact Ha.
Qed.

Lemma lookup_build_none : forall st ats c,
  (forall a, In a ats -> c < fst a) -> lookup (list re) (build st ats) c = None.
Proof.
  intros st ats c. induction ats as [|a ats IH]; intros H; cbn [build]; [reflexivity|].
  assert (IH' : lookup (list re) (build st ats) c = None).
  { apply IH. intros a' Ha'. apply H. right. exact Ha'. }
  cbv zeta. destruct (forallb is_empty (map (deriv (fst a)) st)); [exact IH'|].
  cbn [lookup]. pose proof (H a (or_introl eq_refl)) as Hlt.
  destruct ((fst a <=? c) && (c <=? snd a)) eqn:E; [lia|exact IH'].
Qed.

Lemma lookup_atoms : forall st pts,
  ssorted pts -> (forall p, In p pts -> p <= 1114111) ->
  forall c b, In b pts -> b <= c <= 1114111 ->
  (forall b', In b' pts -> b' <= c -> b' <= b) ->
  lookup (list re) (build st (atoms pts)) c = step_of st b.
Proof.
  intros st pts. induction pts as [|p rest IH]; intros Hs Hmax c b Hb Hc Hgreat; [destruct Hb|].
  cbn [ssorted] in Hs. destruct Hs as [Hp Hs].
  cbn [atoms]. destruct rest as [|q rest'].
  - destruct Hb as [<-|[]]. cbn [build fst snd]. unfold step_of.
    destruct (forallb is_empty (map (deriv p) st)); [reflexivity|].
    cbn [lookup]. destruct ((p <=? c) && (c <=? 1114111)) eqn:E; [reflexivity|lia].
  - assert (Hpq : p < q) by (apply Hp; left; reflexivity).
    destruct Hb as [<-|Hb].
    + (* c lies in the first atom *)
      assert (Hcq : c < q).
      { destruct (Z_lt_ge_dec c q) as [Hlt|Hge]; [exact Hlt|].
        specialize (Hgreat q (or_intror (or_introl eq_refl)) ltac:(lia)). lia. }
      assert (Hnone : lookup (list re) (build st (atoms (q :: rest'))) c = None).
      { apply lookup_build_none. intros a Ha. apply atoms_lo_in in Ha.
        destruct (Z_lt_ge_dec c (fst a)) as [Hlt|Hge]; [exact Hlt|].
        specialize (Hgreat (fst a) (or_intror Ha) ltac:(lia)).
        specialize (Hp (fst a) Ha). lia. }
      cbn [build fst snd]. unfold step_of.
      destruct (forallb is_empty (map (deriv p) st)); [exact Hnone|].
      cbn [lookup]. destruct ((p <=? c) && (c <=? q - 1)) eqn:E; [reflexivity|lia].
    + (* c lies beyond the first atom *)
      assert (Hqb : q <= b).
      { destruct Hb as [<-|Hb']; [lia|]. cbn [ssorted] in Hs. destruct Hs as [Hq _].
        specialize (Hq b Hb'). lia. }
      assert (IH' : lookup (list re) (build st (atoms (q :: rest'))) c = step_of st b).
      { apply IH; [exact Hs| |exact Hb|exact Hc|].
        - intros y Hy. apply Hmax. right. exact Hy.
        - intros b' Hb' Hle. apply Hgreat; [right; exact Hb'|exact Hle]. }
      cbn [build fst snd].
      destruct (forallb is_empty (map (deriv p) st)); [exact IH'|].
      cbn [lookup]. destruct ((p <=? c) && (c <=? q - 1)) eqn:E; [lia|exact IH'].
Qed.

Lemma map_deriv_same : forall st c b,
  (forall p, In p (flat_map heads st) -> in1 p c = in1 p b) ->
  map (deriv c) st = map (deriv b) st.
Proof.
  induction st as [|r st IH]; intros c b H; [reflexivity|].
  cbn [map flat_map] in *. f_equal.
  - apply deriv_same. intros p Hp. apply H. apply in_or_app. left. exact Hp.
  - apply IH. intros p Hp. apply H. apply in_or_app. right. exact Hp.
Qed.

Theorem view_lookup : forall rules st c,
  0 <= c <= 1114111 ->
  lookup (list re) (v_trans (re_view rules st)) c =
  (if forallb is_empty (map (deriv c) st) then None else Some (map (deriv c) st)).
Proof.
  intros rules st c Hc. cbn [re_view v_trans]. rewrite st_points_eq.
  set (hs := flat_map heads st).
  assert (H0 : In 0 (pts_of hs)) by (apply pts_of_in; left; reflexivity).
  destruct (max_below (pts_of hs) c 0 H0 ltac:(lia)) as [b [Hb [Hbc Hgreat]]].
  assert (Hrange : forall y, In y (pts_of hs) -> 0 <= y <= 1114111).
  { intros y Hy. apply pts_of_in in Hy. destruct Hy as [->|[p [_ [Hr _]]]]; [lia|].
    unfold in_range in Hr. lia. }
  rewrite (lookup_atoms st (pts_of hs) (pts_of_sorted hs)
             (fun y Hy => proj2 (Hrange y Hy)) c b Hb ltac:(lia) Hgreat).
  unfold step_of.
  assert (Hsame : map (deriv c) st = map (deriv b) st).
  { apply map_deriv_same. fold hs. intros p Hp. unfold in1.
    pose proof (Hrange b Hb) as Hbr.
    assert (Hlo : in_range (fst p) = true -> fst p <= c -> fst p <= b).
    { intros Hr Hle. apply Hgreat; [|exact Hle]. apply pts_of_in. right. exists p. auto. }
    assert (Hhi : in_range (snd p + 1) = true -> snd p + 1 <= c -> snd p + 1 <= b).
    { intros Hr Hle. apply Hgreat; [|exact Hle]. apply pts_of_in. right. exists p. auto. }
    unfold in_range in Hlo, Hhi.
    destruct ((fst p <=? c) && (c <=? snd p)) eqn:E1;
      destruct ((fst p <=? b) && (b <=? snd p)) eqn:E2; try reflexivity; exfalso; lia. }
  rewrite Hsame. reflexivity.
Qed.
Print Assumptions view_lookup.

Theorem view_lookup_eof : forall rules st,
  lookup (list re) (v_trans (re_view rules st)) (-1) = None.
Proof.
  intros rules st. cbn [re_view v_trans]. rewrite st_points_eq.
  apply lookup_build_none. intros a Ha. apply atoms_lo_in in Ha.
  apply pts_of_in in Ha. destruct Ha as [->|[p [_ [Hr _]]]]; [lia|].
  unfold in_range in Hr. lia.
Qed.
Print Assumptions view_lookup_eof.
