(* Proofs about the rang3 model: basic definitions, set lemmas, Flatten
   (merge pass, sort).  Subtract / Normalize / class expressions are in
   RangeProofsSub.v, RangeProofsNorm.v, RangeProofsClass.v. *)
From Coq Require Import List ZArith Lia Bool Sorting.Sorted Sorting.Permutation ZifyBool.
From Lox Require Import Rang3.RangeModel.
Import ListNotations.
Open Scope Z_scope.

Definition inr (c:Z) (r:range) : Prop := rB r <= c <= rE r.
Definition inrs (c:Z) (rs:list range) : Prop := exists r, In r rs /\ inr c r.
Definition wfr (r:range) : Prop := rB r <= rE r.
(* canonical: sorted by B, every range well-formed, consecutive ranges
   separated by a gap (not touching) *)
Inductive canon : list range -> Prop :=
| canon_nil : canon []
| canon_one r : wfr r -> canon [r]
| canon_cons r s l : wfr r -> rE r + 1 < rB s -> canon (s :: l) -> canon (r :: s :: l).

(* ------------------------------------------------------------------ *)
(* Set lemmas *)

Lemma inrs_nil c : ~ inrs c [].
Proof. intros (r & [] & _). Qed.
Lemma inrs_nil_iff c : inrs c [] <-> False.
Proof. split; [apply inrs_nil|tauto]. Qed.
Lemma inrs_cons c r l : inrs c (r::l) <-> inr c r \/ inrs c l.
Proof. unfold inrs; split.
  - intros (x & [->|H] & Hc); eauto.
  - intros [H|(x & H & Hc)]; [exists r|exists x]; simpl; auto.
Qed.
Lemma inrs_one c r : inrs c [r] <-> inr c r.
Proof. rewrite inrs_cons, inrs_nil_iff. tauto. Qed.
Lemma inrs_app c l1 l2 : inrs c (l1++l2) <-> inrs c l1 \/ inrs c l2.
Proof. unfold inrs; split.
  - intros (x & H & Hc). apply in_app_or in H as [H|H]; eauto.
  - intros [(x&H&Hc)|(x&H&Hc)]; exists x; split; auto using in_or_app.
Qed.
Lemma inrs_rev c l : inrs c (rev l) <-> inrs c l.
Proof. unfold inrs; split; intros (x&H&Hc); exists x; split; auto;
  [apply in_rev|apply in_rev in H]; auto. Qed.
Lemma inrs_ext c l l' : (forall z, In z l <-> In z l') -> inrs c l <-> inrs c l'.
Proof. intros H; unfold inrs; split; intros (x&Hi&Hc); exists x; split; auto; apply H; auto. Qed.
Lemma inrs_perm c l l' : Permutation l l' -> inrs c l <-> inrs c l'.
Proof. intros H. apply inrs_ext. intros z; split; intros Hz.
  - eapply Permutation_in; eauto.
  - eapply Permutation_in; [apply Permutation_sym|]; eauto.
Qed.

Lemma Forall_perm {A} (P:A->Prop) l l' : Permutation l l' -> Forall P l -> Forall P l'.
Proof. intros Hp H. rewrite Forall_forall in *. intros x Hx. apply H.
  eapply Permutation_in; [apply Permutation_sym|]; eauto. Qed.

(* ------------------------------------------------------------------ *)
(* Generic StronglySorted lemmas *)

Lemma SS_app {A} (R:A->A->Prop) l1 l2 :
  StronglySorted R l1 -> StronglySorted R l2 ->
  (forall x y, In x l1 -> In y l2 -> R x y) -> StronglySorted R (l1++l2).
Proof.
  induction l1 as [|a l1 IH]; simpl; intros H1 H2 H; auto.
  inversion H1 as [|? ? H1' Hall]; subst. constructor.
  - apply IH; auto.
  - apply Forall_app; split; auto. apply Forall_forall. intros y Hy. apply H; auto.
Qed.

Lemma SS_rev {A} (R:A->A->Prop) l :
  StronglySorted (fun x y => R y x) l -> StronglySorted R (rev l).
Proof.
  induction l as [|a l IH]; simpl; intros H; [constructor|].
  inversion H as [|? ? H' Hall]; subst. apply SS_app; auto.
  - repeat constructor.
  - intros x y Hx [<-|[]]. rewrite Forall_forall in Hall. apply Hall. apply in_rev; auto.
Qed.

Lemma SS_impl {A} (R R':A->A->Prop) l :
  (forall x y, R x y -> R' x y) -> StronglySorted R l -> StronglySorted R' l.
Proof.
  intros HR; induction 1 as [|a l Hs IH Hall]; constructor; auto.
  eapply Forall_impl; [|exact Hall]. intros y; apply HR.
Qed.

Lemma SS_app_inv {A} (R:A->A->Prop) l1 l2 :
  StronglySorted R (l1++l2) ->
  StronglySorted R l1 /\ StronglySorted R l2 /\ (forall x y, In x l1 -> In y l2 -> R x y).
Proof.
  induction l1 as [|a l1 IH]; simpl; intros H.
  - repeat split; auto. constructor. intros ? ? [].
  - inversion H as [|? ? H' Hall]; subst. destruct (IH H') as (H1&H2&H3).
    apply Forall_app in Hall as [Ha1 Ha2].
    repeat split; auto. constructor; auto.
    intros x y [<-|Hx] Hy; auto. rewrite Forall_forall in Ha2; auto.
Qed.

(* ------------------------------------------------------------------ *)
(* canon as "well-formed and strongly sorted with gaps" *)

Definition gap (x y : range) : Prop := rE x + 1 < rB y.
Definition dgap (x y : range) : Prop := rE y + 1 < rB x.
Definition before (x y : range) : Prop := rE x < rB y.
Definition sortedB (l:list range) : Prop := StronglySorted (fun a b => rB a <= rB b) l.

Lemma canon_wf_gap l : canon l -> Forall wfr l /\ StronglySorted gap l.
Proof.
  induction 1 as [|r Hr|r s l Hr Hg Hc [IHw IHs]].
  - split; constructor.
  - split; repeat constructor; auto.
  - split; [constructor; auto|]. constructor; auto.
    inversion IHs as [|? ? _ Hall]; subst. inversion IHw as [|? ? Hws _]; subst.
    constructor; [exact Hg|]. eapply Forall_impl; [|exact Hall].
    intros y Hy. unfold gap, wfr in *. lia.
Qed.

Lemma wf_gap_canon l : Forall wfr l -> StronglySorted gap l -> canon l.
Proof.
  induction l as [|r l IH]; intros Hw Hs; [constructor|].
  inversion Hw as [|? ? Hr Hw']; subst. inversion Hs as [|? ? Hs' Hall]; subst.
  destruct l as [|s l]; [constructor; auto|].
  inversion Hall; subst. constructor; auto.
Qed.

Lemma canon_iff l : canon l <-> Forall wfr l /\ StronglySorted gap l.
Proof. split; [apply canon_wf_gap|intros [? ?]; apply wf_gap_canon; auto]. Qed.

Lemma canon_wf l : canon l -> Forall wfr l.
Proof. intros H; apply canon_wf_gap in H; tauto. Qed.

Lemma canon_before l : canon l -> StronglySorted before l.
Proof. intros H; apply canon_wf_gap in H as [_ H]. eapply SS_impl; [|exact H].
  unfold gap, before; intros; lia. Qed.

Lemma canon_sortedB l : canon l -> sortedB l.
Proof. intros H; apply canon_wf_gap in H as [Hw H]. unfold sortedB.
  induction H as [|a l Hs IH Hall]; constructor.
  - inversion Hw; auto.
  - inversion Hw; subst. eapply Forall_impl; [|exact Hall]. unfold gap, wfr in *; intros; lia.
Qed.

Lemma canon_tail r l : canon (r::l) -> canon l.
Proof. inversion 1; subst; auto. constructor. Qed.

(* ------------------------------------------------------------------ *)
(* The merge pass *)

Lemma merge_pass_gen : forall l acc log,
  sortedB l -> Forall wfr l -> Forall wfr acc -> StronglySorted dgap acc ->
  (forall t r, hd_error acc = Some t -> In r l -> rB t <= rB r) ->
  (forall c, inrs c (fst (merge_pass acc log l)) <-> inrs c acc \/ inrs c l) /\
  Forall wfr (fst (merge_pass acc log l)) /\
  StronglySorted gap (fst (merge_pass acc log l)).
Proof.
  induction l as [|r l IH]; intros acc log Hs Hw Hwa Hda Hle; simpl.
  - split; [|split].
    + intros c. rewrite inrs_rev, (inrs_nil_iff c). tauto.
    + apply Forall_rev; auto.
    + apply SS_rev. exact Hda.
  - inversion Hs as [|? ? Hs' Hall]; subst. inversion Hw as [|? ? Hwr Hw']; subst.
    destruct acc as [|tip acc'].
    + destruct (IH [r] log) as (I1&I2&I3); auto.
      * repeat constructor.
      * intros t r0 Ht Hin. inversion Ht; subst. rewrite Forall_forall in Hall. auto.
      * split; [|split]; auto.
        intros c. rewrite I1. rewrite !inrs_cons, !(inrs_nil_iff c). tauto.
    + inversion Hwa as [|? ? Hwt Hwa']; subst.
      inversion Hda as [|? ? Hda' Hdall]; subst.
      assert (Htr : rB tip <= rB r) by (apply (Hle tip r); simpl; auto).
      destruct (touches tip r) eqn:Ht.
      * destruct (IH ((Z.min (rB tip) (rB r), Z.max (rE tip) (rE r)) :: acc')
                     ((tip, r, (Z.min (rB tip) (rB r), Z.max (rE tip) (rE r))) :: log))
          as (I1&I2&I3); auto.
        -- constructor; auto. unfold wfr, rB, rE in *; simpl; lia.
        -- constructor; auto. eapply Forall_impl; [|exact Hdall].
           intros y Hy. unfold dgap, rB, rE in *; simpl. lia.
        -- intros t r0 Ht0 Hin. inversion Ht0; subst. unfold rB; simpl.
           rewrite Forall_forall in Hall. specialize (Hall _ Hin). unfold rB in *. lia.
        -- split; [|split]; auto.
           intros c. rewrite I1. rewrite !inrs_cons. unfold touches in Ht.
           destruct (rB tip >? rB r) eqn:Hg; [lia|].
           assert (Hn : inr c (Z.min (rB tip) (rB r), Z.max (rE tip) (rE r)) <-> inr c tip \/ inr c r).
           { unfold inr, rB, rE, wfr in *; simpl in *. lia. }
           rewrite Hn. tauto.
      * destruct (IH (r :: tip :: acc') log) as (I1&I2&I3); auto.
        -- constructor; auto. unfold touches in Ht.
           destruct (rB tip >? rB r) eqn:Hg; [lia|].
           constructor.
           ++ unfold dgap. lia.
           ++ eapply Forall_impl; [|exact Hdall]. intros y Hy. unfold dgap in *. lia.
        -- intros t r0 Ht0 Hin. inversion Ht0; subst. rewrite Forall_forall in Hall; auto.
        -- split; [|split]; auto.
           intros c. rewrite I1. rewrite !inrs_cons. tauto.
Qed.

Lemma merge_pass_all l : Forall wfr l -> sortedB l ->
  (forall c, inrs c (fst (merge_pass [] [] l)) <-> inrs c l) /\ canon (fst (merge_pass [] [] l)).
Proof.
  intros Hw Hs.
  assert (H0 : forall t r : range, hd_error (@nil range) = Some t -> In r l -> rB t <= rB r)
    by (intros t r Ht; discriminate).
  destruct (merge_pass_gen l [] [] Hs Hw (Forall_nil _) (SSorted_nil _) H0) as (I1&I2&I3).
  - split.
    + intros c. rewrite I1, (inrs_nil_iff c). tauto.
    + apply wf_gap_canon; auto.
Qed.

Theorem merge_pass_denotes : forall l, Forall wfr l ->
  StronglySorted (fun a b => rB a <= rB b) l ->
  forall c, inrs c (fst (merge_pass [] [] l)) <-> inrs c l.
Proof. intros l Hw Hs. apply merge_pass_all; auto. Qed.

Theorem merge_pass_canon : forall l, Forall wfr l ->
  StronglySorted (fun a b => rB a <= rB b) l ->
  canon (fst (merge_pass [] [] l)).
Proof. intros l Hw Hs. apply merge_pass_all; auto. Qed.

(* ------------------------------------------------------------------ *)
(* sort_ranges *)

Definition rle (x y : range) : Prop := rB x < rB y \/ (rB x = rB y /\ rE x <= rE y).

Lemma insert_sorted_perm x l : Permutation (x :: l) (insert_sorted x l).
Proof.
  induction l as [|y l IH]; simpl; auto.
  destruct (rlt y x); auto.
  eapply perm_trans; [apply perm_swap|]. constructor. exact IH.
Qed.

Lemma sort_ranges_perm l : Permutation l (sort_ranges l).
Proof.
  induction l as [|x l IH]; simpl; auto.
  eapply perm_trans; [|apply insert_sorted_perm]. constructor; auto.
Qed.

Lemma insert_sorted_sorted x l : StronglySorted rle l -> StronglySorted rle (insert_sorted x l).
Proof.
  induction l as [|y l IH]; simpl; intros H.
  - repeat constructor.
  - inversion H as [|? ? H' Hall]; subst.
    destruct (rlt y x) eqn:Hlt.
    + constructor; auto.
      eapply Forall_perm; [apply insert_sorted_perm|]. constructor; auto.
      unfold rlt, rle in *. lia.
    + constructor; auto. constructor.
      * unfold rlt, rle in *. lia.
      * eapply Forall_impl; [|exact Hall]. intros z Hz. unfold rlt, rle in *. lia.
Qed.

Lemma sort_ranges_sorted l : StronglySorted rle (sort_ranges l).
Proof. induction l; simpl; [constructor|apply insert_sorted_sorted; auto]. Qed.

Lemma sort_ranges_sortedB l : sortedB (sort_ranges l).
Proof. eapply SS_impl; [|apply sort_ranges_sorted]. unfold rle; intros; lia. Qed.

Theorem flatten_denotes : forall l, Forall wfr l -> forall c, inrs c (flatten l) <-> inrs c l.
Proof.
  intros l Hw c. unfold flatten, flatten_log.
  rewrite merge_pass_denotes.
  - symmetry. apply inrs_perm. apply sort_ranges_perm.
  - eapply Forall_perm; [apply sort_ranges_perm|auto].
  - apply sort_ranges_sortedB.
Qed.

Theorem flatten_canon : forall l, Forall wfr l -> canon (flatten l).
Proof.
  intros l Hw. unfold flatten, flatten_log. apply merge_pass_canon.
  - eapply Forall_perm; [apply sort_ranges_perm|auto].
  - apply sort_ranges_sortedB.
Qed.

Print Assumptions merge_pass_denotes.
Print Assumptions merge_pass_canon.
Print Assumptions flatten_denotes.
Print Assumptions flatten_canon.
