(* Mirror of internal/ast/char_class.go, char_class_expr.go, the '.' term and
   the class-item pairing / escape decoding of internal/parser/parser.go. *)
From Coq Require Import List ZArith Bool.
From Lox Require Import Rang3.RangeModel.
Import ListNotations.
Open Scope Z_scope.

Inductive class_expr :=
| CClass (neg : bool) (items : list range)        (* [..] and ~[..] *)
| CSub (l r : class_expr)                         (* [..]-[..] *)
| CAdd (l r : class_expr).                        (* present in the AST only *)

Definition any_class : class_expr := CClass false [(0, max_rune)].

(* GetRanges; None when Subtract runs out of fuel (proved impossible). *)
Fixpoint get_ranges (e : class_expr) : option (list range) :=
  match e with
  | CClass neg items =>
    let rs := flatten items in
    if neg then subtract [(0, max_rune)] rs else Some rs
  | CSub l r =>
    match get_ranges l, get_ranges r with
    | Some a, Some b => subtract a b
    | _, _ => None
    end
  | CAdd l r =>
    match get_ranges l, get_ranges r with
    | Some a, Some b => Some (flatten (a ++ b))
    | _, _ => None
    end
  end.

(* on_char_class: tokens are CLASS_CHAR (false, rune) or CLASS_DASH (true, '-'). *)
Definition ctok := (bool * Z)%type.

Fixpoint pair_items (fuel : nat) (chars : list ctok) : list range :=
  match fuel with
  | O => []
  | S f =>
    match chars with
    | [] => []
    | c0 :: rest =>
      match rest with
      | (true, _) :: c2 :: rest' => (snd c0, snd c2) :: pair_items f rest'
      | _ => (snd c0, snd c0) :: pair_items f rest
      end
    end
  end.
Definition class_items (chars : list ctok) : list range := pair_items (S (length chars)) chars.

(* unescape on bytes (Z in 0..255).  Panic = index out of range (a \x, \u or
   \U with too few bytes after it), a ParseUint error (a non-hex digit) or the
   "unreachable" default, which the Go code turns into a crash.  A backslash
   that is the last byte stands for itself (repair a38a9a0). *)
Inductive uresult := UOk (runes_or_bytes : list (bool * Z)) | UPanic.
(* (true, r): WriteRune r ; (false, b): WriteByte b *)

Definition hex_val (b : Z) : option Z :=
  if (48 <=? b) && (b <=? 57) then Some (b - 48)
  else if (97 <=? b) && (b <=? 102) then Some (b - 87)
  else if (65 <=? b) && (b <=? 70) then Some (b - 55)
  else None.

Fixpoint hex_to_rune (n : nat) (l : list Z) (acc : Z) : option (Z * list Z) :=
  match n with
  | O => Some (acc, l)
  | S n' =>
    match l with
    | [] => None
    | b :: l' =>
      match hex_val b with
      | Some v => hex_to_rune n' l' (acc * 16 + v)
      | None => None
      end
    end
  end.

Fixpoint unescape_loop (fuel : nat) (lit : list Z) (acc : list (bool * Z)) : uresult :=
  match fuel with
  | O => UPanic
  | S f =>
    match lit with
    | [] => UOk (rev acc)
    | 92 :: rest =>
      match rest with
      | [] => UOk (rev ((false, 92) :: acc))
      | 110 :: r => unescape_loop f r ((true, 10) :: acc)
      | 114 :: r => unescape_loop f r ((true, 13) :: acc)
      | 116 :: r => unescape_loop f r ((true, 9) :: acc)
      | 39 :: r => unescape_loop f r ((true, 39) :: acc)
      | 92 :: r => unescape_loop f r ((true, 92) :: acc)
      | 45 :: r => unescape_loop f r ((true, 45) :: acc)
      | 120 :: r =>
        match hex_to_rune 2 r 0 with
        | Some (v, r') => unescape_loop f r' ((false, v) :: acc)
        | None => UPanic
        end
      | 117 :: r =>
        match hex_to_rune 4 r 0 with
        | Some (v, r') => unescape_loop f r' ((true, v) :: acc)
        | None => UPanic
        end
      | 85 :: r =>
        match hex_to_rune 8 r 0 with
        | Some (v, r') => unescape_loop f r' ((true, v) :: acc)
        | None => UPanic
        end
      | _ => UPanic
      end
    | b :: rest => unescape_loop f rest ((false, b) :: acc)
    end
  end.
Definition unescape (lit : list Z) : uresult := unescape_loop (S (length lit)) lit [].
