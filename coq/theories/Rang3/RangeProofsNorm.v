(* Proofs about Normalize (rangeHeap loop) of the rang3 model. *)
From Coq Require Import List ZArith Lia Bool Sorting.Sorted Sorting.Permutation ZifyBool.
From Lox Require Import Rang3.RangeModel Rang3.RangeProofs.
Import ListNotations.
Open Scope Z_scope.

(* ------------------------------------------------------------------ *)
(* 1. Heap facts *)

Definition rltP (a b:range) : Prop := rB a < rB b \/ (rB a = rB b /\ rE a < rE b).
Definition sortedH (h:list range) : Prop := StronglySorted rltP h.

Lemma req_eq x y : req x y = true <-> x = y.
Proof.
  destruct x, y; unfold req, rB, rE; simpl; split;
    [intros; f_equal; lia | intros [= -> ->]; lia].
Qed.

Lemma req_neq x y : req x y = false <-> x <> y.
Proof.
  split.
  - intros H E. apply req_eq in E. congruence.
  - intros H. destruct (req x y) eqn:E; auto. apply req_eq in E. contradiction.
Qed.

Lemma range_eq_dec (x y : range) : x = y \/ x <> y.
Proof. destruct (req x y) eqn:E; [left; apply req_eq|right; apply req_neq]; auto. Qed.

Lemma rlt_iff a b : rlt a b = true <-> rltP a b.
Proof. unfold rlt, rltP. lia. Qed.

Lemma rltP_trans a b c : rltP a b -> rltP b c -> rltP a c.
Proof. unfold rltP; lia. Qed.

Lemma rltP_irrefl a : ~ rltP a a.
Proof. unfold rltP; lia. Qed.

Lemma rltP_neq a b : rltP a b -> a <> b.
Proof. intros H ->. eapply rltP_irrefl; eauto. Qed.

Lemma rltP_total x y : req x y = false -> rlt x y = false -> rltP y x.
Proof. unfold req, rlt, rltP. lia. Qed.

Lemma rltP_leB a b : rltP a b -> rB a <= rB b.
Proof. unfold rltP; lia. Qed.

Lemma heap_push_In z x h : In z (heap_push x h) <-> z = x \/ In z h.
Proof.
  induction h as [|y h IH]; simpl.
  - intuition (subst; auto).
  - destruct (req x y) eqn:E.
    + apply req_eq in E; subst. simpl. intuition (subst; auto).
    + destruct (rlt x y); simpl; rewrite ?IH; intuition (subst; auto).
Qed.

Lemma heap_push_sorted x h : sortedH h -> sortedH (heap_push x h).
Proof.
  unfold sortedH. induction h as [|y h IH]; simpl; intros H.
  - repeat constructor.
  - inversion H as [|? ? H' Hall]; subst.
    destruct (req x y) eqn:E1; [exact H|].
    destruct (rlt x y) eqn:E2.
    + apply rlt_iff in E2. constructor; auto. constructor; auto.
      eapply Forall_impl; [|exact Hall]. intros z Hz. eapply rltP_trans; eauto.
    + constructor; auto. apply Forall_forall. intros z Hz.
      apply heap_push_In in Hz as [->|Hz].
      * apply rltP_total; auto.
      * rewrite Forall_forall in Hall; auto.
Qed.

Lemma heap_push_Forall (P : range -> Prop) x h :
  P x -> Forall P h -> Forall P (heap_push x h).
Proof.
  intros Hx Hh. rewrite Forall_forall in *. intros z Hz.
  apply heap_push_In in Hz as [->|Hz]; auto.
Qed.

Lemma heap_push_length x h : (length (heap_push x h) <= S (length h))%nat.
Proof.
  induction h as [|y h IH]; simpl; auto.
  destruct (req x y); simpl; [lia|]. destruct (rlt x y); simpl; lia.
Qed.

Lemma fold_push_In l : forall acc z,
  In z (fold_left (fun h x => heap_push x h) l acc) <-> In z l \/ In z acc.
Proof.
  induction l as [|a l IH]; simpl; intros acc z.
  - tauto.
  - rewrite IH, heap_push_In. intuition (subst; auto).
Qed.

Lemma fold_push_sorted l : forall acc,
  sortedH acc -> sortedH (fold_left (fun h x => heap_push x h) l acc).
Proof.
  induction l as [|a l IH]; simpl; intros acc H; auto.
  apply IH. apply heap_push_sorted; auto.
Qed.

Lemma fold_push_length l : forall acc,
  (length (fold_left (fun h x => heap_push x h) l acc) <= length l + length acc)%nat.
Proof.
  induction l as [|a l IH]; simpl; intros acc; auto.
  specialize (IH (heap_push a acc)). pose proof (heap_push_length a acc). lia.
Qed.

Lemma heap_of_In l z : In z (heap_of l) <-> In z l.
Proof. unfold heap_of. rewrite fold_push_In. simpl. tauto. Qed.

Lemma heap_of_sorted l : sortedH (heap_of l).
Proof. unfold heap_of. apply fold_push_sorted. constructor. Qed.

Lemma heap_of_Forall (P : range -> Prop) l : Forall P l -> Forall P (heap_of l).
Proof.
  intros H. rewrite Forall_forall in *. intros z Hz. apply H. apply heap_of_In; auto.
Qed.

Lemma heap_of_length l : (length (heap_of l) <= length l)%nat.
Proof. unfold heap_of. pose proof (fold_push_length l []). simpl in *. lia. Qed.

(* ------------------------------------------------------------------ *)
(* 2. The loop as an iterated step function *)

Inductive sres :=
| SDone
| SPanic
| SNext (h' : list range) (calls : list ncall).  (* calls in chronological order *)

Definition nstep (h : list range) : sres :=
  match h with
  | x :: ((y :: h') as rest) =>
    if req x y then SNext rest []
    else if negb (intersects x y) then SNext rest []
    else if (rB x =? rB y) && (rE x <? rE y) then
      let a := (rE x + 1, rE y) in
      SNext (heap_push a (heap_push x h')) [(y, x, a, a)]
    else if (rB x <? rB y) && (rE x =? rE y) then
      let a := (rB x, rB y - 1) in
      SNext (heap_push a rest) [(x, a, y, y)]
    else if (rB x <? rB y) && (rE x <? rE y) then
      let a := (rB x, rB y - 1) in
      let b := (rB y, rE x) in
      let c := (rE x + 1, rE y) in
      SNext (heap_push c (heap_push b (heap_push a h')))
            [(x, a, b, b); (y, b, c, c)]
    else if (rB x <? rB y) && (rE x >? rE y) then
      let a := (rB x, rB y - 1) in
      let b := (rE y + 1, rE x) in
      SNext (heap_push b (heap_push a rest)) [(x, a, y, b)]
    else SPanic
  | _ => SDone
  end.

Lemma normalize_loop_S f h log :
  normalize_loop (S f) h log =
  match nstep h with
  | SDone => NDone (rev log)
  | SPanic => NPanic (rev log)
  | SNext h' calls => normalize_loop f h' (rev calls ++ log)
  end.
Proof.
  destruct h as [|x [|y h']]; try reflexivity.
  unfold nstep. cbn [normalize_loop].
  destruct (req x y); [reflexivity|].
  destruct (negb (intersects x y)); [reflexivity|].
  destruct ((rB x =? rB y) && (rE x <? rE y)); [reflexivity|].
  destruct ((rB x <? rB y) && (rE x =? rE y)); [reflexivity|].
  destruct ((rB x <? rB y) && (rE x <? rE y)); [reflexivity|].
  destruct ((rB x <? rB y) && (rE x >? rE y)); reflexivity.
Qed.

Lemma nstep_done h : nstep h = SDone -> h = [] \/ exists z, h = [z].
Proof.
  destruct h as [|x [|y t]]; eauto.
  unfold nstep. cbv zeta.
  repeat (match goal with |- context [if ?c then _ else _] => destruct c end;
          try discriminate).
Qed.

Theorem loop_invariant (I : list range -> list ncall -> Prop) :
  (forall h log h' calls, I h log -> nstep h = SNext h' calls -> I h' (log ++ calls)) ->
  (forall h log, I h log -> nstep h <> SPanic) ->
  forall fuel h log, I h (rev log) ->
    match normalize_loop fuel h log with
    | NDone res => exists hf, I hf res /\ nstep hf = SDone
    | NPanic _ => False
    | NFuel => True
    end.
Proof.
  intros Hstep Hpanic. induction fuel as [|f IH]; intros h log HI.
  - exact Logic.I.
  - rewrite normalize_loop_S. destruct (nstep h) as [| |h' calls] eqn:E.
    + exists h. auto.
    + eapply Hpanic; eauto.
    + apply IH. rewrite rev_app_distr, rev_involutive. eapply Hstep; eauto.
Qed.

(* ------------------------------------------------------------------ *)
(* 3. Step analysis on a strictly sorted heap *)

Lemma intersects_le x y : rB x <= rB y -> intersects x y = (rB y <=? rE x).
Proof.
  intros H. unfold intersects. destruct (rB x >? rB y) eqn:E; [lia|reflexivity].
Qed.

Lemma nstep_no_panic h : sortedH h -> nstep h <> SPanic.
Proof.
  intros Hs. destruct h as [|x [|y t]]; try discriminate.
  inversion Hs as [|? ? Hs' Hall]; subst. inversion Hall as [|? ? Hxy _]; subst.
  unfold nstep. cbv zeta.
  rewrite (intersects_le x y) by (apply rltP_leB; auto).
  unfold rltP in Hxy.
  destruct (req x y); [discriminate|].
  destruct (negb (rB y <=? rE x)) eqn:E1; [discriminate|].
  destruct ((rB x =? rB y) && (rE x <? rE y)) eqn:E2; [discriminate|].
  destruct ((rB x <? rB y) && (rE x =? rE y)) eqn:E3; [discriminate|].
  destruct ((rB x <? rB y) && (rE x <? rE y)) eqn:E4; [discriminate|].
  destruct ((rB x <? rB y) && (rE x >? rE y)) eqn:E5; [discriminate|].
  exfalso. lia.
Qed.

Lemma nstep_analysis h h' calls :
  sortedH h -> Forall wfr h -> nstep h = SNext h' calls ->
  exists x y t, h = x :: y :: t /\ rltP x y /\ wfr x /\ wfr y /\
    ( (rE x < rB y /\ h' = y :: t /\ calls = [])
    \/ (rB x = rB y /\ rE x < rE y /\
        h' = heap_push (rE x + 1, rE y) (heap_push x t) /\
        calls = [(y, x, (rE x + 1, rE y), (rE x + 1, rE y))])
    \/ (rB x < rB y /\ rB y <= rE x /\ rE x = rE y /\
        h' = heap_push (rB x, rB y - 1) (y :: t) /\
        calls = [(x, (rB x, rB y - 1), y, y)])
    \/ (rB x < rB y /\ rB y <= rE x /\ rE x < rE y /\
        h' = heap_push (rE x + 1, rE y)
               (heap_push (rB y, rE x) (heap_push (rB x, rB y - 1) t)) /\
        calls = [(x, (rB x, rB y - 1), (rB y, rE x), (rB y, rE x));
                 (y, (rB y, rE x), (rE x + 1, rE y), (rE x + 1, rE y))])
    \/ (rB x < rB y /\ rE y < rE x /\
        h' = heap_push (rE y + 1, rE x) (heap_push (rB x, rB y - 1) (y :: t)) /\
        calls = [(x, (rB x, rB y - 1), y, (rE y + 1, rE x))]) ).
Proof.
  intros Hs Hw Hn. destruct h as [|x [|y t]]; try discriminate.
  exists x, y, t.
  inversion Hs as [|? ? Hs' Hall]; subst. inversion Hall as [|? ? Hxy _]; subst.
  inversion Hw as [|? ? Hwx Hw']; subst. inversion Hw' as [|? ? Hwy _]; subst.
  split; [reflexivity|]. split; [assumption|]. split; [assumption|]. split; [assumption|].
  unfold nstep in Hn. cbv zeta in Hn.
  rewrite (intersects_le x y) in Hn by (apply rltP_leB; auto).
  destruct (req x y) eqn:E0.
  { apply req_eq in E0. subst. exfalso; eapply rltP_irrefl; eauto. }
  unfold rltP in Hxy. unfold wfr in Hwx, Hwy.
  destruct (negb (rB y <=? rE x)) eqn:E1.
  { injection Hn as <- <-. left. repeat split; auto. lia. }
  destruct ((rB x =? rB y) && (rE x <? rE y)) eqn:E2.
  { injection Hn as <- <-. right; left. repeat split; auto; lia. }
  destruct ((rB x <? rB y) && (rE x =? rE y)) eqn:E3.
  { injection Hn as <- <-. right; right; left. repeat split; auto; lia. }
  destruct ((rB x <? rB y) && (rE x <? rE y)) eqn:E4.
  { injection Hn as <- <-. right; right; right; left. repeat split; auto; lia. }
  destruct ((rB x <? rB y) && (rE x >? rE y)) eqn:E5.
  { injection Hn as <- <-. right; right; right; right. repeat split; auto; lia. }
  discriminate.
Qed.

Ltac step_cases Hs Hw Hn :=
  let x := fresh "x" in let y := fresh "y" in let t := fresh "t" in
  destruct (nstep_analysis _ _ _ Hs Hw Hn) as
    (x & y & t & -> & Hxy & Hwx & Hwy &
     [(Hc1 & -> & ->)
     |[(Hc1 & Hc2 & -> & ->)
     |[(Hc1 & Hc2 & Hc3 & -> & ->)
     |[(Hc1 & Hc2 & Hc3 & -> & ->)
     |(Hc1 & Hc2 & -> & ->)]]]]).

Lemma sortedH_inv2 x y t : sortedH (x :: y :: t) ->
  sortedH (y :: t) /\ sortedH t /\ (forall z, In z t -> rltP y z) /\
  (forall z, In z t -> rltP x z).
Proof.
  intros H. inversion H as [|? ? H1 A1]; subst. inversion H1 as [|? ? H2 A2]; subst.
  inversion A1 as [|? ? _ A1']; subst.
  rewrite Forall_forall in A1', A2. auto.
Qed.

Lemma step_Forall (P : range -> Prop) h h' calls :
  (forall x y b e, P x -> P y ->
     (b = rB x \/ b = rB y \/ b = rE x + 1 \/ b = rE y + 1) ->
     (e = rE x \/ e = rE y \/ e = rB y - 1) -> b <= e -> P (b, e)) ->
  sortedH h -> Forall wfr h -> Forall P h -> nstep h = SNext h' calls -> Forall P h'.
Proof.
  intros HP Hs Hw Hp Hn. step_cases Hs Hw Hn;
  inversion Hp as [|? ? Px Hp']; subst; inversion Hp' as [|? ? Py Pt]; subst;
  unfold wfr in Hwx, Hwy; unfold rltP in Hxy.
  - assumption.
  - repeat apply heap_push_Forall; auto. apply (HP x y); auto; lia.
  - repeat apply heap_push_Forall; auto. apply (HP x y); auto; lia.
  - repeat apply heap_push_Forall; auto; apply (HP x y); auto; lia.
  - repeat apply heap_push_Forall; auto; apply (HP x y); auto; lia.
Qed.

Lemma step_pres h h' calls :
  sortedH h -> Forall wfr h -> nstep h = SNext h' calls -> sortedH h' /\ Forall wfr h'.
Proof.
  intros Hs Hw Hn. split.
  - step_cases Hs Hw Hn; destruct (sortedH_inv2 _ _ _ Hs) as (S1 & S2 & _ & _);
      repeat apply heap_push_sorted; auto.
  - refine (step_Forall wfr h h' calls _ Hs Hw Hw Hn).
    intros x y b e _ _ _ _ H. exact H.
Qed.

(* ------------------------------------------------------------------ *)
(* 4a. Base invariant: every onChange call partitions its first argument *)

Definition callP (c : ncall) : Prop :=
  let '(o, a, b, c) := c in
  wfr a /\ wfr b /\ wfr c /\
  (forall x, inr x o <-> inr x a \/ inr x b \/ inr x c) /\
  (forall x, ~ (inr x a /\ inr x b)) /\
  (c = b \/ (forall x, ~ (inr x a /\ inr x c)) /\ (forall x, ~ (inr x b /\ inr x c))).

Lemma step_calls h h' calls :
  sortedH h -> Forall wfr h -> nstep h = SNext h' calls -> Forall callP calls.
Proof.
  intros Hs Hw Hn. step_cases Hs Hw Hn; clear Hn Hs Hw;
    repeat (apply Forall_cons); try apply Forall_nil;
    destruct x as [xb xe], y as [yb ye];
    unfold callP, wfr, inr, rltP, rB, rE in *; simpl in *.
  - repeat split; try lia; try (intros; lia). left; reflexivity.
  - repeat split; try lia; try (intros; lia). left; reflexivity.
  - repeat split; try lia; try (intros; lia). left; reflexivity.
  - repeat split; try lia; try (intros; lia). left; reflexivity.
  - repeat split; try lia; try (intros; lia). right. split; intros; lia.
Qed.

Definition I0 (h : list range) (log : list ncall) : Prop :=
  sortedH h /\ Forall wfr h /\ Forall callP log.

Lemma I0_step h log h' calls :
  I0 h log -> nstep h = SNext h' calls -> I0 h' (log ++ calls).
Proof.
  intros (Hs & Hw & Hl) Hn. destruct (step_pres _ _ _ Hs Hw Hn) as [Hs' Hw'].
  split; [exact Hs'|split; [exact Hw'|]].
  apply Forall_app; split; [exact Hl|]. exact (step_calls _ _ _ Hs Hw Hn).
Qed.

Lemma I0_no_panic h log : I0 h log -> nstep h <> SPanic.
Proof. intros (Hs & _). apply nstep_no_panic; auto. Qed.

Lemma I0_init l : Forall wfr l -> I0 (heap_of l) (rev []).
Proof.
  intros H. split; [|split].
  - apply heap_of_sorted.
  - apply heap_of_Forall; auto.
  - constructor.
Qed.

Theorem normalize_calls_partition : forall l log, Forall wfr l -> normalize l = NDone log ->
  Forall (fun '(o,a,b,c) =>
    wfr a /\ wfr b /\ wfr c /\
    (forall x, inr x o <-> inr x a \/ inr x b \/ inr x c) /\
    (forall x, ~ (inr x a /\ inr x b)) /\
    (c = b \/ (forall x, ~ (inr x a /\ inr x c)) /\ (forall x, ~ (inr x b /\ inr x c)))) log.
Proof.
  intros l log Hw Hn.
  pose proof (loop_invariant I0 I0_step I0_no_panic (normalize_fuel l) (heap_of l) []
                (I0_init l Hw)) as H.
  unfold normalize in Hn. rewrite Hn in H. destruct H as (hf & (_ & _ & Hl) & _).
  exact Hl.
Qed.

Theorem normalize_no_panic : forall l, Forall wfr l -> forall log, normalize l <> NPanic log.
Proof.
  intros l Hw log Hn.
  pose proof (loop_invariant I0 I0_step I0_no_panic (normalize_fuel l) (heap_of l) []
                (I0_init l Hw)) as H.
  unfold normalize in Hn. rewrite Hn in H. exact H.
Qed.

Print Assumptions normalize_calls_partition.
Print Assumptions normalize_no_panic.

(* ------------------------------------------------------------------ *)
(* 4b. Termination: an additive weight on ranges strictly decreases *)

Section Measure.
  Variable w : range -> Z.
  Variable good : range -> Prop.
  Hypothesis good_wfr : forall r, good r -> wfr r.
  Hypothesis w_pos : forall r, good r -> 1 <= w r.
  Hypothesis w_split : forall b m e, b <= m -> m < e -> w (b, e) = w (b, m) + w (m + 1, e).
  Hypothesis good_piece : forall x y b e, good x -> good y ->
     (b = rB x \/ b = rB y \/ b = rE x + 1 \/ b = rE y + 1) ->
     (e = rE x \/ e = rE y \/ e = rB y - 1) -> b <= e -> good (b, e).

  Fixpoint wsum (h : list range) : Z :=
    match h with [] => 0 | r :: t => w r + wsum t end.

  Lemma wsum_nonneg h : Forall good h -> 0 <= wsum h.
  Proof.
    induction 1 as [|r t Hr Ht IH]; simpl; [lia|]. pose proof (w_pos r Hr). lia.
  Qed.

  Lemma wsum_push x h : good x -> Forall good h -> wsum (heap_push x h) <= wsum h + w x.
  Proof.
    intros Hx. pose proof (w_pos x Hx) as Px.
    induction 1 as [|r t Hr Ht IH]; simpl; [lia|].
    destruct (req x r); simpl; [lia|]. destruct (rlt x r); simpl; lia.
  Qed.

  Lemma good_Forall_wfr h : Forall good h -> Forall wfr h.
  Proof. intros H. eapply Forall_impl; [|exact H]. exact good_wfr. Qed.

  Lemma step_good h h' calls :
    sortedH h -> Forall good h -> nstep h = SNext h' calls -> Forall good h'.
  Proof.
    intros Hs Hg Hn.
    exact (step_Forall good h h' calls good_piece Hs (good_Forall_wfr h Hg) Hg Hn).
  Qed.

  Lemma step_decr h h' calls :
    sortedH h -> Forall good h -> nstep h = SNext h' calls -> wsum h' < wsum h.
  Proof.
    intros Hs Hg Hn. pose proof (good_Forall_wfr h Hg) as Hw.
    step_cases Hs Hw Hn; clear Hn Hs Hw;
      inversion Hg as [|? ? Gx Hg']; subst; inversion Hg' as [|? ? Gy Gt]; subst;
      pose proof (w_pos _ Gx) as Px; pose proof (w_pos _ Gy) as Py;
      unfold wfr in Hwx, Hwy; unfold rltP in Hxy.
    - simpl. lia.
    - assert (Ga : good (rE x + 1, rE y)) by (apply (good_piece x y); auto; lia).
      pose proof (wsum_push _ _ Gx Gt) as P1.
      pose proof (wsum_push _ _ Ga (heap_push_Forall good _ _ Gx Gt)) as P2.
      pose proof (w_split (rB x) (rE x) (rE y) Hwx Hc2) as Sp.
      destruct x as [xb xe], y as [yb ye]; unfold rB, rE in *; simpl in *. subst yb. lia.
    - assert (Ga : good (rB x, rB y - 1)) by (apply (good_piece x y); auto; lia).
      pose proof (wsum_push _ _ Ga Hg') as P1.
      assert (Sp : w (rB x, rE x) = w (rB x, rB y - 1) + w (rB y - 1 + 1, rE x))
        by (apply w_split; lia).
      replace (rB y - 1 + 1) with (rB y) in Sp by lia.
      destruct x as [xb xe], y as [yb ye]; unfold rB, rE in *; simpl in *. subst ye. lia.
    - assert (Ga : good (rB x, rB y - 1)) by (apply (good_piece x y); auto; lia).
      assert (Gb : good (rB y, rE x)) by (apply (good_piece x y); auto; lia).
      assert (Gc : good (rE x + 1, rE y)) by (apply (good_piece x y); auto; lia).
      pose proof (wsum_push _ _ Ga Gt) as P1.
      pose proof (wsum_push _ _ Gb (heap_push_Forall good _ _ Ga Gt)) as P2.
      pose proof (wsum_push _ _ Gc
                    (heap_push_Forall good _ _ Gb (heap_push_Forall good _ _ Ga Gt))) as P3.
      assert (Sp : w (rB x, rE x) = w (rB x, rB y - 1) + w (rB y - 1 + 1, rE x))
        by (apply w_split; lia).
      replace (rB y - 1 + 1) with (rB y) in Sp by lia.
      pose proof (w_split (rB y) (rE x) (rE y) Hc2 Hc3) as Sp2.
      pose proof (w_pos _ Gb) as Pb.
      destruct x as [xb xe], y as [yb ye]; unfold rB, rE in *; simpl in *. lia.
    - assert (Ga : good (rB x, rB y - 1)) by (apply (good_piece x y); auto; lia).
      assert (Gb : good (rE y + 1, rE x)) by (apply (good_piece x y); auto; lia).
      pose proof (wsum_push _ _ Ga Hg') as P1.
      pose proof (wsum_push _ _ Gb (heap_push_Forall good _ _ Ga Hg')) as P2.
      assert (Sp : w (rB x, rE x) = w (rB x, rB y - 1) + w (rB y - 1 + 1, rE x))
        by (apply w_split; lia).
      replace (rB y - 1 + 1) with (rB y) in Sp by lia.
      pose proof (w_split (rB y) (rE y) (rE x) Hwy Hc2) as Sp2.
      destruct x as [xb xe], y as [yb ye]; unfold rB, rE in *; simpl in *. lia.
  Qed.

  Lemma fuel_enough_gen : forall fuel h log,
    sortedH h -> Forall good h -> wsum h < Z.of_nat fuel ->
    normalize_loop fuel h log <> NFuel.
  Proof.
    induction fuel as [|f IH]; intros h log Hs Hg Hlt.
    - pose proof (wsum_nonneg h Hg). lia.
    - rewrite normalize_loop_S. destruct (nstep h) as [| |h' calls] eqn:E; try discriminate.
      apply IH.
      + exact (proj1 (step_pres _ _ _ Hs (good_Forall_wfr h Hg) E)).
      + exact (step_good _ _ _ Hs Hg E).
      + pose proof (step_decr _ _ _ Hs Hg E). lia.
  Qed.
End Measure.

Definition rsize (r : range) : Z := rE r - rB r + 1.

Theorem normalize_terminates : forall l, Forall wfr l ->
  exists fuel, normalize_loop fuel (heap_of l) [] <> NFuel.
Proof.
  intros l Hw. exists (S (Z.to_nat (wsum rsize (heap_of l)))).
  apply (fuel_enough_gen rsize wfr).
  - auto.
  - intros r H. unfold rsize, wfr in *. lia.
  - intros b m e _ _. unfold rsize, rB, rE; simpl. lia.
  - intros x y b e _ _ _ _ H. exact H.
  - apply heap_of_sorted.
  - apply heap_of_Forall; auto.
  - lia.
Qed.

Print Assumptions normalize_terminates.

(* ------------------------------------------------------------------ *)
(* 4c. Replaying the log: the final label set is pairwise disjoint and
       denotes the same code points *)

Lemma in_cons_eq {A} (z x : A) l : In z (x :: l) <-> z = x \/ In z l.
Proof. simpl. intuition congruence. Qed.

Lemma remove_range_In z o s : In z (remove_range o s) <-> In z s /\ z <> o.
Proof.
  induction s as [|x s IH]; simpl.
  - tauto.
  - destruct (req o x) eqn:E.
    + apply req_eq in E. subst x. rewrite IH. intuition congruence.
    + apply req_neq in E. simpl. rewrite IH. intuition congruence.
Qed.

Lemma add_range_In z x s : In z (add_range x s) <-> z = x \/ In z s.
Proof.
  unfold add_range. destruct (existsb (req x) s) eqn:E.
  - apply existsb_exists in E as (y & Hy & Hr). apply req_eq in Hr. subst y.
    intuition congruence.
  - rewrite in_app_iff. simpl. intuition congruence.
Qed.

Lemma replay_call_In z s o a b c :
  In z (replay_call s (o, a, b, c)) <-> (In z s /\ z <> o) \/ z = a \/ z = b \/ z = c.
Proof.
  unfold replay_call. destruct (req c b) eqn:E.
  - apply req_eq in E. subst c. rewrite !add_range_In, remove_range_In. tauto.
  - rewrite !add_range_In, remove_range_In. tauto.
Qed.

Lemma call_step S dropped h h' o a b c :
  (forall z, In z S <-> In z dropped \/ In z h) ->
  In o h -> ~ In o dropped ->
  (forall x, inr x o <-> inr x a \/ inr x b \/ inr x c) ->
  (forall z, In z h' <-> (In z h /\ z <> o) \/ z = a \/ z = b \/ z = c) ->
  (forall z, In z (replay_call S (o, a, b, c)) <-> In z dropped \/ In z h') /\
  (forall x, inrs x (replay_call S (o, a, b, c)) <-> inrs x S).
Proof.
  intros HS Ho Hnd Hden Hh'. split.
  - intros z. rewrite replay_call_In, HS, Hh'.
    assert (In z dropped -> z <> o) by (intros Hd ->; contradiction). tauto.
  - intros x. unfold inrs. split.
    + intros (r & Hr & Hx). apply replay_call_In in Hr. destruct Hr as [[Hr _]|Hr].
      * exists r; auto.
      * exists o. split; [apply HS; auto|]. apply Hden.
        destruct Hr as [->|[->| ->]]; auto.
    + intros (r & Hr & Hx). destruct (range_eq_dec r o) as [->|Hne].
      * apply Hden in Hx.
        destruct Hx as [Hx|[Hx|Hx]]; [exists a|exists b|exists c]; split; auto;
          apply replay_call_In; auto.
      * exists r. split; auto. apply replay_call_In. auto.
Qed.

Definition I1 (h0 h : list range) (log : list ncall) : Prop :=
  sortedH h /\ Forall wfr h /\
  exists dropped,
    (forall z, In z (replay h0 log) <-> In z dropped \/ In z h) /\
    (forall p q, In p dropped -> In q dropped ->
       p = q \/ forall x, ~ (inr x p /\ inr x q)) /\
    (forall d z, In d dropped -> In z h -> rE d < rB z) /\
    Forall wfr dropped /\
    (forall x, inrs x (replay h0 log) <-> inrs x h0).

Lemma bef_pieces (dropped : list range) m l :
  (forall d, In d dropped -> rE d < m) ->
  (forall z, In z l -> m <= rB z) ->
  forall d z, In d dropped -> In z l -> rE d < rB z.
Proof. intros H1 H2 d z Hd Hz. specialize (H1 d Hd). specialize (H2 z Hz). lia. Qed.

Lemma I1_step h0 h log h' calls :
  I1 h0 h log -> nstep h = SNext h' calls -> I1 h0 h' (log ++ calls).
Proof.
  intros (Hs & Hw & dropped & HS & Hdd & Hbef & Hwd & Hden) Hn.
  destruct (step_pres _ _ _ Hs Hw Hn) as [Hs' Hw'].
  split; [exact Hs'|split; [exact Hw'|]]. clear Hs' Hw'.
  pose proof (step_calls _ _ _ Hs Hw Hn) as Hcalls.
  unfold replay in *. rewrite fold_left_app.
  set (S := fold_left replay_call log h0) in *. clearbody S.
  step_cases Hs Hw Hn; clear Hn;
    destruct (sortedH_inv2 _ _ _ Hs) as (S1 & S2 & Hyt & Hxt);
    assert (Hdx : forall d, In d dropped -> rE d < rB x)
      by (intros d Hd; apply Hbef; simpl; auto);
    assert (Hdy : forall d, In d dropped -> rE d < rB y)
      by (intros d Hd; apply Hbef; simpl; auto);
    assert (Hndx : ~ In x dropped)
      by (intros Hd; apply Hdx in Hd; unfold wfr in Hwx; lia);
    assert (Hndy : ~ In y dropped)
      by (intros Hd; apply Hdy in Hd; unfold wfr in Hwy; lia);
    assert (Hxney : x <> y) by (apply rltP_neq; auto);
    assert (Htx : forall z, In z t -> z <> x)
      by (intros z Hz ->; apply Hxt in Hz; eapply rltP_irrefl; eauto);
    assert (Hty : forall z, In z t -> z <> y)
      by (intros z Hz ->; apply Hyt in Hz; eapply rltP_irrefl; eauto);
    assert (Hget : forall z, In z (x :: y :: t) -> rB x <= rB z)
      by (intros z [<-|[<-|Hz]]; [lia|apply rltP_leB; auto|apply rltP_leB; auto]).
  - (* drop *)
    exists (x :: dropped). cbn [fold_left].
    split; [|split; [|split; [|split]]].
    + intros z. rewrite HS. simpl. tauto.
    + intros p q [<-|Hp] [<-|Hq]; auto.
      * right. intros c. apply Hdx in Hq. unfold inr. lia.
      * right. intros c. apply Hdx in Hp. unfold inr. lia.
    + intros d z [<-|Hd] Hz.
      * destruct Hz as [<-|Hz]; [lia|]. apply Hyt in Hz. apply rltP_leB in Hz. lia.
      * apply Hbef; simpl; auto.
    + constructor; auto.
    + exact Hden.
  - (* same begin: call (y, x, a, a) *)
    exists dropped. cbn [fold_left].
    inversion Hcalls as [|? ? Hc _]; subst. unfold callP in Hc.
    destruct Hc as (_ & _ & _ & Hcov & _).
    destruct (call_step S dropped (x :: y :: t)
                (heap_push (rE x + 1, rE y) (heap_push x t))
                y x (rE x + 1, rE y) (rE x + 1, rE y) HS) as [M D]; auto.
    { simpl; auto. }
    { intros z. specialize (Htx z). specialize (Hty z).
      rewrite !heap_push_In, !in_cons_eq. intuition congruence. }
    split; [exact M|split; [exact Hdd|split; [|split; [exact Hwd|]]]].
    + apply (bef_pieces dropped (rB x)); auto.
      intros z Hz. rewrite !heap_push_In in Hz.
      destruct Hz as [->|[->|Hz]]; [unfold rB, rE; simpl; unfold wfr, rB, rE in *; lia|lia|].
      apply Hget; simpl; auto.
    + intros c. rewrite D. apply Hden.
  - (* same end: call (x, a, y, y) *)
    exists dropped. cbn [fold_left].
    inversion Hcalls as [|? ? Hc _]; subst. unfold callP in Hc.
    destruct Hc as (_ & _ & _ & Hcov & _).
    destruct (call_step S dropped (x :: y :: t)
                (heap_push (rB x, rB y - 1) (y :: t))
                x (rB x, rB y - 1) y y HS) as [M D]; auto.
    { simpl; auto. }
    { intros z. specialize (Htx z). specialize (Hty z).
      rewrite !heap_push_In, !in_cons_eq. intuition congruence. }
    split; [exact M|split; [exact Hdd|split; [|split; [exact Hwd|]]]].
    + apply (bef_pieces dropped (rB x)); auto.
      intros z Hz. rewrite !heap_push_In in Hz.
      destruct Hz as [->|Hz]; [unfold rB; simpl; lia|].
      apply Hget; simpl; simpl in Hz; tauto.
    + intros c. rewrite D. apply Hden.
  - (* overlap: calls (x, a, b, b); (y, b, c, c) *)
    exists dropped. cbn [fold_left].
    inversion Hcalls as [|? ? Hc1' Hcalls']; subst.
    inversion Hcalls' as [|? ? Hc2' _]; subst. unfold callP in Hc1', Hc2'.
    destruct Hc1' as (_ & _ & _ & Hcov1 & _). destruct Hc2' as (_ & _ & _ & Hcov2 & _).
    destruct (call_step S dropped (x :: y :: t)
                ((rB x, rB y - 1) :: (rB y, rE x) :: y :: t)
                x (rB x, rB y - 1) (rB y, rE x) (rB y, rE x) HS) as [M1 D1]; auto.
    { simpl; auto. }
    { intros z. specialize (Htx z). specialize (Hty z).
      rewrite !in_cons_eq. intuition congruence. }
    assert (Hay : (rB x, rB y - 1) <> y).
    { intros E. apply (f_equal rB) in E. unfold rB in *; simpl in E. lia. }
    destruct (call_step _ dropped _
                (heap_push (rE x + 1, rE y)
                   (heap_push (rB y, rE x) (heap_push (rB x, rB y - 1) t)))
                y (rB y, rE x) (rE x + 1, rE y) (rE x + 1, rE y) M1) as [M2 D2]; auto.
    { simpl; auto. }
    { intros z. specialize (Htx z). specialize (Hty z).
      rewrite !heap_push_In, !in_cons_eq. intuition congruence. }
    split; [exact M2|split; [exact Hdd|split; [|split; [exact Hwd|]]]].
    + apply (bef_pieces dropped (rB x)); auto.
      intros z Hz. rewrite !heap_push_In in Hz.
      destruct Hz as [->|[->|[->|Hz]]];
        try (unfold rB, rE; simpl; unfold wfr, rB, rE in *; lia).
      apply Hget; simpl; auto.
    + intros c. rewrite D2, D1. apply Hden.
  - (* y strictly inside x: call (x, a, y, b) *)
    exists dropped. cbn [fold_left].
    inversion Hcalls as [|? ? Hc _]; subst. unfold callP in Hc.
    destruct Hc as (_ & _ & _ & Hcov & _).
    destruct (call_step S dropped (x :: y :: t)
                (heap_push (rE y + 1, rE x) (heap_push (rB x, rB y - 1) (y :: t)))
                x (rB x, rB y - 1) y (rE y + 1, rE x) HS) as [M D]; auto.
    { simpl; auto. }
    { intros z. specialize (Htx z). specialize (Hty z).
      rewrite !heap_push_In, !in_cons_eq. intuition congruence. }
    split; [exact M|split; [exact Hdd|split; [|split; [exact Hwd|]]]].
    + apply (bef_pieces dropped (rB x)); auto.
      intros z Hz. rewrite !heap_push_In in Hz.
      destruct Hz as [->|[->|Hz]];
        try (unfold rB, rE; simpl; unfold wfr, rltP, rB, rE in *; lia).
      apply Hget; simpl; simpl in Hz; tauto.
    + intros c. rewrite D. apply Hden.
Qed.

Lemma I1_no_panic h0 h log : I1 h0 h log -> nstep h <> SPanic.
Proof. intros (Hs & _). apply nstep_no_panic; auto. Qed.

Lemma I1_init l : Forall wfr l -> I1 (heap_of l) (heap_of l) (rev []).
Proof.
  intros H. split; [apply heap_of_sorted|split; [apply heap_of_Forall; auto|]].
  exists []. simpl. split; [|split; [|split; [|split]]].
  - intros z; tauto.
  - intros p q [].
  - intros d z [].
  - constructor.
  - intros x; tauto.
Qed.

Theorem normalize_final_disjoint : forall l log, Forall wfr l -> normalize l = NDone log ->
  let final := replay (heap_of l) log in
  (forall p q, In p final -> In q final -> p = q \/ (forall x, ~ (inr x p /\ inr x q))) /\
  (forall x, inrs x final <-> inrs x l).
Proof.
  intros l log Hwl Hn final. subst final.
  pose proof (loop_invariant (I1 (heap_of l)) (I1_step (heap_of l)) (I1_no_panic (heap_of l))
                (normalize_fuel l) (heap_of l) [] (I1_init l Hwl)) as H.
  unfold normalize in Hn. rewrite Hn in H.
  destruct H as (hf & (Hs & Hw & dropped & HS & Hdd & Hbef & Hwd & Hden) & Hdone).
  split.
  - intros p q Hp Hq. apply HS in Hp. apply HS in Hq.
    destruct Hp as [Hp|Hp], Hq as [Hq|Hq].
    + apply Hdd; auto.
    + right. intros c. specialize (Hbef p q Hp Hq). unfold inr. lia.
    + right. intros c. specialize (Hbef q p Hq Hp). unfold inr. lia.
    + apply nstep_done in Hdone. destruct Hdone as [->|(z & ->)].
      * destruct Hp.
      * left. destruct Hp as [<-|[]]. destruct Hq as [<-|[]]. reflexivity.
  - intros x. rewrite Hden. apply inrs_ext. intros z. apply heap_of_In.
Qed.

Print Assumptions normalize_final_disjoint.

(* ------------------------------------------------------------------ *)
(* 4d. The concrete fuel bound of the model suffices: weight a range by the
       number of input endpoints (B and E+1 of input ranges) it covers. *)

Definition pts (l : list range) : list Z := flat_map (fun r => [rB r; rE r + 1]) l.

Fixpoint cntf (P : list Z) (b e : Z) : Z :=
  match P with
  | [] => 0
  | p :: P' => (if (b <=? p) && (p <=? e) then 1 else 0) + cntf P' b e
  end.
Definition cnt (P : list Z) (r : range) : Z := cntf P (rB r) (rE r).
Definition goodP (P : list Z) (r : range) : Prop :=
  wfr r /\ In (rB r) P /\ In (rE r + 1) P.

Lemma cntf_nonneg P b e : 0 <= cntf P b e.
Proof. induction P as [|p P IH]; simpl; [lia|]. destruct ((b <=? p) && (p <=? e)); lia. Qed.

Lemma cntf_le_len P b e : cntf P b e <= Z.of_nat (length P).
Proof.
  induction P as [|p P IH]; [simpl; lia|].
  cbn [cntf length]. rewrite Nat2Z.inj_succ. destruct ((b <=? p) && (p <=? e)); lia.
Qed.

Lemma cntf_split P b m e : b <= m -> m < e -> cntf P b e = cntf P b m + cntf P (m + 1) e.
Proof.
  intros H1 H2. induction P as [|p P IH]; simpl; [lia|].
  destruct ((b <=? p) && (p <=? e)) eqn:E1; destruct ((b <=? p) && (p <=? m)) eqn:E2;
    destruct ((m + 1 <=? p) && (p <=? e)) eqn:E3; lia.
Qed.

Lemma cntf_pos P b e : In b P -> b <= e -> 1 <= cntf P b e.
Proof.
  intros Hin Hle. induction P as [|p P IH]; [destruct Hin|].
  simpl. pose proof (cntf_nonneg P b e). destruct Hin as [->|Hin].
  - destruct ((b <=? b) && (b <=? e)) eqn:E; lia.
  - specialize (IH Hin). destruct ((b <=? p) && (p <=? e)); lia.
Qed.

Lemma pts_length l : length (pts l) = (2 * length l)%nat.
Proof. unfold pts. induction l as [|r l IH]; simpl in *; lia. Qed.

Lemma pts_good l r : wfr r -> In r l -> goodP (pts l) r.
Proof.
  intros Hw Hin. split; [exact Hw|]. unfold pts.
  split; apply in_flat_map; exists r; simpl; auto.
Qed.

Lemma wsum_cnt_bound P h : wsum (cnt P) h <= Z.of_nat (length h) * Z.of_nat (length P).
Proof.
  induction h as [|r t IH]; [simpl; lia|].
  cbn [wsum length]. rewrite Nat2Z.inj_succ.
  pose proof (cntf_le_len P (rB r) (rE r)) as Hc. unfold cnt at 1.
  rewrite Z.mul_succ_l. lia.
Qed.

Theorem normalize_fuel_enough : forall l, Forall wfr l -> normalize l <> NFuel.
Proof.
  intros l Hw. unfold normalize.
  apply (fuel_enough_gen (cnt (pts l)) (goodP (pts l))).
  - intros r (H & _). exact H.
  - intros r (H & Hb & _). apply cntf_pos; auto.
  - intros b m e H1 H2. unfold cnt, rB, rE; simpl. apply cntf_split; auto.
  - intros x y b e (Wx & Bx & Ex) (Wy & By & Ey) Hb He Hle.
    split; [exact Hle|]. unfold rB, rE; simpl. split.
    + destruct Hb as [->|[->|[->| ->]]]; assumption.
    + destruct He as [->|[->| ->]]; try assumption.
      replace (rB y - 1 + 1) with (rB y) by lia. assumption.
  - apply heap_of_sorted.
  - apply heap_of_Forall. rewrite Forall_forall in *. intros r Hr.
    apply pts_good; auto.
  - pose proof (wsum_cnt_bound (pts l) (heap_of l)) as Hb.
    rewrite pts_length in Hb. pose proof (heap_of_length l) as Hl.
    unfold normalize_fuel. nia.
Qed.

Print Assumptions normalize_fuel_enough.
