(* Proofs about rang3.Subtract (T6-T8). *)
From Coq Require Import List ZArith Lia Bool Sorting.Sorted Sorting.Permutation ZifyBool.
From Lox Require Import Rang3.RangeModel Rang3.RangeProofs.
Import ListNotations.
Open Scope Z_scope.

Definition dbefore (x y : range) : Prop := rE y < rB x.

(* unfolding lemmas for the loop *)
Definition refill (f : nat) (r a b : list range) : option (list range) :=
  match a with
  | [] => Some (rev r ++ a)
  | x :: a' => subtract_loop f (x :: r) a' b
  end.

Lemma sl_nil_b f r a : subtract_loop (S f) r a [] = Some (rev r ++ a).
Proof. reflexivity. Qed.

Lemma sl_nil_r f a eb b' : subtract_loop (S f) [] a (eb :: b') = refill f [] a (eb :: b').
Proof. reflexivity. Qed.

Lemma sl_cons f ea r' a eb b' :
  subtract_loop (S f) (ea :: r') a (eb :: b') =
  if rE ea <? rB eb then refill f (ea :: r') a (eb :: b')
  else if rB ea >? rE eb then subtract_loop f (ea :: r') a b'
  else if (rB ea >=? rB eb) && (rE ea <=? rE eb) then subtract_loop f r' a (eb :: b')
  else if (rB ea <? rB eb) && (rE ea >? rE eb) then
    subtract_loop f ((rB eb + 1, rE ea) :: (rB ea, rB eb - 1) :: r') a (eb :: b')
  else if (rB ea <? rB eb) && (rE ea <=? rE eb) then
    subtract_loop f ((rB ea, rB eb - 1) :: r') a (eb :: b')
  else subtract_loop f ((rE eb + 1, rE ea) :: r') a (eb :: b').
Proof. reflexivity. Qed.

(* termination weight *)
Definition wgt (r b : list range) : nat :=
  match r, b with
  | ea :: _, eb :: _ =>
    if rE ea <? rB eb then 0%nat
    else if rB ea >? rE eb then 1%nat
    else if rB ea >=? rB eb then 2%nat
    else 3%nat
  | _, _ => 0%nat
  end.

Lemma wgt_cases ea r' eb b' :
  (rE ea < rB eb /\ wgt (ea :: r') (eb :: b') = 0%nat) \/
  (rE ea >= rB eb /\ rB ea > rE eb /\ wgt (ea :: r') (eb :: b') = 1%nat) \/
  (rE ea >= rB eb /\ rB ea <= rE eb /\ rB ea >= rB eb /\ wgt (ea :: r') (eb :: b') = 2%nat) \/
  (rE ea >= rB eb /\ rB ea <= rE eb /\ rB ea < rB eb /\ wgt (ea :: r') (eb :: b') = 3%nat).
Proof.
  unfold wgt.
  destruct (rE ea <? rB eb) eqn:C1; [left; split; [lia|reflexivity]|].
  destruct (rB ea >? rE eb) eqn:C2; [right; left; repeat split; try lia|].
  destruct (rB ea >=? rB eb) eqn:C3; [right; right; left; repeat split; try lia|].
  right; right; right; repeat split; try lia.
Qed.

Lemma wgt_le3 r b : (wgt r b <= 3)%nat.
Proof.
  destruct r as [|ea r']; [simpl; lia|]. destruct b as [|eb b']; [simpl; lia|].
  destruct (wgt_cases ea r' eb b') as [H|[H|[H|H]]]; lia.
Qed.

Lemma wgt_nil_r b : wgt [] b = 0%nat.
Proof. reflexivity. Qed.

(* the loop invariant *)
Record Inv (r a b : list range) : Prop := mkInv {
  inv_r : StronglySorted dbefore r;
  inv_a : StronglySorted before a;
  inv_b : StronglySorted before b;
  inv_wr : Forall wfr r;
  inv_wa : Forall wfr a;
  inv_wb : Forall wfr b;
  inv_ra : forall x y, In x r -> In y a -> before x y;
  inv_nt : forall x y, In x (tl r) -> In y b -> before x y
}.

Lemma all_before t eb b' :
  before t eb -> StronglySorted before (eb :: b') -> Forall wfr (eb :: b') ->
  forall y, In y (eb :: b') -> before t y.
Proof.
  intros Ht Hs Hw y [<-|Hy]; auto.
  inversion Hs as [|? ? _ Hall]; subst. inversion Hw as [|? ? Hweb _]; subst.
  rewrite Forall_forall in Hall. specialize (Hall _ Hy).
  unfold before, wfr in *. lia.
Qed.

Lemma before_disj c r b :
  (forall x y, In x r -> In y b -> before x y) -> inrs c r -> inrs c b -> False.
Proof.
  intros H (x&Hx&Hcx) (y&Hy&Hcy). specialize (H _ _ Hx Hy).
  unfold before, inr in *. lia.
Qed.

Lemma final_ok r a b : Inv r a b ->
  StronglySorted before (rev r ++ a) /\ Forall wfr (rev r ++ a).
Proof.
  intros I. split.
  - apply SS_app.
    + apply SS_rev. exact (inv_r _ _ _ I).
    + exact (inv_a _ _ _ I).
    + intros x y Hx Hy. apply in_rev in Hx. exact (inv_ra _ _ _ I x y Hx Hy).
  - apply Forall_app; split.
    + apply Forall_rev. exact (inv_wr _ _ _ I).
    + exact (inv_wa _ _ _ I).
Qed.

Definition spec (res r a b : list range) : Prop :=
  (forall c, inrs c res <-> (inrs c r \/ inrs c a) /\ ~ inrs c b) /\
  StronglySorted before res /\ Forall wfr res.

Lemma spec_change res r a b r2 a2 b2 :
  spec res r2 a2 b2 ->
  (forall c, (inrs c r2 \/ inrs c a2) /\ ~ inrs c b2 <-> (inrs c r \/ inrs c a) /\ ~ inrs c b) ->
  spec res r a b.
Proof.
  intros (H1&H2&H3) Hq. split; [|split]; auto.
  intros c. rewrite H1. apply Hq.
Qed.

(* all elements of the stack lie before all of b when the top does *)
Lemma stack_before_b r a eb b' :
  Inv r a (eb :: b') ->
  match r with [] => True | ea :: _ => rE ea < rB eb end ->
  forall x y, In x r -> In y (eb :: b') -> before x y.
Proof.
  intros I Htop x y Hx Hy. destruct r as [|ea r']; [destruct Hx|].
  destruct Hx as [<-|Hx].
  - eapply all_before; eauto. exact (inv_b _ _ _ I). exact (inv_wb _ _ _ I).
  - apply (inv_nt _ _ _ I); auto.
Qed.

Lemma refill_ok f r a eb b' :
  (forall r a b, Inv r a b -> (4 * length a + 4 * length b + wgt r b < f)%nat ->
     exists res, subtract_loop f r a b = Some res /\ spec res r a b) ->
  Inv r a (eb :: b') ->
  match r with [] => True | ea :: _ => rE ea < rB eb end ->
  (4 * length a + 4 * length (eb :: b') < S f)%nat ->
  exists res, refill f r a (eb :: b') = Some res /\ spec res r a (eb :: b').
Proof.
  intros IH I Htop Hm.
  pose proof (stack_before_b _ _ _ _ I Htop) as Hrb.
  destruct a as [|x a']; simpl refill.
  - eexists; split; [reflexivity|]. destruct (final_ok _ _ _ I) as [F1 F2].
    split; [|split]; auto.
    intros c. rewrite inrs_app, inrs_rev, (inrs_nil_iff c).
    pose proof (before_disj c r (eb :: b') Hrb). tauto.
  - pose proof (inv_a _ _ _ I) as Ha. inversion Ha as [|? ? Ha' Hall]; subst.
    pose proof (inv_wa _ _ _ I) as Hwa. inversion Hwa as [|? ? Hwx Hwa']; subst.
    rewrite Forall_forall in Hall.
    destruct (IH (x :: r) a' (eb :: b')) as (res & Hres & Hspec).
    + constructor; auto.
      * constructor; [exact (inv_r _ _ _ I)|].
        apply Forall_forall. intros y Hy. unfold dbefore.
        apply (inv_ra _ _ _ I y x Hy). left; auto.
      * exact (inv_b _ _ _ I).
      * constructor; auto. exact (inv_wr _ _ _ I).
      * exact (inv_wb _ _ _ I).
      * intros x0 y [<-|Hx0] Hy; [apply Hall; auto|].
        apply (inv_ra _ _ _ I); auto. right; auto.
    + pose proof (wgt_le3 (x :: r) (eb :: b')). simpl length in *. lia.
    + exists res; split; auto. eapply spec_change; [exact Hspec|].
      intros c. rewrite !inrs_cons. tauto.
Qed.

Lemma subtract_loop_inv : forall fuel r a b,
  Inv r a b -> (4 * length a + 4 * length b + wgt r b < fuel)%nat ->
  exists res, subtract_loop fuel r a b = Some res /\ spec res r a b.
Proof.
  induction fuel as [|f IH]; intros r a b I Hm; [lia|].
  destruct b as [|eb b'].
  - rewrite sl_nil_b. eexists; split; [reflexivity|].
    destruct (final_ok _ _ _ I) as [F1 F2]. split; [|split]; auto.
    intros c. rewrite inrs_app, inrs_rev, (inrs_nil_iff c). tauto.
  - destruct r as [|ea r'].
    + rewrite sl_nil_r. apply refill_ok; auto. rewrite wgt_nil_r in Hm. lia.
    + rewrite sl_cons.
      pose proof (inv_r _ _ _ I) as Hr. inversion Hr as [|? ? Hr' Hrall]; subst.
      pose proof (inv_wr _ _ _ I) as Hwr. inversion Hwr as [|? ? Hwea Hwr']; subst.
      pose proof (inv_b _ _ _ I) as Hb. inversion Hb as [|? ? Hb' Hball]; subst.
      pose proof (inv_wb _ _ _ I) as Hwb. inversion Hwb as [|? ? Hweb Hwb']; subst.
      pose proof (inv_ra _ _ _ I) as Hra.
      pose proof (inv_nt _ _ _ I) as Hnt. simpl tl in Hnt.
      rewrite Forall_forall in Hrall, Hball.
      assert (Hr'eb : forall y, In y r' -> rE y < rB eb).
      { intros y Hy. apply (Hnt y eb Hy). left; auto. }
      assert (Hwgt0 : (wgt r' (eb :: b') = 0)%nat).
      { destruct r' as [|t r'']; [reflexivity|].
        destruct (wgt_cases t r'' eb b') as [H|[H|[H|H]]]; try lia.
        all: specialize (Hr'eb t (or_introl eq_refl)); lia. }
      destruct (wgt_cases ea r' eb b') as [W|[W|[W|W]]].
      * (* top before eb: refill *)
        destruct (rE ea <? rB eb) eqn:C1; [|lia].
        apply refill_ok; auto. lia. simpl length in *. lia.
      * (* top after eb: drop eb *)
        destruct (rE ea <? rB eb) eqn:C1; [lia|].
        destruct (rB ea >? rE eb) eqn:C2; [|lia].
        destruct (IH (ea :: r') a b') as (res & Hres & Hspec).
        -- constructor; auto; try exact (inv_a _ _ _ I); try exact (inv_wa _ _ _ I).
           intros x y Hx Hy. apply Hnt; auto. right; auto.
        -- pose proof (wgt_le3 (ea :: r') b'). simpl length in *. lia.
        -- exists res; split; auto. eapply spec_change; [exact Hspec|].
           intros c. rewrite !inrs_cons.
           assert (Hno : inr c eb -> (inr c ea \/ inrs c r') \/ inrs c a -> False).
           { intros Heb [[Hc|(x&Hx&Hc)]|(x&Hx&Hc)].
             - unfold inr in *. lia.
             - specialize (Hr'eb x Hx). unfold inr in *. lia.
             - specialize (Hra ea x (or_introl eq_refl) Hx). unfold before, inr, wfr in *. lia. }
           tauto.
      * (* rB ea >= rB eb *)
        destruct (rE ea <? rB eb) eqn:C1; [lia|].
        destruct (rB ea >? rE eb) eqn:C2; [lia|].
        destruct ((rB ea >=? rB eb) && (rE ea <=? rE eb)) eqn:C3.
        -- (* ea inside eb: pop *)
           destruct (IH r' a (eb :: b')) as (res & Hres & Hspec).
           ++ constructor; auto; try exact (inv_a _ _ _ I); try exact (inv_wa _ _ _ I).
              ** intros x y Hx Hy. apply Hra; auto. right; auto.
              ** intros x y Hx Hy. apply Hnt; auto. destruct r'; [destruct Hx|right; exact Hx].
           ++ simpl length in *. lia.
           ++ exists res; split; auto. eapply spec_change; [exact Hspec|].
              intros c. rewrite !inrs_cons.
              assert (Hsub : inr c ea -> inr c eb) by (unfold inr; lia).
              tauto.
        -- destruct ((rB ea <? rB eb) && (rE ea >? rE eb)) eqn:C4; [lia|].
           destruct ((rB ea <? rB eb) && (rE ea <=? rE eb)) eqn:C5; [lia|].
           (* ea.B >= eb.B, ea.E > eb.E *)
           destruct (IH ((rE eb + 1, rE ea) :: r') a (eb :: b')) as (res & Hres & Hspec).
           ++ constructor; auto; try exact (inv_a _ _ _ I); try exact (inv_wa _ _ _ I).
              ** constructor; auto. apply Forall_forall. intros y Hy.
                 specialize (Hr'eb y Hy). unfold dbefore, wfr, rB, rE in *; simpl. lia.
              ** constructor; auto. unfold wfr, rB, rE in *; simpl; lia.
              ** intros x y [<-|Hx] Hy.
                 --- specialize (Hra ea y (or_introl eq_refl) Hy).
                     unfold before, rB, rE in *; simpl; lia.
                 --- apply Hra; auto. right; auto.
           ++ destruct (wgt_cases (rE eb + 1, rE ea) r' eb b') as [H|[H|[H|H]]];
                unfold rB, rE in *; simpl in *; lia.
           ++ exists res; split; auto. eapply spec_change; [exact Hspec|].
              intros c. rewrite !inrs_cons.
              assert (Hq : inr c (rE eb + 1, rE ea) /\ ~ inr c eb <-> inr c ea /\ ~ inr c eb).
              { unfold inr, wfr, rB, rE in *; simpl. lia. }
              tauto.
      * (* rB ea < rB eb *)
        destruct (rE ea <? rB eb) eqn:C1; [lia|].
        destruct (rB ea >? rE eb) eqn:C2; [lia|].
        destruct ((rB ea >=? rB eb) && (rE ea <=? rE eb)) eqn:C3; [lia|].
        destruct ((rB ea <? rB eb) && (rE ea >? rE eb)) eqn:C4.
        -- (* ea strictly contains eb *)
           destruct (IH ((rB eb + 1, rE ea) :: (rB ea, rB eb - 1) :: r') a (eb :: b'))
             as (res & Hres & Hspec).
           ++ constructor; auto; try exact (inv_a _ _ _ I); try exact (inv_wa _ _ _ I).
              ** constructor; [constructor; auto|].
                 --- apply Forall_forall. intros y Hy. specialize (Hrall y Hy).
                     unfold dbefore, rB, rE in *; simpl; lia.
                 --- constructor; [unfold dbefore, rB, rE; simpl; lia|].
                     apply Forall_forall. intros y Hy. specialize (Hrall y Hy).
                     unfold dbefore, rB, rE in *; simpl; lia.
              ** constructor; [|constructor; auto]; unfold wfr, rB, rE in *; simpl; lia.
              ** intros x y [<-|[<-|Hx]] Hy.
                 --- specialize (Hra ea y (or_introl eq_refl) Hy).
                     unfold before, rB, rE in *; simpl; lia.
                 --- specialize (Hra ea y (or_introl eq_refl) Hy).
                     unfold before, wfr, rB, rE in *; simpl; lia.
                 --- apply Hra; auto. right; auto.
              ** simpl tl. intros x y [<-|Hx] Hy.
                 --- eapply all_before; eauto. unfold before, rB, rE; simpl; lia.
                 --- apply Hnt; auto.
           ++ destruct (wgt_cases (rB eb + 1, rE ea) ((rB ea, rB eb - 1) :: r') eb b')
                as [H|[H|[H|H]]]; unfold rB, rE in *; simpl in *; lia.
           ++ exists res; split; auto. eapply spec_change; [exact Hspec|].
              intros c. rewrite !inrs_cons.
              assert (Hq : (inr c (rB eb + 1, rE ea) \/ inr c (rB ea, rB eb - 1)) /\ ~ inr c eb
                           <-> inr c ea /\ ~ inr c eb).
              { unfold inr, wfr, rB, rE in *; simpl. lia. }
              tauto.
        -- destruct ((rB ea <? rB eb) && (rE ea <=? rE eb)) eqn:C5; [|lia].
           destruct (IH ((rB ea, rB eb - 1) :: r') a (eb :: b')) as (res & Hres & Hspec).
           ++ constructor; auto; try exact (inv_a _ _ _ I); try exact (inv_wa _ _ _ I).
              ** constructor; auto. apply Forall_forall. intros y Hy. specialize (Hrall y Hy).
                 unfold dbefore, rB, rE in *; simpl; lia.
              ** constructor; auto. unfold wfr, rB, rE in *; simpl; lia.
              ** intros x y [<-|Hx] Hy.
                 --- specialize (Hra ea y (or_introl eq_refl) Hy).
                     unfold before, wfr, rB, rE in *; simpl; lia.
                 --- apply Hra; auto. right; auto.
           ++ destruct (wgt_cases (rB ea, rB eb - 1) r' eb b') as [H|[H|[H|H]]];
                unfold rB, rE in *; simpl in *; lia.
           ++ exists res; split; auto. eapply spec_change; [exact Hspec|].
              intros c. rewrite !inrs_cons.
              assert (Hq : inr c (rB ea, rB eb - 1) /\ ~ inr c eb <-> inr c ea /\ ~ inr c eb).
              { unfold inr, wfr, rB, rE in *; simpl. lia. }
              tauto.
Qed.

(* sortedness + disjointness prerequisites that canon provides *)
Lemma Inv_init a b :
  StronglySorted before a -> StronglySorted before b -> Forall wfr a -> Forall wfr b ->
  Inv [] a b.
Proof.
  intros. constructor; auto; try constructor; intros x y [].
Qed.

Lemma subtract_loop_sorted_inputs a0 b0 :
  StronglySorted before a0 -> StronglySorted before b0 -> Forall wfr a0 -> Forall wfr b0 ->
  exists r, subtract_loop (subtract_fuel a0 b0) [] a0 b0 = Some r /\
    (forall c, inrs c r <-> inrs c a0 /\ ~ inrs c b0) /\
    StronglySorted (fun x y => rE x < rB y) r /\ Forall wfr r.
Proof.
  intros Ha Hb Hwa Hwb.
  destruct (subtract_loop_inv (subtract_fuel a0 b0) [] a0 b0 (Inv_init _ _ Ha Hb Hwa Hwb))
    as (res & Hres & H1 & H2 & H3).
  - unfold subtract_fuel. rewrite wgt_nil_r. lia.
  - exists res; split; auto. split; [|split]; auto.
    intros c. rewrite H1, (inrs_nil_iff c). tauto.
Qed.

Theorem subtract_loop_spec : forall a0 b0, canon a0 -> canon b0 ->
  exists r, subtract_loop (subtract_fuel a0 b0) [] a0 b0 = Some r /\
    (forall c, inrs c r <-> inrs c a0 /\ ~ inrs c b0) /\
    StronglySorted (fun x y => rE x < rB y) r /\ Forall wfr r.
Proof.
  intros a0 b0 Ha Hb. apply subtract_loop_sorted_inputs;
    auto using canon_before, canon_wf.
Qed.

(* subtract, all facts at once *)
Lemma subtract_full : forall a b, Forall wfr a -> Forall wfr b ->
  exists r, subtract a b = Some r /\
    (forall c, inrs c r <-> inrs c a /\ ~ inrs c b) /\
    Forall wfr r /\
    (canon a -> StronglySorted (fun x y => rE x < rB y) r).
Proof.
  intros a b Hwa Hwb.
  destruct a as [|x a]; [|destruct b as [|y b]].
  - exists []. split; [destruct b; reflexivity|]. split; [|split].
    + intros c. rewrite (inrs_nil_iff c). tauto.
    + constructor.
    + intros _. constructor.
  - exists (x :: a). split; [reflexivity|]. split; [|split]; auto.
    + intros c. rewrite (inrs_nil_iff c). tauto.
    + apply canon_before.
  - unfold subtract.
    destruct (subtract_loop_spec (flatten (x :: a)) (flatten (y :: b)))
      as (r & Hr & H1 & H2 & H3); auto using flatten_canon.
    exists r. split; [exact Hr|]. split; [|split]; auto.
    intros c. rewrite H1, !flatten_denotes; auto. tauto.
Qed.

Theorem subtract_denotes : forall a b, Forall wfr a -> Forall wfr b ->
  exists r, subtract a b = Some r /\ (forall c, inrs c r <-> inrs c a /\ ~ inrs c b).
Proof.
  intros a b Ha Hb. destruct (subtract_full a b Ha Hb) as (r & H1 & H2 & _).
  exists r; auto.
Qed.

Theorem subtract_sorted : forall a b r, canon a -> Forall wfr b -> subtract a b = Some r ->
  StronglySorted (fun x y => rE x < rB y) r /\ Forall wfr r.
Proof.
  intros a b r Ha Hb Hr.
  destruct (subtract_full a b (canon_wf _ Ha) Hb) as (r' & H1 & H2 & H3 & H4).
  rewrite H1 in Hr. inversion Hr; subst. split; auto.
Qed.

Print Assumptions subtract_loop_spec.
Print Assumptions subtract_denotes.
Print Assumptions subtract_sorted.
