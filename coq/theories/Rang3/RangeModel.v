(* Executable mirror of internal/lexergen/rang3 (range.go, range_heap.go).
   No proofs here: this file must keep compiling (and extracting) when a proof
   elsewhere breaks.  Code points are unbounded Z; Go's rune is int32 and every
   value the generator handles lies in 0..0x10FFFF, so no wrap-around occurs
   (eb.B+1, y.E+1 <= 0x110000). *)
From Coq Require Import List ZArith Bool.
Import ListNotations.
Open Scope Z_scope.

Definition range := (Z * Z)%type.
Definition rB (r : range) : Z := fst r.
Definition rE (r : range) : Z := snd r.

Definition max_rune : Z := 1114111. (* 0x10FFFF *)

(* Range.Contains / Intersects / Touches *)
Definition contains (r o : range) : bool := (rB r <=? rB o) && (rE r >=? rE o).

Definition intersects (r o : range) : bool :=
  let '(a, b) := if rB r >? rB o then (o, r) else (r, o) in
  rB b <=? rE a.

Definition touches (r o : range) : bool :=
  let '(a, b) := if rB r >? rB o then (o, r) else (r, o) in
  (rB b <=? rE a) || (rB b - 1 =? rE a).

(* rang3.Compare as a strict "less" and an equality test *)
Definition rlt (a b : range) : bool :=
  (rB a <? rB b) || ((rB a =? rB b) && (rE a <? rE b)).
Definition req (a b : range) : bool := (rB a =? rB b) && (rE a =? rE b).

(* slices.SortFunc(ranges, Compare): any correct sort by a total order gives
   the same list; insertion sort is the model. *)
Fixpoint insert_sorted (x : range) (l : list range) : list range :=
  match l with
  | [] => [x]
  | y :: l' => if rlt y x then y :: insert_sorted x l' else x :: l
  end.
Definition sort_ranges (l : list range) : list range :=
  fold_right insert_sorted [] l.

(* The merge pass of Flatten over the sorted slice.  acc is ranges2 (top
   first); log collects the onChange calls (oa, ob, n) in call order
   (most recent first, reversed at the end). *)
Fixpoint merge_pass (acc : list range) (log : list (range * range * range))
         (l : list range) : list range * list (range * range * range) :=
  match l with
  | [] => (rev acc, rev log)
  | r :: l' =>
    match acc with
    | tip :: acc' =>
      if touches tip r
      then let n := (Z.min (rB tip) (rB r), Z.max (rE tip) (rE r)) in
           merge_pass (n :: acc') ((tip, r, n) :: log) l'
      else merge_pass (r :: acc) log l'
    | [] => merge_pass [r] log l'
    end
  end.

(* Flatten.  The second sort.Slice in the Go code orders by B only (for
   well-formed ranges its less(i,j) is B_i < B_j) and is handed an already
   (B,E)-sorted slice, which pdqsort leaves untouched; the theorems are stated
   for every B-sorted permutation, so they do not depend on that. *)
Definition flatten_log (l : list range) := merge_pass [] [] (sort_ranges l).
Definition flatten (l : list range) : list range := fst (flatten_log l).

(* Subtract.  r is the result stack, top first. *)
Fixpoint subtract_loop (fuel : nat) (r a b : list range) : option (list range) :=
  match fuel with
  | O => None
  | S f =>
    match b with
    | [] => Some (rev r ++ a)
    | eb :: b' =>
      let refill :=
        match a with
        | [] => Some (rev r ++ a)
        | x :: a' => subtract_loop f (x :: r) a' b
        end in
      match r with
      | [] => refill
      | ea :: r' =>
        if rE ea <? rB eb then refill
        else if rB ea >? rE eb then subtract_loop f r a b'
        else if (rB ea >=? rB eb) && (rE ea <=? rE eb) then subtract_loop f r' a b
        else if (rB ea <? rB eb) && (rE ea >? rE eb) then
          subtract_loop f ((rB eb + 1, rE ea) :: (rB ea, rB eb - 1) :: r') a b
        else if (rB ea <? rB eb) && (rE ea <=? rE eb) then
          subtract_loop f ((rB ea, rB eb - 1) :: r') a b
        else (* ea.B >= eb.B && ea.E > eb.E *)
          subtract_loop f ((rE eb + 1, rE ea) :: r') a b
      end
    end
  end.

Definition subtract_fuel (a b : list range) : nat := (4 * length a + 4 * length b + 8)%nat.

Definition subtract (a b : list range) : option (list range) :=
  match a, b with
  | [], _ => Some a
  | _, [] => Some a
  | _, _ =>
    let a' := flatten a in
    let b' := flatten b in
    subtract_loop (subtract_fuel a' b') [] a' b'
  end.

(* Normalize.  The rangeHeap (binary heap + membership set) is observed only
   through Pop = remove minimum, Peek = minimum, Push = insert unless present,
   so a strictly sorted list is an exact model. *)
Fixpoint heap_push (x : range) (h : list range) : list range :=
  match h with
  | [] => [x]
  | y :: h' =>
    if req x y then h
    else if rlt x y then x :: h
    else y :: heap_push x h'
  end.

Definition heap_of (l : list range) : list range := fold_left (fun h x => heap_push x h) l [].

Definition ncall := (range * range * range * range)%type. (* onChange(o, a, b, c) *)

Inductive nresult :=
| NDone (log : list ncall)
| NPanic (log : list ncall)     (* the "not reached" default branch *)
| NFuel.

Fixpoint normalize_loop (fuel : nat) (h : list range) (log : list ncall) : nresult :=
  match fuel with
  | O => NFuel
  | S f =>
    match h with
    | x :: ((y :: h') as rest) =>
      if req x y then normalize_loop f rest log
      else if negb (intersects x y) then normalize_loop f rest log
      else if (rB x =? rB y) && (rE x <? rE y) then
        let a := (rE x + 1, rE y) in
        normalize_loop f (heap_push a (heap_push x h')) ((y, x, a, a) :: log)
      else if (rB x <? rB y) && (rE x =? rE y) then
        let a := (rB x, rB y - 1) in
        normalize_loop f (heap_push a rest) ((x, a, y, y) :: log)
      else if (rB x <? rB y) && (rE x <? rE y) then
        let a := (rB x, rB y - 1) in
        let b := (rB y, rE x) in
        let c := (rE x + 1, rE y) in
        normalize_loop f (heap_push c (heap_push b (heap_push a h')))
                       ((y, b, c, c) :: (x, a, b, b) :: log)
      else if (rB x <? rB y) && (rE x >? rE y) then
        let a := (rB x, rB y - 1) in
        let b := (rE y + 1, rE x) in
        normalize_loop f (heap_push b (heap_push a rest)) ((x, a, y, b) :: log)
      else NPanic (rev log)
    | _ => NDone (rev log)
    end
  end.

Definition normalize_fuel (l : list range) : nat :=
  let n := (2 * length l + 2)%nat in (4 * n * n + 16)%nat.

Definition normalize (l : list range) : nresult :=
  normalize_loop (normalize_fuel l) (heap_of l) [].

(* Replaying the callback log the way mode.normalizeInputs does on the label
   set: o is replaced by a, b and (if different from b) c. *)
Fixpoint remove_range (o : range) (s : list range) : list range :=
  match s with
  | [] => []
  | x :: s' => if req o x then remove_range o s' else x :: remove_range o s'
  end.
Definition add_range (x : range) (s : list range) : list range :=
  if existsb (req x) s then s else s ++ [x].
Definition replay_call (s : list range) (c : ncall) : list range :=
  let '(o, a, b, c') := c in
  let s1 := add_range b (add_range a (remove_range o s)) in
  if req c' b then s1 else add_range c' s1.
Definition replay (s : list range) (log : list ncall) : list range :=
  fold_left replay_call log s.
