(* Uniqueness of the canonical form and order-independence of Flatten (T5). *)
From Coq Require Import List ZArith Lia Bool Sorting.Sorted Sorting.Permutation ZifyBool.
From Lox Require Import Rang3.RangeModel Rang3.RangeProofs.
Import ListNotations.
Open Scope Z_scope.

Lemma canon_cons_inv r t : canon (r :: t) ->
  wfr r /\ canon t /\ (forall y, In y t -> rE r + 1 < rB y) /\ Forall wfr t.
Proof.
  intros H. pose proof (canon_tail _ _ H) as Ht.
  apply canon_wf_gap in H as [Hw Hs].
  inversion Hw as [|? ? Hwr Hwt]; subst. inversion Hs as [|? ? _ Hall]; subst.
  rewrite Forall_forall in Hall. repeat split; auto.
Qed.

Lemma canon_min r t c : canon (r :: t) -> inrs c (r :: t) -> rB r <= c.
Proof.
  intros H Hc. destruct (canon_cons_inv _ _ H) as (Hwr & _ & Hg & _).
  apply inrs_cons in Hc as [Hc|(y & Hy & Hc)].
  - unfold inr in Hc; lia.
  - specialize (Hg y Hy). unfold inr, wfr in *. lia.
Qed.

Lemma canon_gap_notin r t : canon (r :: t) -> ~ inrs (rE r + 1) (r :: t).
Proof.
  intros H Hc. destruct (canon_cons_inv _ _ H) as (Hwr & _ & Hg & _).
  apply inrs_cons in Hc as [Hc|(y & Hy & Hc)].
  - unfold inr in Hc; lia.
  - specialize (Hg y Hy). unfold inr in *. lia.
Qed.

Lemma canon_tail_after r t c : canon (r :: t) -> inrs c t -> rE r < c.
Proof.
  intros H (y & Hy & Hc). destruct (canon_cons_inv _ _ H) as (_ & _ & Hg & _).
  specialize (Hg y Hy). unfold inr in *. lia.
Qed.

Lemma canon_head_eq r1 t1 r2 t2 :
  canon (r1 :: t1) -> canon (r2 :: t2) ->
  (forall c, inrs c (r1 :: t1) <-> inrs c (r2 :: t2)) -> rB r2 <= rB r1 /\ rE r2 <= rE r1.
Proof.
  intros H1 H2 Heq.
  destruct (canon_cons_inv _ _ H1) as (Hw1 & _ & _ & _).
  destruct (canon_cons_inv _ _ H2) as (Hw2 & _ & _ & _).
  assert (HB : rB r2 <= rB r1).
  { apply (canon_min r2 t2 (rB r1) H2). apply Heq. apply inrs_cons. left.
    unfold inr, wfr in *; lia. }
  assert (HB' : rB r1 <= rB r2).
  { apply (canon_min r1 t1 (rB r2) H1). apply Heq. apply inrs_cons. left.
    unfold inr, wfr in *; lia. }
  split; [exact HB|].
  destruct (Z_le_gt_dec (rE r2) (rE r1)) as [Hle|Hgt]; [exact Hle|exfalso].
  apply (canon_gap_notin r1 t1 H1). apply Heq. apply inrs_cons. left.
  unfold inr, wfr in *; lia.
Qed.

Theorem canon_unique : forall l1 l2, canon l1 -> canon l2 ->
  (forall c, inrs c l1 <-> inrs c l2) -> l1 = l2.
Proof.
  induction l1 as [|r1 t1 IH]; intros l2 H1 H2 Heq.
  - destruct l2 as [|r2 t2]; [reflexivity|exfalso].
    destruct (canon_cons_inv _ _ H2) as (Hw2 & _).
    apply (inrs_nil (rB r2)). apply Heq. apply inrs_cons. left. unfold inr, wfr in *; lia.
  - destruct l2 as [|r2 t2].
    + exfalso. destruct (canon_cons_inv _ _ H1) as (Hw1 & _).
      apply (inrs_nil (rB r1)). apply Heq. apply inrs_cons. left. unfold inr, wfr in *; lia.
    + destruct (canon_head_eq _ _ _ _ H1 H2 Heq) as [A1 A2].
      destruct (canon_head_eq _ _ _ _ H2 H1 (fun c => iff_sym (Heq c))) as [B1 B2].
      assert (Hr : r1 = r2).
      { destruct r1, r2; unfold rB, rE in *; simpl in *; f_equal; lia. }
      subst r2. f_equal. apply IH.
      * eapply canon_tail; eauto.
      * eapply canon_tail; eauto.
      * intros c. split; intros Hc.
        -- pose proof (canon_tail_after _ _ _ H1 Hc) as Hgt.
           assert (Hin : inrs c (r1 :: t2)) by (apply Heq; apply inrs_cons; auto).
           apply inrs_cons in Hin as [Hin|Hin]; auto. unfold inr in Hin; lia.
        -- pose proof (canon_tail_after _ _ _ H2 Hc) as Hgt.
           assert (Hin : inrs c (r1 :: t1)) by (apply Heq; apply inrs_cons; auto).
           apply inrs_cons in Hin as [Hin|Hin]; auto. unfold inr in Hin; lia.
Qed.

Theorem flatten_any_order : forall l l', Forall wfr l -> Permutation l l' ->
  StronglySorted (fun a b => rB a <= rB b) l' ->
  (forall c, inrs c (fst (merge_pass [] [] l')) <-> inrs c l) /\
  fst (merge_pass [] [] l') = flatten l.
Proof.
  intros l l' Hw Hp Hs.
  assert (Hw' : Forall wfr l') by (eapply Forall_perm; eauto).
  assert (Hd : forall c, inrs c (fst (merge_pass [] [] l')) <-> inrs c l).
  { intros c. rewrite merge_pass_denotes; auto. symmetry. apply inrs_perm; auto. }
  split; [exact Hd|].
  apply canon_unique.
  - apply merge_pass_canon; auto.
  - apply flatten_canon; auto.
  - intros c. rewrite Hd, flatten_denotes; auto. tauto.
Qed.

Print Assumptions canon_unique.
Print Assumptions flatten_any_order.
