(* Proofs about character-class expressions (T13). *)
From Coq Require Import List ZArith Lia Bool Sorting.Sorted Sorting.Permutation ZifyBool.
From Lox Require Import Rang3.RangeModel Rang3.ClassModel Rang3.RangeProofs Rang3.RangeProofsSub.
Import ListNotations.
Open Scope Z_scope.

Fixpoint csem (e:class_expr) (c:Z) : Prop :=
  match e with
  | CClass neg items => if neg then ~ inrs c items else inrs c items
  | CSub l r => csem l c /\ ~ csem r c
  | CAdd l r => csem l c \/ csem r c
  end.

Fixpoint cwf (e:class_expr) : Prop :=
  match e with
  | CClass _ items => Forall (fun r => 0 <= rB r /\ rB r <= rE r /\ rE r <= max_rune) items
  | CSub l r => cwf l /\ cwf r
  | CAdd l r => cwf l /\ cwf r
  end.

Lemma wfr_any : wfr (0, max_rune).
Proof. unfold wfr, rB, rE, max_rune; simpl; lia. Qed.

Lemma inr_any c : inr c (0, max_rune) <-> 0 <= c <= max_rune.
Proof. unfold inr, rB, rE; simpl; tauto. Qed.

Theorem class_denotes : forall e, cwf e ->
  exists rs, get_ranges e = Some rs /\ Forall wfr rs /\
    (forall c, 0 <= c <= max_rune -> (inrs c rs <-> csem e c)).
Proof.
  induction e as [neg items|l IHl r IHr|l IHl r IHr]; intros Hwf.
  - cbn [cwf] in Hwf.
    assert (Hw : Forall wfr items).
    { eapply Forall_impl; [|exact Hwf]. intros a (_ & Ha & _). exact Ha. }
    cbn [get_ranges csem]. destruct neg.
    + destruct (subtract_full [(0, max_rune)] (flatten items)) as (rs & H1 & H2 & H3 & _).
      * constructor; [apply wfr_any|constructor].
      * apply canon_wf, flatten_canon; auto.
      * exists rs. split; [exact H1|]. split; [exact H3|].
        intros c Hc. rewrite H2, inrs_one, inr_any, flatten_denotes; auto. tauto.
    + exists (flatten items). split; [reflexivity|]. split.
      * apply canon_wf, flatten_canon; auto.
      * intros c _. apply flatten_denotes; auto.
  - cbn [cwf] in Hwf. destruct Hwf as [Hl Hr].
    destruct (IHl Hl) as (a & Ha1 & Ha2 & Ha3).
    destruct (IHr Hr) as (b & Hb1 & Hb2 & Hb3).
    cbn [get_ranges csem]. rewrite Ha1, Hb1.
    destruct (subtract_full a b Ha2 Hb2) as (rs & H1 & H2 & H3 & _).
    exists rs. split; [exact H1|]. split; [exact H3|].
    intros c Hc. rewrite H2, (Ha3 c Hc), (Hb3 c Hc). tauto.
  - cbn [cwf] in Hwf. destruct Hwf as [Hl Hr].
    destruct (IHl Hl) as (a & Ha1 & Ha2 & Ha3).
    destruct (IHr Hr) as (b & Hb1 & Hb2 & Hb3).
    cbn [get_ranges csem]. rewrite Ha1, Hb1.
    assert (Hab : Forall wfr (a ++ b)) by (apply Forall_app; auto).
    exists (flatten (a ++ b)). split; [reflexivity|]. split.
    + apply canon_wf, flatten_canon; auto.
    + intros c Hc. rewrite flatten_denotes, inrs_app, (Ha3 c Hc), (Hb3 c Hc); auto. tauto.
Qed.

Print Assumptions class_denotes.
