(* Context-free grammars as lox's lr1.Grammar sees them after normalisation:
   numbered terminals and rules, a flat list of productions, production 0 is
   S' -> start.  Parse trees and derivations. *)
From Coq Require Import List Arith Bool.
Import ListNotations.

Inductive sym := T (t : nat) | NT (n : nat).

Definition sym_eqb (a b : sym) : bool :=
  match a, b with
  | T x, T y => Nat.eqb x y
  | NT x, NT y => Nat.eqb x y
  | _, _ => false
  end.

Record prod := { lhs : nat; rhs : list sym }.
Definition grammar := list prod.

Definition eof : nat := 0.
Definition error_t : nat := 1.

(* A token is its terminal number and its index in the input. *)
Definition token := (nat * nat)%type.

Inductive tree :=
| Leaf (tok : token)
| Node (p : nat) (ch : list tree).

Section Deriv.
Variable g : grammar.

(* wt X t u : t is a parse tree with root symbol X and yield u *)
Inductive wt : sym -> tree -> list token -> Prop :=
| wt_leaf t i : wt (T t) (Leaf (t, i)) [(t, i)]
| wt_node p pr ch u :
    nth_error g p = Some pr -> wf (rhs pr) ch u -> wt (NT (lhs pr)) (Node p ch) u
with wf : list sym -> list tree -> list token -> Prop :=
| wf_nil : wf [] [] []
| wf_cons X t u Xs ts us : wt X t u -> wf Xs ts us -> wf (X :: Xs) (t :: ts) (u ++ us).

Scheme wt_ind2 := Induction for wt Sort Prop
with wf_ind2 := Induction for wf Sort Prop.
Combined Scheme wt_wf_ind from wt_ind2, wf_ind2.

(* The start symbol is the single right-hand-side symbol of production 0. *)
Definition start_sym : option sym :=
  match nth_error g 0 with
  | Some pr => match rhs pr with [X] => Some X | _ => None end
  | None => None
  end.

(* w is a sentence of the grammar (token numbers only). *)
Definition sentence (w : list token) : Prop :=
  exists X t, start_sym = Some X /\ wt X t w.

End Deriv.

Fixpoint yield (t : tree) : list token :=
  match t with
  | Leaf tok => [tok]
  | Node _ ch => flat_map yield ch
  end.
