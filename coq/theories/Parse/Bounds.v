(* The _onBounds bookkeeping of the generated parser (emit_bounds = true):
   every stack entry carries the first and last token of the subtree it stands
   for, and every reduction of a node with a non-empty yield reports exactly
   these two tokens, right after the node's action.  (B1, B2) *)
From Coq Require Import List Arith ZArith Lia Bool ZifyBool ZifyNat.
From Lox Require Import Parse.Grammar Parse.Tables Parse.Validator Parse.Actions
  Parse.LRAbstract Parse.ValidatorFacts Parse.ParseRuntime Parse.Refine Parse.Complete.
Import ListNotations.

Definition tok_val (tok : token) : value := VTok (Z.of_nat (fst tok)) (snd tok).

Definition tree_bounds (t : tree) : bounds :=
  match yield t with
  | [] => {| b_begin := VNil; b_end := VNil; b_empty := true |}
  | first :: _ as u =>
    {| b_begin := tok_val first; b_end := tok_val (last u first); b_empty := false |}
  end.

(* ---------- lists ---------- *)
Lemma last_indep {A} (l : list A) : forall d d', l <> [] -> last l d = last l d'.
Proof.
  induction l as [|a l IH]; intros d d' H; [congruence|].
  destruct l as [|b l]; [reflexivity|].
  change (last (b :: l) d = last (b :: l) d'). apply IH. discriminate.
Qed.

Lemma last_app_ne {A} (a b : list A) d : b <> [] -> last (a ++ b) d = last b d.
Proof.
  intros Hb. induction a as [|x a IH]; [reflexivity|].
  simpl app. destruct (a ++ b) as [|y r] eqn:E.
  - apply app_eq_nil in E as [_ E]. congruence.
  - exact IH.
Qed.

Lemma flat_map_nil {A B} (f : A -> list B) (l : list A) :
  (forall x, In x l -> f x = []) -> flat_map f l = [].
Proof.
  induction l as [|a l IH]; intros H; simpl; auto.
  rewrite (H a) by (left; reflexivity). apply IH. intros x Hx. apply H. right. exact Hx.
Qed.

(* ---------- reduce_bounds computes the bounds of the new node ---------- *)
Definition brel (it : sitem) (t : tree) : Prop := i_bounds it = tree_bounds t.
Definition is_empty (it : sitem) : Prop := b_empty (i_bounds it) = true.

Lemma tree_bounds_empty t : b_empty (tree_bounds t) = true -> yield t = [].
Proof. unfold tree_bounds. destruct (yield t); [reflexivity|discriminate]. Qed.

Lemma tree_bounds_cons t x u : yield t = x :: u ->
  tree_bounds t = {| b_begin := tok_val x; b_end := tok_val (last (x :: u) x); b_empty := false |}.
Proof. intros H. unfold tree_bounds. rewrite H. destruct u; reflexivity. Qed.

Lemma tree_bounds_nonempty t : b_empty (tree_bounds t) = false -> exists x u, yield t = x :: u.
Proof. unfold tree_bounds. destruct (yield t); [discriminate|eauto]. Qed.

Lemma trim_leading_spec sl :
  exists pre, sl = pre ++ trim_leading sl /\ (forall it, In it pre -> is_empty it) /\
    match trim_leading sl with [] => True | f :: _ => b_empty (i_bounds f) = false end.
Proof.
  induction sl as [|a sl (pre & H1 & H2 & H3)]; simpl.
  - exists []. repeat split; auto. intros ? [].
  - destruct (b_empty (i_bounds a)) eqn:E.
    + exists (a :: pre). simpl. rewrite <- H1. repeat split; auto.
      intros it [<-|Hin]; [exact E|auto].
    + exists []. repeat split; auto. intros ? [].
Qed.

Lemma empty_items_yield pre chp :
  Forall2 brel pre chp -> (forall it, In it pre -> is_empty it) -> flat_map yield chp = [].
Proof.
  induction 1 as [|it t pre chp Hb HF IH]; intros He; simpl; auto.
  rewrite IH by (intros; apply He; right; assumption).
  rewrite tree_bounds_empty; auto. rewrite <- Hb. apply He. left. reflexivity.
Qed.

Lemma last_bounds M chM : Forall2 brel M chM -> forall d, M <> [] ->
  b_empty (i_bounds (last M d)) = false ->
  exists pre y v, flat_map yield chM = pre ++ y :: v /\
    b_end (i_bounds (last M d)) = tok_val (last (y :: v) y).
Proof.
  induction 1 as [|a t M1 ch1 Hb HF IH]; intros d Hne Hl; [congruence|].
  destruct M1 as [|b M2].
  - inversion HF; subst. simpl in Hl |- *. rewrite Hb in Hl |- *.
    destruct (tree_bounds_nonempty _ Hl) as (y & v & Hy).
    exists [], y, v. rewrite Hy, app_nil_r, (tree_bounds_cons _ _ _ Hy). split; reflexivity.
  - change (last (a :: b :: M2) d) with (last (b :: M2) d) in *.
    destruct (IH d) as (pre & y & v & H1 & H2); [discriminate|exact Hl|].
    exists (yield t ++ pre), y, v. simpl flat_map. rewrite H1, app_assoc. split; auto.
Qed.

Lemma ends_bounds M chM f M' : Forall2 brel M chM -> M = f :: M' ->
  b_empty (i_bounds f) = false -> b_empty (i_bounds (last M f)) = false ->
  exists x u, flat_map yield chM = x :: u /\ b_begin (i_bounds f) = tok_val x /\
    b_end (i_bounds (last M f)) = tok_val (last (x :: u) x).
Proof.
  intros HF -> Hf Hl.
  destruct (last_bounds _ _ HF f) as (pre & y & v & H1 & H2); [discriminate|exact Hl|].
  inversion HF as [|? t ? ch1 Hb HF1]; subst.
  rewrite Hb in Hf. destruct (tree_bounds_nonempty _ Hf) as (x & u1 & Hx).
  simpl flat_map in *. rewrite Hx in *. simpl app in H1 |- *.
  exists x, (u1 ++ flat_map yield ch1). split; [reflexivity|]. split.
  - rewrite Hb, (tree_bounds_cons _ _ _ Hx). reflexivity.
  - rewrite H2, H1. rewrite (last_app_ne pre (y :: v)) by discriminate.
    f_equal. apply last_indep. discriminate.
Qed.

Lemma reduce_bounds_tree sl ch p :
  Forall2 brel sl ch -> reduce_bounds sl = tree_bounds (Node p ch).
Proof.
  intros HF. unfold reduce_bounds, tree_bounds. simpl yield.
  destruct (trim_leading_spec sl) as (pre & Hsl & Hpre & HA).
  set (A := trim_leading sl) in *. clearbody A. rewrite Hsl in HF.
  apply Forall2_app_inv_l in HF as (chp & chA & Hp & HFA & ->).
  rewrite flat_map_app, (empty_items_yield _ _ Hp Hpre). simpl app.
  unfold trim_trailing.
  destruct (trim_leading_spec (rev A)) as (pre2 & HrA & Hpre2 & HB).
  set (B := trim_leading (rev A)) in *. clearbody B.
  assert (HA' : A = rev B ++ rev pre2).
  { rewrite <- rev_app_distr, <- HrA, rev_involutive. reflexivity. }
  rewrite HA' in HFA.
  apply Forall2_app_inv_l in HFA as (chM & chq & HFM & Hq & ->).
  rewrite flat_map_app, (empty_items_yield _ _ Hq), app_nil_r
    by (intros it Hin; apply Hpre2; apply in_rev; exact Hin).
  destruct (rev B) as [|f M'] eqn:EM.
  - inversion HFM; subst. reflexivity.
  - assert (Hf : b_empty (i_bounds f) = false).
    { rewrite HA' in HA. exact HA. }
    assert (Hl : b_empty (i_bounds (last (f :: M') f)) = false).
    { destruct B as [|l B']; [discriminate|]. simpl in EM. rewrite <- EM.
      rewrite last_last. exact HB. }
    destruct (ends_bounds _ _ f M' HFM eq_refl Hf Hl) as (x & u & H1 & H2 & H3).
    rewrite H1, H2, H3. destruct u; reflexivity.
Qed.

(* ---------- the full trace of a clean parse with emit_bounds = true ---------- *)
Section Events.
Variable tb : tables.
Variable discard : value -> bool.
Notation evalt := (eval tb discard).

Fixpoint events (t : tree) : list event :=
  match t with
  | Leaf _ => []
  | Node p ch =>
    flat_map events ch ++ [ERed (Z.of_nat p) (evalt t)] ++
    (match yield t with
     | [] => []
     | first :: _ as u => [EBounds (evalt t) (tok_val first) (tok_val (last u first))]
     end)
  end.

(* the events of the reduction that builds the node t *)
Definition node_events (t : tree) : list event :=
  match t with
  | Leaf _ => []
  | Node p _ =>
    ERed (Z.of_nat p) (evalt t) ::
    (match yield t with
     | [] => []
     | first :: _ as u => [EBounds (evalt t) (tok_val first) (tok_val (last u first))]
     end)
  end.

Lemma events_node p ch :
  events (Node p ch) = flat_map events ch ++ node_events (Node p ch).
Proof. reflexivity. Qed.

Lemma events_reds : forall t, events t = flat_map node_events (reds t).
Proof.
  induction t as [tok|p ch IH] using tree_ind'; [reflexivity|].
  rewrite events_node. simpl reds. rewrite flat_map_app.
  replace (flat_map node_events [Node p ch]) with (node_events (Node p ch))
    by (simpl flat_map; rewrite app_nil_r; reflexivity).
  f_equal. induction IH as [|x l Hx Hl IHl]; simpl; auto.
  rewrite flat_map_app, Hx, IHl. reflexivity.
Qed.

Lemma node_events_tb p ch : let N := Node p ch in
  node_events N =
  ERed (Z.of_nat p) (evalt N) ::
  (if b_empty (tree_bounds N) then []
   else [EBounds (evalt N) (b_begin (tree_bounds N)) (b_end (tree_bounds N))]).
Proof.
  intros N. unfold node_events, tree_bounds, N.
  destruct (yield (Node p ch)) as [|x u]; [reflexivity|]. destruct u; reflexivity.
Qed.

End Events.

(* ---------- pstep with emit_bounds = true, exactly ---------- *)
Section PstepB.
Variable tb : tables.
Variable discard : value -> bool.

Lemma pstep_shift_b f s top v ty id :
  peek (stack s) 0 = Some top ->
  find (t_actions tb) (i_state top) (la s) = FFound v ->
  v <> accept_code -> (0 <= v)%Z -> lasym s = VTok ty id -> la s <> ERROR ->
  pstep tb true false discard f s =
  match read_token tb (set_shifts (set_stack s ({| i_state := v; i_sym := lasym s;
            i_bounds := {| b_begin := lasym s; b_end := lasym s; b_empty := false |} |} :: stack s))
          (shifts s + 1) (rec_shifts s)) with
  | None => Crash
  | Some s2 => Continue s2
  end.
Proof.
  intros H1 H2 Hna Hv Hl Hne. unfold pstep. rewrite H1, H2.
  assert (En : (la s =? ERROR)%Z = false) by (apply Z.eqb_neq; exact Hne). rewrite En.
  destruct (v =? accept_code)%Z eqn:E; [apply Z.eqb_eq in E; contradiction|].
  rewrite Z.geb_leb. destruct (0 <=? v)%Z eqn:E2; [|apply Z.leb_gt in E2; lia].
  rewrite Hl. reflexivity.
Qed.

Lemma pstep_reduce_b f s top v tc rule res top' ns :
  peek (stack s) 0 = Some top ->
  find (t_actions tb) (i_state top) (la s) = FFound v ->
  v <> accept_code -> (v < 0)%Z ->
  nthz (t_term_counts tb) (- v) = Some tc -> nthz (t_rules tb) (- v) = Some rule ->
  act tb discard (stack s) (- v) = Some res ->
  (0 <= tc)%Z -> Z.to_nat tc <= length (stack s) ->
  peek (skipn (Z.to_nat tc) (stack s)) 0 = Some top' ->
  find (t_goto tb) (i_state top') rule = FFound ns ->
  let b := reduce_bounds (rev (firstn (Z.to_nat tc) (stack s))) in
  exists s1,
    pstep tb true false discard f s =
    Continue (set_stack s1 ({| i_state := ns; i_sym := res; i_bounds := b |}
                              :: skipn (Z.to_nat tc) (stack s))) /\
    la s1 = la s /\ lasym s1 = lasym s /\ qla s1 = qla s /\ input s1 = input s /\
    pos s1 = pos s /\ filter isred (trace s1) = ERed (- v) res :: filter isred (trace s) /\
    trace s1 = (if b_empty b then [] else [EBounds res (b_begin b) (b_end b)])
               ++ ERed (- v) res :: trace s.
Proof.
  intros H1 H2 Hna Hv Htc Hrule Hact Htc0 Hlen Hpk Hg b. unfold pstep. rewrite H1, H2.
  destruct (v =? accept_code)%Z eqn:E; [apply Z.eqb_eq in E; contradiction|].
  rewrite Z.geb_leb. destruct (0 <=? v)%Z eqn:E2; [apply Z.leb_le in E2; lia|].
  rewrite Htc, Hrule, Hact.
  destruct (tc <? 0)%Z eqn:E3; [apply Z.ltb_lt in E3; lia|].
  unfold ParseRuntime.pop, peek_slice.
  assert (Hleb : Nat.leb (Z.to_nat tc) (length (stack s)) = true) by (apply Nat.leb_le; exact Hlen).
  rewrite Hleb. cbv beta iota zeta. rewrite Hpk, Hg. fold b.
  destruct (b_empty b); cbv beta iota delta [andb negb];
    eexists; (split; [reflexivity|]); simpl; repeat split; reflexivity.
Qed.

End PstepB.

(* ---------- the refined simulation ---------- *)
Section RefineB.
Variable g : grammar.
Variable tb : tables.
Variable c : cert.
Variable nterm : nat.
Variable discard : value -> bool.
Hypothesis Hval : validate g tb c nterm = true.
Variable w : list nat.

Notation nst := (nstates c).
Notation evalt := (eval tb discard).
Notation astep' := (astep g (action_of tb) (goto_of tb) (length w)).
Notation reach' := (reach g (action_of tb) (goto_of tb) (length w)).
Notation R' := (R tb c nterm discard w).
Notation stack_rel' := (stack_rel tb c discard).
Notation nev := (node_events tb discard).

Inductive stack_brel : list sitem -> list (nat * tree) -> Prop :=
| sb_bot b : stack_brel [b] []
| sb_cons it s t cs stk :
    i_bounds it = tree_bounds t -> stack_brel cs stk -> stack_brel (it :: cs) ((s, t) :: stk).

Record Rb (stk : list (nat * tree)) (inp : list token) (tr : list tree) (s : pstate) : Prop := {
  Rb_R : R' stk inp tr s;
  Rb_bounds : stack_brel (stack s) stk;
  Rb_trace : rev (trace s) = flat_map nev (rev tr);
}.

Lemma stack_brel_skipn n : forall cs stk, stack_brel cs stk -> n <= length stk ->
  stack_brel (skipn n cs) (skipn n stk).
Proof.
  induction n as [|n IH]; intros cs stk H Hn; simpl; auto.
  destruct H; simpl in *; [lia|]. apply IH; auto. lia.
Qed.

Lemma stack_brel_slice n : forall cs stk ch rest,
  stack_brel cs stk -> LRAbstract.pop n stk = Some (ch, rest) ->
  Forall2 brel (rev (firstn n cs)) ch.
Proof.
  induction n as [|n IH]; intros cs stk ch rest Hrel H; simpl in H.
  - inversion H; subst. simpl. constructor.
  - destruct stk as [|[s t] stk]; [discriminate|].
    destruct (LRAbstract.pop n stk) as [[ts r]|] eqn:E; [|discriminate].
    inversion H; subst. inversion Hrel as [|it s0 t0 cs0 stk0 Hb Hrel0]; subst.
    simpl. apply Forall2_app.
    + eapply IH; eauto.
    + constructor; [exact Hb|constructor].
Qed.

Theorem sim_step_b f stk inp tr s :
  Rb stk inp tr s ->
  match astep' (stk, inp, tr) with
  | ANext (stk', inp', tr') =>
      exists s', pstep tb true false discard f s = Continue s' /\ Rb stk' inp' tr' s'
  | AAcc => pstep tb true false discard f s = Accept s
  | ARej => pstep tb true false discard f s = Reject s
  | AStuck => True
  end.
Proof.
  intros [[Hst Hq Hla Htr] Hbr Hbt].
  destruct (stack_rel_top g tb c nterm discard Hval _ _ Hst) as (top & Hpk & Htop & Hlt).
  destruct (la_rel_la g tb c nterm Hval w _ _ Hla) as (Hlaz & Hlalt & id & Hsym).
  pose proof (val_action_find g tb c nterm Hval (topst stk) (la s) Hlt) as Hfind.
  unfold astep, action_of. rewrite <- Hlaz, <- Htop.
  rewrite <- Htop in Hfind.
  destruct (find (t_actions tb) (i_state top) (la s)) as [v| |] eqn:Hf.
  - destruct Hfind as [Hrange Hjust].
    rewrite Hlaz, Nat2Z.id in Hjust.
    unfold decode_action in *.
    destruct (v =? accept_code)%Z eqn:E.
    + apply Z.eqb_eq in E. subst v. eapply pstep_accept; eauto.
    + apply Z.eqb_neq in E. rewrite Z.geb_leb in *.
      destruct (0 <=? v)%Z eqn:E2.
      * (* shift *)
        apply Z.leb_le in E2. inversion Hjust as [s' Hne Hs' Hpast| |]; subst.
        rewrite (pstep_shift_b tb discard f s top v _ _ Hpk Hf E E2 Hsym
                   (la_rel_noerr g tb c nterm Hval w _ _ Hla)).
        set (s1 := set_shifts _ _ _) in *.
        destruct Hla as (i & l & Hinp & Hla').
        destruct l as [|t l].
        -- subst inp. simpl in Hne. unfold eof in Hne. congruence.
        -- subst inp. unfold tokens_from at 1. simpl.
           fold (tokens_from (S i) l).
           assert (Hla0 : la_rel nterm w (tokens_from i (t :: l)) s) by (exists i, (t :: l); auto).
           destruct (la_rel_next g tb c nterm Hval w s s1 i t l (stack s1) Hla0 Hq)
             as (s2 & Hrd & Hst2 & Htr2 & Hq2 & Hla2); try reflexivity.
           rewrite Hrd. exists s2. split; auto.
           destruct Hla' as (_ & _ & Hla' & Hsym' & _). simpl in Hla'.
           constructor; [constructor; auto| |].
           ++ rewrite Hst2. subst s1. simpl. constructor; auto.
              ** rewrite Z2Nat.id by lia. reflexivity.
              ** simpl. rewrite Hsym', Hla'. reflexivity.
           ++ rewrite Htr2. exact Htr.
           ++ rewrite Hst2. subst s1. simpl. constructor; auto.
              simpl. rewrite Hsym', Hla'. reflexivity.
           ++ rewrite Htr2. exact Hbt.
      * (* reduce *)
        apply Z.leb_gt in E2. inversion Hjust as [|p pr Hp0 Hp Hitem|]; subst.
        rewrite Hp.
        destruct (LRAbstract.pop (length (rhs pr)) stk) as [[ch rest]|] eqn:Hpop; [|exact I].
        destruct (goto_of tb (topst rest) (lhs pr)) as [s'|] eqn:Hg; [|exact I].
        destruct (apop_spec g tb c nterm Hval _ _ _ _ Hpop) as (Hn & Hrest & Hlen).
        destruct (val_arrays g tb c nterm Hval _ pr Hp) as [Hrule Htc].
        assert (Hv : (- v)%Z = Z.of_nat (Z.to_nat (- v))) by (rewrite Z2Nat.id; lia).
        rewrite <- Hv in Hrule, Htc.
        pose proof (act_eval g tb c nterm discard Hval _ _ _ _ _ _ Hp Hp0 Hst Hpop) as Hact.
        rewrite <- Hv in Hact.
        pose proof (stack_rel_skipn g tb c nterm discard Hval (length (rhs pr)) _ _ Hst Hn) as Hrel'.
        rewrite <- Hrest in Hrel'.
        destruct (stack_rel_top g tb c nterm discard Hval _ _ Hrel') as (top' & Hpk' & Htop' & Hlt').
        destruct (val_goto_of g tb c nterm Hval _ _ _ Hlt' Hg) as (Hs' & _ & Hgf).
        rewrite <- Htop' in Hgf.
        pose proof (stack_brel_slice _ _ _ _ _ Hbr Hpop) as Hsl.
        pose proof (reduce_bounds_tree _ _ (Z.to_nat (- v)) Hsl) as Hrb.
        destruct (pstep_reduce_b tb discard f s top v _ _ _ top' (Z.of_nat s') Hpk Hf E E2 Htc Hrule Hact)
          as (s1 & Hps & H1 & H2 & H3 & H4 & H5 & H6 & H7).
        -- lia.
        -- rewrite Nat2Z.id. rewrite (stack_rel_len _ _ _ _ _ Hst). lia.
        -- rewrite Nat2Z.id. exact Hpk'.
        -- exact Hgf.
        -- rewrite Hps. eexists. split; [reflexivity|]. rewrite Nat2Z.id in *.
           rewrite Hrb in *.
           constructor; [constructor|..]; cbn [la lasym input pos qla stack trace set_stack].
           ++ constructor; auto.
           ++ congruence.
           ++ destruct Hla as (i & l & Hinp & Hlen' & Hord & Hla' & Hsym' & Hin & Hpos).
              exists i, l. cbn [la lasym input pos qla stack trace set_stack].
              repeat split; auto; congruence.
           ++ rewrite H6, Htr. simpl. rewrite <- Hv. reflexivity.
           ++ constructor; [reflexivity|].
              rewrite Hrest. apply stack_brel_skipn; auto.
           ++ rewrite H7. cbn [rev]. rewrite flat_map_app. cbn [flat_map]. rewrite app_nil_r.
              rewrite node_events_tb. cbv zeta. rewrite <- Hv.
              rewrite rev_app_distr. cbn [rev]. rewrite Hbt, <- app_assoc. f_equal.
              destruct (b_empty (tree_bounds (Node (Z.to_nat (- v)) ch))); reflexivity.
  - eapply pstep_reject; eauto.
  - destruct Hfind.
Qed.

End RefineB.

(* ---------- B1 ---------- *)
Section B1.
Variable g : grammar.
Variable tb : tables.
Variable c : cert.
Variable nterm : nat.
Variable discard : value -> bool.
Hypothesis Hval : validate g tb c nterm = true.

Section Word.
Variable w : list nat.
Hypothesis Hord : ordinary nterm w.

Notation reach' := (reach g (action_of tb) (goto_of tb) (length w)).
Notation astep' := (astep g (action_of tb) (goto_of tb) (length w)).
Notation Rb' := (Rb tb c nterm discard w).

Lemma reach_ploop_b x1 x2 : reach' x1 x2 ->
  forall s1, Rb' (fst (fst x1)) (snd (fst x1)) (snd x1) s1 ->
  exists n s2, Rb' (fst (fst x2)) (snd (fst x2)) (snd x2) s2 /\
    forall k, ploop tb true false discard (n + k) s1 = ploop tb true false discard k s2.
Proof.
  induction 1 as [x|x1 x2 x3 Hs Hr IH]; intros s1 HR.
  - exists 0, s1. split; auto.
  - destruct x1 as [[stk inp] tr]. simpl in HR.
    pose proof (sim_step_b g tb c nterm discard Hval w) as Hsim.
    destruct x2 as [[stk2 inp2] tr2].
    assert (Hstep : forall f, exists s', pstep tb true false discard f s1 = Continue s' /\ Rb' stk2 inp2 tr2 s').
    { intros f. specialize (Hsim f stk inp tr s1 HR).
      match type of Hsim with match ?a with _ => _ end =>
        replace a with (ANext (stk2, inp2, tr2)) in Hsim by (symmetry; exact Hs) end.
      exact Hsim. }
    destruct (Hstep 0) as (s' & Hp0 & HR').
    destruct (IH s' HR') as (n & s2 & HR2 & Hk).
    exists (S n), s2. split; auto. intros k.
    change (S n + k) with (S (n + k)). rewrite ploop_S.
    rewrite (pstep_fuel_irrel tb true discard (S (n + k)) 0), Hp0. apply Hk.
Qed.

Lemma Rb_init :
  exists s0, read_token tb (init_state (zs w)) = Some s0 /\ Rb' [] (tokens_of w) [] s0.
Proof.
  destruct (R_init g tb c nterm discard Hval w Hord) as (s0 & Hrd & HR0).
  exists s0. split; auto.
  assert (Hst : stack s0 = stack (init_state (zs w)) /\ trace s0 = []).
  { destruct (read_token_spec tb (init_state (zs w))) as (s0' & Hrd' & Hst & Htr & _).
    - reflexivity.
    - simpl. intros z Hz. unfold zs in Hz. apply in_map_iff in Hz as (n & <- & Hn).
      unfold ordinary in Hord. rewrite Forall_forall in Hord. specialize (Hord n Hn). lia.
    - rewrite Hrd in Hrd'. inversion Hrd'; subst. auto. }
  destruct Hst as [Hst Htr]. constructor; auto.
  - rewrite Hst. simpl. constructor.
  - rewrite Htr. reflexivity.
Qed.

Theorem bounds_are_first_last_w X t :
  start_sym g = Some X -> wt g X t (tokens_of w) ->
  exists fuel s top bot,
    parse tb true false discard fuel (zs w) = Accept s /\ stack s = [top; bot] /\
    i_sym top = eval tb discard t /\ i_bounds top = tree_bounds t /\
    rev (trace s) = events tb discard t.
Proof.
  intros Hs Ht.
  destruct (abstract_accept g tb c nterm Hval w Hord X t Hs Ht) as (s' & Hreach & Hacc).
  destruct Rb_init as (s0 & Hrd & HR0).
  destruct (reach_ploop_b _ _ Hreach s0 HR0) as (n & s2 & HR2 & Hk). simpl in HR2.
  pose proof (sim_step_b g tb c nterm discard Hval w 1 _ _ _ _ HR2) as Hsim.
  rewrite Hacc in Hsim.
  destruct HR2 as [[Hst _ _ _] Hbr Htr].
  assert (Hshape : exists top bot, stack s2 = [top; bot] /\
            i_sym top = eval tb discard t /\ i_bounds top = tree_bounds t).
  { destruct (stack s2) as [|top cs]; inversion Hst as [|? ? ? ? ? _ Hsym1 _ Hrel1]; subst.
    inversion Hrel1; subst. inversion Hbr as [|? ? ? ? ? Hb1 _]; subst. eauto. }
  destruct Hshape as (top & bot & Hstk & Hsym1 & Hb1).
  exists (n + 1), s2, top, bot. repeat split; auto.
  - unfold parse. rewrite Hrd, Hk. rewrite ploop_S, Hsim. reflexivity.
  - rewrite Htr, rev_involutive. symmetry. apply events_reds.
Qed.

End Word.

(* B1: _onBounds is called exactly once per node with a non-empty yield, right
   after the node's action, with the action's result and the first and last
   token of the node's yield; never for a node that derives nothing. *)
Theorem bounds_are_first_last : forall w X t,
  ordinary nterm w -> start_sym g = Some X -> wt g X t (tokens_of w) ->
  exists fuel s top bot,
    parse tb true false discard fuel (zs w) = Accept s /\ stack s = [top; bot] /\
    i_sym top = eval tb discard t /\ i_bounds top = tree_bounds t /\
    rev (trace s) = events tb discard t.
Proof. intros. eapply bounds_are_first_last_w; eauto. Qed.

End B1.

(* ---------- B2 ---------- *)
Section B2.
Variable tb : tables.
Variable discard : value -> bool.
Notation evalt := (eval tb discard).
Notation events' := (events tb discard).
Notation nev := (node_events tb discard).

(* the reduction of a node with an empty yield makes no _onBounds call ... *)
Lemma node_events_empty p ch : yield (Node p ch) = [] ->
  nev (Node p ch) = [ERed (Z.of_nat p) (evalt (Node p ch))].
Proof. intros H. unfold node_events. rewrite H. reflexivity. Qed.

(* ... and the reduction of any other node makes exactly one, after the action *)
Lemma node_events_nonempty p ch x u : yield (Node p ch) = x :: u ->
  nev (Node p ch) =
  [ERed (Z.of_nat p) (evalt (Node p ch));
   EBounds (evalt (Node p ch)) (tok_val x) (tok_val (last (x :: u) x))].
Proof. intros H. unfold node_events. rewrite H. destruct u; reflexivity. Qed.

Lemma reds_yield_incl : forall t t', In t' (reds t) ->
  forall x, In x (yield t') -> In x (yield t).
Proof.
  induction t as [tok|p ch IH] using tree_ind'; intros t' Hin x Hx; [destruct Hin|].
  simpl reds in Hin. apply in_app_or in Hin as [Hin|[<-|[]]]; [|exact Hx].
  apply in_flat_map in Hin as (c0 & Hc & Hin).
  rewrite Forall_forall in IH. simpl yield. apply in_flat_map. exists c0. split; eauto.
Qed.

(* every _onBounds call belongs to a node of t with a non-empty yield and
   carries that node's value and its first and last token *)
Theorem bounds_event_node t res b e : In (EBounds res b e) (events' t) ->
  exists t', In t' (reds t) /\ res = evalt t' /\
    exists x u, yield t' = x :: u /\ b = tok_val x /\ e = tok_val (last (x :: u) x).
Proof.
  rewrite events_reds. intros Hin. apply in_flat_map in Hin as (t' & Ht' & Hin).
  exists t'. split; auto. destruct t' as [tok|p ch]; [destruct Hin|].
  destruct (yield (Node p ch)) as [|x u] eqn:Ey.
  - rewrite (node_events_empty _ _ Ey) in Hin. destruct Hin as [Hin|[]]. discriminate.
  - rewrite (node_events_nonempty _ _ _ _ Ey) in Hin.
    destruct Hin as [Hin|[Hin|[]]]; [discriminate|]. inversion Hin; subst. eauto 8.
Qed.

Theorem bounds_in_yield t res b e : In (EBounds res b e) (events' t) ->
  exists x y, In x (yield t) /\ In y (yield t) /\ b = tok_val x /\ e = tok_val y.
Proof.
  intros Hin. destruct (bounds_event_node _ _ _ _ Hin) as (t' & Ht' & _ & x & u & Ey & -> & ->).
  exists x, (last (x :: u) x). repeat split; auto.
  - apply (reds_yield_incl _ _ Ht'). rewrite Ey. left. reflexivity.
  - apply (reds_yield_incl _ _ Ht'). rewrite Ey.
    destruct (exists_last (l := x :: u)) as (l' & a & E); [discriminate|].
    rewrite E, last_last. apply in_or_app. right. left. reflexivity.
Qed.

(* B2: a subtree that derives nothing causes no _onBounds call at all *)
Theorem no_call_on_empty t : yield t = [] ->
  forall res b e, ~ In (EBounds res b e) (events' t).
Proof.
  intros Hy res b e Hin. destruct (bounds_in_yield _ _ _ _ Hin) as (x & _ & Hx & _).
  rewrite Hy in Hx. destruct Hx.
Qed.

Theorem no_call_on_empty_node p ch : yield (Node p ch) = [] ->
  events' (Node p ch) = flat_map events' ch ++ [ERed (Z.of_nat p) (evalt (Node p ch))].
Proof. intros H. rewrite events_node, node_events_empty; auto. Qed.

(* the _act calls within the trace are those of Actions.reductions *)
Theorem events_reductions : forall t, filter isred (events' t) = reductions tb discard t.
Proof.
  induction t as [tok|p ch IH] using tree_ind'; [reflexivity|].
  rewrite events_node, filter_app. simpl reductions. f_equal.
  - induction IH as [|x l Hx Hl IHl]; simpl; auto.
    rewrite filter_app, Hx, IHl. reflexivity.
  - unfold node_events. destruct (yield (Node p ch)); reflexivity.
Qed.

End B2.

Print Assumptions bounds_are_first_last.
Print Assumptions bounds_event_node.
Print Assumptions bounds_in_yield.
Print Assumptions no_call_on_empty.
Print Assumptions no_call_on_empty_node.
Print Assumptions events_reductions.
