(* What `validate g tb c nterm = true` gives, one lemma per validator clause. *)
From Coq Require Import List Arith ZArith Lia Bool.
From Lox Require Import Parse.Grammar Parse.Tables Parse.Validator.
Import ListNotations.

(* ---------- _Find versus the row view of the validator ---------- *)

Fixpoint assoc (x : Z) (row : list (Z * Z)) : fres :=
  match row with
  | [] => FNone
  | (k, v) :: r => if (k =? x)%Z then FFound v else assoc x r
  end.

Lemma scan_entries f1 : forall f2 t i e x row,
  row_entries f1 t i e = Some row ->
  (e - i <= 2 * Z.of_nat f1)%Z -> (e - i <= 2 * Z.of_nat f2)%Z ->
  find_scan f2 t i e x = assoc x row.
Proof.
  induction f1 as [|f1 IH]; intros f2 t i e x row Hr H1 H2.
  - simpl in Hr. inversion Hr; subst. simpl.
    destruct f2; simpl; auto. destruct (i <? e)%Z eqn:E; auto. apply Z.ltb_lt in E. lia.
  - simpl in Hr. destruct (i <? e)%Z eqn:E.
    + destruct (nthz t i) as [k|] eqn:Hk; [|discriminate].
      destruct (nthz t (i + 1)) as [v|] eqn:Hv; [|discriminate].
      destruct (row_entries f1 t (i + 2) e) as [rest|] eqn:Hrest; [|discriminate].
      inversion Hr; subst. apply Z.ltb_lt in E.
      destruct f2 as [|f2]; [lia|]. simpl.
      assert (E' : (i <? e)%Z = true) by (apply Z.ltb_lt; lia). rewrite E', Hk.
      destruct (k =? x)%Z; [rewrite Hv; reflexivity|].
      apply IH; auto; lia.
    + inversion Hr; subst. simpl. destruct f2; simpl; auto. rewrite E. reflexivity.
Qed.

Lemma find_row t y row x :
  row_of t y = Some row -> find t (Z.of_nat y) x = assoc x row.
Proof.
  unfold row_of, find. intros H.
  destruct (nthz t (Z.of_nat y)) as [i|]; [|discriminate].
  destruct (nthz t i) as [count|]; [|discriminate].
  destruct ((count <? 0)%Z || negb (Z.even count)) eqn:E; [discriminate|].
  apply orb_false_iff in E as [E1 E2]. apply Z.ltb_ge in E1.
  eapply scan_entries; eauto; lia.
Qed.

Lemma assoc_found x row v : assoc x row = FFound v -> In (x, v) row.
Proof.
  induction row as [|[k w] r IH]; simpl; [discriminate|].
  destruct (k =? x)%Z eqn:E.
  - intros H; inversion H; subst. apply Z.eqb_eq in E. subst. auto.
  - auto.
Qed.

Lemma assoc_nocrash x row : assoc x row <> FCrash.
Proof.
  induction row as [|[k w] r IH]; simpl; [discriminate|].
  destruct (k =? x)%Z; [discriminate|auto].
Qed.

(* ---------- small boolean facts ---------- *)

Lemma sym_eqb_eq a b : sym_eqb a b = true <-> a = b.
Proof.
  destruct a, b; simpl; split; intros H; try discriminate; try congruence.
  - apply Nat.eqb_eq in H. congruence.
  - inversion H. apply Nat.eqb_refl.
  - apply Nat.eqb_eq in H. congruence.
  - inversion H. apply Nat.eqb_refl.
Qed.

Lemma item_eqb_eq a b : item_eqb a b = true <-> a = b.
Proof.
  destruct a as [[p d] l], b as [[p' d'] l']. unfold item_eqb.
  rewrite !andb_true_iff, !Nat.eqb_eq. split.
  - intros [[-> ->] ->]. reflexivity.
  - intros H. inversion H. auto.
Qed.

Lemma has_item_In c s it : has_item c s it = true <-> In it (nth s (c_items c) []).
Proof.
  unfold has_item. rewrite existsb_exists. split.
  - intros (x & Hin & He). apply item_eqb_eq in He. subst. exact Hin.
  - intros H. exists it. split; auto. apply item_eqb_eq. reflexivity.
Qed.

Lemma has_item_lt c s it : has_item c s it = true -> s < length (c_items c).
Proof.
  intros H. apply has_item_In in H.
  destruct (lt_dec s (length (c_items c))); auto.
  rewrite nth_overflow in H by lia. destruct H.
Qed.

Lemma mem_nat_In x l : mem_nat x l = true <-> In x l.
Proof.
  unfold mem_nat. rewrite existsb_exists. split.
  - intros (y & Hin & He). apply Nat.eqb_eq in He. subst. exact Hin.
  - intros H. exists x. split; auto. apply Nat.eqb_refl.
Qed.

Section Facts.
Variable g : grammar.
Variable tb : tables.
Variable c : cert.
Variable nterm : nat.
Hypothesis Hval : validate g tb c nterm = true.

Notation item s p d a := (has_item c s (p, d, a) = true).
Notation nst := (nstates c).

Lemma val_parts :
  0 < nst /\ 1 < nterm /\
  check_arrays g tb c nterm = true /\ check_kinds g tb = true /\ check_sprime g = true /\
  check_nullable_first g c nterm = true /\ check_init c = true /\
  check_items g tb c nterm = true /\ check_rows g tb c nterm = true.
Proof.
  unfold validate in Hval. repeat (apply andb_true_iff in Hval as [Hval ?]).
  apply Nat.ltb_lt in Hval. apply Nat.ltb_lt in H6. repeat split; auto.
Qed.

Lemma val_nterm : 1 < nterm.  Proof. apply val_parts. Qed.
Lemma val_nstates : 0 < nst.  Proof. apply val_parts. Qed.

(* ----- V1 ----- *)
Lemma val_nullable_stable p pr : nth_error g p = Some pr ->
  nullable_word c (rhs pr) = true -> nullable_nt c (lhs pr) = true.
Proof.
  intros Hp Hn. destruct val_parts as (_ & _ & _ & _ & _ & H & _).
  unfold check_nullable_first in H. rewrite forallb_forall in H.
  specialize (H pr (nth_error_In _ _ Hp)). apply andb_true_iff in H as [H _].
  rewrite Hn in H. exact H.
Qed.

Lemma val_first_stable p pr x : nth_error g p = Some pr -> x < nterm ->
  first_word c (rhs pr) x = true -> first_nt c (lhs pr) x = true.
Proof.
  intros Hp Hx Hf. destruct val_parts as (_ & _ & _ & _ & _ & H & _).
  unfold check_nullable_first in H. rewrite forallb_forall in H.
  specialize (H pr (nth_error_In _ _ Hp)). apply andb_true_iff in H as [_ H].
  rewrite forallb_forall in H. specialize (H x). rewrite Hf in H. apply H.
  apply in_seq. lia.
Qed.

(* ----- V4 ----- *)
Lemma val_sprime_fresh p pr pr0 : nth_error g p = Some pr -> nth_error g 0 = Some pr0 ->
  ~ In (NT (lhs pr0)) (rhs pr).
Proof.
  intros Hp H0 Hin. destruct val_parts as (_ & _ & _ & _ & H & _).
  unfold check_sprime in H. destruct g as [|p0 rest] eqn:Hg; [discriminate|].
  simpl in H0. inversion H0; subst pr0.
  destruct (rhs p0) as [|? [|? ?]]; try discriminate.
  apply andb_true_iff in H as [_ H]. rewrite forallb_forall in H.
  specialize (H pr (nth_error_In _ _ Hp)). apply negb_true_iff in H.
  assert (existsb (sym_eqb (NT (lhs p0))) (rhs pr) = true).
  { apply existsb_exists. exists (NT (lhs p0)). split; auto. apply sym_eqb_eq. reflexivity. }
  congruence.
Qed.

Lemma val_start : exists pr0 X, nth_error g 0 = Some pr0 /\ rhs pr0 = [X].
Proof.
  destruct val_parts as (_ & _ & _ & _ & H & _).
  unfold check_sprime in H. destruct g as [|p0 rest]; [discriminate|].
  destruct (rhs p0) as [|X [|? ?]] eqn:E; try discriminate.
  exists p0, X. auto.
Qed.

(* ----- V0 ----- *)
Lemma val_arrays p pr : nth_error g p = Some pr ->
  nthz (t_rules tb) (Z.of_nat p) = Some (Z.of_nat (lhs pr)) /\
  nthz (t_term_counts tb) (Z.of_nat p) = Some (Z.of_nat (length (rhs pr))).
Proof.
  intros Hp. destruct val_parts as (_ & _ & H & _).
  unfold check_arrays in H. apply andb_true_iff in H as [H _].
  apply andb_true_iff in H as [_ H0].
  rewrite forallb_forall in H0. specialize (H0 p).
  rewrite Hp in H0.
  assert (Hin : In p (seq 0 (length g))).
  { apply in_seq. assert (Hne : nth_error g p <> None) by congruence. apply nth_error_Some in Hne. lia. }
  specialize (H0 Hin).
  destruct (nthz (t_rules tb) (Z.of_nat p)) as [r|]; [|discriminate].
  destruct (nthz (t_term_counts tb) (Z.of_nat p)) as [tc|]; [|discriminate].
  apply andb_true_iff in H0 as [E1 E2]. apply Z.eqb_eq in E1, E2. subst. auto.
Qed.

Lemma val_rhs_lt p pr t : nth_error g p = Some pr -> In (T t) (rhs pr) -> t < nterm.
Proof.
  intros Hp Hin. destruct val_parts as (_ & _ & H & _).
  unfold check_arrays in H. apply andb_true_iff in H as [_ H0].
  rewrite forallb_forall in H0. specialize (H0 pr (nth_error_In _ _ Hp)).
  apply andb_true_iff in H0 as [_ H0]. rewrite forallb_forall in H0.
  specialize (H0 _ Hin). simpl in H0. apply Nat.ltb_lt in H0. exact H0.
Qed.

Inductive kind_shape (p n : nat) : rkind -> Prop :=
| ks_user : p <> 0 -> kind_shape p n KUser
| ks_oom : p <> 0 -> n = 1 \/ n = 2 -> kind_shape p n KOneOrMore
| ks_oomf : p <> 0 -> n = 1 \/ n = 2 -> kind_shape p n KOneOrMoreF
| ks_list : p <> 0 -> n = 1 \/ n = 3 -> kind_shape p n KList
| ks_zoo : p <> 0 -> n = 0 \/ n = 1 -> kind_shape p n KZeroOrOne
| ks_zom : p <> 0 -> n = 0 \/ n = 1 -> kind_shape p n KZeroOrMore
| ks_sprime : p = 0 -> kind_shape p n KSPrime.

Lemma val_kinds p pr : nth_error g p = Some pr ->
  exists k, nth_error (t_kinds tb) p = Some k /\ kind_shape p (length (rhs pr)) k.
Proof.
  intros Hp. destruct val_parts as (_ & _ & _ & H & _).
  unfold check_kinds in H. rewrite forallb_forall in H. specialize (H p). rewrite Hp in H.
  assert (Hin : In p (seq 0 (length g))).
  { apply in_seq. assert (Hne : nth_error g p <> None) by congruence. apply nth_error_Some in Hne. lia. }
  specialize (H Hin).
  destruct (nth_error (t_kinds tb) p) as [k|]; [|discriminate].
  exists k. split; auto.
  destruct k; repeat (apply andb_true_iff in H as [H ?]);
    try (apply negb_true_iff in H; apply Nat.eqb_neq in H);
    try (apply orb_true_iff in H0; rewrite !Nat.eqb_eq in H0);
    try (apply Nat.eqb_eq in H);
    constructor; auto.
Qed.

(* ----- V2 / V7 ----- *)
Lemma val_init : item 0 0 0 eof.
Proof.
  destruct val_parts as (_ & _ & _ & _ & _ & _ & H & _).
  unfold check_init in H. apply andb_true_iff in H as [H _]. exact H.
Qed.

Lemma val_init_d0 p d a : item 0 p d a -> d = 0.
Proof.
  intros Hi. destruct val_parts as (_ & _ & _ & _ & _ & _ & H & _).
  unfold check_init in H. apply andb_true_iff in H as [_ H].
  rewrite forallb_forall in H. apply has_item_In in Hi. specialize (H _ Hi). simpl in H.
  apply Nat.eqb_eq in H. exact H.
Qed.

(* ----- V3 / V6 ----- *)
Lemma val_check_item s p d a : item s p d a -> check_item g tb c nterm s (p, d, a) = true.
Proof.
  intros Hi. destruct val_parts as (_ & _ & _ & _ & _ & _ & _ & H & _).
  unfold check_items in H. rewrite forallb_forall in H.
  assert (Hs := has_item_lt _ _ _ Hi).
  specialize (H s). rewrite forallb_forall in H. apply H.
  - apply in_seq. unfold nstates. lia.
  - apply has_item_In. exact Hi.
Qed.

Lemma val_item_prod s p d a : item s p d a -> a < nterm /\ exists pr, nth_error g p = Some pr.
Proof.
  intros Hi. apply val_check_item in Hi. unfold check_item in Hi.
  destruct (nth_error g p) as [pr|]; [|discriminate].
  repeat (apply andb_true_iff in Hi as [Hi ?]). apply Nat.ltb_lt in Hi. eauto.
Qed.

Lemma val_shift s p pr d a t :
  item s p d a -> nth_error g p = Some pr -> nth_error (rhs pr) d = Some (T t) ->
  exists s', action_of tb s t = Some (Shift s') /\ item s' p (S d) a.
Proof.
  intros Hi Hp Hd. apply val_check_item in Hi. unfold check_item in Hi.
  rewrite Hp, Hd in Hi. repeat (apply andb_true_iff in Hi as [Hi ?]).
  destruct (action_of tb s t) as [[s'| |]|]; try discriminate.
  apply andb_true_iff in H0 as [_ H0]. eauto.
Qed.

Lemma val_goto s p pr d a B :
  item s p d a -> nth_error g p = Some pr -> nth_error (rhs pr) d = Some (NT B) ->
  exists s', goto_of tb s B = Some s' /\ item s' p (S d) a.
Proof.
  intros Hi Hp Hd. apply val_check_item in Hi. unfold check_item in Hi.
  rewrite Hp, Hd in Hi. repeat (apply andb_true_iff in Hi as [Hi ?]).
  destruct (goto_of tb s B) as [s'|]; try discriminate.
  repeat (apply andb_true_iff in H0 as [H0 ?]). eauto.
Qed.

Lemma val_closure s p pr d a B q qr x :
  item s p d a -> nth_error g p = Some pr -> nth_error (rhs pr) d = Some (NT B) ->
  nth_error g q = Some qr -> lhs qr = B -> x < nterm ->
  ((nullable_word c (skipn (S d) (rhs pr)) = true /\ x = a) \/
   first_word c (skipn (S d) (rhs pr)) x = true) ->
  item s q 0 x.
Proof.
  intros Hi Hp Hd Hq HB Hx Hfol. apply val_check_item in Hi. unfold check_item in Hi.
  rewrite Hp, Hd in Hi. repeat (apply andb_true_iff in Hi as [Hi ?]).
  destruct (goto_of tb s B) as [s'|]; try discriminate.
  apply andb_true_iff in H0 as [_ H0].
  rewrite forallb_forall in H0. specialize (H0 q).
  rewrite forallb_forall in H0. apply H0.
  - unfold prods_of. apply filter_In. split.
    + apply in_seq. assert (Hne : nth_error g q <> None) by congruence. apply nth_error_Some in Hne. lia.
    + rewrite Hq. apply Nat.eqb_eq. exact HB.
  - apply in_or_app. destruct Hfol as [[Hn ->]|Hf].
    + left. rewrite Hn. left. reflexivity.
    + right. unfold first_word_list. apply filter_In. split; auto. apply in_seq. lia.
Qed.

Lemma val_reduce s p pr a :
  item s p (length (rhs pr)) a -> nth_error g p = Some pr -> p <> 0 ->
  action_of tb s a = Some (Reduce p).
Proof.
  intros Hi Hp Hp0. apply val_check_item in Hi. unfold check_item in Hi.
  rewrite Hp in Hi.
  assert (Hn : nth_error (rhs pr) (length (rhs pr)) = None) by (apply nth_error_None; lia).
  rewrite Hn in Hi. apply andb_true_iff in Hi as [Hi _].
  apply andb_true_iff in Hi as [_ Hi]. apply andb_true_iff in Hi as [_ H0].
  apply Nat.eqb_neq in Hp0. rewrite Hp0 in H0.
  destruct (action_of tb s a) as [[s'|q|]|]; try discriminate.
  apply Nat.eqb_eq in H0. subst. reflexivity.
Qed.

Lemma val_accept s pr0 :
  nth_error g 0 = Some pr0 -> item s 0 (length (rhs pr0)) eof -> action_of tb s eof = Some Acc.
Proof.
  intros Hp Hi. apply val_check_item in Hi. unfold check_item in Hi.
  rewrite Hp in Hi.
  assert (Hn : nth_error (rhs pr0) (length (rhs pr0)) = None) by (apply nth_error_None; lia).
  rewrite Hn in Hi. apply andb_true_iff in Hi as [Hi _].
  apply andb_true_iff in Hi as [_ Hi]. apply andb_true_iff in Hi as [_ H0].
  simpl in H0.
  destruct (action_of tb s eof) as [[s'|q|]|]; try discriminate. reflexivity.
Qed.

Lemma val_v6 s p pr a :
  item s p 0 a -> nth_error g p = Some pr -> p <> 0 ->
  exists s', goto_of tb s (lhs pr) = Some s'.
Proof.
  intros Hi Hp Hp0. apply val_check_item in Hi. unfold check_item in Hi.
  rewrite Hp in Hi. apply andb_true_iff in Hi as [_ Hi].
  apply Nat.eqb_neq in Hp0. rewrite Hp0 in Hi. simpl in Hi.
  destruct (goto_of tb s (lhs pr)) as [s'|]; [eauto|discriminate].
Qed.

(* ----- V5 ----- *)
Lemma val_past s s' X p d a :
  past_ok g c s s' X = true -> item s' p d a ->
  match d with
  | 0 => p <> 0
  | S d' => exists pr a', nth_error g p = Some pr /\ nth_error (rhs pr) d' = Some X /\ item s p d' a'
  end.
Proof.
  intros Hpast Hi. unfold past_ok in Hpast. rewrite forallb_forall in Hpast.
  apply has_item_In in Hi. specialize (Hpast _ Hi). simpl in Hpast.
  destruct d as [|d'].
  - apply negb_true_iff in Hpast. apply Nat.eqb_neq in Hpast. exact Hpast.
  - destruct (nth_error g p) as [pr|] eqn:Hp; [|discriminate].
    destruct (nth_error (rhs pr) d') as [Y|] eqn:Hd; [|discriminate].
    apply andb_true_iff in Hpast as [E Hi']. apply sym_eqb_eq in E. subst.
    unfold has_item0 in Hi'. apply existsb_exists in Hi' as ([[p' d''] a'] & Hin & Hm).
    apply andb_true_iff in Hm as [Hm1 Hm2]. apply Nat.eqb_eq in Hm1, Hm2. subst p' d''.
    exists pr, a'. repeat split; auto.
    unfold has_item. apply existsb_exists. exists (p, d', a'). split; auto.
    unfold item_eqb. rewrite !Nat.eqb_refl. reflexivity.
Qed.

Lemma val_rows s : s < nst ->
  check_action_row g tb c nterm s = true /\ check_goto_row g tb c s = true.
Proof.
  intros Hs. destruct val_parts as (_ & _ & _ & _ & _ & _ & _ & _ & H).
  unfold check_rows in H. rewrite forallb_forall in H. specialize (H s).
  apply andb_true_iff. apply H. apply in_seq. lia.
Qed.

(* what a found action entry means *)
Inductive action_just (s t : nat) : act -> Prop :=
| aj_shift s' : t <> eof -> s' < nst -> past_ok g c s s' (T t) = true -> action_just s t (Shift s')
| aj_reduce p pr : p <> 0 -> nth_error g p = Some pr -> item s p (length (rhs pr)) t ->
    action_just s t (Reduce p)
| aj_acc : t = eof -> item s 0 1 eof -> action_just s t Acc.

Lemma val_action_find s x : s < nst ->
  match find (t_actions tb) (Z.of_nat s) x with
  | FCrash => False
  | FNone => True
  | FFound v => (0 <= x < Z.of_nat nterm)%Z /\ action_just s (Z.to_nat x) (decode_action v)
  end.
Proof.
  intros Hs. destruct (val_rows s Hs) as [H _]. unfold check_action_row in H.
  destruct (row_of (t_actions tb) s) as [row|] eqn:Hrow; [|discriminate].
  rewrite (find_row _ _ _ x Hrow).
  destruct (assoc x row) as [v| |] eqn:Ha; auto.
  - apply andb_true_iff in H as [_ H]. rewrite forallb_forall in H.
    specialize (H _ (assoc_found _ _ _ Ha)). simpl in H.
    apply andb_true_iff in H as [H H0]. apply andb_true_iff in H as [H H1].
    apply Z.leb_le in H. apply Z.ltb_lt in H1. split; [lia|].
    destruct (decode_action v) as [s'|p|].
    + apply andb_true_iff in H0 as [H0 Hp]. apply andb_true_iff in H0 as [H0 H3].
      apply negb_true_iff in H0. apply Nat.eqb_neq in H0. apply Nat.ltb_lt in H3.
      constructor; auto.
    + apply andb_true_iff in H0 as [H0 H2].
      apply negb_true_iff in H0. apply Nat.eqb_neq in H0.
      destruct (nth_error g p) as [pr|] eqn:Hp; [|discriminate].
      econstructor; eauto.
    + apply andb_true_iff in H0 as [H0 H2]. apply Nat.eqb_eq in H0. constructor; auto.
  - exfalso. eapply assoc_nocrash; eauto.
Qed.

Lemma val_goto_find s x : s < nst ->
  match find (t_goto tb) (Z.of_nat s) x with
  | FCrash => False
  | FNone => True
  | FFound v => (0 <= x)%Z /\ (0 <= v)%Z /\ Z.to_nat v < nst /\
                past_ok g c s (Z.to_nat v) (NT (Z.to_nat x)) = true
  end.
Proof.
  intros Hs. destruct (val_rows s Hs) as [_ H]. unfold check_goto_row in H.
  destruct (row_of (t_goto tb) s) as [row|] eqn:Hrow; [|discriminate].
  rewrite (find_row _ _ _ x Hrow).
  destruct (assoc x row) as [v| |] eqn:Ha; auto.
  - apply andb_true_iff in H as [_ H]. rewrite forallb_forall in H.
    specialize (H _ (assoc_found _ _ _ Ha)). simpl in H.
    apply andb_true_iff in H as [H Hp]. apply andb_true_iff in Hp as [Hl Hp].
    apply andb_true_iff in H as [H Hv]. apply andb_true_iff in H as [Hk _].
    apply Z.leb_le in Hk, Hv. apply Nat.ltb_lt in Hl. auto.
  - exfalso. eapply assoc_nocrash; eauto.
Qed.

(* the same, through action_of / goto_of *)
Lemma val_action_of s t a : s < nst -> action_of tb s t = Some a -> t < nterm /\ action_just s t a.
Proof.
  intros Hs Ha. unfold action_of in Ha. pose proof (val_action_find s (Z.of_nat t) Hs) as H.
  destruct (find (t_actions tb) (Z.of_nat s) (Z.of_nat t)) as [v| |]; try discriminate.
  inversion Ha; subst. destruct H as [H1 H2]. rewrite Nat2Z.id in H2. split; [lia|exact H2].
Qed.

Lemma val_goto_of s n s' : s < nst -> goto_of tb s n = Some s' ->
  s' < nst /\ past_ok g c s s' (NT n) = true /\
  find (t_goto tb) (Z.of_nat s) (Z.of_nat n) = FFound (Z.of_nat s').
Proof.
  intros Hs Hg. unfold goto_of in Hg. pose proof (val_goto_find s (Z.of_nat n) Hs) as H.
  destruct (find (t_goto tb) (Z.of_nat s) (Z.of_nat n)) as [v| |]; try discriminate.
  destruct (v <? 0)%Z; [discriminate|]. inversion Hg; subst.
  destruct H as (H1 & H2 & H3 & H4). rewrite Nat2Z.id in H4.
  repeat split; auto. rewrite Z2Nat.id by lia. reflexivity.
Qed.

End Facts.
