(* B3: the _onBounds bookkeeping changes nothing else about a parse.  For all
   tables, all inputs (ERROR tokens included) and both values of rec_enabled,
   the run with emit_bounds = true is, after erasing the bounds of the stack
   entries and the EBounds events, the run with emit_bounds = false -- crashes
   included: the extra type assertion of the shift case never fails because
   _lasym always holds a Token or an Error. *)
From Coq Require Import List Arith ZArith Lia Bool.
From Lox Require Import Parse.Tables Parse.ParseRuntime.
Import ListNotations.
Local Open Scope Z_scope.

Definition erase_item (it : sitem) : sitem :=
  {| i_state := i_state it; i_sym := i_sym it; i_bounds := no_bounds |}.

Definition not_bounds (e : event) : bool :=
  match e with EBounds _ _ _ => false | _ => true end.

Definition erase_state (s : pstate) : pstate :=
  {| stack := map erase_item (stack s); la := la s; lasym := lasym s;
     qla := qla s; qlasym := qlasym s; input := input s; pos := pos s;
     trace := filter not_bounds (trace s);
     shifts := shifts s; rec_shifts := rec_shifts s |}.

Definition erase_outcome (o : outcome) : outcome :=
  match o with
  | Continue s => Continue (erase_state s)
  | Accept s => Accept (erase_state s)
  | Reject s => Reject (erase_state s)
  | Crash => Crash
  | Fuel => Fuel
  end.

(* _lasym holds a Token or an Error *)
Definition tokerr (v : value) : Prop :=
  match v with VTok _ _ | VErr _ _ => True | _ => False end.

Definition Inv (s : pstate) : Prop :=
  tokerr (lasym s) /\ (qla s <> -1 -> tokerr (qlasym s)).

Section Erase.
Variable tb : tables.
Variable discard : value -> bool.

(* ---------- everything but pstep ignores the bounds ---------- *)
Lemma peek_erase st n : peek (map erase_item st) n = option_map erase_item (peek st n).
Proof. unfold peek. apply nth_error_map. Qed.

Lemma peek_sym_erase st n : peek_sym (map erase_item st) n = peek_sym st n.
Proof. unfold peek_sym. rewrite peek_erase. destruct (peek st n); reflexivity. Qed.

Lemma peek_args_erase st n : peek_args (map erase_item st) n = peek_args st n.
Proof.
  induction n as [|n IH]; [reflexivity|]. cbn [peek_args]. rewrite peek_sym_erase, IH. reflexivity.
Qed.

Lemma act_erase st p : act tb discard (map erase_item st) p = act tb discard st p.
Proof.
  unfold act. destruct (p <? 0); [reflexivity|].
  destruct (nth_error (t_kinds tb) (Z.to_nat p)) as [k|]; [|reflexivity].
  destruct (nthz (t_term_counts tb) p) as [tc|]; [|reflexivity].
  destruct k; rewrite ?peek_sym_erase, ?peek_args_erase; reflexivity.
Qed.

Lemma make_error_ext s s' : lasym s' = lasym s -> stack s' = map erase_item (stack s) ->
  make_error tb s' = make_error tb s.
Proof.
  intros Hl Hs. unfold make_error. rewrite Hl, Hs, peek_erase.
  destruct (lasym s); try reflexivity. destruct (peek (stack s) 0); reflexivity.
Qed.

Lemma read_token_erase s : read_token tb (erase_state s) = option_map erase_state (read_token tb s).
Proof.
  unfold read_token. cbn [qla qlasym erase_state].
  destruct (negb (qla s =? -1)); [reflexivity|].
  unfold lex_read. cbn [input pos erase_state]. destruct (input s) as [|ty rest].
  - reflexivity.
  - destruct (ty =? ERROR); [|reflexivity].
    match goal with |- match make_error tb ?a with _ => _ end = option_map _ (match make_error tb ?b with _ => _ end) =>
      rewrite (make_error_ext b a) by reflexivity end.
    match goal with |- context [make_error tb ?b] => destruct (make_error tb b) end; reflexivity.
Qed.

Lemma skip_errors_erase f : forall s,
  skip_errors tb f (erase_state s) = erase_outcome (skip_errors tb f s).
Proof.
  induction f as [|f IH]; intros s; [reflexivity|]. cbn [skip_errors].
  change (la (erase_state s)) with (la s). destruct (la s =? ERROR); [|reflexivity].
  rewrite read_token_erase. destruct (read_token tb s) as [s'|]; [apply IH|reflexivity].
Qed.

Definition erase_pops (r : pops) : pops :=
  match r with
  | PFound st e => PFound (map erase_item st) e
  | r => r
  end.

Lemma states_erase st : map i_state (map erase_item st) = map i_state st.
Proof. rewrite map_map. reflexivity. Qed.

Lemma recover_pops_erase fuel look : forall st e,
  recover_pops tb fuel (map erase_item st) look e = erase_pops (recover_pops tb fuel st look e).
Proof.
  induction st as [|top st IH]; intros e; [reflexivity|].
  change (map erase_item (top :: st)) with (erase_item top :: map erase_item st).
  cbn [recover_pops].
  change (erase_item top :: map erase_item st) with (map erase_item (top :: st)).
  rewrite states_erase. change (i_sym (erase_item top)) with (i_sym top).
  destruct (recover_sim tb fuel (map i_state (top :: st)) look); try reflexivity. apply IH.
Qed.

Lemma recover_outer_erase f : forall e s,
  recover_outer tb f e (erase_state s) = erase_outcome (recover_outer tb f e s).
Proof.
  induction f as [|f IH]; intros e s; [reflexivity|]. cbn [recover_outer].
  change (stack (erase_state s)) with (map erase_item (stack s)).
  change (la (erase_state s)) with (la s).
  rewrite recover_pops_erase.
  destruct (recover_pops tb (S f) (stack s) (la s) e) as [st' e'|e'| |]; try reflexivity.
  cbn [erase_pops]. destruct (la s =? EOF); [reflexivity|].
  rewrite read_token_erase. destruct (read_token tb s) as [s'|]; [apply IH|reflexivity].
Qed.

Lemma drop_if_stuck_erase f s :
  drop_if_stuck tb f (erase_state s) = erase_outcome (drop_if_stuck tb f s).
Proof.
  unfold drop_if_stuck.
  change (shifts (erase_state s)) with (shifts s).
  change (rec_shifts (erase_state s)) with (rec_shifts s).
  change (la (erase_state s)) with (la s).
  destruct (shifts s =? rec_shifts s); [|reflexivity].
  destruct (la s =? EOF); [reflexivity|].
  rewrite read_token_erase. destruct (read_token tb s) as [s'|]; [|reflexivity].
  apply skip_errors_erase.
Qed.

Lemma recover_erase f s : recover tb f (erase_state s) = erase_outcome (recover tb f s).
Proof.
  unfold recover. change (lasym (erase_state s)) with (lasym s).
  rewrite (make_error_ext s (erase_state s)) by reflexivity.
  rewrite skip_errors_erase.
  destruct (match lasym s with VErr _ _ => Some (lasym s) | _ => make_error tb s end) as [e|];
    [|reflexivity].
  destruct (skip_errors tb f s) as [s1| | | |]; try reflexivity. cbn [erase_outcome].
  rewrite drop_if_stuck_erase.
  destruct (drop_if_stuck tb f s1) as [s2| | | |]; try reflexivity. apply recover_outer_erase.
Qed.

(* ---------- _lasym is always a Token or an Error ---------- *)
Lemma make_error_verr s e : make_error tb s = Some e -> tokerr e.
Proof.
  unfold make_error. destruct (lasym s); try discriminate.
  destruct (peek (stack s) 0); try discriminate.
  destruct (row_keys (t_actions tb) (i_state s0)); try discriminate.
  intros H. inversion H. exact I.
Qed.

Lemma read_token_inv s s' : (qla s <> -1 -> tokerr (qlasym s)) ->
  read_token tb s = Some s' -> Inv s'.
Proof.
  intros Hq. unfold read_token. destruct (qla s =? -1) eqn:E; cbn [negb].
  - apply Z.eqb_eq in E. unfold lex_read. destruct (input s) as [|ty rest].
    + cbn. intros H. inversion H; subst. split; cbn; [exact I|]. intros H'. contradiction.
    + destruct (ty =? ERROR).
      * match goal with |- context [make_error tb ?b] => destruct (make_error tb b) as [e|] eqn:Em end;
          [|discriminate].
        intros H. inversion H; subst. split; cbn.
        -- eapply make_error_verr; eauto.
        -- intros H'. contradiction.
      * intros H. inversion H; subst. split; cbn; [exact I|]. intros H'. contradiction.
  - apply Z.eqb_neq in E. intros H. inversion H; subst. split; cbn; [auto|]. intros H'. congruence.
Qed.

Lemma skip_errors_inv f : forall s s', Inv s -> skip_errors tb f s = Continue s' -> Inv s'.
Proof.
  induction f as [|f IH]; intros s s' Hi; [discriminate|]. cbn [skip_errors].
  destruct (la s =? ERROR).
  - destruct (read_token tb s) as [s1|] eqn:E; [|discriminate].
    apply IH. eapply read_token_inv; eauto. apply Hi.
  - intros H. inversion H; subst. exact Hi.
Qed.

Lemma recover_pops_verr fuel look : forall st e, tokerr e ->
  match recover_pops tb fuel st look e with
  | PFound _ e' => tokerr e'
  | PExhausted e' => tokerr e'
  | _ => True
  end.
Proof.
  induction st as [|top st IH]; intros e He; [exact He|]. cbn [recover_pops].
  destruct (recover_sim tb fuel (map i_state (top :: st)) look); auto.
  apply IH. destruct (i_sym top) eqn:Es; auto. exact I.
Qed.

Lemma recover_outer_inv f : forall e, tokerr e -> forall s s', Inv s ->
  recover_outer tb f e s = Continue s' -> Inv s'.
Proof.
  induction f as [|f IH]; intros e He s s' Hi; [discriminate|]. cbn [recover_outer].
  pose proof (recover_pops_verr (S f) (la s) (stack s) e He) as Hp.
  destruct (recover_pops tb (S f) (stack s) (la s) e) as [st' e'|e'| |]; try discriminate.
  - intros H. inversion H; subst. split; cbn; [exact Hp|]. intros _. apply Hi.
  - destruct (la s =? EOF); [discriminate|].
    destruct (read_token tb s) as [s1|] eqn:E; [|discriminate].
    apply IH; [exact Hp|]. eapply read_token_inv; eauto. apply Hi.
Qed.

Lemma drop_if_stuck_inv f s s' : Inv s -> drop_if_stuck tb f s = Continue s' -> Inv s'.
Proof.
  intros Hi. unfold drop_if_stuck. destruct (shifts s =? rec_shifts s).
  - destruct (la s =? EOF); [discriminate|].
    destruct (read_token tb s) as [s1|] eqn:E; [|discriminate].
    apply skip_errors_inv. eapply read_token_inv; eauto. apply Hi.
  - intros H. inversion H; subst. exact Hi.
Qed.

Lemma recover_inv f s s' : Inv s -> recover tb f s = Continue s' -> Inv s'.
Proof.
  intros Hi. unfold recover.
  destruct (match lasym s with VErr _ _ => Some (lasym s) | _ => make_error tb s end) as [e|] eqn:Ee;
    [|discriminate].
  assert (He : tokerr e).
  { destruct (lasym s) eqn:El; try (eapply make_error_verr; eassumption).
    inversion Ee; subst. exact I. }
  destruct (skip_errors tb f s) as [s1| | | |] eqn:Es; try discriminate.
  destruct (drop_if_stuck tb f s1) as [s2| | | |] eqn:Ed; try discriminate.
  apply recover_outer_inv; auto. eapply drop_if_stuck_inv; [|exact Ed].
  eapply skip_errors_inv; eauto.
Qed.

Lemma pstep_inv eb rec f s s' : Inv s -> pstep tb eb rec discard f s = Continue s' -> Inv s'.
Proof.
  intros Hi. unfold pstep.
  destruct (peek (stack s) 0) as [top|]; [|discriminate].
  destruct (find (t_actions tb) (i_state top) (la s)) as [action| |]; [| |discriminate].
  - destruct (action =? accept_code); [discriminate|].
    destruct (action >=? 0).
    + match goal with |- match ?bb with _ => _ end = _ -> _ => destruct bb as [b|] end; [|discriminate].
      cbv zeta. destruct (la s =? ERROR);
        (match goal with |- context [read_token tb ?x] => destruct (read_token tb x) as [s2|] eqn:E end;
           [|discriminate]);
        intros H; inversion H; subst; (eapply read_token_inv; [|exact E]); apply Hi.
    + cbv zeta.
      destruct (nthz (t_term_counts tb) (- action)) as [tc|]; [|discriminate].
      destruct (nthz (t_rules tb) (- action)) as [rule|]; [|discriminate].
      destruct (act tb discard (stack s) (- action)) as [res|]; [|discriminate].
      destruct (tc <? 0); [discriminate|].
      match goal with |- match ?bb with _ => _ end = _ -> _ => destruct bb as [b|] end; [|discriminate].
      destruct (ParseRuntime.pop (stack s) (Z.to_nat tc)) as [st'|]; [|discriminate].
      destruct (peek st' 0) as [top'|]; [|discriminate].
      destruct (find (t_goto tb) (i_state top') rule);
        destruct (eb && negb (b_empty b))%bool; try discriminate;
        intros H; inversion H; subst; exact Hi.
  - destruct rec; [|discriminate]. apply recover_inv. exact Hi.
Qed.

(* ---------- one iteration ---------- *)
Lemma shift_outcome x :
  erase_outcome (match read_token tb x with None => Crash | Some s2 => Continue s2 end) =
  match read_token tb (erase_state x) with None => Crash | Some s2 => Continue s2 end.
Proof. rewrite read_token_erase. destruct (read_token tb x); reflexivity. Qed.

Lemma pstep_erase eb rec f s : (eb = true -> tokerr (lasym s)) ->
  erase_outcome (pstep tb eb rec discard f s) = pstep tb false rec discard f (erase_state s).
Proof.
  intros Hte. unfold pstep.
  change (stack (erase_state s)) with (map erase_item (stack s)).
  change (la (erase_state s)) with (la s).
  rewrite peek_erase.
  destruct (peek (stack s) 0) as [top|]; [|reflexivity]. cbn [option_map].
  change (i_state (erase_item top)) with (i_state top).
  destruct (find (t_actions tb) (i_state top) (la s)) as [action| |]; [| |reflexivity].
  - destruct (action =? accept_code); [reflexivity|].
    destruct (action >=? 0).
    + change (shifts (erase_state s)) with (shifts s).
      change (rec_shifts (erase_state s)) with (rec_shifts s).
      destruct eb.
      * specialize (Hte eq_refl). destruct (lasym s) eqn:El; try contradiction; cbn [latok];
          rewrite <- El; cbv zeta; destruct (la s =? ERROR);
          match goal with |- context [read_token tb ?x] => apply (shift_outcome x) end.
      * cbv zeta. destruct (la s =? ERROR);
          match goal with |- context [read_token tb ?x] => apply (shift_outcome x) end.
    + cbv zeta. rewrite act_erase.
      destruct (nthz (t_term_counts tb) (- action)) as [tc|]; [|reflexivity].
      destruct (nthz (t_rules tb) (- action)) as [rule|]; [|reflexivity].
      destruct (act tb discard (stack s) (- action)) as [res|]; [|reflexivity].
      destruct (tc <? 0); [reflexivity|].
      unfold peek_slice, ParseRuntime.pop. rewrite map_length.
      destruct (Nat.leb (Z.to_nat tc) (length (stack s))).
      * rewrite skipn_map, peek_erase.
        destruct eb; cbv beta iota;
          (destruct (peek (skipn (Z.to_nat tc) (stack s)) 0) as [top'|]; [|reflexivity]);
          cbn [option_map]; change (i_state (erase_item top')) with (i_state top');
          destruct (find (t_goto tb) (i_state top') rule); try reflexivity;
          try (destruct (b_empty (reduce_bounds (rev (firstn (Z.to_nat tc) (stack s))))); reflexivity).
      * destruct eb; reflexivity.
  - destruct rec; [|reflexivity]. symmetry. apply recover_erase.
Qed.

(* ---------- the loop ---------- *)
Lemma ploop_erase eb rec f : forall s, Inv s ->
  erase_outcome (ploop tb eb rec discard f s) = ploop tb false rec discard f (erase_state s).
Proof.
  induction f as [|f IH]; intros s Hi; [reflexivity|]. cbn [ploop].
  rewrite <- (pstep_erase eb rec (S f) s) by (intros _; apply Hi).
  destruct (pstep tb eb rec discard (S f) s) as [s'| | | |] eqn:E; try reflexivity.
  cbn [erase_outcome]. apply IH. eapply pstep_inv; eauto.
Qed.

Lemma erase_init w : erase_state (init_state w) = init_state w.
Proof. reflexivity. Qed.

Lemma parse_erase eb rec f w :
  erase_outcome (parse tb eb rec discard f w) = parse tb false rec discard f w.
Proof.
  unfold parse.
  pose proof (read_token_erase (init_state w)) as Hrd. rewrite erase_init in Hrd.
  destruct (read_token tb (init_state w)) as [s|] eqn:E; [|reflexivity].
  cbn [option_map] in Hrd. injection Hrd as Hs.
  assert (Hi : Inv s).
  { eapply read_token_inv; [|exact E]. cbn. intros H. contradiction. }
  rewrite (ploop_erase eb rec f s Hi). rewrite <- Hs. reflexivity.
Qed.

(* B3: erasing the bounds from the run with _onBounds gives the run without,
   whatever the tables, the input and the recovery mode; in particular the two
   runs accept, reject, crash or run out of fuel together. *)
Theorem bounds_erasure : forall rec fuel w,
  erase_outcome (parse tb true rec discard fuel w) =
  erase_outcome (parse tb false rec discard fuel w).
Proof. intros. rewrite !parse_erase. reflexivity. Qed.

(* the run without _onBounds carries no bounds at all, so it is the erasure itself *)
Theorem bounds_erasure_exact : forall rec fuel w,
  erase_outcome (parse tb true rec discard fuel w) = parse tb false rec discard fuel w.
Proof. intros. apply parse_erase. Qed.

Corollary bounds_accept_iff rec fuel w :
  (exists s, parse tb true rec discard fuel w = Accept s) <->
  (exists s, parse tb false rec discard fuel w = Accept s).
Proof.
  rewrite <- bounds_erasure_exact.
  destruct (parse tb true rec discard fuel w); cbn [erase_outcome];
    split; intros [s' H]; try discriminate; eauto.
Qed.

Corollary bounds_crash_iff rec fuel w :
  parse tb true rec discard fuel w = Crash <-> parse tb false rec discard fuel w = Crash.
Proof.
  rewrite <- bounds_erasure_exact.
  destruct (parse tb true rec discard fuel w); cbn [erase_outcome];
    split; intros H; try discriminate; auto.
Qed.

End Erase.

Print Assumptions bounds_erasure.
Print Assumptions bounds_erasure_exact.
Print Assumptions bounds_accept_iff.
Print Assumptions bounds_crash_iff.
