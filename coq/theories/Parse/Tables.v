(* The emitted parser arrays (_actions, _goto, _rules, _termCounts) and an exact
   mirror of _Find.  Go's index-out-of-range panic is the explicit FCrash. *)
From Coq Require Import List ZArith Bool.
Import ListNotations.
Local Open Scope Z_scope.

Definition nthz (l : list Z) (i : Z) : option Z :=
  if i <? 0 then None else nth_error l (Z.to_nat i).

Inductive fres := FFound (v : Z) | FNone | FCrash.

(* for ; i < end; i += 2 { if table[i] == x { return table[i+1], true } } *)
Fixpoint find_scan (fuel : nat) (t : list Z) (i e x : Z) : fres :=
  match fuel with
  | O => FNone
  | S f =>
    if i <? e then
      match nthz t i with
      | None => FCrash
      | Some k =>
        if k =? x then
          match nthz t (i + 1) with
          | None => FCrash
          | Some v => FFound v
          end
        else find_scan f t (i + 2) e x
      end
    else FNone
  end.

Definition find (t : list Z) (y x : Z) : fres :=
  match nthz t y with
  | None => FCrash
  | Some i =>
    match nthz t i with
    | None => FCrash
    | Some count => find_scan (Z.to_nat count + 1) t (i + 1) (i + 1 + count) x
    end
  end.

(* keys of a row, as _makeError collects them *)
Fixpoint row_keys_scan (fuel : nat) (t : list Z) (i e : Z) (acc : list Z) : option (list Z) :=
  match fuel with
  | O => Some (rev acc)
  | S f =>
    if i <? e then
      match nthz t i with
      | None => None
      | Some k => row_keys_scan f t (i + 2) e (k :: acc)
      end
    else Some (rev acc)
  end.

Definition row_keys (t : list Z) (y : Z) : option (list Z) :=
  match nthz t y with
  | None => None
  | Some i =>
    match nthz t i with
    | None => None
    | Some count => row_keys_scan (Z.to_nat count + 1) t (i + 1) (i + 1 + count) []
    end
  end.

Definition accept_code : Z := 2147483647.

Inductive rkind :=
| KUser | KSPrime | KOneOrMore | KOneOrMoreF | KList | KZeroOrOne | KZeroOrMore.

Record tables := {
  t_actions : list Z;
  t_goto : list Z;
  t_rules : list Z;        (* production -> rule index *)
  t_term_counts : list Z;  (* production -> number of terms *)
  t_kinds : list rkind;    (* production -> how _act treats it (RuleGenerated) *)
}.
