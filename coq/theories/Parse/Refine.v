(* One iteration `pstep` of the generated parser (clean mode: rec_enabled = false)
   simulates one step of the abstract LR machine of LRAbstract.v instantiated
   with the validated tables. *)
From Coq Require Import List Arith ZArith Lia Bool ZifyBool ZifyNat.
From Lox Require Import Parse.Grammar Parse.Tables Parse.Validator Parse.Actions
  Parse.LRAbstract Parse.ValidatorFacts Parse.ParseRuntime.
Import ListNotations.

Definition tokens_of (w : list nat) : list token := combine w (seq 0 (length w)).
Definition zs (w : list nat) : list Z := map Z.of_nat w.
Definition ordinary (nterm : nat) (w : list nat) : Prop := Forall (fun t => 2 <= t < nterm) w.

Definition tokens_from (i : nat) (l : list nat) : list token := combine l (seq i (length l)).
Definition isred (e : event) : bool := match e with ERed _ _ => true | _ => false end.

(* ---------- pstep, case by case (no validator needed) ---------- *)
Section Pstep.
Variable tb : tables.
Variable eb : bool.
Variable discard : value -> bool.

Lemma pstep_fuel_irrel f1 f2 s : pstep tb eb false discard f1 s = pstep tb eb false discard f2 s.
Proof. reflexivity. Qed.

Lemma pstep_reject f s top :
  peek (stack s) 0 = Some top ->
  find (t_actions tb) (i_state top) (la s) = FNone ->
  pstep tb eb false discard f s = Reject s.
Proof. intros H1 H2. unfold pstep. rewrite H1, H2. reflexivity. Qed.

Lemma pstep_accept f s top :
  peek (stack s) 0 = Some top ->
  find (t_actions tb) (i_state top) (la s) = FFound accept_code ->
  pstep tb eb false discard f s = Accept s.
Proof. intros H1 H2. unfold pstep. rewrite H1, H2. reflexivity. Qed.

Lemma pstep_shift f s top v ty id :
  peek (stack s) 0 = Some top ->
  find (t_actions tb) (i_state top) (la s) = FFound v ->
  v <> accept_code -> (0 <= v)%Z -> lasym s = VTok ty id -> la s <> ERROR ->
  exists b,
    pstep tb eb false discard f s =
    match read_token tb
            (set_shifts (set_stack s ({| i_state := v; i_sym := lasym s; i_bounds := b |} :: stack s))
                        (shifts s + 1) (rec_shifts s)) with
    | None => Crash
    | Some s2 => Continue s2
    end.
Proof.
  intros H1 H2 Hna Hv Hl Hne. unfold pstep. rewrite H1, H2.
  assert (En : (la s =? ERROR)%Z = false) by (apply Z.eqb_neq; exact Hne). rewrite En.
  destruct (v =? accept_code)%Z eqn:E; [apply Z.eqb_eq in E; contradiction|].
  rewrite Z.geb_leb. destruct (0 <=? v)%Z eqn:E2; [|apply Z.leb_gt in E2; lia].
  destruct eb.
  - rewrite Hl. simpl. eexists. reflexivity.
  - eexists. reflexivity.
Qed.

Lemma pstep_reduce f s top v tc rule res top' ns :
  peek (stack s) 0 = Some top ->
  find (t_actions tb) (i_state top) (la s) = FFound v ->
  v <> accept_code -> (v < 0)%Z ->
  nthz (t_term_counts tb) (- v) = Some tc -> nthz (t_rules tb) (- v) = Some rule ->
  act tb discard (stack s) (- v) = Some res ->
  (0 <= tc)%Z -> Z.to_nat tc <= length (stack s) ->
  peek (skipn (Z.to_nat tc) (stack s)) 0 = Some top' ->
  find (t_goto tb) (i_state top') rule = FFound ns ->
  exists b s1,
    pstep tb eb false discard f s =
    Continue (set_stack s1 ({| i_state := ns; i_sym := res; i_bounds := b |}
                              :: skipn (Z.to_nat tc) (stack s))) /\
    la s1 = la s /\ lasym s1 = lasym s /\ qla s1 = qla s /\ input s1 = input s /\
    pos s1 = pos s /\ filter isred (trace s1) = ERed (- v) res :: filter isred (trace s).
Proof.
  intros H1 H2 Hna Hv Htc Hrule Hact Htc0 Hlen Hpk Hg. unfold pstep. rewrite H1, H2.
  destruct (v =? accept_code)%Z eqn:E; [apply Z.eqb_eq in E; contradiction|].
  rewrite Z.geb_leb. destruct (0 <=? v)%Z eqn:E2; [apply Z.leb_le in E2; lia|].
  rewrite Htc, Hrule, Hact.
  destruct (tc <? 0)%Z eqn:E3; [apply Z.ltb_lt in E3; lia|].
  unfold ParseRuntime.pop, peek_slice.
  assert (Hleb : Nat.leb (Z.to_nat tc) (length (stack s)) = true) by (apply Nat.leb_le; exact Hlen).
  rewrite Hleb. destruct eb; cbv beta iota zeta.
  - rewrite Hpk, Hg.
    destruct (b_empty (reduce_bounds (rev (firstn (Z.to_nat tc) (stack s))))); cbv beta iota delta [andb negb];
      do 2 eexists; (split; [reflexivity|]); simpl; repeat split; reflexivity.
  - rewrite Hpk, Hg. cbv beta iota delta [andb negb].
    do 2 eexists. split; [reflexivity|]. simpl. repeat split; reflexivity.
Qed.

(* _readToken on a clean state *)
Lemma read_token_spec s :
  qla s = (-1)%Z -> (forall t, In t (input s) -> t <> 1%Z) ->
  exists s', read_token tb s = Some s' /\ stack s' = stack s /\ trace s' = trace s /\
             qla s' = (-1)%Z /\
             match input s with
             | [] => la s' = 0%Z /\ lasym s' = VTok 0 (pos s) /\ input s' = [] /\ pos s' = pos s
             | t :: r => la s' = t /\ lasym s' = VTok t (pos s) /\ input s' = r /\ pos s' = S (pos s)
             end.
Proof.
  intros Hq Hne. unfold read_token. rewrite Hq. simpl. unfold lex_read.
  destruct (input s) as [|t r] eqn:Hin.
  - simpl. eexists. split; [reflexivity|]. simpl. rewrite Hin. repeat split; auto.
  - destruct (t =? ERROR)%Z eqn:E.
    + apply Z.eqb_eq in E. exfalso. apply (Hne t); [left; reflexivity|exact E].
    + eexists. split; [reflexivity|]. simpl. repeat split; auto.
Qed.

End Pstep.

(* ---------- the refinement relation ---------- *)
Section Refine.
Variable g : grammar.
Variable tb : tables.
Variable c : cert.
Variable nterm : nat.
Variable eb : bool.
Variable discard : value -> bool.
Hypothesis Hval : validate g tb c nterm = true.
Variable w : list nat.

Notation nst := (nstates c).
Notation evalt := (eval tb discard).
Notation astep' := (astep g (action_of tb) (goto_of tb) (length w)).

Inductive stack_rel : list sitem -> list (nat * tree) -> Prop :=
| sr_bot b : i_state b = 0%Z -> stack_rel [b] []
| sr_cons it s t cs stk :
    i_state it = Z.of_nat s -> i_sym it = evalt t -> s < nst ->
    stack_rel cs stk -> stack_rel (it :: cs) ((s, t) :: stk).

Definition ev (t : tree) : event :=
  match t with
  | Node p _ => ERed (Z.of_nat p) (evalt t)
  | Leaf _ => ERed 0 VNil
  end.

Definition la_rel (inp : list token) (s : pstate) : Prop :=
  exists i l, inp = tokens_from i l /\ i + length l = length w /\
    Forall (fun t => 2 <= t < nterm) l /\
    la s = Z.of_nat (hd 0 l) /\ lasym s = VTok (la s) i /\
    input s = zs (tl l) /\ pos s = Nat.min (S i) (length w).

Record R (stk : list (nat * tree)) (inp : list token) (tr : list tree) (s : pstate) : Prop := {
  R_stack : stack_rel (stack s) stk;
  R_qla : qla s = (-1)%Z;
  R_la : la_rel inp s;
  R_trace : filter isred (trace s) = map ev tr;
}.

Lemma stack_rel_top cs stk : stack_rel cs stk ->
  exists top, peek cs 0 = Some top /\ i_state top = Z.of_nat (topst stk) /\ topst stk < nst.
Proof.
  intros H. destruct H.
  - exists b. simpl. repeat split; auto. apply (val_nstates g tb c nterm Hval).
  - exists it. simpl. auto.
Qed.

Lemma stack_rel_len cs stk : stack_rel cs stk -> length cs = S (length stk).
Proof. induction 1; simpl; auto. Qed.

Lemma stack_rel_skipn n : forall cs stk, stack_rel cs stk -> n <= length stk ->
  stack_rel (skipn n cs) (skipn n stk).
Proof.
  induction n as [|n IH]; intros cs stk H Hn; simpl; auto.
  destruct H; simpl in *; [lia|]. apply IH; auto. lia.
Qed.

Lemma apop_spec n : forall (stk : list (nat * tree)) ch rest,
  LRAbstract.pop n stk = Some (ch, rest) ->
  n <= length stk /\ rest = skipn n stk /\ length ch = n.
Proof.
  induction n as [|n IH]; intros stk ch rest H; simpl in H.
  - inversion H; subst. simpl. auto with arith.
  - destruct stk as [|[s t] stk]; [discriminate|].
    destruct (LRAbstract.pop n stk) as [[ts r]|] eqn:E; [|discriminate].
    inversion H; subst. destruct (IH _ _ _ E) as (H1 & H2 & H3).
    simpl. rewrite app_length. simpl. repeat split; auto; lia.
Qed.

(* the arguments of the action: Peek(n-1) ... Peek(0) are the values of the children *)
Lemma peek_args_pop n : forall cs (stk : list (nat * tree)) ch rest,
  stack_rel cs stk -> LRAbstract.pop n stk = Some (ch, rest) ->
  peek_args cs n = Some (map evalt ch) /\
  (forall j, j < n -> peek_sym cs j = option_map evalt (nth_error ch (n - 1 - j))).
Proof.
  induction n as [|n IH]; intros cs stk ch rest Hrel H; simpl in H.
  - inversion H; subst. simpl. split; auto. intros; lia.
  - destruct stk as [|[s t] stk]; [discriminate|].
    destruct (LRAbstract.pop n stk) as [[ts r]|] eqn:E; [|discriminate].
    inversion H; subst. inversion Hrel as [|it s0 t0 cs0 stk0 Hst0 H5 Hlt0 Hrel0]; subst.
    destruct (IH _ _ _ _ Hrel0 E) as [IH1 IH2].
    destruct (apop_spec _ _ _ _ E) as (Hn & _ & Hlen).
    assert (Hshift : forall j, peek_sym (it :: cs0) (S j) = peek_sym cs0 j) by reflexivity.
    assert (Hargs : forall k, k <= n ->
              peek_args (it :: cs0) (S k) =
              match peek_args cs0 k with Some l => Some (l ++ [i_sym it]) | None => None end).
    { induction k as [|k IHk]; intros Hk.
      - reflexivity.
      - change (peek_args (it :: cs0) (S (S k)))
          with (match peek_sym (it :: cs0) (S k), peek_args (it :: cs0) (S k) with
                | Some v, Some rest => Some (v :: rest) | _, _ => None end).
        rewrite IHk by lia. rewrite Hshift. simpl.
        destruct (peek_sym cs0 k); auto. destruct (peek_args cs0 k); auto. }
    split.
    + rewrite Hargs by lia. rewrite IH1. rewrite map_app. rewrite H5. reflexivity.
    + intros j Hj. destruct j as [|j].
      * simpl. replace (n - 0 - 0) with (length ts) by lia.
        rewrite nth_error_app2 by lia. rewrite Nat.sub_diag. unfold peek_sym. simpl. rewrite H5. reflexivity.
      * rewrite Hshift. rewrite IH2 by lia.
        replace (S n - 1 - S j) with (n - 1 - j) by lia.
        rewrite nth_error_app1 by lia. reflexivity.
Qed.

Lemma act_eval cs stk p pr ch rest :
  nth_error g p = Some pr -> p <> 0 -> stack_rel cs stk ->
  LRAbstract.pop (length (rhs pr)) stk = Some (ch, rest) ->
  act tb discard cs (Z.of_nat p) = Some (evalt (Node p ch)).
Proof.
  intros Hp Hp0 Hrel Hpop.
  destruct (val_kinds g tb c nterm Hval p pr Hp) as (k & Hk & Hshape).
  destruct (val_arrays g tb c nterm Hval p pr Hp) as [_ Htc].
  destruct (peek_args_pop _ _ _ _ _ Hrel Hpop) as [Hargs Hpk].
  destruct (apop_spec _ _ _ _ Hpop) as (_ & _ & Hlen).
  unfold act. assert (E : (Z.of_nat p <? 0)%Z = false) by (apply Z.ltb_ge; lia). rewrite E.
  rewrite Nat2Z.id, Hk, Htc. simpl eval. unfold act_val, kind_of.
  rewrite (nth_error_nth _ _ KUser Hk).
  remember (length (rhs pr)) as n eqn:Heqn.
  inversion Hshape as [Hq|Hq H0|Hq H0|Hq H0|Hq H0|Hq H0|Hq]; subst k.
  - assert (E2 : (Z.of_nat n <? 0)%Z = false) by (apply Z.ltb_ge; lia). rewrite E2.
    rewrite Nat2Z.id, Hargs. reflexivity.
  - destruct H0 as [H0|H0]; rewrite H0 in *.
    + rewrite (Hpk 0) by lia.
      destruct ch as [|t0 [|? ?]]; try discriminate. reflexivity.
    + rewrite (Hpk 1), (Hpk 0) by lia.
      destruct ch as [|t1 [|t0 [|? ?]]]; try discriminate. reflexivity.
  - destruct H0 as [H0|H0]; rewrite H0 in *.
    + rewrite (Hpk 0) by lia.
      destruct ch as [|t0 [|? ?]]; try discriminate. reflexivity.
    + rewrite (Hpk 1), (Hpk 0) by lia.
      destruct ch as [|t1 [|t0 [|? ?]]]; try discriminate. reflexivity.
  - destruct H0 as [H0|H0]; rewrite H0 in *.
    + rewrite (Hpk 0) by lia.
      destruct ch as [|t0 [|? ?]]; try discriminate. reflexivity.
    + rewrite (Hpk 2), (Hpk 0) by lia.
      destruct ch as [|t2 [|t1 [|t0 [|? ?]]]]; try discriminate. reflexivity.
  - destruct H0 as [H0|H0]; rewrite H0 in *.
    + destruct ch; try discriminate. reflexivity.
    + rewrite (Hpk 0) by lia.
      destruct ch as [|t0 [|? ?]]; try discriminate. reflexivity.
  - destruct H0 as [H0|H0]; rewrite H0 in *.
    + destruct ch; try discriminate. reflexivity.
    + rewrite (Hpk 0) by lia.
      destruct ch as [|t0 [|? ?]]; try discriminate. reflexivity.
  - contradiction.
Qed.

(* ---------- reading the next token keeps the lookahead relation ---------- *)
Lemma la_rel_next s s1 i t l cs :
  la_rel (tokens_from i (t :: l)) s -> qla s = (-1)%Z ->
  stack s1 = cs -> la s1 = la s -> lasym s1 = lasym s -> qla s1 = qla s ->
  input s1 = input s -> pos s1 = pos s -> trace s1 = trace s ->
  exists s2, read_token tb s1 = Some s2 /\ stack s2 = cs /\ trace s2 = trace s /\
             qla s2 = (-1)%Z /\ la_rel (tokens_from (S i) l) s2.
Proof.
  intros (i0 & l0 & Hinp & Hlen & Hord & Hla & Hsym & Hin & Hpos) Hq Hst Hla1 Hsym1 Hq1 Hin1 Hpos1 Htr1.
  assert (i0 = i /\ l0 = t :: l) as [-> ->].
  { unfold tokens_from in Hinp. destruct l0 as [|t0 l0]; simpl in Hinp; [discriminate|].
    inversion Hinp; subst.
    assert (l0 = l); [|subst; auto].
    assert (Hm : map fst (combine l (seq (S i0) (length l))) = map fst (combine l0 (seq (S i0) (length l0))))
      by (rewrite H2; reflexivity).
    assert (Hf : forall (a : list nat) k, map fst (combine a (seq k (length a))) = a).
    { induction a; simpl; intros; auto. rewrite IHa. reflexivity. }
    rewrite !Hf in Hm. auto. }
  simpl hd in *; simpl tl in *; simpl length in *. inversion Hord as [|? ? Ht Hord']; subst.
  destruct (read_token_spec tb s1) as (s2 & Hrd & Hst2 & Htr2 & Hq2 & Hcase).
  - congruence.
  - rewrite Hin1, Hin. intros z Hz. unfold zs in Hz. apply in_map_iff in Hz as (n & <- & Hn).
    rewrite Forall_forall in Hord'. specialize (Hord' n Hn). lia.
  - exists s2. repeat split; try congruence.
    rewrite Hin1, Hin, Hpos1, Hpos in Hcase.
    exists (S i), l. destruct l as [|t' l']; simpl hd in *; simpl tl in *; simpl length in *;
      simpl zs in Hcase.
    + destruct Hcase as (H1 & H2 & H3 & H4).
      repeat split; auto; try lia; try (rewrite H1, H2; f_equal; lia); try (rewrite H4; lia).
    + destruct Hcase as (H1 & H2 & H3 & H4).
      repeat split; auto; try lia; try (rewrite H1, H2; f_equal; lia); try (rewrite H4; lia).
Qed.

Lemma la_rel_eof s s1 cs :
  la_rel [] s -> qla s = (-1)%Z ->
  stack s1 = cs -> la s1 = la s -> lasym s1 = lasym s -> qla s1 = qla s ->
  input s1 = input s -> pos s1 = pos s -> trace s1 = trace s ->
  lasym s = VTok 0 (length w) /\
  exists s2, read_token tb s1 = Some s2 /\ stack s2 = cs /\ trace s2 = trace s /\
             qla s2 = (-1)%Z /\ la_rel [] s2.
Proof.
  intros (i0 & l0 & Hinp & Hlen & Hord & Hla & Hsym & Hin & Hpos) Hq Hst Hla1 Hsym1 Hq1 Hin1 Hpos1 Htr1.
  assert (l0 = []) as ->.
  { unfold tokens_from in Hinp. destruct l0; simpl in Hinp; [auto|discriminate]. }
  simpl hd in *; simpl tl in *; simpl length in *. assert (i0 = length w) by lia. subst i0.
  split; [rewrite Hsym, Hla; reflexivity|].
  destruct (read_token_spec tb s1) as (s2 & Hrd & Hst2 & Htr2 & Hq2 & Hcase).
  - congruence.
  - rewrite Hin1, Hin. simpl. intros ? [].
  - exists s2. repeat split; try congruence.
    rewrite Hin1, Hin, Hpos1, Hpos in Hcase. simpl zs in Hcase. cbv iota in Hcase.
    destruct Hcase as (H1 & H2 & H3 & H4).
    exists (length w), []. simpl hd; simpl tl; simpl length.
    repeat split; auto; try lia; try (rewrite H1, H2; f_equal; lia); try (rewrite H4; lia).
Qed.

Lemma la_rel_la inp s : la_rel inp s ->
  la s = Z.of_nat (la_of inp) /\ la_of inp < nterm /\ exists id, lasym s = VTok (la s) id.
Proof.
  intros (i & l & Hinp & Hlen & Hord & Hla & Hsym & _). subst inp.
  destruct l as [|t l]; simpl in *.
  - repeat split; eauto. unfold eof. pose proof (val_nterm g tb c nterm Hval). lia.
  - inversion Hord; subst. repeat split; eauto. lia.
Qed.

Lemma la_rel_noerr inp s : la_rel inp s -> la s <> ERROR.
Proof.
  intros (i & l & Hinp & Hlen & Hord & Hla & _). rewrite Hla. unfold ERROR.
  destruct l as [|t l]; simpl; [lia|]. inversion Hord; subst. lia.
Qed.

(* ---------- the simulation ---------- *)
Theorem sim_step f stk inp tr s :
  R stk inp tr s ->
  match astep' (stk, inp, tr) with
  | ANext (stk', inp', tr') =>
      exists s', pstep tb eb false discard f s = Continue s' /\ R stk' inp' tr' s'
  | AAcc => pstep tb eb false discard f s = Accept s
  | ARej => pstep tb eb false discard f s = Reject s
  | AStuck => True
  end.
Proof.
  intros [Hst Hq Hla Htr].
  destruct (stack_rel_top _ _ Hst) as (top & Hpk & Htop & Hlt).
  destruct (la_rel_la _ _ Hla) as (Hlaz & Hlalt & id & Hsym).
  pose proof (val_action_find g tb c nterm Hval (topst stk) (la s) Hlt) as Hfind.
  unfold astep, action_of. rewrite <- Hlaz, <- Htop.
  rewrite <- Htop in Hfind.
  destruct (find (t_actions tb) (i_state top) (la s)) as [v| |] eqn:Hf.
  - destruct Hfind as [Hrange Hjust].
    rewrite Hlaz, Nat2Z.id in Hjust.
    unfold decode_action in *.
    destruct (v =? accept_code)%Z eqn:E.
    + apply Z.eqb_eq in E. subst v. eapply pstep_accept; eauto.
    + apply Z.eqb_neq in E. rewrite Z.geb_leb in *.
      destruct (0 <=? v)%Z eqn:E2.
      * (* shift *)
        apply Z.leb_le in E2. inversion Hjust as [s' Hne Hs' Hpast| |]; subst.
        destruct (pstep_shift tb eb discard f s top v _ _ Hpk Hf E E2 Hsym (la_rel_noerr _ _ Hla))
          as (b & Hps).
        rewrite Hps.
        set (s1 := set_shifts _ _ _) in *.
        destruct Hla as (i & l & Hinp & Hla').
        destruct l as [|t l].
        -- (* shifting the EOF token: excluded by the validator *)
           subst inp. simpl in Hne. unfold eof in Hne. congruence.
        -- subst inp. unfold tokens_from at 1. simpl.
           fold (tokens_from (S i) l).
           assert (Hla0 : la_rel (tokens_from i (t :: l)) s) by (exists i, (t :: l); auto).
           destruct (la_rel_next s s1 i t l (stack s1) Hla0 Hq) as (s2 & Hrd & Hst2 & Htr2 & Hq2 & Hla2);
             try reflexivity.
           rewrite Hrd. exists s2. split; auto. constructor; auto.
           ++ rewrite Hst2. subst s1. simpl. constructor; auto.
              ** rewrite Z2Nat.id by lia. reflexivity.
              ** simpl. destruct Hla' as (_ & _ & Hla' & Hsym' & _). simpl in Hla'.
                 rewrite Hsym', Hla'. reflexivity.
           ++ rewrite Htr2. exact Htr.
      * (* reduce *)
        apply Z.leb_gt in E2. inversion Hjust as [|p pr Hp0 Hp Hitem|]; subst.
        rewrite Hp.
        destruct (LRAbstract.pop (length (rhs pr)) stk) as [[ch rest]|] eqn:Hpop; [|exact I].
        destruct (goto_of tb (topst rest) (lhs pr)) as [s'|] eqn:Hg; [|exact I].
        destruct (apop_spec _ _ _ _ Hpop) as (Hn & Hrest & Hlen).
        destruct (val_arrays g tb c nterm Hval _ pr Hp) as [Hrule Htc].
        assert (Hv : (- v)%Z = Z.of_nat (Z.to_nat (- v))) by (rewrite Z2Nat.id; lia).
        rewrite <- Hv in Hrule, Htc.
        pose proof (act_eval _ _ _ _ _ _ Hp Hp0 Hst Hpop) as Hact. rewrite <- Hv in Hact.
        pose proof (stack_rel_skipn (length (rhs pr)) _ _ Hst Hn) as Hrel'.
        rewrite <- Hrest in Hrel'.
        destruct (stack_rel_top _ _ Hrel') as (top' & Hpk' & Htop' & Hlt').
        destruct (val_goto_of g tb c nterm Hval _ _ _ Hlt' Hg) as (Hs' & _ & Hgf).
        rewrite <- Htop' in Hgf.
        destruct (pstep_reduce tb eb discard f s top v _ _ _ top' (Z.of_nat s') Hpk Hf E E2 Htc Hrule Hact)
          as (b & s1 & Hps & H1 & H2 & H3 & H4 & H5 & H6).
        -- lia.
        -- rewrite Nat2Z.id. rewrite (stack_rel_len _ _ Hst). lia.
        -- rewrite Nat2Z.id. exact Hpk'.
        -- exact Hgf.
        -- rewrite Hps. eexists. split; [reflexivity|]. rewrite Nat2Z.id.
           constructor; cbn [la lasym input pos qla stack trace set_stack].
           ++ constructor; auto.
           ++ congruence.
           ++ destruct Hla as (i & l & Hinp & Hlen' & Hord & Hla' & Hsym' & Hin & Hpos).
              exists i, l. cbn [la lasym input pos qla stack trace set_stack].
              repeat split; auto; congruence.
           ++ rewrite H6, Htr. simpl. rewrite <- Hv. reflexivity.
  - eapply pstep_reject; eauto.
  - destruct Hfind.
Qed.

(* ---------- initial configuration ---------- *)
Lemma R_init : ordinary nterm w ->
  exists s0, read_token tb (init_state (zs w)) = Some s0 /\ R [] (tokens_of w) [] s0.
Proof.
  intros Hord.
  destruct (read_token_spec tb (init_state (zs w))) as (s0 & Hrd & Hst & Htr & Hq & Hcase).
  - reflexivity.
  - simpl. intros z Hz. unfold zs in Hz. apply in_map_iff in Hz as (n & <- & Hn).
    unfold ordinary in Hord. rewrite Forall_forall in Hord. specialize (Hord n Hn). lia.
  - exists s0. split; auto. constructor.
    + rewrite Hst. simpl. constructor. reflexivity.
    + exact Hq.
    + exists 0, w. simpl in Hcase. unfold tokens_of, tokens_from.
      destruct w as [|t l]; simpl in *.
      * destruct Hcase as (H1 & H2 & H3 & H4).
        repeat split; auto; try exact Hord; try (rewrite H1, H2; reflexivity); try (rewrite H4; lia).
      * destruct Hcase as (H1 & H2 & H3 & H4).
        repeat split; auto; try exact Hord; try (rewrite H1, H2; reflexivity); try (rewrite H4; lia).
    + rewrite Htr. reflexivity.
Qed.

End Refine.
