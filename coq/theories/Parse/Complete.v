(* Completeness of the generated parser w.r.t. the grammar (P1, P2), uniqueness
   of parse trees (P5) and fuel monotonicity (P6). *)
From Coq Require Import List Arith ZArith Lia Bool.
From Lox Require Import Parse.Grammar Parse.Tables Parse.Validator Parse.Actions
  Parse.LRAbstract Parse.ValidatorFacts Parse.ParseRuntime Parse.Refine.
Import ListNotations.

(* induction on trees with the children as a Forall *)
Section TreeInd.
Variable P : tree -> Prop.
Hypothesis Hleaf : forall tok, P (Leaf tok).
Hypothesis Hnode : forall p ch, Forall P ch -> P (Node p ch).
Fixpoint tree_ind' (t : tree) : P t :=
  match t with
  | Leaf tok => Hleaf tok
  | Node p ch =>
    Hnode p ch ((fix go (l : list tree) : Forall P l :=
                   match l with
                   | [] => Forall_nil P
                   | x :: r => Forall_cons x (tree_ind' x) (go r)
                   end) ch)
  end.
End TreeInd.

Lemma filter_rev' {A} (f : A -> bool) (l : list A) : filter f (rev l) = rev (filter f l).
Proof.
  induction l as [|a l IH]; simpl; auto.
  rewrite filter_app, IH. simpl. destruct (f a); simpl; auto. rewrite app_nil_r. reflexivity.
Qed.

(* ---------- fuel ---------- *)
Section Fuel.
Variable tb : tables.
Variable eb : bool.
Variable discard : value -> bool.

Lemma ploop_S f s :
  ploop tb eb false discard (S f) s =
  match pstep tb eb false discard (S f) s with
  | Continue s' => ploop tb eb false discard f s'
  | o => o
  end.
Proof. reflexivity. Qed.

Lemma ploop_mono f1 : forall f2 s o, f1 <= f2 -> o <> Fuel ->
  ploop tb eb false discard f1 s = o -> ploop tb eb false discard f2 s = o.
Proof.
  induction f1 as [|f1 IH]; intros f2 s o Hle Ho H.
  - simpl in H. congruence.
  - destruct f2 as [|f2]; [lia|]. rewrite ploop_S in *.
    rewrite (pstep_fuel_irrel tb eb discard (S f2) (S f1)).
    destruct (pstep tb eb false discard (S f1) s); auto. apply IH; auto. lia.
Qed.

Lemma parse_mono f1 f2 zw o : f1 <= f2 -> o <> Fuel ->
  parse tb eb false discard f1 zw = o -> parse tb eb false discard f2 zw = o.
Proof.
  unfold parse. intros Hle Ho. destruct (read_token tb (init_state zw)); auto.
  apply ploop_mono; auto.
Qed.

(* P6 *)
Theorem parse_fuel_monotone w f1 f2 s : f1 <= f2 ->
  parse tb eb false discard f1 (zs w) = Accept s -> parse tb eb false discard f2 (zs w) = Accept s.
Proof. intros. eapply parse_mono; eauto. discriminate. Qed.

Theorem parse_fuel_monotone_reject w f1 f2 s : f1 <= f2 ->
  parse tb eb false discard f1 (zs w) = Reject s -> parse tb eb false discard f2 (zs w) = Reject s.
Proof. intros. eapply parse_mono; eauto. discriminate. Qed.

Theorem parse_fuel_monotone_crash w f1 f2 : f1 <= f2 ->
  parse tb eb false discard f1 (zs w) = Crash -> parse tb eb false discard f2 (zs w) = Crash.
Proof. intros. eapply parse_mono; eauto. discriminate. Qed.

End Fuel.

Section Complete.
Variable g : grammar.
Variable tb : tables.
Variable c : cert.
Variable nterm : nat.
Variable eb : bool.
Variable discard : value -> bool.
Hypothesis Hval : validate g tb c nterm = true.

Notation evalt := (eval tb discard).

Lemma ev_reds : forall t, map (ev tb discard) (reds t) = reductions tb discard t.
Proof.
  induction t as [tok|p ch IH] using tree_ind'; [reflexivity|].
  simpl reds. simpl reductions. rewrite map_app. simpl. f_equal.
  induction IH as [|x l Hx Hl IHl]; simpl; auto.
  rewrite map_app, Hx, IHl. reflexivity.
Qed.

Lemma tok_ok_from l : forall i, Forall (fun t => 2 <= t < nterm) l ->
  Forall (tok_ok nterm) (tokens_from i l).
Proof.
  induction l as [|t l IH]; intros i H; unfold tokens_from; simpl; constructor.
  - inversion H; subst. unfold tok_ok. simpl. lia.
  - inversion H; subst. apply IH. assumption.
Qed.

Section Word.
Variable w : list nat.
Hypothesis Hord : ordinary nterm w.

Notation reach' := (reach g (action_of tb) (goto_of tb) (length w)).
Notation astep' := (astep g (action_of tb) (goto_of tb) (length w)).
Notation R' := (R tb c nterm discard w).

(* a run of the abstract machine is a run of the generated parser *)
Lemma reach_ploop x1 x2 : reach' x1 x2 ->
  forall s1, R' (fst (fst x1)) (snd (fst x1)) (snd x1) s1 ->
  exists n s2, R' (fst (fst x2)) (snd (fst x2)) (snd x2) s2 /\
    forall k, ploop tb eb false discard (n + k) s1 = ploop tb eb false discard k s2.
Proof.
  induction 1 as [x|x1 x2 x3 Hs Hr IH]; intros s1 HR.
  - exists 0, s1. split; auto.
  - destruct x1 as [[stk inp] tr]. simpl in HR.
    pose proof (sim_step g tb c nterm eb discard Hval w) as Hsim.
    destruct x2 as [[stk2 inp2] tr2].
    assert (Hstep : forall f, exists s', pstep tb eb false discard f s1 = Continue s' /\ R' stk2 inp2 tr2 s').
    { intros f. specialize (Hsim f stk inp tr s1 HR).
      match type of Hsim with match ?a with _ => _ end =>
        replace a with (ANext (stk2, inp2, tr2)) in Hsim by (symmetry; exact Hs) end.
      exact Hsim. }
    destruct (Hstep 0) as (s' & Hp0 & HR').
    destruct (IH s' HR') as (n & s2 & HR2 & Hk).
    exists (S n), s2. split; auto. intros k.
    change (S n + k) with (S (n + k)). rewrite ploop_S.
    rewrite (pstep_fuel_irrel tb eb discard (S (n + k)) 0), Hp0. apply Hk.
Qed.

Lemma abstract_accept X t :
  start_sym g = Some X -> wt g X t (tokens_of w) ->
  exists s', reach' ([], tokens_of w, []) ([(s', t)], [], rev (reds t)) /\
             astep' ([(s', t)], [], rev (reds t)) = AAcc.
Proof.
  intros Hs Ht.
  apply (follow_accept g c nterm (action_of tb) (goto_of tb) (length w)) with (X := X); auto.
  - pose proof (val_nterm g tb c nterm Hval). unfold eof. lia.
  - apply (val_nullable_stable g tb c nterm Hval).
  - apply (val_first_stable g tb c nterm Hval).
  - apply (val_sprime_fresh g tb c nterm Hval).
  - apply (val_init g tb c nterm Hval).
  - intros. eapply (val_closure g tb c nterm Hval); eauto.
  - apply (val_shift g tb c nterm Hval).
  - apply (val_goto g tb c nterm Hval).
  - apply (val_reduce g tb c nterm Hval).
  - apply (val_accept g tb c nterm Hval).
  - apply tok_ok_from. exact Hord.
Qed.

(* P2 *)
Theorem parse_complete_values_w X t :
  start_sym g = Some X -> wt g X t (tokens_of w) ->
  exists fuel s top bot,
    parse tb eb false discard fuel (zs w) = Accept s /\ stack s = [top; bot] /\
    i_sym top = eval tb discard t /\
    filter (fun e => match e with ERed _ _ => true | _ => false end) (rev (trace s)) =
    reductions tb discard t.
Proof.
  intros Hs Ht.
  destruct (abstract_accept X t Hs Ht) as (s' & Hreach & Hacc).
  destruct (R_init g tb c nterm discard Hval w Hord) as (s0 & Hrd & HR0).
  destruct (reach_ploop _ _ Hreach s0 HR0) as (n & s2 & HR2 & Hk). simpl in HR2.
  pose proof (sim_step g tb c nterm eb discard Hval w 1 _ _ _ _ HR2) as Hsim.
  rewrite Hacc in Hsim.
  destruct HR2 as [Hst _ _ Htr].
  inversion Hst as [|top s1 t1 cs stk Hst1 Hsym1 Hlt1 Hrel1]; subst.
  inversion Hrel1 as [bot Hb|]; subst.
  exists (n + 1), s2, top, bot. repeat split; auto.
  - unfold parse. rewrite Hrd, Hk. rewrite ploop_S, Hsim. reflexivity.
  - change (fun e => match e with ERed _ _ => true | _ => false end) with isred.
    rewrite filter_rev', Htr, map_rev, rev_involutive. apply ev_reds.
Qed.

End Word.

(* P2 *)
Theorem parse_complete_values : forall w X t,
  ordinary nterm w -> start_sym g = Some X -> wt g X t (tokens_of w) ->
  exists fuel s top bot,
    parse tb eb false discard fuel (zs w) = Accept s /\ stack s = [top; bot] /\
    i_sym top = eval tb discard t /\
    filter (fun e => match e with ERed _ _ => true | _ => false end) (rev (trace s)) =
    reductions tb discard t.
Proof. intros. eapply parse_complete_values_w; eauto. Qed.

(* P1 *)
Theorem parse_complete : forall w, ordinary nterm w -> sentence g (tokens_of w) ->
  exists fuel s, parse tb eb false discard fuel (zs w) = Accept s.
Proof.
  intros w Hord (X & t & Hs & Ht).
  destruct (parse_complete_values w X t Hord Hs Ht) as (fuel & s & _ & _ & H & _). eauto.
Qed.

(* P5 *)
Theorem tree_unique : forall w X t1 t2, ordinary nterm w -> start_sym g = Some X ->
  wt g X t1 (tokens_of w) -> wt g X t2 (tokens_of w) -> t1 = t2.
Proof.
  intros w X t1 t2 Hord Hs H1 H2.
  destruct (abstract_accept w Hord X t1 Hs H1) as (s1 & Hr1 & Ha1).
  destruct (abstract_accept w Hord X t2 Hs H2) as (s2 & Hr2 & Ha2).
  pose proof (reach_acc_unique _ _ _ _ _ _ _ Hr1 Hr2 Ha1 Ha2) as E.
  inversion E. reflexivity.
Qed.

End Complete.

Print Assumptions parse_complete.
Print Assumptions parse_complete_values.
Print Assumptions tree_unique.
Print Assumptions parse_fuel_monotone.
Print Assumptions parse_fuel_monotone_reject.
