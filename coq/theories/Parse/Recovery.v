(* The generated parser WITH error recovery (rec_enabled = true): definitions
   for the recovery property (err_subst, tokens1), elementary facts that need no
   validator: the Error value carries the lookahead token (R6), fuel
   monotonicity of _recover's loops and of parse (R7), and agreement with the
   clean parser on runs that never enter _recover (R4). *)
From Coq Require Import List Arith ZArith Lia Bool ZifyBool ZifyNat.
From Lox Require Import Parse.Grammar Parse.Tables Parse.ParseRuntime Parse.Refine.
Import ListNotations.

Definition tokens1 (nterm : nat) (w : list nat) : Prop := Forall (fun t => 1 <= t < nterm) w.

(* u is w with some contiguous (possibly empty) stretches each replaced by one @error *)
Inductive err_subst : list nat -> list nat -> Prop :=
| es_nil : err_subst [] []
| es_keep t w u : err_subst w u -> err_subst (t :: w) (t :: u)
| es_err d w u : err_subst w u -> err_subst (d ++ w) (error_t :: u).

Lemma err_subst_app a u : err_subst a u -> forall b v, err_subst b v -> err_subst (a ++ b) (u ++ v).
Proof.
  induction 1 as [|t w u H IH|d w u H IH]; intros b v Hb; simpl; auto.
  - constructor. auto.
  - rewrite <- app_assoc. constructor. auto.
Qed.

Lemma err_subst_split u1 : forall w u2, err_subst w (u1 ++ u2) ->
  exists w1 w2, w = w1 ++ w2 /\ err_subst w1 u1 /\ err_subst w2 u2.
Proof.
  induction u1 as [|x u1 IH]; intros w u2 H.
  - exists [], w. repeat split; auto. constructor.
  - simpl in H. inversion H as [|t w' u' H'|d w' u' H']; subst.
    + destruct (IH _ _ H') as (w1 & w2 & -> & H1 & H2).
      exists (x :: w1), w2. repeat split; auto. constructor; auto.
    + destruct (IH _ _ H') as (w1 & w2 & -> & H1 & H2).
      exists (d ++ w1), w2. rewrite app_assoc. repeat split; auto. constructor; auto.
Qed.

Lemma err_subst_all l : err_subst l [error_t].
Proof. rewrite <- (app_nil_r l). constructor. constructor. Qed.

Lemma err_subst_refl l : err_subst l l.
Proof. induction l; constructor; auto. Qed.

Lemma err_subst_no_err w u : err_subst w u -> ~ In error_t u -> u = w.
Proof.
  induction 1 as [|t w u H IH|d w u H IH]; intros Hn; auto.
  - f_equal. apply IH. intros Hin. apply Hn. right. exact Hin.
  - exfalso. apply Hn. left. reflexivity.
Qed.

Section Rec.
Variable tb : tables.
Variable eb : bool.
Variable discard : value -> bool.

(* ---------- R6: the Error value carries the lookahead token ---------- *)
Theorem recover_error_token s errs :
  make_error tb s = Some errs ->
  exists ty id top ks,
    lasym s = VTok ty id /\ peek (stack s) 0 = Some top /\
    row_keys (t_actions tb) (i_state top) = Some ks /\
    errs = VErr (lasym s) ks.
Proof.
  unfold make_error. intros H.
  destruct (lasym s) as [|ty id| | | |] eqn:Hl; try discriminate.
  destruct (peek (stack s) 0) as [top|] eqn:Hp; [|discriminate].
  destruct (row_keys (t_actions tb) (i_state top)) as [ks|] eqn:Hk; [|discriminate].
  inversion H; subst. exists ty, id, top, ks. repeat split; auto.
Qed.

(* the value _recover hands to the @error action: the Error already attached to
   a lexer ERROR lookahead, otherwise a fresh Error around the lookahead token *)
Definition recover_errsym (s : pstate) : option value :=
  match lasym s with VErr _ _ => Some (lasym s) | _ => make_error tb s end.

Theorem recover_errsym_token s e :
  recover_errsym s = Some e ->
  (exists ty id ks, lasym s = VTok ty id /\ e = VErr (VTok ty id) ks) \/
  (exists t ks, lasym s = VErr t ks /\ e = VErr t ks).
Proof.
  unfold recover_errsym. intros H. destruct (lasym s) as [|ty id|t ks| | |] eqn:Hl;
    try (apply recover_error_token in H as (? & ? & ? & ? & H & _); rewrite Hl in H; discriminate).
  - apply recover_error_token in H as (ty' & id' & top & ks & H1 & _ & _ & ->).
    left. exists ty, id, ks. rewrite Hl. auto.
  - right. inversion H; subst. eauto.
Qed.

(* R6 for the repaired _recover: the Error handed to the @error action is either
   the one of this detection (recover_errsym: it carries the lookahead token) or
   an Error that was sitting in a stack entry popped by this recovery (the Error
   of an earlier recovery whose @error production was not reduced yet). *)
Definition is_verr (v : value) : Prop := match v with VErr _ _ => True | _ => False end.

Lemma read_token_stack s s' : read_token tb s = Some s' -> stack s' = stack s.
Proof.
  unfold read_token. destruct (negb (qla s =? -1)%Z).
  - intros H; inversion H; reflexivity.
  - unfold lex_read. destruct (input s) as [|ty rest].
    + simpl. intros H; inversion H; reflexivity.
    + cbv beta iota zeta. destruct (ty =? ERROR)%Z.
      * match goal with |- context [make_error tb ?x] => destruct (make_error tb x) end;
          intros H; inversion H; reflexivity.
      * intros H; inversion H; reflexivity.
Qed.

Lemma skip_errors_stack f : forall s s1, skip_errors tb f s = Continue s1 -> stack s1 = stack s.
Proof.
  induction f as [|f IH]; intros s s1 H; [discriminate|]. cbn [skip_errors] in H.
  destruct (la s =? ERROR)%Z.
  - destruct (read_token tb s) as [s'|] eqn:E; [|discriminate].
    rewrite (IH _ _ H). eapply read_token_stack; eauto.
  - inversion H; reflexivity.
Qed.

Lemma recover_pops_errsym f look : forall st e,
  match recover_pops tb f st look e with
  | PFound _ e' | PExhausted e' =>
      e' = e \/ exists it, In it st /\ i_sym it = e' /\ is_verr e'
  | _ => True
  end.
Proof.
  induction st as [|top st IH]; intros e; cbn [recover_pops]; auto.
  destruct (recover_sim tb f (map i_state (top :: st)) look); auto.
  specialize (IH (match i_sym top with VErr _ _ => i_sym top | _ => e end)).
  assert (Hcase : forall e', (e' = match i_sym top with VErr _ _ => i_sym top | _ => e end \/
                              exists it, In it st /\ i_sym it = e' /\ is_verr e') ->
                             e' = e \/ exists it, In it (top :: st) /\ i_sym it = e' /\ is_verr e').
  { intros e' [->|(it & Hin & Hs & Hv)].
    - destruct (i_sym top) eqn:Ht; auto. right. exists top. rewrite Ht. simpl. auto.
    - right. exists it. simpl. auto. }
  destruct (recover_pops tb f st look _); auto.
Qed.

Lemma recover_outer_errsym f : forall e s s1, recover_outer tb f e s = Continue s1 ->
  la s1 = ERROR /\
  (lasym s1 = e \/ exists it, In it (stack s) /\ i_sym it = lasym s1 /\ is_verr (lasym s1)).
Proof.
  induction f as [|f IH]; intros e s s1 H; [discriminate|]. cbn [recover_outer] in H.
  pose proof (recover_pops_errsym (S f) (la s) (stack s) e) as Hp.
  destruct (recover_pops tb (S f) (stack s) (la s) e) as [st' e'|e'| |]; try discriminate.
  - inversion H; subst. cbn. split; auto.
  - destruct (la s =? EOF)%Z; [discriminate|].
    destruct (read_token tb s) as [s'|] eqn:E; [|discriminate].
    destruct (IH _ _ _ H) as [Hla Hsym]. split; auto.
    rewrite (read_token_stack _ _ E) in Hsym.
    destruct Hsym as [Hs|Hs]; auto. rewrite Hs. exact Hp.
Qed.

Lemma read_token_shifts s s' : read_token tb s = Some s' ->
  shifts s' = shifts s /\ rec_shifts s' = rec_shifts s.
Proof.
  unfold read_token. destruct (negb (qla s =? -1)%Z).
  - intros H; inversion H; auto.
  - unfold lex_read. destruct (input s) as [|ty rest].
    + simpl. intros H; inversion H; auto.
    + cbv beta iota zeta. destruct (ty =? ERROR)%Z.
      * match goal with |- context [make_error tb ?x] => destruct (make_error tb x) end;
          intros H; inversion H; auto.
      * intros H; inversion H; auto.
Qed.

Lemma skip_errors_shifts f : forall s s1, skip_errors tb f s = Continue s1 ->
  shifts s1 = shifts s /\ rec_shifts s1 = rec_shifts s.
Proof.
  induction f as [|f IH]; intros s s1 H; [discriminate|]. cbn [skip_errors] in H.
  destruct (la s =? ERROR)%Z.
  - destruct (read_token tb s) as [s'|] eqn:E; [|discriminate].
    destruct (IH _ _ H) as [H1 H2]. destruct (read_token_shifts _ _ E) as [H3 H4]. split; congruence.
  - inversion H; auto.
Qed.

Lemma drop_if_stuck_stack f s s1 : drop_if_stuck tb f s = Continue s1 -> stack s1 = stack s.
Proof.
  unfold drop_if_stuck. destruct (shifts s =? rec_shifts s)%Z.
  - destruct (la s =? EOF)%Z; [discriminate|].
    destruct (read_token tb s) as [s'|] eqn:E; [|discriminate]. intros H.
    rewrite (skip_errors_stack _ _ _ H). eapply read_token_stack; eauto.
  - intros H; inversion H; reflexivity.
Qed.

(* nothing is dropped when a token was shifted since the last recovery; in
   particular at the first recovery of a run, where rec_shifts = -1 *)
Lemma drop_if_stuck_idle f s : shifts s <> rec_shifts s -> drop_if_stuck tb f s = Continue s.
Proof.
  intros H. unfold drop_if_stuck.
  destruct (shifts s =? rec_shifts s)%Z eqn:E; [apply Z.eqb_eq in E; contradiction|reflexivity].
Qed.

Theorem recover_reports f s s1 : recover tb f s = Continue s1 ->
  exists e0, recover_errsym s = Some e0 /\ la s1 = ERROR /\
    (lasym s1 = e0 \/ exists it, In it (stack s) /\ i_sym it = lasym s1 /\ is_verr (lasym s1)).
Proof.
  unfold recover. fold (recover_errsym s). intros H.
  destruct (recover_errsym s) as [e0|]; [|discriminate].
  destruct (skip_errors tb f s) as [s0| | | |] eqn:E; try discriminate.
  destruct (drop_if_stuck tb f s0) as [s2| | | |] eqn:E2; try discriminate.
  exists e0. split; auto. rewrite <- (skip_errors_stack _ _ _ E), <- (drop_if_stuck_stack _ _ _ E2).
  eapply recover_outer_errsym; eauto.
Qed.

(* when a token was shifted since the last recovery (always the case at the
   first recovery) _recover is: skip ERROR lookaheads, then search *)
Lemma recover_first f s : shifts s <> rec_shifts s ->
  recover tb f s =
  match recover_errsym s with
  | None => Crash
  | Some e =>
    match skip_errors tb f s with
    | Continue s1 => recover_outer tb f e s1
    | o => o
    end
  end.
Proof.
  intros H. unfold recover. fold (recover_errsym s).
  destruct (recover_errsym s) as [e|]; auto.
  destruct (skip_errors tb f s) as [s1| | | |] eqn:E; auto.
  destruct (skip_errors_shifts _ _ _ E) as [H1 H2].
  rewrite drop_if_stuck_idle by congruence. reflexivity.
Qed.

(* ---------- R7: fuel monotonicity ---------- *)
Lemma recover_sim_mono f1 : forall f2 st look r, f1 <= f2 -> r <> SimFuel ->
  recover_sim tb f1 st look = r -> recover_sim tb f2 st look = r.
Proof.
  induction f1 as [|f1 IH]; intros f2 st look r Hle Hr H.
  - simpl in H. congruence.
  - destruct f2 as [|f2]; [lia|]. cbn [recover_sim] in *.
    destruct st as [|state st0]; auto.
    destruct (find (t_actions tb) state ERROR) as [action| |]; auto.
    destruct (action <? 0)%Z; auto.
    destruct (nthz (t_term_counts tb) (- action)) as [tc|]; auto.
    destruct (nthz (t_rules tb) (- action)) as [rule|]; auto.
    destruct (tc <? 0)%Z; auto.
    destruct (Z.of_nat (length (state :: st0)) <=? tc)%Z; auto.
    destruct (skipn (Z.to_nat tc) (state :: st0)) as [|exposed rest]; auto.
    destruct (find (t_goto tb) exposed rule) as [st'| |]; auto; apply IH; auto; lia.
Qed.

Theorem recover_sim_fuel_monotone f1 f2 st look : f1 <= f2 ->
  (recover_sim tb f1 st look = SimYes -> recover_sim tb f2 st look = SimYes) /\
  (recover_sim tb f1 st look = SimNo -> recover_sim tb f2 st look = SimNo) /\
  (recover_sim tb f1 st look = SimCrash -> recover_sim tb f2 st look = SimCrash).
Proof. intros Hle. repeat split; intros H; eapply recover_sim_mono; eauto; discriminate. Qed.

Lemma recover_pops_mono f1 f2 look : f1 <= f2 -> forall st e r, r <> PFuel ->
  recover_pops tb f1 st look e = r -> recover_pops tb f2 st look e = r.
Proof.
  intros Hle. induction st as [|top st IH]; intros e r Hr H; cbn [recover_pops] in *; auto.
  destruct (recover_sim tb f1 (map i_state (top :: st)) look) eqn:E;
    try (apply (recover_sim_mono f1 f2) in E; [rewrite E; auto|exact Hle|discriminate]).
  congruence.
Qed.

Lemma skip_errors_mono f1 : forall f2 s o, f1 <= f2 -> o <> Fuel ->
  skip_errors tb f1 s = o -> skip_errors tb f2 s = o.
Proof.
  induction f1 as [|f1 IH]; intros f2 s o Hle Ho H.
  - simpl in H. congruence.
  - destruct f2 as [|f2]; [lia|]. simpl in *.
    destruct (la s =? ERROR)%Z; auto.
    destruct (read_token tb s) as [s'|]; auto. apply IH; auto. lia.
Qed.

Lemma recover_outer_mono f1 : forall f2 e s o, f1 <= f2 -> o <> Fuel ->
  recover_outer tb f1 e s = o -> recover_outer tb f2 e s = o.
Proof.
  induction f1 as [|f1 IH]; intros f2 e s o Hle Ho H.
  - simpl in H. congruence.
  - destruct f2 as [|f2]; [lia|].
    cbn [recover_outer] in *.
    destruct (recover_pops tb (S f1) (stack s) (la s) e) as [st' e'|e'| |] eqn:E;
      try (apply (recover_pops_mono (S f1) (S f2)) in E; [rewrite E|exact Hle|discriminate]);
      try exact H; try congruence.
    destruct (la s =? EOF)%Z; auto. destruct (read_token tb s); auto. apply IH; auto; lia.
Qed.

Lemma drop_if_stuck_mono f1 f2 s o : f1 <= f2 -> o <> Fuel ->
  drop_if_stuck tb f1 s = o -> drop_if_stuck tb f2 s = o.
Proof.
  intros Hle Ho H. unfold drop_if_stuck in *.
  destruct (shifts s =? rec_shifts s)%Z; auto.
  destruct (la s =? EOF)%Z; auto.
  destruct (read_token tb s); auto. eapply skip_errors_mono; eauto.
Qed.

Lemma recover_mono f1 f2 s o : f1 <= f2 -> o <> Fuel ->
  recover tb f1 s = o -> recover tb f2 s = o.
Proof.
  intros Hle Ho H. unfold recover in *.
  destruct (match lasym s with VErr _ _ => Some (lasym s) | _ => make_error tb s end) as [e|]; auto.
  destruct (skip_errors tb f1 s) as [s1| | | |] eqn:E;
    try (apply (skip_errors_mono f1 f2) in E; [rewrite E|exact Hle|discriminate]); auto;
    [|congruence].
  destruct (drop_if_stuck tb f1 s1) as [s2| | | |] eqn:E2;
    try (apply (drop_if_stuck_mono f1 f2) in E2; [rewrite E2|exact Hle|discriminate]); auto.
  - eapply recover_outer_mono; eauto.
  - congruence.
Qed.

Variable rec : bool.

Lemma pstep_mono f1 f2 s o : f1 <= f2 -> o <> Fuel ->
  pstep tb eb rec discard f1 s = o -> pstep tb eb rec discard f2 s = o.
Proof.
  intros Hle Ho H. unfold pstep in *.
  destruct (peek (stack s) 0) as [top|]; auto.
  destruct (find (t_actions tb) (i_state top) (la s)) as [v| |]; auto.
  destruct rec; auto. eapply recover_mono; eauto.
Qed.

Lemma ploop_unfold f s :
  ploop tb eb rec discard (S f) s =
  match pstep tb eb rec discard (S f) s with
  | Continue s' => ploop tb eb rec discard f s'
  | o => o
  end.
Proof. reflexivity. Qed.

Lemma ploop_mono_rec f1 : forall f2 s o, f1 <= f2 -> o <> Fuel ->
  ploop tb eb rec discard f1 s = o -> ploop tb eb rec discard f2 s = o.
Proof.
  induction f1 as [|f1 IH]; intros f2 s o Hle Ho H.
  - simpl in H. congruence.
  - destruct f2 as [|f2]; [lia|]. rewrite ploop_unfold in *.
    destruct (pstep tb eb rec discard (S f1) s) as [s'| | | |] eqn:E;
      try (apply (pstep_mono (S f1) (S f2)) in E; [rewrite E|exact Hle|discriminate]); auto.
    + apply IH; auto; lia.
    + congruence.
Qed.

Theorem parse_fuel_monotone_rec f1 f2 zw o : f1 <= f2 -> o <> Fuel ->
  parse tb eb rec discard f1 zw = o -> parse tb eb rec discard f2 zw = o.
Proof.
  unfold parse. intros Hle Ho. destruct (read_token tb (init_state zw)); auto.
  apply ploop_mono_rec; auto.
Qed.

End Rec.

(* R7, in the shape of Complete.parse_fuel_monotone, for the recovering parser *)
Theorem parse_fuel_monotone_recovery tb eb discard w f1 f2 : f1 <= f2 ->
  (forall s, parse tb eb true discard f1 (zs w) = Accept s -> parse tb eb true discard f2 (zs w) = Accept s) /\
  (forall s, parse tb eb true discard f1 (zs w) = Reject s -> parse tb eb true discard f2 (zs w) = Reject s) /\
  (parse tb eb true discard f1 (zs w) = Crash -> parse tb eb true discard f2 (zs w) = Crash).
Proof.
  intros Hle. repeat split; intros; eapply parse_fuel_monotone_rec; eauto; discriminate.
Qed.

(* ---------- R4: a run that never needs _recover is unchanged ---------- *)
Section Agree.
Variable tb : tables.
Variable eb : bool.
Variable discard : value -> bool.

Lemma pstep_clean_agree f s o : (forall s', o <> Reject s') ->
  pstep tb eb false discard f s = o -> pstep tb eb true discard f s = o.
Proof.
  intros Ho H. unfold pstep in *.
  destruct (peek (stack s) 0) as [top|]; auto.
  destruct (find (t_actions tb) (i_state top) (la s)) as [v| |]; auto.
  subst o. exfalso. eapply Ho. reflexivity.
Qed.

Lemma ploop_clean_agree f : forall s s',
  ploop tb eb false discard f s = Accept s' -> ploop tb eb true discard f s = Accept s'.
Proof.
  induction f as [|f IH]; intros s s' H; [discriminate|].
  rewrite ploop_unfold in *.
  destruct (pstep tb eb false discard (S f) s) as [s1|s1|s1| |] eqn:E; try discriminate;
    (apply pstep_clean_agree in E; [rewrite E; auto|discriminate]).
Qed.

Theorem clean_run_agrees : forall w fuel s,
  parse tb eb false discard fuel (zs w) = Accept s -> parse tb eb true discard fuel (zs w) = Accept s.
Proof.
  intros w fuel s. unfold parse. destruct (read_token tb (init_state (zs w))); auto.
  apply ploop_clean_agree.
Qed.

End Agree.

Print Assumptions recover_error_token.
Print Assumptions recover_errsym_token.
Print Assumptions recover_reports.
Print Assumptions recover_sim_fuel_monotone.
Print Assumptions parse_fuel_monotone_recovery.
Print Assumptions clean_run_agrees.
