(* R5: the token at which the (clean) parser finds no action really is an error:
   the input read so far, including that token, is not a prefix of any sentence.
   This is the state in which the recovering parser first calls _recover, whose
   Error value carries exactly that token (Recovery.recover_errsym_token). *)
From Coq Require Import List Arith ZArith Lia Bool ZifyBool ZifyNat.
From Lox Require Import Parse.Grammar Parse.Tables Parse.Validator Parse.Actions
  Parse.LRAbstract Parse.ValidatorFacts Parse.ParseRuntime Parse.Refine Parse.Complete Parse.Sound
  Parse.Recovery Parse.RecoveryFacts Parse.RecoverySound.
Import ListNotations.

Definition viable_prefix (g : grammar) (u : list nat) : Prop :=
  exists v toks X t, start_sym g = Some X /\ wt g X t toks /\ map fst toks = u ++ v.

Lemma tokens_from_app a : forall k b,
  tokens_from k (a ++ b) = tokens_from k a ++ tokens_from (k + length a) b.
Proof.
  induction a as [|x a IH]; intros k b.
  - simpl. rewrite Nat.add_0_r. reflexivity.
  - change (tokens_from k ((x :: a) ++ b)) with ((x, k) :: tokens_from (S k) (a ++ b)).
    change (tokens_from k (x :: a)) with ((x, k) :: tokens_from (S k) a).
    rewrite IH. simpl. replace (S (k + length a)) with (k + S (length a)) by lia. reflexivity.
Qed.

Lemma tokens_from_length k l : length (tokens_from k l) = length l.
Proof. unfold tokens_from. revert k. induction l as [|x l IH]; intros k; simpl; auto. Qed.

(* ---------- the abstract machine looks only at the next token ---------- *)
Section Frame.
Variable g : grammar.
Variable action : nat -> nat -> option Validator.act.
Variable goto_ : nat -> nat -> option nat.

Definition inp_of (x : cfg) : list token := snd (fst x).

Lemma astep_len n x y : astep g action goto_ n x = ANext y -> length (inp_of y) <= length (inp_of x).
Proof.
  destruct x as [[stk inp] tr]. unfold astep.
  destruct (action (topst stk) (la_of inp)) as [[s'|p|]|]; try discriminate.
  - destruct inp; intros H; inversion H; subst; unfold inp_of; simpl; lia.
  - destruct (nth_error g p) as [pr|]; [|discriminate].
    destruct (LRAbstract.pop (length (rhs pr)) stk) as [[ch rest]|]; [|discriminate].
    destruct (goto_ (topst rest) (lhs pr)); [|discriminate].
    intros H; inversion H; subst; unfold inp_of; simpl; lia.
Qed.

Lemma reach_len n x y : reach g action goto_ n x y -> length (inp_of y) <= length (inp_of x).
Proof. induction 1 as [x|x1 x2 x3 Hs Hr IH]; auto. apply astep_len in Hs. lia. Qed.

Lemma astep_frame n1 n2 stk a q r1 r2 tr :
  match astep g action goto_ n1 (stk, (a :: q) ++ r1, tr) with
  | ANext (stk', inp', tr') =>
      exists q', inp' = q' ++ r1 /\
                 astep g action goto_ n2 (stk, (a :: q) ++ r2, tr) = ANext (stk', q' ++ r2, tr')
  | AAcc => astep g action goto_ n2 (stk, (a :: q) ++ r2, tr) = AAcc
  | ARej => astep g action goto_ n2 (stk, (a :: q) ++ r2, tr) = ARej
  | AStuck => astep g action goto_ n2 (stk, (a :: q) ++ r2, tr) = AStuck
  end.
Proof.
  unfold astep. destruct a as [t i]. simpl.
  destruct (action (topst stk) t) as [[s'|p|]|]; auto.
  - exists q. auto.
  - destruct (nth_error g p) as [pr|]; auto.
    destruct (LRAbstract.pop (length (rhs pr)) stk) as [[ch rest]|]; auto.
    destruct (goto_ (topst rest) (lhs pr)); auto.
    exists ((t, i) :: q). auto.
Qed.

Lemma reach_frame n1 n2 x y : reach g action goto_ n1 x y ->
  forall stk q r1 r2 tr, x = (stk, q ++ r1, tr) -> length r1 < length (inp_of y) ->
  exists q', inp_of y = q' ++ r1 /\
             reach g action goto_ n2 (stk, q ++ r2, tr) (fst (fst y), q' ++ r2, snd y).
Proof.
  induction 1 as [x|x1 x2 x3 Hs Hr IH]; intros stk q r1 r2 tr -> Hlen.
  - exists q. simpl. split; auto. apply reach_refl.
  - pose proof (reach_len _ _ _ Hr) as Hl23. pose proof (astep_len _ _ _ Hs) as Hl12.
    destruct q as [|a q].
    { unfold inp_of in *. simpl in *. lia. }
    pose proof (astep_frame n1 n2 stk a q r1 r2 tr) as Hf. rewrite Hs in Hf.
    destruct x2 as [[stk2 inp2] tr2]. destruct Hf as (q2 & -> & Hs2).
    destruct (IH stk2 q2 r1 r2 tr2 eq_refl Hlen) as (q' & Hq' & Hreach).
    exists q'. split; auto. eapply reach_step; eauto.
Qed.

Lemma reach_acc_rej n x a b :
  reach g action goto_ n x a -> reach g action goto_ n x b ->
  astep g action goto_ n a = AAcc -> astep g action goto_ n b = ARej -> False.
Proof.
  intros Ha. revert b. induction Ha as [x|x1 x2 x3 Hs Hr IH]; intros b Hb Ha1 Hb1.
  - destruct Hb as [|y1 y2 y3 Hs' Hr']; congruence.
  - destruct Hb as [|y1 y2 y3 Hs' Hr'].
    + congruence.
    + rewrite Hs in Hs'. inversion Hs'; subst. eauto.
Qed.

End Frame.

Section Blame.
Variable g : grammar.
Variable tb : tables.
Variable c : cert.
Variable nterm : nat.
Variable eb : bool.
Variable discard : value -> bool.
Hypothesis Hval : validate g tb c nterm = true.

Notation act' := (action_of tb).
Notation goto' := (goto_of tb).

Lemma wt_tok_ok :
  (forall X t u, wt g X t u -> (forall t0, X = T t0 -> t0 < nterm) -> Forall (tok_ok nterm) u) /\
  (forall Xs ts us, wf g Xs ts us -> (forall t0, In (T t0) Xs -> t0 < nterm) -> Forall (tok_ok nterm) us).
Proof.
  apply wt_wf_ind.
  - intros t i H. constructor; [|constructor]. unfold tok_ok. simpl. apply H. reflexivity.
  - intros p pr ch u Hp Hwf IH _. apply IH. intros t0 Hin.
    eapply (val_rhs_lt g tb c nterm Hval); eauto.
  - intros _. constructor.
  - intros X t u Xs ts us Ht IHt Hf IHf H. apply Forall_app. split.
    + apply IHt. intros t0 ->. apply H. left. reflexivity.
    + apply IHf. intros t0 Hin. apply H. right. exact Hin.
Qed.

Lemma start_tok_lt X t0 : start_sym g = Some X -> X = T t0 -> t0 < nterm.
Proof.
  intros Hs ->. destruct (val_start g tb c nterm Hval) as (pr0 & X' & Hp0 & Hr).
  unfold start_sym in Hs. rewrite Hp0, Hr in Hs. inversion Hs; subst.
  eapply (val_rhs_lt g tb c nterm Hval); eauto. rewrite Hr. left. reflexivity.
Qed.

(* a rejecting run of the generated (clean) parser is a rejecting run of the abstract machine *)
Lemma ploop_reject_abs w fuel : forall s stk inp tr s',
  R tb c nterm discard w stk inp tr s -> Sound.Inv g c w (stk, inp, tr) ->
  ploop tb eb false discard fuel s = Reject s' ->
  exists stk' inp' tr',
    reach g act' goto' (length w) (stk, inp, tr) (stk', inp', tr') /\
    astep g act' goto' (length w) (stk', inp', tr') = ARej /\
    R tb c nterm discard w stk' inp' tr' s'.
Proof.
  induction fuel as [|f IH]; intros s stk inp tr s' HR HI H; [discriminate|].
  rewrite Complete.ploop_S in H.
  pose proof (sim_step g tb c nterm eb discard Hval w (S f) stk inp tr s HR) as Hsim.
  pose proof (inv_step g tb c nterm Hval w _ HI) as Hstep.
  destruct (astep g act' goto' (length w) (stk, inp, tr)) as [[[stk1 inp1] tr1]| | |] eqn:Ea.
  - destruct Hsim as (s1 & Hp & HR1). rewrite Hp in H.
    destruct (IH _ _ _ _ _ HR1 Hstep H) as (stk' & inp' & tr' & Hreach & Hrej & HR').
    exists stk', inp', tr'. split; auto. eapply reach_step; eauto.
  - rewrite Hsim in H. discriminate.
  - rewrite Hsim in H. inversion H; subst.
    exists stk, inp, tr. split; [apply reach_refl|]. auto.
  - destruct Hstep.
Qed.

(* Reject (at whatever lookahead) means: not a sentence *)
Theorem reject_not_sentence : forall w fuel s, ordinary nterm w ->
  parse tb eb false discard fuel (zs w) = Reject s -> ~ sentence g (tokens_of w).
Proof.
  intros w fuel s Hord Hrej Hsent.
  destruct (parse_complete g tb c nterm eb discard Hval w Hord Hsent) as (fuel' & s' & Hacc).
  apply (parse_mono tb eb discard fuel (Nat.max fuel fuel')) in Hrej; [|lia|discriminate].
  apply (parse_mono tb eb discard fuel' (Nat.max fuel fuel')) in Hacc; [|lia|discriminate].
  congruence.
Qed.

(* R5: k = pos s tokens have been read, the last one is the lookahead without action *)
Theorem blame_not_viable : forall w fuel s, ordinary nterm w ->
  parse tb eb false discard fuel (zs w) = Reject s ->
  (la s <> 0%Z -> ~ viable_prefix g (firstn (pos s) w)) /\
  (la s = 0%Z -> ~ sentence g (tokens_of w)).
Proof.
  intros w fuel s Hord Hrej. split; [|intros _; eapply reject_not_sentence; eauto].
  intros Hla (v & toks & X & t & Hs & Ht & Hm).
  destruct (R_init g tb c nterm discard Hval w Hord) as (s0 & Hrd & HR0).
  unfold parse in Hrej. rewrite Hrd in Hrej.
  destruct (ploop_reject_abs w fuel s0 [] (tokens_of w) [] s HR0) as
    (stk' & inp' & tr' & Hreach & Hstep & HR'); auto.
  { split; [constructor|reflexivity]. }
  destruct (R_la _ _ _ _ _ _ _ _ _ HR') as (i & l & Hinp & Hlen & Hordl & Hla' & Hsym & Hin & Hpos).
  destruct l as [|a l]; [simpl in Hla'; contradiction|].
  simpl in Hlen. assert (Hi : i < length w) by lia.
  assert (Hpos' : pos s = S i) by lia. rewrite Hpos' in Hm.
  set (pre := firstn (S i) w) in *. set (rst := skipn (S i) w).
  assert (Hpre_len : length pre = S i) by (apply firstn_length_le; lia).
  assert (Hw : tokens_of w = tokens_from 0 pre ++ tokens_from (S i) rst).
  { change (tokens_of w) with (tokens_from 0 w).
    rewrite <- (firstn_skipn (S i) w) at 1. rewrite tokens_from_app. fold pre. rewrite Hpre_len.
    reflexivity. }
  destruct (proj1 (wt_relabel g) _ _ _ Ht (tokens_from 0 (pre ++ v))) as (t2 & Ht2).
  { rewrite map_fst_tokens_from. symmetry. exact Hm. }
  rewrite tokens_from_app, Hpre_len in Ht2. cbn [Nat.add] in Ht2.
  assert (Hok : Forall (tok_ok nterm) (tokens_from 0 pre ++ tokens_from (S i) v)).
  { apply (proj1 wt_tok_ok _ _ _ Ht2). intros t0. apply start_tok_lt. exact Hs. }
  destruct (follow_accept g c nterm act' goto' 0) with (X := X) (t := t2)
    (u := tokens_from 0 pre ++ tokens_from (S i) v) as (s' & Hreach2 & Hacc2); auto.
  - pose proof (val_nterm g tb c nterm Hval). unfold eof. lia.
  - apply (val_nullable_stable g tb c nterm Hval).
  - apply (val_first_stable g tb c nterm Hval).
  - apply (val_sprime_fresh g tb c nterm Hval).
  - apply (val_init g tb c nterm Hval).
  - intros. eapply (val_closure g tb c nterm Hval); eauto.
  - apply (val_shift g tb c nterm Hval).
  - apply (val_goto g tb c nterm Hval).
  - apply (val_reduce g tb c nterm Hval).
  - apply (val_accept g tb c nterm Hval).
  - rewrite Hw in Hreach.
    assert (Hl1 : length (tokens_from (S i) rst) < length inp').
    { rewrite Hinp, !tokens_from_length. unfold rst. rewrite skipn_length. simpl. lia. }
    destruct (reach_frame g act' goto' (length w) 0 _ _ Hreach [] (tokens_from 0 pre)
                (tokens_from (S i) rst) (tokens_from (S i) v) [] eq_refl Hl1) as (q' & Hq' & Hreach').
    unfold inp_of in Hq'. simpl in Hq', Hreach'.
    destruct q' as [|a' q0].
    { simpl in Hq'. rewrite Hq' in Hl1. lia. }
    pose proof (astep_frame g act' goto' (length w) 0 stk' a' q0 (tokens_from (S i) rst)
                  (tokens_from (S i) v) tr') as Hf.
    rewrite <- Hq', Hstep in Hf.
    eapply reach_acc_rej; [exact Hreach2|exact Hreach'|exact Hacc2|exact Hf].
Qed.


(* ---------- the recovering parser first calls _recover in exactly that state ---------- *)
Lemma pstep_clean_continue f f' s s1 :
  pstep tb eb false discard f s = Continue s1 -> pstep tb eb true discard f' s = Continue s1.
Proof.
  intros H. rewrite (pstep_fuel_irrel tb eb discard f f') in H.
  apply pstep_clean_agree; auto. discriminate.
Qed.

Lemma pstep_clean_reject f f' s s' :
  pstep tb eb false discard f s = Reject s' ->
  s' = s /\ pstep tb eb true discard f' s = recover tb f' s.
Proof.
  unfold pstep. intros H.
  destruct (peek (stack s) 0) as [top|]; [|discriminate].
  destruct (find (t_actions tb) (i_state top) (la s)) as [v| |]; [|inversion H; auto|discriminate].
  exfalso.
  repeat (match type of H with context [match ?x with _ => _ end] => destruct x end; try discriminate).
Qed.

Lemma ploop_first_recover f : forall s0 s,
  ploop tb eb false discard f s0 = Reject s ->
  exists n, forall k,
    ploop tb eb true discard (n + S k) s0 =
    match recover tb (S k) s with
    | Continue s' => ploop tb eb true discard k s'
    | o => o
    end.
Proof.
  induction f as [|f IH]; intros s0 s H; [discriminate|].
  rewrite Complete.ploop_S in H.
  destruct (pstep tb eb false discard (S f) s0) as [s1|s1|s1| |] eqn:E; try discriminate.
  - destruct (IH _ _ H) as (n & Hn). exists (S n). intros k.
    change (S n + S k) with (S (n + S k)). rewrite ploop_unfold.
    rewrite (pstep_clean_continue _ (S (n + S k)) _ _ E). apply Hn.
  - inversion H; subst s1. exists 0. intros k. cbn [Nat.add]. rewrite ploop_unfold.
    destruct (pstep_clean_reject _ (S k) _ _ E) as [Heq Hp]. subst s. rewrite Hp. reflexivity.
Qed.

(* the clean parser never touches rec_shifts and only increments shifts *)
Lemma pstep_clean_shifts f s s' : pstep tb eb false discard f s = Continue s' ->
  rec_shifts s' = rec_shifts s /\ (shifts s <= shifts s')%Z.
Proof.
  unfold pstep. intros H.
  destruct (peek (stack s) 0) as [top|]; [|discriminate].
  destruct (find (t_actions tb) (i_state top) (la s)) as [v| |]; try discriminate.
  destruct (v =? accept_code)%Z; [discriminate|].
  destruct (v >=? 0)%Z.
  - match type of H with (match ?b with Some _ => _ | None => _ end) = _ => destruct b as [bb|] end;
      [|discriminate].
    cbv zeta in H.
    match type of H with context [read_token tb ?x] => destruct (read_token tb x) as [s2|] eqn:Hrd end;
      [|discriminate].
    inversion H; subst s2. destruct (read_token_shifts _ _ _ Hrd) as [H1 H2].
    destruct (la s =? ERROR)%Z; cbn in H1, H2; split; try congruence; lia.
  - repeat (match type of H with context [match ?x with _ => _ end] => destruct x end; try discriminate);
      inversion H; subst s'; cbn; split; auto; lia.
Qed.

Lemma ploop_clean_shifts f : forall s0 s, ploop tb eb false discard f s0 = Reject s ->
  rec_shifts s = rec_shifts s0 /\ (shifts s0 <= shifts s)%Z.
Proof.
  induction f as [|f IH]; intros s0 s H; [discriminate|].
  rewrite Complete.ploop_S in H.
  destruct (pstep tb eb false discard (S f) s0) as [s1|s1|s1| |] eqn:E; try discriminate.
  - destruct (IH _ _ H) as [H1 H2]. destruct (pstep_clean_shifts _ _ _ E) as [H3 H4].
    split; [congruence|lia].
  - destruct (pstep_clean_reject _ 0 _ _ E) as [Heq _]. inversion H; subst. split; auto. lia.
Qed.

(* With recovery enabled the run is the clean run up to the rejecting state s,
   where _recover is entered; the Error it builds wraps the lookahead token of s,
   i.e. (blame_not_viable) the first token that makes the input non-viable. *)
Theorem first_error_is_blame : forall w fuel s, ordinary nterm w ->
  parse tb eb false discard fuel (zs w) = Reject s ->
  (exists n, forall k,
     parse tb eb true discard (n + S k) (zs w) =
     match recover tb (S k) s with
     | Continue s' => ploop tb eb true discard k s'
     | o => o
     end) /\
  (exists id ks, lasym s = VTok (la s) id /\
                 recover_errsym tb s = Some (VErr (VTok (la s) id) ks)) /\
  (* nothing is dropped by drop_if_stuck at this first recovery *)
  (rec_shifts s = (-1)%Z /\ (0 <= shifts s)%Z /\
   forall f, recover tb f s =
     match recover_errsym tb s with
     | None => Crash
     | Some e => match skip_errors tb f s with
                 | Continue s1 => recover_outer tb f e s1
                 | o => o
                 end
     end).
Proof.
  intros w fuel s Hord Hrej.
  destruct (R_init g tb c nterm discard Hval w Hord) as (s0 & Hrd & HR0).
  unfold parse in *. rewrite Hrd in *.
  assert (Hsh : rec_shifts s = (-1)%Z /\ (0 <= shifts s)%Z).
  { destruct (ploop_clean_shifts _ _ _ Hrej) as [H1 H2].
    destruct (read_token_shifts _ _ _ Hrd) as [H3 H4]. cbn in H3, H4. split; [congruence|lia]. }
  split; [|split].
  3:{ destruct Hsh as [H1 H2]. repeat split; auto. intros f. apply recover_first. lia. }
  - apply ploop_first_recover in Hrej. exact Hrej.
  - destruct (ploop_reject_abs w fuel s0 [] (tokens_of w) [] s HR0) as
      (stk' & inp' & tr' & _ & _ & HR'); auto.
    { split; [constructor|reflexivity]. }
    destruct (R_la _ _ _ _ _ _ _ _ _ HR') as (i & l & _ & _ & _ & _ & Hsym & _).
    destruct (stack_rel_top g tb c nterm discard Hval _ _ (R_stack _ _ _ _ _ _ _ _ _ HR'))
      as (top & Hpk & Htop & Hlt).
    destruct (make_error_some g tb c nterm Hval s _ _ top Hsym Hpk) as (ks & Hk).
    { exists (topst stk'). auto. }
    exists i, ks. split; auto. unfold recover_errsym. rewrite Hsym in *. exact Hk.
Qed.


(* ---------- converse of R4 ---------- *)
Lemma ploop_clean_fuel f : forall s,
  ploop tb eb false discard f s = Fuel -> ploop tb eb true discard f s = Fuel.
Proof.
  induction f as [|f IH]; intros s H; [reflexivity|].
  rewrite Complete.ploop_S in H. rewrite ploop_unfold.
  destruct (pstep tb eb false discard (S f) s) as [s1|s1|s1| |] eqn:E; try discriminate;
    (apply pstep_clean_agree in E; [rewrite E; auto|discriminate]).
Qed.

Theorem recovering_run_without_error_is_clean :
  start_sym g <> Some (T error_t) ->
  forall w fuel s, ordinary nterm w ->
  parse tb eb true discard fuel (zs w) = Accept s ->
  (forall p pr res, In (ERed (Z.of_nat p) res) (trace s) -> nth_error g p = Some pr ->
                    ~ In (T error_t) (rhs pr)) ->
  parse tb eb false discard fuel (zs w) = Accept s.
Proof.
  intros Hstart w fuel s Hord Hacc Hnoerr.
  destruct (nonsentence_reports g tb c nterm eb discard Hval Hstart w fuel s Hord Hacc)
    as [(p & pr & res & Hin & Hp & Hr)|Hsent].
  { exfalso. eapply Hnoerr; eauto. }
  destruct (parse_complete g tb c nterm eb discard Hval w Hord Hsent) as (fuel' & s' & Hacc').
  set (M := Nat.max fuel fuel').
  assert (HM' : parse tb eb false discard M (zs w) = Accept s').
  { apply (parse_mono tb eb discard fuel' M) in Hacc'; [exact Hacc'|unfold M; lia|discriminate]. }
  assert (HM : parse tb eb true discard M (zs w) = Accept s).
  { apply (parse_fuel_monotone_rec tb eb discard true fuel M) in Hacc; [exact Hacc|unfold M; lia|discriminate]. }
  pose proof (clean_run_agrees tb eb discard w M s' HM') as HM2. rewrite HM in HM2. inversion HM2; subst s'.
  destruct (parse tb eb false discard fuel (zs w)) as [s1|s1|s1| |] eqn:E.
  - apply (parse_mono tb eb discard fuel M) in E; [|unfold M; lia|discriminate]. congruence.
  - apply (parse_mono tb eb discard fuel M) in E; [|unfold M; lia|discriminate]. congruence.
  - apply (parse_mono tb eb discard fuel M) in E; [|unfold M; lia|discriminate]. congruence.
  - apply (parse_mono tb eb discard fuel M) in E; [|unfold M; lia|discriminate]. congruence.
  - exfalso. unfold parse in E, Hacc.
    destruct (read_token tb (init_state (zs w))) as [s0|]; [|discriminate].
    apply ploop_clean_fuel in E. congruence.
Qed.

End Blame.

Print Assumptions reject_not_sentence.
Print Assumptions blame_not_viable.
Print Assumptions first_error_is_blame.
Print Assumptions recovering_run_without_error_is_clean.
