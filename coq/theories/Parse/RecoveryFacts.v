(* Support for the recovery proofs: what the validator gives for the pieces of
   _recover / _makeError / _readToken / _act (none of them can index out of
   range on a stack whose states are valid), generic case lemmas for pstep. *)
From Coq Require Import List Arith ZArith Lia Bool ZifyBool ZifyNat.
From Lox Require Import Parse.Grammar Parse.Tables Parse.Validator Parse.Actions
  Parse.LRAbstract Parse.ValidatorFacts Parse.ParseRuntime Parse.Refine Parse.Recovery.
Import ListNotations.

Definition tokish (v : value) : Prop :=
  match v with VTok _ _ | VErr _ _ => True | _ => False end.

Lemma tokish_latok v : tokish v -> exists t, latok v = Some t.
Proof. destruct v; simpl; intros H; try destruct H; eauto. Qed.

(* ---------- _makeError's scan of a validated row cannot fail ---------- *)
Lemma keys_scan_some f1 : forall f2 t i e acc row,
  row_entries f1 t i e = Some row -> (e - i <= 2 * Z.of_nat f1)%Z ->
  row_keys_scan f2 t i e acc <> None.
Proof.
  induction f1 as [|f1 IH]; intros f2 t i e acc row Hr Hb.
  - destruct f2; simpl; [discriminate|].
    destruct (i <? e)%Z eqn:E; [apply Z.ltb_lt in E; lia|discriminate].
  - simpl in Hr. destruct (i <? e)%Z eqn:E.
    + destruct (nthz t i) as [k|] eqn:Hk; [|discriminate].
      destruct (nthz t (i + 1)) as [v|]; [|discriminate].
      destruct (row_entries f1 t (i + 2) e) as [rest|] eqn:Hrest; [|discriminate].
      destruct f2; simpl; [discriminate|]. rewrite E, Hk.
      eapply IH; eauto. lia.
    + destruct f2; simpl; [discriminate|]. rewrite E. discriminate.
Qed.

Lemma row_keys_some t y row : row_of t y = Some row -> row_keys t (Z.of_nat y) <> None.
Proof.
  unfold row_of, row_keys. intros H.
  destruct (nthz t (Z.of_nat y)) as [i|]; [|discriminate].
  destruct (nthz t i) as [count|]; [|discriminate].
  destruct ((count <? 0)%Z || negb (Z.even count)) eqn:E; [discriminate|].
  apply orb_false_iff in E as [E1 E2]. apply Z.ltb_ge in E1.
  eapply keys_scan_some; eauto. lia.
Qed.

(* ---------- generic case lemmas for pstep (any rec flag) ---------- *)
Section Pstep.
Variable tb : tables.
Variable eb : bool.
Variable discard : value -> bool.
Variable rec : bool.

Lemma pstep_accept_gen f s top :
  peek (stack s) 0 = Some top ->
  find (t_actions tb) (i_state top) (la s) = FFound accept_code ->
  pstep tb eb rec discard f s = Accept s.
Proof. intros H1 H2. unfold pstep. rewrite H1, H2. reflexivity. Qed.

(* the state the shift branch hands to _readToken *)
Definition shift_state (s : pstate) (v : Z) (b : bounds) : pstate :=
  let s0 := set_stack s ({| i_state := v; i_sym := lasym s; i_bounds := b |} :: stack s) in
  if (la s =? ERROR)%Z then s0 else set_shifts s0 (shifts s + 1)%Z (rec_shifts s).

Lemma pstep_shift_gen f s top v :
  peek (stack s) 0 = Some top ->
  find (t_actions tb) (i_state top) (la s) = FFound v ->
  v <> accept_code -> (0 <= v)%Z -> tokish (lasym s) ->
  exists b,
    pstep tb eb rec discard f s =
    match read_token tb (shift_state s v b) with
    | None => Crash
    | Some s2 => Continue s2
    end.
Proof.
  intros H1 H2 Hna Hv Hl. unfold pstep, shift_state. rewrite H1, H2.
  destruct (v =? accept_code)%Z eqn:E; [apply Z.eqb_eq in E; contradiction|].
  rewrite Z.geb_leb. destruct (0 <=? v)%Z eqn:E2; [|apply Z.leb_gt in E2; lia].
  destruct eb.
  - destruct (tokish_latok _ Hl) as (t & Ht). rewrite Ht. eexists. reflexivity.
  - eexists. reflexivity.
Qed.

Lemma pstep_reduce_gen f s top v tc rule res top' ns :
  peek (stack s) 0 = Some top ->
  find (t_actions tb) (i_state top) (la s) = FFound v ->
  v <> accept_code -> (v < 0)%Z ->
  nthz (t_term_counts tb) (- v) = Some tc -> nthz (t_rules tb) (- v) = Some rule ->
  act tb discard (stack s) (- v) = Some res ->
  (0 <= tc)%Z -> Z.to_nat tc <= length (stack s) ->
  peek (skipn (Z.to_nat tc) (stack s)) 0 = Some top' ->
  find (t_goto tb) (i_state top') rule = FFound ns ->
  exists b s1,
    pstep tb eb rec discard f s =
    Continue (set_stack s1 ({| i_state := ns; i_sym := res; i_bounds := b |}
                              :: skipn (Z.to_nat tc) (stack s))) /\
    la s1 = la s /\ lasym s1 = lasym s /\ qla s1 = qla s /\ qlasym s1 = qlasym s /\
    input s1 = input s /\
    In (ERed (- v) res) (trace s1) /\ incl (trace s) (trace s1) /\
    shifts s1 = shifts s /\ rec_shifts s1 = rec_shifts s.
Proof.
  intros H1 H2 Hna Hv Htc Hrule Hact Htc0 Hlen Hpk Hg. unfold pstep. rewrite H1, H2.
  destruct (v =? accept_code)%Z eqn:E; [apply Z.eqb_eq in E; contradiction|].
  rewrite Z.geb_leb. destruct (0 <=? v)%Z eqn:E2; [apply Z.leb_le in E2; lia|].
  rewrite Htc, Hrule, Hact.
  destruct (tc <? 0)%Z eqn:E3; [apply Z.ltb_lt in E3; lia|].
  unfold ParseRuntime.pop, peek_slice.
  assert (Hleb : Nat.leb (Z.to_nat tc) (length (stack s)) = true) by (apply Nat.leb_le; exact Hlen).
  rewrite Hleb. destruct eb; cbv beta iota zeta.
  - rewrite Hpk, Hg.
    destruct (b_empty (reduce_bounds (rev (firstn (Z.to_nat tc) (stack s))))); cbv beta iota delta [andb negb];
      do 2 eexists; (split; [reflexivity|]); simpl; repeat split; auto;
      intros x Hx; simpl; auto.
  - rewrite Hpk, Hg. cbv beta iota delta [andb negb].
    do 2 eexists. split; [reflexivity|]. simpl. repeat split; auto. intros x Hx; simpl; auto.
Qed.

End Pstep.

(* ---------- with the validator ---------- *)
Section Facts.
Variable g : grammar.
Variable tb : tables.
Variable c : cert.
Variable nterm : nat.
Variable discard : value -> bool.
Hypothesis Hval : validate g tb c nterm = true.

Notation nst := (nstates c).

Definition valid_item (it : sitem) : Prop := exists st, i_state it = Z.of_nat st /\ st < nst.

Lemma make_error_some s ty id top :
  lasym s = VTok ty id -> peek (stack s) 0 = Some top -> valid_item top ->
  exists ks, make_error tb s = Some (VErr (lasym s) ks).
Proof.
  intros Hl Hp (st & Hst & Hlt). unfold make_error. rewrite Hl, Hp, Hst.
  destruct (val_rows g tb c nterm Hval st Hlt) as [Hr _]. unfold check_action_row in Hr.
  destruct (row_of (t_actions tb) st) as [row|] eqn:Hrow; [|discriminate].
  pose proof (row_keys_some _ _ _ Hrow) as Hk.
  destruct (row_keys (t_actions tb) (Z.of_nat st)) as [ks|]; [|congruence]. eauto.
Qed.

(* _readToken when nothing is queued *)
Lemma read_real s l top :
  qla s = (-1)%Z -> input s = zs l -> peek (stack s) 0 = Some top -> valid_item top ->
  exists s', read_token tb s = Some s' /\ stack s' = stack s /\ trace s' = trace s /\
             qla s' = (-1)%Z /\ qlasym s' = qlasym s /\ tokish (lasym s') /\
             la s' = Z.of_nat (hd 0 l) /\ input s' = zs (tl l).
Proof.
  intros Hq Hin Hp Hv. unfold read_token. rewrite Hq. cbn [Z.eqb negb Z.opp Pos.eqb]. unfold lex_read. rewrite Hin.
  destruct l as [|t r]; cbn [zs map hd tl].
  - cbn [Z.eqb EOF ERROR]. eexists. split; [reflexivity|]. cbn. rewrite Hin. repeat split; auto.
  - destruct (Z.of_nat t =? ERROR)%Z eqn:E.
    + match goal with |- context [make_error tb ?s2] =>
        destruct (make_error_some s2 (Z.of_nat t) (pos s) top) as (ks & Hk); auto; rewrite Hk end.
      eexists. split; [reflexivity|]. cbn. repeat split; auto.
    + eexists. split; [reflexivity|]. cbn. repeat split; auto.
Qed.

(* _readToken when a lookahead is queued *)
Lemma read_queued s : qla s <> (-1)%Z ->
  read_token tb s = Some (set_la s (qla s) (qlasym s) (-1)%Z VNil).
Proof.
  intros Hq. unfold read_token.
  destruct (qla s =? -1)%Z eqn:E; [apply Z.eqb_eq in E; contradiction|]. reflexivity.
Qed.

(* ---------- _act cannot fail on a stack that holds the right-hand side ---------- *)
Lemma peek_sym_some (cs : list sitem) j : j < length cs -> exists v, peek_sym cs j = Some v.
Proof.
  intros Hj. unfold peek_sym, peek. destruct (nth_error cs j) as [it|] eqn:E; eauto.
  apply nth_error_None in E. lia.
Qed.

Lemma peek_args_some (cs : list sitem) n : n <= length cs -> exists l, peek_args cs n = Some l.
Proof.
  induction n as [|n IH]; intros Hn; simpl; eauto.
  destruct (peek_sym_some cs n) as (v & Hv); [lia|]. rewrite Hv.
  destruct IH as (l & Hl); [lia|]. rewrite Hl. eauto.
Qed.

Lemma act_some cs p pr :
  nth_error g p = Some pr -> p <> 0 -> length (rhs pr) <= length cs ->
  exists res, act tb discard cs (Z.of_nat p) = Some res.
Proof.
  intros Hp Hp0 Hlen.
  destruct (val_kinds g tb c nterm Hval p pr Hp) as (k & Hk & Hshape).
  destruct (val_arrays g tb c nterm Hval p pr Hp) as [_ Htc].
  unfold act. assert (E : (Z.of_nat p <? 0)%Z = false) by (apply Z.ltb_ge; lia). rewrite E.
  rewrite Nat2Z.id, Hk, Htc.
  remember (length (rhs pr)) as n eqn:Heqn.
  assert (Hps : forall j, j < n -> exists v, peek_sym cs j = Some v)
    by (intros j Hj; apply peek_sym_some; lia).
  inversion Hshape as [Hq|Hq H0|Hq H0|Hq H0|Hq H0|Hq H0|Hq]; subst k.
  - assert (E2 : (Z.of_nat n <? 0)%Z = false) by (apply Z.ltb_ge; lia). rewrite E2.
    rewrite Nat2Z.id. destruct (peek_args_some cs n Hlen) as (l & Hl). rewrite Hl. eauto.
  - destruct H0 as [H0|H0]; rewrite H0 in *; cbn [Z.of_nat Pos.of_succ_nat Pos.succ Z.eqb Pos.eqb].
    + destruct (Hps 0) as (v & Hv); [lia|]. rewrite Hv. eauto.
    + destruct (Hps 0) as (v & Hv); [lia|]. destruct (Hps 1) as (v1 & Hv1); [lia|].
      rewrite Hv, Hv1. eauto.
  - destruct H0 as [H0|H0]; rewrite H0 in *; cbn [Z.of_nat Pos.of_succ_nat Pos.succ Z.eqb Pos.eqb].
    + destruct (Hps 0) as (v & Hv); [lia|]. rewrite Hv. eauto.
    + destruct (Hps 0) as (v & Hv); [lia|]. destruct (Hps 1) as (v1 & Hv1); [lia|].
      rewrite Hv, Hv1. eauto.
  - destruct H0 as [H0|H0]; rewrite H0 in *; cbn [Z.of_nat Pos.of_succ_nat Pos.succ Z.eqb Pos.eqb].
    + destruct (Hps 0) as (v & Hv); [lia|]. rewrite Hv. eauto.
    + destruct (Hps 0) as (v & Hv); [lia|]. destruct (Hps 2) as (v1 & Hv1); [lia|].
      rewrite Hv, Hv1. eauto.
  - destruct H0 as [H0|H0]; rewrite H0 in *; cbn [Z.of_nat Pos.of_succ_nat Pos.succ Z.eqb Pos.eqb].
    + eauto.
    + destruct (Hps 0) as (v & Hv); [lia|]. rewrite Hv. eauto.
  - destruct H0 as [H0|H0]; rewrite H0 in *; cbn [Z.of_nat Pos.of_succ_nat Pos.succ Z.eqb Pos.eqb].
    + eauto.
    + destruct (Hps 0) as (v & Hv); [lia|]. rewrite Hv. eauto.
  - contradiction.
Qed.

(* ---------- the simulated scans of _recover stay inside the tables ---------- *)
Definition valid_state (z : Z) : Prop := exists st, z = Z.of_nat st /\ st < nst.

Lemma Forall_skipn' {A} (P : A -> Prop) n : forall l, Forall P l -> Forall P (skipn n l).
Proof.
  induction n as [|n IH]; intros l H; simpl; auto. destruct H; auto.
Qed.

Lemma valid_items_states cs : Forall valid_item cs -> Forall valid_state (map i_state cs).
Proof.
  induction 1 as [|it cs (st & Hst & Hlt) H IH]; simpl; constructor; auto. exists st. auto.
Qed.

Lemma recover_sim_nocrash f : forall states look, states <> [] -> Forall valid_state states ->
  recover_sim tb f states look <> SimCrash.
Proof.
  induction f as [|f IH]; intros states look Hne Hv; cbn [recover_sim]; [discriminate|].
  destruct states as [|state st0]; [congruence|].
  pose proof Hv as Hv0. inversion Hv0 as [|? ? (st & -> & Hst) Hv']; subst.
  pose proof (val_action_find g tb c nterm Hval st ERROR Hst) as Hf.
  destruct (find (t_actions tb) (Z.of_nat st) ERROR) as [action| |]; [|discriminate|destruct Hf].
  destruct Hf as [_ Hj]. unfold decode_action in Hj. change (Z.to_nat ERROR) with 1 in Hj.
  destruct (action <? 0)%Z eqn:E.
  - apply Z.ltb_lt in E.
    assert (E1 : (action =? accept_code)%Z = false) by (apply Z.eqb_neq; unfold accept_code; lia).
    assert (E2 : (action >=? 0)%Z = false) by (rewrite Z.geb_leb; apply Z.leb_gt; lia).
    rewrite E1, E2 in Hj. inversion Hj as [|p pr Hp0 Hp Hi|]; subst.
    destruct (val_arrays g tb c nterm Hval _ pr Hp) as [Hr Htc].
    rewrite Z2Nat.id in Hr, Htc by lia. rewrite Hr, Htc.
    assert (E3 : (Z.of_nat (length (rhs pr)) <? 0)%Z = false) by (apply Z.ltb_ge; lia). rewrite E3.
    destruct (Z.of_nat (length (Z.of_nat st :: st0)) <=? Z.of_nat (length (rhs pr)))%Z eqn:E4; [discriminate|].
    apply Z.leb_gt in E4. rewrite Nat2Z.id.
    pose proof (Forall_skipn' valid_state (length (rhs pr)) _ Hv) as Hvr.
    pose proof (skipn_length (length (rhs pr)) (Z.of_nat st :: st0)) as Hlen.
    destruct (skipn (length (rhs pr)) (Z.of_nat st :: st0)) as [|exposed rest].
    { cbn [length] in Hlen, E4. lia. }
    inversion Hvr as [|? ? (ex & -> & Hex) Hvrest]; subst.
    pose proof (val_goto_find g tb c nterm Hval ex (Z.of_nat (lhs pr)) Hex) as Hg.
    destruct (find (t_goto tb) (Z.of_nat ex) (Z.of_nat (lhs pr))) as [st'| |].
    + destruct Hg as (_ & H0 & Hlt & _). apply IH; [discriminate|]. constructor; auto.
      exists (Z.to_nat st'). split; auto. rewrite Z2Nat.id; lia.
    + apply IH; [discriminate|]. constructor; auto. exists 0. split; auto.
      apply (val_nstates g tb c nterm Hval).
    + destruct Hg.
  - apply Z.ltb_ge in E.
    destruct (action =? accept_code)%Z eqn:E1.
    + inversion Hj as [| |He Hi]. unfold eof in He. discriminate.
    + assert (E2 : (action >=? 0)%Z = true) by (rewrite Z.geb_leb; apply Z.leb_le; lia).
      rewrite E2 in Hj. inversion Hj as [s' Hne' Hs' Hpast| |]; subst.
      pose proof (val_action_find g tb c nterm Hval (Z.to_nat action) look Hs') as Hf2.
      rewrite Z2Nat.id in Hf2 by lia.
      destruct (find (t_actions tb) action look); [discriminate|discriminate|destruct Hf2].
Qed.

Lemma recover_pops_spec f look : forall cs e, Forall valid_item cs ->
  match recover_pops tb f cs look e with
  | PCrash => False
  | PFound st' e' => (exists n, n < length cs /\ st' = skipn n cs) /\ (tokish e -> tokish e')
  | PExhausted e' => tokish e -> tokish e'
  | PFuel => True
  end.
Proof.
  clear discard.
  induction cs as [|top cs IH]; intros e Hv; cbn [recover_pops]; auto.
  inversion Hv as [|? ? Htop Hv']; subst.
  destruct (recover_sim tb f (map i_state (top :: cs)) look) eqn:E.
  - split; auto. exists 0. simpl. split; [lia|reflexivity].
  - specialize (IH (match i_sym top with VErr _ _ => i_sym top | _ => e end) Hv').
    assert (Ht : tokish e -> tokish (match i_sym top with VErr _ _ => i_sym top | _ => e end)).
    { intros He. destruct (i_sym top); auto. exact I. }
    destruct (recover_pops tb f cs look _) as [st' e'|e'| |]; auto.
    destruct IH as [(n & Hn & ->) Hte]. split; auto. exists (S n). simpl. split; auto. lia.
  - exfalso. apply (recover_sim_nocrash f (map i_state (top :: cs)) look);
      [simpl; discriminate|apply valid_items_states; exact Hv|exact E].
  - exact I.
Qed.

End Facts.
