(* Boolean validator for the emitted LR tables (translation validation in the
   style of Jourdan-Pottier-Leroy, restated over lox's integer arrays).  The
   item sets, nullable and first tables are an untrusted certificate; only the
   grammar and the arrays are trusted inputs.  No proofs in this file. *)
From Coq Require Import List Arith ZArith Bool.
From Lox Require Import Parse.Grammar Parse.Tables.
Import ListNotations.

Definition item := (nat * nat * nat)%type.   (* production, dot, lookahead *)

Record cert := {
  c_items : list (list item);     (* per state *)
  c_nullable : list bool;         (* per rule *)
  c_first : list (list nat);      (* per rule: terminals *)
}.

Inductive act := Shift (s : nat) | Reduce (p : nat) | Acc.

Definition decode_action (v : Z) : act :=
  if (v =? accept_code)%Z then Acc
  else if (v >=? 0)%Z then Shift (Z.to_nat v)
  else Reduce (Z.to_nat (- v)).

Definition action_of (tb : tables) (s t : nat) : option act :=
  match find (t_actions tb) (Z.of_nat s) (Z.of_nat t) with
  | FFound v => Some (decode_action v)
  | _ => None
  end.

Definition goto_of (tb : tables) (s n : nat) : option nat :=
  match find (t_goto tb) (Z.of_nat s) (Z.of_nat n) with
  | FFound v => if (v <? 0)%Z then None else Some (Z.to_nat v)
  | _ => None
  end.

Definition item_eqb (a b : item) : bool :=
  let '(p, d, l) := a in let '(p', d', l') := b in
  Nat.eqb p p' && Nat.eqb d d' && Nat.eqb l l'.

Definition has_item (c : cert) (s : nat) (it : item) : bool :=
  existsb (item_eqb it) (nth s (c_items c) []).

Definition mem_nat (x : nat) (l : list nat) : bool := existsb (Nat.eqb x) l.

Definition nullable_nt (c : cert) (n : nat) : bool := nth n (c_nullable c) false.
Definition first_nt (c : cert) (n t : nat) : bool := mem_nat t (nth n (c_first c) []).

Definition nullable_sym (c : cert) (X : sym) : bool :=
  match X with T _ => false | NT n => nullable_nt c n end.
Definition first_sym (c : cert) (X : sym) (t : nat) : bool :=
  match X with T t' => Nat.eqb t' t | NT n => first_nt c n t end.
Definition nullable_word (c : cert) (w : list sym) : bool := forallb (nullable_sym c) w.
Fixpoint first_word (c : cert) (w : list sym) (t : nat) : bool :=
  match w with
  | [] => false
  | X :: q => if nullable_sym c X then first_sym c X t || first_word c q t else first_sym c X t
  end.

(* the terminals of FIRST(beta a) according to the certificate *)
Definition first_word_list (c : cert) (nterm : nat) (w : list sym) : list nat :=
  filter (first_word c w) (seq 0 nterm).

Section Validate.
Variable g : grammar.
Variable tb : tables.
Variable c : cert.
Variable nterm : nat.    (* number of terminals *)

Definition nstates : nat := length (c_items c).
Definition nrules : nat := length (c_nullable c).

Definition prods_of (n : nat) : list nat :=
  filter (fun q => match nth_error g q with Some pr => Nat.eqb (lhs pr) n | None => false end)
         (seq 0 (length g)).

(* V1: the nullable / first tables are closed under the productions *)
Definition check_nullable_first : bool :=
  forallb (fun pr =>
    (implb (nullable_word c (rhs pr)) (nullable_nt c (lhs pr))) &&
    forallb (fun t => implb (first_word c (rhs pr) t) (first_nt c (lhs pr) t)) (seq 0 nterm))
  g.

(* V4: S' (the left-hand side of production 0) is fresh *)
Definition check_sprime : bool :=
  match g with
  | [] => false
  | p0 :: rest =>
    match rhs p0 with
    | [_] =>
      forallb (fun pr => negb (Nat.eqb (lhs pr) (lhs p0))) rest &&
      forallb (fun pr => negb (existsb (sym_eqb (NT (lhs p0))) (rhs pr))) g
    | _ => false
    end
  end.

(* V0: the arrays describe the grammar: _rules[p] = lhs p, _termCounts[p] = |rhs p| *)
Definition check_arrays : bool :=
  Nat.eqb (length (t_rules tb)) (length g) &&
  Nat.eqb (length (t_term_counts tb)) (length g) &&
  Nat.eqb (length (t_kinds tb)) (length g) &&
  forallb (fun p =>
    match nth_error g p, nthz (t_rules tb) (Z.of_nat p), nthz (t_term_counts tb) (Z.of_nat p) with
    | Some pr, Some r, Some tc =>
      (r =? Z.of_nat (lhs pr))%Z && (tc =? Z.of_nat (length (rhs pr)))%Z
    | _, _, _ => false
    end) (seq 0 (length g)) &&
  forallb (fun pr => Nat.ltb (lhs pr) nrules &&
                     forallb (fun X => match X with T t => Nat.ltb t nterm | NT n => Nat.ltb n nrules end) (rhs pr)) g.

(* V2 / V7 *)
Definition check_init : bool :=
  has_item c 0 (0, 0, eof) &&
  forallb (fun it => let '(_, d, _) := it in Nat.eqb d 0) (nth 0 (c_items c) []).

(* V3 / V6: what each item demands of its state (completeness direction) *)
Definition check_item (s : nat) (it : item) : bool :=
  let '(p, d, a) := it in
  match nth_error g p with
  | None => false
  | Some pr =>
    Nat.ltb a nterm &&
    match nth_error (rhs pr) d with
    | Some (T t) =>
      match action_of tb s t with
      | Some (Shift s') => Nat.ltb s' nstates && has_item c s' (p, S d, a)
      | _ => false
      end
    | Some (NT B) =>
      match goto_of tb s B with
      | Some s' =>
        Nat.ltb s' nstates && has_item c s' (p, S d, a) &&
        let beta := skipn (S d) (rhs pr) in
        let las := (if nullable_word c beta then [a] else []) ++ first_word_list c nterm beta in
        forallb (fun q => forallb (fun x => has_item c s (q, 0, x)) las) (prods_of B)
      | None => false
      end
    | None =>
      Nat.eqb d (length (rhs pr)) &&
      (if Nat.eqb p 0
       then Nat.eqb a eof && match action_of tb s eof with Some Acc => true | _ => false end
       else match action_of tb s a with Some (Reduce q) => Nat.eqb q p | _ => false end)
    end &&
    (* V6: a non-kernel item can be reduced over: its state has a goto on its rule *)
    (if Nat.eqb d 0 && negb (Nat.eqb p 0)
     then match goto_of tb s (lhs pr) with Some s' => Nat.ltb s' nstates | None => false end
     else true)
  end.

Definition check_items : bool :=
  forallb (fun s => forallb (check_item s) (nth s (c_items c) [])) (seq 0 nstates).

(* LR(0) membership: the lookahead of a predecessor item is irrelevant, and in
   an LALR automaton (states merged by core) it may indeed differ *)
Definition has_item0 (c : cert) (s p d : nat) : bool :=
  existsb (fun it => let '(p', d', _) := it in Nat.eqb p p' && Nat.eqb d d') (nth s (c_items c) []).

(* V5: what each table entry needs as justification (soundness direction) *)
Definition past_ok (s s' : nat) (X : sym) : bool :=
  forallb (fun it =>
    let '(p, d, a) := it in
    match d with
    | O => negb (Nat.eqb p 0)     (* S' -> . start lives in state 0 only *)
    | S d' =>
      match nth_error g p with
      | Some pr =>
        match nth_error (rhs pr) d' with
        | Some Y => sym_eqb X Y && has_item0 c s p d'
        | None => false
        end
      | None => false
      end
    end) (nth s' (c_items c) []).

Fixpoint row_entries (fuel : nat) (t : list Z) (i e : Z) : option (list (Z * Z)) :=
  match fuel with
  | O => Some []
  | S f =>
    if (i <? e)%Z then
      match nthz t i, nthz t (i + 1)%Z, row_entries f t (i + 2)%Z e with
      | Some k, Some v, Some rest => Some ((k, v) :: rest)
      | _, _, _ => None
      end
    else Some []
  end.

Definition row_of (t : list Z) (y : nat) : option (list (Z * Z)) :=
  match nthz t (Z.of_nat y) with
  | None => None
  | Some i =>
    match nthz t i with
    | None => None
    | Some count =>
      if (count <? 0)%Z || negb (Z.even count) then None
      else row_entries (Z.to_nat count) t (i + 1)%Z (i + 1 + count)%Z
    end
  end.

Fixpoint keys_distinct (l : list (Z * Z)) : bool :=
  match l with
  | [] => true
  | (k, _) :: l' => negb (existsb (fun kv => (fst kv =? k)%Z) l') && keys_distinct l'
  end.

Definition check_action_row (s : nat) : bool :=
  match row_of (t_actions tb) s with
  | None => false
  | Some row =>
    keys_distinct row &&
    forallb (fun kv =>
      let '(k, v) := kv in
      (0 <=? k)%Z && (k <? Z.of_nat nterm)%Z &&
      let t := Z.to_nat k in
      match decode_action v with
      | Shift s' => negb (Nat.eqb t eof) && Nat.ltb s' nstates && past_ok s s' (T t)
      | Reduce p =>
        negb (Nat.eqb p 0) &&
        match nth_error g p with
        | Some pr => has_item c s (p, length (rhs pr), t)
        | None => false
        end
      | Acc => Nat.eqb t eof && has_item c s (0, 1, eof)
      end) row
  end.

Definition check_goto_row (s : nat) : bool :=
  match row_of (t_goto tb) s with
  | None => false
  | Some row =>
    keys_distinct row &&
    forallb (fun kv =>
      let '(k, v) := kv in
      (0 <=? k)%Z && (k <? Z.of_nat nrules)%Z && (0 <=? v)%Z &&
      let s' := Z.to_nat v in
      Nat.ltb s' nstates && past_ok s s' (NT (Z.to_nat k))) row
  end.

Definition check_rows : bool :=
  forallb (fun s => check_action_row s && check_goto_row s) (seq 0 nstates).

(* the rule kinds the _act template branches on fit the shapes of the productions *)
Definition check_kinds : bool :=
  forallb (fun p =>
    match nth_error g p, nth_error (t_kinds tb) p with
    | Some pr, Some k =>
      let n := length (rhs pr) in
      match k with
      | KSPrime => Nat.eqb p 0
      | KUser => negb (Nat.eqb p 0)
      | KOneOrMore | KOneOrMoreF => negb (Nat.eqb p 0) && (Nat.eqb n 1 || Nat.eqb n 2)
      | KList => negb (Nat.eqb p 0) && (Nat.eqb n 1 || Nat.eqb n 3)
      | KZeroOrOne | KZeroOrMore => negb (Nat.eqb p 0) && (Nat.eqb n 0 || Nat.eqb n 1)
      end
    | _, _ => false
    end) (seq 0 (length g)).

Definition validate : bool :=
  Nat.ltb 0 nstates && Nat.ltb 1 nterm &&
  check_arrays && check_kinds && check_sprime && check_nullable_first && check_init &&
  check_items && check_rows.

End Validate.
