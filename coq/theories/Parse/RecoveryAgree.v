(* R8: the recovery point found by the simulation in _recover is real.  If
   recover_sim answers SimYes on the state list of a stack satisfying the
   invariant, then the main loop, resumed with la = ERROR on that stack, performs
   reductions only (every step finds its action: _recover is not re-entered),
   then shifts ERROR, and the queued lookahead has an action in the new state. *)
From Coq Require Import List Arith ZArith Lia Bool ZifyBool ZifyNat.
From Lox Require Import Parse.Grammar Parse.Tables Parse.Validator Parse.Actions
  Parse.LRAbstract Parse.ValidatorFacts Parse.ParseRuntime Parse.Refine Parse.Complete Parse.Sound
  Parse.Recovery Parse.RecoveryFacts Parse.RecoverySound.
Import ListNotations.

Section Agree.
Variable g : grammar.
Variable tb : tables.
Variable c : cert.
Variable nterm : nat.
Variable eb : bool.
Variable discard : value -> bool.
Hypothesis Hval : validate g tb c nterm = true.
Variable w : list nat.

Notation pstep' := (pstep tb eb true discard).
Notation ploop' := (ploop tb eb true discard).
Notation RInv' := (RInv g c nterm w).

(* steps of the main loop that reduce on a found action entry, registers untouched *)
Inductive reduces : pstate -> pstate -> Prop :=
| rd_refl s : reduces s s
| rd_step s s1 s2 top v :
    peek (stack s) 0 = Some top -> find (t_actions tb) (i_state top) (la s) = FFound v ->
    (v < 0)%Z -> (forall f, pstep' f s = Continue s1) ->
    la s1 = la s -> lasym s1 = lasym s -> qla s1 = qla s -> qlasym s1 = qlasym s ->
    reduces s1 s2 -> reduces s s2.

Lemma pstep_found_irrel f1 f2 s top v :
  peek (stack s) 0 = Some top -> find (t_actions tb) (i_state top) (la s) = FFound v ->
  pstep' f1 s = pstep' f2 s.
Proof. intros H1 H2. unfold pstep. rewrite H1, H2. reflexivity. Qed.

Lemma reduces_ploop s s1 : reduces s s1 ->
  exists n, forall k, ploop' (n + k) s = ploop' k s1.
Proof.
  induction 1 as [s|s s1 s2 top v Hpk Hf Hv Hps _ _ _ _ _ IH].
  - exists 0. reflexivity.
  - destruct IH as (n & Hn). exists (S n). intros k.
    change (S n + k) with (S (n + k)). rewrite ploop_unfold, Hps. apply Hn.
Qed.

Definition shifted (s1 : pstate) (v : Z) (b : bounds) (q : Z) (qsym : value) : pstate :=
  set_la (set_stack s1 ({| i_state := v; i_sym := lasym s1; i_bounds := b |} :: stack s1))
         q qsym (-1)%Z VNil.

Theorem recover_sim_agrees : forall fuel s,
  RInv' s -> la s = ERROR -> qla s <> (-1)%Z ->
  recover_sim tb fuel (map i_state (stack s)) (qla s) = SimYes ->
  exists s1 top v b,
    reduces s s1 /\ lasym s1 = lasym s /\
    peek (stack s1) 0 = Some top /\
    find (t_actions tb) (i_state top) ERROR = FFound v /\ (0 <= v)%Z /\ v <> accept_code /\
    (forall f, pstep' f s1 = Continue (shifted s1 v b (qla s) (qlasym s))) /\
    RInv' (shifted s1 v b (qla s) (qlasym s)) /\
    exists a, find (t_actions tb) v (qla s) = FFound a.
Proof.
  induction fuel as [|fuel IH]; intros s HI Hla Hq Hsim; [discriminate|].
  destruct HI as (stk & wc & wr & Hw0 & HC & HE).
  assert (Hw : id (w = wc ++ wr)) by exact Hw0. clear Hw0.
  destruct (core_top g tb c nterm Hval _ _ _ HC) as (top & Hpk & Htop & Hlt & Hv).
  cbn [recover_sim] in Hsim.
  destruct (map i_state (stack s)) as [|state st0] eqn:Hmap; [discriminate|].
  assert (state = i_state top) as ->.
  { destruct (stack s) as [|t0 r]; simpl in *; [discriminate|]. inversion Hpk; inversion Hmap; subst; auto. }
  pose proof (val_action_find g tb c nterm Hval (topst stk) ERROR Hlt) as Hfind.
  rewrite <- Htop in Hfind.
  destruct (find (t_actions tb) (i_state top) ERROR) as [action| |] eqn:Hf; try discriminate.
  assert (Hf' : find (t_actions tb) (i_state top) (la s) = FFound action) by (rewrite Hla; exact Hf).
  destruct Hfind as [_ Hjust]. unfold decode_action in Hjust. change (Z.to_nat ERROR) with 1 in Hjust.
  destruct (action <? 0)%Z eqn:E.
  - apply Z.ltb_lt in E.
    assert (E1 : action <> accept_code) by (unfold accept_code; lia).
    assert (E1' : (action =? accept_code)%Z = false) by (apply Z.eqb_neq; exact E1).
    assert (E2 : (action >=? 0)%Z = false) by (rewrite Z.geb_leb; apply Z.leb_gt; lia).
    rewrite E1', E2 in Hjust. inversion Hjust as [|p pr Hp0 Hp Hitem|]; subst.
    destruct (val_arrays g tb c nterm Hval _ pr Hp) as [Hr Htc].
    rewrite Z2Nat.id in Hr, Htc by lia. rewrite Hr, Htc in Hsim.
    assert (E3 : (Z.of_nat (length (rhs pr)) <? 0)%Z = false) by (apply Z.ltb_ge; lia).
    rewrite E3 in Hsim.
    destruct (inv_reduce g tb c nterm eb discard Hval w 0 s stk wc wr top action pr 1
                Hw HC HE Hpk Htop Hf' E1 E Hp0 Hp Hitem)
      as (s' & ns & Hps & HI' & (R1 & R2 & R3 & R4 & _) & Hlen & Hmap' & exposed & rest' & Hsk & Hg).
    rewrite Hmap in Hmap', Hsk.
    assert (E4 : (Z.of_nat (length (i_state top :: st0)) <=? Z.of_nat (length (rhs pr)))%Z = false).
    { apply Z.leb_gt. rewrite <- Hmap, map_length. lia. }
    rewrite E4, Nat2Z.id, Hsk, Hg in Hsim. rewrite Hsk in Hmap'.
    rewrite <- Hmap', <- R3 in Hsim.
    destruct (IH s' HI') as (s1 & top1 & v & b & Hred & Hsym & Hpk1 & Hf1 & Hv0 & Hna & Hstep & HI1 & Hacc);
      try congruence.
    rewrite R2 in Hsym. rewrite R3, R4 in Hstep, HI1. rewrite R3 in Hacc.
    exists s1, top1, v, b. repeat split; auto.
    eapply rd_step; eauto.
    intros f0. rewrite (pstep_found_irrel f0 0 s top action Hpk Hf'). exact Hps.
  - apply Z.ltb_ge in E.
    destruct (action =? accept_code)%Z eqn:E1.
    { inversion Hjust as [| |He Hi]. unfold eof in He. discriminate. }
    apply Z.eqb_neq in E1.
    assert (E2 : (action >=? 0)%Z = true) by (rewrite Z.geb_leb; apply Z.leb_le; lia).
    rewrite E2 in Hjust. inversion Hjust as [s'' Hne Hs'' Hpast| |]; subst.
    destruct (find (t_actions tb) action (qla s)) as [a| |] eqn:Hfa; try discriminate.
    destruct (pstep_shift_gen tb eb discard true 0 s top action Hpk Hf' E1 E (C_lasym _ _ _ _ _ _ HC))
      as (b & Hps).
    destruct (inv_shift g tb c nterm Hval w s stk wc wr action b Hw HC HE E) as (s2 & Hrd & HI2); auto.
    { rewrite Hla. discriminate. }
    { rewrite Hla. exact Hpast. }
    assert (Hss : shift_state s action b =
                  set_stack s ({| i_state := action; i_sym := lasym s; i_bounds := b |} :: stack s))
      by (unfold shift_state; rewrite Hla; reflexivity).
    rewrite Hss in Hrd, Hps.
    rewrite read_queued in Hrd by (cbn [set_stack qla]; exact Hq).
    inversion Hrd; subst s2. rewrite read_queued in Hps by (cbn [set_stack qla]; exact Hq).
    exists s, top, action, b. repeat split; auto.
    + apply rd_refl.
    + intros f0. rewrite (pstep_found_irrel f0 0 s top action Hpk Hf'). exact Hps.
    + eauto.
Qed.

(* in terms of the loop: after finitely many iterations the parser is in the
   state that has ERROR shifted and the recovered lookahead back in la *)
Corollary recover_sim_agrees_ploop : forall fuel s,
  RInv' s -> la s = ERROR -> qla s <> (-1)%Z ->
  recover_sim tb fuel (map i_state (stack s)) (qla s) = SimYes ->
  exists n s2 top2 a,
    (forall k, ploop' (n + k) s = ploop' k s2) /\
    la s2 = qla s /\ lasym s2 = qlasym s /\ qla s2 = (-1)%Z /\
    peek (stack s2) 0 = Some top2 /\ i_sym top2 = lasym s /\
    find (t_actions tb) (i_state top2) (la s2) = FFound a /\ RInv' s2.
Proof.
  intros fuel s HI Hla Hq Hsim.
  destruct (recover_sim_agrees fuel s HI Hla Hq Hsim)
    as (s1 & top & v & b & Hred & Hsym & Hpk & Hf & Hv & Hna & Hstep & HI2 & a & Ha).
  destruct (reduces_ploop _ _ Hred) as (n & Hn).
  exists (n + 1), (shifted s1 v b (qla s) (qlasym s)), {| i_state := v; i_sym := lasym s1; i_bounds := b |}, a.
  repeat split; auto.
  intros k. rewrite <- Nat.add_assoc, Hn. cbn [Nat.add]. rewrite ploop_unfold, Hstep. reflexivity.
Qed.

End Agree.

Print Assumptions recover_sim_agrees.
Print Assumptions recover_sim_agrees_ploop.
