(* What the reductions compute, as a function of the parse tree: the value a
   generated parser leaves on its stack for a subtree, and the sequence of
   _act calls it makes (post-order).  Mirrors the _act template per rule kind. *)
From Coq Require Import List ZArith Bool.
From Lox Require Import Parse.Grammar Parse.Tables Parse.ParseRuntime.
Import ListNotations.

Section Eval.
Variable tb : tables.
Variable discard : value -> bool.

Definition kind_of (p : nat) : rkind := nth p (t_kinds tb) KUser.

(* the value _act builds from the values of the production's terms *)
Definition act_val (p : nat) (args : list value) : value :=
  match kind_of p with
  | KUser | KSPrime => VNode (Z.of_nat p) args
  | KOneOrMore =>
    match args with
    | [e] => VList [e]
    | [l; e] => VList (as_list l ++ [e])
    | _ => VNil
    end
  | KOneOrMoreF =>
    match args with
    | [e] => VList (if discard e then [] else [e])
    | [l; e] => VList (if discard e then as_list l else as_list l ++ [e])
    | _ => VNil
    end
  | KList =>
    match args with
    | [e] => VList [e]
    | [l; _; e] => VList (as_list l ++ [e])
    | _ => VNil
    end
  | KZeroOrOne | KZeroOrMore =>
    match args with
    | [e] => e
    | _ => VZero
    end
  end.

Fixpoint eval (t : tree) : value :=
  match t with
  | Leaf (ty, i) => VTok (Z.of_nat ty) i
  | Node p ch => act_val p (map eval ch)
  end.

(* the _act calls of a clean parse of t, in call order *)
Fixpoint reductions (t : tree) : list event :=
  match t with
  | Leaf _ => []
  | Node p ch => flat_map reductions ch ++ [ERed (Z.of_nat p) (eval t)]
  end.

End Eval.
