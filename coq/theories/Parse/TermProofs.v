(* TERMINATION of the generated parser on every input, from the boolean check
   [term_ok] of Parse/TermCheck.v on the emitted tables (C09), and hence: parse()
   without recovery DECIDES membership (C01).

   Plan.
   1. [zpath]: the projection of the stack to state numbers is a path of the
      automaton: bottom 0, adjacent states are table transitions ([successors]),
      justified by the validator ([past_ok]); a reduction on such a stack finds
      its goto ("missing goto pushes 0" cannot happen), [zpath_reduce].
   2. [phase_embed]: a phase of [local_run] on (rel, Some base) is what the
      chain does on the whole stack rel ++ base :: below, up to the escape.
   3. [chain_bound]: on a zpath of height h the chain of reductions under any
      lookahead ends within h * (F + 1) iterations.
   4. the whole run: [m2] (twice the measure of RecoveryProgress plus one while a
      recovered lookahead is queued) decreases at every shift and every pass
      through _recover, and is unchanged by reductions; the loops of _recover
      consume input, its simulated scans are chains.  ONE fuel is shared, so
      [halts] lets every iteration name the fuel it needs and monotonicity of
      the outcomes in the fuel does the rest. *)
From Coq Require Import List Arith ZArith Lia Bool ZifyBool ZifyNat.
From Lox Require Import Parse.Grammar Parse.Tables Parse.Validator Parse.Actions
  Parse.LRAbstract Parse.ValidatorFacts Parse.ParseRuntime Parse.Refine Parse.Complete Parse.Sound
  Parse.Recovery Parse.RecoveryFacts Parse.RecoverySound Parse.RecoveryProgress Parse.TermCheck.
Import ListNotations.

(* ---------- _Find versus the row view of TermCheck ---------- *)
Lemma scan_entries_find x v : forall f t i e acc l,
  row_entries_scan f t i e acc = Some l ->
  incl (rev acc) l /\ (find_scan f t i e x = FFound v -> In (x, v) l).
Proof.
  induction f as [|f IH]; intros t i e acc l H; cbn [row_entries_scan find_scan] in *.
  - inversion H; subst. split; [apply incl_refl|discriminate].
  - destruct (i <? e)%Z.
    + destruct (nthz t i) as [k|]; [|discriminate].
      destruct (nthz t (i + 1)) as [w|]; [|discriminate].
      destruct (IH _ _ _ _ _ H) as [Hi Hf]. cbn [rev] in Hi. split.
      * intros y Hy. apply Hi. apply in_or_app. left. exact Hy.
      * destruct (k =? x)%Z eqn:E.
        -- intros Hv. inversion Hv; subst. apply Z.eqb_eq in E. subst.
           apply Hi. apply in_or_app. right. left. reflexivity.
        -- exact Hf.
    + inversion H; subst. split; [apply incl_refl|discriminate].
Qed.

Lemma find_entries t y x v l :
  TermCheck.row_entries t y = Some l -> find t y x = FFound v -> In (x, v) l.
Proof.
  unfold TermCheck.row_entries, find. intros H Hf.
  destruct (nthz t y) as [i|]; [|discriminate].
  destruct (nthz t i) as [count|]; [|discriminate].
  eapply scan_entries_find; eauto.
Qed.

(* ---------- local_run: more fuel, same answer ---------- *)
Section LocalRun.
Variable tb : tables.

Lemma local_run_mono a f1 : forall f2 rel base r, f1 <= f2 -> r <> TFuel ->
  local_run tb f1 rel base a = r -> local_run tb f2 rel base a = r.
Proof.
  induction f1 as [|f1 IH]; intros f2 rel base r Hle Hr H.
  - simpl in H. congruence.
  - destruct f2 as [|f2]; [lia|]. cbn [local_run] in *.
    destruct (exposed rel base) as [top|]; auto.
    destruct (find (t_actions tb) top a) as [action| |]; auto.
    destruct (action >=? 0)%Z; auto.
    destruct (nthz (t_term_counts tb) (- action)) as [tc|]; auto.
    destruct (nthz (t_rules tb) (- action)) as [rule|]; auto.
    destruct (tc <? 0)%Z; auto.
    destruct (Nat.ltb (length rel) (Z.to_nat tc)); auto.
    destruct (exposed (skipn (Z.to_nat tc) rel) base) as [ex|]; auto.
    destruct (find (t_goto tb) ex rule) as [ns| |]; auto; apply IH; auto; lia.
Qed.

Lemma local_run_more a f1 f2 rel base : f1 <= f2 ->
  local_run tb f1 rel base a <> TFuel -> local_run tb f2 rel base a <> TFuel.
Proof.
  intros Hle H. rewrite (local_run_mono a f1 f2 rel base _ Hle H eq_refl). exact H.
Qed.

(* one reducing iteration on a whole stack *)
Lemma local_step a k st top st0 v tc rule ex rest ns :
  st = top :: st0 -> find (t_actions tb) top a = FFound v -> (v >=? 0)%Z = false ->
  nthz (t_term_counts tb) (- v) = Some tc -> nthz (t_rules tb) (- v) = Some rule ->
  (tc <? 0)%Z = false -> skipn (Z.to_nat tc) st = ex :: rest ->
  find (t_goto tb) ex rule = FFound ns ->
  local_run tb (S k) st None a = local_run tb k (ns :: ex :: rest) None a.
Proof.
  intros Hst Hf Hv Htc Hrule Htc0 Hsk Hg. cbn [local_run].
  rewrite Hst at 1. cbn [exposed]. rewrite Hf, Hv, Htc, Hrule, Htc0.
  assert (Hlt : Nat.ltb (length st) (Z.to_nat tc) = false).
  { apply Nat.ltb_ge. destruct (le_lt_dec (Z.to_nat tc) (length st)) as [Hle|Hlt]; auto.
    rewrite skipn_all2 in Hsk by lia. discriminate. }
  rewrite Hlt, Hsk. cbn [exposed]. rewrite Hg. reflexivity.
Qed.

(* the simulated scan of _recover is a chain under the lookahead ERROR *)
Lemma sim_of_local look f : forall st,
  local_run tb f st None ERROR <> TFuel -> recover_sim tb f st look <> SimFuel.
Proof.
  induction f as [|f IH]; intros st H; [simpl in H; congruence|].
  cbn [recover_sim local_run] in *.
  destruct st as [|state st0] eqn:Est; [discriminate|]. rewrite <- Est in *.
  assert (Hex : exposed st None = Some state) by (rewrite Est; reflexivity).
  rewrite Hex in H.
  destruct (find (t_actions tb) state ERROR) as [action| |]; try discriminate.
  assert (Hge : (action >=? 0)%Z = negb (action <? 0)%Z).
  { rewrite Z.geb_leb. destruct (action <? 0)%Z eqn:E.
    - apply Z.ltb_lt in E. apply Z.leb_gt. lia.
    - apply Z.ltb_ge in E. apply Z.leb_le. lia. }
  rewrite Hge in H. destruct (action <? 0)%Z; cbn [negb] in H.
  - destruct (nthz (t_term_counts tb) (- action)) as [tc|]; [|discriminate].
    destruct (nthz (t_rules tb) (- action)) as [rule|]; [|discriminate].
    destruct (tc <? 0)%Z eqn:Etc; [discriminate|]. apply Z.ltb_ge in Etc.
    destruct (Z.of_nat (length st) <=? tc)%Z eqn:Elen; [discriminate|].
    apply Z.leb_gt in Elen.
    assert (Hlt : Nat.ltb (length st) (Z.to_nat tc) = false) by (apply Nat.ltb_ge; lia).
    rewrite Hlt in H.
    destruct (skipn (Z.to_nat tc) st) as [|ex rest]; [discriminate|]. cbn [exposed] in H.
    destruct (find (t_goto tb) ex rule) as [ns| |]; try discriminate; apply IH; exact H.
  - destruct (find (t_actions tb) action look); discriminate.
Qed.

End LocalRun.

(* ---------- the state stack is a path of the automaton ---------- *)
Section Chain.
Variable g : grammar.
Variable tb : tables.
Variable c : cert.
Variable nterm : nat.
Variable F : nat.
Hypothesis Hval : validate g tb c nterm = true.
Hypothesis Hterm : term_ok tb (nstates c) F = true.

Notation nst := (nstates c).
Notation item s p d a := (has_item c s (p, d, a) = true).

Definition succ_of (s s' : Z) : Prop := exists l, successors tb s = Some l /\ In s' l.

(* top first; bottom 0; adjacent states are transitions of the tables *)
Inductive zpath : list Z -> Prop :=
| zp_bot : zpath [0%Z]
| zp_cons s s' X rest :
    zpath (Z.of_nat s :: rest) -> past_ok g c s s' X = true -> s' < nst ->
    succ_of (Z.of_nat s) (Z.of_nat s') -> zpath (Z.of_nat s' :: Z.of_nat s :: rest).

Lemma zpath_top st : zpath st -> exists s rest, st = Z.of_nat s :: rest /\ s < nst.
Proof.
  destruct 1 as [|s s' X rest Hp Hpast Hs' Hsucc].
  - exists 0, []. split; [reflexivity|]. apply (val_nstates g tb c nterm Hval).
  - exists s', (Z.of_nat s :: rest). auto.
Qed.

Lemma zpath_tail z st : zpath (z :: st) -> st = [] \/ zpath st.
Proof. intros H. inversion H; subst; auto. Qed.

Lemma zpath_skipn n : forall st, zpath st -> n < length st -> zpath (skipn n st).
Proof.
  induction n as [|n IH]; intros st Hp Hn; [exact Hp|].
  destruct st as [|z st]; [simpl in Hn; lia|]. cbn [skipn].
  destruct (zpath_tail _ _ Hp) as [->|Hp']; [simpl in Hn; lia|].
  apply IH; auto. simpl in Hn. lia.
Qed.

Lemma term_state_ok s : s < nst -> state_ok tb F (Z.of_nat s) = true.
Proof.
  intros Hs. unfold term_ok in Hterm. apply andb_true_iff in Hterm as [_ H].
  rewrite forallb_forall in H. apply H. apply in_seq. lia.
Qed.

Lemma successors_some s : s < nst -> exists l, successors tb (Z.of_nat s) = Some l.
Proof.
  intros Hs. pose proof (term_state_ok s Hs) as H. unfold state_ok in H.
  destruct (successors tb (Z.of_nat s)) as [l|]; [eauto|discriminate].
Qed.

Lemma succ_goto s x v : s < nst -> find (t_goto tb) (Z.of_nat s) x = FFound v -> succ_of (Z.of_nat s) v.
Proof.
  intros Hs Hf. destruct (successors_some s Hs) as (l & Hl). exists l. split; auto.
  unfold successors in Hl.
  destruct (TermCheck.row_entries (t_actions tb) (Z.of_nat s)) as [acts|]; [|discriminate].
  destruct (TermCheck.row_entries (t_goto tb) (Z.of_nat s)) as [gotos|] eqn:Hg; [|discriminate].
  inversion Hl; subst. apply in_or_app. right.
  change v with (snd (x, v)). apply in_map. eapply find_entries; eauto.
Qed.

Lemma succ_shift s x v : s < nst -> find (t_actions tb) (Z.of_nat s) x = FFound v ->
  (0 <= v)%Z -> v <> accept_code -> succ_of (Z.of_nat s) v.
Proof.
  intros Hs Hf Hv Hna. destruct (successors_some s Hs) as (l & Hl). exists l. split; auto.
  unfold successors in Hl.
  destruct (TermCheck.row_entries (t_actions tb) (Z.of_nat s)) as [acts|] eqn:Ha; [|discriminate].
  destruct (TermCheck.row_entries (t_goto tb) (Z.of_nat s)) as [gotos|]; [|discriminate].
  inversion Hl; subst. apply in_or_app. left.
  change v with (snd (x, v)). apply in_map. apply filter_In. split.
  - eapply find_entries; eauto.
  - cbn [snd]. apply andb_true_iff. split; [apply Z.leb_le; exact Hv|].
    apply negb_true_iff. apply Z.eqb_neq. exact Hna.
Qed.

(* a shift through the table extends the path *)
Lemma zpath_shift top rest a v :
  zpath (top :: rest) -> find (t_actions tb) top a = FFound v ->
  (0 <= v)%Z -> v <> accept_code ->
  zpath (v :: top :: rest) /\ (a =? EOF)%Z = false.
Proof.
  intros Hp Hf Hv Hna.
  destruct (zpath_top _ Hp) as (s & rest' & E & Hs). inversion E; subst top rest'. clear E.
  pose proof (val_action_find g tb c nterm Hval s a Hs) as Hfind. rewrite Hf in Hfind.
  destruct Hfind as [Hrange Hjust]. unfold decode_action in Hjust.
  assert (E1 : (v =? accept_code)%Z = false) by (apply Z.eqb_neq; exact Hna).
  assert (E2 : (v >=? 0)%Z = true) by (rewrite Z.geb_leb; apply Z.leb_le; lia).
  rewrite E1, E2 in Hjust. inversion Hjust as [s' Hne Hs' Hpast| |]; subst.
  split.
  - rewrite <- (Z2Nat.id v Hv). econstructor; eauto.
    rewrite (Z2Nat.id v Hv). eapply succ_shift; eauto.
  - apply Z.eqb_neq. unfold EOF. intros ->. apply Hne. reflexivity.
Qed.

(* walking back over the d symbols before the dot *)
Lemma zpath_pop p pr : nth_error g p = Some pr -> forall d s rest a,
  zpath (Z.of_nat s :: rest) -> item s p d a ->
  d < length (Z.of_nat s :: rest) /\
  exists s0 rest0 a0, skipn d (Z.of_nat s :: rest) = Z.of_nat s0 :: rest0 /\
    zpath (Z.of_nat s0 :: rest0) /\ s0 < nst /\ item s0 p 0 a0.
Proof.
  intros Hp. induction d as [|d IH]; intros s rest a Hz Hi.
  - split; [simpl; lia|]. exists s, rest, a. cbn [skipn]. repeat split; auto.
    destruct (zpath_top _ Hz) as (s1 & r1 & E & Hs1). inversion E as [[E1 E2]].
    apply Nat2Z.inj in E1. subst. exact Hs1.
  - inversion Hz as [E|s1 s' X rest1 Hz1 Hpast Hs' Hsucc [E1 E2]].
    + assert (s = 0) by lia. subst s.
      apply (val_init_d0 g tb c nterm Hval) in Hi. discriminate.
    + apply Nat2Z.inj in E1. subst s' rest.
      pose proof (val_past g c _ _ _ _ _ _ Hpast Hi) as (pr' & a' & Hp' & Hd & Hi').
      destruct (IH s1 rest1 a' Hz1 Hi') as (Hlen & s0 & rest0 & a0 & Hsk & Hz0 & Hs0 & Hi0).
      split; [simpl in *; lia|]. exists s0, rest0, a0. cbn [skipn]. auto.
Qed.

(* a reduction on a path: the pop stays inside the stack, the goto exists *)
Lemma zpath_reduce st top st0 a v tc rule :
  zpath st -> st = top :: st0 -> find (t_actions tb) top a = FFound v -> (v >=? 0)%Z = false ->
  nthz (t_term_counts tb) (- v) = Some tc -> nthz (t_rules tb) (- v) = Some rule ->
  (tc <? 0)%Z = false /\ Z.to_nat tc < length st /\
  exists ex rest ns, skipn (Z.to_nat tc) st = ex :: rest /\
    find (t_goto tb) ex rule = FFound ns /\ zpath (ns :: ex :: rest).
Proof.
  intros Hz Hst Hf Hv Htc Hrule.
  destruct (zpath_top _ Hz) as (s & rest' & E & Hs). rewrite Hst in E. inversion E; subst top rest'. clear E.
  pose proof (val_action_find g tb c nterm Hval s a Hs) as Hfind. rewrite Hf in Hfind.
  destruct Hfind as [Hrange Hjust]. unfold decode_action in Hjust.
  rewrite Z.geb_leb in Hv. apply Z.leb_gt in Hv.
  assert (E1 : (v =? accept_code)%Z = false) by (apply Z.eqb_neq; unfold accept_code; lia).
  assert (E2 : (v >=? 0)%Z = false) by (rewrite Z.geb_leb; apply Z.leb_gt; lia).
  rewrite E1, E2 in Hjust. inversion Hjust as [|p pr Hp0 Hp Hitem|]; subst.
  destruct (val_arrays g tb c nterm Hval _ pr Hp) as [Hr Htc'].
  rewrite Z2Nat.id in Hr, Htc' by lia. rewrite Hr in Hrule. rewrite Htc' in Htc.
  inversion Hrule; subst rule. inversion Htc; subst tc. clear Hrule Htc.
  rewrite Nat2Z.id.
  destruct (zpath_pop _ pr Hp _ _ _ _ Hz Hitem) as (Hlen & s0 & rest0 & a0 & Hsk & Hz0 & Hs0 & Hi0).
  split; [apply Z.ltb_ge; lia|]. split; [exact Hlen|].
  destruct (val_v6 g tb c nterm Hval _ _ _ _ Hi0 Hp Hp0) as (s' & Hg).
  destruct (val_goto_of g tb c nterm Hval _ _ _ Hs0 Hg) as (Hs' & Hpast & Hgf).
  exists (Z.of_nat s0), rest0, (Z.of_nat s'). repeat split; auto.
  econstructor; eauto. eapply succ_goto; eauto.
Qed.

(* ---------- a phase of local_run inside the whole stack ---------- *)
Lemma phase_embed a b below k :
  (forall st', zpath st' -> length st' <= S (length below) -> local_run tb k st' None a <> TFuel) ->
  forall f rel, zpath (rel ++ b :: below) ->
  local_run tb f rel (Some b) a <> TFuel ->
  local_run tb (f + k) (rel ++ b :: below) None a <> TFuel.
Proof.
  intros Hk. induction f as [|f IH]; intros rel Hz H; [simpl in H; congruence|].
  change (S f + k) with (S (f + k)). cbn [local_run] in *.
  assert (Hex : exists top st0, rel ++ b :: below = top :: st0 /\
                  exposed rel (Some b) = Some top /\ exposed (rel ++ b :: below) None = Some top).
  { destruct rel as [|x rel']; [exists b, below|exists x, (rel' ++ b :: below)]; auto. }
  destruct Hex as (top & st0 & Hst & Hex1 & Hex2). rewrite Hex1 in H. rewrite Hex2.
  destruct (find (t_actions tb) top a) as [v| |] eqn:Hf; try discriminate.
  destruct (v >=? 0)%Z eqn:Hv; [discriminate|].
  destruct (nthz (t_term_counts tb) (- v)) as [tc|] eqn:Htc; [|discriminate].
  destruct (nthz (t_rules tb) (- v)) as [rule|] eqn:Hrule; [|discriminate].
  destruct (zpath_reduce _ _ _ _ _ _ _ Hz Hst Hf Hv Htc Hrule)
    as (Htc0 & Hlen & ex & rest & ns & Hsk & Hg & Hz').
  rewrite Htc0 in *.
  assert (Hlt : Nat.ltb (length (rel ++ b :: below)) (Z.to_nat tc) = false) by (apply Nat.ltb_ge; lia).
  rewrite Hlt, Hsk. cbn [exposed]. rewrite Hg.
  destruct (Nat.ltb (length rel) (Z.to_nat tc)) eqn:Hesc.
  - (* the reduction pops the base: the stack is lower than at the start of the phase *)
    apply Nat.ltb_lt in Hesc.
    apply (local_run_more tb a k (f + k)); [lia|]. apply Hk; auto.
    pose proof (skipn_length (Z.to_nat tc) (rel ++ b :: below)) as Hl. rewrite Hsk in Hl.
    rewrite app_length in Hl. cbn [length] in *. lia.
  - apply Nat.ltb_ge in Hesc.
    rewrite skipn_app in Hsk.
    replace (Z.to_nat tc - length rel) with 0 in Hsk by lia. cbn [skipn] in Hsk.
    assert (Hex3 : exposed (skipn (Z.to_nat tc) rel) (Some b) = Some ex).
    { destruct (skipn (Z.to_nat tc) rel) as [|y r']; simpl in *; inversion Hsk; reflexivity. }
    rewrite Hex3, Hg in H.
    assert (Heq : ns :: ex :: rest = (ns :: skipn (Z.to_nat tc) rel) ++ b :: below).
    { cbn [app]. rewrite Hsk. reflexivity. }
    rewrite Heq. apply IH; [rewrite <- Heq; exact Hz'|exact H].
Qed.

(* ---------- every phase ends within F + 1 iterations ---------- *)
Lemma phase_ok_run base s1 a : phases_ok tb F base s1 = true ->
  local_run tb (S F) [s1] base a <> TFuel.
Proof.
  intros H. unfold phases_ok in H.
  destruct (TermCheck.row_entries (t_actions tb) s1) as [acts|] eqn:Hacts; [|discriminate].
  rewrite forallb_forall in H.
  destruct (find (t_actions tb) s1 a) as [v| |] eqn:Hf.
  - pose proof (H _ (find_entries _ _ _ _ _ Hacts Hf)) as Hn. cbn [fst] in Hn.
    apply (local_run_more tb a F (S F)); [lia|].
    destruct (local_run tb F [s1] base a); simpl in Hn; congruence.
  - cbn [local_run exposed]. rewrite Hf. discriminate.
  - cbn [local_run exposed]. rewrite Hf. discriminate.
Qed.

Lemma term_bottom_ok : phases_ok tb F None 0%Z = true.
Proof. unfold term_ok in Hterm. apply andb_true_iff in Hterm as [H _]. exact H. Qed.

Lemma term_pair_ok s s' : s < nst -> succ_of (Z.of_nat s) s' -> phases_ok tb F (Some (Z.of_nat s)) s' = true.
Proof.
  intros Hs (l & Hl & Hin). pose proof (term_state_ok s Hs) as H. unfold state_ok in H.
  rewrite Hl in H. rewrite forallb_forall in H. apply H. exact Hin.
Qed.

(* ---------- the chain bound on state stacks ---------- *)
Lemma chain_bound a : forall h st, zpath st -> length st <= h ->
  local_run tb (h * S F) st None a <> TFuel.
Proof.
  induction h as [|h IH]; intros st Hz Hlen.
  - destruct Hz; simpl in Hlen; lia.
  - inversion Hz as [E|s s' X rest Hz1 Hpast Hs' Hsucc E].
    + apply (local_run_more tb a (S F)); [cbn [Nat.mul]; lia|].
      apply phase_ok_run. exact term_bottom_ok.
    + subst st.
      assert (Hs : s < nst).
      { destruct (zpath_top _ Hz1) as (s1 & r1 & E & Hs1). inversion E as [[E1 E2]].
        apply Nat2Z.inj in E1. subst. exact Hs1. }
      pose proof (phase_ok_run _ _ a (term_pair_ok s (Z.of_nat s') Hs Hsucc)) as Hph.
      pose proof (phase_embed a (Z.of_nat s) rest (h * S F)) as Hemb.
      replace (S h * S F) with (S F + h * S F) by (cbn [Nat.mul]; lia).
      apply (Hemb) with (rel := [Z.of_nat s']); auto.
      intros st' Hz' Hl'. apply IH; auto. cbn [length] in Hlen. lia.
Qed.

Lemma chain_bound_len a st f : zpath st -> length st * S F <= f ->
  local_run tb f st None a <> TFuel.
Proof.
  intros Hz Hf. apply (local_run_more tb a (length st * S F)); auto.
  apply chain_bound; auto.
Qed.

Lemma sim_nofuel look st f : zpath st -> length st * S F <= f ->
  recover_sim tb f st look <> SimFuel.
Proof. intros Hz Hf. apply sim_of_local. apply chain_bound_len; auto. Qed.

(* ---------- the loops of _recover ---------- *)
Definition pendq (s : pstate) : nat := if (qla s =? -1)%Z then 0 else 1.
Definition m3 (s : pstate) : nat := 2 * remaining s + pendq s.
Definition m2 (s : pstate) : nat := 2 * measure s + pendq s.
Definition states (s : pstate) : list Z := map i_state (stack s).

Lemma read_m3 x x' : read_token tb x = Some x' -> (la x =? EOF)%Z = false -> m3 x' < m3 x.
Proof.
  intros Hrd Hla. destruct (read_rem tb _ _ Hrd) as (H1 & H2 & H3).
  unfold m3, pendq. rewrite H2. cbn [Z.eqb Pos.eqb].
  destruct (qla x =? -1)%Z eqn:Eq.
  - apply Z.eqb_eq in Eq. specialize (H3 Eq Hla). lia.
  - lia.
Qed.

Lemma skip_errors_halts : forall n s, m3 s < n -> skip_errors tb n s <> Fuel.
Proof.
  induction n as [|n IH]; intros s Hn; [lia|]. cbn [skip_errors].
  destruct (la s =? ERROR)%Z eqn:E; [|discriminate].
  destruct (read_token tb s) as [s'|] eqn:Hrd; [|discriminate].
  apply IH. assert (Hla : (la s =? EOF)%Z = false).
  { apply Z.eqb_eq in E. rewrite E. reflexivity. }
  pose proof (read_m3 _ _ Hrd Hla). lia.
Qed.

Lemma drop_if_stuck_halts s : exists M, drop_if_stuck tb M s <> Fuel.
Proof.
  unfold drop_if_stuck. destruct (shifts s =? rec_shifts s)%Z; [|exists 0; discriminate].
  destruct (la s =? EOF)%Z; [exists 0; discriminate|].
  destruct (read_token tb s) as [s'|]; [|exists 0; discriminate].
  exists (S (m3 s')). apply skip_errors_halts. lia.
Qed.

Lemma recover_pops_nofuel look f : forall cs e,
  (cs = [] \/ zpath (map i_state cs)) -> length cs * S F <= f ->
  recover_pops tb f cs look e <> PFuel.
Proof.
  induction cs as [|top cs IH]; intros e Hz Hf; cbn [recover_pops]; [discriminate|].
  destruct Hz as [Hz|Hz]; [discriminate|].
  pose proof (sim_nofuel look (map i_state (top :: cs)) f Hz) as Hsim.
  rewrite map_length in Hsim. specialize (Hsim Hf).
  destruct (recover_sim tb f (map i_state (top :: cs)) look); try discriminate; [|congruence].
  apply IH.
  - cbn [map] in Hz. destruct (zpath_tail _ _ Hz) as [E|Hz']; auto.
    left. destruct cs; [reflexivity|discriminate].
  - cbn [length] in Hf. lia.
Qed.

Lemma recover_outer_halts : forall n s e f, zpath (states s) -> m3 s < n ->
  n + length (stack s) * S F <= f -> recover_outer tb f e s <> Fuel.
Proof.
  induction n as [|n IH]; intros s e f Hz Hn Hf; [lia|].
  destruct f as [|f]; [lia|]. cbn [recover_outer].
  pose proof (recover_pops_nofuel (la s) (S f) (stack s) e (or_intror Hz)) as Hp.
  destruct (recover_pops tb (S f) (stack s) (la s) e) as [st' e'|e'| |]; try discriminate.
  - destruct (la s =? EOF)%Z eqn:Hla; [discriminate|].
    destruct (read_token tb s) as [s'|] eqn:Hrd; [|discriminate].
    pose proof (read_m3 _ _ Hrd Hla) as Hm.
    pose proof (read_token_stack tb _ _ Hrd) as Hst.
    apply IH; unfold states; rewrite ?Hst; auto; lia.
  - exfalso. apply Hp; [lia|reflexivity].
Qed.

Lemma recover_halts s : zpath (states s) -> exists M, recover tb M s <> Fuel.
Proof.
  intros Hz. unfold recover.
  destruct (match lasym s with VErr _ _ => Some (lasym s) | _ => make_error tb s end) as [e|];
    [|exists 0; discriminate].
  pose proof (skip_errors_halts (S (m3 s)) s (Nat.lt_succ_diag_r _)) as H1.
  destruct (skip_errors tb (S (m3 s)) s) as [s1| | | |] eqn:E1; try congruence.
  - pose proof (skip_errors_stack tb _ _ _ E1) as Hst1.
    destruct (drop_if_stuck_halts s1) as (M2 & H2).
    destruct (drop_if_stuck tb M2 s1) as [s2| | | |] eqn:E2; try congruence.
    + pose proof (drop_if_stuck_stack tb _ _ _ E2) as Hst2.
      set (M3 := S (m3 s2) + length (stack s2) * S F).
      assert (H3 : recover_outer tb M3 e s2 <> Fuel).
      { apply (recover_outer_halts (S (m3 s2)));
          [unfold states; rewrite Hst2, Hst1; exact Hz|lia|unfold M3; lia]. }
      exists (Nat.max (S (m3 s)) (Nat.max M2 M3)).
      rewrite (skip_errors_mono tb (S (m3 s)) _ _ _ (Nat.le_max_l _ _) H1 E1).
      rewrite (drop_if_stuck_mono tb M2 _ _ _ (Nat.le_trans _ _ _ (Nat.le_max_l _ _) (Nat.le_max_r _ _)) H2 E2).
      rewrite (recover_outer_mono tb (fun _ => false) M3 _ e s2 _
                 (Nat.le_trans _ _ _ (Nat.le_max_r _ _) (Nat.le_max_r _ _)) H3 eq_refl).
      exact H3.
    + exists (Nat.max (S (m3 s)) M2).
      rewrite (skip_errors_mono tb (S (m3 s)) _ _ _ (Nat.le_max_l _ _) H1 E1).
      rewrite (drop_if_stuck_mono tb M2 _ _ _ (Nat.le_max_r _ _) H2 E2). discriminate.
    + exists (Nat.max (S (m3 s)) M2).
      rewrite (skip_errors_mono tb (S (m3 s)) _ _ _ (Nat.le_max_l _ _) H1 E1).
      rewrite (drop_if_stuck_mono tb M2 _ _ _ (Nat.le_max_r _ _) H2 E2). discriminate.
    + exists (Nat.max (S (m3 s)) M2).
      rewrite (skip_errors_mono tb (S (m3 s)) _ _ _ (Nat.le_max_l _ _) H1 E1).
      rewrite (drop_if_stuck_mono tb M2 _ _ _ (Nat.le_max_r _ _) H2 E2). discriminate.
  - exists (S (m3 s)). rewrite E1. discriminate.
  - exists (S (m3 s)). rewrite E1. discriminate.
  - exists (S (m3 s)). rewrite E1. discriminate.
Qed.

Variable eb : bool.
Variable discard : value -> bool.
Variable rec : bool.
Notation pstep' := (pstep tb eb rec discard).
Notation ploop' := (ploop tb eb rec discard).

Lemma peek0 (l : list sitem) top : peek l 0 = Some top -> exists r, l = top :: r.
Proof. destruct l as [|x r]; simpl; intros H; inversion H; subst; eauto. Qed.

Lemma pstep_found_nofuel f s top v :
  peek (stack s) 0 = Some top -> find (t_actions tb) (i_state top) (la s) = FFound v ->
  pstep' f s <> Fuel.
Proof.
  intros Hpk Hf. unfold pstep. rewrite Hpk, Hf.
  destruct (v =? accept_code)%Z; [discriminate|].
  destruct (v >=? 0)%Z.
  - destruct (if eb then match latok (lasym s) with Some t => Some {| b_begin := t; b_end := t; b_empty := false |} | None => None end else Some no_bounds); [|discriminate].
    match goal with |- context [read_token tb ?x] => destruct (read_token tb x) end; discriminate.
  - destruct (nthz (t_term_counts tb) (- v)) as [tc|]; [|discriminate].
    destruct (nthz (t_rules tb) (- v)) as [rule|]; [|discriminate].
    destruct (act tb discard (stack s) (- v)) as [res|]; [|discriminate].
    destruct (tc <? 0)%Z; [discriminate|].
    unfold ParseRuntime.pop, peek_slice.
    destruct (Nat.leb (Z.to_nat tc) (length (stack s))); destruct eb; cbv beta iota zeta; try discriminate;
      (destruct (peek (skipn (Z.to_nat tc) (stack s)) 0) as [top'|]; [|discriminate];
       destruct (find (t_goto tb) (i_state top') rule); discriminate).
Qed.

Lemma pstep_reduce_shape f s s' top v :
  peek (stack s) 0 = Some top -> find (t_actions tb) (i_state top) (la s) = FFound v ->
  (v >=? 0)%Z = false -> pstep' f s = Continue s' ->
  exists tc rule ex rest ns,
    nthz (t_term_counts tb) (- v) = Some tc /\ nthz (t_rules tb) (- v) = Some rule /\
    skipn (Z.to_nat tc) (states s) = ex :: rest /\ states s' = ns :: ex :: rest /\
    (find (t_goto tb) ex rule = FFound ns \/ (find (t_goto tb) ex rule = FNone /\ ns = 0%Z)) /\
    la s' = la s /\ qla s' = qla s /\ input s' = input s /\
    shifts s' = shifts s /\ rec_shifts s' = rec_shifts s.
Proof.
  intros Hpk Hf Hv H. unfold pstep in H. rewrite Hpk, Hf, Hv in H.
  destruct (v =? accept_code)%Z; [discriminate|].
  destruct (nthz (t_term_counts tb) (- v)) as [tc|]; [|discriminate].
  destruct (nthz (t_rules tb) (- v)) as [rule|]; [|discriminate].
  destruct (act tb discard (stack s) (- v)) as [res|]; [|discriminate].
  destruct (tc <? 0)%Z; [discriminate|].
  unfold ParseRuntime.pop, peek_slice in H.
  destruct (Nat.leb (Z.to_nat tc) (length (stack s))).
  2:{ destruct eb; cbv beta iota zeta in H; discriminate. }
  match goal with |- ?G =>
  assert (Hgen : forall s1 b, la s1 = la s -> qla s1 = qla s -> input s1 = input s ->
            shifts s1 = shifts s -> rec_shifts s1 = rec_shifts s ->
            match peek (skipn (Z.to_nat tc) (stack s)) 0 with
            | None => Crash
            | Some top' =>
              match find (t_goto tb) (i_state top') rule with
              | FCrash => Crash
              | FNone => Continue (set_stack s1 ({| i_state := 0; i_sym := res; i_bounds := b |} :: skipn (Z.to_nat tc) (stack s)))
              | FFound ns => Continue (set_stack s1 ({| i_state := ns; i_sym := res; i_bounds := b |} :: skipn (Z.to_nat tc) (stack s)))
              end
            end = Continue s' -> G) end.
  { intros s1 b R1 R2 R3 R4 R5 H1. exists tc, rule.
    destruct (peek (skipn (Z.to_nat tc) (stack s)) 0) as [top'|] eqn:Hpk'; [|discriminate].
    destruct (peek0 _ _ Hpk') as (r & Hr).
    unfold states. rewrite skipn_map, Hr. cbn [map].
    destruct (find (t_goto tb) (i_state top') rule) as [ns| |] eqn:Hg; [| |discriminate];
      inversion H1; subst s'; cbn [set_stack stack la qla input shifts rec_shifts map i_state]; rewrite Hr; cbn [map].
    - exists (i_state top'), (map i_state r), ns. repeat split; auto.
    - exists (i_state top'), (map i_state r), 0%Z. repeat split; auto. }
  destruct eb; cbv beta iota zeta in H.
  - destruct (true && negb (b_empty (reduce_bounds (rev (firstn (Z.to_nat tc) (stack s))))))%bool;
      (eapply Hgen; [| | | | |exact H]; reflexivity).
  - cbv beta iota delta [andb] in H. eapply Hgen; [| | | | |exact H]; reflexivity.
Qed.

Lemma pstep_shift_shape f s s' top v :
  peek (stack s) 0 = Some top -> find (t_actions tb) (i_state top) (la s) = FFound v ->
  (v =? accept_code)%Z = false -> (v >=? 0)%Z = true -> pstep' f s = Continue s' ->
  exists b, read_token tb (shift_state s v b) = Some s'.
Proof.
  intros Hpk Hf Hna Hv H. unfold pstep in H. rewrite Hpk, Hf, Hna, Hv in H.
  destruct (if eb then match latok (lasym s) with
                       | Some t => Some {| b_begin := t; b_end := t; b_empty := false |}
                       | None => None end else Some no_bounds) as [b|]; [|discriminate].
  exists b. unfold shift_state.
  match type of H with context [read_token tb ?x] => destruct (read_token tb x) as [s2|] end;
    [|discriminate].
  inversion H; subst. reflexivity.
Qed.

Lemma shift_state_stack s v b : exists it, i_state it = v /\ stack (shift_state s v b) = it :: stack s.
Proof.
  exists {| i_state := v; i_sym := lasym s; i_bounds := b |}.
  unfold shift_state. destruct (la s =? ERROR)%Z; split; reflexivity.
Qed.

(* _recover hands back a non-empty suffix of the stack *)
Lemma recover_pops_suffix look f : forall cs e st' e',
  recover_pops tb f cs look e = PFound st' e' -> exists n, n < length cs /\ st' = skipn n cs.
Proof.
  induction cs as [|top cs IH]; intros e st' e' H; cbn [recover_pops] in H; [discriminate|].
  destruct (recover_sim tb f (map i_state (top :: cs)) look); try discriminate.
  - inversion H; subst. exists 0. split; [simpl; lia|reflexivity].
  - destruct (IH _ _ _ H) as (n & Hn & ->). exists (S n). split; [simpl; lia|reflexivity].
Qed.

Lemma recover_outer_suffix : forall f e s s', recover_outer tb f e s = Continue s' ->
  exists n, n < length (stack s) /\ stack s' = skipn n (stack s).
Proof.
  induction f as [|f IH]; intros e s s' H; [discriminate|]. cbn [recover_outer] in H.
  destruct (recover_pops tb (S f) (stack s) (la s) e) as [st' e'|e'| |] eqn:Hp; try discriminate.
  - inversion H; subst s'. cbn [set_shifts set_la set_stack stack].
    eapply recover_pops_suffix; eauto.
  - destruct (la s =? EOF)%Z; [discriminate|].
    destruct (read_token tb s) as [s1|] eqn:Hrd; [|discriminate].
    destruct (IH _ _ _ H) as (n & Hn & Hs). rewrite (read_token_stack tb _ _ Hrd) in *. eauto.
Qed.

Lemma recover_suffix f s s' : recover tb f s = Continue s' ->
  exists n, n < length (stack s) /\ stack s' = skipn n (stack s).
Proof.
  unfold recover. intros H.
  destruct (match lasym s with VErr _ _ => Some (lasym s) | _ => make_error tb s end) as [e|];
    [|discriminate].
  destruct (skip_errors tb f s) as [s1| | | |] eqn:E1; try discriminate.
  destruct (drop_if_stuck tb f s1) as [s2| | | |] eqn:E2; try discriminate.
  destruct (recover_outer_suffix _ _ _ _ H) as (n & Hn & Hs).
  rewrite (drop_if_stuck_stack tb _ _ _ E2), (skip_errors_stack tb _ _ _ E1) in *. eauto.
Qed.

(* ---------- the invariant of the run and what each iteration does to it ---------- *)
Definition LInv (s : pstate) : Prop :=
  zpath (states s) /\ (qla s <> (-1)%Z -> la s = ERROR).

Lemma linv_top s : LInv s -> exists top st0, peek (stack s) 0 = Some top /\ states s = i_state top :: st0.
Proof.
  intros [Hz _]. destruct (zpath_top _ Hz) as (st & rest & E & _). unfold states in *.
  destruct (stack s) as [|top r]; [discriminate|]. exists top, (map i_state r). auto.
Qed.

Lemma step_recover f s s' : LInv s -> recover tb f s = Continue s' -> LInv s' /\ m2 s' < m2 s.
Proof.
  intros [Hz Hq] H. split; [split|].
  - destruct (recover_suffix _ _ _ H) as (n & Hn & Hs). unfold states in *. rewrite Hs, <- skipn_map.
    apply zpath_skipn; auto. rewrite map_length. exact Hn.
  - intros _. destruct (recover_reports tb _ _ _ H) as (e0 & _ & Hla & _). exact Hla.
  - pose proof (recover_measure tb _ _ _ H Hq) as Hm. unfold m2, pendq.
    destruct (qla s' =? -1)%Z; destruct (qla s =? -1)%Z; lia.
Qed.

Lemma step_shift s s' top st0 v b :
  LInv s -> states s = top :: st0 -> find (t_actions tb) top (la s) = FFound v ->
  (v =? accept_code)%Z = false -> (v >=? 0)%Z = true ->
  read_token tb (shift_state s v b) = Some s' -> LInv s' /\ m2 s' < m2 s.
Proof.
  intros [Hz Hq] Hst Hf Hna Hv Hrd.
  apply Z.eqb_neq in Hna. rewrite Z.geb_leb in Hv. apply Z.leb_le in Hv.
  rewrite Hst in Hz. destruct (zpath_shift _ _ _ _ Hz Hf Hv Hna) as [Hz' Hla].
  destruct (read_rem tb _ _ Hrd) as (H1 & H2 & H3).
  destruct (read_token_shifts tb _ _ Hrd) as [H4 H5].
  destruct (shift_state_regs s v b) as (R1 & R2 & R3 & R4 & R5).
  rewrite R3 in H1, H3. rewrite R1, R2 in H3. rewrite R4 in H5. rewrite R5 in H4.
  split; [split|].
  - unfold states. rewrite (read_token_stack tb _ _ Hrd).
    destruct (shift_state_stack s v b) as (it & Hit & Hs). rewrite Hs. cbn [map].
    rewrite Hit. fold (states s). rewrite Hst. exact Hz'.
  - intros Hc. contradiction.
  - unfold m2, pendq, measure, stuck. rewrite H2, H4, H5. cbn [Z.eqb Pos.eqb].
    destruct (qla s =? -1)%Z eqn:Eq.
    + apply Z.eqb_eq in Eq. specialize (H3 Eq Hla).
      destruct ((if (la s =? ERROR)%Z then shifts s else (shifts s + 1)%Z) =? rec_shifts s)%Z;
        destruct (shifts s =? rec_shifts s)%Z; lia.
    + apply Z.eqb_neq in Eq. rewrite (Hq Eq). cbn [Z.eqb Pos.eqb ERROR].
      destruct (shifts s =? rec_shifts s)%Z; lia.
Qed.

Lemma step_reduce f k s s' top st0 v :
  zpath (states s) -> peek (stack s) 0 = Some top -> states s = i_state top :: st0 ->
  find (t_actions tb) (i_state top) (la s) = FFound v -> (v >=? 0)%Z = false ->
  pstep' f s = Continue s' ->
  zpath (states s') /\ m2 s' = m2 s /\ la s' = la s /\ qla s' = qla s /\
  local_run tb (S k) (states s) None (la s) = local_run tb k (states s') None (la s).
Proof.
  intros Hz Hpk Hst Hf Hv H.
  destruct (pstep_reduce_shape _ _ _ _ _ Hpk Hf Hv H)
    as (tc & rule & ex & rest & ns & Htc & Hrule & Hsk & Hs' & Hg & R1 & R2 & R3 & R4 & R5).
  destruct (zpath_reduce _ _ _ _ _ _ _ Hz Hst Hf Hv Htc Hrule)
    as (Htc0 & Hlen & ex' & rest' & ns' & Hsk' & Hg' & Hz').
  rewrite Hsk in Hsk'. inversion Hsk'; subst ex' rest'. clear Hsk'.
  assert (ns' = ns) as ->.
  { destruct Hg as [Hg|[Hg _]]; rewrite Hg in Hg'; [inversion Hg'; reflexivity|discriminate]. }
  split; [|split; [|split; [|split]]].
  - rewrite Hs'. exact Hz'.
  - unfold m2, pendq, measure, remaining, stuck. rewrite R1, R2, R3, R4, R5. reflexivity.
  - exact R1.
  - exact R2.
  - rewrite Hs'. eapply local_step; eauto.
Qed.

(* the invariant holds along every run, whatever the iteration does *)
Lemma pstep_linv f s s' : LInv s -> pstep' f s = Continue s' -> LInv s'.
Proof.
  intros HI H. destruct (linv_top s HI) as (top & st0 & Hpk & Hst).
  destruct (find (t_actions tb) (i_state top) (la s)) as [v| |] eqn:Hf.
  - destruct (v =? accept_code)%Z eqn:Hna.
    { unfold pstep in H. rewrite Hpk, Hf, Hna in H. discriminate. }
    destruct (v >=? 0)%Z eqn:Hv.
    + destruct (pstep_shift_shape _ _ _ _ _ Hpk Hf Hna Hv H) as (b & Hrd).
      exact (proj1 (step_shift s s' _ _ v b HI Hst Hf Hna Hv Hrd)).
    + destruct (step_reduce f 0 s s' top st0 v (proj1 HI) Hpk Hst Hf Hv H) as (Hz' & _ & Hla & Hq & _).
      split; auto. rewrite Hla, Hq. exact (proj2 HI).
  - unfold pstep in H. rewrite Hpk, Hf in H. destruct rec; [|discriminate].
    exact (proj1 (step_recover f s s' HI H)).
  - unfold pstep in H. rewrite Hpk, Hf in H. discriminate.
Qed.

(* ---------- halting, with the fuel each iteration needs ---------- *)
Inductive halts : pstate -> Prop :=
| halts_intro s M : pstep' M s <> Fuel -> (forall s', pstep' M s = Continue s' -> halts s') -> halts s.

Lemma halts_ploop s : halts s -> exists N, ploop' N s <> Fuel.
Proof.
  induction 1 as [s M Hnf Hnext IH].
  destruct (pstep' M s) as [s1| | | |] eqn:E; try congruence.
  - destruct (IH s1 eq_refl) as (N & HN). exists (S (Nat.max M N)).
    rewrite ploop_unfold.
    rewrite (pstep_mono tb eb discard rec M (S (Nat.max M N)) s _ ltac:(lia) Hnf E).
    rewrite (ploop_mono_rec tb eb discard rec N (Nat.max M N) s1 _ ltac:(lia) HN eq_refl). exact HN.
  - exists (S M). rewrite ploop_unfold.
    rewrite (pstep_mono tb eb discard rec M (S M) s _ ltac:(lia) Hnf E). discriminate.
  - exists (S M). rewrite ploop_unfold.
    rewrite (pstep_mono tb eb discard rec M (S M) s _ ltac:(lia) Hnf E). discriminate.
  - exists (S M). rewrite ploop_unfold.
    rewrite (pstep_mono tb eb discard rec M (S M) s _ ltac:(lia) Hnf E). discriminate.
Qed.

Lemma halts_inner n :
  (forall s, LInv s -> m2 s < n -> halts s) ->
  forall K s, LInv s -> m2 s <= n -> local_run tb K (states s) None (la s) <> TFuel -> halts s.
Proof.
  intros Hout. induction K as [|K IH]; intros s HI Hm HK; [simpl in HK; congruence|].
  destruct (linv_top s HI) as (top & st0 & Hpk & Hst).
  destruct (find (t_actions tb) (i_state top) (la s)) as [v| |] eqn:Hf.
  - destruct (v =? accept_code)%Z eqn:Hna.
    { apply (halts_intro s 0); unfold pstep; rewrite Hpk, Hf, Hna; [discriminate|].
      intros s' Hc. discriminate. }
    destruct (v >=? 0)%Z eqn:Hv.
    + apply (halts_intro s 0); [eapply pstep_found_nofuel; eauto|].
      intros s' Hs'. destruct (pstep_shift_shape _ _ _ _ _ Hpk Hf Hna Hv Hs') as (b & Hrd).
      destruct (step_shift s s' _ _ v b HI Hst Hf Hna Hv Hrd) as [HI' Hm'].
      apply Hout; auto. lia.
    + apply (halts_intro s 0); [eapply pstep_found_nofuel; eauto|].
      intros s' Hs'.
      destruct (step_reduce 0 K s s' top st0 v (proj1 HI) Hpk Hst Hf Hv Hs') as (Hz' & Hm' & Hla & Hq & Hrun).
      apply IH; [split; auto; rewrite Hla, Hq; exact (proj2 HI)|lia|].
      rewrite Hla, <- Hrun. exact HK.
  - assert (Hps : forall f, pstep' f s = if rec then recover tb f s else Reject s)
      by (intros f; unfold pstep; rewrite Hpk, Hf; reflexivity).
    destruct (Bool.bool_dec rec true) as [Hrec|Hrec].
    + destruct (recover_halts s (proj1 HI)) as (M & HM).
      apply (halts_intro s M); rewrite Hps, Hrec; [exact HM|].
      intros s' Hs'. destruct (step_recover M s s' HI Hs') as [HI' Hm'].
      apply Hout; auto. lia.
    + apply not_true_is_false in Hrec.
      apply (halts_intro s 0); rewrite Hps, Hrec; [discriminate|].
      intros s' Hc. discriminate.
  - apply (halts_intro s 0); unfold pstep; rewrite Hpk, Hf; [discriminate|].
    intros s' Hc. discriminate.
Qed.

Lemma linv_halts : forall n s, LInv s -> m2 s < n -> halts s.
Proof.
  induction n as [|n IH]; intros s HI Hm; [lia|].
  apply (halts_inner n IH (length (states s) * S F) s HI); [lia|].
  apply chain_bound_len; [exact (proj1 HI)|lia].
Qed.

Lemma ploop_never_continue : forall f s s', ploop' f s <> Continue s'.
Proof.
  induction f as [|f IH]; intros s s'; [discriminate|]. rewrite ploop_unfold.
  destruct (pstep' (S f) s); try discriminate. apply IH.
Qed.

Theorem parse_terminates_any zw : exists fuel, parse tb eb rec discard fuel zw <> Fuel.
Proof.
  unfold parse. destruct (read_token tb (init_state zw)) as [s0|] eqn:Hrd; [|exists 0; discriminate].
  apply halts_ploop. apply (linv_halts (S (m2 s0))); [|lia]. split.
  - unfold states. rewrite (read_token_stack tb _ _ Hrd). simpl. constructor.
  - destruct (read_rem tb _ _ Hrd) as (_ & Hq & _). intros Hc. contradiction.
Qed.

Lemma init_linv zw s0 : read_token tb (init_state zw) = Some s0 -> LInv s0.
Proof.
  intros Hrd. split.
  - unfold states. rewrite (read_token_stack tb _ _ Hrd). simpl. constructor.
  - destruct (read_rem tb _ _ Hrd) as (_ & Hq & _). intros Hc. contradiction.
Qed.

(* ---------- the chain bound on the run itself ---------- *)
(* n consecutive iterations of the main loop, every one of them a reduction *)
Inductive reduce_run : nat -> pstate -> pstate -> Prop :=
| rr_nil s : reduce_run 0 s s
| rr_step n f s s1 s2 top v :
    peek (stack s) 0 = Some top -> find (t_actions tb) (i_state top) (la s) = FFound v ->
    (v < 0)%Z -> pstep' f s = Continue s1 -> reduce_run n s1 s2 -> reduce_run (S n) s s2.

Lemma reduce_run_fuel n s s' : reduce_run n s s' -> zpath (states s) ->
  local_run tb n (states s) None (la s) = TFuel.
Proof.
  induction 1 as [s|n f s s1 s2 top v Hpk Hf Hv Hps Hrun IH]; intros Hz; [reflexivity|].
  assert (Hv' : (v >=? 0)%Z = false) by (rewrite Z.geb_leb; apply Z.leb_gt; exact Hv).
  assert (Hst : exists st0, states s = i_state top :: st0).
  { unfold states. destruct (stack s) as [|t0 r]; simpl in Hpk; inversion Hpk; subst. simpl. eauto. }
  destruct Hst as (st0 & Hst).
  destruct (step_reduce f n s s1 top st0 v Hz Hpk Hst Hf Hv' Hps) as (Hz' & _ & Hla & _ & Hstep).
  rewrite Hstep, <- Hla. apply IH. exact Hz'.
Qed.

Theorem reduce_chain_bounded_sec s n s' :
  zpath (states s) -> reduce_run n s s' -> n < length (stack s) * (F + 1).
Proof.
  intros Hz Hrun. pose proof (reduce_run_fuel _ _ _ Hrun Hz) as Hfuel.
  destruct (le_lt_dec (length (stack s) * (F + 1)) n) as [Hle|Hlt]; [|exact Hlt].
  exfalso. apply (chain_bound_len (la s) (states s) n Hz); [|exact Hfuel].
  unfold states. rewrite map_length. replace (S F) with (F + 1) by lia. exact Hle.
Qed.

End Chain.

(* ---------- the theorems ---------- *)

(* T1: with or without error recovery, every run terminates *)
Theorem parse_terminates :
  forall g tb c nterm eb discard F,
    validate g tb c nterm = true ->
    term_ok tb (nstates c) F = true ->
    forall rec w, tokens1 nterm w ->
      exists fuel, parse tb eb rec discard fuel (zs w) <> Fuel.
Proof.
  intros g tb c nterm eb discard F Hval Hterm rec w _.
  exact (parse_terminates_any g tb c nterm F Hval Hterm eb discard rec (zs w)).
Qed.

Lemma parse_never_continue tb eb rec discard fuel zw s :
  parse tb eb rec discard fuel zw <> Continue s.
Proof.
  unfold parse. destruct (read_token tb (init_state zw)) as [s0|]; [|discriminate].
  revert s0. induction fuel as [|f IH]; intros s0; [discriminate|]. rewrite ploop_unfold.
  destruct (pstep tb eb rec discard (S f) s0); try discriminate. apply IH.
Qed.

(* T2: hence parse() without recovery DECIDES membership *)
Theorem parse_decides :
  forall g tb c nterm eb discard F,
    validate g tb c nterm = true ->
    term_ok tb (nstates c) F = true ->
    forall w, ordinary nterm w ->
      exists fuel,
        (exists s, parse tb eb false discard fuel (zs w) = Accept s /\ sentence g (tokens_of w)) \/
        (exists s, parse tb eb false discard fuel (zs w) = Reject s /\ ~ sentence g (tokens_of w)).
Proof.
  intros g tb c nterm eb discard F Hval Hterm w Hord.
  destruct (parse_terminates_any g tb c nterm F Hval Hterm eb discard false (zs w)) as (fuel & Hnf).
  exists fuel.
  destruct (parse tb eb false discard fuel (zs w)) as [s|s|s| |] eqn:E.
  - exfalso. eapply parse_never_continue; eauto.
  - left. exists s. split; [reflexivity|].
    eapply (parse_sound g tb c nterm eb discard Hval); eauto.
  - right. exists s. split; [reflexivity|]. intros Hs.
    destruct (parse_complete g tb c nterm eb discard Hval w Hord Hs) as (f2 & s2 & H2).
    apply (parse_mono tb eb discard f2 (Nat.max fuel f2)) in H2; [|lia|discriminate].
    apply (parse_mono tb eb discard fuel (Nat.max fuel f2)) in E; [|lia|discriminate].
    congruence.
  - exfalso. eapply (parse_no_crash g tb c nterm eb discard Hval); eauto.
  - congruence.
Qed.

(* T3: the chain bound the argument rests on.  On a stack of height h whose
   adjacent states are transitions of the tables ([zpath]; it holds of the
   initial state and is kept by every iteration: [run_stack_is_path]), n
   consecutive reducing iterations of the main loop satisfy n < h * (F + 1):
   within h * (F + 1) iterations the chain reaches a shift, accept, error or
   crash. *)
Theorem reduce_chain_bounded :
  forall g tb c nterm eb rec discard F,
    validate g tb c nterm = true ->
    term_ok tb (nstates c) F = true ->
    forall s n s',
      zpath g tb c (map i_state (stack s)) ->
      reduce_run tb eb discard rec n s s' ->
      n < length (stack s) * (F + 1).
Proof.
  intros g tb c nterm eb rec discard F Hval Hterm s n s' Hz Hrun.
  exact (reduce_chain_bounded_sec g tb c nterm F Hval Hterm eb discard rec s n s' Hz Hrun).
Qed.

(* the same bound on state stacks, in terms of the checker's own simulator *)
Theorem reduce_chain_bounded_states :
  forall g tb c nterm F,
    validate g tb c nterm = true ->
    term_ok tb (nstates c) F = true ->
    forall st a, zpath g tb c st -> local_run tb (length st * (F + 1)) st None a <> TFuel.
Proof.
  intros g tb c nterm F Hval Hterm st a Hz.
  apply (chain_bound_len g tb c nterm F Hval Hterm a st); [exact Hz|].
  replace (S F) with (F + 1) by lia. apply le_n.
Qed.

(* every stack that occurs in a run is such a path *)
Theorem run_stack_is_path :
  forall g tb c nterm eb rec discard F,
    validate g tb c nterm = true ->
    term_ok tb (nstates c) F = true ->
    (forall zw s0, read_token tb (init_state zw) = Some s0 -> LInv g tb c s0) /\
    (forall f s s', LInv g tb c s -> pstep tb eb rec discard f s = Continue s' -> LInv g tb c s').
Proof.
  intros g tb c nterm eb rec discard F Hval Hterm. split.
  - intros zw s0. apply init_linv.
  - intros f s s'. apply (pstep_linv g tb c nterm F Hval Hterm eb discard rec).
Qed.

(* ---------- non-vacuity ---------- *)
(* S' -> S ; S -> a   (terminals: 0 EOF, 1 @error, 2 a; rules: 0 S', 1 S)
   state 0: a -> shift 1, goto S = 2; state 1: EOF -> reduce S -> a; state 2: EOF -> accept *)
Definition g_small : grammar :=
  [ {| lhs := 0; rhs := [NT 1] |}; {| lhs := 1; rhs := [T 2] |} ].
Definition tb_small : tables :=
  {| t_actions := [3; 6; 9;  2; 2; 1;  2; 0; -1;  2; 0; accept_code]%Z;
     t_goto := [3; 6; 7;  2; 1; 2;  0;  0]%Z;
     t_rules := [0; 1]%Z; t_term_counts := [1; 1]%Z; t_kinds := [KSPrime; KUser] |}.
Definition c_small : cert :=
  {| c_items := [[(0, 0, 0); (1, 0, 0)]; [(1, 1, 0)]; [(0, 1, 0)]];
     c_nullable := [false; false]; c_first := [[2]; [2]] |}.

Example term_ok_small :
  validate g_small tb_small c_small 3 = true /\
  term_ok tb_small (nstates c_small) (term_fuel tb_small (nstates c_small)) = true /\
  term_ok tb_small (nstates c_small) 2 = true /\
  (exists s, parse tb_small true false (fun _ => false) 10 (zs [2]) = Accept s) /\
  (exists s, parse tb_small true true (fun _ => false) 10 (zs [2; 2]) = Reject s).
Proof.
  split; [vm_compute; reflexivity|]. split; [vm_compute; reflexivity|].
  split; [vm_compute; reflexivity|].
  split; eexists; vm_compute; reflexivity.
Qed.

(* state 1 under the lookahead 2 reduces production 1 (one term, rule 1) and
   goto(0, rule 1) = 1: the parser reduces for ever; the check sees it whatever
   the fuel it is given, and the run of the model indeed exhausts its fuel *)
Definition tb_cycle : tables :=
  {| t_actions := [2; 5;  2; 2; 1;  2; 2; -1]%Z;     (* state 0: 2 -> shift 1; state 1: 2 -> reduce 1 *)
     t_goto := [2; 5;  2; 1; 1;  0]%Z;               (* state 0: rule 1 -> 1 *)
     t_rules := [0; 1]%Z; t_term_counts := [1; 1]%Z; t_kinds := [KSPrime; KUser] |}.

Example term_ok_detects_cycle :
  term_ok tb_cycle 2 (term_fuel tb_cycle 2) = false /\
  term_ok tb_cycle 2 1000 = false /\
  parse tb_cycle false false (fun _ => false) 200 [2; 2]%Z = Fuel.
Proof. repeat split; vm_compute; reflexivity. Qed.

Print Assumptions parse_terminates.
Print Assumptions parse_decides.
Print Assumptions reduce_chain_bounded.
Print Assumptions reduce_chain_bounded_states.
Print Assumptions run_stack_is_path.
Print Assumptions term_ok_small.
Print Assumptions term_ok_detects_cycle.
