(* An abstract, deterministic LR machine over trees (stack of state * tree with an
   implicit bottom entry in state 0) and the big-step completeness lemma "the
   parser follows the parse tree".  The automaton (action / goto) is abstract;
   the item sets, nullable and first come from a certificate; the validator's
   clauses are hypotheses here and are discharged in ValidatorFacts.v. *)
From Coq Require Import List Arith Lia Bool.
From Lox Require Import Parse.Grammar Parse.Tables Parse.Validator.
Import ListNotations.

(* the Node subtrees of t in post-order: the reductions of a parse of t *)
Fixpoint reds (t : tree) : list tree :=
  match t with
  | Leaf _ => []
  | Node p ch => flat_map reds ch ++ [t]
  end.

Section LR.
Variable g : grammar.
Variable c : cert.
Variable nterm : nat.
Variable action : nat -> nat -> option act.
Variable goto_ : nat -> nat -> option nat.
Variable nend : nat.     (* index given to the EOF token *)

Definition item (s p d a : nat) : Prop := has_item c s (p, d, a) = true.

Definition follows (beta : list sym) (a x : nat) : Prop :=
  (nullable_word c beta = true /\ x = a) \/ first_word c beta x = true.

Definition stack := list (nat * tree).
Definition cfg := (stack * list token * list tree)%type.

Definition topst (stk : stack) : nat := match stk with [] => 0 | (s, _) :: _ => s end.
Definition la_of (inp : list token) : nat := match inp with [] => eof | (t, _) :: _ => t end.

Fixpoint pop (n : nat) (st : stack) : option (list tree * stack) :=
  match n with
  | 0 => Some ([], st)
  | S n' =>
    match st with
    | [] => None
    | (_, t) :: st' =>
      match pop n' st' with
      | Some (ts, r) => Some (ts ++ [t], r)
      | None => None
      end
    end
  end.

Inductive ares := ANext (x : cfg) | AAcc | ARej | AStuck.

Definition astep (x : cfg) : ares :=
  let '(stk, inp, tr) := x in
  match action (topst stk) (la_of inp) with
  | None => ARej
  | Some Acc => AAcc
  | Some (Shift s') =>
    match inp with
    | tok :: inp' => ANext ((s', Leaf tok) :: stk, inp', tr)
    | [] => ANext ((s', Leaf (eof, nend)) :: stk, [], tr)
    end
  | Some (Reduce p) =>
    match nth_error g p with
    | None => AStuck
    | Some pr =>
      match pop (length (rhs pr)) stk with
      | None => AStuck
      | Some (ch, rest) =>
        match goto_ (topst rest) (lhs pr) with
        | None => AStuck
        | Some s' => ANext ((s', Node p ch) :: rest, inp, Node p ch :: tr)
        end
      end
    end
  end.

Inductive reach : cfg -> cfg -> Prop :=
| reach_refl x : reach x x
| reach_step x1 x2 x3 : astep x1 = ANext x2 -> reach x2 x3 -> reach x1 x3.

Lemma reach_trans x1 x2 x3 : reach x1 x2 -> reach x2 x3 -> reach x1 x3.
Proof. induction 1; eauto using reach. Qed.

Lemma reach_one x1 x2 : astep x1 = ANext x2 -> reach x1 x2.
Proof. intros. eapply reach_step; eauto using reach. Qed.

(* the machine is a function: two runs from the same configuration to accepting
   configurations end in the same configuration *)
Lemma reach_acc_unique x a b :
  reach x a -> reach x b -> astep a = AAcc -> astep b = AAcc -> a = b.
Proof.
  intros Ha. revert b. induction Ha as [x|x1 x2 x3 Hs Hr IH]; intros b Hb Ha1 Hb1.
  - destruct Hb as [|y1 y2 y3 Hs' Hr']; auto. congruence.
  - destruct Hb as [|y1 y2 y3 Hs' Hr'].
    + congruence.
    + rewrite Hs in Hs'. inversion Hs'; subst. auto.
Qed.

Lemma pop_app (acc : stack) rest :
  pop (length acc) (acc ++ rest) = Some (rev (map snd acc), rest).
Proof.
  induction acc as [|[s t] acc IH]; simpl; auto.
  rewrite IH. reflexivity.
Qed.

Lemma reduce_step (acc stk : stack) inp tr q qr s' :
  action (topst (acc ++ stk)) (la_of inp) = Some (Reduce q) ->
  nth_error g q = Some qr -> length acc = length (rhs qr) ->
  goto_ (topst stk) (lhs qr) = Some s' ->
  astep (acc ++ stk, inp, tr) =
  ANext ((s', Node q (rev (map snd acc))) :: stk, inp, Node q (rev (map snd acc)) :: tr).
Proof.
  intros Ha Hq Hl Hg. unfold astep. rewrite Ha, Hq, <- Hl, pop_app, Hg. reflexivity.
Qed.

Section Complete.
(* validator conditions (completeness direction), as Props *)
Hypothesis eof_lt : eof < nterm.
Hypothesis nullable_stable : forall p pr, nth_error g p = Some pr ->
  nullable_word c (rhs pr) = true -> nullable_nt c (lhs pr) = true.
Hypothesis first_stable : forall p pr x, nth_error g p = Some pr -> x < nterm ->
  first_word c (rhs pr) x = true -> first_nt c (lhs pr) x = true.
Hypothesis sprime_fresh : forall p pr pr0, nth_error g p = Some pr ->
  nth_error g 0 = Some pr0 -> ~ In (NT (lhs pr0)) (rhs pr).
Hypothesis init_ok : item 0 0 0 eof.
Hypothesis closure_ok : forall s p pr d a B q qr x,
  item s p d a -> nth_error g p = Some pr -> nth_error (rhs pr) d = Some (NT B) ->
  nth_error g q = Some qr -> lhs qr = B -> x < nterm ->
  follows (skipn (S d) (rhs pr)) a x -> item s q 0 x.
Hypothesis shift_ok : forall s p pr d a t,
  item s p d a -> nth_error g p = Some pr -> nth_error (rhs pr) d = Some (T t) ->
  exists s', action s t = Some (Shift s') /\ item s' p (S d) a.
Hypothesis goto_ok : forall s p pr d a B,
  item s p d a -> nth_error g p = Some pr -> nth_error (rhs pr) d = Some (NT B) ->
  exists s', goto_ s B = Some s' /\ item s' p (S d) a.
Hypothesis reduce_ok : forall s p pr a,
  item s p (length (rhs pr)) a -> nth_error g p = Some pr -> p <> 0 ->
  action s a = Some (Reduce p).
Hypothesis accept_ok : forall s pr0,
  nth_error g 0 = Some pr0 -> item s 0 (length (rhs pr0)) eof -> action s eof = Some Acc.

Definition tok_ok (tk : token) : Prop := fst tk < nterm.

(* soundness of nullable / first w.r.t. trees *)
Lemma tree_first_nullable :
  (forall X t u, wt g X t u ->
     (u = [] -> nullable_sym c X = true) /\
     (forall x u', u = x :: u' -> tok_ok x -> first_sym c X (fst x) = true)) /\
  (forall Xs ts us, wf g Xs ts us ->
     (us = [] -> nullable_word c Xs = true) /\
     (forall x u', us = x :: u' -> tok_ok x -> first_word c Xs (fst x) = true)).
Proof.
  apply wt_wf_ind.
  - intros t i. split; [discriminate|]. intros x u' H _; inversion H; subst. simpl. apply Nat.eqb_refl.
  - intros p pr ch u Hp Hwf [IHn IHf]. split.
    + intros ->. simpl. eapply nullable_stable; eauto.
    + intros x u' -> Hx. simpl. eapply first_stable; eauto.
  - split; [reflexivity|discriminate].
  - intros X t u Xs ts us Ht [IHtn IHtf] Hf [IHfn IHff]. split.
    + intros H. apply app_eq_nil in H as [-> ->]. simpl. rewrite IHtn, IHfn; auto.
    + intros x u' H Hx. simpl. destruct u as [|x0 u0].
      * simpl in H. subst us. rewrite IHtn by reflexivity.
        rewrite (IHff x u' eq_refl Hx). apply orb_true_r.
      * simpl in H. inversion H; subst. rewrite (IHtf x u0 eq_refl Hx).
        destruct (nullable_sym c X); reflexivity.
Qed.

Lemma follows_forest Xs ts us a rest :
  wf g Xs ts us -> la_of rest = a -> Forall tok_ok us -> follows Xs a (la_of (us ++ rest)).
Proof.
  intros Hwf Hr Hok. destruct (proj2 tree_first_nullable _ _ _ Hwf) as [Hn Hf].
  destruct us as [|x u'].
  - left. split; auto.
  - right. inversion Hok; subst. destruct x as [t i]. simpl.
    apply (Hf (t, i) u' eq_refl). assumption.
Qed.

Lemma la_app_lt us rest : Forall tok_ok us -> la_of rest < nterm -> la_of (us ++ rest) < nterm.
Proof.
  intros Hok Hr. destruct us as [|[t i] u']; simpl; auto. inversion Hok; subst. assumption.
Qed.

Theorem follow :
  (forall X t u, wt g X t u ->
     forall stk tr p pr d a rest,
       item (topst stk) p d a -> nth_error g p = Some pr -> nth_error (rhs pr) d = Some X ->
       follows (skipn (S d) (rhs pr)) a (la_of rest) -> la_of rest < nterm -> Forall tok_ok u ->
       exists s', reach (stk, u ++ rest, tr) ((s', t) :: stk, rest, rev (reds t) ++ tr) /\
                  item s' p (S d) a) /\
  (forall Xs ts us, wf g Xs ts us ->
     forall q qr done_ a rest (acc stk : stack) tr,
       nth_error g q = Some qr -> rhs qr = done_ ++ Xs -> length acc = length done_ ->
       item (topst (acc ++ stk)) q (length done_) a ->
       la_of rest = a -> a < nterm -> Forall tok_ok us ->
       exists acc', reach (acc ++ stk, us ++ rest, tr)
                          (acc' ++ stk, rest, rev (flat_map reds ts) ++ tr) /\
                    length acc' = length (rhs qr) /\
                    rev (map snd acc') = rev (map snd acc) ++ ts /\
                    item (topst (acc' ++ stk)) q (length (rhs qr)) a).
Proof.
  apply wt_wf_ind.
  - (* leaf *)
    intros t i stk tr p pr d a rest Hi Hp Hd Hfol Hlt Hok.
    destruct (shift_ok _ _ _ _ _ _ Hi Hp Hd) as (s' & Ha & Hi').
    exists s'. split; auto. simpl. apply reach_one. unfold astep. simpl. rewrite Ha. reflexivity.
  - (* node *)
    intros q qr ch u Hq Hwf IH stk tr p pr d a rest Hi Hp Hd Hfol Hlt Hok.
    assert (q <> 0) as Hq0.
    { intros ->. eapply sprime_fresh; [exact Hp|exact Hq|]. eapply nth_error_In; eauto. }
    assert (Hci : item (topst stk) q 0 (la_of rest)).
    { eapply closure_ok; eauto. }
    destruct (IH q qr [] (la_of rest) rest [] stk tr Hq eq_refl eq_refl Hci eq_refl Hlt Hok)
      as (acc' & Hreach & Hlen & Hch & Hit).
    simpl in Hch.
    destruct (goto_ok _ _ _ _ _ _ Hi Hp Hd) as (s' & Hg & Hi').
    exists s'. split; auto.
    eapply reach_trans; [exact Hreach|].
    apply reach_one. simpl reds. rewrite rev_app_distr. simpl. rewrite <- Hch.
    eapply reduce_step; eauto.
  - (* forest nil *)
    intros q qr done_ a rest acc stk tr Hq Hr Hl Hi Hh Hlt Hok.
    exists acc. rewrite app_nil_r in *. simpl. rewrite Hr, Hl. repeat split; auto using reach_refl.
  - (* forest cons *)
    intros X t u Xs ts us Ht IHt Hf IHf q qr done_ a rest acc stk tr Hq Hr Hl Hi Hh Hlt Hok.
    apply Forall_app in Hok as [Hoku Hokus].
    assert (Hd : nth_error (rhs qr) (length done_) = Some X).
    { rewrite Hr. rewrite nth_error_app2 by lia. rewrite Nat.sub_diag. reflexivity. }
    assert (Hfol : follows (skipn (S (length done_)) (rhs qr)) a (la_of (us ++ rest))).
    { rewrite Hr. replace (skipn (S (length done_)) (done_ ++ X :: Xs)) with Xs.
      - eapply follows_forest; eauto.
      - change (X :: Xs) with ([X] ++ Xs). rewrite app_assoc.
        rewrite skipn_app.
        replace (S (length done_)) with (length (done_ ++ [X])) by (rewrite app_length; simpl; lia).
        rewrite skipn_all, Nat.sub_diag. reflexivity. }
    assert (Hlt' : la_of (us ++ rest) < nterm).
    { apply la_app_lt; auto. rewrite Hh. exact Hlt. }
    destruct (IHt (acc ++ stk) tr q qr (length done_) a (us ++ rest) Hi Hq Hd Hfol Hlt' Hoku)
      as (s' & Hreach & Hi').
    destruct (IHf q qr (done_ ++ [X]) a rest ((s', t) :: acc) stk (rev (reds t) ++ tr) Hq)
      as (acc' & Hr2 & Hl2 & Hc2 & Hi2); auto.
    + rewrite <- app_assoc. exact Hr.
    + simpl. rewrite app_length. simpl. lia.
    + simpl. rewrite app_length. simpl. rewrite Nat.add_1_r. exact Hi'.
    + exists acc'. rewrite <- app_assoc. split; [|repeat split; auto].
      * eapply reach_trans; [exact Hreach|].
        simpl flat_map. rewrite rev_app_distr, <- app_assoc. exact Hr2.
      * rewrite Hc2. simpl. rewrite <- !app_assoc. reflexivity.
Qed.

(* a sentence drives the machine from the initial to an accepting configuration
   whose stack holds exactly the tree and whose trace is its post-order *)
Theorem follow_accept X t u :
  start_sym g = Some X -> wt g X t u -> Forall tok_ok u ->
  exists s', reach ([], u, []) ([(s', t)], [], rev (reds t)) /\
             astep ([(s', t)], [], rev (reds t)) = AAcc.
Proof.
  intros Hs Ht Hok. unfold start_sym in Hs.
  case_eq (nth_error g 0); [intros pr0 Hp0|intros Hp0]; rewrite Hp0 in Hs; [|discriminate].
  destruct (rhs pr0) as [|X0 [|? ?]] eqn:Hr0; try discriminate. inversion Hs; subst X0.
  destruct (proj1 follow X t u Ht [] [] 0 pr0 0 eof []) as (s' & Hreach & Hi); auto.
  - rewrite Hr0. reflexivity.
  - rewrite Hr0. left. split; reflexivity.
  - exists s'. rewrite !app_nil_r in Hreach. split; auto.
    unfold astep. simpl. erewrite accept_ok; eauto. rewrite Hr0. exact Hi.
Qed.

End Complete.
End LR.
