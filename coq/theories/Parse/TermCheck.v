(* A checkable sufficient condition for TERMINATION of the generated parser on
   every input (C09: "every run terminates"; C01: parse() decides membership).

   Between two shifts the lookahead is fixed and the parser only reduces.  A
   chain of reductions can be cut into phases: a phase starts with the top two
   states (base, s1) of the stack and runs while no reduction pops [base]; it
   depends on nothing below [base].  [local_run] simulates one phase on state
   numbers only, exactly as pstep / recover_sim do (same lookups, same "missing
   goto pushes state 0").  A phase ends with
     TStop    the action under the lookahead is not a reduction (shift, accept,
              error), or
     TEscape  a reduction pops [base] (or the stack bottom): afterwards the
              stack is strictly lower than when the phase began.
   [term_ok] runs every phase that can occur -- every pair (base, s1) such that
   s1 is entered from base by a shift or a goto of the tables, and the bottom
   of the stack alone, under every lookahead for which s1 has an action -- with
   a fuel and demands that none runs out of it.  Then a chain that starts on a
   stack of height h has at most h * (fuel + 1) reductions (Parse/TermProofs.v),
   and the parser, with or without error recovery, terminates on every input.
   Definitions only; extracted and run by the harness on every emitted table. *)
From Coq Require Import List ZArith Bool Arith.
From Lox Require Import Parse.Tables.
Import ListNotations.
Local Open Scope Z_scope.

Inductive tres := TStop | TEscape | TCrash | TFuel.

Section TermCheck.
Variable tb : tables.

(* the state a reduction exposes: the top of what is left, else the base *)
Definition exposed (rest : list Z) (base : option Z) : option Z :=
  match rest with
  | s :: _ => Some s
  | [] => base
  end.

(* rel: the states above the base, top first (never empty at the start) *)
Fixpoint local_run (fuel : nat) (rel : list Z) (base : option Z) (a : Z) : tres :=
  match fuel with
  | O => TFuel
  | S f =>
    match exposed rel base with
    | None => TEscape
    | Some top =>
      match find (t_actions tb) top a with
      | FCrash => TCrash
      | FNone => TStop
      | FFound action =>
        if action >=? 0 then TStop
        else
          match nthz (t_term_counts tb) (- action), nthz (t_rules tb) (- action) with
          | Some tc, Some rule =>
            if tc <? 0 then TCrash
            else
              let n := Z.to_nat tc in
              if Nat.ltb (length rel) n then TEscape      (* pops the base *)
              else
                let rest := skipn n rel in
                match exposed rest base with
                | None => TEscape                         (* empties the stack *)
                | Some ex =>
                  match find (t_goto tb) ex rule with
                  | FCrash => TCrash
                  | FNone => local_run f (0 :: rest) base a
                  | FFound ns => local_run f (ns :: rest) base a
                  end
                end
          | _, _ => TCrash
          end
      end
    end
  end.

(* the (key, value) pairs of a row, as _Find scans them *)
Fixpoint row_entries_scan (fuel : nat) (t : list Z) (i e : Z) (acc : list (Z * Z)) : option (list (Z * Z)) :=
  match fuel with
  | O => Some (rev acc)
  | S f =>
    if i <? e then
      match nthz t i, nthz t (i + 1) with
      | Some k, Some v => row_entries_scan f t (i + 2) e ((k, v) :: acc)
      | _, _ => None
      end
    else Some (rev acc)
  end.

Definition row_entries (t : list Z) (y : Z) : option (list (Z * Z)) :=
  match nthz t y with
  | None => None
  | Some i =>
    match nthz t i with
    | None => None
    | Some count => row_entries_scan (Z.to_nat count + 1) t (i + 1) (i + 1 + count) []
    end
  end.

(* the states entered from [s] by a shift or by a goto *)
Definition successors (s : Z) : option (list Z) :=
  match row_entries (t_actions tb) s, row_entries (t_goto tb) s with
  | Some acts, Some gotos =>
    Some (map snd (filter (fun kv => (0 <=? snd kv) && negb (snd kv =? accept_code)) acts)
          ++ map snd gotos)
  | _, _ => None
  end.

Definition not_fuel (r : tres) : bool := match r with TFuel => false | _ => true end.

(* every phase starting with [s1] on top of [base] ends within the fuel *)
Definition phases_ok (fuel : nat) (base : option Z) (s1 : Z) : bool :=
  match row_entries (t_actions tb) s1 with
  | None => false
  | Some acts => forallb (fun kv => not_fuel (local_run fuel [s1] base (fst kv))) acts
  end.

Definition state_ok (fuel : nat) (s : Z) : bool :=
  match successors s with
  | None => false
  | Some succ => forallb (phases_ok fuel (Some s)) succ
  end.

Definition term_ok (nstates fuel : nat) : bool :=
  phases_ok fuel None 0 &&
  forallb (fun s => state_ok fuel (Z.of_nat s)) (seq 0 nstates).

(* the fuel the harness uses: generous, linear in the size of the tables *)
Definition term_fuel (nstates : nat) : nat :=
  16 * (nstates + length (t_rules tb)) + 64.

End TermCheck.
