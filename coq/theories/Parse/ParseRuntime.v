(* Exact mirror of the generated parser's run-time code
   (internal/codegen/emit_parser.go: parse, _readToken, _recover, _makeError,
   _act, the _onBounds bookkeeping; emit_base.go: _Stack).
   Every Go panic (index out of range, slicing below zero, failed single-value
   type assertion, panic("unreachable")) is the explicit Crash outcome. *)
From Coq Require Import List ZArith Bool.
From Lox Require Import Parse.Tables.
Import ListNotations.
Local Open Scope Z_scope.

Definition EOF : Z := 0.
Definition ERROR : Z := 1.

Inductive value :=
| VNil                                       (* untyped nil *)
| VTok (ty : Z) (id : nat)                   (* a Token from the lexer *)
| VErr (tok : value) (expected : list Z)     (* Error{Token, Expected} *)
| VNode (p : Z) (args : list value)          (* result of the user action of production p *)
| VList (l : list value)                     (* slice built by a generated rule *)
| VZero.                                     (* zero value of the rule's Go type *)

Record bounds := { b_begin : value; b_end : value; b_empty : bool }.
Definition no_bounds := {| b_begin := VNil; b_end := VNil; b_empty := false |}.

Record sitem := { i_state : Z; i_sym : value; i_bounds : bounds }.

Inductive event :=
| ERed (p : Z) (res : value)                   (* _act(prod) returned res *)
| EBounds (res : value) (b e : value).         (* _onBounds(res, begin, end) *)

Record pstate := {
  stack : list sitem;          (* top first *)
  la : Z; lasym : value;
  qla : Z; qlasym : value;
  input : list Z;              (* token types still to be returned by ReadToken *)
  pos : nat;                   (* number of tokens returned so far *)
  trace : list event;          (* most recent first *)
  shifts : Z;                  (* _shifts: input tokens shifted so far *)
  rec_shifts : Z;              (* _recoverShifts: value of shifts at the last successful recovery, -1 = never *)
}.

Section Runtime.
Variable tb : tables.
Variable emit_bounds : bool.
Variable rec_enabled : bool.            (* false: a missing action rejects instead of entering _recover *)
Variable discard : value -> bool.      (* the element type's Discard() method *)

Definition peek (st : list sitem) (n : nat) : option sitem := nth_error st n.

(* ReadToken of the reference driver over a finite input: the tokens in order,
   then EOF for ever. *)
Definition lex_read (s : pstate) : (Z * value) * pstate :=
  match input s with
  | [] => ((EOF, VTok EOF (pos s)), s)
  | ty :: rest =>
    ((ty, VTok ty (pos s)),
     {| stack := stack s; la := la s; lasym := lasym s; qla := qla s; qlasym := qlasym s;
        input := rest; pos := S (pos s); trace := trace s;
        shifts := shifts s; rec_shifts := rec_shifts s |})
  end.

Definition set_la (s : pstate) (l : Z) (sym : value) (q : Z) (qsym : value) : pstate :=
  {| stack := stack s; la := l; lasym := sym; qla := q; qlasym := qsym;
     input := input s; pos := pos s; trace := trace s;
     shifts := shifts s; rec_shifts := rec_shifts s |}.
Definition set_stack (s : pstate) (st : list sitem) : pstate :=
  {| stack := st; la := la s; lasym := lasym s; qla := qla s; qlasym := qlasym s;
     input := input s; pos := pos s; trace := trace s;
     shifts := shifts s; rec_shifts := rec_shifts s |}.
Definition add_event (s : pstate) (e : event) : pstate :=
  {| stack := stack s; la := la s; lasym := lasym s; qla := qla s; qlasym := qlasym s;
     input := input s; pos := pos s; trace := e :: trace s;
     shifts := shifts s; rec_shifts := rec_shifts s |}.

Definition set_shifts (s : pstate) (n r : Z) : pstate :=
  {| stack := stack s; la := la s; lasym := lasym s; qla := qla s; qlasym := qlasym s;
     input := input s; pos := pos s; trace := trace s;
     shifts := n; rec_shifts := r |}.

(* _makeError: needs _lasym to be a Token; Expected = keys of the top row *)
Definition make_error (s : pstate) : option value :=
  match lasym s with
  | VTok _ _ =>
    match peek (stack s) 0 with
    | None => None
    | Some top =>
      match row_keys (t_actions tb) (i_state top) with
      | None => None
      | Some ks => Some (VErr (lasym s) ks)
      end
    end
  | _ => None
  end.

(* _readToken; None = crash *)
Definition read_token (s : pstate) : option pstate :=
  if negb (qla s =? -1) then
    Some (set_la s (qla s) (qlasym s) (-1) VNil)
  else
    let '((ty, tok), s1) := lex_read s in
    let s2 := set_la s1 ty tok (qla s1) (qlasym s1) in
    if ty =? ERROR then
      match make_error s2 with
      | None => None
      | Some e => Some (set_la s2 ty e (qla s2) (qlasym s2))
      end
    else Some s2.

Definition as_list (v : value) : list value :=
  match v with VList l => l | _ => [] end.

Definition peek_sym (st : list sitem) (n : nat) : option value :=
  match peek st n with Some it => Some (i_sym it) | None => None end.

(* the arguments of a user action: Peek(n-1) ... Peek(0) *)
Fixpoint peek_args (st : list sitem) (n : nat) : option (list value) :=
  match n with
  | O => Some []
  | S k =>
    match peek_sym st k, peek_args st k with
    | Some v, Some rest => Some (v :: rest)
    | _, _ => None
    end
  end.

Definition act (st : list sitem) (p : Z) : option value :=
  if p <? 0 then None else
  match nth_error (t_kinds tb) (Z.to_nat p), nthz (t_term_counts tb) p with
  | Some k, Some tc =>
    match k with
    | KSPrime => None
    | KUser =>
      if tc <? 0 then None else
      match peek_args st (Z.to_nat tc) with
      | Some args => Some (VNode p args)
      | None => None
      end
    | KOneOrMore =>
      if tc =? 1 then
        match peek_sym st 0 with Some e => Some (VList [e]) | None => None end
      else
        match peek_sym st 1, peek_sym st 0 with
        | Some l, Some e => Some (VList (as_list l ++ [e]))
        | _, _ => None
        end
    | KOneOrMoreF =>
      if tc =? 1 then
        match peek_sym st 0 with
        | Some e => Some (VList (if discard e then [] else [e]))
        | None => None
        end
      else
        match peek_sym st 1, peek_sym st 0 with
        | Some l, Some e => Some (VList (if discard e then as_list l else as_list l ++ [e]))
        | _, _ => None
        end
    | KList =>
      if tc =? 1 then
        match peek_sym st 0 with Some e => Some (VList [e]) | None => None end
      else
        match peek_sym st 2, peek_sym st 0 with
        | Some l, Some e => Some (VList (as_list l ++ [e]))
        | _, _ => None
        end
    | KZeroOrOne | KZeroOrMore =>
      if tc =? 1 then peek_sym st 0 else Some VZero
    end
  | _, _ => None
  end.

(* PeekSlice(n) in slice order (bottom first); None when n > len *)
Definition peek_slice (st : list sitem) (n : nat) : option (list sitem) :=
  if Nat.leb n (length st) then Some (rev (firstn n st)) else None.

Fixpoint trim_leading (l : list sitem) : list sitem :=
  match l with
  | it :: l' => if b_empty (i_bounds it) then trim_leading l' else l
  | [] => []
  end.
Definition trim_trailing (l : list sitem) : list sitem := rev (trim_leading (rev l)).

Definition reduce_bounds (sl : list sitem) : bounds :=
  let t := trim_trailing (trim_leading sl) in
  match t with
  | [] => {| b_begin := VNil; b_end := VNil; b_empty := true |}
  | first :: _ =>
    {| b_begin := b_begin (i_bounds first);
       b_end := b_end (i_bounds (last t first));
       b_empty := false |}
  end.

Definition pop (st : list sitem) (n : nat) : option (list sitem) :=
  if Nat.leb n (length st) then Some (skipn n st) else None.

Inductive outcome :=
| Continue (s : pstate)
| Accept (s : pstate)
| Reject (s : pstate)
| Crash
| Fuel.

(* one simulated scan of _recover's innermost "for", on a copy of the state
   stack (top first): SimYes = after the reductions the parser would perform
   with ERROR as the lookahead, ERROR can be shifted and the state reached
   accepts the current lookahead *)
Inductive sim := SimYes | SimNo | SimCrash | SimFuel.

Fixpoint recover_sim (fuel : nat) (states : list Z) (look : Z) : sim :=
  match fuel with
  | O => SimFuel
  | S f =>
    match states with
    | [] => SimCrash                   (* sim[len(sim)-1] on an empty slice *)
    | state :: _ =>
      match find (t_actions tb) state ERROR with
      | FCrash => SimCrash
      | FNone => SimNo
      | FFound action =>
        if action <? 0 then
          match nthz (t_term_counts tb) (- action), nthz (t_rules tb) (- action) with
          | Some tc, Some rule =>
            if tc <? 0 then SimCrash                       (* negative slice bound *)
            else if Z.of_nat (length states) <=? tc then SimNo   (* termCount >= len(sim): break *)
            else
              let rest := skipn (Z.to_nat tc) states in
              match rest with
              | [] => SimCrash
              | exposed :: _ =>
                match find (t_goto tb) exposed rule with
                | FCrash => SimCrash
                | FNone => recover_sim f (0 :: rest) look
                | FFound st' => recover_sim f (st' :: rest) look
                end
              end
          | _, _ => SimCrash
          end
        else
          match find (t_actions tb) action look with
          | FCrash => SimCrash
          | FNone => SimNo
          | FFound _ => SimYes
          end
      end
    end
  end.

Inductive pops :=
| PFound (st : list sitem) (errsym : value)   (* recovery point found, stack and Error to report *)
| PExhausted (errsym : value)                 (* every entry popped *)
| PCrash
| PFuel.

(* for len(p._stack) >= 1 { ... ; if the popped entry holds an Error keep it; p._stack.Pop(1) } *)
Fixpoint recover_pops (fuel : nat) (st : list sitem) (look : Z) (errsym : value) : pops :=
  match st with
  | [] => PExhausted errsym
  | top :: st' =>
    match recover_sim fuel (map i_state st) look with
    | SimYes => PFound st errsym
    | SimNo =>
      recover_pops fuel st' look
        (match i_sym top with VErr _ _ => i_sym top | _ => errsym end)
    | SimCrash => PCrash
    | SimFuel => PFuel
    end
  end.

(* while p._la == ERROR { p._readToken() } *)
Fixpoint skip_errors (fuel : nat) (s : pstate) : outcome :=
  match fuel with
  | O => Fuel
  | S f =>
    if la s =? ERROR then
      match read_token s with
      | None => Crash
      | Some s' => skip_errors f s'
      end
    else Continue s
  end.

Fixpoint recover_outer (fuel : nat) (errsym : value) (s : pstate) : outcome :=
  match fuel with
  | O => Fuel
  | S f =>
    match recover_pops fuel (stack s) (la s) errsym with
    | PCrash => Crash
    | PFuel => Fuel
    | PFound st' e =>
      (* success: remember how many tokens had been shifted *)
      Continue (set_shifts (set_la (set_stack s st') ERROR e (la s) (lasym s)) (shifts s) (shifts s))
    | PExhausted e =>
      if la s =? EOF then Reject (set_stack s [])
      else
        match read_token s with     (* p._stack = save; p._readToken() *)
        | None => Crash
        | Some s' => recover_outer f e s'
        end
    end
  end.

(* if p._shifts == p._recoverShifts { if EOF return false; readToken; skip ERRORs }:
   a new error before any token was shifted since the last recovery drops the
   offending lookahead, so that recovery always makes progress *)
Definition drop_if_stuck (fuel : nat) (s : pstate) : outcome :=
  if shifts s =? rec_shifts s then
    if la s =? EOF then Reject s
    else
      match read_token s with
      | None => Crash
      | Some s' => skip_errors fuel s'
      end
  else Continue s.

Definition recover (fuel : nat) (s : pstate) : outcome :=
  let errsym :=
    match lasym s with
    | VErr _ _ => Some (lasym s)
    | _ => make_error s
    end in
  match errsym with
  | None => Crash
  | Some e =>
    match skip_errors fuel s with
    | Continue s1 =>
      match drop_if_stuck fuel s1 with
      | Continue s2 => recover_outer fuel e s2
      | o => o
      end
    | o => o
    end
  end.

Definition latok (v : value) : option value :=
  match v with
  | VTok _ _ => Some v
  | VErr t _ => Some t
  | _ => None
  end.

(* one iteration of the "for" in parse() *)
Definition pstep (fuel : nat) (s : pstate) : outcome :=
  match peek (stack s) 0 with
  | None => Crash
  | Some top =>
    match find (t_actions tb) (i_state top) (la s) with
    | FCrash => Crash
    | FNone => if rec_enabled then recover fuel s else Reject s
    | FFound action =>
      if action =? accept_code then Accept s
      else if action >=? 0 then
        let bnd :=
          if emit_bounds then
            match latok (lasym s) with
            | Some t => Some {| b_begin := t; b_end := t; b_empty := false |}
            | None => None
            end
          else Some no_bounds in
        match bnd with
        | None => Crash
        | Some b =>
          let s0 := set_stack s ({| i_state := action; i_sym := lasym s; i_bounds := b |} :: stack s) in
          let s1 := if la s =? ERROR then s0 else set_shifts s0 (shifts s + 1) (rec_shifts s) in
          match read_token s1 with
          | None => Crash
          | Some s2 => Continue s2
          end
        end
      else
        let p := - action in
        match nthz (t_term_counts tb) p, nthz (t_rules tb) p, act (stack s) p with
        | Some tc, Some rule, Some res =>
          if tc <? 0 then Crash else
          let n := Z.to_nat tc in
          let s0 := add_event s (ERed p res) in
          let bres :=
            if emit_bounds then
              match peek_slice (stack s) n with
              | None => None
              | Some sl => Some (reduce_bounds sl)
              end
            else Some no_bounds in
          match bres with
          | None => Crash
          | Some b =>
            let s1 :=
              if emit_bounds && negb (b_empty b)
              then add_event s0 (EBounds res (b_begin b) (b_end b)) else s0 in
            match pop (stack s) n with
            | None => Crash
            | Some st' =>
              match peek st' 0 with
              | None => Crash
              | Some top' =>
                match find (t_goto tb) (i_state top') rule with
                | FCrash => Crash
                | FNone =>
                  Continue (set_stack s1 ({| i_state := 0; i_sym := res; i_bounds := b |} :: st'))
                | FFound ns =>
                  Continue (set_stack s1 ({| i_state := ns; i_sym := res; i_bounds := b |} :: st'))
                end
              end
            end
          end
        | _, _, _ => Crash
        end
    end
  end.

Fixpoint ploop (fuel : nat) (s : pstate) : outcome :=
  match fuel with
  | O => Fuel
  | S f =>
    match pstep fuel s with
    | Continue s' => ploop f s'
    | o => o
    end
  end.

Definition init_state (w : list Z) : pstate :=
  {| stack := [{| i_state := 0; i_sym := VNil; i_bounds := no_bounds |}];
     la := 0; lasym := VNil; qla := -1; qlasym := VNil;
     input := w; pos := O; trace := []; shifts := 0; rec_shifts := -1 |}.

(* parse(lex): result and the events in call order *)
Definition parse (fuel : nat) (w : list Z) : outcome :=
  match read_token (init_state w) with
  | None => Crash
  | Some s => ploop fuel s
  end.

End Runtime.
