(* Witness: R3 (RecoverySound.nonsentence_reports) needs its hypothesis
   `start_sym g <> Some (T error_t)`.  For the (validated) grammar S' -> @error
   the empty input is accepted after a recovery, no production is ever reduced,
   and the empty input is not a sentence. *)
From Coq Require Import List Arith ZArith Lia Bool.
From Lox Require Import Parse.Grammar Parse.Tables Parse.Validator Parse.ParseRuntime
  Parse.Refine Parse.Recovery.
Import ListNotations.

Definition g0 : grammar := [ {| lhs := 0; rhs := [T error_t] |} ].
Definition tb0 : tables :=
  {| t_actions := [2; 5;  2; 1; 1;  2; 0; accept_code]%Z;   (* state 0: ERROR -> shift 1; state 1: EOF -> accept *)
     t_goto := [2; 3; 0; 0]%Z;
     t_rules := [0%Z]; t_term_counts := [1%Z]; t_kinds := [KSPrime] |}.
Definition c0 : cert :=
  {| c_items := [[(0, 0, 0)]; [(0, 1, 0)]]; c_nullable := [false]; c_first := [[1]] |}.

Theorem nonsentence_reports_needs_start_hyp :
  validate g0 tb0 c0 2 = true /\ ordinary 2 [] /\ start_sym g0 = Some (T error_t) /\
  (exists s, parse tb0 true true (fun _ => false) 10 (zs []) = Accept s /\ trace s = []) /\
  ~ sentence g0 (tokens_of []).
Proof.
  split; [vm_compute; reflexivity|]. split; [constructor|]. split; [reflexivity|]. split.
  - eexists. split; [vm_compute; reflexivity|reflexivity].
  - intros (X & t & Hs & Ht). unfold start_sym in Hs. simpl in Hs. inversion Hs; subst X.
    inversion Ht.
Qed.

Print Assumptions nonsentence_reports_needs_start_hyp.
