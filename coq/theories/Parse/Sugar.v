(* What the generated helper rules of the grammar sugar deliver (Actions.eval):
     x?          the child's value or the zero value
     x* / x+     every element, in input order
     @list(x,s)  the elements without the separators
     x*! / x+!   the elements whose Discard() is false
   and a user action gets the value of each term in production order.
   The shapes of the helper rules are those of internal/ast/parser_term.go
   (normalize):
     x+ , x+!     p1: h -> h x      p2: h -> x
     @list(x,s)   p1: h -> h s x    p2: h -> x
     x?           p1: h -> x        p2: h -> (empty)
     x* , x*!     p1: h -> (x+ / x+! helper)   p2: h -> (empty) *)
From Coq Require Import List Arith ZArith Lia Bool.
From Lox Require Import Parse.Grammar Parse.Tables Parse.ParseRuntime Parse.Actions.
Import ListNotations.

(* the trees of a left-recursive helper rule: elems are the element subtrees in
   input order *)
Inductive spine (p1 p2 : nat) : list tree -> tree -> Prop :=
| spine_one e : spine p1 p2 [e] (Node p2 [e])
| spine_more elems t' e :
    spine p1 p2 elems t' -> spine p1 p2 (elems ++ [e]) (Node p1 [t'; e]).

(* the same with separators; all = e1 s1 e2 s2 ... en, every subtree in input order *)
Inductive spine_sep (p1 p2 : nat) : list tree -> list tree -> tree -> Prop :=
| ss_one e : spine_sep p1 p2 [e] [e] (Node p2 [e])
| ss_more elems all t' sep e :
    spine_sep p1 p2 elems all t' ->
    spine_sep p1 p2 (elems ++ [e]) (all ++ [sep; e]) (Node p1 [t'; sep; e]).

Section Sugar.
Variable tb : tables.
Variable discard : value -> bool.
Notation evalt := (eval tb discard).
Notation kind := (kind_of tb).

Definition keep (v : value) : bool := negb (discard v).

Lemma eval_node p ch : evalt (Node p ch) = act_val tb discard p (map evalt ch).
Proof. reflexivity. Qed.

(* S1: x+ *)
Theorem plus_value p1 p2 elems t :
  kind p1 = KOneOrMore -> kind p2 = KOneOrMore -> spine p1 p2 elems t ->
  evalt t = VList (map evalt elems).
Proof.
  intros K1 K2 H. induction H as [e|elems t' e H IH].
  - rewrite eval_node. unfold act_val. rewrite K2. reflexivity.
  - rewrite eval_node. unfold act_val. rewrite K1. cbn [map]. rewrite IH.
    cbn [as_list]. rewrite map_app. reflexivity.
Qed.

(* S2: x+! *)
Theorem plus_f_value p1 p2 elems t :
  kind p1 = KOneOrMoreF -> kind p2 = KOneOrMoreF -> spine p1 p2 elems t ->
  evalt t = VList (filter keep (map evalt elems)).
Proof.
  intros K1 K2 H. induction H as [e|elems t' e H IH].
  - rewrite eval_node. unfold act_val. rewrite K2. cbn [map filter]. unfold keep.
    destruct (discard (evalt e)); reflexivity.
  - rewrite eval_node. unfold act_val. rewrite K1. cbn [map]. rewrite IH.
    cbn [as_list]. rewrite map_app, filter_app. cbn [map filter]. unfold keep.
    destruct (discard (evalt e)); cbn [negb]; [rewrite app_nil_r|]; reflexivity.
Qed.

(* S3: @list(x, sep): the separators do not appear *)
Theorem list_value p1 p2 elems all t :
  kind p1 = KList -> kind p2 = KList -> spine_sep p1 p2 elems all t ->
  evalt t = VList (map evalt elems).
Proof.
  intros K1 K2 H. induction H as [e|elems all t' sep e H IH].
  - rewrite eval_node. unfold act_val. rewrite K2. reflexivity.
  - rewrite eval_node. unfold act_val. rewrite K1. cbn [map]. rewrite IH.
    cbn [as_list]. rewrite map_app. reflexivity.
Qed.

(* S4: x? *)
Theorem opt_value_some p1 e : kind p1 = KZeroOrOne -> evalt (Node p1 [e]) = evalt e.
Proof. intros K. rewrite eval_node. unfold act_val. rewrite K. reflexivity. Qed.

Theorem opt_value_none p2 : kind p2 = KZeroOrOne -> evalt (Node p2 []) = VZero.
Proof. intros K. rewrite eval_node. unfold act_val. rewrite K. reflexivity. Qed.

Theorem opt_value p1 p2 e : kind p1 = KZeroOrOne -> kind p2 = KZeroOrOne ->
  evalt (Node p1 [e]) = evalt e /\ evalt (Node p2 []) = VZero.
Proof. intros. split; [apply opt_value_some|apply opt_value_none]; assumption. Qed.

(* S5: x* and x*! *)
Theorem star_value_some p1 t : kind p1 = KZeroOrMore -> evalt (Node p1 [t]) = evalt t.
Proof. intros K. rewrite eval_node. unfold act_val. rewrite K. reflexivity. Qed.

Theorem star_value_none p2 : kind p2 = KZeroOrMore -> evalt (Node p2 []) = VZero.
Proof. intros K. rewrite eval_node. unfold act_val. rewrite K. reflexivity. Qed.

(* the nil slice is the empty list *)
Lemma as_list_zero : as_list VZero = [].
Proof. reflexivity. Qed.

Theorem star_value p1 p2 t : kind p1 = KZeroOrMore -> kind p2 = KZeroOrMore ->
  evalt (Node p1 [t]) = evalt t /\ evalt (Node p2 []) = VZero /\ as_list VZero = [].
Proof. intros. repeat split; [apply star_value_some|apply star_value_none]; assumption. Qed.

(* x* over its x+ helper (productions q1 q2): all the elements / none *)
Theorem star_elems p1 q1 q2 elems t :
  kind p1 = KZeroOrMore -> kind q1 = KOneOrMore -> kind q2 = KOneOrMore ->
  spine q1 q2 elems t ->
  as_list (evalt (Node p1 [t])) = map evalt elems.
Proof.
  intros K K1 K2 H. rewrite star_value_some by exact K.
  rewrite (plus_value _ _ _ _ K1 K2 H). reflexivity.
Qed.

Theorem star_f_elems p1 q1 q2 elems t :
  kind p1 = KZeroOrMore -> kind q1 = KOneOrMoreF -> kind q2 = KOneOrMoreF ->
  spine q1 q2 elems t ->
  as_list (evalt (Node p1 [t])) = filter keep (map evalt elems).
Proof.
  intros K K1 K2 H. rewrite star_value_some by exact K.
  rewrite (plus_f_value _ _ _ _ K1 K2 H). reflexivity.
Qed.

Theorem star_empty p2 : kind p2 = KZeroOrMore -> as_list (evalt (Node p2 [])) = [].
Proof. intros K. rewrite star_value_none by exact K. reflexivity. Qed.

(* S6: a user action: every parameter holds the value of its term, in production order *)
Theorem user_value p ch : kind p = KUser ->
  evalt (Node p ch) = VNode (Z.of_nat p) (map evalt ch).
Proof. intros K. rewrite eval_node. unfold act_val. rewrite K. reflexivity. Qed.

Corollary user_param p ch i t : kind p = KUser -> nth_error ch i = Some t ->
  exists args, evalt (Node p ch) = VNode (Z.of_nat p) args /\ nth_error args i = Some (evalt t).
Proof.
  intros K H. exists (map evalt ch). split; [apply user_value; exact K|].
  rewrite nth_error_map, H. reflexivity.
Qed.

End Sugar.

(* S7: the elements are in input order: the yield of the helper's tree is the
   concatenation of the yields of the elements (with the separators interleaved) *)
Theorem yield_of_spine p1 p2 elems t : spine p1 p2 elems t ->
  yield t = flat_map yield elems.
Proof.
  induction 1 as [e|elems t' e H IH]; [reflexivity|].
  cbn [yield flat_map] in *. rewrite IH, flat_map_app. reflexivity.
Qed.

Theorem yield_of_spine_sep p1 p2 elems all t : spine_sep p1 p2 elems all t ->
  yield t = flat_map yield all.
Proof.
  induction 1 as [e|elems all t' sep e H IH]; [reflexivity|].
  cbn [yield flat_map] in *. rewrite IH, flat_map_app. reflexivity.
Qed.

(* elems is all with every second subtree (the separators) removed *)
Fixpoint odd_positions {A} (l : list A) : list A :=
  match l with
  | x :: _ :: r => x :: odd_positions r
  | l => l
  end.

Lemma odd_positions_app {A} (s e : A) : forall a,
  (Nat.odd (length a) = true -> odd_positions (a ++ [s; e]) = odd_positions a ++ [e]) /\
  (forall x, Nat.odd (length (x :: a)) = true ->
     odd_positions ((x :: a) ++ [s; e]) = odd_positions (x :: a) ++ [e]).
Proof.
  induction a as [|y a [IH1 IH2]].
  - split; [discriminate|]. intros x _. reflexivity.
  - split; [apply IH2|]. intros x Hodd.
    cbn [app odd_positions]. rewrite IH1; [reflexivity|].
    cbn [length] in Hodd. rewrite Nat.odd_succ, Nat.even_succ in Hodd. exact Hodd.
Qed.

Theorem elems_of_spine_sep p1 p2 elems all t : spine_sep p1 p2 elems all t ->
  elems = odd_positions all /\ Nat.odd (length all) = true.
Proof.
  induction 1 as [e|elems all t' sep e H [IH1 IH2]]; [split; reflexivity|].
  split.
  - rewrite (proj1 (odd_positions_app sep e all) IH2). rewrite IH1. reflexivity.
  - rewrite app_length. simpl length. rewrite Nat.add_comm. simpl.
    rewrite Nat.odd_succ, Nat.even_succ. exact IH2.
Qed.

Print Assumptions plus_value.
Print Assumptions plus_f_value.
Print Assumptions list_value.
Print Assumptions opt_value.
Print Assumptions star_value.
Print Assumptions star_elems.
Print Assumptions star_f_elems.
Print Assumptions star_empty.
Print Assumptions user_value.
Print Assumptions user_param.
Print Assumptions yield_of_spine.
Print Assumptions yield_of_spine_sep.
Print Assumptions elems_of_spine_sep.
