(* Soundness of the generated parser w.r.t. the grammar (P3), absence of
   crashes (P4) and exactness (P7).  Invariant: the abstract stack is a path of
   the automaton from state 0, its trees are well-typed and spell the consumed
   prefix of the input. *)
From Coq Require Import List Arith ZArith Lia Bool.
From Lox Require Import Parse.Grammar Parse.Tables Parse.Validator Parse.Actions
  Parse.LRAbstract Parse.ValidatorFacts Parse.ParseRuntime Parse.Refine Parse.Complete.
Import ListNotations.

Section Trees.
Variable g : grammar.

Lemma wt_yield :
  (forall X t u, wt g X t u -> yield t = u) /\
  (forall Xs ts us, wf g Xs ts us -> flat_map yield ts = us).
Proof.
  apply wt_wf_ind; simpl; intros; auto. congruence.
Qed.

Lemma wf_app Xs ts us : wf g Xs ts us -> forall Ys ts' us', wf g Ys ts' us' ->
  wf g (Xs ++ Ys) (ts ++ ts') (us ++ us').
Proof.
  induction 1; intros Ys ts' us' H'; simpl; auto.
  rewrite <- app_assoc. constructor; auto.
Qed.

Lemma wf_one X t u : wt g X t u -> wf g [X] [t] u.
Proof.
  intros H. rewrite <- (app_nil_r u). constructor; auto. constructor.
Qed.
End Trees.

Lemma firstn_S_nth {A} (l : list A) : forall d x, nth_error l d = Some x ->
  firstn (S d) l = firstn d l ++ [x].
Proof.
  induction l as [|a l IH]; intros d x H; destruct d; simpl in *; try discriminate.
  - inversion H; subst. reflexivity.
  - f_equal. apply IH. exact H.
Qed.

Section Sound.
Variable g : grammar.
Variable tb : tables.
Variable c : cert.
Variable nterm : nat.
Variable eb : bool.
Variable discard : value -> bool.
Hypothesis Hval : validate g tb c nterm = true.

Notation nst := (nstates c).
Notation item s p d a := (has_item c s (p, d, a) = true).

Inductive path : list (nat * tree) -> Prop :=
| path_nil : path []
| path_cons s t stk X u :
    path stk -> wt g X t u -> past_ok g c (topst stk) s X = true -> s < nst ->
    path ((s, t) :: stk).

Fixpoint syield (stk : list (nat * tree)) : list token :=
  match stk with
  | [] => []
  | (_, t) :: r => syield r ++ yield t
  end.

Lemma path_top_lt stk : path stk -> topst stk < nst.
Proof.
  destruct 1; simpl; auto. apply (val_nstates g tb c nterm Hval).
Qed.

(* walking back over the d symbols before the dot *)
Lemma path_pop d : forall stk p a pr,
  path stk -> item (topst stk) p d a -> nth_error g p = Some pr ->
  exists ch rest us a0,
    LRAbstract.pop d stk = Some (ch, rest) /\ path rest /\ item (topst rest) p 0 a0 /\
    wf g (firstn d (rhs pr)) ch us /\ syield stk = syield rest ++ us.
Proof.
  induction d as [|d IH]; intros stk p a pr Hpath Hi Hp.
  - exists [], stk, [], a. simpl. rewrite app_nil_r. repeat split; auto. constructor.
  - destruct Hpath as [|s t stk X u Hpath Hwt Hpast Hs].
    + simpl in Hi. apply (val_init_d0 g tb c nterm Hval) in Hi. discriminate.
    + simpl in Hi.
      pose proof (val_past g c _ _ _ _ _ _ Hpast Hi) as (pr' & a' & Hp' & Hd & Hi').
      rewrite Hp in Hp'. inversion Hp'; subst pr'.
      destruct (IH stk p a' pr Hpath Hi' Hp) as (ch & rest & us & a0 & Hpop & Hrest & Hi0 & Hwf & Hy).
      exists (ch ++ [t]), rest, (us ++ u), a0. simpl. rewrite Hpop. repeat split; auto.
      * change (match rhs pr with [] => [] | a0 :: l => a0 :: firstn d l end) with (firstn (S d) (rhs pr)).
        rewrite (firstn_S_nth _ _ _ Hd). apply wf_app; auto. apply wf_one. exact Hwt.
      * rewrite Hy, (proj1 (wt_yield g) _ _ _ Hwt), app_assoc. reflexivity.
Qed.

Section Word.
Variable w : list nat.
Hypothesis Hord : ordinary nterm w.

Notation astep' := (astep g (action_of tb) (goto_of tb) (length w)).
Notation R' := (R tb c nterm discard w).

Definition Inv (x : cfg) : Prop :=
  let '(stk, inp, _) := x in path stk /\ syield stk ++ inp = tokens_of w.

Lemma inv_step x : Inv x ->
  match astep' x with
  | ANext x' => Inv x'
  | AStuck => False
  | _ => True
  end.
Proof.
  destruct x as [[stk inp] tr]. intros [Hpath Hy]. unfold astep.
  destruct (action_of tb (topst stk) (la_of inp)) as [a|] eqn:Ha; auto.
  destruct (val_action_of g tb c nterm Hval _ _ _ (path_top_lt _ Hpath) Ha) as [Hlt Hjust].
  destruct Hjust as [s' Hne Hs' Hpast|p pr Hp0 Hp Hitem|]; auto.
  - (* shift *)
    destruct inp as [|[t i] inp']; simpl in *; [congruence|].
    split.
    + econstructor; eauto. constructor.
    + simpl. rewrite <- app_assoc. exact Hy.
  - (* reduce *)
    rewrite Hp.
    destruct (path_pop _ _ _ _ _ Hpath Hitem Hp) as (ch & rest & us & a0 & Hpop & Hrest & Hi0 & Hwf & Hys).
    rewrite Hpop.
    destruct (val_v6 g tb c nterm Hval _ _ _ _ Hi0 Hp Hp0) as (s' & Hg). rewrite Hg.
    destruct (val_goto_of g tb c nterm Hval _ _ _ (path_top_lt _ Hrest) Hg) as (Hs' & Hpast & _).
    rewrite firstn_all in Hwf.
    split.
    + econstructor; eauto. econstructor; eauto.
    + simpl. rewrite (proj2 (wt_yield g) _ _ _ Hwf). rewrite <- Hys. exact Hy.
Qed.

Lemma tokens_ge2 l : forall i, Forall (fun t => 2 <= t < nterm) l ->
  Forall (fun tk : token => 2 <= fst tk) (tokens_from i l).
Proof.
  induction l as [|t l IH]; intros i H; unfold tokens_from; simpl; constructor.
  - inversion H; subst. simpl. lia.
  - inversion H; subst. apply IH. assumption.
Qed.

Lemma inv_accept x : Inv x -> astep' x = AAcc -> sentence g (tokens_of w).
Proof.
  destruct x as [[stk inp] tr]. intros [Hpath Hy] Hacc. unfold astep in Hacc.
  destruct (action_of tb (topst stk) (la_of inp)) as [a|] eqn:Ha; [|discriminate].
  destruct (val_action_of g tb c nterm Hval _ _ _ (path_top_lt _ Hpath) Ha) as [Hlt Hjust].
  destruct Hjust as [s' Hne Hs' Hpast|p pr Hp0 Hp Hitem|Heof Hitem].
  - destruct inp; discriminate.
  - rewrite Hp in Hacc. destruct (LRAbstract.pop (length (rhs pr)) stk) as [[ch rest]|]; [|discriminate].
    destruct (goto_of tb (topst rest) (lhs pr)); discriminate.
  - (* the lookahead is EOF: the input is exhausted *)
    assert (inp = []) as ->.
    { pose proof (tokens_ge2 w 0 Hord) as Hge. change (tokens_from 0 w) with (tokens_of w) in Hge.
      rewrite <- Hy in Hge. apply Forall_app in Hge as [_ Hge].
      destruct inp as [|[t i] inp']; auto. inversion Hge; subst. simpl in *. unfold eof in Heof. lia. }
    rewrite app_nil_r in Hy.
    destruct Hpath as [|s t stk X u Hpath Hwt Hpast Hs].
    + simpl in Hitem. apply (val_init_d0 g tb c nterm Hval) in Hitem. discriminate.
    + simpl in Hitem.
      pose proof (val_past g c _ _ _ _ _ _ Hpast Hitem) as (pr0 & a0' & Hp0 & Hd & Hi0).
      destruct Hpath as [|s2 t2 stk2 X2 u2 Hpath2 Hwt2 Hpast2 Hs2].
      * simpl in Hy. exists X, t. split.
        -- destruct (val_start g tb c nterm Hval) as (pr0' & X' & Hp0' & Hr).
           unfold start_sym. rewrite Hp0' in *. inversion Hp0; subst pr0'.
           rewrite Hr in *. simpl in Hd. congruence.
        -- rewrite (proj1 (wt_yield g) _ _ _ Hwt) in Hy. subst u. exact Hwt.
      * simpl in Hi0.
        pose proof (val_past g c _ _ _ _ _ _ Hpast2 Hi0) as Hne. simpl in Hne. congruence.
Qed.

Lemma ploop_inv fuel : forall s stk inp tr,
  R' stk inp tr s -> Inv (stk, inp, tr) ->
  ploop tb eb false discard fuel s <> Crash /\
  (forall s', ploop tb eb false discard fuel s = Accept s' -> sentence g (tokens_of w)).
Proof.
  induction fuel as [|f IH]; intros s stk inp tr HR HI.
  - simpl. split; [discriminate|]. intros; discriminate.
  - rewrite ploop_S.
    pose proof (sim_step g tb c nterm eb discard Hval w (S f) stk inp tr s HR) as Hsim.
    pose proof (inv_step _ HI) as Hstep.
    pose proof (inv_accept _ HI) as Hacc.
    destruct (astep g (action_of tb) (goto_of tb) (length w) (stk, inp, tr)) as [[[stk' inp'] tr']| | |].
    + destruct Hsim as (s' & Hp & HR'). rewrite Hp. eapply IH; eauto.
    + rewrite Hsim. split; [discriminate|]. intros. apply Hacc. reflexivity.
    + rewrite Hsim. split; [discriminate|]. intros; discriminate.
    + destruct Hstep.
Qed.

Lemma parse_inv fuel :
  parse tb eb false discard fuel (zs w) <> Crash /\
  (forall s, parse tb eb false discard fuel (zs w) = Accept s -> sentence g (tokens_of w)).
Proof.
  destruct (R_init g tb c nterm discard Hval w Hord) as (s0 & Hrd & HR0).
  unfold parse. rewrite Hrd. eapply ploop_inv; eauto.
  split; [constructor|reflexivity].
Qed.

End Word.

(* P3 *)
Theorem parse_sound : forall w fuel s, ordinary nterm w ->
  parse tb eb false discard fuel (zs w) = Accept s -> sentence g (tokens_of w).
Proof. intros w fuel s Hord H. eapply (proj2 (parse_inv w Hord fuel)); eauto. Qed.

(* P4 *)
Theorem parse_no_crash : forall w fuel, ordinary nterm w ->
  parse tb eb false discard fuel (zs w) <> Crash.
Proof. intros w fuel Hord. apply (proj1 (parse_inv w Hord fuel)). Qed.

(* P7 *)
Theorem parse_exact : forall w, ordinary nterm w ->
  ((exists fuel s, parse tb eb false discard fuel (zs w) = Accept s) <-> sentence g (tokens_of w)).
Proof.
  intros w Hord. split.
  - intros (fuel & s & H). eapply parse_sound; eauto.
  - apply (parse_complete g tb c nterm eb discard Hval); auto.
Qed.

End Sound.

Print Assumptions parse_sound.
Print Assumptions parse_no_crash.
Print Assumptions parse_exact.
