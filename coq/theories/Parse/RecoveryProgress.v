(* R9: recoveries make progress.  measure s = 2 * (input tokens not yet consumed)
   + (1 if a token was shifted since the last successful recovery).  No step of
   the main loop increases it and every pass through _recover that returns to the
   loop strictly decreases it: a run enters _recover at most 2*|w|+2 times.
   (Termination of the whole parse additionally needs the chains of reductions
   under one lookahead to be finite; not attempted.) *)
From Coq Require Import List Arith ZArith Lia Bool ZifyBool ZifyNat.
From Lox Require Import Parse.Grammar Parse.Tables Parse.Validator Parse.Actions
  Parse.LRAbstract Parse.ValidatorFacts Parse.ParseRuntime Parse.Refine Parse.Complete Parse.Sound
  Parse.Recovery Parse.RecoveryFacts Parse.RecoverySound.
Import ListNotations.

(* tokens not yet consumed: the rest of the input and the real lookahead (in la,
   or in qla while the synthetic ERROR occupies la), EOF not counted *)
Definition remaining (s : pstate) : nat :=
  length (input s) +
  (if (qla s =? -1)%Z then (if (la s =? EOF)%Z then 0 else 1)
   else (if (qla s =? EOF)%Z then 0 else 1)).
Definition stuck (s : pstate) : bool := (shifts s =? rec_shifts s)%Z.
Definition measure (s : pstate) : nat := 2 * remaining s + (if stuck s then 0 else 1).

(* ---------- the pieces of _recover, no validator needed ---------- *)
Section Pure.
Variable tb : tables.

Lemma read_rem x x' : read_token tb x = Some x' ->
  remaining x' <= remaining x /\ qla x' = (-1)%Z /\
  (qla x = (-1)%Z -> (la x =? EOF)%Z = false -> remaining x' < remaining x).
Proof.
  unfold read_token. destruct (qla x =? -1)%Z eqn:Eq; cbn [negb].
  - apply Z.eqb_eq in Eq. unfold lex_read. destruct (input x) as [|ty rest] eqn:Hin.
    + simpl. intros H; inversion H; subst x'. unfold remaining.
      cbn [set_la input qla la]. rewrite Eq, Hin. cbn [Z.eqb Pos.eqb length EOF].
      destruct (la x =? EOF)%Z eqn:El; repeat split; auto; try lia; intros _ Hc; discriminate.
    + cbv beta iota zeta.
      assert (Hgen : forall sym,
                remaining (set_la (set_la {| stack := stack x; la := la x; lasym := lasym x; qla := qla x;
                             qlasym := qlasym x; input := rest; pos := S (pos x); trace := trace x;
                             shifts := shifts x; rec_shifts := rec_shifts x |} ty (VTok ty (pos x)) (qla x) (qlasym x))
                             ty sym (qla x) (qlasym x)) <= remaining x /\
                ((la x =? EOF)%Z = false ->
                 remaining (set_la (set_la {| stack := stack x; la := la x; lasym := lasym x; qla := qla x;
                             qlasym := qlasym x; input := rest; pos := S (pos x); trace := trace x;
                             shifts := shifts x; rec_shifts := rec_shifts x |} ty (VTok ty (pos x)) (qla x) (qlasym x))
                             ty sym (qla x) (qlasym x)) < remaining x)).
      { intros sym. unfold remaining. cbn [set_la input qla la]. rewrite Eq, Hin.
        cbn [Z.eqb Pos.eqb length]. destruct (ty =? EOF)%Z; destruct (la x =? EOF)%Z; split; intros; try lia;
          discriminate. }
      destruct (ty =? ERROR)%Z.
      * match goal with |- context [make_error tb ?y] => destruct (make_error tb y) as [e|] end;
          [|discriminate].
        intros H; inversion H; subst x'. destruct (Hgen e) as [H1 H2]. repeat split; auto.
      * intros H; inversion H; subst x'.
        destruct (Hgen (VTok ty (pos x))) as [H1 H2]. unfold remaining in *.
        cbn [set_la input qla la] in *. repeat split; auto.
  - intros H; inversion H; subst x'. unfold remaining. cbn [set_la input qla la].
    rewrite Eq. cbn [Z.eqb Pos.eqb]. repeat split; auto.
    intros Hq. rewrite Hq in Eq. discriminate.
Qed.

Lemma skip_rem f : forall x x', skip_errors tb f x = Continue x' ->
  remaining x' <= remaining x /\
  ((qla x <> (-1)%Z -> la x = ERROR) -> qla x' = (-1)%Z).
Proof.
  induction f as [|f IH]; intros x x' H; [discriminate|]. cbn [skip_errors] in H.
  destruct (la x =? ERROR)%Z eqn:E.
  - destruct (read_token tb x) as [x1|] eqn:Hrd; [|discriminate].
    destruct (read_rem _ _ Hrd) as (H1 & H2 & _). destruct (IH _ _ H) as [H3 H4].
    split; [lia|]. intros _. apply H4. intros Hc. contradiction.
  - inversion H; subst x'. split; auto. intros HJ.
    destruct (Z.eq_dec (qla x) (-1)) as [Hq|Hq]; auto. rewrite (HJ Hq) in E. discriminate.
Qed.

Lemma drop_rem f x x' : drop_if_stuck tb f x = Continue x' -> qla x = (-1)%Z ->
  remaining x' <= remaining x /\ qla x' = (-1)%Z /\
  (stuck x = true -> remaining x' < remaining x).
Proof.
  unfold drop_if_stuck, stuck. intros H Hq.
  destruct (shifts x =? rec_shifts x)%Z.
  - destruct (la x =? EOF)%Z eqn:El; [discriminate|].
    destruct (read_token tb x) as [x1|] eqn:Hrd; [|discriminate].
    destruct (read_rem _ _ Hrd) as (H1 & H2 & H3). specialize (H3 Hq El).
    destruct (skip_rem _ _ _ H) as [H4 H5].
    repeat split; try lia; apply H5; intros Hc; contradiction.
  - inversion H; subst x'. repeat split; auto; discriminate.
Qed.

Lemma outer_rem f : forall e x x', recover_outer tb f e x = Continue x' -> qla x = (-1)%Z ->
  remaining x' <= remaining x /\ stuck x' = true.
Proof.
  induction f as [|f IH]; intros e x x' H Hq; [discriminate|]. cbn [recover_outer] in H.
  destruct (recover_pops tb (S f) (stack x) (la x) e) as [st' e'|e'| |]; try discriminate.
  - inversion H; subst x'. unfold remaining, stuck.
    cbn [set_shifts set_la set_stack input qla la shifts rec_shifts]. rewrite Hq.
    cbn [Z.eqb Pos.eqb]. split; [|apply Z.eqb_refl].
    destruct (la x =? -1)%Z eqn:E1; [|lia].
    apply Z.eqb_eq in E1. rewrite E1. cbn. lia.
  - destruct (la x =? EOF)%Z; [discriminate|].
    destruct (read_token tb x) as [x1|] eqn:Hrd; [|discriminate].
    destruct (read_rem _ _ Hrd) as (H1 & H2 & _). destruct (IH _ _ _ H H2) as [H3 H4].
    split; auto. lia.
Qed.

(* every pass through _recover that returns to the loop decreases the measure *)
Theorem recover_measure f s s' : recover tb f s = Continue s' ->
  (qla s <> (-1)%Z -> la s = ERROR) -> measure s' < measure s.
Proof.
  unfold recover. intros H HJ.
  destruct (match lasym s with VErr _ _ => Some (lasym s) | _ => make_error tb s end) as [e|];
    [|discriminate].
  destruct (skip_errors tb f s) as [s1| | | |] eqn:E1; try discriminate.
  destruct (drop_if_stuck tb f s1) as [s2| | | |] eqn:E2; try discriminate.
  destruct (skip_rem _ _ _ E1) as [H1 H2]. specialize (H2 HJ).
  destruct (skip_errors_shifts _ _ _ _ E1) as [H3 H4].
  destruct (drop_rem _ _ _ E2 H2) as (H5 & H6 & H7).
  destruct (outer_rem _ _ _ _ H H6) as [H8 H9].
  unfold measure. rewrite H9.
  assert (Hst : stuck s1 = stuck s) by (unfold stuck; rewrite H3, H4; reflexivity).
  rewrite Hst in H7. destruct (stuck s); [specialize (H7 eq_refl)|]; lia.
Qed.

(* one-step form asked for: when no token was shifted since the last recovery,
   _recover consumes at least one input token *)
Corollary recover_stuck_consumes f s s' : recover tb f s = Continue s' ->
  (qla s <> (-1)%Z -> la s = ERROR) ->
  stuck s' = true /\ remaining s' <= remaining s /\ (stuck s = true -> remaining s' < remaining s).
Proof.
  unfold recover. intros H HJ.
  destruct (match lasym s with VErr _ _ => Some (lasym s) | _ => make_error tb s end) as [e|];
    [|discriminate].
  destruct (skip_errors tb f s) as [s1| | | |] eqn:E1; try discriminate.
  destruct (drop_if_stuck tb f s1) as [s2| | | |] eqn:E2; try discriminate.
  destruct (skip_rem _ _ _ E1) as [H1 H2]. specialize (H2 HJ).
  destruct (skip_errors_shifts _ _ _ _ E1) as [H3 H4].
  destruct (drop_rem _ _ _ E2 H2) as (H5 & H6 & H7).
  destruct (outer_rem _ _ _ _ H H6) as [H8 H9].
  assert (Hst : stuck s1 = stuck s) by (unfold stuck; rewrite H3, H4; reflexivity).
  rewrite Hst in H7. repeat split; auto; try lia.
Qed.

End Pure.

(* ---------- along a run ---------- *)
Section Progress.
Variable g : grammar.
Variable tb : tables.
Variable c : cert.
Variable nterm : nat.
Variable eb : bool.
Variable discard : value -> bool.
Hypothesis Hval : validate g tb c nterm = true.
Variable w : list nat.
Hypothesis Hw1 : tokens1 nterm w.

Notation pstep' := (pstep tb eb true discard).
Notation ploop' := (ploop tb eb true discard).
Notation RInv' := (RInv g c nterm w).

(* the iteration of the main loop at s enters _recover *)
Definition recover_step (s : pstate) : bool :=
  match peek (stack s) 0 with
  | Some top => match find (t_actions tb) (i_state top) (la s) with FNone => true | _ => false end
  | None => false
  end.

Lemma shift_state_regs s v b :
  la (shift_state s v b) = la s /\ qla (shift_state s v b) = qla s /\
  remaining (shift_state s v b) = remaining s /\ rec_shifts (shift_state s v b) = rec_shifts s /\
  shifts (shift_state s v b) = (if (la s =? ERROR)%Z then shifts s else shifts s + 1)%Z.
Proof. unfold shift_state, remaining. destruct (la s =? ERROR)%Z; cbn; auto. Qed.

Theorem pstep_measure f s : RInv' s ->
  match pstep' f s with
  | Continue s' => measure s' <= measure s /\ (recover_step s = true -> measure s' < measure s)
  | _ => True
  end.
Proof.
  intros (stk & wc & wr & Hw0 & HC & HE).
  assert (Hw : id (w = wc ++ wr)) by exact Hw0. clear Hw0.
  destruct (core_top g tb c nterm Hval _ _ _ HC) as (top & Hpk & Htop & Hlt & Hv).
  pose proof (val_action_find g tb c nterm Hval (topst stk) (la s) Hlt) as Hfind.
  rewrite <- Htop in Hfind.
  assert (HJ : qla s <> (-1)%Z -> la s = ERROR).
  { destruct (C_regs _ _ _ _ _ _ HC) as [(Hq & _)|(_ & Hla & _)]; auto. intros; contradiction. }
  destruct (find (t_actions tb) (i_state top) (la s)) as [v| |] eqn:Hf.
  - assert (Hrs : recover_step s = false) by (unfold recover_step; rewrite Hpk, Hf; reflexivity).
    destruct Hfind as [Hrange Hjust]. unfold decode_action in Hjust.
    destruct (v =? accept_code)%Z eqn:E.
    + apply Z.eqb_eq in E. subst v. rewrite (pstep_accept_gen tb eb discard true f s top Hpk Hf). exact I.
    + apply Z.eqb_neq in E. rewrite Z.geb_leb in Hjust.
      destruct (0 <=? v)%Z eqn:E2.
      * apply Z.leb_le in E2. inversion Hjust as [s' Hne Hs' Hpast| |]; subst.
        destruct (pstep_shift_gen tb eb discard true f s top v Hpk Hf E E2 (C_lasym _ _ _ _ _ _ HC)) as (b & Hps).
        rewrite Hps.
        destruct (inv_shift g tb c nterm Hval w s stk wc wr v b Hw HC HE E2 Hne Hs' Hpast) as (s2 & Hrd & _).
        rewrite Hrd. split; [|rewrite Hrs; discriminate].
        destruct (read_rem tb _ _ Hrd) as (H1 & H2 & H3).
        destruct (read_token_shifts tb _ _ Hrd) as [H4 H5].
        destruct (shift_state_regs s v b) as (R1 & R2 & R3 & R4 & R5).
        rewrite R3 in H1, H3. rewrite R1, R2 in H3. rewrite R4 in H5. rewrite R5 in H4.
        unfold measure, stuck. rewrite H4, H5.
        destruct (la s =? ERROR)%Z eqn:El.
        -- lia.
        -- assert (Hq : qla s = (-1)%Z).
           { destruct (Z.eq_dec (qla s) (-1)) as [Hq|Hq]; auto. rewrite (HJ Hq) in El. discriminate. }
           assert (Hle : (la s =? EOF)%Z = false).
           { apply Z.eqb_neq. unfold EOF. intros Hc. rewrite Hc in Hne. apply Hne. reflexivity. }
           specialize (H3 Hq Hle).
           destruct (shifts s + 1 =? rec_shifts s)%Z; destruct (shifts s =? rec_shifts s)%Z; lia.
      * apply Z.leb_gt in E2. inversion Hjust as [|p pr Hp0 Hp Hitem|]; subst.
        destruct (inv_reduce g tb c nterm eb discard Hval w f s stk wc wr top v pr _ Hw HC HE Hpk Htop Hf E E2 Hp0 Hp Hitem)
          as (s' & ns & Hps & _ & (R1 & R2 & R3 & R4 & R5 & R6 & R7) & _).
        rewrite Hps. split; [|rewrite Hrs; discriminate].
        unfold measure, remaining, stuck. rewrite R1, R3, R5, R6, R7. lia.
  - assert (Hrs : pstep' f s = recover tb f s) by (unfold pstep; rewrite Hpk, Hf; reflexivity).
    rewrite Hrs. destruct (recover tb f s) as [s'| | | |] eqn:Hr; auto.
    pose proof (recover_measure tb f s s' Hr HJ). split; intros; lia.
  - destruct Hfind.
Qed.

(* the number of iterations of a run of ploop that enter _recover *)
Fixpoint nrec (fuel : nat) (s : pstate) : nat :=
  match fuel with
  | O => 0
  | S f =>
    (if recover_step s then 1 else 0) +
    match pstep' (S f) s with
    | Continue s' => nrec f s'
    | _ => 0
    end
  end.

Theorem recoveries_bounded_by_measure fuel : forall s, RInv' s -> nrec fuel s <= S (measure s).
Proof.
  induction fuel as [|f IH]; intros s HI; cbn [nrec]; [lia|].
  pose proof (pstep_measure (S f) s HI) as Hm.
  pose proof (pstep_inv g tb c nterm eb discard Hval w Hw1 (S f) s HI) as Hi.
  destruct (pstep' (S f) s) as [s'| | | |].
  - specialize (IH s' Hi). destruct Hm as [H1 H2].
    destruct (recover_step s); [specialize (H2 eq_refl)|]; lia.
  - destruct (recover_step s); lia.
  - destruct (recover_step s); lia.
  - destruct (recover_step s); lia.
  - destruct (recover_step s); lia.
Qed.

(* between two consecutive entries into _recover the measure strictly decreases *)
Inductive steps : pstate -> pstate -> Prop :=
| steps_refl s : steps s s
| steps_step f s s1 s2 : pstep' f s = Continue s1 -> steps s1 s2 -> steps s s2.

Lemma steps_measure s s' : steps s s' -> RInv' s -> measure s' <= measure s /\ RInv' s'.
Proof.
  induction 1 as [s|f s s1 s2 Hp Hs IH]; intros HI; [auto|].
  pose proof (pstep_measure f s HI) as Hm.
  pose proof (pstep_inv g tb c nterm eb discard Hval w Hw1 f s HI) as Hi.
  rewrite Hp in Hm, Hi. destruct (IH Hi) as [H1 H2]. split; auto. lia.
Qed.

Theorem recoveries_make_progress_step f s s1 s2 :
  RInv' s -> recover_step s = true -> pstep' f s = Continue s1 -> steps s1 s2 ->
  measure s2 < measure s.
Proof.
  intros HI Hr Hp Hs.
  pose proof (pstep_measure f s HI) as Hm.
  pose proof (pstep_inv g tb c nterm eb discard Hval w Hw1 f s HI) as Hi.
  rewrite Hp in Hm, Hi. destruct Hm as [_ Hm]. specialize (Hm Hr).
  destruct (steps_measure _ _ Hs Hi) as [H1 _]. lia.
Qed.

(* R9 *)
Theorem recoveries_make_progress : forall fuel s0,
  read_token tb (init_state (zs w)) = Some s0 ->
  nrec fuel s0 <= 2 * length w + 2.
Proof.
  intros fuel s0 Hrd.
  destruct (init_inv g tb c nterm Hval w Hw1) as (s0' & Hrd' & HI).
  rewrite Hrd in Hrd'. inversion Hrd'; subst s0'.
  pose proof (recoveries_bounded_by_measure fuel s0 HI) as Hb.
  destruct (read_rem tb _ _ Hrd) as (H1 & _ & _).
  assert (Hr : remaining (init_state (zs w)) = length w).
  { unfold remaining. cbn. unfold zs. rewrite map_length. lia. }
  unfold measure in Hb. destruct (stuck s0); lia.
Qed.

End Progress.

Print Assumptions recover_measure.
Print Assumptions recover_stuck_consumes.
Print Assumptions pstep_measure.
Print Assumptions recoveries_make_progress_step.
Print Assumptions recoveries_make_progress.
