(* The recovering parser (rec_enabled = true) never crashes (R1); what it
   accepts is a sentence up to stretches replaced by @error (R2); an accepting
   run that reduced no @error production accepted a sentence (R3).
   Invariant on the concrete run: the stack is a path of the automaton whose
   trees are well-typed; the consumed input is err_subst-related to the yields
   on the stack (plus one pending @error while a recovered lookahead is queued);
   every node of a stack tree has its ERed event in the trace. *)
From Coq Require Import List Arith ZArith Lia Bool ZifyBool ZifyNat.
From Lox Require Import Parse.Grammar Parse.Tables Parse.Validator Parse.Actions
  Parse.LRAbstract Parse.ValidatorFacts Parse.ParseRuntime Parse.Refine Parse.Complete Parse.Sound
  Parse.Recovery Parse.RecoveryFacts.
Import ListNotations.

Fixpoint nodes (t : tree) : list nat :=
  match t with
  | Leaf _ => []
  | Node p ch => p :: flat_map nodes ch
  end.

Definition snodes (stk : list (nat * tree)) : list nat := flat_map (fun e => nodes (snd e)) stk.
Definition ytypes (stk : list (nat * tree)) : list nat := map fst (syield stk).

Section Trees.
Variable g : grammar.

(* the token indices of a tree can be chosen freely *)
Lemma wt_relabel :
  (forall X t u, wt g X t u -> forall u', map fst u' = map fst u -> exists t', wt g X t' u') /\
  (forall Xs ts us, wf g Xs ts us -> forall us', map fst us' = map fst us -> exists ts', wf g Xs ts' us').
Proof.
  apply wt_wf_ind.
  - intros t i u' H. destruct u' as [|[t' j] [|? ?]]; simpl in H; try discriminate.
    inversion H; subst. exists (Leaf (t, j)). constructor.
  - intros p pr ch u Hp Hwf IH u' H. destruct (IH u' H) as (ts' & Hts).
    exists (Node p ts'). econstructor; eauto.
  - intros us' H. destruct us'; [|discriminate]. exists []. constructor.
  - intros X t u Xs ts us Ht IHt Hf IHf us' H. rewrite map_app in H.
    apply map_eq_app in H as (l1 & l2 & -> & H1 & H2).
    destruct (IHt _ H1) as (t' & Ht'). destruct (IHf _ H2) as (ts' & Hts').
    exists (t' :: ts'). constructor; auto.
Qed.

(* an @error leaf sits under a node whose production mentions @error *)
Lemma err_leaf_node :
  (forall X t u, wt g X t u -> In error_t (map fst u) ->
     X = T error_t \/
     exists p pr, In p (nodes t) /\ nth_error g p = Some pr /\ In (T error_t) (rhs pr)) /\
  (forall Xs ts us, wf g Xs ts us -> In error_t (map fst us) ->
     In (T error_t) Xs \/
     exists p pr, In p (flat_map nodes ts) /\ nth_error g p = Some pr /\ In (T error_t) (rhs pr)).
Proof.
  apply wt_wf_ind.
  - intros t i H. simpl in H. destruct H as [H|[]]. left. rewrite H. reflexivity.
  - intros p pr ch u Hp Hwf IH H. right.
    destruct (IH H) as [Hin|(q & qr & Hq & Hqr & Hin)].
    + exists p, pr. simpl. auto.
    + exists q, qr. simpl. auto.
  - intros [].
  - intros X t u Xs ts us Ht IHt Hf IHf H. rewrite map_app in H.
    apply in_app_or in H as [H|H].
    + destruct (IHt H) as [->|(q & qr & Hq & Hqr & Hin)].
      * left. left. reflexivity.
      * right. exists q, qr. simpl. split; [apply in_or_app; left; exact Hq|auto].
    + destruct (IHf H) as [Hin|(q & qr & Hq & Hqr & Hin)].
      * left. right. exact Hin.
      * right. exists q, qr. simpl. split; [apply in_or_app; right; exact Hq|auto].
Qed.

End Trees.

Lemma pop_nodes (P : nat -> Prop) n : forall (stk : list (nat * tree)) ch rest,
  LRAbstract.pop n stk = Some (ch, rest) -> Forall P (snodes stk) ->
  Forall P (flat_map nodes ch) /\ Forall P (snodes rest).
Proof.
  induction n as [|n IH]; intros stk ch rest H HP; simpl in H.
  - inversion H; subst. split; [constructor|exact HP].
  - destruct stk as [|[s t] stk]; [discriminate|].
    destruct (LRAbstract.pop n stk) as [[ts r]|] eqn:E; [|discriminate].
    inversion H; subst. unfold snodes in HP. simpl in HP. apply Forall_app in HP as [HP1 HP2].
    destruct (IH _ _ _ E HP2) as [H1 H2]. split; auto.
    rewrite flat_map_app. apply Forall_app. split; auto. simpl. rewrite app_nil_r. exact HP1.
Qed.

Lemma syield_skipn n : forall stk, exists y, syield stk = syield (skipn n stk) ++ y.
Proof.
  induction n as [|n IH]; intros stk.
  - exists []. simpl. rewrite app_nil_r. reflexivity.
  - destruct stk as [|[s t] stk]; simpl.
    + exists []. reflexivity.
    + destruct (IH stk) as (y & Hy). exists (y ++ yield t). rewrite Hy at 1. rewrite app_assoc. reflexivity.
Qed.

Lemma snodes_skipn (P : nat -> Prop) n : forall stk, Forall P (snodes stk) -> Forall P (snodes (skipn n stk)).
Proof.
  induction n as [|n IH]; intros stk H; simpl; auto.
  destruct stk as [|[s t] stk]; auto.
  unfold snodes in H. simpl in H. apply Forall_app in H as [_ H]. apply IH. exact H.
Qed.

Lemma path_skipn g c n : forall stk, path g c stk -> path g c (skipn n stk).
Proof.
  induction n as [|n IH]; intros stk H; simpl; auto.
  destruct H; auto. constructor.
Qed.

Lemma tokens1_tl nterm l : tokens1 nterm l -> tokens1 nterm (tl l).
Proof. intros H. destruct l; simpl; auto. inversion H; auto. Qed.

Lemma tl_split (l : list nat) : exists d, l = d ++ tl l.
Proof. destruct l as [|x l]; [exists []|exists [x]]; reflexivity. Qed.

Section Sound.
Variable g : grammar.
Variable tb : tables.
Variable c : cert.
Variable nterm : nat.
Variable eb : bool.
Variable discard : value -> bool.
Hypothesis Hval : validate g tb c nterm = true.

Notation nst := (nstates c).
Notation item s p d a := (has_item c s (p, d, a) = true).

(* concrete stack versus states of the abstract stack (values are irrelevant) *)
Inductive srel : list sitem -> list (nat * tree) -> Prop :=
| srel_bot b : i_state b = 0%Z -> srel [b] []
| srel_cons it s t cs stk :
    i_state it = Z.of_nat s -> srel cs stk -> srel (it :: cs) ((s, t) :: stk).

Lemma srel_top cs stk : srel cs stk ->
  exists top, peek cs 0 = Some top /\ i_state top = Z.of_nat (topst stk).
Proof. intros H. destruct H; eexists; simpl; split; eauto. Qed.

Lemma srel_len cs stk : srel cs stk -> length cs = S (length stk).
Proof. induction 1; simpl; auto. Qed.

Lemma srel_skipn n : forall cs stk, srel cs stk -> n <= length stk ->
  srel (skipn n cs) (skipn n stk).
Proof.
  induction n as [|n IH]; intros cs stk H Hn; simpl; auto.
  destruct H; simpl in *; [lia|]. apply IH; auto. lia.
Qed.

Lemma srel_valid cs stk : srel cs stk -> path g c stk -> Forall (valid_item c) cs.
Proof.
  induction 1 as [b Hb|it s t cs stk Hs Hrel IH]; intros Hp.
  - constructor; [|constructor]. exists 0. split; auto. apply (val_nstates g tb c nterm Hval).
  - inversion Hp; subst. constructor; auto. exists s. auto.
Qed.

Definition evented (tr : list event) (p : nat) : Prop := exists res, In (ERed (Z.of_nat p) res) tr.

Lemma evented_incl tr tr' p : incl tr tr' -> evented tr p -> evented tr' p.
Proof. intros Hi (res & H). exists res. auto. Qed.

(* wr: the part of the input not yet consumed, starting with the (real) lookahead,
   which sits in la, or in qla while the parser works on a synthetic ERROR *)
Record Core (s : pstate) (stk : list (nat * tree)) (wr : list nat) : Prop := mkCore {
  C_stack : srel (stack s) stk;
  C_path : path g c stk;
  C_wr : tokens1 nterm wr;
  C_lasym : tokish (lasym s);
  C_regs : (qla s = (-1)%Z /\ la s = Z.of_nat (hd 0 wr) /\ input s = zs (tl wr)) \/
           (qla s = Z.of_nat (hd 0 wr) /\ la s = ERROR /\ tokish (qlasym s) /\ input s = zs (tl wr));
  C_trace : Forall (evented (trace s)) (snodes stk);
}.

Lemma core_top s stk wr : Core s stk wr ->
  exists top, peek (stack s) 0 = Some top /\ i_state top = Z.of_nat (topst stk) /\
              topst stk < nst /\ valid_item c top.
Proof.
  intros HC. destruct (srel_top _ _ (C_stack _ _ _ HC)) as (top & Hp & Ht).
  pose proof (path_top_lt g tb c nterm Hval _ (C_path _ _ _ HC)) as Hlt.
  exists top. repeat split; auto. exists (topst stk). auto.
Qed.

Lemma core_read s stk wr : Core s stk wr ->
  exists s', read_token tb s = Some s' /\ qla s' = (-1)%Z /\
             Core s' stk (if (qla s =? -1)%Z then tl wr else wr).
Proof.
  intros HC. destruct (core_top _ _ _ HC) as (top & Hp & Ht & Hlt & Hv).
  destruct HC as [Hst Hpath Hwr Hsym Hregs Htr].
  destruct Hregs as [(Hq & Hla & Hin)|(Hq & Hla & Hqs & Hin)].
  - destruct (read_real g tb c nterm Hval s (tl wr) top Hq Hin Hp Hv)
      as (s' & Hrd & Hst' & Htr' & Hq' & _ & Hsym' & Hla' & Hin').
    exists s'. rewrite Hq. cbn [Z.eqb Pos.eqb]. repeat split; auto.
    + rewrite Hst'. exact Hst.
    + apply tokens1_tl. exact Hwr.
    + rewrite Htr'. exact Htr.
  - assert (Hne : qla s <> (-1)%Z) by lia.
    rewrite (read_queued tb s Hne). eexists. split; [reflexivity|]. split; [reflexivity|].
    destruct (qla s =? -1)%Z eqn:E; [apply Z.eqb_eq in E; contradiction|].
    constructor; cbn [set_la stack la lasym qla qlasym input trace]; auto.
Qed.


(* ---------- the loops of _recover ---------- *)
Lemma skip_errors_spec f : forall s stk wr, Core s stk wr ->
  match skip_errors tb f s with
  | Continue s1 => exists d wr1, wr = d ++ wr1 /\ Core s1 stk wr1 /\ qla s1 = (-1)%Z
  | Fuel => True
  | _ => False
  end.
Proof.
  induction f as [|f IH]; intros s stk wr HC; cbn [skip_errors]; auto.
  destruct (la s =? ERROR)%Z eqn:E.
  - destruct (core_read _ _ _ HC) as (s' & Hrd & Hq' & HC'). rewrite Hrd.
    specialize (IH _ _ _ HC').
    destruct (skip_errors tb f s') as [s1| | | |]; auto.
    destruct IH as (d & wr1 & Hwr & HC1 & Hq1).
    destruct (qla s =? -1)%Z.
    + destruct (tl_split wr) as (d0 & Hd0). exists (d0 ++ d), wr1.
      rewrite <- app_assoc, <- Hwr. auto.
    + exists d, wr1. auto.
  - exists [], wr. split; [reflexivity|]. split; [exact HC|].
    destruct (C_regs _ _ _ HC) as [(Hq & _)|(_ & Hla & _)]; auto.
    rewrite Hla in E. discriminate.
Qed.

Lemma recover_outer_spec f : forall e s stk wr, tokish e -> Core s stk wr -> qla s = (-1)%Z ->
  match recover_outer tb f e s with
  | Continue s1 => exists d wr1 n, wr = d ++ wr1 /\ Core s1 (skipn n stk) wr1 /\ qla s1 <> (-1)%Z
  | Crash | Accept _ => False
  | _ => True
  end.
Proof.
  induction f as [|f IH]; intros e s stk wr He HC Hq; cbn [recover_outer]; auto.
  pose proof (recover_pops_spec g tb c nterm Hval (S f) (la s) (stack s) e
                (srel_valid _ _ (C_stack _ _ _ HC) (C_path _ _ _ HC))) as Hpops.
  destruct (recover_pops tb (S f) (stack s) (la s) e) as [st' e'|e'| |]; auto.
  - destruct Hpops as [(n & Hn & ->) Hte].
    destruct HC as [Hst Hpath Hwr Hsym Hregs Htr].
    pose proof (srel_len _ _ Hst) as Hlen.
    destruct Hregs as [(_ & Hla & Hin)|(Hq2 & _)]; [|lia].
    exists [], wr, n. split; [reflexivity|]. split.
    + constructor; cbn [set_shifts set_la set_stack stack la lasym qla qlasym input trace]; auto.
      * apply srel_skipn; auto. lia.
      * apply path_skipn. exact Hpath.
      * apply snodes_skipn. exact Htr.
    + cbn [set_shifts set_la qla]. lia.
  - destruct (la s =? EOF)%Z; auto.
    destruct (core_read _ _ _ HC) as (s' & Hrd & Hq' & HC'). rewrite Hrd.
    rewrite Hq in HC'. cbn [Z.eqb Pos.eqb] in HC'.
    specialize (IH e' _ _ _ (Hpops He) HC' Hq').
    destruct (recover_outer tb f e' s') as [s1| | | |]; auto.
    destruct IH as (d & wr1 & n & Hwr & HC1 & Hq1).
    destruct (tl_split wr) as (d0 & Hd0). exists (d0 ++ d), wr1, n.
    rewrite <- app_assoc, <- Hwr. auto.
Qed.

Lemma drop_if_stuck_spec f s stk wr : Core s stk wr -> qla s = (-1)%Z ->
  match drop_if_stuck tb f s with
  | Continue s1 => exists d wr1, wr = d ++ wr1 /\ Core s1 stk wr1 /\ qla s1 = (-1)%Z
  | Fuel | Reject _ => True
  | _ => False
  end.
Proof.
  intros HC Hq. unfold drop_if_stuck.
  destruct (shifts s =? rec_shifts s)%Z.
  - destruct (la s =? EOF)%Z; auto.
    destruct (core_read _ _ _ HC) as (s' & Hrd & Hq' & HC'). rewrite Hrd.
    rewrite Hq in HC'. cbn [Z.eqb Pos.eqb] in HC'.
    pose proof (skip_errors_spec f s' stk (tl wr) HC') as Hsk.
    destruct (skip_errors tb f s') as [s1| | | |]; auto.
    destruct Hsk as (d & wr1 & Hwr & HC1 & Hq1).
    destruct (tl_split wr) as (d0 & Hd0). exists (d0 ++ d), wr1.
    rewrite <- app_assoc, <- Hwr. auto.
  - exists [], wr. auto.
Qed.

Section Word.
Variable w : list nat.
Hypothesis Hw1 : tokens1 nterm w.

Definition pend (s : pstate) : list nat := if (qla s =? -1)%Z then [] else [error_t].

Definition RInv (s : pstate) : Prop :=
  exists stk wc wr, w = wc ++ wr /\ Core s stk wr /\ err_subst wc (ytypes stk ++ pend s).

Definition Final (s : pstate) : Prop :=
  exists X t toks, start_sym g = Some X /\ wt g X t toks /\ err_subst w (map fst toks) /\
                   Forall (evented (trace s)) (nodes t).

Lemma inv_shift s stk wc wr v b :
  w = wc ++ wr -> Core s stk wr -> err_subst wc (ytypes stk ++ pend s) ->
  (0 <= v)%Z -> Z.to_nat (la s) <> eof -> Z.to_nat v < nst ->
  past_ok g c (topst stk) (Z.to_nat v) (T (Z.to_nat (la s))) = true ->
  exists s2,
    read_token tb (shift_state s v b) = Some s2 /\
    RInv s2.
Proof.
  intros Hw HC HE Hv Hne Hlt Hpast.
  remember (Z.to_nat (la s)) as t eqn:Ht.
  assert (HC1 : Core (shift_state s v b) ((Z.to_nat v, Leaf (t, 0)) :: stk) wr).
  { destruct HC as [Hst Hpath Hwr Hsym Hregs Htr].
    unfold shift_state. destruct (la s =? ERROR)%Z;
      (constructor; cbn [set_shifts set_stack stack la lasym qla qlasym input trace]; auto;
       [constructor; auto; cbn [i_state]; rewrite Z2Nat.id; lia
       |econstructor; eauto; constructor]). }
  destruct (core_read _ _ _ HC1) as (s2 & Hrd & Hq2 & HC2).
  exists s2. split; auto.
  assert (Hqs1 : qla (shift_state s v b) = qla s)
    by (unfold shift_state; destruct (la s =? ERROR)%Z; reflexivity).
  rewrite Hqs1 in HC2.
  assert (Hy : ytypes ((Z.to_nat v, Leaf (t, 0)) :: stk) = ytypes stk ++ [t]).
  { unfold ytypes. simpl. rewrite map_app. reflexivity. }
  unfold pend in HE.
  destruct (C_regs _ _ _ HC) as [(Hq & Hla & Hin)|(Hq & Hla & Hqs & Hin)].
  - rewrite Hq in HE, HC2. cbn [Z.eqb Pos.eqb] in HE, HC2.
    destruct wr as [|t0 wr'].
    + simpl in Hla. rewrite Hla in Ht. simpl in Ht. unfold eof in Hne. congruence.
    + simpl in Hla. rewrite Hla, Nat2Z.id in Ht. subst t0.
      exists ((Z.to_nat v, Leaf (t, 0)) :: stk), (wc ++ [t]), wr'. split; [|split].
      * rewrite <- app_assoc. exact Hw.
      * exact HC2.
      * unfold pend. rewrite Hq2. cbn [Z.eqb Pos.eqb]. rewrite Hy, app_nil_r in *.
        apply err_subst_app; auto. constructor. constructor.
  - assert (E : (qla s =? -1)%Z = false) by (apply Z.eqb_neq; lia).
    rewrite E in HE, HC2.
    exists ((Z.to_nat v, Leaf (t, 0)) :: stk), wc, wr. split; [|split]; auto.
    unfold pend. rewrite Hq2. cbn [Z.eqb Pos.eqb]. rewrite Hy, app_nil_r.
    rewrite Hla in Ht. subst t. exact HE.
Qed.

Lemma inv_reduce f s stk wc wr top v pr a :
  w = wc ++ wr -> Core s stk wr -> err_subst wc (ytypes stk ++ pend s) ->
  peek (stack s) 0 = Some top -> i_state top = Z.of_nat (topst stk) ->
  find (t_actions tb) (i_state top) (la s) = FFound v ->
  v <> accept_code -> (v < 0)%Z -> Z.to_nat (- v) <> 0 ->
  nth_error g (Z.to_nat (- v)) = Some pr ->
  item (topst stk) (Z.to_nat (- v)) (length (rhs pr)) a ->
  exists s' ns, pstep tb eb true discard f s = Continue s' /\ RInv s' /\
    (la s' = la s /\ lasym s' = lasym s /\ qla s' = qla s /\ qlasym s' = qlasym s /\
     input s' = input s /\ shifts s' = shifts s /\ rec_shifts s' = rec_shifts s) /\
    length (rhs pr) < length (stack s) /\
    map i_state (stack s') = ns :: skipn (length (rhs pr)) (map i_state (stack s)) /\
    exists exposed rest',
      skipn (length (rhs pr)) (map i_state (stack s)) = exposed :: rest' /\
      find (t_goto tb) exposed (Z.of_nat (lhs pr)) = FFound ns.
Proof.
  intros Hw HC HE Hpk Htop Hf Hna Hv Hp0 Hp Hitem.
  remember (Z.to_nat (- v)) as p eqn:Hpv.
  assert (Hvp : (- v)%Z = Z.of_nat p) by (subst p; rewrite Z2Nat.id; lia).
  pose proof (C_stack _ _ _ HC) as Hst. pose proof (C_path _ _ _ HC) as Hpath.
  destruct (path_pop g tb c nterm Hval _ _ _ _ _ Hpath Hitem Hp)
    as (ch & rest & us & a0 & Hpop & Hrest & Hi0 & Hwf & Hys).
  rewrite firstn_all in Hwf.
  destruct (apop_spec g tb c nterm Hval _ _ _ _ Hpop) as (Hn & Hresteq & Hlen).
  destruct (val_arrays g tb c nterm Hval _ pr Hp) as [Hrule Htc].
  rewrite <- Hvp in Hrule, Htc.
  pose proof (srel_len _ _ Hst) as Hsl.
  destruct (act_some g tb c nterm discard Hval (stack s) p pr Hp Hp0) as (res & Hact); [lia|].
  rewrite <- Hvp in Hact.
  pose proof (srel_skipn (length (rhs pr)) _ _ Hst Hn) as Hrel'. rewrite <- Hresteq in Hrel'.
  destruct (srel_top _ _ Hrel') as (top' & Hpk' & Htop').
  pose proof (path_top_lt g tb c nterm Hval _ Hrest) as Hlt'.
  destruct (val_v6 g tb c nterm Hval _ _ _ _ Hi0 Hp Hp0) as (s' & Hg).
  destruct (val_goto_of g tb c nterm Hval _ _ _ Hlt' Hg) as (Hs' & Hpast & Hgf).
  rewrite <- Htop' in Hgf.
  destruct (pstep_reduce_gen tb eb discard true f s top v _ _ _ top' (Z.of_nat s') Hpk Hf Hna Hv Htc Hrule Hact)
    as (b & s1 & Hps & H1 & H2 & H3 & H4 & H5 & H6 & H7 & H8 & H9).
  - lia.
  - rewrite Nat2Z.id. lia.
  - rewrite Nat2Z.id. exact Hpk'.
  - exact Hgf.
  - rewrite Hps. eexists. exists (Z.of_nat s'). split; [reflexivity|]. rewrite Nat2Z.id.
    split; [|split; [|split; [|split]]].
    2:{ cbn [set_stack la lasym qla qlasym input shifts rec_shifts]. repeat split; auto. }
    2:{ lia. }
    2:{ cbn [set_stack stack map i_state]. rewrite skipn_map. reflexivity. }
    2:{ rewrite skipn_map. destruct (skipn (length (rhs pr)) (stack s)) as [|t0 r]; [discriminate|].
        simpl in Hpk'. inversion Hpk'; subst t0. exists (i_state top'), (map i_state r).
        split; [reflexivity|exact Hgf]. }
    exists ((s', Node p ch) :: rest), wc, wr. split; [exact Hw|]. split.
    + destruct HC as [_ _ Hwr Hsym Hregs Htr].
      constructor; cbn [set_stack stack la lasym qla qlasym input trace]; auto.
      * constructor; auto.
      * econstructor; eauto. econstructor; eauto.
      * rewrite H2. exact Hsym.
      * rewrite H1, H3, H4, H5. exact Hregs.
      * unfold snodes. simpl. constructor.
        -- exists res. rewrite <- Hvp. exact H6.
        -- destruct (pop_nodes (evented (trace s)) _ _ _ _ Hpop Htr) as [Hn1 Hn2].
           apply Forall_app. split; eapply Forall_impl; try eassumption;
             intros q Hq; eapply evented_incl; eauto.
    + unfold pend in *. cbn [set_stack qla]. rewrite H3.
      replace (ytypes ((s', Node p ch) :: rest)) with (ytypes stk); auto.
      unfold ytypes. simpl. rewrite (proj2 (wt_yield g) _ _ _ Hwf), Hys. reflexivity.
Qed.

Lemma inv_accept s stk wc wr :
  w = wc ++ wr -> Core s stk wr -> err_subst wc (ytypes stk ++ pend s) ->
  Z.to_nat (la s) = eof -> (0 <= la s)%Z -> item (topst stk) 0 1 eof -> Final s.
Proof.
  intros Hw HC HE Hla0 Hla1 Hitem.
  destruct HC as [Hst Hpath Hwr Hsym Hregs Htr].
  destruct Hregs as [(Hq & Hla & Hin)|(Hq & Hla & Hqs & Hin)].
  - assert (wr = []) as ->.
    { destruct wr as [|t0 wr']; auto. inversion Hwr; subst. simpl in Hla. unfold eof in Hla0. lia. }
    rewrite app_nil_r in Hw. subst wc. unfold pend in HE. rewrite Hq in HE. cbn [Z.eqb Pos.eqb] in HE.
    rewrite app_nil_r in HE.
    destruct Hpath as [|s0 t stk X u Hpath Hwt Hpast Hs].
    + simpl in Hitem. apply (val_init_d0 g tb c nterm Hval) in Hitem. discriminate.
    + simpl in Hitem.
      pose proof (val_past g c _ _ _ _ _ _ Hpast Hitem) as (pr0 & a' & Hp0 & Hd & Hi0).
      destruct Hpath as [|s2 t2 stk2 X2 u2 Hpath2 Hwt2 Hpast2 Hs2].
      * exists X, t, u. repeat split; auto.
        -- destruct (val_start g tb c nterm Hval) as (pr0' & X' & Hp0' & Hr).
           unfold start_sym. rewrite Hp0' in *. inversion Hp0; subst pr0'.
           rewrite Hr in *. simpl in Hd. congruence.
        -- unfold ytypes in HE. simpl in HE. rewrite (proj1 (wt_yield g) _ _ _ Hwt) in HE. exact HE.
        -- unfold snodes in Htr. simpl in Htr. rewrite app_nil_r in Htr. exact Htr.
      * simpl in Hi0.
        pose proof (val_past g c _ _ _ _ _ _ Hpast2 Hi0) as Hne. simpl in Hne. congruence.
  - rewrite Hla in Hla0. discriminate.
Qed.

Lemma inv_recover f s stk wc wr :
  w = wc ++ wr -> Core s stk wr -> err_subst wc (ytypes stk ++ pend s) ->
  match recover tb f s with
  | Continue s' => RInv s'
  | Accept _ | Crash => False
  | _ => True
  end.
Proof.
  intros Hw HC HE. unfold recover.
  destruct (core_top _ _ _ HC) as (top & Hpk & Htop & Hlt & Hv).
  assert (Herr : exists e, match lasym s with VErr _ _ => Some (lasym s) | _ => make_error tb s end = Some e
                           /\ tokish e).
  { pose proof (C_lasym _ _ _ HC) as Hsym.
    destruct (lasym s) as [|ty id|tk ks| | |] eqn:Hl; try destruct Hsym.
    - destruct (make_error_some g tb c nterm Hval s ty id top Hl Hpk Hv) as (ks & Hk).
      rewrite Hk. eexists. split; [reflexivity|]. exact I.
    - eexists. split; [reflexivity|]. exact I. }
  destruct Herr as (e & -> & Hte).
  pose proof (skip_errors_spec f s stk wr HC) as Hsk.
  destruct (skip_errors tb f s) as [s1| | | |]; auto.
  destruct Hsk as (d1 & wr1 & Hwr & HC1 & Hq1).
  pose proof (drop_if_stuck_spec f s1 stk wr1 HC1 Hq1) as Hds.
  destruct (drop_if_stuck tb f s1) as [s1'| | | |]; auto.
  destruct Hds as (d1' & wr1' & Hwr' & HC1' & Hq1').
  pose proof (recover_outer_spec f e s1' stk wr1' Hte HC1' Hq1') as Hro.
  destruct (recover_outer tb f e s1') as [s2| | | |]; auto.
  destruct Hro as (d2 & wr2 & n & Hwr1 & HC2 & Hq2).
  exists (skipn n stk), (wc ++ (d1 ++ d1') ++ d2), wr2. split; [|split]; auto.
  - rewrite Hw, Hwr, Hwr', Hwr1, <- !app_assoc. reflexivity.
  - unfold pend at 1.
    destruct (qla s2 =? -1)%Z eqn:E; [apply Z.eqb_eq in E; contradiction|].
    destruct (syield_skipn n stk) as (y & Hy).
    unfold ytypes in HE. rewrite Hy, map_app, <- app_assoc in HE.
    apply err_subst_split in HE as (wa & wb & -> & Ha & Hb).
    rewrite <- app_assoc. apply err_subst_app; auto. apply err_subst_all.
Qed.

Lemma pstep_inv f s : RInv s ->
  match pstep tb eb true discard f s with
  | Continue s' => RInv s'
  | Accept s' => s' = s /\ Final s
  | Crash => False
  | _ => True
  end.
Proof.
  intros (stk & wc & wr & Hw & HC & HE).
  destruct (core_top _ _ _ HC) as (top & Hpk & Htop & Hlt & Hv).
  pose proof (val_action_find g tb c nterm Hval (topst stk) (la s) Hlt) as Hfind.
  rewrite <- Htop in Hfind.
  destruct (find (t_actions tb) (i_state top) (la s)) as [v| |] eqn:Hf.
  - destruct Hfind as [Hrange Hjust]. unfold decode_action in Hjust.
    destruct (v =? accept_code)%Z eqn:E.
    + apply Z.eqb_eq in E. subst v. rewrite (pstep_accept_gen tb eb discard true f s top Hpk Hf).
      split; auto. inversion Hjust as [| |He Hi]. eapply inv_accept; eauto. lia.
    + apply Z.eqb_neq in E. rewrite Z.geb_leb in Hjust.
      destruct (0 <=? v)%Z eqn:E2.
      * apply Z.leb_le in E2. inversion Hjust as [s' Hne Hs' Hpast| |]; subst.
        destruct (pstep_shift_gen tb eb discard true f s top v Hpk Hf E E2 (C_lasym _ _ _ HC)) as (b & Hps).
        rewrite Hps.
        destruct (inv_shift s stk wc wr v b Hw HC HE E2 Hne Hs' Hpast) as (s2 & Hrd & HI).
        rewrite Hrd. exact HI.
      * apply Z.leb_gt in E2. inversion Hjust as [|p pr Hp0 Hp Hitem|]; subst.
        destruct (inv_reduce f s stk wc wr top v pr _ Hw HC HE Hpk Htop Hf E E2 Hp0 Hp Hitem)
          as (s' & ns & Hps & HI & _).
        rewrite Hps. exact HI.
  - unfold pstep. rewrite Hpk, Hf. pose proof (inv_recover f s stk wc wr Hw HC HE) as Hr.
    destruct (recover tb f s); auto. destruct Hr.
  - destruct Hfind.
Qed.

Lemma ploop_inv fuel : forall s, RInv s ->
  ploop tb eb true discard fuel s <> Crash /\
  (forall s', ploop tb eb true discard fuel s = Accept s' -> Final s').
Proof.
  induction fuel as [|f IH]; intros s HI.
  - simpl. split; [discriminate|]. intros; discriminate.
  - rewrite ploop_unfold. pose proof (pstep_inv (S f) s HI) as Hs.
    destruct (pstep tb eb true discard (S f) s) as [s1|s1|s1| |].
    + apply IH. exact Hs.
    + destruct Hs as [-> HF]. split; [discriminate|]. intros s' H. inversion H; subst. exact HF.
    + split; [discriminate|]. intros; discriminate.
    + destruct Hs.
    + split; [discriminate|]. intros; discriminate.
Qed.

Lemma init_inv : exists s0, read_token tb (init_state (zs w)) = Some s0 /\ RInv s0.
Proof.
  set (b := {| i_state := 0; i_sym := VNil; i_bounds := no_bounds |}).
  destruct (read_real g tb c nterm Hval (init_state (zs w)) w b) as
    (s0 & Hrd & Hst & Htr & Hq & _ & Hsym & Hla & Hin); try reflexivity.
  { exists 0. split; [reflexivity|]. apply (val_nstates g tb c nterm Hval). }
  exists s0. split; auto. exists [], [], w. split; [reflexivity|]. split.
  - constructor; auto.
    + rewrite Hst. simpl. constructor. reflexivity.
    + constructor.
    + unfold snodes. simpl. constructor.
  - unfold pend. rewrite Hq. simpl. constructor.
Qed.

Lemma parse_inv fuel :
  parse tb eb true discard fuel (zs w) <> Crash /\
  (forall s, parse tb eb true discard fuel (zs w) = Accept s -> Final s).
Proof.
  destruct init_inv as (s0 & Hrd & HI). unfold parse. rewrite Hrd. apply ploop_inv. exact HI.
Qed.

End Word.

(* R1 *)
Theorem parse_never_crashes : forall w fuel, tokens1 nterm w ->
  parse tb eb true discard fuel (zs w) <> Crash.
Proof. intros w fuel Hw. apply (proj1 (parse_inv w Hw fuel)). Qed.

(* R2 *)
Theorem accept_is_sentence_with_errors : forall w fuel s, tokens1 nterm w ->
  parse tb eb true discard fuel (zs w) = Accept s ->
  exists u X t toks, err_subst w u /\ start_sym g = Some X /\ wt g X t toks /\ map fst toks = u.
Proof.
  intros w fuel s Hw H.
  destruct (proj2 (parse_inv w Hw fuel) s H) as (X & t & toks & Hs & Ht & He & _).
  exists (map fst toks), X, t, toks. auto.
Qed.

Lemma map_fst_tokens_from l : forall k, map fst (tokens_from k l) = l.
Proof.
  unfold tokens_from. induction l as [|a l IH]; intros k; simpl; auto. rewrite IH. reflexivity.
Qed.

Lemma ordinary_tokens1 w : ordinary nterm w -> tokens1 nterm w.
Proof. apply Forall_impl. intros a Ha. lia. Qed.

(* R3.  The hypothesis on the start symbol is necessary: for the grammar
   S' -> @error the empty input is accepted after a recovery without any
   reduction, and [] is not a sentence. *)
Theorem nonsentence_reports : start_sym g <> Some (T error_t) ->
  forall w fuel s, ordinary nterm w ->
  parse tb eb true discard fuel (zs w) = Accept s ->
  (exists p pr res, In (ERed (Z.of_nat p) res) (trace s) /\ nth_error g p = Some pr /\
                    In (T error_t) (rhs pr)) \/
  sentence g (tokens_of w).
Proof.
  intros Hstart w fuel s Hord H.
  destruct (proj2 (parse_inv w (ordinary_tokens1 w Hord) fuel) s H) as (X & t & toks & Hs & Ht & He & Hev).
  destruct (in_dec Nat.eq_dec error_t (map fst toks)) as [Hin|Hnin].
  - destruct (proj1 (err_leaf_node g) _ _ _ Ht Hin) as [->|(p & pr & Hp & Hpr & Hr)]; [congruence|].
    left. rewrite Forall_forall in Hev. destruct (Hev p Hp) as (res & Hres).
    exists p, pr, res. auto.
  - right. apply err_subst_no_err in He; auto.
    destruct (proj1 (wt_relabel g) _ _ _ Ht (tokens_of w)) as (t' & Ht').
    + change (tokens_of w) with (tokens_from 0 w). rewrite (map_fst_tokens_from w 0). symmetry. exact He.
    + exists X, t'. auto.
Qed.

End Sound.

Print Assumptions parse_never_crashes.
Print Assumptions accept_is_sentence_with_errors.
Print Assumptions nonsentence_reports.
