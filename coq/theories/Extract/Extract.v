(* Extraction of the executable models to OCaml.  ExtrOcamlBasic only: bool,
   option, list, prod, unit, sumbool map to OCaml's; nat, positive, Z stay
   inductive.  No Extract Constant. *)
From Coq Require Extraction.
From Coq Require Import ExtrOcamlBasic.
From Lox Require Import Rang3.RangeModel Rang3.ClassModel.
From Lox Require Import Parse.Grammar Parse.Tables Parse.ParseRuntime Parse.Validator Parse.Actions Parse.TermCheck.
From Lox Require Import Lex.LexRuntime Lex.LexAuto Lex.NfaRef Lex.LexEquiv Lex.RegexRef.
From Lox Require Import Gen.TableEnc Gen.Numbering Gen.FirstModel Gen.ResolveModel Gen.LALRRef Gen.PrecClimb Gen.Binding Gen.Analyze Gen.NormalizeModel.
From Lox Require Import Lex.Utf8Model Gen.EscapeModel Gen.EscapeRune.

(* stable names for functions whose short names clash between modules *)
Definition x_range_normalize := RangeModel.normalize.
Definition x_table_build := TableEnc.build.
Definition x_table_build_u := TableEnc.build_u.
Definition x_sugar_normalize := NormalizeModel.normalize_flat.
Definition x_sugar_wf := NormalizeModel.wf_sgrammarb.
Definition x_utf8_decode_all := Utf8Model.decode_all.
Definition x_utf8_encode_rune := Utf8Model.encode_rune.

Extraction Language OCaml.
Extraction "loxmodel_ext.ml"
  flatten_log flatten subtract x_range_normalize replay heap_of
  get_ranges class_items unescape
  find parse validate eval reductions action_of goto_of
  check_arrays check_kinds check_sprime check_nullable_first check_init check_items check_rows
  push_rune lex_tables g_lex table_auto nfa_auto nfa_start
  decode_row modes_wf mode_progress_ok mode_terminal_last mode_nstates
  equiv_check closed
  re_auto re_start st_eqb wf_rulesb
  x_table_build x_table_build_u encode_lex_row row_key varint
  terminals token_to_string index_of
  first_go first_go_seq first_spec nullable_spec first_seq_spec
  resolve cell_conflict resolved_cell lalr_ref has_conflicts cell_at find_state_by_core
  climb climb_out_of_fuel well_grouped uniformb
  assign_actions wf_input shape_okb rule_generated rule_from_method cast param_value
  analyze well_formed well_formed_weak
  term_ok term_fuel local_run
  x_sugar_normalize x_sugar_wf x_utf8_decode_all x_utf8_encode_rune
  is_literal_body is_literal_token is_class_char unescape_bytes fix_literal class_char_rune literal_runes.
