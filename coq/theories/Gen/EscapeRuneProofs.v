(* C15: what the code point of a class item / the runes of a literal are, for
   the escapes and for plain characters.  Over Gen/EscapeRune.v. *)
From Coq Require Import List ZArith Bool Lia.
From Lox Require Import Rang3.ClassModel Lex.Utf8Model Lex.Utf8Proofs Gen.EscapeModel Gen.EscapeProofs Gen.EscapeRune.
Import ListNotations.
Local Open Scope Z_scope.

(* ---------- hex_to_rune computes hex_value ---------- *)

Lemma hex_fold : forall ds rest acc, forallb is_hex ds = true ->
  hex_to_rune (length ds) (ds ++ rest) acc =
  Some (fold_left (fun a d => a * 16 + hex_digit d) ds acc, rest).
Proof.
  induction ds as [|d ds IH]; intros rest acc H.
  - reflexivity.
  - cbn [forallb] in H. apply andb_true_iff in H. destruct H as [Hd Hds].
    cbn [length app hex_to_rune fold_left].
    unfold is_hex in Hd. unfold hex_digit at 2.
    destruct (hex_val d) as [v|]; [|discriminate].
    apply IH; exact Hds.
Qed.

Lemma hex_fold_nil : forall ds, forallb is_hex ds = true ->
  hex_to_rune (length ds) ds 0 = Some (hex_value ds, []).
Proof.
  intros ds H. rewrite <- (app_nil_r ds) at 2. rewrite hex_fold by exact H. reflexivity.
Qed.

Lemma loop_u : forall f r acc,
  unescape_loop (S f) (92 :: 117 :: r) acc =
  match hex_to_rune 4 r 0 with
  | Some (v, r') => unescape_loop f r' ((true, v) :: acc)
  | None => UPanic
  end.
Proof. intros; reflexivity. Qed.

Lemma loop_U : forall f r acc,
  unescape_loop (S f) (92 :: 85 :: r) acc =
  match hex_to_rune 8 r 0 with
  | Some (v, r') => unescape_loop f r' ((true, v) :: acc)
  | None => UPanic
  end.
Proof. intros; reflexivity. Qed.

Lemma loop_nil : forall f acc, unescape_loop (S f) [] acc = UOk (rev acc).
Proof. intros; reflexivity. Qed.

Lemma to_rune_id : forall v, v <= 1114111 -> to_rune v = v.
Proof.
  intros v H. unfold to_rune. destruct (v <? 2147483648) eqn:E; [reflexivity|].
  apply Z.ltb_ge in E. lia.
Qed.

Lemma rune_item_denotes : forall tok v,
  unescape tok = UOk [(true, v)] ->
  0 <= v <= 1114111 -> ~ (55296 <= v <= 57343) ->
  class_char_rune tok = Some v.
Proof.
  intros tok v E Hr Hs. unfold class_char_rune, unescape_bytes. rewrite E.
  unfold out_bytes. cbn [flat_map fst snd].
  rewrite to_rune_id by lia.
  rewrite decode_encode by assumption. reflexivity.
Qed.

(* 1 *)
Lemma escape_u_denotes : forall ds, length ds = 4%nat -> forallb is_hex ds = true ->
  0 <= hex_value ds <= 1114111 -> ~ (55296 <= hex_value ds <= 57343) ->
  class_char_rune (92 :: 117 :: ds) = Some (hex_value ds).
Proof.
  intros ds Hl Hh Hr Hs. apply rune_item_denotes; [|assumption|assumption].
  unfold unescape. cbn [length]. rewrite loop_u.
  rewrite <- Hl at 1. rewrite hex_fold_nil by exact Hh.
  rewrite loop_nil. reflexivity.
Qed.

(* 2 *)
Lemma escape_U_denotes : forall ds, length ds = 8%nat -> forallb is_hex ds = true ->
  0 <= hex_value ds <= 1114111 -> ~ (55296 <= hex_value ds <= 57343) ->
  class_char_rune (92 :: 85 :: ds) = Some (hex_value ds).
Proof.
  intros ds Hl Hh Hr Hs. apply rune_item_denotes; [|assumption|assumption].
  unfold unescape. cbn [length]. rewrite loop_U.
  rewrite <- Hl at 1. rewrite hex_fold_nil by exact Hh.
  rewrite loop_nil. reflexivity.
Qed.

(* 3 *)
Lemma escape_simple_denotes : class_char_rune [92; 110] = Some 10 /\ class_char_rune [92; 114] = Some 13 /\ class_char_rune [92; 116] = Some 9 /\ class_char_rune [92; 92] = Some 92 /\ class_char_rune [92; 45] = Some 45 /\ class_char_rune [92] = Some 92.
Proof. vm_compute. repeat split. Qed.

(* ---------- plain characters ---------- *)

Lemma encode_rune_bytes : forall r, 0 <= r <= 1114111 -> ~ (55296 <= r <= 57343) -> r <> 92 ->
  forall b, In b (encode_rune r) -> b <> 92 /\ 0 <= b < 256.
Proof.
  intros r Hr Hs Hn b Hb. revert Hb.
  unfold encode_rune, enc3, rune1Max, rune2Max, rune3Max, MaxRune,
    surrogateMin, surrogateMax, RuneError.
  destruct ((0 <=? r) && (r <=? 127)) eqn:C1.
  { cbn [In]. intros [<-|[]]. lia. }
  destruct ((0 <=? r) && (r <=? 2047)) eqn:C2.
  { cbn [In]. intros [<-|[<-|[]]].
    - assert (0 <= r / 64 < 32) by (split; [apply Z.div_pos; lia|apply Z.div_lt_upper_bound; lia]).
      lia.
    - pose proof (Z.mod_pos_bound r 64). lia. }
  destruct ((r <? 0) || (1114111 <? r) || ((55296 <=? r) && (r <=? 57343))) eqn:C3.
  { exfalso. lia. }
  destruct (r <=? 65535) eqn:C4.
  { cbn [In]. intros [<-|[<-|[<-|[]]]].
    - assert (0 <= r / 4096 < 16) by (split; [apply Z.div_pos; lia|apply Z.div_lt_upper_bound; lia]).
      lia.
    - pose proof (Z.mod_pos_bound (r / 64) 64). lia.
    - pose proof (Z.mod_pos_bound r 64). lia. }
  cbn [In]. intros [<-|[<-|[<-|[<-|[]]]]].
  - assert (0 <= r / 262144 < 5) by (split; [apply Z.div_pos; lia|apply Z.div_lt_upper_bound; lia]).
    lia.
  - pose proof (Z.mod_pos_bound (r / 4096) 64). lia.
  - pose proof (Z.mod_pos_bound (r / 64) 64). lia.
  - pose proof (Z.mod_pos_bound r 64). lia.
Qed.

Lemma out_bytes_plain : forall l,
  out_bytes (map (fun b => (false, b)) l) = map (fun b => b mod 256) l.
Proof.
  induction l as [|b l IH]; [reflexivity|].
  unfold out_bytes in *. cbn [map flat_map fst snd app]. rewrite IH. reflexivity.
Qed.

Lemma unescape_bytes_plain : forall l,
  (forall b, In b l -> b <> 92 /\ 0 <= b < 256) ->
  unescape_bytes l = Some l.
Proof.
  intros l H. unfold unescape_bytes.
  rewrite unescape_plain_identity by (intros b Hb; apply H; exact Hb).
  rewrite out_bytes_plain. f_equal.
  rewrite <- (map_id l) at 2. apply map_ext_in.
  intros b Hb. apply Z.mod_small. apply H; exact Hb.
Qed.

(* 4 *)
Lemma plain_char_denotes : forall r, 0 <= r <= 1114111 -> ~ (55296 <= r <= 57343) -> r <> 92 ->
  class_char_rune (encode_rune r) = Some r.
Proof.
  intros r Hr Hs Hn. unfold class_char_rune.
  rewrite unescape_bytes_plain by (apply encode_rune_bytes; assumption).
  rewrite <- (app_nil_r (encode_rune r)).
  rewrite decode_encode by assumption. reflexivity.
Qed.

(* 5 *)
Lemma literal_runes_plain : forall rs, Forall (fun r => (0 <= r <= 1114111 /\ ~ (55296 <= r <= 57343)) /\ r <> 92) rs ->
  literal_runes (encode_all rs) = Some rs.
Proof.
  intros rs H. unfold literal_runes.
  rewrite unescape_bytes_plain.
  - rewrite decode_all_encode_all.
    + rewrite map_map. cbn [fst]. rewrite map_id. reflexivity.
    + eapply Forall_impl; [|exact H]. intros a Ha. exact (proj1 Ha).
  - intros b Hb. unfold encode_all in Hb. apply in_flat_map in Hb.
    destruct Hb as (r & Hr & Hb). rewrite Forall_forall in H.
    destruct (H r Hr) as [[H1 H2] H3].
    eapply encode_rune_bytes; eassumption.
Qed.

(* 6: the range / surrogate hypotheses of 1-2 are needed; \xff is a byte *)
Lemma escape_oddities : class_char_rune [92; 120; 102; 102] = Some 65533 /\ class_char_rune [92; 117; 100; 56; 48; 48] = Some 65533 /\ class_char_rune [92; 85; 48; 48; 49; 49; 48; 48; 48; 48] = Some 65533 /\ class_char_rune [92; 85; 70; 70; 70; 70; 70; 70; 70; 70] = Some 65533.
Proof. vm_compute. repeat split. Qed.

Print Assumptions escape_u_denotes.
Print Assumptions escape_U_denotes.
Print Assumptions plain_char_denotes.
Print Assumptions literal_runes_plain.
