(* Theorems about the precedence-climbing reference (PrecClimb.v), property C05.

   PART A
     fuel_adequate        the fuel of [climb] never runs out (C5)
     climb_yield          C1
     climb_well_grouped   C2
     climb_complete       C4
     well_grouped_unique  C3 (from C4)
     climb_characterised  climb toks = Some t  <->  yield t = toks /\ well grouped
     climb_total          C7: the yield of ANY tree is accepted (existence)
   PART B
     the local rule of the LR conflict resolution against the documented one. *)
From Coq Require Import List Arith Lia Bool.
From Lox Require Import Gen.PrecClimb Gen.ResolveModel Gen.ResolveProofs.
Import ListNotations.

(* ================================================================== *)
(* PART A *)

Section Climb.
Variable tbl : list opinfo.

(* ---------- unfolding equations of the fuelled functions ---------- *)

Lemma parse_expr_0 min toks : parse_expr tbl 0 min toks = PFuel.
Proof. reflexivity. Qed.

Lemma parse_loop_0 min l toks : parse_loop tbl 0 min l toks = PFuel.
Proof. reflexivity. Qed.

Lemma parse_expr_S f min toks :
  parse_expr tbl (S f) min toks =
  match toks with
  | EAtom a :: rest => parse_loop tbl f min (TAtom a) rest
  | ELParen :: rest =>
      match parse_expr tbl f 0 rest with
      | POk u rest1 =>
          match rest1 with
          | ERParen :: rest2 => parse_loop tbl f min (TParen u) rest2
          | _ => PErr
          end
      | PErr => PErr
      | PFuel => PFuel
      end
  | _ => PErr
  end.
Proof. reflexivity. Qed.

Lemma parse_loop_S f min l toks :
  parse_loop tbl (S f) min l toks =
  match toks with
  | EOp op :: rest =>
      match nth_error tbl op with
      | None => PErr
      | Some oi =>
          if min <=? o_level oi then
            match parse_expr tbl f (rmin oi) rest with
            | POk r rest1 => parse_loop tbl f min (TBin op l r) rest1
            | PErr => PErr
            | PFuel => PFuel
            end
          else POk l toks
      end
  | _ => POk l toks
  end.
Proof. reflexivity. Qed.

(* ---------- relational (fuel-free) specification ---------- *)

(* the operator loop stops in front of [toks] *)
Definition stop (min : nat) (toks : list etok) : Prop :=
  match toks with
  | EOp op :: _ => exists oi, nth_error tbl op = Some oi /\ o_level oi < min
  | _ => True
  end.

Inductive pexpr : nat -> list etok -> etree -> list etok -> Prop :=
| PE_atom min a rest t rest' :
    ploop min (TAtom a) rest t rest' ->
    pexpr min (EAtom a :: rest) t rest'
| PE_paren min rest u rest1 t rest' :
    pexpr 0 rest u (ERParen :: rest1) ->
    ploop min (TParen u) rest1 t rest' ->
    pexpr min (ELParen :: rest) t rest'
with ploop : nat -> etree -> list etok -> etree -> list etok -> Prop :=
| PL_stop min l toks :
    stop min toks ->
    ploop min l toks l toks
| PL_op min l op oi rest r rest1 t rest' :
    nth_error tbl op = Some oi ->
    min <= o_level oi ->
    pexpr (rmin oi) rest r rest1 ->
    ploop min (TBin op l r) rest1 t rest' ->
    ploop min l (EOp op :: rest) t rest'.

Scheme pexpr_mind := Minimality for pexpr Sort Prop
with ploop_mind := Minimality for ploop Sort Prop.
Combined Scheme pparse_mind from pexpr_mind, ploop_mind.

Lemma stop_mono m m' toks : stop m toks -> m <= m' -> stop m' toks.
Proof.
  intros Hs Hle. destruct toks as [|k toks]; [exact I|].
  destruct k as [a|op| |]; try exact I.
  destruct Hs as (oi & Hn & Hlt). exists oi. split; [exact Hn | lia].
Qed.

(* ---------- function -> relation ---------- *)

Lemma fun_sound f :
  (forall min toks t rest,
      parse_expr tbl f min toks = POk t rest -> pexpr min toks t rest) /\
  (forall min l toks t rest,
      parse_loop tbl f min l toks = POk t rest -> ploop min l toks t rest).
Proof.
  induction f as [|f [IHe IHl]].
  - split; intros; discriminate.
  - split.
    + intros min toks t rest H. rewrite parse_expr_S in H.
      destruct toks as [|k toks]; [discriminate|].
      destruct k as [a|op| |]; try discriminate.
      * apply PE_atom. now apply IHl.
      * destruct (parse_expr tbl f 0 toks) as [u rest1| |] eqn:Hu; try discriminate.
        destruct rest1 as [|k1 rest2]; [discriminate|].
        destruct k1 as [a1|op1| |]; try discriminate.
        eapply PE_paren; [apply IHe; exact Hu | now apply IHl].
    + intros min l toks t rest H. rewrite parse_loop_S in H.
      destruct toks as [|k toks].
      { inversion H; subst. apply PL_stop. exact I. }
      destruct k as [a|op| |];
        try (inversion H; subst; apply PL_stop; exact I).
      destruct (nth_error tbl op) as [oi|] eqn:Hn; [|discriminate].
      destruct (min <=? o_level oi) eqn:Hle.
      * apply Nat.leb_le in Hle.
        destruct (parse_expr tbl f (rmin oi) toks) as [r rest1| |] eqn:Hr; try discriminate.
        eapply PL_op; [exact Hn | exact Hle | apply IHe; exact Hr | now apply IHl].
      * apply Nat.leb_gt in Hle. inversion H; subst.
        apply PL_stop. exists oi. split; [exact Hn | exact Hle].
Qed.

(* ---------- lengths ---------- *)

Lemma pparse_length :
  (forall min toks t rest, pexpr min toks t rest -> length rest < length toks) /\
  (forall min l toks t rest, ploop min l toks t rest -> length rest <= length toks).
Proof.
  apply pparse_mind.
  - intros min a rest t rest' _ IH. cbn [length]. lia.
  - intros min rest u rest1 t rest' _ IH1 _ IH2. cbn [length] in *. lia.
  - intros. lia.
  - intros min l op oi rest r rest1 t rest' _ _ _ IH1 _ IH2. cbn [length]. lia.
Qed.

(* ---------- relation -> function, with any fuel > length (C5) ---------- *)

Lemma fun_complete :
  (forall min toks t rest, pexpr min toks t rest ->
     forall f, length toks < f -> parse_expr tbl f min toks = POk t rest) /\
  (forall min l toks t rest, ploop min l toks t rest ->
     forall f, length toks < f -> parse_loop tbl f min l toks = POk t rest).
Proof.
  apply pparse_mind.
  - intros min a rest t rest' _ IH f Hf.
    destruct f as [|f]; [lia|]. rewrite parse_expr_S. apply IH. cbn [length] in Hf. lia.
  - intros min rest u rest1 t rest' Hu IH1 _ IH2 f Hf.
    destruct f as [|f]; [lia|]. rewrite parse_expr_S. cbn [length] in Hf.
    rewrite (IH1 f) by lia.
    apply IH2. apply (proj1 pparse_length) in Hu. cbn [length] in Hu. lia.
  - intros min l toks Hs f Hf.
    destruct f as [|f]; [lia|]. rewrite parse_loop_S.
    destruct toks as [|k toks]; [reflexivity|].
    destruct k as [a|op| |]; try reflexivity.
    destruct Hs as (oi & Hn & Hlt). rewrite Hn.
    destruct (min <=? o_level oi) eqn:Hle; [apply Nat.leb_le in Hle; lia | reflexivity].
  - intros min l op oi rest r rest1 t rest' Hn Hle Hr IH1 _ IH2 f Hf.
    destruct f as [|f]; [lia|]. rewrite parse_loop_S. cbn [length] in Hf. rewrite Hn.
    destruct (min <=? o_level oi) eqn:Hle'; [|apply Nat.leb_gt in Hle'; lia].
    rewrite (IH1 f) by lia.
    apply IH2. apply (proj1 pparse_length) in Hr. lia.
Qed.

(* C5: with fuel > length of the input the marker PFuel is never returned,
   on ANY input (well formed or not) *)
Lemma fuel_adequate_gen f :
  (forall min toks, length toks < f -> parse_expr tbl f min toks <> PFuel) /\
  (forall min l toks, length toks < f -> parse_loop tbl f min l toks <> PFuel).
Proof.
  induction f as [|f [IHe IHl]].
  - split; intros; lia.
  - split.
    + intros min toks Hf. rewrite parse_expr_S.
      destruct toks as [|k toks]; [discriminate|].
      cbn [length] in Hf.
      destruct k as [a|op| |]; try discriminate.
      * apply IHl. lia.
      * destruct (parse_expr tbl f 0 toks) as [u rest1| |] eqn:Hu.
        -- destruct rest1 as [|k1 rest2]; [discriminate|].
           destruct k1 as [a1|op1| |]; try discriminate.
           apply IHl. apply (proj1 (fun_sound f)) in Hu.
           apply (proj1 pparse_length) in Hu. cbn [length] in Hu. lia.
        -- discriminate.
        -- exfalso. apply (IHe 0 toks); [lia | exact Hu].
    + intros min l toks Hf. rewrite parse_loop_S.
      destruct toks as [|k toks]; [discriminate|].
      cbn [length] in Hf.
      destruct k as [a|op| |]; try discriminate.
      destruct (nth_error tbl op) as [oi|]; [|discriminate].
      destruct (min <=? o_level oi); [|discriminate].
      destruct (parse_expr tbl f (rmin oi) toks) as [r rest1| |] eqn:Hr.
      * apply IHl. apply (proj1 (fun_sound f)) in Hr.
        apply (proj1 pparse_length) in Hr. lia.
      * discriminate.
      * exfalso. apply (IHe (rmin oi) toks); [lia | exact Hr].
Qed.

Theorem fuel_adequate toks : climb_res tbl toks <> PFuel.
Proof. unfold climb_res. apply (proj1 (fuel_adequate_gen _)). lia. Qed.

Corollary climb_never_out_of_fuel toks : climb_out_of_fuel tbl toks = false.
Proof.
  unfold climb_out_of_fuel. pose proof (fuel_adequate toks) as H.
  destruct (climb_res tbl toks); [reflexivity | reflexivity | congruence].
Qed.

(* climb = the relation *)
Lemma climb_pexpr toks t : climb tbl toks = Some t <-> pexpr 0 toks t [].
Proof.
  unfold climb, climb_res. split.
  - intros H. destruct (parse_expr tbl (S (length toks)) 0 toks) as [t' rest| |] eqn:Hp;
      try discriminate.
    destruct rest; [|discriminate]. inversion H; subst.
    now apply (proj1 (fun_sound _)) in Hp.
  - intros H. rewrite (proj1 fun_complete _ _ _ _ H) by lia. reflexivity.
Qed.

(* a None of climb is a genuine rejection: no fuel, however large, parses the input *)
Corollary climb_none_genuine toks :
  climb tbl toks = None -> forall f t, parse_expr tbl f 0 toks <> POk t [].
Proof.
  intros Hnone f t Hp. apply (proj1 (fun_sound f)) in Hp.
  apply climb_pexpr in Hp. congruence.
Qed.

(* ---------- C1 ---------- *)

Lemma pparse_yield :
  (forall min toks t rest, pexpr min toks t rest -> toks = yield t ++ rest) /\
  (forall min l toks t rest, ploop min l toks t rest -> yield l ++ toks = yield t ++ rest).
Proof.
  apply pparse_mind.
  - intros min a rest t rest' _ IH. exact IH.
  - intros min rest u rest1 t rest' _ IH1 _ IH2.
    rewrite <- IH2. rewrite IH1. cbn [yield app]. rewrite <- app_assoc. reflexivity.
  - reflexivity.
  - intros min l op oi rest r rest1 t rest' _ _ _ IH1 _ IH2.
    rewrite <- IH2. rewrite IH1. cbn [yield]. rewrite <- app_assoc. reflexivity.
Qed.

Theorem climb_yield toks t : climb tbl toks = Some t -> yield t = toks.
Proof.
  intros H. apply climb_pexpr in H. apply (proj1 pparse_yield) in H.
  rewrite app_nil_r in H. now symmetry.
Qed.

(* ---------- table facts ---------- *)

Lemma lev_some op oi : nth_error tbl op = Some oi -> lev tbl op = o_level oi.
Proof. unfold lev. now intros ->. Qed.

Lemma rgt_some op oi : nth_error tbl op = Some oi -> rgt tbl op = o_right oi.
Proof. unfold rgt. now intros ->. Qed.

Lemma rmin_ge oi : o_level oi <= rmin oi.
Proof. unfold rmin. destruct (o_right oi); lia. Qed.

Lemma uniformb_uniform : uniformb tbl = true -> uniform tbl.
Proof.
  unfold uniformb, uniform. intros H a b oa ob Ha Hb Hlev.
  rewrite forallb_forall in H. specialize (H oa (nth_error_In _ _ Ha)).
  rewrite forallb_forall in H. specialize (H ob (nth_error_In _ _ Hb)).
  apply orb_true_iff in H. destruct H as [H | H].
  - apply negb_true_iff in H. apply Nat.eqb_neq in H. contradiction.
  - now apply eqb_prop in H.
Qed.

(* the root operator, when the tree is a bare TBin, has level >= m *)
Definition root_ge (m : nat) (t : etree) : Prop :=
  match t with TBin op _ _ => m <= lev tbl op | _ => True end.

(* the tokens after t cannot be absorbed by the right operand of t's root *)
Definition nofollow (t : etree) (toks : list etok) : Prop :=
  match t with
  | TBin op _ _ => exists oi, nth_error tbl op = Some oi /\ stop (rmin oi) toks
  | _ => True
  end.

(* ---------- C2 ---------- *)

Lemma pparse_well_grouped :
  uniform tbl ->
  (forall min toks t rest, pexpr min toks t rest ->
     well_grouped tbl t = true /\ root_ge min t /\ stop min rest) /\
  (forall min l toks t rest, ploop min l toks t rest ->
     well_grouped tbl l = true -> root_ge min l -> nofollow l toks ->
     well_grouped tbl t = true /\ root_ge min t /\ stop min rest).
Proof.
  intros Huni. apply pparse_mind.
  - intros min a rest t rest' _ IH. apply IH; [reflexivity | exact I | exact I].
  - intros min rest u rest1 t rest' _ IH1 _ IH2.
    destruct IH1 as (Hwu & _ & _). apply IH2; [exact Hwu | exact I | exact I].
  - intros min l toks Hs Hwl Hrl _. repeat split; assumption.
  - intros min l op oi rest r rest1 t rest' Hn Hle _ IH1 _ IH2 Hwl Hrl Hnf.
    destruct IH1 as (Hwr & Hrr & Hsr).
    pose proof (lev_some _ _ Hn) as Hlev. pose proof (rgt_some _ _ Hn) as Hrgt.
    apply IH2.
    + cbn [well_grouped]. rewrite Hwl, Hwr, !andb_true_r. apply andb_true_iff. split.
      * (* left operand *)
        destruct l as [a|op' l1 l2|u]; try reflexivity.
        cbn [ok_left]. cbn [nofollow] in Hnf.
        destruct Hnf as (oi' & Hn' & Hst). cbn [stop] in Hst.
        destruct Hst as (oi2 & Hn2 & Hlt). rewrite Hn in Hn2. inversion Hn2; subst oi2.
        rewrite Hlev, Hrgt, (lev_some _ _ Hn').
        unfold rmin in Hlt. destruct (o_right oi') eqn:Hr'.
        -- apply orb_true_iff. left. now apply Nat.ltb_lt.
        -- destruct (Nat.eq_dec (o_level oi') (o_level oi)) as [Heq | Hne].
           ++ apply orb_true_iff. right. apply andb_true_iff. split; [now apply Nat.eqb_eq|].
              rewrite <- (Huni _ _ _ _ Hn' Hn Heq), Hr'. reflexivity.
           ++ apply orb_true_iff. left. apply Nat.ltb_lt. lia.
      * (* right operand *)
        destruct r as [a|op' r1 r2|u]; try reflexivity.
        cbn [ok_right]. cbn [root_ge] in Hrr. rewrite Hlev, Hrgt.
        unfold rmin in Hrr. destruct (o_right oi) eqn:Hr0.
        -- destruct (Nat.eq_dec (lev tbl op') (o_level oi)) as [Heq | Hne].
           ++ apply orb_true_iff. right. rewrite Heq, Nat.eqb_refl. reflexivity.
           ++ apply orb_true_iff. left. apply Nat.ltb_lt. lia.
        -- apply orb_true_iff. left. apply Nat.ltb_lt. lia.
    + cbn [root_ge]. rewrite Hlev. exact Hle.
    + cbn [nofollow]. exists oi. split; [exact Hn | exact Hsr].
Qed.

(* C2.  The hypothesis "all operators of toks are in the table" is not needed:
   climb answers None when it meets an operator outside the table. *)
Theorem climb_well_grouped toks t :
  uniformb tbl = true -> climb tbl toks = Some t -> well_grouped tbl t = true.
Proof.
  intros Hu H. apply climb_pexpr in H.
  apply (proj1 (pparse_well_grouped (uniformb_uniform Hu))) in H. tauto.
Qed.

Lemma pparse_known :
  (forall min toks t rest, pexpr min toks t rest -> ops_known tbl t = true) /\
  (forall min l toks t rest, ploop min l toks t rest ->
     ops_known tbl l = true -> ops_known tbl t = true).
Proof.
  unfold ops_known, toks_known. apply pparse_mind.
  - intros min a rest t rest' _ IH. apply IH. reflexivity.
  - intros min rest u rest1 t rest' _ IH1 _ IH2. apply IH2.
    cbn [yield forallb]. rewrite forallb_app, IH1. reflexivity.
  - intros. assumption.
  - intros min l op oi rest r rest1 t rest' Hn _ _ IH1 _ IH2 Hl. apply IH2.
    cbn [yield]. rewrite forallb_app. cbn [forallb]. rewrite Hl, IH1.
    assert (Hlt : op < length tbl) by (apply nth_error_Some; congruence).
    apply Nat.ltb_lt in Hlt. rewrite Hlt. reflexivity.
Qed.

Theorem climb_ops_known toks t : climb tbl toks = Some t -> toks_known tbl toks = true.
Proof.
  intros H. rewrite <- (climb_yield _ _ H). apply climb_pexpr in H.
  now apply (proj1 pparse_known) in H.
Qed.

(* ---------- C4 ---------- *)

Lemma ops_known_bin op l r :
  ops_known tbl (TBin op l r) = true ->
  ops_known tbl l = true /\ (exists oi, nth_error tbl op = Some oi) /\ ops_known tbl r = true.
Proof.
  unfold ops_known, toks_known. cbn [yield]. rewrite forallb_app. cbn [forallb].
  intros H. apply andb_true_iff in H. destruct H as [Hl H].
  apply andb_true_iff in H. destruct H as [Hop Hr].
  split; [exact Hl|]. split; [|exact Hr].
  apply Nat.ltb_lt in Hop. apply nth_error_Some in Hop.
  destruct (nth_error tbl op) as [oi|]; [now exists oi | congruence].
Qed.

Lemma ops_known_paren u : ops_known tbl (TParen u) = true -> ops_known tbl u = true.
Proof.
  unfold ops_known, toks_known. cbn [yield forallb]. rewrite forallb_app.
  cbn [andb]. intros H. apply andb_true_iff in H. destruct H as [H _]. exact H.
Qed.

Lemma ok_left_cases op op' :
  (lev tbl op <? lev tbl op') || ((lev tbl op' =? lev tbl op) && negb (rgt tbl op)) = true ->
  lev tbl op < lev tbl op' \/ (lev tbl op' = lev tbl op /\ rgt tbl op = false).
Proof.
  intros H. apply orb_true_iff in H. destruct H as [H | H].
  - left. now apply Nat.ltb_lt.
  - right. apply andb_true_iff in H. destruct H as [H1 H2].
    apply Nat.eqb_eq in H1. apply negb_true_iff in H2. now split.
Qed.

Lemma ok_right_cases op op' :
  (lev tbl op <? lev tbl op') || ((lev tbl op' =? lev tbl op) && rgt tbl op) = true ->
  lev tbl op < lev tbl op' \/ (lev tbl op' = lev tbl op /\ rgt tbl op = true).
Proof.
  intros H. apply orb_true_iff in H. destruct H as [H | H].
  - left. now apply Nat.ltb_lt.
  - right. apply andb_true_iff in H. destruct H as [H1 H2].
    apply Nat.eqb_eq in H1. now split.
Qed.

(* the parser, run on the yield of a well-grouped tree t followed by tokens
   that cannot extend t, arrives in its loop with t as the left operand *)
Lemma climb_follows_tree :
  uniform tbl ->
  forall t, well_grouped tbl t = true -> ops_known tbl t = true ->
  forall min rest t' rest',
    root_ge min t -> nofollow t rest ->
    ploop min t rest t' rest' ->
    pexpr min (yield t ++ rest) t' rest'.
Proof.
  intros Huni t. induction t as [a | op l IHl r IHr | u IHu];
    intros Hwg Hk min rest t' rest' Hrg Hnf Hloop.
  - cbn [yield app]. now apply PE_atom.
  - cbn [well_grouped] in Hwg.
    apply andb_true_iff in Hwg. destruct Hwg as [Hwg Hwr].
    apply andb_true_iff in Hwg. destruct Hwg as [Hwg Hwl].
    apply andb_true_iff in Hwg. destruct Hwg as [Hokl Hokr].
    apply ops_known_bin in Hk. destruct Hk as (Hkl & (oi & Hn) & Hkr).
    pose proof (lev_some _ _ Hn) as Hlev. pose proof (rgt_some _ _ Hn) as Hrgt.
    cbn [root_ge] in Hrg. cbn [nofollow] in Hnf.
    destruct Hnf as (oi0 & Hn0 & Hstop). rewrite Hn in Hn0. inversion Hn0; subst oi0.
    cbn [yield]. rewrite <- app_assoc. cbn [app].
    apply IHl; [exact Hwl | exact Hkl | | |].
    + (* root of l *)
      destruct l as [a|op' l1 l2|u]; try exact I.
      cbn [root_ge]. cbn [ok_left] in Hokl. apply ok_left_cases in Hokl. lia.
    + (* the operator op cannot be absorbed by l *)
      destruct l as [a|op' l1 l2|u]; try exact I.
      cbn [nofollow]. apply ops_known_bin in Hkl. destruct Hkl as (_ & (oi' & Hn') & _).
      exists oi'. split; [exact Hn'|]. cbn [stop]. exists oi. split; [exact Hn|].
      cbn [ok_left] in Hokl. apply ok_left_cases in Hokl.
      rewrite (lev_some _ _ Hn'), Hlev, Hrgt in Hokl.
      destruct Hokl as [Hlt | [Heq Hleft]].
      * pose proof (rmin_ge oi'). lia.
      * unfold rmin. rewrite (Huni _ _ _ _ Hn' Hn Heq), Hleft. lia.
    + (* the loop consumes op, parses r, and continues with TBin op l r *)
      eapply PL_op; [exact Hn | lia | | exact Hloop].
      apply IHr; [exact Hwr | exact Hkr | | |].
      * destruct r as [a|op' r1 r2|u]; try exact I.
        cbn [root_ge]. cbn [ok_right] in Hokr. apply ok_right_cases in Hokr.
        rewrite Hlev, Hrgt in Hokr. unfold rmin.
        destruct Hokr as [Hlt | [Heq Hright]]; [destruct (o_right oi); lia|].
        rewrite Hright. lia.
      * destruct r as [a|op' r1 r2|u]; try exact I.
        cbn [nofollow]. apply ops_known_bin in Hkr. destruct Hkr as (_ & (oi' & Hn') & _).
        exists oi'. split; [exact Hn'|].
        apply (stop_mono (rmin oi)); [exact Hstop|].
        cbn [ok_right] in Hokr. apply ok_right_cases in Hokr.
        rewrite (lev_some _ _ Hn'), Hlev, Hrgt in Hokr.
        pose proof (rmin_ge oi') as Hge. unfold rmin at 1.
        destruct Hokr as [Hlt | [Heq Hright]]; [destruct (o_right oi); lia|].
        rewrite Hright. lia.
      * apply PL_stop. exact Hstop.
  - cbn [well_grouped] in Hwg. apply ops_known_paren in Hk.
    cbn [yield app]. rewrite <- app_assoc. cbn [app].
    eapply PE_paren; [|exact Hloop].
    apply IHu; [exact Hwg | exact Hk | | |].
    + destruct u; [exact I | cbn [root_ge]; lia | exact I].
    + destruct u as [a|op' u1 u2|u']; try exact I.
      cbn [nofollow]. apply ops_known_bin in Hk. destruct Hk as (_ & (oi' & Hn') & _).
      exists oi'. split; [exact Hn' | exact I].
    + apply PL_stop. exact I.
Qed.

(* C4 (no fuel side condition: C5 is inside) *)
Theorem climb_complete t :
  uniform tbl -> well_grouped tbl t = true -> ops_known tbl t = true ->
  climb tbl (yield t) = Some t.
Proof.
  intros Huni Hwg Hk. apply climb_pexpr.
  rewrite <- (app_nil_r (yield t)).
  apply climb_follows_tree; try assumption.
  - destruct t; [exact I | cbn [root_ge]; lia | exact I].
  - destruct t as [a|op l r|u]; try exact I.
    cbn [nofollow]. apply ops_known_bin in Hk. destruct Hk as (_ & (oi & Hn) & _).
    exists oi. split; [exact Hn | exact I].
  - apply PL_stop. exact I.
Qed.

(* C3: one well-grouped tree per token sequence.  [ops_known] is required of
   one tree only (the other has the same tokens); without it the default
   level 0 / left of an operator outside the table would have to be covered
   by [uniform]. *)
Theorem well_grouped_unique t1 t2 :
  uniform tbl -> ops_known tbl t1 = true ->
  well_grouped tbl t1 = true -> well_grouped tbl t2 = true ->
  yield t1 = yield t2 -> t1 = t2.
Proof.
  intros Huni Hk1 Hw1 Hw2 Hy.
  assert (Hk2 : ops_known tbl t2 = true) by (unfold ops_known in *; now rewrite <- Hy).
  pose proof (climb_complete t1 Huni Hw1 Hk1) as H1.
  pose proof (climb_complete t2 Huni Hw2 Hk2) as H2.
  rewrite Hy in H1. congruence.
Qed.

(* C1 + C2 + C4: climb computes THE well-grouped tree of the token sequence *)
Theorem climb_characterised toks t :
  uniformb tbl = true ->
  (climb tbl toks = Some t <->
   yield t = toks /\ well_grouped tbl t = true /\ toks_known tbl toks = true).
Proof.
  intros Hu. split.
  - intros H. split; [now apply climb_yield|].
    split; [now apply (climb_well_grouped toks) | now apply (climb_ops_known toks t)].
  - intros (Hy & Hwg & Hk). subst toks.
    apply climb_complete; [now apply uniformb_uniform | exact Hwg | exact Hk].
Qed.

(* ---------- C7: climb accepts every syntactically valid input ---------- *)

(* The token sequences of the grammar are the yields of ARBITRARY trees; climb
   accepts each of them, so a None of the reference is always a syntax error
   (or an operator outside the table), never a grouping it cannot express. *)

Lemma pparse_stop :
  (forall min toks t rest, pexpr min toks t rest -> stop min rest) /\
  (forall min l toks t rest, ploop min l toks t rest -> stop min rest).
Proof.
  apply pparse_mind.
  - intros min a rest t rest' _ IH. exact IH.
  - intros min rest u rest1 t rest' _ _ _ IH2. exact IH2.
  - intros min l toks Hs. exact Hs.
  - intros min l op oi rest r rest1 t rest' _ _ _ _ _ IH2. exact IH2.
Qed.

Definition nonop (fin : list etok) : Prop :=
  match fin with EOp _ :: _ => False | _ => True end.

Lemma nonop_stop min fin : nonop fin -> stop min fin.
Proof. destruct fin as [|k fin]; [easy|]. destruct k; easy. Qed.

(* X = (op tree)* fin *)
Inductive tailp (fin : list etok) : list etok -> Prop :=
| T_fin : tailp fin fin
| T_op op oi q X :
    nth_error tbl op = Some oi -> ops_known tbl q = true -> tailp fin X ->
    tailp fin (EOp op :: yield q ++ X).

Lemma tailp_stop0 fin X : tailp fin X -> stop 0 X -> X = fin.
Proof.
  intros Ht Hs. destruct Ht as [|op oi q X Hn _ _]; [reflexivity|].
  cbn [stop] in Hs. destruct Hs as (oi' & _ & Hlt). lia.
Qed.

Lemma yield_length t : 1 <= length (yield t).
Proof.
  destruct t; cbn [yield length]; try rewrite app_length; cbn [length]; lia.
Qed.

Definition total_expr (n : nat) : Prop :=
  forall t fin X min, nonop fin -> length (yield t ++ X) <= n ->
    ops_known tbl t = true -> tailp fin X ->
    exists t' rest', pexpr min (yield t ++ X) t' rest' /\ tailp fin rest'.

Definition total_loop (n : nat) : Prop :=
  forall fin X min l, nonop fin -> length X <= n -> tailp fin X ->
    exists t' rest', ploop min l X t' rest' /\ tailp fin rest'.

Lemma total_loop_step n : (forall m, m <= n -> total_expr m /\ total_loop m) -> total_loop (S n).
Proof.
  intros IH fin X min l Hfin Hlen Ht.
  destruct Ht as [|op oi q X Hn Hkq Ht].
  - exists l, fin. split; [apply PL_stop, nonop_stop, Hfin | apply T_fin].
  - cbn [length] in Hlen.
    destruct (le_lt_dec min (o_level oi)) as [Hle | Hgt].
    + destruct (IH n (le_n n)) as [IHe IHl].
      destruct (IHe q fin X (rmin oi) Hfin ltac:(lia) Hkq Ht) as (r & rest1 & Hr & Ht1).
      pose proof (proj1 pparse_length _ _ _ _ Hr) as Hlen1.
      destruct (IHl fin rest1 min (TBin op l r) Hfin ltac:(lia) Ht1) as (t' & rest' & Hl & Ht').
      exists t', rest'. split; [|exact Ht'].
      eapply PL_op; eassumption.
    + exists l, (EOp op :: yield q ++ X). split.
      * apply PL_stop. exists oi. split; [exact Hn | exact Hgt].
      * eapply T_op; eassumption.
Qed.

Lemma total_expr_step n : total_loop n -> total_expr (S n).
Proof.
  intros IHl t. induction t as [a | op l IHtl r IHtr | u IHu];
    intros fin X min Hfin Hlen Hk Ht.
  - cbn [yield app length] in *.
    destruct (IHl fin X min (TAtom a) Hfin ltac:(lia) Ht) as (t' & rest' & Hl & Ht').
    exists t', rest'. split; [now apply PE_atom | exact Ht'].
  - apply ops_known_bin in Hk. destruct Hk as (Hkl & (oi & Hn) & Hkr).
    cbn [yield] in *. rewrite <- app_assoc in *. cbn [app] in *.
    apply IHtl; [exact Hfin | exact Hlen | exact Hkl |].
    eapply T_op; eassumption.
  - apply ops_known_paren in Hk.
    cbn [yield app] in *. rewrite <- app_assoc in *. cbn [app length] in *.
    destruct (IHu (ERParen :: X) (ERParen :: X) 0 I ltac:(lia) Hk (T_fin _))
      as (u' & rest1 & Hu & Ht1).
    pose proof (tailp_stop0 _ _ Ht1 (proj1 pparse_stop _ _ _ _ Hu)) as ->.
    rewrite app_length in Hlen. cbn [length] in Hlen.
    destruct (IHl fin X min (TParen u') Hfin ltac:(lia) Ht) as (t' & rest' & Hl & Ht').
    exists t', rest'. split; [|exact Ht'].
    eapply PE_paren; eassumption.
Qed.

Lemma total_all n : forall m, m <= n -> total_expr m /\ total_loop m.
Proof.
  induction n as [|n IH]; intros m Hm.
  - assert (m = 0) by lia. subst m. split.
    + intros t fin X min _ Hlen. rewrite app_length in Hlen.
      pose proof (yield_length t). lia.
    + intros fin X min l Hfin Hlen Ht. destruct Ht as [|op oi q X _ _ _].
      * exists l, fin. split; [apply PL_stop, nonop_stop, Hfin | apply T_fin].
      * cbn [length] in Hlen. lia.
  - destruct (le_lt_dec m n) as [Hle | Hgt]; [now apply IH|].
    assert (m = S n) by lia. subst m.
    pose proof (total_loop_step n IH) as HL.
    split; [|exact HL].
    apply total_expr_step. apply (IH n (le_n n)).
Qed.

Theorem climb_total t :
  ops_known tbl t = true -> exists t', climb tbl (yield t) = Some t'.
Proof.
  intros Hk.
  destruct (total_all (length (yield t ++ [])) _ (le_n _)) as [He _].
  destruct (He t [] [] 0 I (le_n _) Hk (T_fin _)) as (t' & rest' & Hp & Ht').
  pose proof (tailp_stop0 _ _ Ht' (proj1 pparse_stop _ _ _ _ Hp)) as ->.
  rewrite app_nil_r in Hp. exists t'. now apply climb_pexpr.
Qed.

(* existence: every valid token sequence has a well-grouped tree (with C3: exactly one) *)
Corollary well_grouped_exists t :
  uniformb tbl = true -> ops_known tbl t = true ->
  exists t', yield t' = yield t /\ well_grouped tbl t' = true /\
             climb tbl (yield t) = Some t'.
Proof.
  intros Hu Hk. destruct (climb_total t Hk) as [t' Hc]. exists t'.
  split; [now apply climb_yield|]. split; [now apply (climb_well_grouped (yield t))|exact Hc].
Qed.

End Climb.

Print Assumptions fuel_adequate.
Print Assumptions climb_none_genuine.
Print Assumptions climb_yield.
Print Assumptions climb_well_grouped.
Print Assumptions climb_complete.
Print Assumptions well_grouped_unique.
Print Assumptions climb_characterised.
Print Assumptions climb_total.
Print Assumptions well_grouped_exists.

(* ================================================================== *)
(* PART B: the local rule of the LR conflict resolution (ResolveModel.resolve)
   against the documented one. *)

(* The documented choice in a shift/reduce cell: true = shift.  Shift when the
   production being shifted binds tighter than the one being reduced, or as
   tight and the reduced production is right-associative. *)
Definition doc_choice (prec : nat -> nat) (assoc_right : nat -> bool)
  (shift_prod reduce_prod : nat) : bool :=
  (prec reduce_prod <? prec shift_prod) ||
  ((prec shift_prod =? prec reduce_prod) && assoc_right reduce_prod).

Section Local.
Variable prec : nat -> nat.
Variable assoc_right : nat -> bool.
Variable rule_of : nat -> nat.

Notation resolve := (resolve prec assoc_right rule_of).
Notation doc_choice := (doc_choice prec assoc_right).

(* a shift/reduce cell of one rule, one level among the shifted productions,
   all precedences > 0: resolve decides it *)
Lemma resolve_defined cell tgt sp p :
  sr_cell cell tgt sp p -> sp <> [] ->
  (forall q, In q sp -> rule_of q = rule_of p) ->
  (forall q q', In q sp -> In q' sp -> prec q = prec q') ->
  (forall q, In q sp -> 0 < prec q) -> 0 < prec p ->
  exists r, resolve cell = Some r.
Proof.
  intros Hc Hne Hrule Hsame Hpos Hp. rewrite (resolve_sr_cell _ _ _ _ _ _ _ Hc).
  unfold resolve_sr. destruct sp as [|q rest]; [congruence|].
  assert (Hall : all_same prec rule_of (rule_of q) (prec q) rest = true).
  { unfold all_same. apply forallb_forall. intros x Hx.
    apply andb_true_iff. split; apply Nat.eqb_eq.
    - rewrite (Hrule x) by now right. symmetry. apply Hrule. now left.
    - apply Hsame; [now right | now left]. }
  rewrite Hall. cbn [negb].
  assert (Hr : rule_of q =? rule_of p = true) by (apply Nat.eqb_eq, Hrule; now left).
  rewrite Hr. cbn [negb].
  assert (Hq0 : prec q =? 0 = false) by (apply Nat.eqb_neq; specialize (Hpos q (or_introl eq_refl)); lia).
  assert (Hp0 : prec p =? 0 = false) by (apply Nat.eqb_neq; lia).
  rewrite Hq0, Hp0. cbn [orb].
  destruct (prec q <? prec p); [eauto|].
  destruct (prec p <? prec q); [eauto|].
  destruct rest; [|eauto].
  destruct ((q =? p) && assoc_right q); eauto.
Qed.

(* D1, positive part.  q is any production listed by the shift action (they
   all have the same level when resolve succeeds). *)
Theorem resolve_agrees_with_doc_unless_right_duplicate cell tgt sp p r q :
  sr_cell cell tgt sp p -> resolve cell = Some r -> In q sp ->
  (~ (prec q = prec p /\ assoc_right p = true) \/ sp = [p]) ->
  r = if doc_choice q p then [CShift tgt sp] else [CReduce p].
Proof.
  intros Hc Hr Hq Hside. unfold PrecClimbProofs.doc_choice.
  destruct (lt_eq_lt_dec (prec q) (prec p)) as [[Hlt | Heq] | Hgt].
  - (* shift level lower: reduce *)
    destruct (resolve_meets_doc_levels _ _ _ _ _ _ _ _ _ Hc Hr Hq) as [_ Hred].
    rewrite (Hred Hlt).
    assert (H1 : prec p <? prec q = false) by (apply Nat.ltb_ge; lia).
    assert (H2 : prec q =? prec p = false) by (apply Nat.eqb_neq; lia).
    rewrite H1, H2. reflexivity.
  - (* equal levels *)
    assert (H1 : prec p <? prec q = false) by (apply Nat.ltb_ge; lia).
    assert (H2 : prec q =? prec p = true) by (now apply Nat.eqb_eq).
    rewrite H1, H2. cbn [orb andb].
    destruct (assoc_right p) eqn:Hright.
    + destruct Hside as [Hno | Hsp]; [exfalso; apply Hno; now split|].
      rewrite (resolve_equal_levels _ _ _ _ _ _ _ _ _ Hc Hr Hq Heq). subst sp.
      rewrite Nat.eqb_refl, Hright. reflexivity.
    + exact (resolve_left _ _ _ _ _ _ _ _ _ Hc Hr Hq Heq Hright).
  - (* shift level higher: shift *)
    destruct (resolve_meets_doc_levels _ _ _ _ _ _ _ _ _ Hc Hr Hq) as [Hsh _].
    rewrite (Hsh Hgt).
    assert (H1 : prec p <? prec q = true) by (now apply Nat.ltb_lt).
    rewrite H1. reflexivity.
Qed.

(* the same, from the structural hypotheses instead of "resolve cell = Some r" *)
Corollary resolve_agrees_with_doc_total cell tgt sp p q :
  sr_cell cell tgt sp p ->
  (forall q, In q sp -> rule_of q = rule_of p) ->
  (forall q q', In q sp -> In q' sp -> prec q = prec q') ->
  (forall q, In q sp -> 0 < prec q) -> 0 < prec p ->
  In q sp ->
  (~ (prec q = prec p /\ assoc_right p = true) \/ sp = [p]) ->
  resolve cell = Some (if doc_choice q p then [CShift tgt sp] else [CReduce p]).
Proof.
  intros Hc Hrule Hsame Hpos Hp Hq Hside.
  assert (Hne : sp <> []) by (intros ->; destruct Hq).
  destruct (resolve_defined _ _ _ _ Hc Hne Hrule Hsame Hpos Hp) as [r Hr].
  rewrite Hr. f_equal.
  exact (resolve_agrees_with_doc_unless_right_duplicate _ _ _ _ _ _ Hc Hr Hq Hside).
Qed.

(* D1, negative part (known finding D5): equal level, reduced production
   right-associative, and the shift action is not exactly [p]: the document
   says shift, resolve keeps the reduce. *)
Theorem resolve_disagrees_with_doc_right cell tgt sp p r q :
  sr_cell cell tgt sp p -> resolve cell = Some r -> In q sp ->
  prec q = prec p -> assoc_right p = true -> sp <> [p] ->
  doc_choice q p = true /\ r = [CReduce p].
Proof.
  intros Hc Hr Hq Heq Hright Hsp. split.
  - unfold PrecClimbProofs.doc_choice. rewrite Heq, Nat.eqb_refl, Hright.
    apply orb_true_r.
  - rewrite (resolve_equal_levels _ _ _ _ _ _ _ _ _ Hc Hr Hq Heq).
    destruct sp as [|q0 rest]; [reflexivity|].
    destruct rest as [|q1 rest]; [|reflexivity].
    destruct (q0 =? p) eqn:Hq0; [|reflexivity].
    apply Nat.eqb_eq in Hq0. subst q0. congruence.
Qed.

(* in particular when the shift action lists more than one production entry *)
Corollary resolve_disagrees_with_doc_right_duplicate cell tgt sp p r q :
  sr_cell cell tgt sp p -> resolve cell = Some r -> In q sp ->
  prec q = prec p -> assoc_right p = true -> 1 < length sp ->
  doc_choice q p = true /\ r = [CReduce p].
Proof.
  intros Hc Hr Hq Heq Hright Hlen.
  apply (resolve_disagrees_with_doc_right _ _ _ _ _ _ Hc Hr Hq Heq Hright).
  intros ->. cbn [length] in Hlen. lia.
Qed.

End Local.

(* Refutation (ResolveModel's example table: production 4 = e '^' e, level 3,
   @right): the state after e '^' e holds the item e -> e . '^' e once per
   lookahead, AddShift listed production 4 twice; the document picks the shift,
   resolve keeps the reduce; with a single entry they agree. *)
Example resolve_doc_refuted :
  doc_choice ex_prec ex_right 4 4 = true /\
  resolve ex_prec ex_right ex_rule [CShift 9 [4; 4]; CReduce 4] = Some [CReduce 4] /\
  resolve ex_prec ex_right ex_rule [CShift 9 [4]; CReduce 4] = Some [CShift 9 [4]].
Proof. vm_compute. repeat split. Qed.

(* A second way to leave the side condition: two DIFFERENT @right operators
   sharing a level (4 = e '^' e, 5 = e '**' e, both level 3 @right).  After
   e '^' e with lookahead '**' the shift lists only production 5 <> 4: the
   reduce is kept even without duplicates, a ^ b ** c groups as (a ^ b) ** c. *)
Definition ex2_prec (p : nat) : nat := match p with 4 => 3 | 5 => 3 | _ => ex_prec p end.
Definition ex2_right (p : nat) : bool := match p with 4 => true | 5 => true | _ => false end.

Example resolve_doc_refuted_two_right_ops :
  doc_choice ex2_prec ex2_right 5 4 = true /\
  resolve ex2_prec ex2_right ex_rule [CShift 9 [5]; CReduce 4] = Some [CReduce 4].
Proof. vm_compute. repeat split. Qed.

Print Assumptions resolve_defined.
Print Assumptions resolve_agrees_with_doc_unless_right_duplicate.
Print Assumptions resolve_agrees_with_doc_total.
Print Assumptions resolve_disagrees_with_doc_right.
Print Assumptions resolve_disagrees_with_doc_right_duplicate.
Print Assumptions resolve_doc_refuted.
Print Assumptions resolve_doc_refuted_two_right_ops.
