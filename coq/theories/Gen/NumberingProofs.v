(* Theorems about the token numbering model (Numbering.v). *)
From Coq Require Import List ZArith String Bool Lia Arith ZifyBool.
From Lox Require Import Gen.Numbering.
Import ListNotations.
Local Open Scope string_scope.
Local Open Scope list_scope.

(* ---- index_of ---- *)

Lemma index_of_sound : forall ts n i,
  index_of ts n = Some i -> nth_error ts i = Some n /\ (i < List.length ts)%nat.
Proof.
  induction ts as [|x ts IH]; intros n i H; cbn [index_of] in H; [discriminate|].
  destruct (String.eqb x n) eqn:E.
  - apply String.eqb_eq in E. inversion H; subst. cbn. split; [reflexivity | lia].
  - destruct (index_of ts n) as [j|] eqn:Ej; cbn [option_map] in H; [|discriminate].
    inversion H; subst i. destruct (IH _ _ Ej) as [Hn Hl]. cbn [nth_error List.length].
    split; [exact Hn | lia].
Qed.

Lemma index_of_app_notin : forall A n B,
  ~ In n A -> index_of (A ++ n :: B) n = Some (List.length A).
Proof.
  induction A as [|x A IH]; intros n B Hnot; cbn [app index_of List.length].
  - rewrite String.eqb_refl. reflexivity.
  - destruct (String.eqb x n) eqn:E.
    + apply String.eqb_eq in E. exfalso. apply Hnot. left. exact E.
    + rewrite IH; [reflexivity|]. intros Hin. apply Hnot. right. exact Hin.
Qed.

Lemma index_of_none : forall ts n, ~ In n ts -> index_of ts n = None.
Proof.
  induction ts as [|x ts IH]; intros n Hnot; cbn [index_of]; [reflexivity|].
  destruct (String.eqb x n) eqn:E.
  - apply String.eqb_eq in E. exfalso. apply Hnot. left. exact E.
  - rewrite IH; [reflexivity|]. intros Hin. apply Hnot. right. exact Hin.
Qed.

Lemma index_of_nth : forall ts i n, NoDup ts ->
  nth_error ts i = Some n -> index_of ts n = Some i.
Proof.
  intros ts i n Hnd Hn. destruct (nth_error_split _ _ Hn) as [A [B [Hts Hlen]]].
  subst ts i. apply index_of_app_notin. apply NoDup_remove_2 in Hnd.
  intros Hin. apply Hnd. apply in_or_app. left. exact Hin.
Qed.

(* ---- N1: EOF and ERROR are 0 and 1 in every specification ---- *)

Theorem eof_error_fixed : forall files,
  index_of (terminals files) "EOF" = Some 0%nat /\
  index_of (terminals files) "ERROR" = Some 1%nat /\
  token_to_string (terminals files) 0 = "EOF" /\
  token_to_string (terminals files) 1 = "ERROR".
Proof. intros files. unfold terminals. repeat split; reflexivity. Qed.

(* ---- N2: the numbering is a bijection onto 0 .. n-1 ---- *)

(* the side condition, in terms of the specification: declared names are
   pairwise distinct (RegisterName) and not reserved (validateTokenName) *)
Lemma terminals_nodup : forall files,
  NoDup (spec_names files) -> ~ In "EOF" (spec_names files) -> ~ In "ERROR" (spec_names files) ->
  NoDup (terminals files).
Proof.
  intros files Hnd He Hr. unfold terminals. constructor.
  - intros [H|H]; [discriminate | exact (He H)].
  - constructor; assumption.
Qed.

Theorem numbering_dense : forall ts, NoDup ts ->
  (forall i n, nth_error ts i = Some n -> index_of ts n = Some i) /\
  (forall n i, index_of ts n = Some i -> nth_error ts i = Some n /\ (i < List.length ts)%nat) /\
  (forall n, In n ts <-> exists i, index_of ts n = Some i) /\
  (forall n m i, index_of ts n = Some i -> index_of ts m = Some i -> n = m).
Proof.
  intros ts Hnd. split; [|split; [|split]].
  - intros i n. apply index_of_nth. exact Hnd.
  - apply index_of_sound.
  - intros n. split.
    + intros Hin. destruct (In_nth_error _ _ Hin) as [i Hi]. exists i.
      apply index_of_nth; assumption.
    + intros [i Hi]. apply index_of_sound in Hi. destruct Hi as [Hi _].
      eapply nth_error_In. exact Hi.
  - intros n m i Hn Hm. apply index_of_sound in Hn. apply index_of_sound in Hm.
    destruct Hn as [Hn _]. destruct Hm as [Hm _]. congruence.
Qed.

Theorem numbering_dense_spec : forall files,
  NoDup (spec_names files) -> ~ In "EOF" (spec_names files) -> ~ In "ERROR" (spec_names files) ->
  let ts := terminals files in
  (forall i, (i < List.length ts)%nat -> index_of ts (nth i ts "") = Some i) /\
  (forall n, In n ts -> exists i, index_of ts n = Some i /\ (i < List.length ts)%nat /\ nth i ts "" = n).
Proof.
  intros files Hnd He Hr ts.
  pose proof (terminals_nodup _ Hnd He Hr) as Hts. fold ts in Hts.
  destruct (numbering_dense ts Hts) as [H1 [H2 [H3 _]]]. split.
  - intros i Hi. apply H1. apply nth_error_nth'. exact Hi.
  - intros n Hin. apply H3 in Hin. destruct Hin as [i Hi]. exists i.
    destruct (H2 _ _ Hi) as [Hn Hl]. split; [exact Hi|]. split; [exact Hl|].
    apply nth_error_nth. exact Hn.
Qed.

(* ---- N3: _TokenToString ---- *)

Theorem token_to_string_total : forall ts,
  (forall n i, index_of ts n = Some i -> token_to_string ts (Z.of_nat i) = n) /\
  (forall t, (t < 0 \/ Z.of_nat (List.length ts) <= t)%Z -> token_to_string ts t = "???").
Proof.
  intros ts. split.
  - intros n i Hi. apply index_of_sound in Hi. destruct Hi as [Hn _].
    unfold token_to_string. destruct (Z.of_nat i <? 0)%Z eqn:E; [lia|].
    rewrite Nat2Z.id, Hn. reflexivity.
  - intros t Ht. unfold token_to_string. destruct (t <? 0)%Z eqn:E; [reflexivity|].
    assert (Hnone : nth_error ts (Z.to_nat t) = None) by (apply nth_error_None; lia).
    rewrite Hnone. reflexivity.
Qed.

(* ---- N4: numbers follow declaration order ---- *)

Lemma decls_names_app : forall a b, decls_names (a ++ b) = (decls_names a ++ decls_names b)%list.
Proof. intros a b. unfold decls_names. apply flat_map_app. Qed.

Lemma spec_names_app : forall a b, spec_names (a ++ b) = (spec_names a ++ spec_names b)%list.
Proof. intros a b. unfold spec_names. apply flat_map_app. Qed.

(* a name contributed by declaration d (directly, in an @external list, or
   anywhere inside a mode) gets 2 + the number of terminals declared before it *)
Theorem declaration_order : forall fpre dpre d dpost fpost npre n npost,
  decl_names d = (npre ++ [n] ++ npost)%list ->
  let files := (fpre ++ [dpre ++ [d] ++ dpost] ++ fpost)%list in
  NoDup (terminals files) ->
  index_of (terminals files) n =
    Some (2 + List.length (spec_names fpre) + List.length (decls_names dpre) + List.length npre)%nat.
Proof.
  intros fpre dpre d dpost fpost npre n npost Hd files Hnd.
  assert (Hsplit : exists B, terminals files =
            (("EOF" :: "ERROR" :: spec_names fpre ++ decls_names dpre ++ npre) ++ n :: B)%list).
  { exists (npost ++ decls_names dpost ++ spec_names fpost)%list.
    unfold files, terminals. rewrite !spec_names_app.
    cbn [spec_names flat_map]. rewrite app_nil_r. rewrite !decls_names_app.
    cbn [decls_names flat_map]. rewrite app_nil_r. rewrite Hd.
    cbn [app]. rewrite <- !app_assoc. cbn [app]. reflexivity. }
  destruct Hsplit as [B HB]. rewrite HB in *.
  rewrite index_of_app_notin.
  - f_equal. cbn [List.length]. rewrite !app_length. lia.
  - apply NoDup_remove_2 in Hnd. intros Hin. apply Hnd. apply in_or_app. left. exact Hin.
Qed.

Corollary declaration_order_token : forall fpre dpre n dpost fpost,
  let files := (fpre ++ [dpre ++ [DTok n] ++ dpost] ++ fpost)%list in
  NoDup (terminals files) ->
  index_of (terminals files) n = Some (2 + List.length (spec_names fpre) + List.length (decls_names dpre))%nat.
Proof.
  intros fpre dpre n dpost fpost files Hnd.
  pose proof (declaration_order fpre dpre (DTok n) dpost fpost [] n [] eq_refl Hnd) as H.
  cbn [List.length] in H. rewrite Nat.add_0_r in H. exact H.
Qed.

Corollary declaration_order_in_mode : forall fpre dpre mpre n mpost dpost fpost,
  let files := (fpre ++ [dpre ++ [DMode (mpre ++ [DTok n] ++ mpost)] ++ dpost] ++ fpost)%list in
  NoDup (terminals files) ->
  index_of (terminals files) n =
    Some (2 + List.length (spec_names fpre) + List.length (decls_names dpre) + List.length (decls_names mpre))%nat.
Proof.
  intros fpre dpre mpre n mpost dpost fpost files Hnd.
  apply (declaration_order fpre dpre (DMode (mpre ++ [DTok n] ++ mpost)) dpost fpost
           (decls_names mpre) n (decls_names mpost)); [|exact Hnd].
  cbn [decl_names]. change (flat_map decl_names) with decls_names.
  rewrite !decls_names_app. cbn [decls_names flat_map decl_names]. rewrite app_nil_r. reflexivity.
Qed.

Corollary declaration_order_external : forall fpre dpre epre n epost dpost fpost,
  let files := (fpre ++ [dpre ++ [DExt (epre ++ [n] ++ epost)] ++ dpost] ++ fpost)%list in
  NoDup (terminals files) ->
  index_of (terminals files) n =
    Some (2 + List.length (spec_names fpre) + List.length (decls_names dpre) + List.length epre)%nat.
Proof.
  intros fpre dpre epre n epost dpost fpost files Hnd.
  apply (declaration_order fpre dpre (DExt (epre ++ [n] ++ epost)) dpost fpost epre n epost);
    [reflexivity | exact Hnd].
Qed.

(* consequently: of two names, the one declared first has the smaller number *)
Theorem declaration_order_monotone : forall ts A n B m C,
  ts = (A ++ n :: B ++ m :: C)%list -> NoDup ts ->
  exists i j, index_of ts n = Some i /\ index_of ts m = Some j /\ (i < j)%nat.
Proof.
  intros ts A n B m C Hts Hnd. subst ts.
  exists (List.length A), (List.length (A ++ n :: B)). split; [|split].
  - apply index_of_app_notin. apply NoDup_remove_2 in Hnd.
    intros Hin. apply Hnd. apply in_or_app. left. exact Hin.
  - replace (A ++ n :: B ++ m :: C)%list with ((A ++ n :: B) ++ m :: C)%list
      by (rewrite <- app_assoc; reflexivity).
    apply index_of_app_notin.
    replace (A ++ n :: B ++ m :: C)%list with ((A ++ n :: B) ++ m :: C)%list in Hnd
      by (rewrite <- app_assoc; reflexivity).
    apply NoDup_remove_2 in Hnd. intros Hin. apply Hnd. apply in_or_app. left. exact Hin.
  - rewrite app_length. cbn [List.length]. lia.
Qed.

Print Assumptions eof_error_fixed.
Print Assumptions numbering_dense.
Print Assumptions numbering_dense_spec.
Print Assumptions token_to_string_total.
Print Assumptions declaration_order.
Print Assumptions declaration_order_token.
Print Assumptions declaration_order_in_mode.
Print Assumptions declaration_order_external.
Print Assumptions declaration_order_monotone.
