(* A reference LALR(1) construction, independent of lox's merge-on-the-fly
   algorithm (/repo/internal/parsergen/lr1/construct.go):

     canonical LR(1) collection (closure with the textbook FIRST of
     FirstModel.first_tab)  -->  merge the states with equal LR(0) cores  -->
     candidate action cells (mirroring createActions / AddShift's
     once-per-item listing of productions)  -->  ResolveModel.resolve.

   Definitions only (extracted to OCaml); theorems in LALRProofs.v. *)
From Coq Require Import List Arith Bool.
From Lox Require Import Parse.Grammar Gen.FirstModel Gen.ResolveModel.
Import ListNotations.

(* ------------------------------------------------------------------ *)
(* sets as sorted duplicate-free lists *)

Section SetOps.
Context {A : Type}.
Variable cmp : A -> A -> comparison.

Fixpoint ins (x : A) (l : list A) : list A :=
  match l with
  | [] => [x]
  | y :: l' =>
      match cmp x y with
      | Lt => x :: l
      | Eq => l
      | Gt => y :: ins x l'
      end
  end.

Fixpoint mem (x : A) (l : list A) : bool :=
  match l with
  | [] => false
  | y :: l' => match cmp x y with Eq => true | _ => mem x l' end
  end.

Definition sort_set (l : list A) : list A := fold_right ins [] l.
Definition union (l1 l2 : list A) : list A := fold_right ins l2 l1.

Fixpoint list_eqb (l1 l2 : list A) : bool :=
  match l1, l2 with
  | [], [] => true
  | x :: l1', y :: l2' => match cmp x y with Eq => list_eqb l1' l2' | _ => false end
  | _, _ => false
  end.
End SetOps.

(* an LR(1) item: production, dot position, lookahead terminal *)
Definition item := (nat * nat * nat)%type.

Definition item_cmp (a b : item) : comparison :=
  match a, b with
  | (p1, d1, l1), (p2, d2, l2) =>
      match p1 ?= p2 with
      | Eq => match d1 ?= d2 with Eq => l1 ?= l2 | c => c end
      | c => c
      end
  end.

Definition pair_cmp (a b : nat * nat) : comparison :=
  match a, b with
  | (p1, d1), (p2, d2) => match p1 ?= p2 with Eq => d1 ?= d2 | c => c end
  end.

Definition ins_item := ins item_cmp.
Definition imem := mem item_cmp.
Definition items_eqb := list_eqb item_cmp.
Definition core_eqb := list_eqb pair_cmp.

(* ------------------------------------------------------------------ *)
(* closure *)

(* the symbol after the dot *)
Definition sym_at (g : grammar) (it : item) : option sym :=
  match it with
  | (p, d, _) =>
      match nth_error g p with
      | Some pr => nth_error (rhs pr) d
      | None => None
      end
  end.

(* the production numbers of rule B, in index order *)
Fixpoint prods_from (g : list prod) (i : nat) (B : nat) : list nat :=
  match g with
  | [] => []
  | pr :: g' =>
      if lhs pr =? B then i :: prods_from g' (S i) B else prods_from g' (S i) B
  end.
Definition prods_of (g : grammar) (B : nat) : list nat := prods_from g 0 B.

(* [A -> alpha . B beta, a]  generates  [B -> . gamma, x]  for x in FIRST(beta a) *)
Definition item_gen (tab : list entry) (g : grammar) (it : item) : list item :=
  match it with
  | (p, d, a) =>
      match nth_error g p with
      | Some pr =>
          match nth_error (rhs pr) d with
          | Some (NT B) =>
              let las := first_seq_tab tab (skipn (S d) (rhs pr)) a in
              flat_map (fun q => map (fun x => (q, 0, x)) las) (prods_of g B)
          | _ => []
          end
      | None => []
      end
  end.

Fixpoint add_new (new : list item) (acc work : list item) : list item * list item :=
  match new with
  | [] => (acc, work)
  | x :: new' =>
      if imem x acc then add_new new' acc work
      else add_new new' (ins_item x acc) (x :: work)
  end.

(* None = out of fuel *)
Fixpoint closure_loop (fuel : nat) (tab : list entry) (g : grammar)
  (work acc : list item) : option (list item) :=
  match work with
  | [] => Some acc
  | it :: w =>
      match fuel with
      | 0 => None
      | S f =>
          let '(acc', w') := add_new (item_gen tab g it) acc w in
          closure_loop f tab g w' acc'
      end
  end.

(* 1 + the largest terminal number of the grammar (at least 2: EOF, ERROR) *)
Fixpoint max_term (l : list sym) : nat :=
  match l with
  | [] => 1
  | T t :: l' => Nat.max t (max_term l')
  | NT _ :: l' => max_term l'
  end.
Definition nterms (g : grammar) : nat := S (max_term (flat_map rhs g)).

(* every processed item is in the result; the result has the items of I plus
   at most (#productions * #terminals) items with the dot at 0 *)
Definition closure_fuel (g : grammar) (I : list item) : nat :=
  length I + length g * (nterms g + length I) + 1.

Definition closure_ref (tab : list entry) (g : grammar) (I : list item) : option (list item) :=
  let I' := sort_set item_cmp I in
  closure_loop (closure_fuel g I') tab g I' I'.

(* ------------------------------------------------------------------ *)
(* goto *)

Definition advance (g : grammar) (X : sym) (I : list item) : list item :=
  flat_map (fun it =>
    match sym_at g it with
    | Some Y => if sym_eqb Y X then match it with (p, d, a) => [(p, S d, a)] end else []
    | None => []
    end) I.

Definition goto_ref (tab : list entry) (g : grammar) (I : list item) (X : sym) : option (list item) :=
  closure_ref tab g (advance g X I).

Definition sym_mem (X : sym) (l : list sym) : bool := existsb (sym_eqb X) l.

(* the distinct symbols after a dot, in order of first occurrence *)
Fixpoint next_syms_acc (g : grammar) (I : list item) (acc : list sym) : list sym :=
  match I with
  | [] => rev acc
  | it :: I' =>
      match sym_at g it with
      | Some X => if sym_mem X acc then next_syms_acc g I' acc else next_syms_acc g I' (X :: acc)
      | None => next_syms_acc g I' acc
      end
  end.
Definition next_syms (g : grammar) (I : list item) : list sym := next_syms_acc g I [].

(* ------------------------------------------------------------------ *)
(* the canonical LR(1) collection *)

Definition trans := (nat * sym * nat)%type.   (* from, symbol, to *)

Fixpoint find_state (J : list item) (states : list (list item)) (i : nat) : option nat :=
  match states with
  | [] => None
  | St :: rest => if items_eqb St J then Some i else find_state J rest (S i)
  end.

Fixpoint process_syms (tab : list entry) (g : grammar) (i : nat) (I : list item)
  (xs : list sym) (states : list (list item)) (tr : list trans)
  : option (list (list item) * list trans) :=
  match xs with
  | [] => Some (states, tr)
  | X :: xs' =>
      match goto_ref tab g I X with
      | None => None
      | Some J =>
          match find_state J states 0 with
          | Some j => process_syms tab g i I xs' states ((i, X, j) :: tr)
          | None => process_syms tab g i I xs' (states ++ [J]) ((i, X, length states) :: tr)
          end
      end
  end.

(* states are numbered in order of discovery; state i is processed at step i *)
Fixpoint lr1_loop (fuel : nat) (tab : list entry) (g : grammar) (i : nat)
  (states : list (list item)) (tr : list trans)
  : option (list (list item) * list trans) :=
  match fuel with
  | 0 => None
  | S f =>
      match nth_error states i with
      | None => Some (states, tr)
      | Some St =>
          match process_syms tab g i St (next_syms g St) states tr with
          | None => None
          | Some (states', tr') => lr1_loop f tab g (S i) states' tr'
          end
      end
  end.

Definition lr1_collection (fuel : nat) (tab : list entry) (g : grammar)
  : option (list (list item) * list trans) :=
  match closure_ref tab g [(0, 0, 0)] with
  | None => None
  | Some I0 => lr1_loop fuel tab g 0 [I0] []
  end.

(* ------------------------------------------------------------------ *)
(* merging by LR(0) core *)

Definition core_of (I : list item) : list (nat * nat) :=
  sort_set pair_cmp (map (fun it : item => match it with (p, d, _) => (p, d) end) I).

(* lox's LR0Key: the kernel items only (production 0 or dot <> 0) *)
Definition is_kernel (it : item) : bool :=
  match it with (p, d, _) => (p =? 0) || negb (d =? 0) end.
Definition kernel_core_of (I : list item) : list (nat * nat) :=
  core_of (filter is_kernel I).

Definition mstate := (list (nat * nat) * list item)%type.   (* core, items *)

Fixpoint find_core (c : list (nat * nat)) (ms : list mstate) : option nat :=
  match ms with
  | [] => None
  | (c', _) :: rest =>
      if core_eqb c' c then Some 0
      else match find_core c rest with Some j => Some (S j) | None => None end
  end.

Fixpoint merge_into (j : nat) (I : list item) (ms : list mstate) : list mstate :=
  match ms, j with
  | [], _ => []
  | (c, J) :: rest, 0 => (c, union item_cmp I J) :: rest
  | m :: rest, S j' => m :: merge_into j' I rest
  end.

(* returns the merged states and, for each canonical state in order, the
   number of its merged state *)
Fixpoint merge_loop (states : list (list item)) (ms : list mstate) (cmap : list nat)
  : list mstate * list nat :=
  match states with
  | [] => (ms, rev cmap)
  | St :: rest =>
      let c := core_of St in
      match find_core c ms with
      | Some j => merge_loop rest (merge_into j St ms) (j :: cmap)
      | None => merge_loop rest (ms ++ [(c, St)]) (length ms :: cmap)
      end
  end.

Definition merge_states (states : list (list item)) : list mstate * list nat :=
  merge_loop states [] [].

Definition trans_eqb (a b : trans) : bool :=
  match a, b with
  | (f1, X1, t1), (f2, X2, t2) => (f1 =? f2) && sym_eqb X1 X2 && (t1 =? t2)
  end.

Fixpoint map_trans (cmap : list nat) (tr : list trans) (acc : list trans) : list trans :=
  match tr with
  | [] => acc
  | (f, X, t) :: tr' =>
      let e := (nth f cmap 0, X, nth t cmap 0) in
      if existsb (trans_eqb e) acc then map_trans cmap tr' acc
      else map_trans cmap tr' (e :: acc)
  end.

Fixpoint lookup_trans (tr : list trans) (f : nat) (X : sym) : option nat :=
  match tr with
  | [] => None
  | (f', X', t) :: tr' =>
      if (f' =? f) && sym_eqb X' X then Some t else lookup_trans tr' f X
  end.

(* ------------------------------------------------------------------ *)
(* action cells, mirroring createActions *)

Definition cellmap := list (nat * list cact).    (* terminal -> actions, sorted by terminal *)

Fixpoint cell_update (t : nat) (f : list cact -> list cact) (m : cellmap) : cellmap :=
  match m with
  | [] => [(t, f [])]
  | (u, c) :: m' =>
      if t <? u then (t, f []) :: m
      else if t =? u then (u, f c) :: m'
      else (u, c) :: cell_update t f m'
  end.

(* ActionMap.AddShift *)
Fixpoint add_shift (tgt p : nat) (cell : list cact) : list cact :=
  match cell with
  | [] => [CShift tgt [p]]
  | CShift tg ps :: rest => CShift tg (ps ++ [p]) :: rest
  | a :: rest => a :: add_shift tgt p rest
  end.

Definition add_action_item (g : grammar) (tr : list trans) (nstates : nat) (s : nat)
  (m : cellmap) (it : item) : cellmap :=
  match it with
  | (p, d, a) =>
      match nth_error g p with
      | None => m
      | Some pr =>
          match nth_error (rhs pr) d with
          | None =>
              if d =? length (rhs pr) then
                if p =? 0 then cell_update a (fun c => c ++ [CAccept]) m
                else cell_update a (fun c => c ++ [CReduce p]) m
              else m
          | Some (T t) =>
              let tgt := match lookup_trans tr s (T t) with Some j => j | None => nstates end in
              cell_update t (add_shift tgt p) m
          | Some (NT _) => m
          end
      end
  end.

Definition cells_of_state (g : grammar) (tr : list trans) (nstates : nat) (s : nat)
  (I : list item) : cellmap :=
  fold_left (add_action_item g tr nstates s) I [].

Record cellrow := mk_cellrow {
  c_state : nat;             (* merged state number *)
  c_term : nat;              (* terminal *)
  c_raw : list cact;         (* the candidate actions *)
  c_res : list cact;         (* after resolveConflicts *)
  c_conflict : bool }.       (* this cell sets HasConflicts *)

Record result := mk_result {
  r_ok : bool;                       (* no loop ran out of fuel and FIRST is saturated *)
  r_lr1_states : nat;                (* number of canonical LR(1) states *)
  r_states : list mstate;            (* merged states: (sorted core, sorted items); number = position *)
  r_trans : list trans;              (* transitions between merged states *)
  r_cells : list cellrow;
  r_conflicts : bool }.

Definition rule_of_prod (g : grammar) (p : nat) : nat :=
  match nth_error g p with Some pr => lhs pr | None => 0 end.

Fixpoint rows_of_states (g : grammar) (prec : nat -> nat) (assoc_right : nat -> bool)
  (tr : list trans) (nstates : nat) (s : nat) (ms : list mstate) : list cellrow :=
  match ms with
  | [] => []
  | (_, St) :: rest =>
      map (fun tc : nat * list cact =>
             let (t, c) := tc in
             mk_cellrow s t c
               (resolved_cell prec assoc_right (rule_of_prod g) c)
               (cell_conflict prec assoc_right (rule_of_prod g) c))
          (cells_of_state g tr nstates s St)
      ++ rows_of_states g prec assoc_right tr nstates (S s) rest
  end.

Definition empty_result : result := mk_result false 0 [] [] [] false.

Definition lalr_ref_fuel (fuel : nat) (g : grammar) (prec : nat -> nat)
  (assoc_right : nat -> bool) : result :=
  let tab := first_tab g in
  match lr1_collection fuel tab g with
  | None => empty_result
  | Some (states, tr) =>
      let '(ms, cmap) := merge_states states in
      let mtr := map_trans cmap tr [] in
      let rows := rows_of_states g prec assoc_right mtr (length ms) 0 ms in
      mk_result (stable_b g tab) (length states) ms mtr rows
                (existsb c_conflict rows)
  end.

Definition lalr_ref (g : grammar) (prec : nat -> nat) (assoc_right : nat -> bool) : result :=
  lalr_ref_fuel 4000 g prec assoc_right.

(* convenience for the harness *)
Definition has_conflicts (r : result) : bool := r_conflicts r.

Definition find_state_by_core (c : list (nat * nat)) (r : result) : option nat :=
  find_core c (r_states r).

Definition cell_at (r : result) (s t : nat) : option cellrow :=
  find (fun row => (c_state row =? s) && (c_term row =? t)) (r_cells r).

(* ------------------------------------------------------------------ *)
(* Examples *)

(* e -> e + e | e * e | n ;  terminals + = 2, * = 3, n = 4 ; rules S' = 0, e = 1 *)
Definition g_calc : grammar :=
  [ mkp 0 [NT 1];
    mkp 1 [NT 1; T 2; NT 1];
    mkp 1 [NT 1; T 3; NT 1];
    mkp 1 [T 4] ].

Definition calc_prec (p : nat) : nat := match p with 1 => 1 | 2 => 2 | _ => 0 end.
Definition no_prec (p : nat) : nat := 0.
Definition all_left (p : nat) : bool := false.

Definition r_calc := lalr_ref g_calc calc_prec all_left.
Definition r_calc_noprec := lalr_ref g_calc no_prec all_left.

Example calc_ok : (r_ok r_calc, r_conflicts r_calc, length (r_states r_calc)) = (true, false, 7).
Proof. vm_compute. reflexivity. Qed.
Example calc_noprec_conflicts : (r_ok r_calc_noprec, r_conflicts r_calc_noprec) = (true, true).
Proof. vm_compute. reflexivity. Qed.
