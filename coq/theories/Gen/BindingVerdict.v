(* B1 for Binding.v: the verdict of assign_actions against the sentence of
   property C06 (binding_ok).  Continues BindingProofs.v. *)
From Coq Require Import List String Arith Bool Lia.
From Lox Require Import Gen.Binding Gen.BindingProofs.
Import ListNotations.
Local Open Scope string_scope.
Local Open Scope nat_scope.
Local Open Scope list_scope.

Lemma NoDup_map_inv' : forall A B (f : A -> B) l,
  NoDup (map f l) -> forall x y, In x l -> In y l -> f x = f y -> x = y.
Proof.
  induction l as [|a l IH]; simpl; intros Hnd x y Hx Hy E; [contradiction|].
  inversion Hnd; subst.
  destruct Hx as [<-|Hx]; destruct Hy as [<-|Hy]; auto.
  - exfalso. apply H1. rewrite E. apply in_map. auto.
  - exfalso. apply H1. rewrite <- E. apply in_map. auto.
Qed.

Section Verdict.
Variable o : oracle.
Variables tok err : ty.
Variable rules : list brule.
Variable prods : list bprod.
Variable ms : list meth.

Notation acts := (actions ms).
Notation has_type := (has_type o tok err rules prods ms).
Notation typing := (typing o tok err rules prods ms).
Notation accepts := (accepts o tok err).
Notation rt_final := (rt_final o tok err rules prods ms).
Notation reduce2 := (reduce_type o tok err rules prods reduce_fuel).
Notation pass' := (pass o tok err rules prods).
Notation derive' := (derive o tok err rules prods).
Notation rt0 := (phase1_types o rules acts).

Hypothesis Hwf : wf_input rules prods ms = true.

(* ------------------------------------------------------------------ *)
(* where the type of a generated rule comes from: production pi of rule k
   takes the type of term x, sliced or not.  Independent of the table. *)

Definition fty (rt : rtypes) (x : bool * nat) : ity :=
  if fst x then IT (terminal_ty tok err (snd x)) else rt_get rt (snd x).

Definition value (sl : bool) (e : ity) : ity := if sl then islice o e else e.

Definition source_rel (k pi : nat) (x : bool * nat) (sl : bool) : Prop :=
  exists r, nth_error rules k = Some r /\
  ((br_kind r = ZeroOrOne /\ sl = false /\
    exists rest p xs, br_prods r = pi :: rest /\ nth_error prods pi = Some p /\
                      bp_terms p = x :: xs) \/
   (is_plus (br_kind r) /\ sl = true /\
    exists q rest p xs, br_prods r = q :: pi :: rest /\ nth_error prods pi = Some p /\
                        bp_terms p = x :: xs) \/
   (is_star (br_kind r) /\ sl = true /\
    exists rest p c xs rc q p1 rest' pc xs',
      br_prods r = pi :: rest /\ nth_error prods pi = Some p /\
      bp_terms p = (false, c) :: xs /\ nth_error rules c = Some rc /\
      is_plus (br_kind rc) /\ br_prods rc = q :: p1 :: rest' /\
      nth_error prods p1 = Some pc /\ bp_terms pc = x :: xs')).

Lemma first_term_spec_fty : forall rt x e, first_term_spec tok err rt x e <-> e = fty rt x.
Proof.
  intros rt [b c] e. unfold first_term_spec, fty. simpl. destruct b; split.
  - intros [[_ H]|[H _]]; [auto|discriminate].
  - auto.
  - intros [[H _]|[_ H]]; [discriminate|auto].
  - auto.
Qed.

Lemma first_term_ity_fty : forall rt p x xs,
  bp_terms p = x :: xs -> first_term_ity tok err rt p = Some (fty rt x).
Proof.
  intros rt p [b c] xs H. unfold first_term_ity, fty. rewrite H. destruct b; reflexivity.
Qed.

Lemma islice_not_nil_match : forall e,
  match islice o e with INil => RP PAssertNil | t => RT t end = RT (islice o e).
Proof. intros [|t|e]; reflexivity. Qed.

Lemma reduce_plus_at : forall f rt c rc q p1 rest p x xs,
  nth_error rules c = Some rc -> is_plus (br_kind rc) ->
  br_prods rc = q :: p1 :: rest -> nth_error prods p1 = Some p -> bp_terms p = x :: xs ->
  reduce_type o tok err rules prods (S f) rt c p1 = RT (islice o (fty rt x)).
Proof.
  intros f rt c rc q p1 rest p x xs Hn Hk Hp Hnp Hx. simpl. rewrite Hn.
  destruct Hk as [K|[K|K]]; rewrite K, Hp, Nat.eqb_refl; simpl; rewrite Hnp;
    rewrite (first_term_ity_fty rt p x xs Hx); reflexivity.
Qed.

Lemma reduce_type_of_source : forall rt k pi x sl,
  source_rel k pi x sl -> reduce2 rt k pi = RT (value sl (fty rt x)).
Proof.
  intros rt k pi x sl [r [Hn [H|[H|H]]]].
  - destruct H as [K [-> [rest [p [xs [Hp [Hnp Hx]]]]]]].
    unfold reduce_fuel. simpl. rewrite Hn, K, Hp, Nat.eqb_refl. simpl. rewrite Hnp.
    rewrite (first_term_ity_fty rt p x xs Hx). reflexivity.
  - destruct H as [K [-> [q [rest [p [xs [Hp [Hnp Hx]]]]]]]].
    unfold reduce_fuel. simpl value. eapply reduce_plus_at; eauto.
  - destruct H as [K [-> H]].
    destruct H as [rest [p [c [xs [rc [q [p1 [rest' [pc [xs' H]]]]]]]]]].
    destruct H as [Hp [Hnp [Hx [Hnc [Kc [Hpc [Hnpc Hxc]]]]]]].
    unfold reduce_fuel. change 2 with (S 1).
    pose proof (reduce_plus_at 0 rt c rc q p1 rest' pc x xs' Hnc Kc Hpc Hnpc Hxc) as Hin.
    remember 1 as f1. simpl. rewrite Hn.
    destruct K as [K|K]; rewrite K, Hp, Nat.eqb_refl; simpl; rewrite Hnp, Hx, Hnc, Hpc, Hin;
      destruct (fty rt x); reflexivity.
Qed.

Lemma reduce_type_source : forall rt k pi t,
  reduce2 rt k pi = RT t -> t <> INil ->
  exists x sl, source_rel k pi x sl /\ t = value sl (fty rt x).
Proof.
  intros rt k pi t H Ht. unfold reduce_fuel in H.
  destruct (nth_error rules k) as [r|] eqn:Hn.
  2:{ simpl in H. rewrite Hn in H. discriminate. }
  assert (Hplus : is_plus (br_kind r) ->
                  exists x sl, source_rel k pi x sl /\ t = value sl (fty rt x)).
  { intros Hk. destruct (reduce_plus_inv _ _ _ _ _ _ _ _ _ _ _ Hn Hk H Ht) as
        [q [rest [p [x [xs [e [Hp [Hnp [Hx [He Hsp]]]]]]]]]].
    apply first_term_spec_fty in Hsp. subst e.
    exists x, true. split; auto. exists r. split; auto. right; left.
    split; auto. split; auto. exists q, rest, p, xs. auto. }
  assert (Hstar : is_star (br_kind r) ->
                  exists x sl, source_rel k pi x sl /\ t = value sl (fty rt x)).
  { intros Hk. change 2 with (S 1) in H. remember 1 as f1 eqn:Hf1.
    simpl in H. rewrite Hn in H.
    assert (H' : match br_prods r with
        | [] => RP PIdxProds
        | p0 :: _ =>
          if negb (pi =? p0) then RT INil else
          match nth_error prods pi with
          | None => RP PBadIndex
          | Some p =>
            match bp_terms p with
            | [] => RP PIdxTerms
            | (true, _) :: _ => RP PNotRule
            | (false, c) :: _ =>
              match nth_error rules c with
              | None => RP PBadIndex
              | Some rc =>
                match br_prods rc with
                | _ :: p1 :: _ =>
                  match reduce_type o tok err rules prods f1 rt c p1 with
                  | RP s => RP s
                  | RT INil => RP PAssertNil
                  | RT t => RT t
                  end
                | _ => RP PIdxProds
                end
              end
            end
          end
        end = RT t).
    { destruct Hk as [K|K]; rewrite K in H; exact H. }
    clear H. destruct (br_prods r) as [|p0 rest] eqn:Hp; [discriminate|].
    destruct (pi =? p0) eqn:E; simpl in H'.
    2:{ inversion H'. congruence. }
    apply Nat.eqb_eq in E. subst p0.
    destruct (nth_error prods pi) as [p|] eqn:Hnp; [|discriminate].
    destruct (bp_terms p) as [|[[|] c] xs] eqn:Hx; try discriminate.
    destruct (nth_error rules c) as [rc|] eqn:Hnc; [|discriminate].
    destruct (br_prods rc) as [|q [|p1 rest']] eqn:Hpc; try discriminate.
    destruct (reduce_type o tok err rules prods f1 rt c p1) as [s|t'] eqn:Hin; [discriminate|].
    assert (Ht' : t' = t) by (destruct t'; congruence). subst t'. clear H'.
    subst f1.
    assert (Hkc : is_plus (br_kind rc)).
    { pose proof (wf_prods_distinct _ _ _ c rc q p1 rest' Hwf Hnc Hpc) as Hne.
      simpl in Hin. rewrite Hnc in Hin. unfold is_plus.
      destruct (br_kind rc); auto; try (inversion Hin; congruence);
        rewrite Hpc in Hin; apply Nat.eqb_neq in Hne; rewrite Hne in Hin;
        simpl in Hin; inversion Hin; congruence. }
    destruct (reduce_plus_inv _ _ _ _ _ _ _ _ _ _ _ Hnc Hkc Hin Ht) as
        [q' [rest'' [pc [x [xs' [e [Hp' [Hnp' [Hx' [He Hsp]]]]]]]]]].
    apply first_term_spec_fty in Hsp. subst e.
    exists x, true. split; auto. exists r. split; auto. right; right.
    split; auto. split; auto.
    exists rest, p, c, xs, rc, q, p1, rest', pc, xs'. repeat split; auto. }
  destruct (br_kind r) eqn:K;
    try (apply Hplus; unfold is_plus; auto; fail);
    try (apply Hstar; unfold is_star; auto; fail).
  - simpl in H. rewrite Hn, K in H. inversion H. congruence.
  - simpl in H. rewrite Hn, K in H. inversion H. congruence.
  - simpl in H. rewrite Hn, K in H.
    destruct (br_prods r) as [|p0 rest] eqn:Hp; [discriminate|].
    destruct (pi =? p0) eqn:E; simpl in H.
    2:{ inversion H. congruence. }
    apply Nat.eqb_eq in E. subst p0.
    destruct (nth_error prods pi) as [p|] eqn:Hnp; [|discriminate].
    destruct (first_term_ity tok err rt p) as [e|] eqn:Ef; [|discriminate].
    inversion H; subst. apply first_term_inv in Ef. destruct Ef as [x [xs [Hx Hsp]]].
    apply first_term_spec_fty in Hsp. subst t.
    exists x, false. split; auto. exists r. split; auto. left.
    split; auto. split; auto. exists rest, p, xs. auto.
Qed.

(* a source production belongs to its rule, and its term is well formed *)
Lemma wf_term_of_prod : forall pi p x xs,
  nth_error prods pi = Some p -> bp_terms p = x :: xs -> wf_term rules x = true.
Proof.
  intros pi p x xs Hn Hx. apply nth_error_In in Hn.
  destruct (wf_prod_in _ _ _ p Hwf Hn) as [_ Hall].
  rewrite forallb_forall in Hall. apply Hall. rewrite Hx. simpl. auto.
Qed.

Lemma prod_of_rule : forall k r pi,
  nth_error rules k = Some r -> In pi (br_prods r) ->
  exists p, nth_error prods pi = Some p /\ bp_rule p = k.
Proof.
  intros k r pi Hn Hin. destruct (wf_rule_in _ _ _ k r Hwf Hn) as [Hp _].
  rewrite Hp in Hin. apply in_prods_of in Hin. exact Hin.
Qed.

Lemma source_facts : forall k pi x sl,
  source_rel k pi x sl ->
  (exists p, nth_error prods pi = Some p /\ bp_rule p = k) /\ wf_term rules x = true /\
  kind_of rules k <> NotGenerated.
Proof.
  intros k pi x sl [r [Hn [H|[H|H]]]].
  - destruct H as [K [_ [rest [p [xs [Hp [Hnp Hx]]]]]]]. split; [|split].
    + eapply prod_of_rule; eauto. rewrite Hp. simpl. auto.
    + eapply wf_term_of_prod; eauto.
    + unfold kind_of. rewrite Hn, K. discriminate.
  - destruct H as [K [_ [q [rest [p [xs [Hp [Hnp Hx]]]]]]]]. split; [|split].
    + eapply prod_of_rule; eauto. rewrite Hp. simpl. auto.
    + eapply wf_term_of_prod; eauto.
    + unfold kind_of. rewrite Hn. destruct K as [K|[K|K]]; rewrite K; discriminate.
  - destruct H as [K [_ H]].
    destruct H as [rest [p [c [xs [rc [q [p1 [rest' [pc [xs' H]]]]]]]]]].
    destruct H as [Hp [Hnp [Hx [Hnc [Kc [Hpc [Hnpc Hxc]]]]]]]. split; [|split].
    + eapply prod_of_rule; eauto. rewrite Hp. simpl. auto.
    + eapply wf_term_of_prod; eauto.
    + unfold kind_of. rewrite Hn. destruct K as [K|K]; rewrite K; discriminate.
Qed.

(* ------------------------------------------------------------------ *)
(* the last round of the fixed point changes nothing *)

Lemma pass_true : forall ps rt rt' ch',
  pass' ps rt true = PDone rt' ch' -> ch' = true.
Proof.
  induction ps as [|ip rest IH]; intros rt rt' ch' H.
  - simpl in H. inversion H. auto.
  - rewrite pass_cons in H.
    destruct (reduce2 rt (bp_rule (snd ip)) (fst ip)) as [s|t]; [discriminate|].
    destruct t as [|t0|e].
    + eapply IH; eauto.
    + destruct (rt_get rt (bp_rule (snd ip))).
      * eapply IH; eauto.
      * destruct (ity_identical o (IT t) (IT t0)); [|discriminate]. eapply IH; eauto.
      * destruct (ity_identical o (ISl i) (IT t0)); [|discriminate]. eapply IH; eauto.
    + destruct (rt_get rt (bp_rule (snd ip))).
      * eapply IH; eauto.
      * destruct (ity_identical o (IT t) (ISl e)); [|discriminate]. eapply IH; eauto.
      * destruct (ity_identical o (ISl i) (ISl e)); [|discriminate]. eapply IH; eauto.
Qed.

Definition settled (rt : rtypes) (ip : nat * bprod) : Prop :=
  exists t, reduce2 rt (bp_rule (snd ip)) (fst ip) = RT t /\
    (t = INil \/ (rt_get rt (bp_rule (snd ip)) <> INil /\
                  ity_identical o (rt_get rt (bp_rule (snd ip))) t = true)).

Lemma pass_false_inv : forall ps rt rt',
  pass' ps rt false = PDone rt' false ->
  rt' = rt /\ forall ip, In ip ps -> settled rt ip.
Proof.
  induction ps as [|ip rest IH]; intros rt rt' H.
  - simpl in H. inversion H. split; auto. intros ? [].
  - rewrite pass_cons in H.
    destruct (reduce2 rt (bp_rule (snd ip)) (fst ip)) as [s|t] eqn:Er; [discriminate|].
    destruct t as [|t0|e].
    + apply IH in H. destruct H as [-> Hall]. split; auto.
      intros ip' [<-|Hin]; [|apply Hall; auto]. unfold settled. rewrite Er. exists INil. auto.
    + destruct (rt_get rt (bp_rule (snd ip))) eqn:Eg.
      * apply pass_true in H. discriminate.
      * destruct (ity_identical o (IT t) (IT t0)) eqn:Ei; [|discriminate].
        apply IH in H. destruct H as [-> Hall]. split; auto.
        intros ip' [<-|Hin]; [|apply Hall; auto]. unfold settled. rewrite Er. exists (IT t0). rewrite Eg. split; auto.
        right. split; auto. discriminate.
      * destruct (ity_identical o (ISl i) (IT t0)) eqn:Ei; [|discriminate].
        apply IH in H. destruct H as [-> Hall]. split; auto.
        intros ip' [<-|Hin]; [|apply Hall; auto]. unfold settled. rewrite Er. exists (IT t0). rewrite Eg. split; auto.
        right. split; auto. discriminate.
    + destruct (rt_get rt (bp_rule (snd ip))) eqn:Eg.
      * apply pass_true in H. discriminate.
      * destruct (ity_identical o (IT t) (ISl e)) eqn:Ei; [|discriminate].
        apply IH in H. destruct H as [-> Hall]. split; auto.
        intros ip' [<-|Hin]; [|apply Hall; auto]. unfold settled. rewrite Er. exists (ISl e). rewrite Eg. split; auto.
        right. split; auto. discriminate.
      * destruct (ity_identical o (ISl i) (ISl e)) eqn:Ei; [|discriminate].
        apply IH in H. destruct H as [-> Hall]. split; auto.
        intros ip' [<-|Hin]; [|apply Hall; auto]. unfold settled. rewrite Er. exists (ISl e). rewrite Eg. split; auto.
        right. split; auto. discriminate.
Qed.

Lemma derive_fixed : forall fuel rt rt',
  derive' fuel rt = DvOk rt' -> forall ip, In ip (indexed prods) -> settled rt' ip.
Proof.
  induction fuel as [|f IH]; intros rt rt' H; simpl in H; [discriminate|].
  destruct (pass' (indexed prods) rt false) as [s|rt1 ch] eqn:Ep; [discriminate|].
  destruct ch.
  - eapply IH; eauto.
  - inversion H; subst. apply pass_false_inv in Ep. destruct Ep as [-> Hall]. exact Hall.
Qed.

(* ------------------------------------------------------------------ *)
(* the table is built by adding entries for untyped rules *)

Inductive hist (base : rtypes) : rtypes -> Prop :=
| hist_base : hist base base
| hist_step : forall rt k t pi,
    hist base rt -> rt_get rt k = INil -> t <> INil -> reduce2 rt k pi = RT t ->
    hist base ((k, t) :: rt).

Lemma derive_hist : forall fuel rt rt',
  derive' fuel rt = DvOk rt' -> hist rt rt'.
Proof.
  intros fuel rt rt' H.
  eapply (derive_invariant o tok err rules prods (hist rt)); [| |exact H].
  - intros rt1 k t pi Hh Hnil Ht Hr. eapply hist_step; eauto.
  - constructor.
Qed.

Definition ext (sub rt : rtypes) : Prop :=
  forall k, rt_get sub k <> INil -> rt_get rt k = rt_get sub k.

Definition is_pure (t : ity) : Prop := t = INil \/ exists x, t = IT x.

Lemma rt0_pure : forall k, is_pure (rt_get rt0 k).
Proof.
  intros k. destruct (rt_get rt0 k) eqn:E; unfold is_pure; eauto.
  apply rt_get_in in E; [|discriminate]. apply phase1_types_in in E.
  destruct E as [? [? [? [_ [_ E]]]]]. discriminate.
Qed.

Lemma ity_identical_slnil : forall e, ity_identical o (ISl INil) (islice o e) = true -> e = INil.
Proof. intros [|t|e]; simpl; intros H; auto; try discriminate. Qed.

Lemma no_missing : forall rt k r,
  missing_rules rules rt = [] -> nth_error rules k = Some r -> br_kind r <> SPrime ->
  rt_get rt k <> INil.
Proof.
  intros rt k r Hm Hn Hk. unfold missing_rules in Hm.
  assert (Hin : In (k, r) (indexed rules)) by (apply in_indexed; auto).
  pose proof (flat_map_nil _ _ _ _ Hm _ Hin) as Hx. simpl in Hx.
  destruct (is_sprime (br_kind r)) eqn:Es.
  - apply is_sprime_true in Es. contradiction.
  - destruct (ity_is_nil (rt_get rt k)) eqn:En; [discriminate|].
    intros E. rewrite E in En. discriminate.
Qed.

Lemma wf_term_rule : forall c,
  wf_term rules (false, c) = true ->
  exists rc, nth_error rules c = Some rc /\ br_kind rc <> SPrime.
Proof.
  intros c H. unfold wf_term in H. simpl in H. apply andb_prop in H. destruct H as [H1 H2].
  apply Nat.ltb_lt in H1. destruct (nth_error rules c) as [rc|] eqn:E.
  - exists rc. split; auto. unfold kind_of in H2. rewrite E in H2.
    intros K. rewrite K in H2. discriminate.
  - apply nth_error_None in E. lia.
Qed.

Lemma final_pure_aux : forall fin,
  rt_final fin ->
  forall sub, hist rt0 sub -> ext sub fin -> forall k, is_pure (rt_get sub k).
Proof.
  intros fin Hfin sub Hh. induction Hh as [|rt k t pi Hh IH Hnil Ht Hr]; intros Hext k'.
  - apply rt0_pure.
  - assert (Hext' : ext rt fin).
    { intros j Hj. rewrite Hext.
      - simpl. destruct (k =? j) eqn:E; auto. apply Nat.eqb_eq in E. subst. contradiction.
      - simpl. destruct (k =? j) eqn:E; auto. }
    specialize (IH Hext'). simpl. destruct (k =? k') eqn:E; [|apply IH].
    destruct (reduce_type_source rt k pi t Hr Ht) as [x [sl [Hsrc Hval]]].
    assert (Hfx : is_pure (fty rt x)).
    { unfold fty. destruct (fst x); [right; eauto|apply IH]. }
    destruct Hfx as [Hfx|[y Hfx]].
    2:{ rewrite Hfx in Hval. subst t. destruct sl; simpl; right; eauto. }
    rewrite Hfx in Hval. destruct sl; simpl in Hval; [|congruence].
    (* t = ISl INil: the element rule has no type, now or ever *)
    exfalso. subst t.
    destruct (source_facts _ _ _ _ Hsrc) as [[p [Hnp Hrule]] [Hwt _]].
    assert (Hfink : rt_get fin k = ISl INil).
    { rewrite Hext; simpl; rewrite Nat.eqb_refl; auto; discriminate. }
    destruct Hfin as [_ [_ [Hd Hmiss]]].
    assert (Hin : In (pi, p) (indexed prods)) by (apply in_indexed; auto).
    pose proof (derive_fixed _ _ _ Hd _ Hin) as [t' [Hr' Hset]]. cbn [fst snd] in Hr', Hset.
    rewrite Hrule in Hr', Hset.
    rewrite (reduce_type_of_source fin k pi x true Hsrc) in Hr'. inversion Hr'; subst t'.
    simpl in Hset. destruct Hset as [Hset|[_ Hset]].
    + eapply islice_nonnil; eauto.
    + rewrite Hfink in Hset. apply ity_identical_slnil in Hset.
      unfold fty in Hset, Hfx. destruct x as [[|] c]; simpl in *; [discriminate|].
      destruct (wf_term_rule c Hwt) as [rc [Hnc Hkc]].
      eapply no_missing; eauto.
Qed.

Lemma ext_refl : forall rt, ext rt rt.
Proof. intros rt k _. reflexivity. Qed.

(* when nothing is missing, every rule but S' has a proper Go type *)
Lemma final_typed : forall fin k r,
  rt_final fin -> nth_error rules k = Some r -> br_kind r <> SPrime ->
  exists t, rt_get fin k = IT t.
Proof.
  intros fin k r Hfin Hn Hk.
  pose proof Hfin as [_ [_ [Hd Hmiss]]].
  pose proof (final_pure_aux fin Hfin fin (derive_hist _ _ _ Hd) (ext_refl fin) k) as [Hp|Hp]; auto.
  exfalso. eapply no_missing; eauto.
Qed.


(* ------------------------------------------------------------------ *)
(* B1: the sentence of the property *)

Definition user_production (pi : nat) (p : bprod) : Prop :=
  nth_error prods pi = Some p /\ kind_of rules (bp_rule p) = NotGenerated.

Definition method_of (p : bprod) (m : meth) : Prop :=
  In m ms /\ rule_of m = Some (name_of rules (bp_rule p)).

Definition binding_ok_with (rtl : list (nat * ty)) : Prop :=
  (* every on_ method returns exactly one value *)
  (forall m, In m ms -> is_action m = true -> List.length (m_results m) = 1) /\
  (* every on_ method is named after a rule of the grammar *)
  (forall m r, In m ms -> rule_of m = Some r ->
     exists i rl, nth_error rules i = Some rl /\ br_name rl = r) /\
  (* all methods of a rule return one type *)
  (forall m m' r, In m ms -> In m' ms -> rule_of m = Some r -> rule_of m' = Some r ->
     identical o (ret m) (ret m') = true) /\
  (* the rule types are the ones the methods and the derived rules determine,
     and every rule except S' has one *)
  typing rtl /\
  (forall i rl, nth_error rules i = Some rl -> br_kind rl <> SPrime -> exists t, In (i, t) rtl) /\
  (* every user production has one and only one acceptable method of its rule *)
  (forall pi p, user_production pi p ->
     exists m, method_of p m /\ accepts rtl m p /\
       forall m', method_of p m' -> accepts rtl m' p -> m' = m) /\
  (* no on_ method is left unmatched *)
  (forall m, In m ms -> is_action m = true ->
     exists pi p, user_production pi p /\ method_of p m /\ accepts rtl m p).

Definition binding_ok : Prop := exists rtl, binding_ok_with rtl.

Hypothesis Hrefl : forall a, identical o a a = true.
Hypothesis Hsym : forall a b, identical o a b = true -> identical o b a = true.
Hypothesis Htrans : forall a b c,
  identical o a b = true -> identical o b c = true -> identical o a c = true.

Lemma phase1_no_conflict : forall r f others m,
  phase1_errs o rules acts = [] -> group acts r = f :: others -> In m others ->
  identical o (ret m) (ret f) = true.
Proof.
  intros r f others m H1 Eg Hin.
  assert (Hf : In f (group acts r)) by (rewrite Eg; simpl; auto).
  apply in_group_iff in Hf. destruct Hf as [Hfm Hfr].
  assert (Hname : In r (group_names acts)) by (apply in_group_names; eauto).
  pose proof (flat_map_nil _ _ _ _ H1 _ Hname) as Hp. simpl in Hp.
  unfold phase1_group in Hp. rewrite Eg in Hp.
  assert (Hc : map (fun m => DReturnConflict (m_id m))
                   (filter (fun m => negb (identical o (ret m) (ret f))) others) = []).
  { destruct (find_rule rules r); simpl in Hp; auto.
    apply app_eq_nil in Hp. tauto. }
  apply map_eq_nil in Hc.
  destruct (identical o (ret m) (ret f)) eqn:E; auto. exfalso.
  assert (In m (filter (fun m => negb (identical o (ret m) (ret f))) others)).
  { apply filter_In. rewrite E. auto. }
  rewrite Hc in H. contradiction.
Qed.

Lemma phase1_rule_exists : forall m r,
  phase1_errs o rules acts = [] -> In m ms -> rule_of m = Some r ->
  exists i rl, nth_error rules i = Some rl /\ br_name rl = r.
Proof.
  intros m r H1 Hms Hr.
  assert (Hname : In r (group_names acts)) by (apply in_group_names; eauto).
  assert (Hg : In m (group acts r)) by (apply in_group_iff; auto).
  destruct (group acts r) as [|f others] eqn:Eg; [contradiction|].
  pose proof (flat_map_nil _ _ _ _ H1 _ Hname) as Hp. simpl in Hp.
  unfold phase1_group in Hp. rewrite Eg in Hp.
  destruct (find_rule rules r) as [j|] eqn:Ef; simpl in Hp.
  - apply find_rule_some in Ef. destruct Ef as [rl [Hn Hnm]]. eauto.
  - apply app_eq_nil in Hp. destruct Hp; discriminate.
Qed.

Lemma result_count_ok : forall m,
  phase0_errs ms = [] -> In m ms -> is_action m = true -> List.length (m_results m) = 1.
Proof.
  intros m H0 Hms Hact. unfold phase0_errs in H0. apply map_eq_nil in H0.
  destruct (List.length (m_results m) =? 1) eqn:El; [apply Nat.eqb_eq; auto|].
  exfalso. assert (Hf : In m (filter bad_result_count acts)).
  { apply filter_In. split.
    - apply in_actions. auto.
    - unfold bad_result_count. rewrite El. auto. }
  rewrite H0 in Hf. contradiction.
Qed.

(* soundness: success implies the sentence, for the returned rule types *)
Theorem binding_sound : forall b rtl,
  assign_actions o tok err rules prods ms = BOk b rtl -> binding_ok_with rtl.
Proof.
  intros b rtl H. apply assign_ok_inv in H.
  destruct H as [_ [rt [Hfin [Hpan [Herr [Hun [Hb Hrtl]]]]]]]. subst b rtl.
  pose proof Hfin as [H0 [H1 [Hd Hmiss]]].
  assert (Hty : typing (rule_types_of rules rt))
    by (apply rule_types_typing; apply rt_final_sound; auto).
  unfold binding_ok_with.
  split; [|split; [|split; [|split; [|split; [|split]]]]]; auto.
  - intros m Hms Hact. apply result_count_ok; auto.
  - intros m r Hms Hr. eapply phase1_rule_exists; eauto.
  - intros m m' r Hms Hms' Hr Hr'.
    assert (Hg : In m (group acts r)) by (apply in_group_iff; auto).
    assert (Hg' : In m' (group acts r)) by (apply in_group_iff; auto).
    destruct (group acts r) as [|f others] eqn:Eg; [contradiction|].
    assert (Hall : forall x, In x (f :: others) -> identical o (ret x) (ret f) = true).
    { intros x [<-|Hx]; [apply Hrefl|]. eapply phase1_no_conflict; eauto. }
    eapply Htrans; [apply Hall; exact Hg|]. apply Hsym. apply Hall. exact Hg'.
  - intros i rl Hn Hk. destruct (final_typed rt i rl Hfin Hn Hk) as [t Ht].
    exists t. apply rule_types_in. split; auto. apply nth_error_Some. congruence.
  - intros pi p [Hn Hk].
    assert (Hin : In (pi, p) (user_prods rules prods)) by (apply in_user_prods; auto).
    assert (Hp : In p prods) by (eapply nth_error_In; eauto).
    destruct (matches_single _ _ _ _ _ _ rt pi p Herr Hin) as [m Hm].
    assert (Hmm : In m (matches o tok err rules rt acts p)) by (rewrite Hm; simpl; auto).
    apply in_matches in Hmm. destruct Hmm as [Hms [Hr Hmatch]].
    exists m. split; [split; auto|]. split.
    + apply (is_match_iff o tok err rules prods ms); auto.
    + intros m' [Hms' Hr'] Hacc.
      assert (Hin' : In m' (matches o tok err rules rt acts p)).
      { apply in_matches. repeat split; auto.
        apply (is_match_iff o tok err rules prods ms); auto. }
      rewrite Hm in Hin'. destruct Hin' as [->|[]]. reflexivity.
  - intros m Hms Hact.
    assert (Hma : In m acts) by (apply in_actions; auto).
    unfold unassigned in Hun. apply map_eq_nil in Hun.
    destruct (existsb (fun pm : nat * nat => snd pm =? m_id m)
                      (phase4_binding o tok err rules prods rt acts)) eqn:Ex.
    + apply existsb_exists in Ex. destruct Ex as [[pi mid] [Hin Heq]]. simpl in Heq.
      apply Nat.eqb_eq in Heq. subst mid. apply in_binding in Hin.
      destruct Hin as [p [m' [Hup [Hm' Hid]]]].
      assert (Hmm : In m' (matches o tok err rules rt acts p)) by (rewrite Hm'; simpl; auto).
      apply in_matches in Hmm. destruct Hmm as [Hms' [Hr' Hmatch]].
      assert (m' = m).
      { pose proof (wf_ids _ _ _ Hwf) as Hnd.
        apply (NoDup_map_inv' _ _ m_id ms Hnd); auto. }
      subst m'. apply in_user_prods in Hup. destruct Hup as [Hn Hk].
      exists pi, p. split; [split; auto|]. split; [split; auto|].
      apply (is_match_iff o tok err rules prods ms); auto. eapply nth_error_In; eauto.
    + exfalso. assert (Hf : In m (filter (fun m0 : meth =>
                 negb (existsb (fun pm : nat * nat => snd pm =? m_id m0)
                         (phase4_binding o tok err rules prods rt acts))) acts)).
      { apply filter_In. split; auto. rewrite Ex. auto. }
      rewrite Hun in Hf. contradiction.
Qed.

Corollary binding_sound' : forall b rtl,
  assign_actions o tok err rules prods ms = BOk b rtl -> binding_ok.
Proof. intros b rtl H. exists rtl. eapply binding_sound; eauto. Qed.


(* ------------------------------------------------------------------ *)
(* the per-production clause, both directions, for every input that reaches
   the matching phase (rt is the table of rule types at that point) *)

Lemma in_phase4_errs : forall rt d,
  In d (phase4_errs o tok err rules prods rt acts) <->
  exists pi p, user_production pi p /\
    match matches o tok err rules rt acts p with
    | [] => d = DNoMatch pi
    | [_] => False
    | _ :: _ :: _ => d = DMultipleMatch pi
    end.
Proof.
  intros rt d. unfold phase4_errs. rewrite in_flat_map. split.
  - intros [[pi p] [Hin H]]. simpl in H. apply in_user_prods in Hin.
    exists pi, p. split; [exact Hin|].
    destruct (matches o tok err rules rt acts p) as [|m1 [|m2 l]]; simpl in H; intuition.
  - intros [pi [p [Hup H]]]. exists (pi, p). split; [apply in_user_prods; exact Hup|].
    simpl. destruct (matches o tok err rules rt acts p) as [|m1 [|m2 l]]; simpl; intuition.
Qed.

Theorem prod_clause_exact : forall rt pi p,
  user_production pi p ->
  let rtl := rule_types_of rules rt in
  (In (DNoMatch pi) (phase4_errs o tok err rules prods rt acts) <->
   forall m, method_of p m -> ~ accepts rtl m p) /\
  (In (DMultipleMatch pi) (phase4_errs o tok err rules prods rt acts) <->
   exists m1 m2, method_of p m1 /\ method_of p m2 /\ m_id m1 <> m_id m2 /\
                 accepts rtl m1 p /\ accepts rtl m2 p) /\
  ((exists mid, In (pi, mid) (phase4_binding o tok err rules prods rt acts)) <->
   exists m, method_of p m /\ accepts rtl m p /\
             forall m', method_of p m' -> accepts rtl m' p -> m' = m).
Proof.
  intros rt pi p Hup rtl. pose proof Hup as [Hn Hk].
  assert (Hp : In p prods) by (eapply nth_error_In; eauto).
  assert (Hmem : forall m, In m (matches o tok err rules rt acts p) <->
                           method_of p m /\ accepts rtl m p).
  { intros m. rewrite in_matches. unfold method_of.
    rewrite (is_match_iff o tok err rules prods ms rt p m Hwf Hp). tauto. }
  assert (Hsame : forall pi' p', user_production pi' p' -> pi' = pi -> p' = p).
  { intros pi' p' [Hn' _] ->. congruence. }
  pose proof (matches_nodup_ids o tok err rules ms rt p (wf_ids _ _ _ Hwf)) as Hnd.
  split; [|split].
  - rewrite in_phase4_errs. split.
    + intros [pi' [p' [Hup' H]]] m Hm Hacc.
      assert (In m (matches o tok err rules rt acts p)) by (apply Hmem; auto).
      destruct (matches o tok err rules rt acts p') as [|m1 [|m2 l]] eqn:E;
        try contradiction; try discriminate.
      inversion H; subst pi'. rewrite (Hsame _ _ Hup' eq_refl) in E. rewrite E in H0.
      contradiction.
    + intros Hno. exists pi, p. split; auto.
      destruct (matches o tok err rules rt acts p) as [|m1 l] eqn:E; auto.
      exfalso. assert (Hin : In m1 (m1 :: l)) by (simpl; auto).
      apply Hmem in Hin. destruct Hin as [Hm Hacc]. exact (Hno m1 Hm Hacc).
  - rewrite in_phase4_errs. split.
    + intros [pi' [p' [Hup' H]]].
      destruct (matches o tok err rules rt acts p') as [|m1 [|m2 l]] eqn:E;
        try contradiction; try discriminate.
      inversion H; subst pi'. rewrite (Hsame _ _ Hup' eq_refl) in E. rewrite E in Hnd, Hmem.
      exists m1, m2.
      assert (H1 : In m1 (m1 :: m2 :: l)) by (simpl; auto).
      assert (H2 : In m2 (m1 :: m2 :: l)) by (simpl; auto).
      apply Hmem in H1. apply Hmem in H2. simpl in Hnd.
      inversion Hnd as [|? ? Hnotin Hnd']; subst.
      destruct H1 as [Hm1 Ha1]. destruct H2 as [Hm2 Ha2].
      split; [exact Hm1|]. split; [exact Hm2|]. split; [|split; assumption].
      intros Eid. apply Hnotin. simpl. left. symmetry. exact Eid.
    + intros [m1 [m2 [Hm1 [Hm2 [Hne [Ha1 Ha2]]]]]]. exists pi, p. split; auto.
      assert (H1 : In m1 (matches o tok err rules rt acts p)) by (apply Hmem; auto).
      assert (H2 : In m2 (matches o tok err rules rt acts p)) by (apply Hmem; auto).
      destruct (matches o tok err rules rt acts p) as [|a [|b l]]; auto.
      * contradiction.
      * simpl in H1, H2. destruct H1 as [<-|[]]. destruct H2 as [<-|[]]. congruence.
  - split.
    + intros [mid Hin]. apply in_binding in Hin.
      destruct Hin as [p' [m [Hup' [Hm _]]]]. apply in_user_prods in Hup'.
      rewrite (Hsame _ _ Hup' eq_refl) in Hm. rewrite Hm in Hmem.
      exists m. assert (H1 : In m [m]) by (simpl; auto). apply Hmem in H1.
      split; [tauto|]. split; [tauto|]. intros m' Hm' Hacc.
      assert (H2 : In m' [m]) by (apply Hmem; auto). destruct H2 as [->|[]]. reflexivity.
    + intros [m [Hm [Hacc Huniq]]].
      assert (H1 : In m (matches o tok err rules rt acts p)) by (apply Hmem; auto).
      destruct (matches o tok err rules rt acts p) as [|a [|b l]] eqn:E.
      * contradiction.
      * destruct H1 as [->|[]]. exists (m_id m). apply in_binding. exists p, m.
        split; auto. apply in_user_prods. exact Hup.
      * exfalso.
        assert (Ha : In a (a :: b :: l)) by (simpl; auto).
        assert (Hb : In b (a :: b :: l)) by (simpl; auto).
        apply Hmem in Ha. apply Hmem in Hb.
        assert (a = m) by (apply Huniq; tauto). assert (b = m) by (apply Huniq; tauto).
        subst a b. simpl in Hnd. inversion Hnd as [|? ? Hnotin Hnd']; subst.
        apply Hnotin. simpl. auto.
Qed.

(* ... and at the level of the verdict: when the earlier phases pass, a user
   production without acceptable method, or with two, makes lox fail with the
   diagnostic naming that production *)
Lemma phase4_reported : forall rt d,
  rt_final rt -> phase4_panics o tok err rules prods rt acts = false ->
  In d (phase4_errs o tok err rules prods rt acts) ->
  exists ds, assign_actions o tok err rules prods ms = BErr ds /\ In d ds.
Proof.
  intros rt d [H0 [H1 [Hd Hmiss]]] Hpan Hin.
  unfold assign_actions. rewrite Hwf. unfold assign_actions_wf.
  rewrite H0, H1, Hd, Hmiss, Hpan.
  destruct (phase4_errs o tok err rules prods rt acts) as [|e es] eqn:E; [contradiction|].
  eexists. split; [reflexivity|]. apply in_sort_diags. exact Hin.
Qed.

Theorem no_match_reported : forall rt pi p,
  rt_final rt -> phase4_panics o tok err rules prods rt acts = false ->
  user_production pi p ->
  (forall m, method_of p m -> ~ accepts (rule_types_of rules rt) m p) ->
  exists ds, assign_actions o tok err rules prods ms = BErr ds /\ In (DNoMatch pi) ds.
Proof.
  intros rt pi p Hfin Hpan Hup Hno. eapply phase4_reported; eauto.
  apply (proj1 (prod_clause_exact rt pi p Hup)). exact Hno.
Qed.

Theorem multiple_match_reported : forall rt pi p m1 m2,
  rt_final rt -> phase4_panics o tok err rules prods rt acts = false ->
  user_production pi p ->
  method_of p m1 -> method_of p m2 -> m_id m1 <> m_id m2 ->
  accepts (rule_types_of rules rt) m1 p -> accepts (rule_types_of rules rt) m2 p ->
  exists ds, assign_actions o tok err rules prods ms = BErr ds /\ In (DMultipleMatch pi) ds.
Proof.
  intros rt pi p m1 m2 Hfin Hpan Hup H1 H2 Hne Ha1 Ha2. eapply phase4_reported; eauto.
  apply (proj1 (proj2 (prod_clause_exact rt pi p Hup))). exists m1, m2. auto.
Qed.

End Verdict.

Print Assumptions binding_sound.
Print Assumptions prod_clause_exact.
Print Assumptions no_match_reported.
Print Assumptions multiple_match_reported.
