(* Property C13: the output does not depend on Go's map iteration order.
   Generic facts used at the places where the generator ranges over a map:
   - collect the entries, then sort them by an injective key  (sort_of_perm)
   - build a sorted duplicate-free set                        (sorted_dedup_canonical)
   - a loop whose body commutes with itself (insert into a set or map, set a
     flag)                                                    (fold_commutative_perm)
   and the instance for rang3's range heap, which mode.normalizeInputs fills
   by ranging over a map                                      (heap_of_perm, normalize_perm). *)
From Coq Require Import List Arith Bool Lia Permutation Sorted ZArith.
From Lox Require Import Rang3.RangeModel.
Import ListNotations.

Section Order.
Variable K : Type.
Variable cmp : K -> K -> comparison.
Hypothesis cmp_eq : forall a b, cmp a b = Eq -> a = b.
Hypothesis cmp_refl : forall a, cmp a a = Eq.
Hypothesis cmp_antisym : forall a b, cmp a b = CompOpp (cmp b a).
Hypothesis cmp_trans : forall a b c, cmp a b = Lt -> cmp b c = Lt -> cmp a c = Lt.

Definition leb (a b : K) : bool := match cmp a b with Gt => false | _ => true end.

Lemma cmp_gt_lt : forall a b, cmp a b = Gt -> cmp b a = Lt.
Proof. intros a b H. rewrite cmp_antisym, H. reflexivity. Qed.

Lemma cmp_lt_gt : forall a b, cmp a b = Lt -> cmp b a = Gt.
Proof. intros a b H. rewrite cmp_antisym, H. reflexivity. Qed.

Lemma leb_false : forall a b, leb a b = false -> cmp b a = Lt.
Proof.
  unfold leb. intros a b H. destruct (cmp a b) eqn:E; try discriminate.
  apply cmp_gt_lt; auto.
Qed.

Lemma leb_true : forall a b, leb a b = true -> a = b \/ cmp a b = Lt.
Proof.
  unfold leb. intros a b H. destruct (cmp a b) eqn:E; try discriminate; auto.
Qed.

Lemma leb_lt : forall a b, cmp a b = Lt -> leb a b = true.
Proof. unfold leb. intros a b H. rewrite H. reflexivity. Qed.

Lemma lt_not_leb : forall a b, cmp a b = Lt -> leb b a = false.
Proof. unfold leb. intros a b H. rewrite (cmp_lt_gt _ _ H). reflexivity. Qed.

Lemma lt_irrefl : forall a, cmp a a <> Lt.
Proof. intros a H. rewrite cmp_refl in H. discriminate. Qed.

Lemma leb_trans : forall a b c, leb a b = true -> leb b c = true -> leb a c = true.
Proof.
  intros a b c H1 H2. apply leb_true in H1. apply leb_true in H2.
  destruct H1 as [->|H1]; destruct H2 as [->|H2].
  - unfold leb. rewrite cmp_refl. reflexivity.
  - apply leb_lt; auto.
  - apply leb_lt; auto.
  - apply leb_lt. eapply cmp_trans; eauto.
Qed.

Lemma leb_lt_trans : forall a b c, leb a b = true -> cmp b c = Lt -> cmp a c = Lt.
Proof.
  intros a b c H1 H2. apply leb_true in H1. destruct H1 as [->|H1]; auto.
  eapply cmp_trans; eauto.
Qed.

(* ---------------------------------------------------------------- *)
(* M1: entries sorted by key *)

Section Entries.
Variable E : Type.
Variable key : E -> K.

Fixpoint insert (x : E) (l : list E) : list E :=
  match l with
  | [] => [x]
  | y :: l' => if leb (key x) (key y) then x :: l else y :: insert x l'
  end.

Definition isort (l : list E) : list E := fold_right insert [] l.

Lemma insert_comm : forall x y l,
  key x <> key y -> insert x (insert y l) = insert y (insert x l).
Proof.
  intros x y l Hne. induction l as [|z l IH]; simpl.
  - destruct (leb (key x) (key y)) eqn:Exy.
    + apply leb_true in Exy. destruct Exy as [Exy|Exy]; [contradiction|].
      rewrite (lt_not_leb _ _ Exy). reflexivity.
    + apply leb_false in Exy. rewrite (leb_lt _ _ Exy). reflexivity.
  - destruct (leb (key x) (key z)) eqn:Exz; destruct (leb (key y) (key z)) eqn:Eyz; simpl.
    + (* both before z *)
      destruct (leb (key x) (key y)) eqn:Exy.
      * apply leb_true in Exy. destruct Exy as [Exy|Exy]; [contradiction|].
        rewrite (lt_not_leb _ _ Exy). simpl. rewrite Eyz. reflexivity.
      * apply leb_false in Exy. rewrite (leb_lt _ _ Exy). rewrite Exz. reflexivity.
    + (* x <= z < y *)
      rewrite Exz. apply leb_false in Eyz.
      pose proof (leb_lt_trans _ _ _ Exz Eyz) as Hxy.
      rewrite (lt_not_leb _ _ Hxy). simpl.
      assert (leb (key y) (key z) = false) by (apply lt_not_leb; auto).
      rewrite H. reflexivity.
    + (* y <= z < x *)
      rewrite Eyz. apply leb_false in Exz.
      pose proof (leb_lt_trans _ _ _ Eyz Exz) as Hyx.
      rewrite (lt_not_leb _ _ Hyx). simpl.
      assert (leb (key x) (key z) = false) by (apply lt_not_leb; auto).
      rewrite H. reflexivity.
    + rewrite Exz, Eyz. f_equal. exact IH.
Qed.

Theorem sort_of_perm : forall l l',
  Permutation l l' -> NoDup (map key l) -> isort l = isort l'.
Proof.
  intros l l' HP. induction HP as [|x l l' HP IH|x y l|l l' l'' HP1 IH1 HP2 IH2]; intros Hnd.
  - reflexivity.
  - simpl. inversion Hnd; subst. rewrite IH; auto.
  - simpl. apply insert_comm. simpl in Hnd. inversion Hnd; subst.
    intros E'. apply H1. simpl. auto.
  - rewrite IH1; auto. apply IH2.
    eapply Permutation_NoDup; [|exact Hnd]. apply Permutation_map. exact HP1.
Qed.

End Entries.

(* ---------------------------------------------------------------- *)
(* M2: the sorted duplicate-free list of a set of keys *)

Fixpoint sinsert (x : K) (l : list K) : list K :=
  match l with
  | [] => [x]
  | y :: l' =>
    match cmp x y with
    | Eq => l
    | Lt => x :: l
    | Gt => y :: sinsert x l'
    end
  end.

Definition sdedup (l : list K) : list K := fold_right sinsert [] l.

Definition ssorted (l : list K) : Prop := StronglySorted (fun a b => cmp a b = Lt) l.

Lemma sinsert_in : forall x z l, In z (sinsert x l) <-> z = x \/ In z l.
Proof.
  intros x z l. induction l as [|y l IH]; simpl.
  - intuition.
  - destruct (cmp x y) eqn:E; simpl.
    + apply cmp_eq in E. subst. intuition.
    + intuition.
    + rewrite IH. intuition.
Qed.

Lemma sinsert_sorted : forall x l, ssorted l -> ssorted (sinsert x l).
Proof.
  intros x l H. induction H as [|y l Hs IH Hall]; simpl.
  - constructor; constructor.
  - destruct (cmp x y) eqn:E.
    + constructor; auto.
    + constructor; [constructor; auto|]. constructor; auto.
      rewrite Forall_forall in *. intros z Hz. eapply cmp_trans; eauto.
    + constructor; auto. rewrite Forall_forall in *. intros z Hz.
      apply sinsert_in in Hz. destruct Hz as [->|Hz]; auto. apply cmp_gt_lt; auto.
Qed.

Lemma sdedup_sorted : forall l, ssorted (sdedup l).
Proof. induction l; simpl; [constructor|apply sinsert_sorted; auto]. Qed.

Lemma sdedup_in : forall z l, In z (sdedup l) <-> In z l.
Proof.
  intros z l. induction l as [|x l IH]; simpl; [tauto|].
  rewrite sinsert_in, IH. intuition.
Qed.

Lemma ssorted_ext : forall l l',
  ssorted l -> ssorted l' -> (forall x, In x l <-> In x l') -> l = l'.
Proof.
  intros l l' Hs. revert l'. induction Hs as [|a l Hs IH Ha]; intros l' Hs' Hext.
  - destruct l' as [|b l']; auto. exfalso. apply (Hext b). simpl; auto.
  - destruct Hs' as [|b l' Hs' Hb].
    + exfalso. apply (Hext a). simpl; auto.
    + rewrite Forall_forall in Ha, Hb.
      assert (a = b).
      { assert (H1 : In a (b :: l')) by (apply Hext; simpl; auto).
        assert (H2 : In b (a :: l)) by (apply Hext; simpl; auto).
        destruct H1 as [H1|H1]; auto. destruct H2 as [H2|H2]; auto.
        exfalso. apply (lt_irrefl a). eapply cmp_trans; [apply Ha|apply Hb]; eauto. }
      subst b. f_equal. apply IH; auto. intros x. split; intros Hx.
      * assert (H1 : In x (a :: l')) by (apply Hext; simpl; auto).
        destruct H1 as [<-|H1]; auto. exfalso. apply (lt_irrefl a). apply Ha; auto.
      * assert (H1 : In x (a :: l)) by (apply Hext; simpl; auto).
        destruct H1 as [<-|H1]; auto. exfalso. apply (lt_irrefl a). apply Hb; auto.
Qed.

Theorem sorted_dedup_canonical : forall l l',
  (forall x, In x l <-> In x l') -> sdedup l = sdedup l'.
Proof.
  intros l l' H. apply ssorted_ext; try apply sdedup_sorted.
  intros x. rewrite !sdedup_in. apply H.
Qed.

Corollary sorted_dedup_perm : forall l l', Permutation l l' -> sdedup l = sdedup l'.
Proof.
  intros l l' H. apply sorted_dedup_canonical. intros x. split; intros Hx.
  - eapply Permutation_in; eauto.
  - eapply Permutation_in; [apply Permutation_sym|]; eauto.
Qed.

End Order.

(* ---------------------------------------------------------------- *)
(* M3: a loop whose iterations commute *)

Section Fold.
Variables (A S : Type) (f : A -> S -> S).
Hypothesis f_comm : forall a b s, f a (f b s) = f b (f a s).

Theorem fold_commutative_perm : forall l l' s,
  Permutation l l' ->
  fold_left (fun acc a => f a acc) l s = fold_left (fun acc a => f a acc) l' s.
Proof.
  intros l l' s HP. revert s.
  induction HP as [|x l l' HP IH|x y l|l l' l'' HP1 IH1 HP2 IH2]; intros s; simpl.
  - reflexivity.
  - apply IH.
  - rewrite f_comm. reflexivity.
  - rewrite IH1. apply IH2.
Qed.

Corollary fold_right_commutative_perm : forall l l' s,
  Permutation l l' -> fold_right f s l = fold_right f s l'.
Proof.
  intros l l' s HP.
  induction HP as [|x l l' HP IH|x y l|l l' l'' HP1 IH1 HP2 IH2]; simpl.
  - reflexivity.
  - rewrite IH. reflexivity.
  - apply f_comm.
  - rewrite IH1. exact IH2.
Qed.

(* with idempotence the result depends only on which elements occur, not on
   how often (a flag set, an element inserted twice) *)
Hypothesis f_idem : forall a s, f a (f a s) = f a s.

Lemma fold_right_absorb : forall l a s, In a l -> f a (fold_right f s l) = fold_right f s l.
Proof.
  induction l as [|x l IH]; simpl; intros a s H; [contradiction|].
  destruct H as [<-|H].
  - apply f_idem.
  - rewrite f_comm. rewrite IH; auto.
Qed.

Lemma fold_right_incl : forall l l' s,
  incl l l' -> fold_right f (fold_right f s l') l = fold_right f s l'.
Proof.
  induction l as [|a l IH]; simpl; intros l' s H; auto.
  rewrite IH by (intros x Hx; apply H; simpl; auto).
  apply fold_right_absorb. apply H. simpl. auto.
Qed.

Theorem fold_idempotent_set : forall l l' s,
  (forall x, In x l <-> In x l') -> fold_right f s l = fold_right f s l'.
Proof.
  intros l l' s H.
  assert (H1 : fold_right f s (l ++ l') = fold_right f s l').
  { rewrite fold_right_app. apply fold_right_incl. intros x Hx. apply H. exact Hx. }
  assert (H2 : fold_right f s (l' ++ l) = fold_right f s l).
  { rewrite fold_right_app. apply fold_right_incl. intros x Hx. apply H. exact Hx. }
  rewrite <- H1, <- H2. apply fold_right_commutative_perm. apply Permutation_app_comm.
Qed.

End Fold.

(* ---------------------------------------------------------------- *)
(* M4: the range heap of rang3 (RangeModel.heap_of), filled by ranging over
   a map in mode.normalizeInputs *)

Definition range_cmp (a b : range) : comparison :=
  match Z.compare (rB a) (rB b) with
  | Eq => Z.compare (rE a) (rE b)
  | c => c
  end.

Lemma range_cmp_eq : forall a b, range_cmp a b = Eq -> a = b.
Proof.
  intros [a1 a2] [b1 b2]. unfold range_cmp, rB, rE. simpl.
  destruct (Z.compare_spec a1 b1); try discriminate.
  intros H'. apply Z.compare_eq in H'. congruence.
Qed.

Lemma range_cmp_refl : forall a, range_cmp a a = Eq.
Proof. intros a. unfold range_cmp. rewrite !Z.compare_refl. reflexivity. Qed.

Lemma range_cmp_antisym : forall a b, range_cmp a b = CompOpp (range_cmp b a).
Proof.
  intros a b. unfold range_cmp.
  destruct (Z.compare_spec (rB a) (rB b)); destruct (Z.compare_spec (rB b) (rB a));
    try lia; simpl; auto.
  destruct (Z.compare_spec (rE a) (rE b)); destruct (Z.compare_spec (rE b) (rE a));
    try lia; simpl; auto.
Qed.

Lemma range_cmp_lt : forall a b,
  range_cmp a b = Lt <-> (rB a < rB b \/ (rB a = rB b /\ rE a < rE b))%Z.
Proof.
  intros a b. unfold range_cmp.
  destruct (Z.compare_spec (rB a) (rB b)).
  - rewrite Z.compare_lt_iff. split; [auto|]. intros [H'|[_ H']]; [lia|auto].
  - split; auto.
  - split; [discriminate|]. intros [H'|[H' _]]; lia.
Qed.

Lemma range_cmp_trans : forall a b c,
  range_cmp a b = Lt -> range_cmp b c = Lt -> range_cmp a c = Lt.
Proof. intros a b c. rewrite !range_cmp_lt. lia. Qed.

Lemma heap_push_sinsert : forall x h, heap_push x h = sinsert range range_cmp x h.
Proof.
  intros x h. induction h as [|y h IH]; simpl; auto.
  unfold req, rlt, range_cmp.
  destruct (Z.compare_spec (rB x) (rB y)) as [Eb|Lb|Gb].
  - rewrite Eb, Z.eqb_refl, Z.ltb_irrefl. simpl.
    destruct (Z.compare_spec (rE x) (rE y)) as [Ee|Le|Ge].
    + rewrite Ee, Z.eqb_refl. reflexivity.
    + assert (H1 : (rE x =? rE y)%Z = false) by (apply Z.eqb_neq; lia).
      assert (H2 : (rE x <? rE y)%Z = true) by (apply Z.ltb_lt; lia).
      rewrite H1, H2. reflexivity.
    + assert (H1 : (rE x =? rE y)%Z = false) by (apply Z.eqb_neq; lia).
      assert (H2 : (rE x <? rE y)%Z = false) by (apply Z.ltb_ge; lia).
      rewrite H1, H2. rewrite IH. reflexivity.
  - assert (H1 : (rB x =? rB y)%Z = false) by (apply Z.eqb_neq; lia).
    assert (H2 : (rB x <? rB y)%Z = true) by (apply Z.ltb_lt; lia).
    rewrite H1, H2. reflexivity.
  - assert (H1 : (rB x =? rB y)%Z = false) by (apply Z.eqb_neq; lia).
    assert (H2 : (rB x <? rB y)%Z = false) by (apply Z.ltb_ge; lia).
    rewrite H1, H2. simpl. rewrite IH. reflexivity.
Qed.

Lemma heap_of_sdedup : forall l, heap_of l = sdedup range range_cmp (rev l).
Proof.
  intros l. unfold heap_of, sdedup. rewrite fold_left_rev_right.
  assert (H : forall acc, fold_left (fun h x => heap_push x h) l acc =
                          fold_left (fun h x => sinsert range range_cmp x h) l acc).
  { induction l as [|a l IH]; intros acc; simpl; auto.
    rewrite heap_push_sinsert. apply IH. }
  apply H.
Qed.

(* the heap depends only on the SET of ranges pushed *)
Theorem heap_of_set : forall l l',
  (forall x, In x l <-> In x l') -> heap_of l = heap_of l'.
Proof.
  intros l l' H. rewrite !heap_of_sdedup.
  apply (sorted_dedup_canonical range range_cmp range_cmp_eq range_cmp_refl
                                range_cmp_antisym range_cmp_trans).
  intros x. rewrite <- !in_rev. apply H.
Qed.

Theorem heap_of_perm : forall l l', Permutation l l' -> heap_of l = heap_of l'.
Proof.
  intros l l' H. apply heap_of_set. intros x. split; intros Hx.
  - eapply Permutation_in; eauto.
  - eapply Permutation_in; [apply Permutation_sym|]; eauto.
Qed.

Theorem normalize_perm : forall l l', Permutation l l' -> normalize l = normalize l'.
Proof.
  intros l l' H. unfold normalize, normalize_fuel.
  rewrite (heap_of_perm l l' H), (Permutation_length H). reflexivity.
Qed.

Print Assumptions sort_of_perm.
Print Assumptions sorted_dedup_canonical.
Print Assumptions fold_commutative_perm.
Print Assumptions fold_idempotent_set.
Print Assumptions heap_of_perm.
Print Assumptions normalize_perm.
