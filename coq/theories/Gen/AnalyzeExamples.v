(* A4: one small specification per diagnostic kind produced by [analyze]
   (Gen/Analyze.v), checked by computation.  Every example was also run
   through the real tool (lox at the pinned commit), the expected list is the
   tool's output (message -> kind, line -> declaration id).
   A2: the refutation of "accepted -> well formed" (one gap is left), and the
   three former gaps as positive examples. *)
From Coq Require Import List String Ascii ZArith Bool Arith.
From Lox Require Import Gen.Analyze.
Import ListNotations.
Local Open Scope string_scope.

(* ASCII literal *)
Definition L (s : string) : lterm :=
  LLit (map (fun a => Z.of_N (N_of_ascii a)) (list_ascii_of_string s)).
Definition one (t : lterm) : lexpr := [[(t, COne)]].
Definition sq (l : list lterm) : lexpr := [map (fun t => (t, COne)) l].
Definition tok (id : nat) (n s : string) : decl := DToken id n (one (L s)) [].

(* ---- accepted ---------------------------------------------------- *)

(*  @lexer
    A = 'a'                 (1)
    A_B = 'b' @push_mode(Mo) (2)
    @macro D = [0-9]        (3)
    NUM = D+                (4)
    @frag ' ' @discard      (5)
    @mode Mo { C = 'c' @pop_mode (7) }   (6)
    @parser
    @start s = A*! t? @list(A, 'b')? @error   (8)
    t = NUM | 'c'           (9)
    (lox then stops with "grammar has conflicts": a later phase) *)
Definition ex_ok : spec := [[
  tok 1 "A" "a"; DToken 2 "A_B" (one (L "b")) [APush "Mo"];
  DMacro 3 "D" (one (LClass [(48, 57)%Z]));
  DToken 4 "NUM" [[(LRef "D", COneOrMore)]] [];
  DFrag 5 (one (L " ")) [ADiscard];
  DMode 6 "Mo" [DToken 7 "C" (one (L "c")) [APop]];
  DRule 8 true "s" [[PCard PZeroOrMoreF (PName "A"); PCard PZeroOrOne (PName "t");
                     PList (PName "A") (PAlias "b") true; PError]];
  DRule 9 false "t" [[PName "NUM"]; [PAlias "c"]]]].
Example ex_ok_accepted :
  analyze ex_ok = [] /\ well_formed ex_ok = true /\ well_formed_weak ex_ok = true.
Proof. vm_compute. auto. Qed.

(* a lexer-only specification needs no @start *)
Example ex_lexer_only : analyze [[tok 1 "A" "a"]] = [] /\ well_formed [[tok 1 "A" "a"]] = true.
Proof. vm_compute. auto. Qed.

(* ---- CreateNames ------------------------------------------------- *)

(* One namespace; the second definition is blamed; the body of a rejected
   mode is not visited (no "C redefined"); a redefined rule is not considered
   for @start. *)
Definition ex_redefined : spec := [[
  tok 2 "A" "a"; tok 3 "A" "b"; DMacro 4 "A" (one (L "c"));
  DMode 5 "A" [tok 6 "C" "c"; tok 7 "C" "d"];
  DMode 9 "Mo" [tok 10 "D" "d"; tok 11 "D" "e"];
  DExternal 13 ["A"; "D"; "E"];
  DRule 15 true "s" [[PName "A"]]; DRule 16 true "s" [[PName "A"]];
  DRule 17 true "Mo" [[PName "A"]]; DRule 18 true "t" [[PName "A"]]]].
Example ex_redefined_diags :
  analyze ex_redefined =
  [(KRedefined, Some 3); (KRedefined, Some 4); (KRedefined, Some 5); (KRedefined, Some 11);
   (KRedefined, Some 13); (KRedefined, Some 13); (KRedefined, Some 16); (KRedefined, Some 17);
   (KStartRedefined, Some 18)].
Proof. vm_compute. reflexivity. Qed.

(* two files: the one read second is blamed *)
Example ex_redefined_files :
  analyze [[tok 102 "A" "a"; DRule 105 true "t" [[PName "A"]]];
           [tok 202 "A" "b"; DRule 208 true "s" [[PName "A"]]]]
  = [(KRedefined, Some 202); (KStartRedefined, Some 208)].
Proof. vm_compute. reflexivity. Qed.

(* validateTokenName: tokens, macros, external names -- not modes, not rules *)
Definition ex_names : spec := [[
  tok 2 "Ab" "a"; tok 3 "A_" "b"; tok 4 "A__B" "c"; tok 5 "EOF" "d"; tok 6 "ERROR" "e";
  DMacro 7 "m" (one (L "c")); DMacro 8 "EOF" (one (L "c"));
  DExternal 9 ["x"; "ERROR"; "OK_1"];
  DMode 10 "lower_mode__" [tok 11 "Z9" "z"];
  tok 13 "A1_B" "q";
  DRule 15 true "a__b" [[PName "A1_B"; PName "Ab"]]]].
Example ex_names_diags :
  analyze ex_names =
  [(KBadName, Some 2); (KBadName, Some 3); (KBadName, Some 4); (KReservedName, Some 5);
   (KReservedName, Some 6); (KBadName, Some 7); (KReservedName, Some 8); (KBadName, Some 9);
   (KReservedName, Some 9)].
Proof. vm_compute. reflexivity. Qed.

(* ---- Check ------------------------------------------------------- *)

(* A, B share the literal 'a' (ambiguous); C = 'c'+, D = 'd' | 'dd',
   E = ('e') get no alias; X is external. *)
Definition ex_check : spec := [[
  tok 2 "A" "a"; tok 3 "B" "a";
  DToken 4 "C" [[(L "c", COneOrMore)]] [];
  DToken 5 "D" [[(L "d", COne)]; [(L "dd", COne)]] [];
  DToken 6 "E" (one (LGroup (one (L "e")))) [];
  tok 7 "F" "f";
  DMacro 8 "M" (sq [L "x"; LRef "UNDEF"; LRef "A"]);
  DToken 9 "G" (sq [LRef "M"; LRef "Mo"; LRef "s"; L ""])
         [APush "Nope"; APush "$default"; APush "Mo"; APush "A"];
  DFrag 10 (one (L "y")) [AEmit "M"; AEmit "NOPE"; AEmit "A"; AEmit "s"; AEmit "X"];
  DExternal 11 ["X"];
  DMode 12 "Mo" [DToken 13 "H" [[(L "", CZeroOrOne);
                                  (LGroup [[(L "", COne)]; [(LRef "Q", COne)]], COne)]] [APop]];
  DRule 16 true "s" [[PName "A"; PAlias "a"; PAlias "c"; PAlias "d"; PAlias "e"; PAlias "f";
                      PName "M"; PName "Mo"; PName "X"; PName "s"; PName "undefined"; PName "A"]];
  DRule 17 false "t" [[PList (PName "A") (PList (PName "A") (PName "B") false) false];
                      [PList PError (PName "A") false];
                      [PList (PName "A") PError false];
                      [PList (PName "u") (PAlias "zz") true];
                      [PList (PList (PName "A") (PName "B") false) PError false]];
  DRule 18 false "u" [[PCard PZeroOrMore (PName "X")]; [PName "A"]]]].
Example ex_check_diags :
  analyze ex_check =
  [(KUndefined, Some 8); (KNotAMacro, Some 8);
   (KNotAMacro, Some 9); (KNotAMacro, Some 9); (KEmptyLiteral, Some 9);
   (KUndefinedMode, Some 9); (KUndefinedMode, Some 9);
   (KNotAToken, Some 10); (KUndefined, Some 10); (KNotAToken, Some 10); (KNotAToken, Some 10);
   (KEmptyLiteral, Some 13); (KEmptyLiteral, Some 13); (KUndefined, Some 13);
   (KAmbiguousAlias, Some 16); (KUnknownAlias, Some 16); (KUnknownAlias, Some 16);
   (KUnknownAlias, Some 16); (KNotRuleOrToken, Some 16); (KNotRuleOrToken, Some 16);
   (KNotRuleOrToken, Some 16); (KUndefined, Some 16);
   (KListSepNotSimple, Some 17); (KListEntryNotSimple, Some 17); (KListSepNotSimple, Some 17);
   (KUnknownAlias, Some 17); (KListEntryNotSimple, Some 17);
   (KNotRuleOrToken, Some 18)].
Proof. vm_compute. reflexivity. Qed.

(* non-ASCII literal: the alias key is the UTF-8 byte string *)
Example ex_utf8_alias :
  analyze [[DToken 2 "A" (one (LLit [19990%Z])) []; DToken 3 "B" (one (LLit [233%Z])) [];
            DRule 5 true "s" [[PAlias (String (ascii_of_nat 228) (String (ascii_of_nat 184)
                                        (String (ascii_of_nat 150) "")));
                               PAlias (String (ascii_of_nat 195) (String (ascii_of_nat 169) ""));
                               PAlias "e"]]]]
  = [(KUnknownAlias, Some 5)].
Proof. vm_compute. reflexivity. Qed.

(* ---- Check: ranges, macro cycles, empty parser literal ------------- *)

(* A = [z-a]; B = [a-b] [z-a c-b x] - [b-a q-p]; M = [9-0] N; N = M; C = ~[b-a]
   one diagnostic per reversed item; M's own diagnostic switches the cycle
   walk off *)
Definition ex_ranges : spec := [[
  DToken 2 "A" (one (LClass [(122, 97)%Z])) [];
  DToken 3 "B" (sq [LClass [(97, 98)%Z];
                    LClass [(122, 97); (99, 98); (120, 120); (98, 97); (113, 112)]%Z]) [];
  DMacro 4 "M" (sq [LClass [(57, 48)%Z]; LRef "N"]);
  DMacro 5 "N" (one (LRef "M"));
  DToken 6 "C" (one (LClass [(98, 97)%Z])) []]].
Example ex_ranges_diags :
  analyze ex_ranges =
  [(KBadRange, Some 2); (KBadRange, Some 3); (KBadRange, Some 3); (KBadRange, Some 3);
   (KBadRange, Some 3); (KBadRange, Some 4); (KBadRange, Some 6)].
Proof. vm_compute. reflexivity. Qed.

(* M = N; N = P; P = N; Q = Q; B = Q : the walk from M re-enters N, which is
   blamed; nothing is logged afterwards (HasError stops every later walk) *)
Example ex_cycle_once :
  analyze [[tok 2 "A" "a"; DMacro 3 "M" (one (LRef "N")); DMacro 4 "N" (one (LRef "P"));
            DMacro 5 "P" (one (LRef "N")); DMacro 6 "Q" (one (LRef "Q"));
            DToken 7 "B" (one (LRef "Q")) []]]
  = [(KMacroCycle, Some 4)].
Proof. vm_compute. reflexivity. Qed.

(* K = 'k' ('x' | A | Q); Q = Q; R = R : an earlier diagnostic hides all cycles *)
Example ex_cycle_masked :
  analyze [[tok 2 "A" "a";
            DMacro 3 "K" (sq [L "k"; LGroup [[(L "x", COne)]; [(LRef "A", COne)]; [(LRef "Q", COne)]]]);
            DMacro 4 "Q" (one (LRef "Q")); DMacro 5 "R" (one (LRef "R"))]]
  = [(KNotAMacro, Some 3)].
Proof. vm_compute. reflexivity. Qed.

(* M = 'x' (A2 | N) N; A2 = 'y'; N = A2 M; B = UNDEF; R = R;
   @start s = A '' | @list('', A) | @list(A, '')? *)
Example ex_cycle_then_others :
  analyze [[tok 2 "A" "a";
            DMacro 3 "M" (sq [L "x"; LGroup [[(LRef "A2", COne)]; [(LRef "N", COne)]]; LRef "N"]);
            DMacro 4 "A2" (one (L "y")); DMacro 5 "N" (sq [LRef "A2"; LRef "M"]);
            DToken 6 "B" (one (LRef "UNDEF")) []; DMacro 7 "R" (one (LRef "R"));
            DRule 9 true "s" [[PName "A"; PAlias ""]; [PList (PAlias "") (PName "A") false];
                              [PList (PName "A") (PAlias "") true]]]]
  = [(KMacroCycle, Some 3); (KUndefined, Some 6); (KEmptyLiteral, Some 9);
     (KEmptyLiteral, Some 9); (KEmptyLiteral, Some 9)].
Proof. vm_compute. reflexivity. Qed.

(* ---- GenerateGrammar --------------------------------------------- *)

(* K = 'k' is an ordinary macro.  A token reports only its first offending
   action; a fragment: second @discard / second @emit inside the loop, both
   after it. *)
Definition ex_gen : spec := [[
  DToken 2 "A" (one (L "a")) [ADiscard; AEmit "A"];
  DToken 3 "B" (one (L "b")) [AEmit "B"; ADiscard];
  DToken 4 "C" (one (L "c")) [APop; APush "$default"; AEmit "A"];
  DMacro 7 "K" (one (L "k"));
  DFrag 13 (one (L "f")) [ADiscard; ADiscard; AEmit "A"; AEmit "A"];
  DFrag 14 (one (L "g")) [AEmit "A"; ADiscard; AEmit "B"];
  DFrag 15 (one (L "h")) [AEmit "A"; APop; ADiscard];
  DFrag 16 (one (L "i")) [ADiscard; AEmit "A"];
  DFrag 17 (one (L "j")) [AEmit "A"; AEmit "A"; ADiscard; ADiscard];
  DFrag 18 (one (LRef "K")) [ADiscard; ADiscard];
  DMode 19 "Mo" [DToken 20 "G" (sq [L "g"; LRef "K"]) [ADiscard]];
  DRule 23 false "s" [[PName "A"]]]].
Example ex_gen_diags :
  analyze ex_gen =
  [(KTokenDiscard, Some 2); (KTokenEmit, Some 3); (KTokenEmit, Some 4);
   (KFragTwoDiscard, Some 13); (KFragTwoEmit, Some 14); (KFragDiscardAndEmit, Some 15);
   (KFragDiscardAndEmit, Some 16); (KFragTwoEmit, Some 17); (KFragTwoDiscard, Some 18);
   (KTokenDiscard, Some 20)].
Proof. vm_compute. reflexivity. Qed.

(* "@start rule undefined": general error, only when nothing else was logged *)
Example ex_start_undefined :
  analyze [[tok 2 "A" "a"; DRule 4 false "s" [[PName "A"]]; DRule 5 false "t" [[PName "s"]]]]
  = [(KStartUndefined, None)].
Proof. vm_compute. reflexivity. Qed.

Example ex_start_undefined_masked :
  analyze [[tok 2 "A" "a"; DFrag 3 (one (L "z")) [AEmit "A"; AEmit "A"];
            DRule 5 false "s" [[PName "A"]]]]
  = [(KFragTwoEmit, Some 3)].
Proof. vm_compute. reflexivity. Qed.

(* a later pass is not run: the token @discard of G is not reported while
   Check has something to say *)
Example ex_first_pass_only :
  analyze [[DToken 1 "G" (one (LRef "NOPE")) [ADiscard]]] = [(KUndefined, Some 1)].
Proof. vm_compute. reflexivity. Qed.

(* ---- A2 ---------------------------------------------------------- *)

(* Three former gaps, closed by c05ffe8 / 938df3a / b7deef5: now rejected.
   A = [z-a] *)
Definition spec_reversed_range : spec := [[DToken 1 "A" (one (LClass [(122, 97)%Z])) []]].
Example reversed_range_rejected :
  analyze spec_reversed_range = [(KBadRange, Some 1)] /\ well_formed spec_reversed_range = false.
Proof. vm_compute. auto. Qed.

(* A = 'a'; @macro M = N; @macro N = M  (never used) *)
Definition spec_unused_cycle : spec :=
  [[tok 1 "A" "a"; DMacro 2 "M" (one (LRef "N")); DMacro 3 "N" (one (LRef "M"))]].
Example unused_macro_cycle_rejected :
  analyze spec_unused_cycle = [(KMacroCycle, Some 2)] /\ well_formed spec_unused_cycle = false.
Proof. vm_compute. auto. Qed.

Example used_macro_cycle_rejected :
  analyze [[DToken 1 "A" (one (LRef "M")) []; DMacro 2 "M" (one (LRef "N"));
            DMacro 3 "N" (one (LRef "M"))]] = [(KMacroCycle, Some 2)].
Proof. vm_compute. reflexivity. Qed.

(* @start s = A '' *)
Definition spec_empty_alias : spec :=
  [[tok 1 "A" "a"; DRule 2 true "s" [[PName "A"; PAlias ""]]]].
Example empty_alias_rejected :
  analyze spec_empty_alias = [(KEmptyLiteral, Some 2)] /\ well_formed spec_empty_alias = false.
Proof. vm_compute. auto. Qed.

(* The remaining gap: @start a__b = A  -- parser_reference.md forbids
   consecutive underscores in rule names, lox accepts them. *)
Definition spec_rule_name : spec := [[tok 1 "A" "a"; DRule 2 true "a__b" [[PName "A"]]]].
Example rule_name_refuted :
  analyze spec_rule_name = [] /\ well_formed spec_rule_name = false /\
  well_formed_weak spec_rule_name = true.
Proof. vm_compute. auto. Qed.

(* "accepted only if well formed" does not hold of lox *)
Theorem analyze_rejects_iff_refuted : ~ (forall s, analyze s = [] -> well_formed s = true).
Proof.
  intros H. destruct rule_name_refuted as [H1 [H2 _]].
  specialize (H spec_rule_name H1). rewrite H2 in H. discriminate.
Qed.
