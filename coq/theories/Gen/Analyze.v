(* Executable model of the semantic analysis lox performs on a specification
   (the .lox files of one package) before it generates anything:
   /repo/internal/ast (Context.Analyze and the RunPass methods),
   /repo/internal/parser/parser.go (how the AST is built).

   1. [analyze]          : exact mirror of the diagnostics (errors, not the
                           "info" lines) of the FIRST pass that reports any,
                           in report order; [] when the spec is accepted.
   2. [well_formed]      : property C17's list as a decidable predicate.
   3. [well_formed_weak] : what lox really enforces ([well_formed] minus the
                           one clause lox does not check: the shape of parser
                           rule names, see the end of file).

   The model follows the tree AFTER the fixes c05ffe8 (reversed class range
   rejected), 938df3a (macro cycles found in the Check pass, used or not) and
   b7deef5 (empty literal '' as a parser term rejected).

   Definitions only (extracted to OCaml and run against the real tool); the
   theorems are in AnalyzeProofs*.v.

   Pass order (context.go): CreateNames, Check, Normalize, GenerateGrammar;
   Context.Analyze stops after the first pass that logged an error.
   Normalize cannot log (the helper rules it creates are named "X*", "X+",
   "X?", "X*!", "@list(X,Y)", "@list(X,Y)?" which no user name can equal and
   it asserts the absence of errors), so it is not modelled.
   Not modelled either: errors of the syntax phase (they stop lox before
   Analyze, e.g. "@list term can only use the zero-or-more '?' cardinality")
   and mode.go's "Conflicting lexer actions" (needs the DFA; only between
   rules of different files). *)
From Coq Require Import List String Ascii ZArith Bool Arith.
Import ListNotations.

(* ------------------------------------------------------------------ *)
(* The abstract specification type (shared with the harness)           *)

Inductive card := COne | CZeroOrOne | CZeroOrMore | CZeroOrMoreNG | COneOrMore | COneOrMoreNG.

Inductive lterm :=
| LLit (cps : list Z)              (* literal: its code points after unescaping *)
| LRef (name : string)             (* reference to a macro *)
| LClass (c : list (Z * Z))        (* raw class items after pairing (from,to) *)
| LGroup (alts : list (list (lterm * card))).

Definition lexpr := list (list (lterm * card)).      (* alternatives of sequences *)

(* [APush m]: "@push_mode(m)"; "@push_mode()" is [APush "$default"]
   (parser.go on_action_push_mode). *)
Inductive laction := ADiscard | APush (mode : string) | APop | AEmit (tok : string).

Inductive pcard := PZeroOrMore | PZeroOrMoreF | POneOrMore | PZeroOrOne.

(* [PAlias lit]: a literal used as a parser term; [lit] is the unescaped
   literal as a byte string (UTF-8), i.e. Go's string. *)
Inductive pterm :=
| PName (n : string) | PAlias (lit : string) | PError
| PCard (k : pcard) (t : pterm) | PList (elem sep : pterm) (opt : bool).

Inductive decl :=
| DToken (id : nat) (name : string) (e : lexpr) (acts : list laction)
| DFrag (id : nat) (e : lexpr) (acts : list laction)
| DMacro (id : nat) (name : string) (e : lexpr)
| DExternal (id : nat) (names : list string)
| DMode (id : nat) (name : string) (body : list decl)
| DRule (id : nat) (start : bool) (name : string) (prods : list (list pterm)).

Definition spec := list (list decl).   (* files, in the order lox reads them *)

Inductive dkind :=
| KRedefined | KBadName | KReservedName | KUndefined | KNotAToken | KNotAMacro
| KNotRuleOrToken | KUnknownAlias | KAmbiguousAlias | KUndefinedMode
| KStartRedefined | KStartUndefined | KEmptyLiteral | KTokenDiscard | KTokenEmit
| KFragTwoDiscard | KFragTwoEmit | KFragDiscardAndEmit | KMacroCycle
| KListEntryNotSimple | KListSepNotSimple | KOther
| KBadRange.                         (* appended last: constructor indices are stable *)

(* kind, id of the declaration the reported position lies in *)
Definition diag := (dkind * option nat)%type.

(* Message text -> dkind:
   "N redefined" KRedefined; "name must be all uppercase..." KBadName;
   "sorry, "N" is a reserved name" KReservedName; "undefined: N" KUndefined;
   "not a token: N" KNotAToken; "term is not a macro: N" KNotAMacro;
   "N is not a parser or token rule" KNotRuleOrToken;
   "unknown token literal: 'x'" KUnknownAlias; "ambiguous token literal: 'x'"
   KAmbiguousAlias; "undefined mode: N" KUndefinedMode; "@start redefined: N"
   KStartRedefined; "@start rule undefined" KStartUndefined (no position);
   "literal cannot be empty" KEmptyLiteral; "tokens cannot be discarded; use
   @frag instead" KTokenDiscard; "@emit is not allowed in token actions"
   KTokenEmit; "@frag can only have one @discard action" KFragTwoDiscard;
   "@frag can only have one @emit action" KFragTwoEmit; "@frag cannot be
   discarded and emitted at the same time" KFragDiscardAndEmit; "macro cycle
   detected" KMacroCycle (position: the macro that closes the cycle);
   "@list entry param must be a simple token or rule" KListEntryNotSimple;
   "@list separator param must be a simple token or rule" KListSepNotSimple;
   "invalid character range 'z'-'a': lower bound is above upper bound"
   KBadRange.  KOther is never produced by this model. *)

Definition decl_id (d : decl) : nat :=
  match d with
  | DToken id _ _ _ | DFrag id _ _ | DMacro id _ _ | DExternal id _
  | DMode id _ _ | DRule id _ _ _ => id
  end.

(* ------------------------------------------------------------------ *)
(* validateTokenName (lexer_token_rule.go)                             *)

Definition in_range (lo hi : nat) (c : ascii) : bool :=
  let n := nat_of_ascii c in (lo <=? n) && (n <=? hi).
Definition is_upper := in_range 65 90.
Definition is_lower := in_range 97 122.
Definition is_digit := in_range 48 57.
Definition is_us := in_range 95 95.

Fixpoint all_chars (p : ascii -> bool) (s : string) : bool :=
  match s with
  | EmptyString => true
  | String c r => p c && all_chars p r
  end.

Fixpoint ends_with_us (s : string) : bool :=
  match s with
  | EmptyString => false
  | String c r => match r with EmptyString => is_us c | String _ _ => ends_with_us r end
  end.

Fixpoint has_double_us (s : string) : bool :=
  match s with
  | EmptyString => false
  | String c r =>
      match r with
      | EmptyString => false
      | String c2 _ => (is_us c && is_us c2) || has_double_us r
      end
  end.

(* regexp ^[A-Z][A-Z0-9_]*$ *)
Definition token_regex (s : string) : bool :=
  match s with
  | EmptyString => false
  | String c r => is_upper c && all_chars (fun c => is_upper c || is_digit c || is_us c) r
  end.

Definition reserved_name (s : string) : bool := String.eqb s "EOF"%string || String.eqb s "ERROR"%string.

Inductive name_verdict := NameOk | NameBad | NameReserved.

Definition validate_token_name (s : string) : name_verdict :=
  if negb (token_regex s) || ends_with_us s || has_double_us s then NameBad
  else if reserved_name s then NameReserved
  else NameOk.

(* ------------------------------------------------------------------ *)
(* UTF-8 (the alias table is keyed by the literal as a Go string)      *)

Definition byte_of (z : Z) : ascii := ascii_of_N (Z.to_N z).

Definition utf8_cp (c : Z) : list ascii :=
  (if c <? 128 then [byte_of c]
   else if c <? 2048 then [byte_of (192 + c / 64); byte_of (128 + c mod 64)]
   else if c <? 65536 then
     [byte_of (224 + c / 4096); byte_of (128 + (c / 64) mod 64); byte_of (128 + c mod 64)]
   else
     [byte_of (240 + c / 262144); byte_of (128 + (c / 4096) mod 64);
      byte_of (128 + (c / 64) mod 64); byte_of (128 + c mod 64)])%Z.

Definition utf8 (cps : list Z) : string := string_of_list_ascii (flat_map utf8_cp cps).

(* ------------------------------------------------------------------ *)
(* Flattening                                                          *)

(* The leaves of a lexer term, in the order lox visits them (RunPass and
   NFACons both go alternatives, then sequence, left to right). *)
Fixpoint lterm_atoms (t : lterm) : list lterm :=
  match t with
  | LGroup alts =>
      flat_map (fun sq => flat_map (fun tc => lterm_atoms (fst tc)) sq) alts
  | _ => [t]
  end.

Definition lexpr_atoms (e : lexpr) : list lterm :=
  flat_map (fun sq => flat_map (fun tc => lterm_atoms (fst tc)) sq) e.

(* A declaration followed by the declarations nested in it (mode bodies),
   in source order = the order every pass visits them. *)
Fixpoint flat_decl (d : decl) : list decl :=
  match d with
  | DMode _ _ body => d :: flat_map flat_decl body
  | _ => [d]
  end.

Definition all_decls (s : spec) : list decl := flat_map flat_decl (List.concat s).

(* ------------------------------------------------------------------ *)
(* Name tables                                                         *)

(* What a name denotes (ctx.names : one map for tokens, macros, modes, rules
   and external names). *)
Inductive entry :=
| EToken (id : nat) | EMacro (id : nat) (body : lexpr) | EExternal (id : nat)
| EMode (id : nat) | ERule (id : nat).

Definition names := list (string * entry).

Fixpoint lookup (n : string) (t : names) : option entry :=
  match t with
  | [] => None
  | (m, e) :: r => if String.eqb n m then Some e else lookup n r
  end.

Definition mem_str (n : string) (l : list string) : bool := existsb (String.eqb n) l.

Fixpoint count_str (n : string) (l : list string) : nat :=
  match l with
  | [] => 0
  | m :: r => (if String.eqb n m then 1 else 0) + count_str n r
  end.

(* The analysis context after (part of) CreateNames.
   n_aliases: one entry per registered token that is exactly one literal with
   cardinality One (ctx.aliases; a literal occurring twice is ambiguous);
   n_modes: ctx.LexerModes; n_start: ctx.StartParserRule != nil;
   n_rules: ctx.HasParserRules. *)
Record nstate := mkN {
  n_names : names;
  n_aliases : list string;
  n_modes : list string;
  n_start : bool;
  n_rules : bool }.

Definition default_mode : string := "$default"%string.

(* NewContext + Spec.RunPass(CreateNames): the default mode exists. *)
Definition nstate0 : nstate := mkN [] [] [default_mode] false false.

Definition add_name (n : string) (e : entry) (st : nstate) : nstate :=
  mkN (n_names st ++ [(n, e)]) (n_aliases st) (n_modes st) (n_start st) (n_rules st).
Definition add_alias (a : string) (st : nstate) : nstate :=
  mkN (n_names st) (n_aliases st ++ [a]) (n_modes st) (n_start st) (n_rules st).
Definition add_mode (m : string) (st : nstate) : nstate :=
  mkN (n_names st) (n_aliases st) (n_modes st ++ [m]) (n_start st) (n_rules st).
Definition set_start (st : nstate) : nstate :=
  mkN (n_names st) (n_aliases st) (n_modes st) true (n_rules st).
Definition set_rules (st : nstate) : nstate :=
  mkN (n_names st) (n_aliases st) (n_modes st) (n_start st) true.

(* "len(Factors)==1 && len(Terms)==1 && Card==One && Term is a literal" *)
Definition simple_literal (e : lexpr) : option (list Z) :=
  match e with
  | [[(LLit cps, COne)]] => Some cps
  | _ => None
  end.

(* ------------------------------------------------------------------ *)
(* Pass 1: CreateNames                                                 *)

(* validateTokenName (when [validate]) then RegisterName.  The declaration
   that comes second is the one blamed for a redefinition; a rejected name is
   not registered. *)
Definition cn_name (validate : bool) (n : string) (e : entry) (id : nat) (st : nstate)
  : nstate * list diag :=
  match (if validate then validate_token_name n else NameOk) with
  | NameBad => (st, [(KBadName, Some id)])
  | NameReserved => (st, [(KReservedName, Some id)])
  | NameOk =>
      match lookup n (n_names st) with
      | Some _ => (st, [(KRedefined, Some id)])
      | None => (add_name n e st, [])
      end
  end.

(* ExternalRule: every name is tried, independently of the others. *)
Fixpoint cn_ext (id : nat) (ns : list string) (st : nstate) : nstate * list diag :=
  match ns with
  | [] => (st, [])
  | n :: r =>
      let '(st1, d1) := cn_name true n (EExternal id) id st in
      let '(st2, d2) := cn_ext id r st1 in
      (st2, d1 ++ d2)
  end.

(* What the declaration itself does in CreateNames (mode bodies apart). *)
Definition cn_own (d : decl) (st : nstate) : nstate * list diag :=
  match d with
  | DToken id n e _ =>
      let '(st1, d1) := cn_name true n (EToken id) id st in
      match d1 with
      | [] => (match simple_literal e with
               | Some cps => add_alias (utf8 cps) st1
               | None => st1
               end, [])
      | _ => (st1, d1)
      end
  | DFrag _ _ _ => (st, [])
  | DMacro id n e => cn_name true n (EMacro id e) id st
  | DExternal id ns => cn_ext id ns st
  | DMode id n _ =>
      let '(st1, d1) := cn_name false n (EMode id) id st in
      match d1 with
      | [] => (add_mode n st1, [])
      | _ => (st1, d1)
      end
  | DRule id start n _ =>
      let '(st1, d1) := cn_name false n (ERule id) id (set_rules st) in
      match d1 with
      | [] =>
          if start then
            if n_start st1 then (st1, [(KStartRedefined, Some id)])
            else (set_start st1, [])
          else (st1, [])
      | _ => (st1, d1)
      end
  end.

(* Mode.RunPass: when the mode's name is rejected its body is not visited. *)
Fixpoint cn_decl (d : decl) (st : nstate) {struct d} : nstate * list diag :=
  let '(st1, d1) := cn_own d st in
  match d with
  | DMode _ _ body =>
      match d1 with
      | [] =>
          (fix go (ds : list decl) (st : nstate) {struct ds} : nstate * list diag :=
             match ds with
             | [] => (st, [])
             | d :: r =>
                 let '(st1, d1) := cn_decl d st in
                 let '(st2, d2) := go r st1 in
                 (st2, d1 ++ d2)
             end) body st1
      | _ => (st1, d1)
      end
  | _ => (st1, d1)
  end.

Fixpoint cn_decls (ds : list decl) (st : nstate) {struct ds} : nstate * list diag :=
  match ds with
  | [] => (st, [])
  | d :: r =>
      let '(st1, d1) := cn_decl d st in
      let '(st2, d2) := cn_decls r st1 in
      (st2, d1 ++ d2)
  end.

Definition pass_names (s : spec) : nstate * list diag := cn_decls (List.concat s) nstate0.

(* ------------------------------------------------------------------ *)
(* Macro expansion (used by Check for cycles and by GenerateGrammar)   *)

(* MacroRule.NFACons (GenerateGrammar): a macro is expanded every time a token
   or fragment rule reaches it; [stk] = the macros whose cycleDetect flag is
   set.  Since 938df3a a cyclic macro no longer gets this far (Check fails
   first); the code is still there and so is its mirror.  The diagnostic is positioned at the macro that is re-entered, expansion then
   continues with the next term.  Each recursive call pushes a macro that is
   not on the stack, so [fuel] > number of names is never exhausted (the fuel
   branch reports a cycle to stay on the safe side). *)
Fixpoint expand_atom (tbl : names) (fuel : nat) (stk : list string) (a : lterm)
  {struct fuel} : list diag :=
  match a with
  | LRef n =>
      match lookup n tbl with
      | Some (EMacro mid body) =>
          if mem_str n stk then [(KMacroCycle, Some mid)]
          else match fuel with
               | 0 => [(KMacroCycle, Some mid)]
               | S f => flat_map (expand_atom tbl f (n :: stk)) (lexpr_atoms body)
               end
      | _ => []
      end
  | _ => []
  end.

Definition expand_fuel (tbl : names) : nat := S (List.length tbl).

Definition expand_lexpr (tbl : names) (e : lexpr) : list diag :=
  flat_map (expand_atom tbl (expand_fuel tbl) []) (lexpr_atoms e).

(* MacroRule.checkCycle (Check pass): the same depth-first walk over macro
   references BY NAME, but the descent into a referenced macro happens only
   while no error at all has been logged (!ctx.Errs.HasError()), so the walk
   stops at the first re-entered macro: the first diagnostic [expand_atom]
   would produce, computed directly. *)
Fixpoint first_some {A B : Type} (f : A -> option B) (l : list A) : option B :=
  match l with
  | [] => None
  | a :: r => match f a with Some b => Some b | None => first_some f r end
  end.

Fixpoint cyc_atom (tbl : names) (fuel : nat) (stk : list string) (a : lterm)
  {struct fuel} : option diag :=
  match a with
  | LRef n =>
      match lookup n tbl with
      | Some (EMacro mid body) =>
          if mem_str n stk then Some (KMacroCycle, Some mid)
          else match fuel with
               | 0 => Some (KMacroCycle, Some mid)
               | S f => first_some (cyc_atom tbl f (n :: stk)) (lexpr_atoms body)
               end
      | _ => None
      end
  | _ => None
  end.

(* checkCycle of macro [n] = [e], called with nothing logged so far *)
Definition macro_cycle_diag (tbl : names) (n : string) (e : lexpr) : list diag :=
  match first_some (cyc_atom tbl (List.length tbl) [n]) (lexpr_atoms e) with
  | Some d => [d]
  | None => []
  end.

(* ------------------------------------------------------------------ *)
(* Pass 2: Check.  Mode.RunPass only iterates its rules here, so the pass is
   a plain left-to-right traversal of [all_decls].                       *)

(* LexerTermLiteral / LexerTermRef / LexerTermCharClass .RunPass(Check).
   CharClass.RunPass: one diagnostic per item with From > To, in item order
   (for a difference: the items of the left class, then of the right). *)
Definition ck_range (id : nat) (it : Z * Z) : list diag :=
  if (snd it <? fst it)%Z then [(KBadRange, Some id)] else [].

Definition ck_atom (st : nstate) (id : nat) (a : lterm) : list diag :=
  match a with
  | LLit [] => [(KEmptyLiteral, Some id)]
  | LLit _ => []
  | LRef n =>
      match lookup n (n_names st) with
      | None => [(KUndefined, Some id)]
      | Some (EMacro _ _) => []
      | Some _ => [(KNotAMacro, Some id)]
      end
  | LClass items => flat_map (ck_range id) items
  | LGroup _ => []
  end.

Definition ck_lexpr (st : nstate) (id : nat) (e : lexpr) : list diag :=
  flat_map (ck_atom st id) (lexpr_atoms e).

(* action.go *)
Definition ck_action (st : nstate) (id : nat) (a : laction) : list diag :=
  match a with
  | ADiscard | APop => []
  | APush m => if mem_str m (n_modes st) then [] else [(KUndefinedMode, Some id)]
  | AEmit t =>
      match lookup t (n_names st) with
      | None => [(KUndefined, Some id)]
      | Some (EToken _) => []
      | Some _ => [(KNotAToken, Some id)]
      end
  end.

Definition pterm_simple (t : pterm) : bool :=
  match t with PName _ | PAlias _ => true | _ => false end.

(* parser_term.go preCheck, children, postCheck.  An EMPTY literal '' is
   "literal cannot be empty".  An external name is "not a parser or token
   rule". *)
Fixpoint ck_pterm (st : nstate) (id : nat) (t : pterm) : list diag :=
  match t with
  | PName n =>
      match lookup n (n_names st) with
      | None => [(KUndefined, Some id)]
      | Some (ERule _) | Some (EToken _) => []
      | Some _ => [(KNotRuleOrToken, Some id)]
      end
  | PAlias lit =>
      if String.eqb lit ""%string then [(KEmptyLiteral, Some id)]
      else match count_str lit (n_aliases st) with
           | 0 => [(KUnknownAlias, Some id)]
           | 1 => []
           | _ => [(KAmbiguousAlias, Some id)]
           end
  | PError => []
  | PCard _ c => ck_pterm st id c
  | PList e sp _ =>
      ck_pterm st id e ++ ck_pterm st id sp ++
      (if negb (pterm_simple e) then [(KListEntryNotSimple, Some id)]
       else if negb (pterm_simple sp) then [(KListSepNotSimple, Some id)]
       else [])
  end.

Definition nonempty {A : Type} (l : list A) : bool := match l with [] => false | _ => true end.

(* [err]: has anything been logged so far (ctx.Errs.HasError(); CreateNames
   logged nothing, else Check would not run).  Only MacroRule.checkCycle looks
   at it: after the macro's own expression has been checked, the cycle walk
   runs only if nothing at all has been logged -- so the whole run reports at
   most one macro cycle, and none after any other diagnostic. *)
Definition ck_decl (st : nstate) (err : bool) (d : decl) : list diag :=
  match d with
  | DToken id _ e acts | DFrag id e acts => ck_lexpr st id e ++ flat_map (ck_action st id) acts
  | DMacro id n e =>
      let d1 := ck_lexpr st id e in
      d1 ++ (if err || nonempty d1 then [] else macro_cycle_diag (n_names st) n e)
  | DExternal _ _ => []
  | DMode _ _ _ => []                      (* body: see all_decls *)
  | DRule id _ _ prods => flat_map (flat_map (ck_pterm st id)) prods
  end.

Fixpoint ck_decls (st : nstate) (err : bool) (ds : list decl) : list diag :=
  match ds with
  | [] => []
  | d :: r => let dd := ck_decl st err d in dd ++ ck_decls st (err || nonempty dd) r
  end.

Definition pass_check (st : nstate) (s : spec) : list diag :=
  ck_decls st false (all_decls s).

(* ------------------------------------------------------------------ *)
(* Pass 4: GenerateGrammar                                             *)

(* TokenRule: the first @discard or @emit is reported and the rule is left. *)
Fixpoint token_actions (id : nat) (acts : list laction) : list diag :=
  match acts with
  | [] => []
  | ADiscard :: _ => [(KTokenDiscard, Some id)]
  | AEmit _ :: _ => [(KTokenEmit, Some id)]
  | _ :: r => token_actions id r
  end.

(* FragRule: second @discard / second @emit inside the loop, both after it. *)
Fixpoint frag_actions (id : nat) (has_d has_e : bool) (acts : list laction) : list diag :=
  match acts with
  | [] => if has_d && has_e then [(KFragDiscardAndEmit, Some id)] else []
  | ADiscard :: r =>
      if has_d then [(KFragTwoDiscard, Some id)] else frag_actions id true has_e r
  | AEmit _ :: r =>
      if has_e then [(KFragTwoEmit, Some id)] else frag_actions id has_d true r
  | _ :: r => frag_actions id has_d has_e r
  end.

Definition gen_decl (st : nstate) (d : decl) : list diag :=
  match d with
  | DToken id _ e acts => expand_lexpr (n_names st) e ++ token_actions id acts
  | DFrag id e acts => expand_lexpr (n_names st) e ++ frag_actions id false false acts
  | _ => []
  end.

(* Spec.RunPass: "@start rule undefined" only when nothing else was logged
   (ctx.Errs.HasError() short-circuit) and there are parser rules. *)
Definition pass_gen (st : nstate) (s : spec) : list diag :=
  match flat_map (gen_decl st) (all_decls s) with
  | [] => if n_rules st && negb (n_start st) then [(KStartUndefined, None)] else []
  | d => d
  end.

(* ------------------------------------------------------------------ *)

Definition analyze (s : spec) : list diag :=
  let '(st, d1) := pass_names s in
  match d1 with
  | _ :: _ => d1
  | [] =>
      match pass_check st s with
      | (_ :: _) as d2 => d2
      | [] => pass_gen st s
      end
  end.

(* ------------------------------------------------------------------ *)
(* The property's list as a decidable predicate                        *)

(* The tables every clause refers to: all declarations, in source order. *)
Definition own_names (d : decl) : names :=
  match d with
  | DToken id n _ _ => [(n, EToken id)]
  | DFrag _ _ _ => []
  | DMacro id n e => [(n, EMacro id e)]
  | DExternal id ns => map (fun n => (n, EExternal id)) ns
  | DMode id n _ => [(n, EMode id)]
  | DRule id _ n _ => [(n, ERule id)]
  end.

Definition own_aliases (d : decl) : list string :=
  match d with
  | DToken _ _ e _ => match simple_literal e with Some cps => [utf8 cps] | None => [] end
  | _ => []
  end.

Definition own_modes (d : decl) : list string :=
  match d with DMode _ n _ => [n] | _ => [] end.

Definition is_rule (d : decl) : bool := match d with DRule _ _ _ _ => true | _ => false end.
Definition is_start (d : decl) : bool := match d with DRule _ true _ _ => true | _ => false end.

Definition canon (s : spec) : nstate :=
  let ds := all_decls s in
  mkN (flat_map own_names ds) (flat_map own_aliases ds)
      (default_mode :: flat_map own_modes ds)
      (existsb is_start ds) (existsb is_rule ds).

Fixpoint nodupb (l : list string) : bool :=
  match l with
  | [] => true
  | x :: r => negb (mem_str x r) && nodupb r
  end.

(* Clause 1 : names unique across tokens, macros, modes, rules (and external
   names: they are token names declared elsewhere). *)
Definition wf_unique (s : spec) : bool := nodupb (map fst (n_names (canon s))).

(* Clause 2 : naming rules.
   - lexer_reference.md "Lexical Names" (upper case, starts with a letter,
     letters/digits/underscore, no trailing underscore, no double underscore,
     not EOF/ERROR) for tokens, macros and external token names.
     CHOICE: not for mode names -- the section says "names declared in a lexer
     section" but the reference's own examples name modes Alt and String.
   - parser_reference.md: rule names are Go identifiers that do not start with
     an underscore and have no consecutive underscores.  CHOICE: ASCII only
     ([A-Za-z][A-Za-z0-9_]*, what lox's ID token admits); Go keywords are not
     excluded (the name is only used as a suffix of "on_").
   [lexical_names_ok] is what lox enforces, [rule_names_ok] it does not. *)
Definition token_name_ok (n : string) : bool :=
  match validate_token_name n with NameOk => true | _ => false end.

Definition rule_name_ok (n : string) : bool :=
  match n with
  | EmptyString => false
  | String c r =>
      (is_upper c || is_lower c) &&
      all_chars (fun c => is_upper c || is_lower c || is_digit c || is_us c) r
  end && negb (has_double_us n).

Definition lexical_name_ok (d : decl) : bool :=
  match d with
  | DToken _ n _ _ | DMacro _ n _ => token_name_ok n
  | DExternal _ ns => forallb token_name_ok ns
  | _ => true
  end.

Definition rule_decl_name_ok (d : decl) : bool :=
  match d with DRule _ _ n _ => rule_name_ok n | _ => true end.

Definition wf_lexical_names (s : spec) : bool := forallb lexical_name_ok (all_decls s).
Definition wf_rule_names (s : spec) : bool := forallb rule_decl_name_ok (all_decls s).

(* Clause 3 : references.  A lexer term names a macro; @emit names a token;
   a parser term names a parser rule or a token.  CHOICE: an external name
   counts as neither (lox answers "X is not a parser or token rule" / "not a
   token: X" -- @external is undocumented; keeping lox's reading is what makes
   A1 provable). *)
Definition atom_ref_ok (st : nstate) (a : lterm) : bool :=
  match a with
  | LRef n => match lookup n (n_names st) with Some (EMacro _ _) => true | _ => false end
  | _ => true
  end.

Definition action_ref_ok (st : nstate) (a : laction) : bool :=
  match a with
  | AEmit t => match lookup t (n_names st) with Some (EToken _) => true | _ => false end
  | _ => true
  end.

Fixpoint pterm_ref_ok (st : nstate) (t : pterm) : bool :=
  match t with
  | PName n =>
      match lookup n (n_names st) with
      | Some (ERule _) | Some (EToken _) => true
      | _ => false
      end
  | PAlias _ | PError => true
  | PCard _ c => pterm_ref_ok st c
  | PList e sp _ => pterm_ref_ok st e && pterm_ref_ok st sp
  end.

Definition decl_refs_ok (st : nstate) (d : decl) : bool :=
  match d with
  | DToken _ _ e acts | DFrag _ e acts =>
      forallb (atom_ref_ok st) (lexpr_atoms e) && forallb (action_ref_ok st) acts
  | DMacro _ _ e => forallb (atom_ref_ok st) (lexpr_atoms e)
  | DRule _ _ _ prods => forallb (forallb (pterm_ref_ok st)) prods
  | _ => true
  end.

Definition wf_refs (s : spec) : bool := forallb (decl_refs_ok (canon s)) (all_decls s).

(* Clause 4 : literal aliases defined and unambiguous: exactly one token is
   that literal.  (The empty literal is clause 9's business.) *)
Fixpoint pterm_alias_ok (st : nstate) (t : pterm) : bool :=
  match t with
  | PAlias lit => String.eqb lit ""%string || (count_str lit (n_aliases st) =? 1)
  | PName _ | PError => true
  | PCard _ c => pterm_alias_ok st c
  | PList e sp _ => pterm_alias_ok st e && pterm_alias_ok st sp
  end.

Definition decl_aliases_ok (st : nstate) (d : decl) : bool :=
  match d with
  | DRule _ _ _ prods => forallb (forallb (pterm_alias_ok st)) prods
  | _ => true
  end.

Definition wf_aliases (s : spec) : bool :=
  forallb (decl_aliases_ok (canon s)) (all_decls s).

(* Clause 5 : @push_mode names a declared mode (or the default mode). *)
Definition action_mode_ok (st : nstate) (a : laction) : bool :=
  match a with APush m => mem_str m (n_modes st) | _ => true end.

Definition decl_modes_ok (st : nstate) (d : decl) : bool :=
  match d with
  | DToken _ _ _ acts | DFrag _ _ acts => forallb (action_mode_ok st) acts
  | _ => true
  end.

Definition wf_modes (s : spec) : bool := forallb (decl_modes_ok (canon s)) (all_decls s).

(* Clause 6 : exactly one @start.  CHOICE: a specification without parser
   rules (lexer only) needs none. *)
Definition count_start (s : spec) : nat := List.length (filter is_start (all_decls s)).

Definition wf_start (s : spec) : bool :=
  (count_start s <=? 1) && (negb (existsb is_rule (all_decls s)) || (1 <=? count_start s)).

(* Clause 7 : no @discard, no @emit on a token. *)
Definition is_discard (a : laction) : bool := match a with ADiscard => true | _ => false end.
Definition is_emit (a : laction) : bool := match a with AEmit _ => true | _ => false end.

Definition decl_token_actions_ok (d : decl) : bool :=
  match d with
  | DToken _ _ _ acts => forallb (fun a => negb (is_discard a) && negb (is_emit a)) acts
  | _ => true
  end.

Definition wf_token_actions (s : spec) : bool := forallb decl_token_actions_ok (all_decls s).

(* Clause 8 : a fragment has at most one @discard, at most one @emit -- and
   not both (lox: "cannot be discarded and emitted at the same time"; CHOICE:
   part of well-formedness, the two actions contradict each other). *)
Definition decl_frag_actions_ok (d : decl) : bool :=
  match d with
  | DFrag _ _ acts =>
      let nd := List.length (filter is_discard acts) in
      let ne := List.length (filter is_emit acts) in
      (nd <=? 1) && (ne <=? 1) && (nd + ne <=? 1)
  | _ => true
  end.

Definition wf_frag_actions (s : spec) : bool := forallb decl_frag_actions_ok (all_decls s).

(* Clause 9 : no empty literal, neither in a lexer expression nor as a parser
   term. *)
Definition atom_lit_ok (a : lterm) : bool :=
  match a with LLit [] => false | _ => true end.

Fixpoint pterm_lit_ok (t : pterm) : bool :=
  match t with
  | PAlias lit => negb (String.eqb lit ""%string)
  | PName _ | PError => true
  | PCard _ c => pterm_lit_ok c
  | PList e sp _ => pterm_lit_ok e && pterm_lit_ok sp
  end.

Definition decl_expr (d : decl) : option lexpr :=
  match d with
  | DToken _ _ e _ | DFrag _ e _ | DMacro _ _ e => Some e
  | _ => None
  end.

Definition decl_atoms (d : decl) : list lterm :=
  match decl_expr d with Some e => lexpr_atoms e | None => [] end.

Definition decl_literals_ok (d : decl) : bool :=
  forallb atom_lit_ok (decl_atoms d) &&
  match d with DRule _ _ _ prods => forallb (forallb pterm_lit_ok) prods | _ => true end.

Definition wf_literals (s : spec) : bool := forallb decl_literals_ok (all_decls s).

(* Clause 10 : every class item has lower bound <= upper bound. *)
Definition atom_ranges_ok (a : lterm) : bool :=
  match a with
  | LClass items => forallb (fun it => (fst it <=? snd it)%Z) items
  | _ => true
  end.

Definition wf_ranges (s : spec) : bool :=
  forallb (fun d => forallb atom_ranges_ok (decl_atoms d)) (all_decls s).

(* Clause 11 : no macro cycle.  [acyclic_from tbl fuel stk a]: following the
   references of [a] never re-enters a macro of [stk] (and the fuel suffices).
   [wf_macros_acyclic]: from EVERY macro, used or not (the Check pass).
   [wf_reachable_acyclic]: from the token and fragment rules only (what the
   GenerateGrammar expansion visits); implied by the former, auxiliary. *)
Definition acyclic_atoms (tbl : names) (fuel : nat) (stk : list string) (l : list lterm) : bool :=
  match flat_map (expand_atom tbl fuel stk) l with [] => true | _ => false end.

Definition macro_acyclic (tbl : names) (d : decl) : bool :=
  match d with
  | DMacro _ n e => acyclic_atoms tbl (List.length tbl) [n] (lexpr_atoms e)
  | _ => true
  end.

Definition wf_macros_acyclic (s : spec) : bool :=
  forallb (macro_acyclic (n_names (canon s))) (all_decls s).

Definition rule_acyclic (tbl : names) (d : decl) : bool :=
  match d with
  | DToken _ _ e _ | DFrag _ e _ => acyclic_atoms tbl (expand_fuel tbl) [] (lexpr_atoms e)
  | _ => true
  end.

Definition wf_reachable_acyclic (s : spec) : bool :=
  forallb (rule_acyclic (n_names (canon s))) (all_decls s).

(* Clause 12 : both arguments of @list are a plain name or literal
   (parser_reference.md: list = '@list' '(' term ',' term ')' allows @error
   and a nested @list syntactically; lox rejects them). *)
Fixpoint pterm_lists_ok (t : pterm) : bool :=
  match t with
  | PName _ | PAlias _ | PError => true
  | PCard _ c => pterm_lists_ok c
  | PList e sp _ => pterm_lists_ok e && pterm_lists_ok sp && pterm_simple e && pterm_simple sp
  end.

Definition decl_lists_ok (d : decl) : bool :=
  match d with
  | DRule _ _ _ prods => forallb (forallb pterm_lists_ok) prods
  | _ => true
  end.

Definition wf_lists (s : spec) : bool := forallb decl_lists_ok (all_decls s).

(* ------------------------------------------------------------------ *)

Definition well_formed (s : spec) : bool :=
  wf_unique s && wf_lexical_names s && wf_rule_names s && wf_refs s &&
  wf_aliases s && wf_modes s && wf_start s && wf_token_actions s &&
  wf_frag_actions s && wf_literals s && wf_ranges s && wf_macros_acyclic s &&
  wf_lists s.

(* What lox enforces: everything but wf_rule_names (a rule named a__b is
   accepted although parser_reference.md forbids consecutive underscores). *)
Definition well_formed_weak (s : spec) : bool :=
  wf_unique s && wf_lexical_names s && wf_refs s &&
  wf_aliases s && wf_modes s && wf_start s && wf_token_actions s &&
  wf_frag_actions s && wf_literals s && wf_ranges s && wf_macros_acyclic s &&
  wf_lists s.
