(* Executable model of lox's conflict resolution
   (/repo/internal/parsergen/lr1/construct.go, resolveConflicts / the inner
   closure resolveConflict, and action.go).

   A cell is the list of actions of one (state, terminal) pair, in the order
   createActions added them.  [CShift target prods] : prods is Action.Prods,
   to which AddShift appends the production once PER ITEM of the state that
   shifts the terminal (so the same production may be listed several times).

   Definitions only; theorems in ResolveProofs.v. *)
From Coq Require Import List Arith Bool.
Import ListNotations.

Inductive cact :=
| CShift (target : nat) (prods : list nat)
| CReduce (p : nat)
| CAccept.

Section Resolve.
Variable prec : nat -> nat.          (* Prod.Precedence; 0 = no qualifier *)
Variable assoc_right : nat -> bool.  (* Prod.Associativity == Right *)
Variable rule_of : nat -> nat.       (* Prod.Rule *)

(* the loop "for i, prod := range shift.Prods" for i >= 1 *)
Definition all_same (r pr : nat) (ps : list nat) : bool :=
  forallb (fun p => (rule_of p =? r) && (prec p =? pr)) ps.

(* resolveConflict once shift = CShift tgt sp and reduce = CReduce p are identified *)
Definition resolve_sr (tgt : nat) (sp : list nat) (p : nat) : option (list cact) :=
  match sp with
  | [] => None           (* shiftRule = nil, shiftPrec = 0 : returns false *)
  | q :: rest =>
      if negb (all_same (rule_of q) (prec q) rest) then None
      else if negb (rule_of q =? rule_of p) then None
      else if (prec q =? 0) || (prec p =? 0) then None
      else if prec q <? prec p then Some [CReduce p]              (* remove(shift) *)
      else if prec p <? prec q then Some [CShift tgt sp]          (* remove(reduce) *)
      else
        match rest with
        | [] => if (q =? p) && assoc_right q
                then Some [CShift tgt sp]                         (* remove(reduce) *)
                else Some [CReduce p]                             (* default: remove(shift) *)
        | _ :: _ => Some [CReduce p]                              (* len(shift.Prods) <> 1 *)
        end
  end.

(* None : resolveConflict returns false;  Some r : it removed one action, r remains *)
Definition resolve (cell : list cact) : option (list cact) :=
  match cell with
  | [CShift t sp; CReduce p] => resolve_sr t sp p
  | [CReduce p; CShift t sp] => resolve_sr t sp p
  | _ => None
  end.

Definition is_none {A} (o : option A) : bool :=
  match o with None => true | Some _ => false end.

(* the cell sets t.HasConflicts *)
Definition cell_conflict (cell : list cact) : bool :=
  (1 <? length cell) && is_none (resolve cell).

(* what resolveConflicts leaves in the cell *)
Definition resolved_cell (cell : list cact) : list cact :=
  if 1 <? length cell then
    match resolve cell with Some r => r | None => cell end
  else cell.

End Resolve.

(* ------------------------------------------------------------------ *)
(* Examples: productions 1 = e '+' e, 2 = e '*' e, 4 = e '^' e, all of rule 1 *)

Definition ex_prec (p : nat) : nat :=
  match p with 1 => 1 | 2 => 2 | 4 => 3 | _ => 0 end.
Definition ex_right (p : nat) : bool := match p with 4 => true | _ => false end.
Definition ex_rule (p : nat) : nat := match p with 0 => 0 | _ => 1 end.

(* after e + e, lookahead * : shift *)
Example resolve_ex_plus_mul :
  resolve ex_prec ex_right ex_rule [CReduce 1; CShift 7 [2; 2; 2]] = Some [CShift 7 [2; 2; 2]].
Proof. vm_compute. reflexivity. Qed.
(* after e * e, lookahead + : reduce *)
Example resolve_ex_mul_plus :
  resolve ex_prec ex_right ex_rule [CShift 6 [1; 1; 1]; CReduce 2] = Some [CReduce 2].
Proof. vm_compute. reflexivity. Qed.
(* after e + e, lookahead + : reduce (left) *)
Example resolve_ex_plus_plus :
  resolve ex_prec ex_right ex_rule [CShift 6 [1; 1; 1]; CReduce 1] = Some [CReduce 1].
Proof. vm_compute. reflexivity. Qed.
(* reduce/reduce and an unqualified production stay conflicts *)
Example resolve_ex_rr : cell_conflict ex_prec ex_right ex_rule [CReduce 1; CReduce 2] = true.
Proof. vm_compute. reflexivity. Qed.
Example resolve_ex_noprec : cell_conflict ex_prec ex_right ex_rule [CShift 3 [3]; CReduce 1] = true.
Proof. vm_compute. reflexivity. Qed.
