(* Theorems about FirstModel.v:
     F1 first_spec_sound, F2 first_spec_complete (+ first_tab_stable: the fuel
     suffices), F3 first_go_refuted. *)
From Coq Require Import List Arith Lia Bool.
From Lox Require Import Parse.Grammar Gen.FirstModel.
Import ListNotations.

(* ------------------------------------------------------------------ *)
(* membership lemmas for the list utilities *)

Lemma ins_nat_In x y l : In x (ins_nat y l) <-> x = y \/ In x l.
Proof.
  induction l as [|z l IH]; cbn [ins_nat].
  - cbn. intuition.
  - destruct (y <? z) eqn:Hlt; [cbn; intuition|].
    destruct (y =? z) eqn:Heq.
    + apply Nat.eqb_eq in Heq. subst z. cbn. intuition.
    + cbn [In]. rewrite IH. intuition.
Qed.

Lemma sort_nat_In x l : In x (sort_nat l) <-> In x l.
Proof.
  induction l as [|y l IH]; cbn [sort_nat fold_right]; [reflexivity|].
  fold (sort_nat l). rewrite ins_nat_In, IH. cbn. intuition.
Qed.

Lemma somes_In t l : In t (somes l) <-> In (Some t) l.
Proof.
  induction l as [|[u|] l IH]; cbn [somes In].
  - reflexivity.
  - rewrite IH. split; intros [H|H]; auto; left; congruence.
  - rewrite IH. split; [auto | intros [H|H]; [discriminate | auto]].
Qed.

Lemma on_eqb_eq a b : on_eqb a b = true <-> a = b.
Proof.
  destruct a as [x|], b as [y|]; cbn; try (split; congruence).
  rewrite Nat.eqb_eq. split; congruence.
Qed.

Lemma entry_eqb_eq a b : entry_eqb a b = true <-> a = b.
Proof.
  destruct a as [n x], b as [m y]. unfold entry_eqb. cbn [fst snd].
  rewrite andb_true_iff, Nat.eqb_eq, on_eqb_eq. split; [intros [-> ->]; reflexivity | intros H; inversion H; auto].
Qed.

Lemma tmem_In e tab : tmem e tab = true <-> In e tab.
Proof.
  unfold tmem. rewrite existsb_exists. split.
  - intros (x & Hx & He). apply entry_eqb_eq in He. now subst.
  - intros H. exists e. split; [exact H | now apply entry_eqb_eq].
Qed.

Lemma tadd_In x e tab : In x (tadd e tab) <-> x = e \/ In x tab.
Proof.
  unfold tadd. destruct (tmem e tab) eqn:Hm.
  - apply tmem_In in Hm. split; [auto | intros [-> | H]; auto].
  - cbn. intuition.
Qed.

Lemma tadd_all_In x l tab : In x (tadd_all l tab) <-> In x l \/ In x tab.
Proof.
  unfold tadd_all. revert tab. induction l as [|e l IH]; intros tab; cbn [fold_left].
  - cbn. intuition.
  - rewrite IH, tadd_In. cbn. intuition.
Qed.

Lemma tfirst_In x n tab :
  In x (tfirst n tab) <-> exists t, x = Some t /\ In (n, Some t) tab.
Proof.
  induction tab as [|[m [t|]] tab IH]; cbn [tfirst].
  - cbn. split; [tauto | intros (t & _ & [])].
  - destruct (m =? n) eqn:Hmn.
    + apply Nat.eqb_eq in Hmn. subst m. cbn [In]. rewrite IH. split.
      * intros [H | (u & Hu & Hin)]; [exists t; auto | exists u; auto].
      * intros (u & Hu & [Heq | Hin]); [left; congruence | right; exists u; auto].
    + apply Nat.eqb_neq in Hmn. rewrite IH. split.
      * intros (u & Hu & Hin). exists u. cbn. auto.
      * intros (u & Hu & [Heq | Hin]); [congruence | exists u; auto].
  - rewrite IH. split.
    + intros (u & Hu & Hin). exists u. cbn. auto.
    + intros (u & Hu & [Heq | Hin]); [congruence | exists u; auto].
Qed.

Lemma new_entries_In e g tab :
  In e (new_entries g tab) <->
  exists pr, In pr g /\ fst e = lhs pr /\ In (snd e) (seq_first tab (rhs pr)).
Proof.
  unfold new_entries. rewrite in_flat_map. split.
  - intros (pr & Hpr & Hin). apply in_map_iff in Hin. destruct Hin as (x & <- & Hx).
    exists pr. cbn. auto.
  - intros (pr & Hpr & Hl & Hx). exists pr. split; [exact Hpr|].
    apply in_map_iff. exists (snd e). split; [destruct e; cbn in *; congruence | exact Hx].
Qed.

Lemma step_In e g tab : In e (step g tab) <-> In e (new_entries g tab) \/ In e tab.
Proof. unfold step. apply tadd_all_In. Qed.

(* closed under the productions *)
Definition stable (g : grammar) (tab : list entry) : Prop :=
  forall pr x, In pr g -> In x (seq_first tab (rhs pr)) -> In (lhs pr, x) tab.

Lemma stable_b_spec g tab : stable_b g tab = true <-> stable g tab.
Proof.
  unfold stable_b, stable. rewrite forallb_forall. split.
  - intros H pr x Hpr Hx. apply tmem_In. apply H. apply new_entries_In.
    exists pr. cbn. auto.
  - intros H e He. apply tmem_In. apply new_entries_In in He.
    destruct He as (pr & Hpr & Hl & Hx). destruct e as [n x]. cbn in *. subst n. now apply H.
Qed.

(* ------------------------------------------------------------------ *)
(* F1: soundness *)

(* every symbol used on a right-hand side derives some terminal string
   (the grammar is "reduced"); needed because FIRST only looks at the prefix
   of a right-hand side whereas a parse tree needs all of it. *)
Definition productive (g : grammar) : Prop :=
  forall pr n, In pr g -> In (NT n) (rhs pr) -> exists t u, wt g (NT n) t u.

Definition justified (g : grammar) (e : entry) : Prop :=
  match e with
  | (n, None) => exists t, wt g (NT n) t []
  | (n, Some a) => exists t i u, wt g (NT n) t ((a, i) :: u)
  end.

Definition tab_sound (g : grammar) (tab : list entry) : Prop :=
  forall e, In e tab -> justified g e.

Definition seq_justified (g : grammar) (beta : list sym) (x : option nat) : Prop :=
  match x with
  | None => exists ts, wf g beta ts []
  | Some a => exists ts i u, wf g beta ts ((a, i) :: u)
  end.

Lemma wf_exists g beta :
  (forall n, In (NT n) beta -> exists t u, wt g (NT n) t u) ->
  exists ts u, wf g beta ts u.
Proof.
  induction beta as [|X beta IH]; intros Hp.
  - exists [], []. constructor.
  - destruct IH as (ts & us & Hwf); [intros n Hn; apply Hp; now right|].
    destruct X as [t|n].
    + exists (Leaf (t, 0) :: ts), ([(t, 0)] ++ us). constructor; [constructor | exact Hwf].
    + destruct (Hp n) as (tr & u & Hwt); [now left|].
      exists (tr :: ts), (u ++ us). now constructor.
Qed.

(* nullable entries never need productivity *)
Lemma seq_first_sound_none g tab beta :
  tab_sound g tab -> In None (seq_first tab beta) -> seq_justified g beta None.
Proof.
  intros Hs. induction beta as [|X beta IH]; cbn [seq_first]; intros Hin.
  - exists []. constructor.
  - destruct X as [t|n].
    + destruct Hin as [H|[]]. discriminate.
    + apply in_app_or in Hin. destruct Hin as [Hin | Hin].
      * apply tfirst_In in Hin. destruct Hin as (t & Ht & _). discriminate.
      * destruct (tmem (n, None) tab) eqn:Hm; [|destruct Hin].
        apply tmem_In in Hm. apply Hs in Hm. destruct Hm as (tr & Htr).
        destruct (IH Hin) as (ts & Hts).
        exists (tr :: ts). change (@nil token) with (@nil token ++ []). now constructor.
Qed.

Lemma seq_first_sound g tab beta x :
  tab_sound g tab ->
  (forall n, In (NT n) beta -> exists t u, wt g (NT n) t u) ->
  In x (seq_first tab beta) -> seq_justified g beta x.
Proof.
  intros Hs. revert x. induction beta as [|X beta IH]; cbn [seq_first]; intros x Hp Hin.
  - destruct Hin as [<-|[]]. exists []. constructor.
  - assert (Hp' : forall n, In (NT n) beta -> exists t u, wt g (NT n) t u)
      by (intros n Hn; apply Hp; now right).
    destruct X as [t|n].
    + destruct Hin as [<-|[]]. destruct (wf_exists g beta Hp') as (ts & us & Hwf).
      exists (Leaf (t, 0) :: ts), 0, us.
      change ((t, 0) :: us) with ([(t, 0)] ++ us). constructor; [constructor | exact Hwf].
    + apply in_app_or in Hin. destruct Hin as [Hin | Hin].
      * apply tfirst_In in Hin. destruct Hin as (a & -> & Hin).
        apply Hs in Hin. destruct Hin as (tr & i & u & Htr).
        destruct (wf_exists g beta Hp') as (ts & us & Hwf).
        exists (tr :: ts), i, (u ++ us).
        change ((a, i) :: u ++ us) with (((a, i) :: u) ++ us). now constructor.
      * destruct (tmem (n, None) tab) eqn:Hm; [|destruct Hin].
        apply tmem_In in Hm. apply Hs in Hm. destruct Hm as (tr & Htr).
        specialize (IH x Hp' Hin). destruct x as [a|].
        -- destruct IH as (ts & i & u & Hts). exists (tr :: ts), i, u.
           change ((a, i) :: u) with ([] ++ (a, i) :: u). now constructor.
        -- destruct IH as (ts & Hts). exists (tr :: ts).
           change (@nil token) with (@nil token ++ []). now constructor.
Qed.

Lemma justified_node g pr x :
  In pr g -> seq_justified g (rhs pr) x -> justified g (lhs pr, x).
Proof.
  intros Hpr Hx. apply In_nth_error in Hpr. destruct Hpr as (p & Hp).
  destruct x as [a|]; cbn in *.
  - destruct Hx as (ts & i & u & Hwf). exists (Node p ts), i, u. econstructor; eauto.
  - destruct Hx as (ts & Hwf). exists (Node p ts). econstructor; eauto.
Qed.

Lemma step_sound g tab : productive g -> tab_sound g tab -> tab_sound g (step g tab).
Proof.
  intros Hprod Hs e He. apply step_In in He. destruct He as [He | He]; [|now apply Hs].
  apply new_entries_In in He. destruct He as (pr & Hpr & Hl & Hx).
  destruct e as [n x]. cbn in *. subst n. apply justified_node; [exact Hpr|].
  apply (seq_first_sound g tab); auto. intros n Hn. now apply (Hprod pr).
Qed.

Lemma saturate_sound g fuel tab :
  productive g -> tab_sound g tab -> tab_sound g (saturate fuel g tab).
Proof.
  intros Hprod. revert tab. induction fuel as [|f IH]; intros tab Hs; cbn [saturate]; [exact Hs|].
  destruct (stable_b g tab); [exact Hs|]. apply IH. now apply step_sound.
Qed.

Lemma first_tab_sound g : productive g -> tab_sound g (first_tab g).
Proof. intros Hprod. apply saturate_sound; [exact Hprod|]. intros e []. Qed.

(* the nullable part alone, without the productivity hypothesis *)
Definition tab_sound_null (g : grammar) (tab : list entry) : Prop :=
  forall n, In (n, None) tab -> exists t, wt g (NT n) t [].

Lemma seq_first_null_sound g tab beta :
  tab_sound_null g tab -> In None (seq_first tab beta) -> exists ts, wf g beta ts [].
Proof.
  intros Hs. induction beta as [|X beta IH]; cbn [seq_first]; intros Hin.
  - exists []. constructor.
  - destruct X as [t|n].
    + destruct Hin as [H|[]]. discriminate.
    + apply in_app_or in Hin. destruct Hin as [Hin | Hin].
      * apply tfirst_In in Hin. destruct Hin as (t & Ht & _). discriminate.
      * destruct (tmem (n, None) tab) eqn:Hm; [|destruct Hin].
        apply tmem_In in Hm. apply Hs in Hm. destruct Hm as (tr & Htr).
        destruct (IH Hin) as (ts & Hts).
        exists (tr :: ts). change (@nil token) with (@nil token ++ []). now constructor.
Qed.

Lemma saturate_sound_null g fuel tab :
  tab_sound_null g tab -> tab_sound_null g (saturate fuel g tab).
Proof.
  revert tab. induction fuel as [|f IH]; intros tab Hs; cbn [saturate]; [exact Hs|].
  destruct (stable_b g tab); [exact Hs|]. apply IH.
  intros n Hn. apply step_In in Hn. destruct Hn as [Hn | Hn]; [|now apply Hs].
  apply new_entries_In in Hn. destruct Hn as (pr & Hpr & Hl & Hx). cbn in *. subst n.
  destruct (seq_first_null_sound g tab (rhs pr) Hs Hx) as (ts & Hts).
  apply In_nth_error in Hpr. destruct Hpr as (p & Hp).
  exists (Node p ts). econstructor; eauto.
Qed.

(* F1 *)
Theorem nullable_spec_sound g n :
  nullable_spec g n = true -> exists tr, wt g (NT n) tr [].
Proof.
  unfold nullable_spec, nullable_tab. intros H. apply tmem_In in H.
  revert H. apply (saturate_sound_null g (first_fuel g) []). intros m [].
Qed.

Theorem first_spec_sound g n :
  productive g ->
  (forall t, In t (first_spec g n) -> exists tr i u, wt g (NT n) tr ((t, i) :: u)) /\
  (nullable_spec g n = true -> exists tr, wt g (NT n) tr []).
Proof.
  intros Hprod. split; [|apply nullable_spec_sound].
  intros t Ht. unfold first_spec, first_of_tab in Ht.
  apply sort_nat_In, somes_In, tfirst_In in Ht. destruct Ht as (a & Ha & Hin).
  inversion Ha; subst a. apply (first_tab_sound g Hprod) in Hin. exact Hin.
Qed.

(* the same for FIRST(beta a) *)
Theorem first_seq_spec_sound g beta a t :
  productive g ->
  (forall n, In (NT n) beta -> exists tr u, wt g (NT n) tr u) ->
  In t (first_seq_spec g beta a) ->
  exists ts i u, wf g (beta ++ [T a]) ts ((t, i) :: u).
Proof.
  intros Hprod Hbeta Ht. unfold first_seq_spec, first_seq_tab in Ht.
  apply sort_nat_In, somes_In in Ht.
  apply (seq_first_sound g (first_tab g) (beta ++ [T a]) (Some t)); auto.
  - now apply first_tab_sound.
  - intros n Hn. apply in_app_or in Hn. destruct Hn as [Hn | [Hn|[]]]; [auto | discriminate].
Qed.

(* ------------------------------------------------------------------ *)
(* F2: completeness, for stable tables *)

Lemma complete_stable g tab :
  stable g tab ->
  (forall X t u, wt g X t u ->
     forall n, X = NT n ->
       (u = [] -> In (n, None) tab) /\
       (forall a i u', u = (a, i) :: u' -> In (n, Some a) tab)) /\
  (forall Xs ts u, wf g Xs ts u ->
     (u = [] -> In None (seq_first tab Xs)) /\
     (forall a i u', u = (a, i) :: u' -> In (Some a) (seq_first tab Xs))).
Proof.
  intros Hst.
  apply (wt_wf_ind g
    (fun X t u _ => forall n, X = NT n ->
       (u = [] -> In (n, None) tab) /\
       (forall a i u', u = (a, i) :: u' -> In (n, Some a) tab))
    (fun Xs ts u _ =>
       (u = [] -> In None (seq_first tab Xs)) /\
       (forall a i u', u = (a, i) :: u' -> In (Some a) (seq_first tab Xs)))).
  - intros t i n Hn. discriminate.
  - intros p pr ch u Hnth Hwf [IH1 IH2] n Hn. inversion Hn; subst n.
    apply nth_error_In in Hnth. split.
    + intros Hu. apply Hst; auto.
    + intros a i u' Hu. apply Hst; eauto.
  - split; [intros _; cbn; auto | intros a i u' Hu; discriminate].
  - intros X t u Xs ts us Hwt IHt Hwf [IHs1 IHs2]. destruct X as [b|n].
    + inversion Hwt; subst. split; [intros Hu; discriminate|].
      intros a j u' Hu. cbn in Hu. inversion Hu; subst. cbn. auto.
    + destruct (IHt n eq_refl) as [IHt1 IHt2]. cbn [seq_first]. split.
      * intros Hu. apply app_eq_nil in Hu. destruct Hu as [Hu1 Hu2].
        apply in_or_app. right.
        assert (Hm : tmem (n, None) tab = true) by (apply tmem_In; auto).
        rewrite Hm. auto.
      * intros a i u' Hu. apply in_or_app. destruct u as [|tok u0].
        -- right. assert (Hm : tmem (n, None) tab = true) by (apply tmem_In; auto).
           rewrite Hm. cbn in Hu. eauto.
        -- left. cbn in Hu. inversion Hu; subst. apply tfirst_In. exists a. split; eauto.
Qed.

Theorem first_complete_stable g tab :
  stable g tab ->
  forall n tr u, wt g (NT n) tr u ->
    (u = [] -> nullable_tab tab n = true) /\
    (forall a i u', u = (a, i) :: u' -> In a (first_of_tab tab n)).
Proof.
  intros Hst n tr u Hwt.
  destruct (proj1 (complete_stable g tab Hst) _ _ _ Hwt n eq_refl) as [H1 H2]. split.
  - intros Hu. unfold nullable_tab. apply tmem_In. auto.
  - intros a i u' Hu. unfold first_of_tab. apply sort_nat_In, somes_In, tfirst_In.
    exists a. split; eauto.
Qed.

(* ------------------------------------------------------------------ *)
(* the fuel suffices: first_tab g is stable *)

Definition sym_on (X : sym) : option nat := match X with T t => Some t | NT _ => None end.

(* all entries that can ever appear *)
Definition universe (g : grammar) : list entry :=
  list_prod (map lhs g) (None :: map sym_on (flat_map rhs g)).

Lemma universe_length g : length (universe g) = length g * S (length (flat_map rhs g)).
Proof.
  unfold universe.
  transitivity (length (map lhs g) * length (None :: map sym_on (flat_map rhs g))).
  - apply prod_length.
  - cbn [length]. now rewrite !map_length.
Qed.

Lemma seq_first_universe g tab beta x :
  incl tab (universe g) -> incl beta (flat_map rhs g) ->
  In x (seq_first tab beta) -> In x (None :: map sym_on (flat_map rhs g)).
Proof.
  intros Ht. induction beta as [|X beta IH]; cbn [seq_first]; intros Hb Hin.
  - destruct Hin as [<-|[]]. now left.
  - assert (Hb' : incl beta (flat_map rhs g)) by (intros y Hy; apply Hb; now right).
    destruct X as [t|n].
    + destruct Hin as [<-|[]]. right. apply in_map_iff. exists (T t). split; [reflexivity|].
      apply Hb. now left.
    + apply in_app_or in Hin. destruct Hin as [Hin | Hin].
      * apply tfirst_In in Hin. destruct Hin as (a & -> & Hin). apply Ht in Hin.
        unfold universe in Hin. apply in_prod_iff in Hin. tauto.
      * destruct (tmem (n, None) tab); [auto | destruct Hin].
Qed.

Lemma step_universe g tab : incl tab (universe g) -> incl (step g tab) (universe g).
Proof.
  intros Ht e He. apply step_In in He. destruct He as [He | He]; [|now apply Ht].
  apply new_entries_In in He. destruct He as (pr & Hpr & Hl & Hx).
  destruct e as [n x]. cbn in *. subst n. unfold universe. apply in_prod_iff. split.
  - apply in_map. exact Hpr.
  - apply (seq_first_universe g tab (rhs pr)); auto.
    intros y Hy. apply in_flat_map. exists pr. auto.
Qed.

Lemma tadd_NoDup e tab : NoDup tab -> NoDup (tadd e tab).
Proof.
  intros Hn. unfold tadd. destruct (tmem e tab) eqn:Hm; [exact Hn|].
  constructor; [|exact Hn]. intros Hin. apply tmem_In in Hin. congruence.
Qed.

Lemma tadd_all_NoDup l tab : NoDup tab -> NoDup (tadd_all l tab).
Proof.
  unfold tadd_all. revert tab. induction l as [|e l IH]; intros tab Hn; cbn [fold_left]; [exact Hn|].
  apply IH. now apply tadd_NoDup.
Qed.

Lemma forallb_false {A} (f : A -> bool) l :
  forallb f l = false -> exists x, In x l /\ f x = false.
Proof.
  induction l as [|y l IH]; cbn [forallb]; [discriminate|].
  destruct (f y) eqn:Hy; cbn [andb].
  - intros H. destruct (IH H) as (x & Hx & Hf). exists x. split; [now right | exact Hf].
  - intros _. exists y. split; [now left | exact Hy].
Qed.

Lemma step_grows g tab :
  NoDup tab -> stable_b g tab = false -> length tab < length (step g tab).
Proof.
  intros Hn Hst. unfold stable_b in Hst. apply forallb_false in Hst.
  destruct Hst as (e & He & Hm).
  assert (Hnot : ~ In e tab) by (intros Hin; apply tmem_In in Hin; congruence).
  assert (Hle : length (e :: tab) <= length (step g tab)).
  { apply NoDup_incl_length; [now constructor|].
    intros y [<- | Hy]; apply step_In; auto. }
  cbn [length] in Hle. lia.
Qed.

Lemma saturate_stable g fuel tab :
  NoDup tab -> incl tab (universe g) ->
  length (universe g) < length tab + fuel ->
  stable_b g (saturate fuel g tab) = true.
Proof.
  revert tab. induction fuel as [|f IH]; intros tab Hn Hu Hlen.
  - pose proof (NoDup_incl_length Hn Hu). lia.
  - cbn [saturate]. destruct (stable_b g tab) eqn:Hst; [exact Hst|].
    apply IH.
    + unfold step. now apply tadd_all_NoDup.
    + now apply step_universe.
    + pose proof (step_grows g tab Hn Hst). lia.
Qed.

Theorem first_tab_stable g : stable g (first_tab g).
Proof.
  apply stable_b_spec. unfold first_tab. apply saturate_stable.
  - constructor.
  - intros e [].
  - rewrite universe_length. unfold first_fuel. cbn [length]. lia.
Qed.

Corollary first_tab_ok_true g : first_tab_ok g = true.
Proof. unfold first_tab_ok. apply stable_b_spec, first_tab_stable. Qed.

(* F2 *)
Theorem first_spec_complete g n tr u :
  wt g (NT n) tr u ->
  (u = [] -> nullable_spec g n = true) /\
  (forall a i u', u = (a, i) :: u' -> In a (first_spec g n)).
Proof. apply first_complete_stable, first_tab_stable. Qed.

(* FIRST(beta a) is complete too: the first token of any yield of beta a *)
Theorem first_seq_spec_complete g beta a ts t i u :
  wf g (beta ++ [T a]) ts ((t, i) :: u) -> In t (first_seq_spec g beta a).
Proof.
  intros Hwf. unfold first_seq_spec, first_seq_tab. apply sort_nat_In, somes_In.
  destruct (proj2 (complete_stable g (first_tab g) (first_tab_stable g)) _ _ _ Hwf) as [_ H].
  eauto.
Qed.

(* ------------------------------------------------------------------ *)
(* F3: lr1.First is not FIRST.

   Grammar g_d1:  S' -> s;  s -> q xs E;  q -> Z;  xs -> xs x | (empty);  x -> A.
   Closure on the start item set processes [s -> . q xs E, EOF]  (B = q,
   beta = xs E, a = EOF) and calls First(g, [xs, E, EOF]).  Inside, first(xs)
   marks xs visited, the production xs -> xs x calls first(xs) again, which
   now returns the EMPTY set (no Epsilon), so the loop over xs x stops before
   looking at x: first(xs) = {Epsilon} instead of {A, Epsilon}.  First returns
   {E}; the textbook value is {A, E}.  The item [q -> . Z, A] is therefore
   never generated, the state after Z has no action on A, and the sentence
   Z A E is rejected.  (The call for the item [s -> q . xs E, EOF] itself,
   First([E, EOF]) = {E}, is correct, and so is First([x, E]) = {A} for
   [xs -> . xs x, E].) *)

Example first_go_refuted :
  first_go g_d1 [NT 3; T 2; T 0] = [Some 2] /\        (* what Closure gets  *)
  first_seq_spec g_d1 [NT 3; T 2] 0 = [2; 4] /\       (* FIRST(xs E EOF)    *)
  first_go g_d1 [NT 3; T 2] = [Some 2] /\
  first_go g_d1 [NT 3] = [None] /\                    (* A is lost          *)
  first_spec g_d1 3 = [4].
Proof. vm_compute. repeat split. Qed.

(* The terminal really is a possible first token: a parse tree witnesses it,
   so the spec side is not an artefact ([first_seq_spec_complete] then puts 4
   into FIRST(xs E EOF)). *)
Example first_go_refuted_tree :
  wf g_d1 ([NT 3; T 2] ++ [T 0])
     [Node 3 [Node 4 []; Node 5 [Leaf (4, 0)]]; Leaf (2, 1); Leaf (0, 2)]
     [(4, 0); (2, 1); (0, 2)].
Proof.
  change [(4, 0); (2, 1); (0, 2)] with ([(4, 0)] ++ [(2, 1)] ++ [(0, 2)] ++ []).
  repeat constructor.
  change [(4, 0)] with ([] ++ [(4, 0)] ++ []).
  apply (wt_node g_d1 3 (mkp 3 [NT 3; NT 4])); [reflexivity|].
  constructor.
  - apply (wt_node g_d1 4 (mkp 3 [])); [reflexivity | constructor].
  - constructor; [|constructor].
    change [(4, 0)] with ([(4, 0)] ++ []).
    apply (wt_node g_d1 5 (mkp 4 [T 4])); [reflexivity|]. repeat constructor.
Qed.

(* Two further manifestations of the shared [visited] set, on grammars
   without left recursion: a nullable rule used twice.
   g_twice:  s -> a a E;  a -> B | (empty)     (E = 2, B = 3; s = 1, a = 2)
   First([a, a, E, EOF]) : the second first(a) returns {} : E is lost. *)
Definition g_twice : grammar :=
  [ mkp 0 [NT 1]; mkp 1 [NT 2; NT 2; T 2]; mkp 2 [T 3]; mkp 2 [] ].

Example first_go_refuted_twice :
  first_go g_twice [NT 2; NT 2; T 2; T 0] = [Some 3] /\
  first_seq_spec g_twice [NT 2; NT 2; T 2] 0 = [2; 3] /\
  (* and inside one rule: FIRST(s) loses E as well *)
  first_go g_twice [NT 1] = [Some 3] /\
  first_spec g_twice 1 = [2; 3].
Proof. vm_compute. repeat split. Qed.

Print Assumptions first_spec_sound.
Print Assumptions nullable_spec_sound.
Print Assumptions first_seq_spec_sound.
Print Assumptions first_complete_stable.
Print Assumptions first_tab_stable.
Print Assumptions first_spec_complete.
Print Assumptions first_seq_spec_complete.
Print Assumptions first_go_refuted.
Print Assumptions first_go_refuted_tree.
Print Assumptions first_go_refuted_twice.
