(* Theorems about the conflict-resolution model (ResolveModel.v). *)
From Coq Require Import List Arith Lia Bool.
From Lox Require Import Gen.ResolveModel.
Import ListNotations.

Section Proofs.
Variable prec : nat -> nat.
Variable assoc_right : nat -> bool.
Variable rule_of : nat -> nat.

Notation resolve := (resolve prec assoc_right rule_of).
Notation resolve_sr := (resolve_sr prec assoc_right rule_of).
Notation all_same := (all_same prec rule_of).
Notation cell_conflict := (cell_conflict prec assoc_right rule_of).

(* the cell is one shift and one reduce, in either order *)
Definition sr_cell (cell : list cact) (tgt : nat) (sp : list nat) (p : nat) : Prop :=
  cell = [CShift tgt sp; CReduce p] \/ cell = [CReduce p; CShift tgt sp].

Lemma resolve_sr_cell cell tgt sp p :
  sr_cell cell tgt sp p -> resolve cell = resolve_sr tgt sp p.
Proof. intros [Hc | Hc]; subst cell; reflexivity. Qed.

Lemma resolve_some_sr_cell cell r :
  resolve cell = Some r -> exists tgt sp p, sr_cell cell tgt sp p.
Proof.
  unfold resolve, ResolveModel.resolve, sr_cell. intros H.
  destruct cell as [|a [|b [|c rest]]]; try discriminate.
  - destruct a; discriminate.
  - destruct a as [t sp | p |]; destruct b as [t' sp' | p' |]; try discriminate.
    + exists t, sp, p'. now left.
    + exists t', sp', p. now right.
  - destruct a as [t sp | p |]; try discriminate; destruct b; discriminate.
Qed.

Lemma all_same_spec r pr ps :
  all_same r pr ps = true -> forall q, In q ps -> rule_of q = r /\ prec q = pr.
Proof.
  unfold all_same, ResolveModel.all_same. intros H q Hq.
  rewrite forallb_forall in H. specialize (H q Hq).
  apply andb_true_iff in H. destruct H as [H1 H2].
  apply Nat.eqb_eq in H1. apply Nat.eqb_eq in H2. now split.
Qed.

(* what a successful resolve_sr tells *)
Lemma resolve_sr_some tgt sp p r :
  resolve_sr tgt sp p = Some r ->
  sp <> [] /\
  (forall q, In q sp -> rule_of q = rule_of p) /\
  (forall q q', In q sp -> In q' sp -> prec q = prec q') /\
  (forall q, In q sp -> 0 < prec q) /\
  0 < prec p /\
  (r = [CShift tgt sp] \/ r = [CReduce p]).
Proof.
  unfold resolve_sr, ResolveModel.resolve_sr. intros H.
  destruct sp as [|q rest]; [discriminate|].
  destruct (all_same (rule_of q) (prec q) rest) eqn:Hsame; cbn [negb] in H; [|discriminate].
  destruct (rule_of q =? rule_of p) eqn:Hrule; cbn [negb] in H; [|discriminate].
  destruct (prec q =? 0) eqn:Hq0; cbn [orb] in H; [discriminate|].
  destruct (prec p =? 0) eqn:Hp0; [discriminate|].
  apply Nat.eqb_eq in Hrule. apply Nat.eqb_neq in Hq0. apply Nat.eqb_neq in Hp0.
  pose proof (all_same_spec _ _ _ Hsame) as Hall.
  assert (Hin : forall q', In q' (q :: rest) -> rule_of q' = rule_of q /\ prec q' = prec q).
  { intros q' [Heq | Hq']; [subst; now split | now apply Hall]. }
  split; [discriminate|].
  split; [intros q' Hq'; destruct (Hin q' Hq') as [Hr _]; congruence|].
  split; [intros q1 q2 H1 H2; destruct (Hin q1 H1) as [_ E1]; destruct (Hin q2 H2) as [_ E2]; congruence|].
  split; [intros q' Hq'; destruct (Hin q' Hq') as [_ E]; lia|].
  split; [lia|].
  destruct (prec q <? prec p); [inversion H; now right|].
  destruct (prec p <? prec q); [inversion H; now left|].
  destruct rest as [|q2 rest']; [|inversion H; now right].
  destruct ((q =? p) && assoc_right q); inversion H; [now left | now right].
Qed.

(* C1 *)
Theorem resolve_only_sr_same_rule cell r :
  resolve cell = Some r ->
  exists tgt sp p,
    sr_cell cell tgt sp p /\
    sp <> [] /\
    (forall q, In q sp -> rule_of q = rule_of p) /\
    (forall q q', In q sp -> In q' sp -> prec q = prec q') /\
    (forall q, In q sp -> 0 < prec q) /\
    0 < prec p /\
    (r = [CShift tgt sp] \/ r = [CReduce p]).
Proof.
  intros H. destruct (resolve_some_sr_cell _ _ H) as (tgt & sp & p & Hc).
  exists tgt, sp, p. split; [exact Hc|].
  rewrite (resolve_sr_cell _ _ _ _ Hc) in H. now apply resolve_sr_some.
Qed.

(* consequences: everything that is not exactly one shift + one reduce is
   left alone, in particular reduce/reduce conflicts *)
Corollary resolve_reduce_reduce p q : resolve [CReduce p; CReduce q] = None.
Proof. reflexivity. Qed.

Corollary resolve_three a b c rest : resolve (a :: b :: c :: rest) = None.
Proof. destruct a; [| |reflexivity]; destruct b; reflexivity. Qed.

Corollary reduce_reduce_conflict p q : cell_conflict [CReduce p; CReduce q] = true.
Proof. reflexivity. Qed.

Corollary three_actions_conflict a b c rest : cell_conflict (a :: b :: c :: rest) = true.
Proof.
  unfold cell_conflict, ResolveModel.cell_conflict. rewrite resolve_three. reflexivity.
Qed.

Corollary spanning_rules_conflict cell tgt sp p q :
  sr_cell cell tgt sp p -> In q sp -> rule_of q <> rule_of p -> cell_conflict cell = true.
Proof.
  intros Hc Hq Hne. unfold cell_conflict, ResolveModel.cell_conflict.
  assert (Hlen : 1 <? length cell = true) by (destruct Hc; subst; reflexivity).
  rewrite Hlen. cbn [andb].
  destruct (resolve cell) as [r|] eqn:Hr; [|reflexivity].
  rewrite (resolve_sr_cell _ _ _ _ Hc) in Hr.
  apply resolve_sr_some in Hr. destruct Hr as (_ & Hrule & _). now apply Hrule in Hq.
Qed.

Corollary unqualified_conflict cell tgt sp p q :
  sr_cell cell tgt sp p -> (q = p \/ In q sp) -> prec q = 0 -> cell_conflict cell = true.
Proof.
  intros Hc Hq H0. unfold cell_conflict, ResolveModel.cell_conflict.
  assert (Hlen : 1 <? length cell = true) by (destruct Hc; subst; reflexivity).
  rewrite Hlen. cbn [andb].
  destruct (resolve cell) as [r|] eqn:Hr; [|reflexivity].
  rewrite (resolve_sr_cell _ _ _ _ Hc) in Hr.
  apply resolve_sr_some in Hr. destruct Hr as (_ & _ & _ & Hpos & Hp & _).
  destruct Hq as [-> | Hq]; [lia | apply Hpos in Hq; lia].
Qed.

(* C2 *)
Theorem resolve_meets_doc_levels cell tgt sp p r q :
  sr_cell cell tgt sp p -> resolve cell = Some r -> In q sp ->
  (prec p < prec q -> r = [CShift tgt sp]) /\
  (prec q < prec p -> r = [CReduce p]).
Proof.
  intros Hc Hr Hq. rewrite (resolve_sr_cell _ _ _ _ Hc) in Hr.
  pose proof (resolve_sr_some _ _ _ _ Hr) as (_ & _ & Hsame & _).
  unfold resolve_sr, ResolveModel.resolve_sr in Hr.
  destruct sp as [|q0 rest]; [discriminate|].
  assert (Hq0 : prec q = prec q0) by (apply Hsame; [exact Hq | now left]).
  destruct (negb (all_same (rule_of q0) (prec q0) rest)); [discriminate|].
  destruct (negb (rule_of q0 =? rule_of p)); [discriminate|].
  destruct ((prec q0 =? 0) || (prec p =? 0)); [discriminate|].
  destruct (prec q0 <? prec p) eqn:Hlt.
  - apply Nat.ltb_lt in Hlt. inversion Hr. split; [lia | reflexivity].
  - apply Nat.ltb_ge in Hlt.
    destruct (prec p <? prec q0) eqn:Hgt.
    + inversion Hr. split; [reflexivity | lia].
    + apply Nat.ltb_ge in Hgt. split; lia.
Qed.

(* C3 : equal levels, reduced production not @right : left grouping *)
Theorem resolve_left cell tgt sp p r q :
  sr_cell cell tgt sp p -> resolve cell = Some r -> In q sp ->
  prec q = prec p -> assoc_right p = false ->
  r = [CReduce p].
Proof.
  intros Hc Hr Hq Heq Hleft. rewrite (resolve_sr_cell _ _ _ _ Hc) in Hr.
  pose proof (resolve_sr_some _ _ _ _ Hr) as (_ & _ & Hsame & _).
  unfold resolve_sr, ResolveModel.resolve_sr in Hr.
  destruct sp as [|q0 rest]; [discriminate|].
  assert (Hq0 : prec q = prec q0) by (apply Hsame; [exact Hq | now left]).
  destruct (negb (all_same (rule_of q0) (prec q0) rest)); [discriminate|].
  destruct (negb (rule_of q0 =? rule_of p)); [discriminate|].
  destruct ((prec q0 =? 0) || (prec p =? 0)); [discriminate|].
  destruct (prec q0 <? prec p); [now inversion Hr|].
  destruct (prec p <? prec q0) eqn:Hgt; [apply Nat.ltb_lt in Hgt; lia|].
  destruct rest as [|q2 rest']; [|now inversion Hr].
  destruct (q0 =? p) eqn:Hqp; cbn [andb] in Hr; [|now inversion Hr].
  apply Nat.eqb_eq in Hqp. subst q0. rewrite Hleft in Hr. now inversion Hr.
Qed.

(* C4 : equal levels, @right, the shift lists the reduced production once *)
Theorem resolve_right_single cell tgt p :
  sr_cell cell tgt [p] p -> 0 < prec p -> assoc_right p = true ->
  resolve cell = Some [CShift tgt [p]].
Proof.
  intros Hc Hpos Hright. rewrite (resolve_sr_cell _ _ _ _ Hc).
  unfold resolve_sr, ResolveModel.resolve_sr. cbn [all_same ResolveModel.all_same forallb negb].
  rewrite Nat.eqb_refl. cbn [negb].
  destruct (prec p =? 0) eqn:H0; [apply Nat.eqb_eq in H0; lia|]. cbn [orb].
  rewrite Nat.ltb_irrefl. rewrite Nat.eqb_refl, Hright. reflexivity.
Qed.

(* the general equal-level law: the shift survives only in the situation of C4 *)
Theorem resolve_equal_levels cell tgt sp p r q :
  sr_cell cell tgt sp p -> resolve cell = Some r -> In q sp -> prec q = prec p ->
  r = if match sp with [q0] => (q0 =? p) && assoc_right q0 | _ => false end
      then [CShift tgt sp] else [CReduce p].
Proof.
  intros Hc Hr Hq Heq. rewrite (resolve_sr_cell _ _ _ _ Hc) in Hr.
  pose proof (resolve_sr_some _ _ _ _ Hr) as (_ & _ & Hsame & _).
  unfold resolve_sr, ResolveModel.resolve_sr in Hr.
  destruct sp as [|q0 rest]; [discriminate|].
  assert (Hq0 : prec q = prec q0) by (apply Hsame; [exact Hq | now left]).
  destruct (negb (all_same (rule_of q0) (prec q0) rest)); [discriminate|].
  destruct (negb (rule_of q0 =? rule_of p)); [discriminate|].
  destruct ((prec q0 =? 0) || (prec p =? 0)); [discriminate|].
  destruct (prec q0 <? prec p) eqn:Hlt; [apply Nat.ltb_lt in Hlt; lia|].
  destruct (prec p <? prec q0) eqn:Hgt; [apply Nat.ltb_lt in Hgt; lia|].
  destruct rest as [|q2 rest']; [|now inversion Hr].
  destruct ((q0 =? p) && assoc_right q0); now inversion Hr.
Qed.

End Proofs.

(* C5 (known finding D5): equal levels, @right, but the state has two items
   e -> e . '^' e with different lookaheads, so AddShift listed production 4
   twice: the REDUCE is kept, i.e. 2^3^2 groups as (2^3)^2. *)
Example resolve_right_refuted :
  ex_prec 4 = 3 /\ ex_right 4 = true /\
  resolve ex_prec ex_right ex_rule [CShift 9 [4; 4]; CReduce 4] = Some [CReduce 4] /\
  resolve ex_prec ex_right ex_rule [CShift 9 [4]; CReduce 4] = Some [CShift 9 [4]].
Proof. vm_compute. repeat split. Qed.

(* and in general: *)
Theorem resolve_right_duplicate prec assoc_right rule_of tgt p :
  0 < prec p ->
  resolve prec assoc_right rule_of [CShift tgt [p; p]; CReduce p] = Some [CReduce p].
Proof.
  intros Hpos. cbn [resolve]. unfold resolve_sr.
  cbn [all_same forallb]. rewrite !Nat.eqb_refl. cbn [andb negb].
  destruct (prec p =? 0) eqn:H0; [apply Nat.eqb_eq in H0; lia|]. cbn [orb].
  rewrite Nat.ltb_irrefl. reflexivity.
Qed.

Print Assumptions resolve_only_sr_same_rule.
Print Assumptions spanning_rules_conflict.
Print Assumptions unqualified_conflict.
Print Assumptions resolve_meets_doc_levels.
Print Assumptions resolve_left.
Print Assumptions resolve_right_single.
Print Assumptions resolve_equal_levels.
Print Assumptions resolve_right_refuted.
Print Assumptions resolve_right_duplicate.
