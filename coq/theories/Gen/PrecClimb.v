(* Executable reference for property C05: the textbook precedence-climbing
   (Pratt) parser for

       e = e OP_i e @left/@right(n_i) | ... | ATOM | '(' e ')'

   and the declarative meaning of "grouped the way a precedence-climbing
   parser would" on trees ([well_grouped]).

   Definitions only (extracted to OCaml); theorems in PrecClimbProofs.v.
   stdlib only, plain Fixpoints with fuel. *)
From Coq Require Import List Arith Bool.
Import ListNotations.

(* the operator table, indexed by operator number *)
Record opinfo := { o_level : nat; o_right : bool }.

Inductive etok := EAtom (id : nat) | EOp (op : nat) | ELParen | ERParen.
Inductive etree := TAtom (id : nat) | TBin (op : nat) (l r : etree) | TParen (t : etree).

Fixpoint yield (t : etree) : list etok :=
  match t with
  | TAtom a => [EAtom a]
  | TBin op l r => yield l ++ EOp op :: yield r
  | TParen u => ELParen :: yield u ++ [ERParen]
  end.

(* ------------------------------------------------------------------ *)
(* the parser *)

(* result of the fuelled functions: PFuel is a marker distinct from a syntax
   error; PrecClimbProofs.fuel_adequate shows it is never returned when
   fuel > length of the input. *)
Inductive pres :=
| POk (t : etree) (rest : list etok)
| PErr
| PFuel.

(* minimal level for the right operand of an operator *)
Definition rmin (oi : opinfo) : nat :=
  if o_right oi then o_level oi else S (o_level oi).

(* parse_expr min  : parse a primary (atom or parenthesised expression), then
                     run the operator loop on it;
   parse_loop min l: l is the left operand built so far; while the next token
                     is an operator of the table with level >= min, consume it,
                     parse its right operand with parse_expr (rmin op) and
                     continue with TBin op l r.
   Both functions consume at least one unit of fuel per token. *)
Fixpoint parse_expr (tbl : list opinfo) (fuel min : nat) (toks : list etok)
  {struct fuel} : pres :=
  match fuel with
  | 0 => PFuel
  | S f =>
      match toks with
      | EAtom a :: rest => parse_loop tbl f min (TAtom a) rest
      | ELParen :: rest =>
          match parse_expr tbl f 0 rest with
          | POk u rest1 =>
              match rest1 with
              | ERParen :: rest2 => parse_loop tbl f min (TParen u) rest2
              | _ => PErr
              end
          | PErr => PErr
          | PFuel => PFuel
          end
      | _ => PErr
      end
  end
with parse_loop (tbl : list opinfo) (fuel min : nat) (l : etree) (toks : list etok)
  {struct fuel} : pres :=
  match fuel with
  | 0 => PFuel
  | S f =>
      match toks with
      | EOp op :: rest =>
          match nth_error tbl op with
          | None => PErr                       (* operator not in the table *)
          | Some oi =>
              if min <=? o_level oi then
                match parse_expr tbl f (rmin oi) rest with
                | POk r rest1 => parse_loop tbl f min (TBin op l r) rest1
                | PErr => PErr
                | PFuel => PFuel
                end
              else POk l toks
          end
      | _ => POk l toks
      end
  end.

Definition climb_res (tbl : list opinfo) (toks : list etok) : pres :=
  parse_expr tbl (S (length toks)) 0 toks.

(* None on a syntax error, an unknown operator or trailing tokens *)
Definition climb (tbl : list opinfo) (toks : list etok) : option etree :=
  match climb_res tbl toks with
  | POk t [] => Some t
  | _ => None
  end.

(* for the harness: true iff the fuel ran out (proved impossible) *)
Definition climb_out_of_fuel (tbl : list opinfo) (toks : list etok) : bool :=
  match climb_res tbl toks with PFuel => true | _ => false end.

(* ------------------------------------------------------------------ *)
(* the declarative property *)

Definition lev (tbl : list opinfo) (op : nat) : nat :=
  match nth_error tbl op with Some oi => o_level oi | None => 0 end.
Definition rgt (tbl : list opinfo) (op : nat) : bool :=
  match nth_error tbl op with Some oi => o_right oi | None => false end.

(* left operand l of operator op: a bare TBin op' must bind tighter, or as
   tight with op left-associative *)
Definition ok_left (tbl : list opinfo) (op : nat) (l : etree) : bool :=
  match l with
  | TBin op' _ _ =>
      (lev tbl op <? lev tbl op') || ((lev tbl op' =? lev tbl op) && negb (rgt tbl op))
  | _ => true
  end.

(* right operand r of operator op: tighter, or as tight with op right-associative *)
Definition ok_right (tbl : list opinfo) (op : nat) (r : etree) : bool :=
  match r with
  | TBin op' _ _ =>
      (lev tbl op <? lev tbl op') || ((lev tbl op' =? lev tbl op) && rgt tbl op)
  | _ => true
  end.

Fixpoint well_grouped (tbl : list opinfo) (t : etree) : bool :=
  match t with
  | TAtom _ => true
  | TParen u => well_grouped tbl u
  | TBin op l r =>
      ok_left tbl op l && ok_right tbl op r && well_grouped tbl l && well_grouped tbl r
  end.

(* every operator token is an index of the table *)
Definition toks_known (tbl : list opinfo) (toks : list etok) : bool :=
  forallb (fun k => match k with EOp op => op <? length tbl | _ => true end) toks.

Definition ops_known (tbl : list opinfo) (t : etree) : bool := toks_known tbl (yield t).

(* operators sharing a level share their associativity *)
Definition uniform (tbl : list opinfo) : Prop :=
  forall a b oa ob, nth_error tbl a = Some oa -> nth_error tbl b = Some ob ->
    o_level oa = o_level ob -> o_right oa = o_right ob.

Definition uniformb (tbl : list opinfo) : bool :=
  forallb (fun oa =>
    forallb (fun ob => negb (o_level oa =? o_level ob) || eqb (o_right oa) (o_right ob)) tbl) tbl.

(* ------------------------------------------------------------------ *)
(* C6 examples: operators 0 = '+' (1, left), 1 = '*' (2, left), 2 = '^' (3, right),
   3 = '-' (1, left); atoms a = 0, b = 1, c = 2 *)

Definition ex_tbl : list opinfo :=
  [ {| o_level := 1; o_right := false |};
    {| o_level := 2; o_right := false |};
    {| o_level := 3; o_right := true |};
    {| o_level := 1; o_right := false |} ].

Local Notation a := (EAtom 0).
Local Notation b := (EAtom 1).
Local Notation c := (EAtom 2).
Local Notation ADD := (EOp 0).
Local Notation MUL := (EOp 1).
Local Notation POW := (EOp 2).
Local Notation SUB := (EOp 3).
Local Notation A := (TAtom 0).
Local Notation B := (TAtom 1).
Local Notation C := (TAtom 2).

Example ex_uniform : uniformb ex_tbl = true.
Proof. vm_compute. reflexivity. Qed.

(* a + b * c = a + (b * c) *)
Example ex_add_mul : climb ex_tbl [a; ADD; b; MUL; c] = Some (TBin 0 A (TBin 1 B C)).
Proof. vm_compute. reflexivity. Qed.
(* a * b + c = (a * b) + c *)
Example ex_mul_add : climb ex_tbl [a; MUL; b; ADD; c] = Some (TBin 0 (TBin 1 A B) C).
Proof. vm_compute. reflexivity. Qed.
(* a - b - c = (a - b) - c *)
Example ex_left : climb ex_tbl [a; SUB; b; SUB; c] = Some (TBin 3 (TBin 3 A B) C).
Proof. vm_compute. reflexivity. Qed.
(* a - b + c = (a - b) + c : two operators sharing a left level *)
Example ex_left_mixed : climb ex_tbl [a; SUB; b; ADD; c] = Some (TBin 0 (TBin 3 A B) C).
Proof. vm_compute. reflexivity. Qed.
(* a ^ b ^ c = a ^ (b ^ c) *)
Example ex_right : climb ex_tbl [a; POW; b; POW; c] = Some (TBin 2 A (TBin 2 B C)).
Proof. vm_compute. reflexivity. Qed.
(* (a + b) * c : parentheses override *)
Example ex_paren : climb ex_tbl [ELParen; a; ADD; b; ERParen; MUL; c]
                   = Some (TBin 1 (TParen (TBin 0 A B)) C).
Proof. vm_compute. reflexivity. Qed.
(* a ^ (b + c) ^ a * b + c = ((a ^ ((b + c) ^ a)) * b) + c *)
Example ex_mixed :
  climb ex_tbl [a; POW; ELParen; b; ADD; c; ERParen; POW; a; MUL; b; ADD; c]
  = Some (TBin 0 (TBin 1 (TBin 2 A (TBin 2 (TParen (TBin 0 B C)) A)) B) C).
Proof. vm_compute. reflexivity. Qed.
(* syntax errors, trailing tokens, an unknown operator: None, and never for lack of fuel *)
Example ex_err_missing_operand : climb ex_tbl [a; ADD] = None.
Proof. vm_compute. reflexivity. Qed.
Example ex_err_two_ops : climb ex_tbl [a; ADD; MUL; b] = None.
Proof. vm_compute. reflexivity. Qed.
Example ex_err_unclosed : climb ex_tbl [ELParen; a; ADD; b] = None.
Proof. vm_compute. reflexivity. Qed.
Example ex_err_trailing : climb ex_tbl [a; ADD; b; ERParen] = None.
Proof. vm_compute. reflexivity. Qed.
Example ex_err_empty : climb ex_tbl [] = None.
Proof. vm_compute. reflexivity. Qed.
Example ex_err_unknown_op : climb ex_tbl [a; EOp 7; b] = None.
Proof. vm_compute. reflexivity. Qed.
Example ex_err_not_fuel :
  map (climb_out_of_fuel ex_tbl)
      [[a; ADD]; [ELParen; ELParen; ELParen; ELParen]; [a; ADD; b; ERParen]; []]
  = [false; false; false; false].
Proof. vm_compute. reflexivity. Qed.
(* the reference tree of each example is well grouped; the other grouping is not *)
Example ex_wg :
  well_grouped ex_tbl (TBin 0 A (TBin 1 B C)) = true /\
  well_grouped ex_tbl (TBin 1 (TBin 0 A B) C) = false /\
  well_grouped ex_tbl (TBin 3 (TBin 3 A B) C) = true /\
  well_grouped ex_tbl (TBin 3 A (TBin 3 B C)) = false /\
  well_grouped ex_tbl (TBin 2 A (TBin 2 B C)) = true /\
  well_grouped ex_tbl (TBin 2 (TBin 2 A B) C) = false /\
  well_grouped ex_tbl (TBin 1 (TParen (TBin 0 A B)) C) = true.
Proof. vm_compute. repeat split. Qed.
