(* Executable models of FIRST for lox's LALR(1) generator
   (/repo/internal/parsergen/lr1/first.go).

   1. [first_go]   : exact mirror of lr1.First / lr1.first, including the
                     [visited] set shared by one whole First call.
   2. [first_tab]  : the textbook least fixed point (nullable + FIRST in one
                     table) by Jacobi iteration to saturation, and the derived
                     [nullable_spec], [first_spec], [first_seq_spec].

   Definitions only (extracted to OCaml); the theorems are in FirstProofs.v. *)
From Coq Require Import List Arith Bool.
From Lox Require Import Parse.Grammar.
Import ListNotations.

(* ------------------------------------------------------------------ *)
(* Small set utilities: sorted duplicate-free lists of nat / option nat *)

Fixpoint ins_nat (x : nat) (l : list nat) : list nat :=
  match l with
  | [] => [x]
  | y :: l' =>
      if x <? y then x :: l
      else if x =? y then l
      else y :: ins_nat x l'
  end.

Definition sort_nat (l : list nat) : list nat := fold_right ins_nat [] l.

Definition memb (x : nat) (l : list nat) : bool := existsb (Nat.eqb x) l.

Definition on_eqb (a b : option nat) : bool :=
  match a, b with
  | None, None => true
  | Some x, Some y => x =? y
  | _, _ => false
  end.

(* None (Epsilon) sorts first. *)
Definition on_ltb (a b : option nat) : bool :=
  match a, b with
  | None, None => false
  | None, Some _ => true
  | Some _, None => false
  | Some x, Some y => x <? y
  end.

Fixpoint ins_on (x : option nat) (l : list (option nat)) : list (option nat) :=
  match l with
  | [] => [x]
  | y :: l' =>
      if on_ltb x y then x :: l
      else if on_eqb x y then l
      else y :: ins_on x l'
  end.

Definition sort_on (l : list (option nat)) : list (option nat) := fold_right ins_on [] l.

Definition on_mem (x : option nat) (l : list (option nat)) : bool := existsb (on_eqb x) l.

Definition is_some (x : option nat) : bool :=
  match x with Some _ => true | None => false end.

(* ------------------------------------------------------------------ *)
(* 1. Mirror of the Go code.

   [go_first fuel g vis s] mirrors  first(g, visited, s) : the visited set is
   threaded through (Go mutates it through the pointer) and returned.
   The result set is a list of [option nat], None = Epsilon.  [None] as the
   whole result means the fuel ran out (never happens with [go_fuel]: each
   nested call on a rule adds a new rule to [visited]). *)

Fixpoint go_first (fuel : nat) (g : grammar) (vis : list nat) (s : sym)
  {struct fuel} : option (list nat * list (option nat)) :=
  match fuel with
  | 0 => None
  | S f =>
      match s with
      | T t => Some (vis, [Some t])
      | NT n =>
          if memb n vis then Some (vis, [])
          else
            (* for _, term := range prod.Terms *)
            let fix terms (vis : list nat) (ts : list sym) (acc : list (option nat))
              {struct ts} : option (list nat * list (option nat) * bool) :=
              match ts with
              | [] => Some (vis, acc, true)                (* addEpsilon stays true *)
              | t :: ts' =>
                  match go_first f g vis t with
                  | None => None
                  | Some (vis1, ft) =>
                      let acc1 := acc ++ filter is_some ft in
                      if on_mem None ft then terms vis1 ts' acc1
                      else Some (vis1, acc1, false)
                  end
              end in
            (* for _, prod := range rule.Prods  (the productions of rule n, in index order) *)
            let fix prods (vis : list nat) (ps : list prod) (acc : list (option nat))
              {struct ps} : option (list nat * list (option nat)) :=
              match ps with
              | [] => Some (vis, acc)
              | p :: ps' =>
                  if lhs p =? n then
                    match rhs p with
                    | [] => prods vis ps' (acc ++ [None])
                    | _ :: _ =>
                        match terms vis (rhs p) acc with
                        | None => None
                        | Some (vis1, acc1, eps) =>
                            prods vis1 ps' (if eps then acc1 ++ [None] else acc1)
                        end
                    end
                  else prods vis ps' acc
              end in
            prods (n :: vis) g []
      end
  end.

Definition go_fuel (g : grammar) : nat := length g + 2.

(* the loop of First over syms (len(syms) <> 1) *)
Fixpoint go_first_seq (g : grammar) (vis : list nat) (syms : list sym)
  (acc : list (option nat)) : option (list (option nat)) :=
  match syms with
  | [] => Some acc
  | s :: rest =>
      match go_first (go_fuel g) g vis s with
      | None => None
      | Some (vis1, part) =>
          let acc1 := acc ++ part in
          if on_mem None part then go_first_seq g vis1 rest acc1
          else Some (filter is_some acc1)              (* firstSet.Remove(Epsilon); break *)
      end
  end.

(* lr1.First; result sorted, duplicate-free, None (= Epsilon) first.
   [first_go_opt] = None only on fuel exhaustion (impossible). *)
Definition first_go_opt (g : grammar) (syms : list sym) : option (list (option nat)) :=
  match syms with
  | [s] =>
      match go_first (go_fuel g) g [] s with
      | None => None
      | Some (_, r) => Some (sort_on r)
      end
  | _ =>
      match go_first_seq g [] syms [] with
      | None => None
      | Some r => Some (sort_on r)
      end
  end.

Definition first_go (g : grammar) (syms : list sym) : list (option nat) :=
  match first_go_opt g syms with Some r => r | None => [] end.

(* What Closure uses for an item [A -> alpha . B beta, a]:  First(beta a),
   as terminal numbers (Epsilon can never be in it: the sequence ends with a
   terminal). *)
Fixpoint somes (l : list (option nat)) : list nat :=
  match l with
  | [] => []
  | Some t :: l' => t :: somes l'
  | None :: l' => somes l'
  end.

Definition first_go_seq (g : grammar) (beta : list sym) (a : nat) : list nat :=
  somes (first_go g (beta ++ [T a])).

(* ------------------------------------------------------------------ *)
(* 2. Textbook FIRST / nullable as one least fixed point.

   An entry (n, None)   says: rule n is nullable.
   An entry (n, Some t) says: terminal t is in FIRST(n). *)

Definition entry := (nat * option nat)%type.

Definition entry_eqb (a b : entry) : bool :=
  (fst a =? fst b) && on_eqb (snd a) (snd b).

Definition tmem (e : entry) (tab : list entry) : bool := existsb (entry_eqb e) tab.

Definition tadd (e : entry) (tab : list entry) : list entry :=
  if tmem e tab then tab else e :: tab.

Definition tadd_all (l : list entry) (tab : list entry) : list entry :=
  fold_left (fun tb e => tadd e tb) l tab.

(* the FIRST entries of rule n in the table *)
Fixpoint tfirst (n : nat) (tab : list entry) : list (option nat) :=
  match tab with
  | [] => []
  | (m, Some t) :: tab' => if m =? n then Some t :: tfirst n tab' else tfirst n tab'
  | (_, None) :: tab' => tfirst n tab'
  end.

(* FIRST of a sequence w.r.t. a table; None = the sequence is nullable *)
Fixpoint seq_first (tab : list entry) (beta : list sym) : list (option nat) :=
  match beta with
  | [] => [None]
  | T t :: _ => [Some t]
  | NT n :: rest =>
      tfirst n tab ++ (if tmem (n, None) tab then seq_first tab rest else [])
  end.

(* everything the productions justify, given the table *)
Definition new_entries (g : grammar) (tab : list entry) : list entry :=
  flat_map (fun pr => map (fun x => (lhs pr, x)) (seq_first tab (rhs pr))) g.

Definition step (g : grammar) (tab : list entry) : list entry :=
  tadd_all (new_entries g tab) tab.

(* closed under the productions *)
Definition stable_b (g : grammar) (tab : list entry) : bool :=
  forallb (fun e => tmem e tab) (new_entries g tab).

Fixpoint saturate (fuel : nat) (g : grammar) (tab : list entry) : list entry :=
  match fuel with
  | 0 => tab
  | S f => if stable_b g tab then tab else saturate f g (step g tab)
  end.

(* number of rules * (number of terminals + 1) + 1, both over-approximated by
   counting occurrences: every unstable step adds a new entry (lhs, x) with
   lhs a left-hand side and x Epsilon or a terminal occurring in a right-hand
   side. *)
Definition first_fuel (g : grammar) : nat :=
  length g * S (length (flat_map rhs g)) + 1.

Definition first_tab (g : grammar) : list entry := saturate (first_fuel g) g [].

(* true iff the iteration reached saturation (always, see FirstProofs.first_tab_stable) *)
Definition first_tab_ok (g : grammar) : bool := stable_b g (first_tab g).

(* table-taking versions (compute [first_tab g] once) *)
Definition nullable_tab (tab : list entry) (n : nat) : bool := tmem (n, None) tab.
Definition first_of_tab (tab : list entry) (n : nat) : list nat := sort_nat (somes (tfirst n tab)).
Definition first_seq_tab (tab : list entry) (beta : list sym) (a : nat) : list nat :=
  sort_nat (somes (seq_first tab (beta ++ [T a]))).

Definition nullable_spec (g : grammar) (n : nat) : bool := nullable_tab (first_tab g) n.
Definition first_spec (g : grammar) (n : nat) : list nat := first_of_tab (first_tab g) n.
Definition first_seq_spec (g : grammar) (beta : list sym) (a : nat) : list nat :=
  first_seq_tab (first_tab g) beta a.

(* ------------------------------------------------------------------ *)
(* Examples *)

Definition mkp (l : nat) (r : list sym) : prod := {| lhs := l; rhs := r |}.

(* S' -> s;  s -> q xs E;  q -> Z;  xs -> xs x | (empty);  x -> A
   terminals EOF=0 ERROR=1 E=2 Z=3 A=4; rules S'=0 s=1 q=2 xs=3 x=4 *)
Definition g_d1 : grammar :=
  [ mkp 0 [NT 1];
    mkp 1 [NT 2; NT 3; T 2];
    mkp 2 [T 3];
    mkp 3 [NT 3; NT 4];
    mkp 3 [];
    mkp 4 [T 4] ].

Example first_go_xs : first_go g_d1 [NT 3] = [None].
Proof. vm_compute. reflexivity. Qed.
Example first_spec_xs : (nullable_spec g_d1 3, first_spec g_d1 3) = (true, [4]).
Proof. vm_compute. reflexivity. Qed.
Example first_go_closure_call : first_go g_d1 [NT 3; T 2; T 0] = [Some 2].
Proof. vm_compute. reflexivity. Qed.
Example first_spec_closure_call : first_seq_spec g_d1 [NT 3; T 2] 0 = [2; 4].
Proof. vm_compute. reflexivity. Qed.
Example first_tab_ok_d1 : first_tab_ok g_d1 = true.
Proof. vm_compute. reflexivity. Qed.

(* the example of the doc comment in first.go:
   A = B C '%' E | D | '+';  B = '-' | eps;  C = '/' | eps;  D = '*' | eps;  E = '$'
   terminals % = 2, + = 3, - = 4, / = 5, * = 6, $ = 7; rules A=1 B=2 C=3 D=4 E=5 *)
Definition g_doc : grammar :=
  [ mkp 0 [NT 1];
    mkp 1 [NT 2; NT 3; T 2; NT 5]; mkp 1 [NT 4]; mkp 1 [T 3];
    mkp 2 [T 4]; mkp 2 [];
    mkp 3 [T 5]; mkp 3 [];
    mkp 4 [T 6]; mkp 4 [];
    mkp 5 [T 7] ].

Example first_go_doc_A : first_go g_doc [NT 1] = [None; Some 2; Some 3; Some 4; Some 5; Some 6].
Proof. vm_compute. reflexivity. Qed.
Example first_go_doc_B_star : first_go g_doc [NT 2; T 6] = [Some 4; Some 6].
Proof. vm_compute. reflexivity. Qed.
Example first_spec_doc_A : (nullable_spec g_doc 1, first_spec g_doc 1) = (true, [2; 3; 4; 5; 6]).
Proof. vm_compute. reflexivity. Qed.
