(* C12 (i): the front-end actions that "assume the lexer validated their
   input".  internal/parser/parser.go unescape / hexToRune are mirrored in
   Rang3/ClassModel.v with an explicit UPanic result.  Here: the byte strings
   the front-end lexer can hand to them, transcribed from the Literal and
   ClassChar modes of internal/parser/parser.lox as two small automata over
   bytes, and the bytes unescape writes.

   parser.lox:
     @mode Literal {            LITERAL = '\''  (closing quote)
       @frag '\\' [\\'nrt]
       @frag '\\x' HEX HEX   @frag '\\u' HEX{4}   @frag '\\U' HEX{8}
       @frag ~[\\\n] }
     @mode ClassChar {
       CLASS_CHAR = '\\' [\\nrt\-] | '\\x' HEX HEX | '\\u' HEX{4} | '\\U' HEX{8} | ~[\n-] }
   The lexer works on runes, the token text is bytes: a rune other than '\\'
   and '\n' is one or more bytes none of which is 92 or 10 (UTF-8 continuation
   and lead bytes are >= 128; an invalid byte is decoded to U+FFFD, which the
   negated classes contain). *)
From Coq Require Import List ZArith Bool.
From Lox Require Import Rang3.ClassModel Lex.Utf8Model.
Import ListNotations.
Local Open Scope Z_scope.

Definition is_hex (b : Z) : bool := match hex_val b with Some _ => true | None => false end.

(* state of the escape automaton *)
Inductive est := ENorm | EBs | EHex (k : nat) | EBad.

(* [simple c]: the one-letter escapes of the mode; [plain b]: bytes of a rune
   the mode's negated class admits *)
Definition esc_step (simple plain : Z -> bool) (st : est) (b : Z) : est :=
  match st with
  | ENorm => if b =? 92 then EBs else if plain b then ENorm else EBad
  | EBs => if simple b then ENorm
           else if b =? 120 then EHex 2
           else if b =? 117 then EHex 4
           else if b =? 85 then EHex 8
           else EBad
  | EHex (S k) => if is_hex b then match k with O => ENorm | S _ => EHex k end else EBad
  | EHex O => EBad
  | EBad => EBad
  end.

Definition lit_simple (c : Z) : bool := (c =? 92) || (c =? 39) || (c =? 110) || (c =? 114) || (c =? 116).
Definition lit_plain (b : Z) : bool := negb (b =? 92) && negb (b =? 10).

(* text of a LITERAL token between its quotes *)
Definition is_literal_body (l : list Z) : bool :=
  match fold_left (esc_step lit_simple lit_plain) l ENorm with ENorm => true | _ => false end.

(* text of a whole LITERAL token: quote, body without a bare quote, quote *)
Definition is_literal_token (l : list Z) : bool :=
  match l with
  | 39 :: r =>
    match rev r with
    | 39 :: b => is_literal_body (rev b)
    | _ => false
    end
  | _ => false
  end.

Definition cc_simple (c : Z) : bool := (c =? 92) || (c =? 110) || (c =? 114) || (c =? 116) || (c =? 45).

(* text of a CLASS_CHAR token: one escape, or the bytes of one rune that is
   neither '\n' nor '-' (the lone backslash included) *)
Definition is_class_char (l : list Z) : bool :=
  match l with
  | [] => false
  | [92] => true
  | 92 :: c :: r =>
    if cc_simple c then match r with [] => true | _ => false end
    else if c =? 120 then Nat.eqb (List.length r) 2 && forallb is_hex r
    else if c =? 117 then Nat.eqb (List.length r) 4 && forallb is_hex r
    else if c =? 85 then Nat.eqb (List.length r) 8 && forallb is_hex r
    else false
  | _ => forallb (fun b => negb (b =? 92)) l
  end.

(* hexToRune returns rune(v) for v < 2^32: the conversion to int32 wraps *)
Definition to_rune (v : Z) : Z := if v <? 2147483648 then v else v - 4294967296.

(* the bytes strings.Builder holds: WriteRune = utf8.AppendRune, WriteByte = the byte mod 256 *)
Definition out_bytes (items : list (bool * Z)) : list Z :=
  flat_map (fun it : bool * Z => if fst it then encode_rune (to_rune (snd it)) else [snd it mod 256]) items.

Definition unescape_bytes (lit : list Z) : option (list Z) :=
  match unescape lit with UOk items => Some (out_bytes items) | UPanic => None end.

(* fixLiteral: strip the quotes *)
Definition fix_literal (tok : list Z) : option (list Z) :=
  match tok with
  | _ :: [] => None                        (* lit[1:0]: slice bounds out of range *)
  | _ :: r => unescape_bytes (removelast r)
  | [] => None
  end.
