(* Property C18 (the logical part): N parser/lexer instances run under any
   interleaving compute what they compute when run one after the other.

   The generated tables are shared and immutable, so they are a Section
   variable, not part of any state.  Each instance owns a state of type S;
   one tick applies the deterministic step function to ONE instance, chosen
   by the schedule.  The content of the theorem is the shape of the system
   (a step reads the tables and touches only its own instance's state); that
   the Go code has that shape is checked separately (no package-level
   variable is written, all writes go through the receiver). *)
From Coq Require Import List Arith Lia.
Import ListNotations.

Section Sched.
Variable T : Type.            (* the tables *)
Variable S : Type.            (* the state of one instance *)
Variable step_t : T -> S -> S.
Variable tables : T.

Definition step : S -> S := step_t tables.

(* one tick for instance i (an index outside the system does nothing) *)
Fixpoint tick (i : nat) (sts : list S) : list S :=
  match sts, i with
  | [], _ => []
  | s :: r, O => step s :: r
  | s :: r, Datatypes.S j => s :: tick j r
  end.

Definition run_sched (sched : list nat) (sts : list S) : list S :=
  fold_left (fun st i => tick i st) sched sts.

Lemma tick_length : forall i sts, length (tick i sts) = length sts.
Proof.
  intros i sts. revert i. induction sts as [|s r IH]; intros [|j]; simpl; auto.
Qed.

Lemma run_length : forall sched sts, length (run_sched sched sts) = length sts.
Proof.
  induction sched as [|a sched IH]; intros sts; simpl; auto.
  unfold run_sched in *. simpl. rewrite IH. apply tick_length.
Qed.

Lemma tick_nth_same : forall i sts d,
  i < length sts -> nth i (tick i sts) d = step (nth i sts d).
Proof.
  intros i sts. revert i. induction sts as [|s r IH]; intros [|j] d H; simpl in *; try lia; auto.
  apply IH. lia.
Qed.

Lemma tick_nth_other : forall i j sts d, i <> j -> nth j (tick i sts) d = nth j sts d.
Proof.
  intros i j sts. revert i j.
  induction sts as [|s r IH]; intros [|i] [|j] d H; simpl; auto; try congruence.
Qed.

Lemma iter_succ_r : forall n (f : S -> S) x, Nat.iter (Datatypes.S n) f x = Nat.iter n f (f x).
Proof.
  induction n as [|n IH]; intros f x; simpl; auto.
  simpl in IH. rewrite IH. reflexivity.
Qed.

(* S1 *)
Theorem schedule_independence : forall sched sts i d,
  i < length sts ->
  nth i (run_sched sched sts) d =
  Nat.iter (count_occ Nat.eq_dec sched i) step (nth i sts d).
Proof.
  induction sched as [|a sched IH]; intros sts i d Hi.
  - reflexivity.
  - change (run_sched (a :: sched) sts) with (run_sched sched (tick a sts)).
    rewrite IH by (rewrite tick_length; exact Hi).
    simpl count_occ. destruct (Nat.eq_dec a i) as [->|Hne].
    + rewrite tick_nth_same by exact Hi. rewrite iter_succ_r. reflexivity.
    + rewrite tick_nth_other by exact Hne. reflexivity.
Qed.

(* two schedules that give every instance the same number of steps end in the
   same states - in particular any two interleavings of the same N runs *)
Corollary same_counts_same_states : forall sched sched' sts,
  (forall i, i < length sts ->
     count_occ Nat.eq_dec sched i = count_occ Nat.eq_dec sched' i) ->
  run_sched sched sts = run_sched sched' sts.
Proof.
  intros sched sched' sts H.
  destruct sts as [|s0 r].
  - assert (H1 := run_length sched []). assert (H2 := run_length sched' []).
    destruct (run_sched sched []); destruct (run_sched sched' []); simpl in *; try discriminate.
    reflexivity.
  - apply (nth_ext _ _ s0 s0).
    + rewrite !run_length. reflexivity.
    + intros i Hi. rewrite run_length in Hi.
      rewrite !schedule_independence by exact Hi. rewrite H by exact Hi. reflexivity.
Qed.

(* S2: the outcomes.  Run alone, instance i started in s_i ends, after k_i
   steps, in Nat.iter k_i step s_i. *)
Fixpoint seq_run (ks : list nat) (sts : list S) : list S :=
  match ks, sts with
  | k :: ks', s :: sts' => Nat.iter k step s :: seq_run ks' sts'
  | _, _ => sts
  end.

Lemma seq_run_length : forall ks sts, length (seq_run ks sts) = length sts.
Proof.
  induction ks as [|k ks IH]; intros [|s sts]; simpl; auto.
Qed.

Lemma seq_run_nth : forall ks sts i d,
  length ks = length sts -> i < length sts ->
  nth i (seq_run ks sts) d = Nat.iter (nth i ks 0) step (nth i sts d).
Proof.
  induction ks as [|k ks IH]; intros [|s sts] [|i] d Hl Hi; simpl in *; try lia; auto.
  apply IH; lia.
Qed.

Theorem interleaving_outcomes : forall sched ks sts,
  length ks = length sts ->
  (forall i, i < length sts -> count_occ Nat.eq_dec sched i = nth i ks 0) ->
  run_sched sched sts = seq_run ks sts.
Proof.
  intros sched ks sts Hl H.
  destruct sts as [|s0 r].
  - destruct ks; [|discriminate]. simpl.
    assert (H1 := run_length sched []). destruct (run_sched sched []); [reflexivity|discriminate].
  - apply (nth_ext _ _ s0 s0).
    + rewrite run_length, seq_run_length. reflexivity.
    + intros i Hi. rewrite run_length in Hi.
      rewrite schedule_independence by exact Hi.
      rewrite seq_run_nth by assumption. rewrite H by exact Hi. reflexivity.
Qed.

(* the sequential schedule itself: instance 0 for k_0 ticks, then instance 1
   for k_1 ticks, ...; it has the required counts, so every interleaving with
   the same counts agrees with it *)
Fixpoint seq_sched (i : nat) (ks : list nat) : list nat :=
  match ks with
  | [] => []
  | k :: ks' => repeat i k ++ seq_sched (Datatypes.S i) ks'
  end.

Lemma count_occ_repeat : forall i j k,
  count_occ Nat.eq_dec (repeat i k) j = if Nat.eq_dec i j then k else 0.
Proof.
  intros i j k. induction k as [|k IH]; simpl.
  - destruct (Nat.eq_dec i j); reflexivity.
  - destruct (Nat.eq_dec i j); simpl; rewrite IH; auto.
Qed.

Lemma seq_sched_count : forall ks b j,
  count_occ Nat.eq_dec (seq_sched b ks) j = if j <? b then 0 else nth (j - b) ks 0.
Proof.
  induction ks as [|k ks IH]; intros b j; simpl.
  - destruct (j <? b); destruct (j - b); reflexivity.
  - rewrite count_occ_app, count_occ_repeat, IH.
    destruct (Nat.eq_dec b j) as [->|Hne].
    + rewrite Nat.ltb_irrefl, Nat.sub_diag.
      assert (Hlt : (j <? Datatypes.S j) = true) by (apply Nat.ltb_lt; lia).
      rewrite Hlt. lia.
    + destruct (j <? b) eqn:E1.
      * apply Nat.ltb_lt in E1.
        assert (Hlt : (j <? Datatypes.S b) = true) by (apply Nat.ltb_lt; lia).
        rewrite Hlt. reflexivity.
      * apply Nat.ltb_ge in E1.
        assert (Hlt : (j <? Datatypes.S b) = false) by (apply Nat.ltb_ge; lia).
        rewrite Hlt. replace (j - b) with (Datatypes.S (j - Datatypes.S b)) by lia.
        reflexivity.
Qed.

Corollary sequential_is_an_interleaving : forall ks sts,
  length ks = length sts -> run_sched (seq_sched 0 ks) sts = seq_run ks sts.
Proof.
  intros ks sts Hl. apply interleaving_outcomes; auto.
  intros i Hi. rewrite seq_sched_count. simpl. rewrite Nat.sub_0_r. reflexivity.
Qed.

Corollary concurrent_equals_sequential : forall sched ks sts,
  length ks = length sts ->
  (forall i, i < length sts -> count_occ Nat.eq_dec sched i = nth i ks 0) ->
  run_sched sched sts = run_sched (seq_sched 0 ks) sts.
Proof.
  intros sched ks sts Hl H. rewrite sequential_is_an_interleaving by exact Hl.
  apply interleaving_outcomes; auto.
Qed.

End Sched.

Print Assumptions schedule_independence.
Print Assumptions same_counts_same_states.
Print Assumptions interleaving_outcomes.
Print Assumptions concurrent_equals_sequential.
