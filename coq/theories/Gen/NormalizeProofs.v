(* The desugaring of the cardinality sugar (NormalizeModel.normalize) means what
   the documentation says:
     N1 normalize_sound     every sentence of the plain grammar is a sentence of
                            the sugared grammar (documented meaning)
     N2 normalize_complete  and conversely
     N3 helper_shapes       every helper nonterminal has exactly two productions,
                            at known positions, of the shape of its kind
     N4 examples            helper reuse and numbering, by computation *)
From Coq Require Import List Arith Lia Bool.
From Lox Require Import Parse.Grammar Parse.Tables Parse.Sugar Gen.NormalizeModel.
Import ListNotations.

(* ---------- decidable equality of helper keys ---------- *)

Lemma sym_eqb_eq a b : sym_eqb a b = true <-> a = b.
Proof. destruct a, b; simpl; rewrite ?Nat.eqb_eq; split; congruence. Qed.

Lemma hk_eqb_eq a b : hk_eqb a b = true <-> a = b.
Proof. destruct a, b; simpl; split; congruence. Qed.

Lemma osym_eqb_eq a b : osym_eqb a b = true <-> a = b.
Proof. destruct a, b; simpl; rewrite ?sym_eqb_eq; split; congruence. Qed.

Lemma hkey_eqb_eq a b : hkey_eqb a b = true <-> a = b.
Proof.
  destruct a as [[k1 c1] s1], b as [[k2 c2] s2]. simpl.
  rewrite !andb_true_iff, hk_eqb_eq, sym_eqb_eq, osym_eqb_eq.
  split; [intros [[-> ->] ->]; reflexivity | intros H; inversion H; auto].
Qed.

Lemma hkey_eqb_refl k : hkey_eqb k k = true.
Proof. apply hkey_eqb_eq. reflexivity. Qed.

(* ---------- the helper table ---------- *)

Lemma find_idx_some k tbl : forall j, find_idx k tbl = Some j -> nth_error tbl j = Some k.
Proof.
  induction tbl as [|a tbl IH]; simpl; [discriminate|]. intros j.
  destruct (hkey_eqb k a) eqn:E.
  - intros [= <-]. apply hkey_eqb_eq in E. subst. reflexivity.
  - destruct (find_idx k tbl) as [j'|] eqn:F; simpl; [|discriminate].
    intros [= <-]. simpl. apply IH. reflexivity.
Qed.

Lemma find_idx_in k tbl : In k tbl -> exists j, find_idx k tbl = Some j.
Proof.
  induction tbl as [|a tbl IH]; simpl; [tauto|]. intros [->|H].
  - exists 0. rewrite hkey_eqb_refl. reflexivity.
  - destruct (hkey_eqb k a); [exists 0; reflexivity|].
    destruct (IH H) as [j ->]. exists (S j). reflexivity.
Qed.

Lemma find_idx_nodup k tbl : NoDup tbl -> forall j, nth_error tbl j = Some k -> find_idx k tbl = Some j.
Proof.
  induction 1 as [|a tbl Hnin Hnd IH]; intros [|j]; simpl; try discriminate.
  - intros [= ->]. rewrite hkey_eqb_refl. reflexivity.
  - intros Hj. destruct (hkey_eqb k a) eqn:E.
    + apply hkey_eqb_eq in E. subst. exfalso. apply Hnin. eapply nth_error_In, Hj.
    + rewrite (IH _ Hj). reflexivity.
Qed.

Lemma key_at k tbl : In k tbl -> exists j, find_idx k tbl = Some j /\ nth_error tbl j = Some k.
Proof. intros H. destruct (find_idx_in _ _ H) as [j Hj]. exists j. split; [exact Hj|apply find_idx_some, Hj]. Qed.

Lemma mem_key_in k tbl : mem_key k tbl = true <-> In k tbl.
Proof.
  unfold mem_key. split.
  - destruct (find_idx k tbl) eqn:F; [|discriminate]. intros _. eapply nth_error_In, find_idx_some, F.
  - intros H. destruct (find_idx_in _ _ H) as [j ->]. reflexivity.
Qed.

Lemma mem_key_notin k tbl : mem_key k tbl = false -> ~ In k tbl.
Proof. intros H Hin. apply mem_key_in in Hin. congruence. Qed.

Definition closed (tbl : list hkey) : Prop :=
  forall k k', In k tbl -> sub_key k = Some k' -> In k' tbl.

Lemma sub_key_leaf k k' : sub_key k = Some k' -> sub_key k' = None.
Proof. destruct k as [[hk c] s]; destruct hk; simpl; intros [= <-]; reflexivity. Qed.

Lemma nodup_snoc (l : list hkey) k : NoDup l -> ~ In k l -> NoDup (l ++ [k]).
Proof.
  induction 1 as [|a l Ha Hl IH]; simpl; intros Hk.
  - constructor; [intros []|constructor].
  - constructor.
    + rewrite in_app_iff. simpl. intros [H|[H|[]]]; [tauto|]. apply Hk. left. congruence.
    + apply IH. tauto.
Qed.

Lemma add_key_in tbl k x : In x (add_key tbl k) <-> In x tbl \/ x = k.
Proof.
  unfold add_key. destruct (mem_key k tbl) eqn:M.
  - apply mem_key_in in M. split; [auto|]. intros [H| ->]; assumption.
  - rewrite in_app_iff. simpl. intuition congruence.
Qed.

Lemma add_key_nodup tbl k : NoDup tbl -> NoDup (add_key tbl k).
Proof.
  intros H. unfold add_key. destruct (mem_key k tbl) eqn:M; [exact H|].
  apply nodup_snoc; [exact H|apply mem_key_notin, M].
Qed.

Lemma request_in tbl k x :
  In x (request tbl k) -> In x tbl \/ x = k \/ sub_key k = Some x.
Proof.
  unfold request. destruct (mem_key k tbl); [auto|].
  destruct (sub_key k) as [k'|].
  - rewrite add_key_in, in_app_iff. simpl. intuition congruence.
  - rewrite in_app_iff. simpl. intuition congruence.
Qed.

Lemma request_incl tbl k x : In x tbl -> In x (request tbl k).
Proof.
  intros H. unfold request. destruct (mem_key k tbl); [exact H|].
  destruct (sub_key k) as [k'|].
  - apply add_key_in. left. apply in_or_app. auto.
  - apply in_or_app. auto.
Qed.

Lemma request_self tbl k : In k (request tbl k).
Proof.
  unfold request. destruct (mem_key k tbl) eqn:M; [apply mem_key_in, M|].
  destruct (sub_key k) as [k'|].
  - apply add_key_in. left. apply in_or_app. simpl. auto.
  - apply in_or_app. simpl. auto.
Qed.

Lemma request_closed tbl k : closed tbl -> closed (request tbl k).
Proof.
  intros Hc. unfold request. destruct (mem_key k tbl) eqn:M; [exact Hc|].
  intros x x' Hx Hs. destruct (sub_key k) as [k'|] eqn:Sk.
  - apply add_key_in in Hx. apply add_key_in.
    destruct Hx as [Hx| ->]; [|apply sub_key_leaf in Sk; congruence].
    apply in_app_or in Hx. destruct Hx as [Hx|[<-|[]]].
    + left. apply in_or_app. left. eapply Hc; eauto.
    + right. congruence.
  - apply in_app_or in Hx. destruct Hx as [Hx|[<-|[]]]; [|congruence].
    apply in_or_app. left. eapply Hc; eauto.
Qed.

Lemma request_nodup tbl k : NoDup tbl -> NoDup (request tbl k).
Proof.
  intros H. unfold request. destruct (mem_key k tbl) eqn:M; [exact H|].
  assert (H' : NoDup (tbl ++ [k])) by (apply nodup_snoc; [exact H|apply mem_key_notin, M]).
  destruct (sub_key k); [apply add_key_nodup|]; exact H'.
Qed.

(* keys over user-level symbols: terminals and user rules 1..n *)
Definition user_sym (n : nat) (X : sym) : Prop :=
  match X with T _ => True | NT r => 1 <= r <= n end.

Definition kok (n : nat) (k : hkey) : Prop :=
  match k with
  | (hk, c, s) =>
    user_sym n c /\
    match hk with
    | HList | HListOpt => exists s', s = Some s' /\ user_sym n s'
    | _ => True
    end
  end.

Lemma sub_key_kok n k k' : kok n k -> sub_key k = Some k' -> kok n k'.
Proof.
  destruct k as [[hk c] s]. destruct hk; simpl; intros [Hc Hs] [= <-]; simpl; auto.
Qed.

Lemma simpleb_rule n r : simpleb n (SRule r) = true -> 1 <= r <= n.
Proof.
  unfold simpleb. rewrite andb_true_iff, !Nat.leb_le. tauto.
Qed.

Lemma simpleb_user_sym n c : simpleb n c = true -> user_sym n (sym_of c).
Proof.
  destruct c as [t|r| |kc c|e s o]; try discriminate; try (intros _; exact I).
  apply simpleb_rule.
Qed.

Lemma list_argb_simpleb n c : list_argb n c = true -> simpleb n c = true.
Proof. destruct c; simpl; auto. Qed.

Lemma wf_term_kok n x k : wf_termb n x = true -> key_of x = Some k -> kok n k.
Proof.
  destruct x as [t|r| |kc c|e s o]; simpl; try discriminate.
  - intros Hc [= <-]. simpl. split; [apply simpleb_user_sym, Hc|]. destruct kc; exact I.
  - rewrite andb_true_iff. intros [He Hs].
    apply list_argb_simpleb, simpleb_user_sym in He.
    apply list_argb_simpleb, simpleb_user_sym in Hs.
    destruct o; intros [= <-]; simpl; eauto.
Qed.

Lemma fold_request_props n xs : forall tbl,
  closed tbl -> NoDup tbl -> (forall k, In k tbl -> kok n k) ->
  (forall x k, In x xs -> key_of x = Some k -> kok n k) ->
  let r := fold_left request_term xs tbl in
  closed r /\ NoDup r /\ (forall k, In k r -> kok n k) /\
  (forall k, In k tbl -> In k r) /\
  (forall x k, In x xs -> key_of x = Some k -> In k r).
Proof.
  induction xs as [|x xs IH]; intros tbl Hc Hnd Hok Hxs; simpl.
  - repeat split; auto. intros x k [].
  - assert (Hc' : closed (request_term tbl x)).
    { unfold request_term. destruct (key_of x); [apply request_closed|]; exact Hc. }
    assert (Hnd' : NoDup (request_term tbl x)).
    { unfold request_term. destruct (key_of x); [apply request_nodup|]; exact Hnd. }
    assert (Hok' : forall k, In k (request_term tbl x) -> kok n k).
    { unfold request_term. destruct (key_of x) as [kx|] eqn:Kx; [|exact Hok].
      intros k Hk. apply request_in in Hk. destruct Hk as [Hk|[->|Hk]].
      - apply Hok, Hk.
      - eapply Hxs; [left; reflexivity|exact Kx].
      - eapply sub_key_kok; [|exact Hk]. eapply Hxs; [left; reflexivity|exact Kx]. }
    assert (Hinc : forall k, In k tbl -> In k (request_term tbl x)).
    { unfold request_term. destruct (key_of x); [|auto]. intros k. apply request_incl. }
    destruct (IH (request_term tbl x) Hc' Hnd' Hok') as (R1 & R2 & R3 & R4 & R5).
    { intros y k Hy. apply Hxs. right. exact Hy. }
    repeat split; auto.
    intros y k [<-|Hy] Ky; [|eapply R5; eauto].
    apply R4. unfold request_term. rewrite Ky. apply request_self.
Qed.

(* ---------- shape of the plain grammar ---------- *)

Section Shape.
Variable n : nat.
Variable tb : list hkey.

Lemma in_user_prods rs : forall i pr, In pr (user_prods n tb i rs) ->
  exists r rl p, nth_error rs r = Some rl /\ In p rl /\
    pr = {| lhs := i + r + 1; rhs := map (tsym n tb) p |}.
Proof.
  induction rs as [|a rs IH]; simpl; intros i pr; [tauto|].
  rewrite in_app_iff. intros [H|H].
  - unfold user_prods_of in H. apply in_map_iff in H. destruct H as [p [<- Hp]].
    exists 0, a, p. simpl. rewrite Nat.add_0_r. auto.
  - destruct (IH _ _ H) as (r & rl & p & Hn & Hp & ->).
    exists (S r), rl, p. simpl. repeat split; auto. f_equal. lia.
Qed.

Lemma user_prods_in rs : forall i r rl p, nth_error rs r = Some rl -> In p rl ->
  In {| lhs := i + r + 1; rhs := map (tsym n tb) p |} (user_prods n tb i rs).
Proof.
  induction rs as [|a rs IH]; intros i [|r] rl p; simpl; try discriminate.
  - intros [= ->] Hp. apply in_or_app. left. unfold user_prods_of.
    rewrite Nat.add_0_r. apply in_map_iff. exists p. auto.
  - intros Hn Hp. apply in_or_app. right.
    replace (i + S r + 1) with (S i + r + 1) by lia. eapply IH; eauto.
Qed.

Lemma user_prods_length rs : forall i, length (user_prods n tb i rs) = length (concat rs).
Proof.
  induction rs as [|a rs IH]; intros i; simpl; [reflexivity|].
  rewrite !app_length, IH. unfold user_prods_of. rewrite map_length. reflexivity.
Qed.

Lemma in_helper_prods l : forall j0 pr, In pr (helper_prods n tb j0 l) ->
  exists j k, nth_error l j = Some k /\
    (pr = {| lhs := n + 1 + (j0 + j); rhs := helper_rhs1 n tb (n + 1 + (j0 + j)) k |} \/
     pr = {| lhs := n + 1 + (j0 + j); rhs := helper_rhs2 k |}).
Proof.
  induction l as [|a l IH]; simpl; intros j0 pr; [tauto|].
  intros [<-|[<-|H]].
  - exists 0, a. rewrite Nat.add_0_r. auto.
  - exists 0, a. rewrite Nat.add_0_r. auto.
  - destruct (IH _ _ H) as (j & k & Hn & Hp). exists (S j), k.
    replace (j0 + S j) with (S j0 + j) by lia. auto.
Qed.

Lemma nth_helper_prods l : forall j0 j k, nth_error l j = Some k ->
  nth_error (helper_prods n tb j0 l) (2 * j) =
    Some {| lhs := n + 1 + (j0 + j); rhs := helper_rhs1 n tb (n + 1 + (j0 + j)) k |} /\
  nth_error (helper_prods n tb j0 l) (S (2 * j)) =
    Some {| lhs := n + 1 + (j0 + j); rhs := helper_rhs2 k |}.
Proof.
  induction l as [|a l IH]; intros j0 [|j] k; cbn [nth_error]; try discriminate.
  - intros [= ->]. change (2 * 0) with 0. cbn [helper_prods nth_error].
    rewrite Nat.add_0_r. auto.
  - intros Hj. replace (2 * S j) with (S (S (2 * j))) by lia.
    cbn [helper_prods nth_error]. replace (j0 + S j) with (S j0 + j) by lia.
    apply IH. exact Hj.
Qed.

Lemma helper_prods_at l : forall j0 p pr, nth_error (helper_prods n tb j0 l) p = Some pr ->
  exists j, (p = 2 * j \/ p = S (2 * j)) /\ lhs pr = n + 1 + (j0 + j).
Proof.
  induction l as [|a l IH]; intros j0 p pr; cbn [helper_prods].
  - destruct p; discriminate.
  - destruct p as [|[|p]]; cbn [nth_error].
    + intros [= <-]. exists 0. simpl. rewrite Nat.add_0_r. auto.
    + intros [= <-]. exists 0. simpl. rewrite Nat.add_0_r. auto.
    + intros H. destruct (IH _ _ _ H) as (j & Hp & Hl). exists (S j).
      split; [lia|]. rewrite Hl. lia.
Qed.

End Shape.

(* ---------- trees ---------- *)

Lemma node_in G0 h r ch u :
  In {| lhs := h; rhs := r |} G0 -> wf G0 r ch u -> exists t, wt G0 (NT h) t u.
Proof.
  intros Hin Hwf. apply In_nth_error in Hin. destruct Hin as [p Hp].
  exists (Node p ch). exact (wt_node G0 p {| lhs := h; rhs := r |} ch u Hp Hwf).
Qed.

Lemma wf_1 G0 X t u : wt G0 X t u -> wf G0 [X] [t] u.
Proof. intros H. rewrite <- (app_nil_r u). constructor; [exact H|constructor]. Qed.

Lemma wf_2 G0 X1 X2 t1 t2 u1 u2 :
  wt G0 X1 t1 u1 -> wt G0 X2 t2 u2 -> wf G0 [X1; X2] [t1; t2] (u1 ++ u2).
Proof. intros H1 H2. constructor; [exact H1|apply wf_1, H2]. Qed.

Lemma wf_3 G0 X1 X2 X3 t1 t2 t3 u1 u2 u3 :
  wt G0 X1 t1 u1 -> wt G0 X2 t2 u2 -> wt G0 X3 t3 u3 ->
  wf G0 [X1; X2; X3] [t1; t2; t3] (u1 ++ u2 ++ u3).
Proof. intros H1 H2 H3. constructor; [exact H1|apply wf_2; assumption]. Qed.

(* ---------- the main development ---------- *)

Definition tos (X : sym) : sterm := match X with T t => STok t | NT r => SRule r end.

(* the number of user productions *)
Definition nuser (g : sgrammar) : nat := length (concat (sg_rules g)).

(* the two right-hand sides of helper nonterminal h with key k, as parser_term.go
   builds them (and as Parse/Sugar.v expects them):
     x?           h -> x              | (empty)
     x* , x*!     h -> (x+ / x+! helper) | (empty)
     x+ , x+!     h -> h x            | x
     @list(x,s)   h -> h s x          | x
     @list(x,s)?  h -> (@list(x,s) helper) | (empty) *)
Definition shape (n : nat) (tbl : list hkey) (h : nat) (k : hkey) (r1 r2 : list sym) : Prop :=
  match k with
  | (HOpt, c, _) => r1 = [c] /\ r2 = []
  | (HStar, c, _) =>
    exists j', nth_error tbl j' = Some (HPlus, c, None) /\ r1 = [NT (n + 1 + j')] /\ r2 = []
  | (HStarF, c, _) =>
    exists j', nth_error tbl j' = Some (HPlusF, c, None) /\ r1 = [NT (n + 1 + j')] /\ r2 = []
  | (HPlus, c, _) => r1 = [NT h; c] /\ r2 = [c]
  | (HPlusF, c, _) => r1 = [NT h; c] /\ r2 = [c]
  | (HList, c, s) => exists s', s = Some s' /\ r1 = [NT h; s'; c] /\ r2 = [c]
  | (HListOpt, c, s) =>
    exists j', nth_error tbl j' = Some (HList, c, s) /\ r1 = [NT (n + 1 + j')] /\ r2 = []
  end.

Lemma nth_error_kinds (tb : list hkey) : forall a j k, nth_error tb j = Some k ->
  nth_error (combine (seq a (length tb)) (map key_kind tb)) j = Some (a + j, key_kind k).
Proof.
  induction tb as [|x tb IH]; intros a [|j] k; simpl; try discriminate.
  - intros [= ->]. rewrite Nat.add_0_r. reflexivity.
  - intros Hj. rewrite (IH (S a) j k Hj). f_equal. f_equal. lia.
Qed.

Section Main.
Variable g : sgrammar.
Hypothesis Hwf : wf_sgrammar g.

Notation n := (length (sg_rules g)).
Notation tbl := (collect g).
Notation G := (build g (collect g)).

Lemma start_range : 1 <= sg_start g <= n.
Proof.
  unfold wf_sgrammar, wf_sgrammarb in Hwf.
  rewrite !andb_true_iff, !Nat.leb_le in Hwf. tauto.
Qed.

Lemma terms_wf rl p x : In rl (sg_rules g) -> In p rl -> In x p -> wf_termb n x = true.
Proof.
  intros Hrl Hp Hx. unfold wf_sgrammar, wf_sgrammarb in Hwf.
  rewrite !andb_true_iff in Hwf. destruct Hwf as [_ H].
  rewrite forallb_forall in H. specialize (H _ Hrl).
  rewrite forallb_forall in H. specialize (H _ Hp).
  rewrite forallb_forall in H. exact (H _ Hx).
Qed.

Lemma in_all_terms x : In x (all_terms g) <-> exists rl p, In rl (sg_rules g) /\ In p rl /\ In x p.
Proof.
  unfold all_terms. rewrite in_concat. split.
  - intros [p [Hp Hx]]. apply in_concat in Hp. destruct Hp as [rl [Hrl Hp]]. eauto.
  - intros (rl & p & Hrl & Hp & Hx). exists p. split; [|exact Hx].
    apply in_concat. eauto.
Qed.

Lemma collect_props :
  closed tbl /\ NoDup tbl /\ (forall k, In k tbl -> kok n k) /\
  (forall x k, In x (all_terms g) -> key_of x = Some k -> In k tbl).
Proof.
  destruct (fold_request_props n (all_terms g) []) as (R1 & R2 & R3 & _ & R5).
  - intros k k' [].
  - constructor.
  - intros k [].
  - intros x k Hx Kx. apply in_all_terms in Hx. destruct Hx as (rl & p & Hrl & Hp & Hx).
    eapply wf_term_kok; [|exact Kx]. eapply terms_wf; eauto.
  - unfold collect. auto.
Qed.

Lemma tbl_closed : closed tbl. Proof. apply collect_props. Qed.
Lemma tbl_nodup : NoDup tbl. Proof. apply collect_props. Qed.
Lemma tbl_kok k : In k tbl -> kok n k. Proof. apply collect_props. Qed.
Lemma tbl_covers rl p x k :
  In rl (sg_rules g) -> In p rl -> In x p -> key_of x = Some k -> In k tbl.
Proof.
  intros Hrl Hp Hx. apply collect_props. apply in_all_terms. eauto.
Qed.

Lemma in_G pr : In pr G <->
  pr = {| lhs := 0; rhs := [NT (sg_start g)] |} \/
  In pr (user_prods n tbl 0 (sg_rules g)) \/ In pr (helper_prods n tbl 0 tbl).
Proof.
  unfold build. cbn [In]. rewrite in_app_iff. intuition congruence.
Qed.

Lemma start_sym_G : start_sym G = Some (NT (sg_start g)).
Proof. reflexivity. Qed.

(* simple terms and their symbols *)
Lemma tos_simple c u : simpleb n c = true -> (sderives g (tos (sym_of c)) u <-> sderives g c u).
Proof.
  destruct c; simpl; try discriminate; intros _; try tauto.
  split; inversion 1; constructor.
Qed.

Lemma srep_tos c m u : simpleb n c = true -> srep g (tos (sym_of c)) m u <-> srep g c m u.
Proof.
  intros Hc. split; intros H.
  - remember (tos (sym_of c)) as c' eqn:E. induction H as [c0|c0 m u v H IH Hd]; subst.
    + constructor.
    + constructor; [apply IH; reflexivity|apply tos_simple; assumption].
  - induction H as [c0|c0 m u v H IH Hd].
    + constructor.
    + constructor; [apply IH; assumption|apply tos_simple; assumption].
Qed.

Lemma sreplist_tos e s m u : simpleb n e = true -> simpleb n s = true ->
  sreplist g (tos (sym_of e)) (tos (sym_of s)) m u <-> sreplist g e s m u.
Proof.
  intros He Hs. split; intros H.
  - remember (tos (sym_of e)) as e' eqn:E. remember (tos (sym_of s)) as s' eqn:E'.
    induction H as [e0 s0 u H|e0 s0 m u v w H IH Hv Hw]; subst.
    + constructor. apply tos_simple; assumption.
    + constructor; [apply IH; reflexivity|apply tos_simple; assumption|apply tos_simple; assumption].
  - induction H as [e0 s0 u H|e0 s0 m u v w H IH Hv Hw].
    + constructor. apply tos_simple; assumption.
    + constructor; [apply IH; assumption|apply tos_simple; assumption|apply tos_simple; assumption].
Qed.

(* ---------- N1: soundness ---------- *)

(* what a helper nonterminal is meant to match *)
Definition helper_sem (k : hkey) (u : list token) : Prop :=
  match k with
  | (HOpt, c, _) => u = [] \/ sderives g (tos c) u
  | (HStar, c, _) => exists m, srep g (tos c) m u
  | (HStarF, c, _) => exists m, srep g (tos c) m u
  | (HPlus, c, _) => exists m, srep g (tos c) (S m) u
  | (HPlusF, c, _) => exists m, srep g (tos c) (S m) u
  | (HList, c, Some s) => exists m, sreplist g (tos c) (tos s) m u
  | (HListOpt, c, Some s) => u = [] \/ exists m, sreplist g (tos c) (tos s) m u
  | (HList, _, None) => False
  | (HListOpt, _, None) => False
  end.

(* what a symbol of the plain grammar is meant to match *)
Inductive symsem : sym -> list token -> Prop :=
| ss_tok t i : symsem (T t) [(t, i)]
| ss_start u : ssentence g u -> symsem (NT 0) u
| ss_user r u : 1 <= r <= n -> sderives g (SRule r) u -> symsem (NT r) u
| ss_helper j k u : nth_error tbl j = Some k -> helper_sem k u -> symsem (NT (n + 1 + j)) u.

Inductive seqsem : list sym -> list token -> Prop :=
| sq_nil : seqsem [] []
| sq_cons X Xs u v : symsem X u -> seqsem Xs v -> seqsem (X :: Xs) (u ++ v).

Lemma seqsem0 u : seqsem [] u -> u = [].
Proof. inversion 1. reflexivity. Qed.

Lemma seqsem1 X u : seqsem [X] u -> symsem X u.
Proof.
  inversion 1 as [|X' Xs u1 u2 H1 H2]; subst. apply seqsem0 in H2. subst.
  rewrite app_nil_r. exact H1.
Qed.

Lemma seqsem2 X Y u : seqsem [X; Y] u -> exists u1 u2, u = u1 ++ u2 /\ symsem X u1 /\ symsem Y u2.
Proof.
  inversion 1 as [|X' Xs u1 u2 H1 H2]; subst. apply seqsem1 in H2. eauto.
Qed.

Lemma seqsem3 X Y Z u : seqsem [X; Y; Z] u ->
  exists u1 u2 u3, u = u1 ++ u2 ++ u3 /\ symsem X u1 /\ symsem Y u2 /\ symsem Z u3.
Proof.
  inversion 1 as [|X' Xs u1 u2 H1 H2]; subst. apply seqsem2 in H2.
  destruct H2 as (v1 & v2 & -> & H2 & H3). exists u1, v1, v2. auto.
Qed.

Lemma symsem_user_inv r u : 1 <= r <= n -> symsem (NT r) u -> sderives g (SRule r) u.
Proof.
  intros Hr H. remember (NT r) as X eqn:E.
  destruct H as [t i|u Hs|r' u Hr' Hd|j k u Hn Hh]; try discriminate; injection E as E.
  - lia.
  - subst. exact Hd.
  - lia.
Qed.

Lemma symsem_helper_inv j k u : nth_error tbl j = Some k -> symsem (NT (n + 1 + j)) u -> helper_sem k u.
Proof.
  intros Hk H. remember (NT (n + 1 + j)) as X eqn:E.
  destruct H as [t i|u Hs|r' u Hr' Hd|j' k' u Hn Hh]; try discriminate; injection E as E.
  - lia.
  - lia.
  - assert (j' = j) by lia. subst. rewrite Hk in Hn. injection Hn as <-. exact Hh.
Qed.

Lemma symsem_usersym c u : user_sym n c -> symsem c u -> sderives g (tos c) u.
Proof.
  destruct c as [t|r]; simpl; intros Hc H.
  - inversion H. constructor.
  - apply symsem_user_inv; assumption.
Qed.

Lemma helper_nt_at k j : find_idx k tbl = Some j -> helper_nt n tbl k = NT (n + 1 + j).
Proof. intros H. unfold helper_nt. rewrite H. reflexivity. Qed.

(* a helper asked for by a well-formed term: what it matches is what the term means *)
Lemma key_sem_sound x k u :
  wf_termb n x = true -> key_of x = Some k -> helper_sem k u -> sderives g x u.
Proof.
  destruct x as [t|r| |kc c|e s o]; simpl; try discriminate.
  - intros Hc [= <-]. destruct kc; simpl.
    + intros [->|H]; [apply sd_opt_none|]. apply sd_opt_some. apply tos_simple; assumption.
    + intros [m H]. apply sd_star with m. apply srep_tos; assumption.
    + intros [m H]. apply sd_starf with m. apply srep_tos; assumption.
    + intros [m H]. apply sd_plus with m. apply srep_tos; assumption.
  - rewrite andb_true_iff. intros [He Hs].
    apply list_argb_simpleb in He. apply list_argb_simpleb in Hs.
    destruct o; intros [= <-]; simpl.
    + intros [->|[m H]]; [apply sd_list_none|]. apply sd_list with m. apply sreplist_tos; assumption.
    + intros [m H]. apply sd_list with m. apply sreplist_tos; assumption.
Qed.

Lemma term_sound rl p x u :
  In rl (sg_rules g) -> In p rl -> In x p -> symsem (tsym n tbl x) u -> sderives g x u.
Proof.
  intros Hrl Hp Hx. pose proof (terms_wf _ _ _ Hrl Hp Hx) as Hw.
  unfold tsym. destruct (key_of x) as [k|] eqn:Kx.
  - destruct (key_at k tbl (tbl_covers _ _ _ _ Hrl Hp Hx Kx)) as (j & Hf & Hn).
    rewrite (helper_nt_at _ _ Hf). intros H.
    eapply key_sem_sound; [exact Hw|exact Kx|]. eapply symsem_helper_inv; eauto.
  - destruct x as [t|r| |kc c|e s o]; simpl in *; try discriminate.
    + inversion 1. constructor.
    + apply symsem_user_inv. apply simpleb_rule. exact Hw.
    + inversion 1. constructor.
    + destruct o; discriminate.
Qed.

Lemma prod_sound rl p : In rl (sg_rules g) -> In p rl ->
  forall q u, incl q p -> seqsem (map (tsym n tbl) q) u -> sprod g q u.
Proof.
  intros Hrl Hp. induction q as [|x q IH]; simpl; intros u Hq H.
  - apply seqsem0 in H. subst. constructor.
  - inversion H as [|X Xs u1 u2 H1 H2]; subst. constructor.
    + eapply term_sound; eauto. apply Hq. left. reflexivity.
    + apply IH; [|exact H2]. intros y Hy. apply Hq. right. exact Hy.
Qed.

Lemma helper_prod_sound j k u : nth_error tbl j = Some k ->
  (seqsem (helper_rhs1 n tbl (n + 1 + j) k) u -> helper_sem k u) /\
  (seqsem (helper_rhs2 k) u -> helper_sem k u).
Proof.
  intros Hk. pose proof (nth_error_In _ _ Hk) as Hin.
  pose proof (tbl_kok _ Hin) as Hok.
  assert (Hsub : forall k', sub_key k = Some k' ->
            forall v, symsem (helper_nt n tbl k') v -> helper_sem k' v).
  { intros k' Sk v Hv. destruct (key_at k' tbl (tbl_closed _ _ Hin Sk)) as (j' & Hf & Hn).
    rewrite (helper_nt_at _ _ Hf) in Hv. eapply symsem_helper_inv; eauto. }
  assert (Hself : forall v, symsem (NT (n + 1 + j)) v -> helper_sem k v).
  { intros v. apply symsem_helper_inv. exact Hk. }
  destruct k as [[hk c] s]. destruct Hok as [Hc Hs].
  destruct hk; simpl in *.
  - (* x? *) split; intros H.
    + apply seqsem1 in H. right. apply symsem_usersym; assumption.
    + apply seqsem0 in H. auto.
  - (* x* *) split; intros H.
    + apply seqsem1 in H. apply (Hsub _ eq_refl) in H. simpl in H.
      destruct H as [m H]. exists (S m). exact H.
    + apply seqsem0 in H. subst. exists 0. constructor.
  - (* x*! *) split; intros H.
    + apply seqsem1 in H. apply (Hsub _ eq_refl) in H. simpl in H.
      destruct H as [m H]. exists (S m). exact H.
    + apply seqsem0 in H. subst. exists 0. constructor.
  - (* x+ *) split; intros H.
    + apply seqsem2 in H. destruct H as (u1 & u2 & -> & H1 & H2).
      apply Hself in H1. destruct H1 as [m H1]. exists (S m).
      constructor; [exact H1|apply symsem_usersym; assumption].
    + apply seqsem1 in H. exists 0. rewrite <- (app_nil_l u).
      constructor; [constructor|apply symsem_usersym; assumption].
  - (* x+! *) split; intros H.
    + apply seqsem2 in H. destruct H as (u1 & u2 & -> & H1 & H2).
      apply Hself in H1. destruct H1 as [m H1]. exists (S m).
      constructor; [exact H1|apply symsem_usersym; assumption].
    + apply seqsem1 in H. exists 0. rewrite <- (app_nil_l u).
      constructor; [constructor|apply symsem_usersym; assumption].
  - (* @list *) destruct Hs as [s' [-> Hs]]. split; intros H.
    + apply seqsem3 in H. destruct H as (u1 & u2 & u3 & -> & H1 & H2 & H3).
      apply Hself in H1. destruct H1 as [m H1]. exists (S m).
      constructor; [exact H1|apply symsem_usersym; assumption|apply symsem_usersym; assumption].
    + apply seqsem1 in H. exists 0. constructor. apply symsem_usersym; assumption.
  - (* @list? *) destruct Hs as [s' [-> Hs]]. split; intros H.
    + apply seqsem1 in H. apply (Hsub _ eq_refl) in H. simpl in H. auto.
    + apply seqsem0 in H. auto.
Qed.

Lemma sound_main :
  (forall X t u, wt G X t u -> symsem X u) /\
  (forall Xs ts us, wf G Xs ts us -> seqsem Xs us).
Proof.
  apply (wt_wf_ind G (fun X t u _ => symsem X u) (fun Xs ts us _ => seqsem Xs us)).
  - intros t i. constructor.
  - intros p pr ch u Hn _ IH. apply nth_error_In in Hn. apply in_G in Hn.
    destruct Hn as [->|[Hn|Hn]].
    + cbn [lhs rhs] in *. apply seqsem1 in IH. constructor.
      apply symsem_user_inv; [apply start_range|exact IH].
    + apply in_user_prods in Hn. destruct Hn as (r & rl & q & Hr & Hq & ->).
      cbn [lhs rhs] in *. assert (r < n) by (apply nth_error_Some; congruence).
      replace (0 + r + 1) with (S r) by lia. constructor; [lia|].
      apply sd_rule with rl q; [exact Hr|exact Hq|].
      eapply prod_sound; [eapply nth_error_In; exact Hr|exact Hq|apply incl_refl|exact IH].
    + apply in_helper_prods in Hn. destruct Hn as (j & k & Hj & Hpr).
      cbn [Nat.add] in Hpr. destruct (helper_prod_sound j k u Hj) as [S1 S2].
      destruct Hpr as [->| ->]; cbn [lhs rhs] in *; apply ss_helper with k; auto.
  - constructor.
  - intros X t u Xs ts us _ H1 _ H2. constructor; assumption.
Qed.

Theorem normalize_sound_g w : sentence G w -> ssentence g w.
Proof.
  intros (X & t & HX & Ht). rewrite start_sym_G in HX. injection HX as <-.
  apply (proj1 sound_main) in Ht. apply symsem_user_inv; [apply start_range|exact Ht].
Qed.

(* ---------- N2: completeness ---------- *)

Definition cov (x : sterm) : Prop := forall k, key_of x = Some k -> In k tbl.

Lemma simple_facts c : simpleb n c = true ->
  wf_termb n c = true /\ cov c /\ tsym n tbl c = sym_of c.
Proof.
  destruct c as [t|r| |kc c|e s o]; try discriminate; intros H;
    (split; [exact H|split; [intros k; discriminate|reflexivity]]).
Qed.

Lemma helper_node1 j k ch u : nth_error tbl j = Some k ->
  wf G (helper_rhs1 n tbl (n + 1 + j) k) ch u -> exists t, wt G (NT (n + 1 + j)) t u.
Proof.
  intros Hk. apply node_in. apply in_G. right. right.
  apply nth_error_In with (2 * j). apply (nth_helper_prods n tbl tbl 0 j k Hk).
Qed.

Lemma helper_node2 j k ch u : nth_error tbl j = Some k ->
  wf G (helper_rhs2 k) ch u -> exists t, wt G (NT (n + 1 + j)) t u.
Proof.
  intros Hk. apply node_in. apply in_G. right. right.
  apply nth_error_In with (S (2 * j)). apply (nth_helper_prods n tbl tbl 0 j k Hk).
Qed.

Lemma sugar_tsym x k : key_of x = Some k -> tsym n tbl x = helper_nt n tbl k.
Proof. intros H. unfold tsym. rewrite H. reflexivity. Qed.

Definition P1 (x : sterm) (u : list token) : Prop :=
  wf_termb n x = true -> cov x -> exists t, wt G (tsym n tbl x) t u.
Definition P2 (p : list sterm) (u : list token) : Prop :=
  (forall x, In x p -> wf_termb n x = true /\ cov x) ->
  exists ts, wf G (map (tsym n tbl) p) ts u.
Definition P3 (c : sterm) (m : nat) (u : list token) : Prop :=
  simpleb n c = true ->
  (m = 0 -> u = []) /\
  (forall hk j, hk = HPlus \/ hk = HPlusF -> nth_error tbl j = Some (hk, sym_of c, None) ->
     1 <= m -> exists t, wt G (NT (n + 1 + j)) t u).
Definition P4 (e s : sterm) (m : nat) (u : list token) : Prop :=
  simpleb n e = true -> simpleb n s = true ->
  forall j, nth_error tbl j = Some (HList, sym_of e, Some (sym_of s)) ->
  exists t, wt G (NT (n + 1 + j)) t u.

(* the x* / x*! helper over its x+ / x+! helper *)
Lemma star_complete hk hk' c m u :
  (hk = HStar /\ hk' = HPlus) \/ (hk = HStarF /\ hk' = HPlusF) ->
  simpleb n c = true -> P3 c m u -> In (hk, sym_of c, None) tbl ->
  exists t, wt G (helper_nt n tbl (hk, sym_of c, None)) t u.
Proof.
  intros Hk Hc IH Hin. destruct (IH Hc) as [H0 HS].
  destruct (key_at _ _ Hin) as (j & Hf & Hn). rewrite (helper_nt_at _ _ Hf).
  destruct m as [|m].
  - rewrite (H0 eq_refl). apply (helper_node2 j _ [] [] Hn).
    destruct Hk as [[-> _]|[-> _]]; constructor.
  - assert (Hin' : In (hk', sym_of c, None) tbl).
    { apply (tbl_closed _ _ Hin). destruct Hk as [[-> ->]|[-> ->]]; reflexivity. }
    destruct (key_at _ _ Hin') as (j' & Hf' & Hn').
    destruct (HS hk' j') as [t' Ht']; [destruct Hk as [[_ ->]|[_ ->]]; auto|exact Hn'|lia|].
    apply (helper_node1 j _ [t'] u Hn).
    destruct Hk as [[-> ->]|[-> ->]]; cbn [helper_rhs1];
      rewrite (helper_nt_at _ _ Hf'); apply wf_1; exact Ht'.
Qed.

Lemma complete_main :
  (forall x u, sderives g x u -> P1 x u) /\
  (forall p u, sprod g p u -> P2 p u) /\
  (forall c m u, srep g c m u -> P3 c m u) /\
  (forall e s m u, sreplist g e s m u -> P4 e s m u).
Proof.
  apply (sderives_mutind g P1 P2 P3 P4).
  - (* token *) intros t i _ _. exists (Leaf (t, i)). constructor.
  - (* @error *) intros i _ _. exists (Leaf (error_t, i)). constructor.
  - (* rule *) intros r rl p u Hr Hp _ IH _ _.
    pose proof (nth_error_In _ _ Hr) as Hrl.
    destruct IH as [ts Hts].
    { intros x Hx. split; [eapply terms_wf; eauto|].
      intros k Kx. eapply tbl_covers; eauto. }
    cbn [tsym key_of sym_of]. apply node_in with (map (tsym n tbl) p) ts; [|exact Hts].
    apply in_G. right. left.
    replace (S r) with (0 + r + 1) by lia. eapply user_prods_in; eauto.
  - (* c? none *) intros c _ Hcov.
    destruct (key_at _ _ (Hcov _ eq_refl)) as (j & Hf & Hn).
    rewrite (sugar_tsym (SCard KOpt c) _ eq_refl), (helper_nt_at _ _ Hf).
    apply (helper_node2 j _ [] [] Hn). constructor.
  - (* c? some *) intros c u _ IH Hw Hcov. cbn [wf_termb] in Hw.
    destruct (simple_facts c Hw) as (Hw' & Hcov' & Hts).
    destruct (IH Hw' Hcov') as [t Ht]. rewrite Hts in Ht.
    destruct (key_at _ _ (Hcov _ eq_refl)) as (j & Hf & Hn).
    rewrite (sugar_tsym (SCard KOpt c) _ eq_refl), (helper_nt_at _ _ Hf).
    apply (helper_node1 j _ [t] u Hn). cbn [helper_rhs1 card_kind]. apply wf_1. exact Ht.
  - (* c* *) intros c m u _ IH Hw Hcov. cbn [wf_termb] in Hw.
    rewrite (sugar_tsym (SCard KStar c) _ eq_refl). cbn [card_kind].
    eapply star_complete; [left; split; reflexivity|exact Hw|exact IH|apply Hcov; reflexivity].
  - (* c*! *) intros c m u _ IH Hw Hcov. cbn [wf_termb] in Hw.
    rewrite (sugar_tsym (SCard KStarF c) _ eq_refl). cbn [card_kind].
    eapply star_complete; [right; split; reflexivity|exact Hw|exact IH|apply Hcov; reflexivity].
  - (* c+ *) intros c m u _ IH Hw Hcov. cbn [wf_termb] in Hw.
    destruct (IH Hw) as [_ HS].
    destruct (key_at _ _ (Hcov _ eq_refl)) as (j & Hf & Hn).
    rewrite (sugar_tsym (SCard KPlus c) _ eq_refl), (helper_nt_at _ _ Hf).
    apply (HS HPlus j); [auto|exact Hn|lia].
  - (* @list, @list? some *) intros e s o m u _ IH Hw Hcov. cbn [wf_termb] in Hw.
    apply andb_true_iff in Hw. destruct Hw as [He Hs].
    apply list_argb_simpleb in He. apply list_argb_simpleb in Hs.
    destruct o.
    + pose proof (Hcov _ eq_refl) as Hin.
      destruct (key_at _ _ Hin) as (j & Hf & Hn).
      rewrite (sugar_tsym (SList e s true) _ eq_refl), (helper_nt_at _ _ Hf).
      assert (Hin' : In (HList, sym_of e, Some (sym_of s)) tbl)
        by (apply (tbl_closed _ _ Hin); reflexivity).
      destruct (key_at _ _ Hin') as (j' & Hf' & Hn').
      destruct (IH He Hs j' Hn') as [t' Ht'].
      apply (helper_node1 j _ [t'] u Hn). cbn [helper_rhs1].
      rewrite (helper_nt_at _ _ Hf'). apply wf_1. exact Ht'.
    + destruct (key_at _ _ (Hcov _ eq_refl)) as (j & Hf & Hn).
      rewrite (sugar_tsym (SList e s false) _ eq_refl), (helper_nt_at _ _ Hf).
      apply (IH He Hs j Hn).
  - (* @list? none *) intros e s _ Hcov.
    destruct (key_at _ _ (Hcov _ eq_refl)) as (j & Hf & Hn).
    rewrite (sugar_tsym (SList e s true) _ eq_refl), (helper_nt_at _ _ Hf).
    apply (helper_node2 j _ [] [] Hn). constructor.
  - (* production: nil *) intros _. exists []. constructor.
  - (* production: cons *) intros x xs u v _ IHx _ IHxs Hall.
    destruct (Hall x (or_introl eq_refl)) as [Hw Hcov].
    destruct (IHx Hw Hcov) as [t Ht].
    destruct IHxs as [ts Hts]; [intros y Hy; apply Hall; right; exact Hy|].
    exists (t :: ts). cbn [map]. constructor; assumption.
  - (* repetition: zero *) intros c _. split; [reflexivity|]. intros hk j _ _ H. lia.
  - (* repetition: more *) intros c m u v _ IH _ IHc Hc.
    split; [discriminate|]. intros hk j Hhk Hn _.
    destruct (simple_facts c Hc) as (Hw' & Hcov' & Hts).
    destruct (IHc Hw' Hcov') as [tc Htc]. rewrite Hts in Htc.
    destruct (IH Hc) as [H0 HS]. destruct m as [|m].
    + rewrite (H0 eq_refl). cbn [app].
      apply (helper_node2 j _ [tc] v Hn).
      destruct Hhk as [-> | ->]; cbn [helper_rhs2]; apply wf_1; exact Htc.
    + destruct (HS hk j Hhk Hn) as [t1 Ht1]; [lia|].
      apply (helper_node1 j _ [t1; tc] (u ++ v) Hn).
      destruct Hhk as [-> | ->]; cbn [helper_rhs1]; apply wf_2; assumption.
  - (* list: one *) intros e s u _ IHe He Hs j Hn.
    destruct (simple_facts e He) as (Hw' & Hcov' & Hts).
    destruct (IHe Hw' Hcov') as [te Hte]. rewrite Hts in Hte.
    apply (helper_node2 j _ [te] u Hn). cbn [helper_rhs2]. apply wf_1. exact Hte.
  - (* list: more *) intros e s m u v w _ IH _ IHs _ IHe He Hs j Hn.
    destruct (simple_facts e He) as (Hwe & Hcove & Htse).
    destruct (simple_facts s Hs) as (Hws & Hcovs & Htss).
    destruct (IHe Hwe Hcove) as [te Hte]. rewrite Htse in Hte.
    destruct (IHs Hws Hcovs) as [ts Hts]. rewrite Htss in Hts.
    destruct (IH He Hs j Hn) as [t1 Ht1].
    apply (helper_node1 j _ [t1; ts; te] (u ++ v ++ w) Hn). cbn [helper_rhs1].
    apply wf_3; assumption.
Qed.

Theorem normalize_complete_g w : ssentence g w -> sentence G w.
Proof.
  intros H. apply (proj1 complete_main) in H.
  destruct H as [t Ht].
  - unfold wf_termb, simpleb. pose proof start_range as R.
    apply andb_true_iff. rewrite !Nat.leb_le. exact R.
  - intros k. discriminate.
  - exists (NT (sg_start g)), t. split; [apply start_sym_G|exact Ht].
Qed.

(* ---------- N3: the helper productions ---------- *)

Lemma nth_G_helper q :
  nth_error G (S (nuser g + q)) = nth_error (helper_prods n tbl 0 tbl) q.
Proof.
  unfold build, nuser. cbn [nth_error].
  rewrite nth_error_app2; rewrite user_prods_length; [f_equal; lia|lia].
Qed.

Lemma helper_lhs_unique j p pr :
  nth_error G p = Some pr -> lhs pr = n + 1 + j ->
  p = S (nuser g + 2 * j) \/ p = S (S (nuser g + 2 * j)).
Proof.
  intros Hp Hl. destruct p as [|q].
  - unfold build in Hp. cbn [nth_error] in Hp. injection Hp as <-. cbn [lhs] in Hl. lia.
  - destruct (lt_dec q (nuser g)) as [Hq|Hq].
    + exfalso. unfold build in Hp. cbn [nth_error] in Hp.
      rewrite nth_error_app1 in Hp by (rewrite user_prods_length; exact Hq).
      apply nth_error_In, in_user_prods in Hp. destruct Hp as (r & rl & q' & Hr & _ & ->).
      cbn [lhs] in Hl. assert (r < n) by (apply nth_error_Some; congruence). lia.
    + replace q with (nuser g + (q - nuser g)) in Hp by lia. rewrite nth_G_helper in Hp.
      apply helper_prods_at in Hp. destruct Hp as (j' & Hj' & Hl'). lia.
Qed.

Lemma helper_shape j k : nth_error tbl j = Some k ->
  shape n tbl (n + 1 + j) k (helper_rhs1 n tbl (n + 1 + j) k) (helper_rhs2 k).
Proof.
  intros Hk. pose proof (nth_error_In _ _ Hk) as Hin. pose proof (tbl_kok _ Hin) as Hok.
  assert (Hsub : forall k', sub_key k = Some k' ->
            exists j', nth_error tbl j' = Some k' /\ helper_nt n tbl k' = NT (n + 1 + j')).
  { intros k' Sk. destruct (key_at k' tbl (tbl_closed _ _ Hin Sk)) as (j' & Hf & Hn).
    exists j'. split; [exact Hn|apply helper_nt_at, Hf]. }
  destruct k as [[hk c] s]. destruct Hok as [Hc Hs].
  destruct hk; cbn [shape helper_rhs1 helper_rhs2]; auto.
  - destruct (Hsub _ eq_refl) as (j' & Hn & ->). eauto.
  - destruct (Hsub _ eq_refl) as (j' & Hn & ->). eauto.
  - destruct Hs as [s' [-> _]]. eauto.
  - destruct (Hsub _ eq_refl) as (j' & Hn & ->). eauto.
Qed.

End Main.

(* ---------- N1, N2 ---------- *)

Theorem normalize_sound : forall g w,
  wf_sgrammar g -> sentence (fst (normalize g)) w -> ssentence g w.
Proof. intros g w Hwf. apply normalize_sound_g. exact Hwf. Qed.

Theorem normalize_complete : forall g w,
  wf_sgrammar g -> ssentence g w -> sentence (fst (normalize g)) w.
Proof. intros g w Hwf. apply normalize_complete_g. exact Hwf. Qed.

(* ---------- N3 ---------- *)

(* Helper number j (in creation order) is nonterminal h = n+1+j, is reported with
   its kind, and has exactly two productions: numbers p1 = 1 + nuser + 2j and
   p1+1, of the shape of its kind. *)
Theorem helper_shapes : forall g j k,
  wf_sgrammar g -> nth_error (collect g) j = Some k ->
  let n := length (sg_rules g) in
  let h := n + 1 + j in
  let p1 := 1 + nuser g + 2 * j in
  let G := fst (normalize g) in
  nth_error (snd (normalize g)) j = Some (h, key_kind k) /\
  exists r1 r2,
    nth_error G p1 = Some {| lhs := h; rhs := r1 |} /\
    nth_error G (S p1) = Some {| lhs := h; rhs := r2 |} /\
    (forall p pr, nth_error G p = Some pr -> lhs pr = h -> p = p1 \/ p = S p1) /\
    shape n (collect g) h k r1 r2.
Proof.
  intros g j k Hwf Hk n h p1 G. split.
  - unfold normalize. cbn [snd]. apply nth_error_kinds. exact Hk.
  - exists (helper_rhs1 n (collect g) h k), (helper_rhs2 k).
    destruct (nth_helper_prods n (collect g) (collect g) 0 j k Hk) as [H1 H2].
    cbn [Nat.add] in H1, H2. subst G p1. unfold normalize. cbn [fst].
    repeat split.
    + change (1 + nuser g + 2 * j) with (S (nuser g + 2 * j)).
      rewrite nth_G_helper. exact H1.
    + replace (S (1 + nuser g + 2 * j)) with (S (nuser g + S (2 * j))) by lia.
      rewrite nth_G_helper. exact H2.
    + intros p pr Hp Hl. change (1 + nuser g + 2 * j) with (S (nuser g + 2 * j)).
      eapply helper_lhs_unique; eauto.
    + apply helper_shape; assumption.
Qed.

(* every production of the plain grammar is S' -> start, a user production or a
   helper production: nothing else is generated *)
Lemma helper_prods_length n tb l : forall j0, length (helper_prods n tb j0 l) = 2 * length l.
Proof.
  induction l as [|a l IH]; intros j0; cbn [helper_prods length]; [reflexivity|].
  rewrite IH. lia.
Qed.

Theorem normalize_length : forall g,
  length (fst (normalize g)) = 1 + nuser g + 2 * length (collect g).
Proof.
  intros g. unfold normalize, build, nuser. cbn [fst length].
  rewrite app_length, user_prods_length, helper_prods_length. lia.
Qed.

(* ---------- N3, continued: the trees of the helpers are Sugar.v's spines ---------- *)

(* the kind the runtime's _act uses for the productions of a helper
   (codegen.RuleGenerated on the helper's name; "@list(x,s)?" ends in '?') *)
Definition hk_rkind (k : helper_kind) : rkind :=
  match k with
  | HOpt | HListOpt => KZeroOrOne
  | HStar | HStarF => KZeroOrMore
  | HPlus => KOneOrMore
  | HPlusF => KOneOrMoreF
  | HList => KList
  end.

(* every tree of an x+ / x+! helper is a spine over its two productions whose
   elements are trees of x: Sugar.plus_value / plus_f_value apply to it *)
Theorem plus_helper_spine : forall g j hk c s,
  wf_sgrammar g -> nth_error (collect g) j = Some (hk, c, s) -> hk = HPlus \/ hk = HPlusF ->
  let G := fst (normalize g) in
  let h := length (sg_rules g) + 1 + j in
  let p1 := 1 + nuser g + 2 * j in
  forall t u, wt G (NT h) t u ->
  exists elems, spine p1 (S p1) elems t /\ Forall (fun e => exists v, wt G c e v) elems.
Proof.
  intros g j hk c s Hwf Hk Hhk G h p1.
  destruct (helper_shapes g j _ Hwf Hk) as (_ & r1 & r2 & Hp1 & Hp2 & Huniq & Hsh).
  fold G h p1 in Hp1, Hp2, Huniq, Hsh.
  assert (Hr : r1 = [NT h; c] /\ r2 = [c]) by (destruct Hhk as [-> | ->]; exact Hsh).
  destruct Hr as [-> ->]. clear Hsh.
  assert (Hmain :
    (forall X t u, wt G X t u -> X = NT h ->
       exists elems, spine p1 (S p1) elems t /\ Forall (fun e => exists v, wt G c e v) elems) /\
    (forall Xs ts us, wf G Xs ts us -> forall Xs', Xs = NT h :: Xs' ->
       exists t' ts', ts = t' :: ts' /\
       exists elems, spine p1 (S p1) elems t' /\ Forall (fun e => exists v, wt G c e v) elems)).
  { apply (wt_wf_ind G
      (fun X t u _ => X = NT h ->
         exists elems, spine p1 (S p1) elems t /\ Forall (fun e => exists v, wt G c e v) elems)
      (fun Xs ts us _ => forall Xs', Xs = NT h :: Xs' ->
         exists t' ts', ts = t' :: ts' /\
         exists elems, spine p1 (S p1) elems t' /\ Forall (fun e => exists v, wt G c e v) elems)).
    - intros t i E. discriminate.
    - intros p pr ch u Hn Hwfch IH E. injection E as E.
      destruct (Huniq p pr Hn E) as [-> | ->].
      + rewrite Hp1 in Hn. injection Hn as <-. cbn [rhs] in *.
        destruct (IH _ eq_refl) as (t' & ts' & -> & elems & Hsp & Hall).
        inversion Hwfch as [|X0 t0 u0 Xs0 ts0 us0 _ Hrest]; subst.
        inversion Hrest as [|X1 t1 u1 Xs1 ts1 us1 He Hnil]; subst.
        inversion Hnil; subst.
        exists (elems ++ [t1]). split; [constructor; exact Hsp|].
        apply Forall_app. split; [exact Hall|]. constructor; [eauto|constructor].
      + rewrite Hp2 in Hn. injection Hn as <-. cbn [rhs] in *.
        inversion Hwfch as [|X0 t0 u0 Xs0 ts0 us0 He Hnil]; subst.
        inversion Hnil; subst.
        exists [t0]. split; [constructor|]. constructor; [eauto|constructor].
    - intros Xs' E. discriminate.
    - intros X t u Xs ts us _ IHt _ _ Xs' E. injection E as -> _.
      exists t, ts. split; [reflexivity|]. apply IHt. reflexivity. }
  intros t u Ht. exact (proj1 Hmain _ _ _ Ht eq_refl).
Qed.

(* every tree of an @list(x,s) helper is a separated spine: Sugar.list_value applies *)
Theorem list_helper_spine : forall g j c s,
  wf_sgrammar g -> nth_error (collect g) j = Some (HList, c, s) ->
  let G := fst (normalize g) in
  let h := length (sg_rules g) + 1 + j in
  let p1 := 1 + nuser g + 2 * j in
  forall t u, wt G (NT h) t u ->
  exists elems all, spine_sep p1 (S p1) elems all t /\
    Forall (fun e => exists v, wt G c e v) elems.
Proof.
  intros g j c s Hwf Hk G h p1.
  destruct (helper_shapes g j _ Hwf Hk) as (_ & r1 & r2 & Hp1 & Hp2 & Huniq & Hsh).
  fold G h p1 in Hp1, Hp2, Huniq, Hsh.
  destruct Hsh as (s' & -> & -> & ->).
  assert (Hmain :
    (forall X t u, wt G X t u -> X = NT h ->
       exists elems all, spine_sep p1 (S p1) elems all t /\
         Forall (fun e => exists v, wt G c e v) elems) /\
    (forall Xs ts us, wf G Xs ts us -> forall Xs', Xs = NT h :: Xs' ->
       exists t' ts', ts = t' :: ts' /\
       exists elems all, spine_sep p1 (S p1) elems all t' /\
         Forall (fun e => exists v, wt G c e v) elems)).
  { apply (wt_wf_ind G
      (fun X t u _ => X = NT h ->
         exists elems all, spine_sep p1 (S p1) elems all t /\
           Forall (fun e => exists v, wt G c e v) elems)
      (fun Xs ts us _ => forall Xs', Xs = NT h :: Xs' ->
         exists t' ts', ts = t' :: ts' /\
         exists elems all, spine_sep p1 (S p1) elems all t' /\
           Forall (fun e => exists v, wt G c e v) elems)).
    - intros t i E. discriminate.
    - intros p pr ch u Hn Hwfch IH E. injection E as E.
      destruct (Huniq p pr Hn E) as [-> | ->].
      + rewrite Hp1 in Hn. injection Hn as <-. cbn [rhs] in *.
        destruct (IH _ eq_refl) as (t' & ts' & -> & elems & all & Hsp & Hall).
        inversion Hwfch as [|X0 t0 u0 Xs0 ts0 us0 _ Hrest]; subst.
        inversion Hrest as [|X1 t1 u1 Xs1 ts1 us1 _ Hrest']; subst.
        inversion Hrest' as [|X2 t2 u2 Xs2 ts2 us2 He Hnil]; subst.
        inversion Hnil; subst.
        exists (elems ++ [t2]), (all ++ [t1; t2]). split; [constructor; exact Hsp|].
        apply Forall_app. split; [exact Hall|]. constructor; [eauto|constructor].
      + rewrite Hp2 in Hn. injection Hn as <-. cbn [rhs] in *.
        inversion Hwfch as [|X0 t0 u0 Xs0 ts0 us0 He Hnil]; subst.
        inversion Hnil; subst.
        exists [t0], [t0]. split; [constructor|]. constructor; [eauto|constructor].
    - intros Xs' E. discriminate.
    - intros X t u Xs ts us _ IHt _ _ Xs' E. injection E as -> _.
      exists t, ts. split; [reflexivity|]. apply IHt. reflexivity. }
  intros t u Ht. exact (proj1 Hmain _ _ _ Ht eq_refl).
Qed.

(* ---------- N4: examples (checked against loxverif dump) ---------- *)

(* terminals: 0 EOF, 1 ERROR, 2 A, 3 B, 4 C; rules: 1 s, 2 a
     @start s = a* B | @list(a, C)?
     a = A+ A?
   lox: rules 3 "a*", 4 "a+", 5 "@list(a,C)?", 6 "@list(a,C)", 7 "A+", 8 "A?":
   a starred helper is numbered before the plus helper it creates *)
Definition ex1 : sgrammar :=
  {| sg_rules :=
       [ [ [SCard KStar (SRule 2); STok 3]; [SList (SRule 2) (STok 4) true] ];
         [ [SCard KPlus (STok 2); SCard KOpt (STok 2)] ] ];
     sg_start := 1 |}.

Example ex1_wf : wf_sgrammarb ex1 = true.
Proof. vm_compute. reflexivity. Qed.

Example ex1_normalize :
  normalize ex1 =
  ([ {| lhs := 0; rhs := [NT 1] |};
     {| lhs := 1; rhs := [NT 3; T 3] |};          (* s = a* B *)
     {| lhs := 1; rhs := [NT 5] |};               (*   | @list(a,C)? *)
     {| lhs := 2; rhs := [NT 7; NT 8] |};         (* a = A+ A? *)
     {| lhs := 3; rhs := [NT 4] |};               (* a* = a+ *)
     {| lhs := 3; rhs := [] |};                   (*    | empty *)
     {| lhs := 4; rhs := [NT 4; NT 2] |};         (* a+ = a+ a *)
     {| lhs := 4; rhs := [NT 2] |};               (*    | a *)
     {| lhs := 5; rhs := [NT 6] |};               (* @list(a,C)? = @list(a,C) *)
     {| lhs := 5; rhs := [] |};                   (*    | empty *)
     {| lhs := 6; rhs := [NT 6; T 4; NT 2] |};    (* @list(a,C) = @list(a,C) C a *)
     {| lhs := 6; rhs := [NT 2] |};               (*    | a *)
     {| lhs := 7; rhs := [NT 7; T 2] |};          (* A+ = A+ A *)
     {| lhs := 7; rhs := [T 2] |};                (*    | A *)
     {| lhs := 8; rhs := [T 2] |};                (* A? = A *)
     {| lhs := 8; rhs := [] |} ],                 (*    | empty *)
   [ (3, HStar); (4, HPlus); (5, HListOpt); (6, HList); (7, HPlus); (8, HOpt) ]).
Proof. vm_compute. reflexivity. Qed.

(* reuse: the same sugar twice, in two rules, and t+ after t* (the t+ helper that
   t* created is reused); t*! and t+! are helpers of their own
     @start s = 'a'* A+ 'b'? t*! t+
     t = B A* B?
   lox: 3 "A*", 4 "A+", 5 "B?", 6 "t*!", 7 "t+!", 8 "t+" *)
Definition ex2 : sgrammar :=
  {| sg_rules :=
       [ [ [SCard KStar (STok 2); SCard KPlus (STok 2); SCard KOpt (STok 3);
            SCard KStarF (SRule 2); SCard KPlus (SRule 2)] ];
         [ [STok 3; SCard KStar (STok 2); SCard KOpt (STok 3)] ] ];
     sg_start := 1 |}.

Example ex2_normalize :
  normalize ex2 =
  ([ {| lhs := 0; rhs := [NT 1] |};
     {| lhs := 1; rhs := [NT 3; NT 4; NT 5; NT 6; NT 8] |};
     {| lhs := 2; rhs := [T 3; NT 3; NT 5] |};
     {| lhs := 3; rhs := [NT 4] |};       {| lhs := 3; rhs := [] |};
     {| lhs := 4; rhs := [NT 4; T 2] |};  {| lhs := 4; rhs := [T 2] |};
     {| lhs := 5; rhs := [T 3] |};        {| lhs := 5; rhs := [] |};
     {| lhs := 6; rhs := [NT 7] |};       {| lhs := 6; rhs := [] |};
     {| lhs := 7; rhs := [NT 7; NT 2] |}; {| lhs := 7; rhs := [NT 2] |};
     {| lhs := 8; rhs := [NT 8; NT 2] |}; {| lhs := 8; rhs := [NT 2] |} ],
   [ (3, HStar); (4, HPlus); (5, HOpt); (6, HStarF); (7, HPlusF); (8, HPlus) ]).
Proof. vm_compute. reflexivity. Qed.

(* the other order: x+ first, then x*: the plus helper has the smaller number;
   @list(x,s) before @list(x,s)? likewise
     @start s = A+ A* @list(A, B) @list(A, B)? @error? *)
Definition ex3 : sgrammar :=
  {| sg_rules :=
       [ [ [SCard KPlus (STok 2); SCard KStar (STok 2); SList (STok 2) (STok 3) false;
            SList (STok 2) (STok 3) true; SCard KOpt SErr] ] ];
     sg_start := 1 |}.

Example ex3_normalize :
  normalize ex3 =
  ([ {| lhs := 0; rhs := [NT 1] |};
     {| lhs := 1; rhs := [NT 2; NT 3; NT 4; NT 5; NT 6] |};
     {| lhs := 2; rhs := [NT 2; T 2] |};       {| lhs := 2; rhs := [T 2] |};
     {| lhs := 3; rhs := [NT 2] |};            {| lhs := 3; rhs := [] |};
     {| lhs := 4; rhs := [NT 4; T 3; T 2] |};  {| lhs := 4; rhs := [T 2] |};
     {| lhs := 5; rhs := [NT 4] |};            {| lhs := 5; rhs := [] |};
     {| lhs := 6; rhs := [T 1] |};             {| lhs := 6; rhs := [] |} ],
   [ (2, HPlus); (3, HStar); (4, HList); (5, HListOpt); (6, HOpt) ]).
Proof. vm_compute. reflexivity. Qed.

(* a sentence of ex1, both ways:  A A B  =  a a B  with a = A and a = A *)
Example ex1_sentence : ssentence ex1 [(2, 0); (2, 1); (3, 2)].
Proof.
  unfold ssentence. cbn [sg_start ex1].
  apply sd_rule with (rl := [ [SCard KStar (SRule 2); STok 3]; [SList (SRule 2) (STok 4) true] ])
                     (p := [SCard KStar (SRule 2); STok 3]); [reflexivity|left; reflexivity|].
  assert (Ha : forall i, sderives ex1 (SRule 2) [(2, i)]).
  { intros i. apply sd_rule with (rl := [ [SCard KPlus (STok 2); SCard KOpt (STok 2)] ])
                                 (p := [SCard KPlus (STok 2); SCard KOpt (STok 2)]);
      [reflexivity|left; reflexivity|].
    apply (sp_cons ex1 _ _ [(2, i)] []).
    - apply sd_plus with 0. apply (sr_more ex1 _ 0 [] [(2, i)]); constructor.
    - apply (sp_cons ex1 _ _ [] []); [apply sd_opt_none|constructor]. }
  apply (sp_cons ex1 _ _ [(2, 0); (2, 1)] [(3, 2)]).
  - apply sd_star with 2. apply (sr_more ex1 _ 1 [(2, 0)] [(2, 1)]); [|apply Ha].
    apply (sr_more ex1 _ 0 [] [(2, 0)]); [constructor|apply Ha].
  - apply (sp_cons ex1 _ _ [(3, 2)] []); constructor.
Qed.

Example ex1_sentence_plain : sentence (fst (normalize ex1)) [(2, 0); (2, 1); (3, 2)].
Proof. apply normalize_complete; [reflexivity|exact ex1_sentence]. Qed.

Print Assumptions normalize_sound.
Print Assumptions normalize_complete.
Print Assumptions helper_shapes.
Print Assumptions normalize_length.
Print Assumptions plus_helper_spine.
Print Assumptions list_helper_spine.
Print Assumptions ex1_normalize.
Print Assumptions ex2_normalize.
Print Assumptions ex3_normalize.
Print Assumptions ex1_sentence_plain.
