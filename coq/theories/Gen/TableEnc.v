(* Executable model of internal/codegen/table.go: the row-compressed table
   encoder behind the emitted _actions / _goto arrays (emit_parser.go) and the
   _lexerModeN arrays (emit_lexer.go).  Definitions only; the theorems are in
   TableEncProofs.v.  This file is extracted and run against the Go code
   (VerifTableArray / VerifTableArrayU in verif_export.go).

   Entries are Z (the Go element type E is int32 or uint32), row indices are
   nat, Go maps are association lists with "first match wins" (a Go map
   assignment m[k] = v is modelled by consing (k, v) in front). *)
From Coq Require Import List ZArith Bool.
From Lox Require Import Parse.Tables.
Import ListNotations.
Local Open Scope Z_scope.

(* ---- encoding/binary.AppendVarint ---- *)

(* ux := uint64(x) << 1; if x < 0 { ux = ^ux }   -- i.e. (x << 1) xor (x >> 63).
   On Z without wrap-around: exact for -(2^63) <= x < 2^63, in particular for
   every int32 / uint32 entry (|x| < 2^32). *)
Definition zigzag (x : Z) : Z := if x <? 0 then -2 * x - 1 else 2 * x.

(* AppendUvarint: for x >= 0x80 { append(byte(x)|0x80); x >>= 7 }; append(byte(x)).
   Fuel = number of continuation bytes still allowed; a uint64 needs at most 9
   continuation bytes (10 bytes), an entry with |x| < 2^32 at most 4 (5 bytes).
   The fuel-exhausted branch is unreachable for u < 2^63 (fuel 9). *)
Fixpoint uvarint (fuel : nat) (u : Z) : list Z :=
  match fuel with
  | O => [u]
  | S f => if u <? 128 then [u] else (u mod 128 + 128) :: uvarint f (u / 128)
  end.

Definition varint (x : Z) : list Z := uvarint 9 (zigzag x).

(* table.rowKey: the key string, as its list of bytes *)
Fixpoint row_key (row : list Z) : list Z :=
  match row with
  | [] => []
  | x :: rest => varint x ++ row_key rest
  end.

(* ---- the table ---- *)

Record tstate := {
  t_max : Z;                        (* maxIndex, starts at -1 *)
  t_rowmap : list (list Z * Z);     (* rowKey bytes -> offset in t_arr *)
  t_index : list (nat * Z);         (* row index -> offset in t_arr *)
  t_arr : list Z;
}.

Definition empty_table : tstate :=
  {| t_max := -1; t_rowmap := []; t_index := []; t_arr := [] |}.

Fixpoint lz_eqb (a b : list Z) : bool :=
  match a, b with
  | [], [] => true
  | x :: a', y :: b' => (x =? y) && lz_eqb a' b'
  | _, _ => false
  end.

Fixpoint rowmap_get (m : list (list Z * Z)) (k : list Z) : option Z :=
  match m with
  | [] => None
  | (k', v) :: rest => if lz_eqb k' k then Some v else rowmap_get rest k
  end.

Fixpoint index_get (m : list (nat * Z)) (i : nat) : option Z :=
  match m with
  | [] => None
  | (j, v) :: rest => if Nat.eqb j i then Some v else index_get rest i
  end.

(* table.AddRow; None is the panic "index must be monotonically increasing".
   E(len(row)) is len(row) itself as long as the row has fewer than 2^31
   entries. *)
Definition add_row (t : tstate) (index : nat) (row : list Z) : option tstate :=
  if Z.of_nat index <=? t_max t then None
  else
    let key := row_key row in
    match rowmap_get (t_rowmap t) key with
    | Some existing =>
      Some {| t_max := Z.of_nat index;
              t_rowmap := t_rowmap t;
              t_index := (index, existing) :: t_index t;
              t_arr := t_arr t |}
    | None =>
      let off := Zlength (t_arr t) in
      Some {| t_max := Z.of_nat index;
              t_rowmap := (key, off) :: t_rowmap t;
              t_index := (index, off) :: t_index t;
              t_arr := t_arr t ++ Zlength row :: row |}
    end.

(* table.Array.  [miss] is E(-1): -1 for the int32 instantiation (parser
   tables), 4294967295 for the uint32 instantiation (lexer mode tables). *)
Definition table_array_with (miss : Z) (t : tstate) : list Z :=
  map (fun i => match index_get (t_index t) i with
                | Some x => x + (t_max t + 1)
                | None => miss
                end) (seq 0 (Z.to_nat (t_max t + 1)))
  ++ t_arr t.

Definition table_array (t : tstate) : list Z := table_array_with (-1) t.

(* fold of AddRow over the rows, in order *)
Fixpoint add_rows (t : tstate) (rows : list (nat * list Z)) : option tstate :=
  match rows with
  | [] => Some t
  | (i, row) :: rest =>
    match add_row t i row with
    | Some t' => add_rows t' rest
    | None => None
    end
  end.

Definition build_with (miss : Z) (rows : list (nat * list Z)) : option (list Z) :=
  match add_rows empty_table rows with
  | Some t => Some (table_array_with miss t)
  | None => None
  end.

(* newTable[int32] ... AddRow ... Array *)
Definition build (rows : list (nat * list Z)) : option (list Z) := build_with (-1) rows.
(* newTable[uint32] ... AddRow ... Array *)
Definition build_u (rows : list (nat * list Z)) : option (list Z) := build_with 4294967295 rows.

(* the panic condition, as a check on the index sequence *)
Fixpoint increasing (prev : Z) (rows : list (nat * list Z)) : bool :=
  match rows with
  | [] => true
  | (i, _) :: rest => (prev <? Z.of_nat i) && increasing (Z.of_nat i) rest
  end.

(* ---- rows as the emitters build them ---- *)

Fixpoint flat_pairs (ps : list (Z * Z)) : list Z :=
  match ps with
  | [] => []
  | (a, b) :: rest => a :: b :: flat_pairs rest
  end.

Fixpoint flat_triples (ts : list (Z * Z * Z)) : list Z :=
  match ts with
  | [] => []
  | (a, b, c) :: rest => a :: b :: c :: flat_triples rest
  end.

(* what mode_table appends for one DFA state: flags, number of transitions,
   (lo, hi, target) triples, (type, parameter) action pairs *)
Definition encode_lex_row (flag : bool) (trans : list (Z * Z * Z)) (acts : list (Z * Z)) : list Z :=
  (if flag then 1 else 0) :: Zlength trans :: flat_triples trans ++ flat_pairs acts.

(* ---- reading a row back, the way the generated code addresses it ---- *)

Fixpoint take (n : nat) (a : list Z) (i : Z) : option (list Z) :=
  match n with
  | O => Some []
  | S n' =>
    match nthz a i, take n' a (i + 1) with
    | Some x, Some r => Some (x :: r)
    | _, _ => None
    end
  end.

(* off := arr[i]; n := arr[off]; arr[off+1 : off+1+n] *)
Definition read_row (arr : list Z) (i : Z) : option (list Z) :=
  match nthz arr i with
  | None => None
  | Some off =>
    match nthz arr off with
    | None => None
    | Some n => if n <? 0 then None else take (Z.to_nat n) arr (off + 1)
    end
  end.

(* ---- regression data (table_test.go and hand-derived) ---- *)

Example varint_0 : varint 0 = [0]. Proof. vm_compute. reflexivity. Qed.
Example varint_1 : varint 1 = [2]. Proof. vm_compute. reflexivity. Qed.
Example varint_m1 : varint (-1) = [1]. Proof. vm_compute. reflexivity. Qed.
Example varint_64 : varint 64 = [128; 1]. Proof. vm_compute. reflexivity. Qed.
Example varint_300 : varint 300 = [216; 4]. Proof. vm_compute. reflexivity. Qed.
Example varint_min32 : varint (-2147483648) = [255; 255; 255; 255; 15].
Proof. vm_compute. reflexivity. Qed.
Example varint_max32 : varint 2147483647 = [254; 255; 255; 255; 15].
Proof. vm_compute. reflexivity. Qed.
Example varint_maxu32 : varint 4294967295 = [254; 255; 255; 255; 31].
Proof. vm_compute. reflexivity. Qed.

Example build_small :
  build [(0%nat, [1; 2]); (1%nat, [3]); (3%nat, [1; 2])]
  = Some [4; 7; -1; 4;  2; 1; 2;  1; 3].
Proof. vm_compute. reflexivity. Qed.

(* TestTable in table_test.go *)
Example build_table_test :
  build [(0%nat, [1; 2; 3]); (1%nat, [3; 4]); (2%nat, [1; 2; 3]); (4%nat, [3; 4]); (5%nat, [1; 2])]
  = Some [6; 10; 6; -1; 10; 13;  3; 1; 2; 3;  2; 3; 4;  2; 1; 2].
Proof. vm_compute. reflexivity. Qed.

Example build_u_gap :
  build_u [(1%nat, [7])] = Some [4294967295; 2; 1; 7].
Proof. vm_compute. reflexivity. Qed.

Example build_panic : build [(1%nat, [1]); (1%nat, [2])] = None.
Proof. vm_compute. reflexivity. Qed.

Example read_small :
  read_row [4; 7; -1; 4;  2; 1; 2;  1; 3] 3 = Some [1; 2].
Proof. vm_compute. reflexivity. Qed.
