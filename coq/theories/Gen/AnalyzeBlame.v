(* A3 for the model of lox's semantic analysis (Gen/Analyze.v): where the
   diagnostics point.

   reject_points_into_fault : every diagnostic (k, oi) of [analyze s] is either
     the general error (KStartUndefined, None) or oi = Some i and declaration
     [i] of [s] has a fault of the class of [k]  ([fault_in s k i]):
       KBadName/KReservedName  its name violates the lexical naming rules;
       KRedefined              one of its names is declared by an EARLIER
                               declaration (or twice in the same @external);
       KStartRedefined         it is @start and an earlier rule is @start;
       KUndefined, KNotAToken, KNotAMacro, KNotRuleOrToken
                               one of its references does not resolve;
       KUnknownAlias/KAmbiguousAlias, KUndefinedMode, KEmptyLiteral,
       KListEntryNotSimple/KListSepNotSimple, KTokenDiscard/KTokenEmit,
       KFragTwoDiscard/KFragTwoEmit/KFragDiscardAndEmit   likewise;
       KBadRange               it contains a class item with lower bound above
                               upper bound;
       KMacroCycle             it is a macro that lies on a reference cycle
                               (the macro that is re-entered, not necessarily
                               the one whose check found the cycle).
   diag_ids_declared   : the id of a positioned diagnostic is a declaration id.
   single_fault_blamed : if only declaration i0 is at fault, every positioned
                         diagnostic carries i0. *)
From Coq Require Import List String Ascii ZArith Bool Arith Lia.
From Lox Require Import Gen.Analyze Gen.AnalyzeProofs.
Import ListNotations.

(* ---- pass 1: who is blamed --------------------------------------- *)
Definition names_of (st : nstate) : list string := map fst (n_names st).
Definition dnames (ds : list decl) : list string := map fst (flat_map own_names ds).

Definition fault1 (k : dkind) (N : list string) (S : bool) (d : decl) : Prop :=
  match k with
  | KBadName | KReservedName => lexical_name_ok d = false
  | KRedefined => (exists n, In n (dnames [d]) /\ In n N) \/ nodupb (dnames [d]) = false
  | KStartRedefined => is_start d = true /\ S = true
  | _ => False
  end.

Lemma fault1_mono k N N' S S' d :
  incl N N' -> (S = true -> S' = true) -> fault1 k N S d -> fault1 k N' S' d.
Proof.
  intros HN HS. destruct k; simpl; auto.
  - intros [[n [H1 H2]]|H]; [left; exists n; split; [assumption|apply HN; assumption]|right; assumption].
  - intros [H1 H2]. split; auto.
Qed.

Definition p1_res (st st' : nstate) (dg : list diag) (L : list decl) : Prop :=
  incl (names_of st') (names_of st ++ dnames L) /\
  (n_start st' = true -> n_start st = true \/ existsb is_start L = true) /\
  forall k oi, In (k, oi) dg ->
    exists i pre d post, oi = Some i /\ L = pre ++ d :: post /\ decl_id d = i /\
      fault1 k (names_of st ++ dnames pre) (n_start st || existsb is_start pre) d.

Definition p1_spec (f : nstate -> nstate * list diag) (L : list decl) : Prop :=
  forall st st' dg, f st = (st', dg) -> p1_res st st' dg L.

Lemma dnames_app l1 l2 : dnames (l1 ++ l2) = dnames l1 ++ dnames l2.
Proof. unfold dnames. rewrite flat_map_app, map_app. reflexivity. Qed.

Lemma p1_res_app_r st st' dg L R : p1_res st st' dg L -> p1_res st st' dg (L ++ R).
Proof.
  intros [H1 [H2 H3]]. split; [|split].
  - rewrite dnames_app, app_assoc. apply incl_appl. exact H1.
  - intros X. destruct (H2 X) as [Y|Y]; [left; exact Y|right]. rewrite existsb_app, Y. reflexivity.
  - intros k oi Hin. destruct (H3 k oi Hin) as [i [pre [d [post [E1 [E2 [E3 E4]]]]]]].
    exists i, pre, d, (post ++ R). repeat split; try assumption.
    rewrite E2, <- app_assoc. reflexivity.
Qed.

Lemma p1_nil : p1_spec (fun st => (st, [])) [].
Proof.
  intros st st' dg H. inversion H; subst. split; [|split].
  - apply incl_appl, incl_refl.
  - auto.
  - intros k oi [].
Qed.

Lemma p1_seq f g L1 L2 : p1_spec f L1 -> p1_spec g L2 -> p1_spec (seq2 f g) (L1 ++ L2).
Proof.
  intros Hf Hg st st' dg H. unfold seq2 in H.
  destruct (f st) as [s1 d1] eqn:Ef. destruct (g s1) as [s2 d2] eqn:Eg. inversion H; subst.
  destruct (Hf _ _ _ Ef) as [F1 [F2 F3]]. destruct (Hg _ _ _ Eg) as [G1 [G2 G3]].
  assert (HN : incl (names_of s1 ++ dnames L2) (names_of st ++ dnames (L1 ++ L2))).
  { rewrite dnames_app, app_assoc. apply incl_app; [apply incl_appl; exact F1|apply incl_appr, incl_refl]. }
  split; [|split].
  - eapply incl_tran; [exact G1|exact HN].
  - intros X. rewrite existsb_app. destruct (G2 X) as [Y|Y].
    + destruct (F2 Y) as [Z|Z]; [left; exact Z|right; rewrite Z; reflexivity].
    + right. rewrite Y. apply orb_true_r.
  - intros k oi Hin. apply in_app_or in Hin. destruct Hin as [Hin|Hin].
    + destruct (F3 k oi Hin) as [i [pre [d [post [E1 [E2 [E3 E4]]]]]]].
      exists i, pre, d, (post ++ L2). repeat split; try assumption.
      rewrite E2, <- app_assoc. reflexivity.
    + destruct (G3 k oi Hin) as [i [pre [d [post [E1 [E2 [E3 E4]]]]]]].
      exists i, (L1 ++ pre), d, post. repeat split; try assumption.
      * rewrite E2, <- app_assoc. reflexivity.
      * eapply fault1_mono; [| |exact E4].
        -- rewrite dnames_app, app_assoc.
           apply incl_app; [apply incl_appl; exact F1|apply incl_appr, incl_refl].
        -- rewrite existsb_app. intros X. apply orb_true_iff in X. destruct X as [X|X].
           ++ destruct (F2 X) as [Z|Z]; rewrite Z; [reflexivity|]. rewrite orb_true_r. reflexivity.
           ++ rewrite X. rewrite !orb_true_r. reflexivity.
Qed.

Lemma cn_name_res v n e id st st' dg :
  cn_name v n e id st = (st', dg) ->
  incl (names_of st') (names_of st ++ [n]) /\ n_start st' = n_start st /\
  (forall k oi, In (k, oi) dg -> oi = Some id /\
     (((k = KBadName \/ k = KReservedName) /\ v = true /\ token_name_ok n = false) \/
      (k = KRedefined /\ In n (names_of st)))) /\
  (dg = [] -> st' = add_name n e st).
Proof.
  unfold cn_name, token_name_ok.
  assert (Hsame : forall k, (k = KBadName \/ k = KReservedName) -> v = true ->
            match validate_token_name n with NameOk => true | _ => false end = false ->
            (st, [(k, Some id)]) = (st', dg) ->
            incl (names_of st') (names_of st ++ [n]) /\ n_start st' = n_start st /\
            (forall k0 oi, In (k0, oi) dg -> oi = Some id /\
              (((k0 = KBadName \/ k0 = KReservedName) /\ v = true /\
                match validate_token_name n with NameOk => true | _ => false end = false) \/
               (k0 = KRedefined /\ In n (names_of st)))) /\
            (dg = [] -> st' = add_name n e st)).
  { intros k Hk Hv Hval H. inversion H; subst. split; [apply incl_appl, incl_refl|]. split; [reflexivity|].
    split; [|discriminate]. intros k0 oi [X|[]]. inversion X; subst. split; [reflexivity|]. left. auto. }
  assert (Hok : match lookup n (n_names st) with
                | Some _ => (st, [(KRedefined, Some id)])
                | None => (add_name n e st, [])
                end = (st', dg) ->
            incl (names_of st') (names_of st ++ [n]) /\ n_start st' = n_start st /\
            (forall k0 oi, In (k0, oi) dg -> oi = Some id /\
              (((k0 = KBadName \/ k0 = KReservedName) /\ v = true /\
                match validate_token_name n with NameOk => true | _ => false end = false) \/
               (k0 = KRedefined /\ In n (names_of st)))) /\
            (dg = [] -> st' = add_name n e st)).
  { destruct (lookup n (n_names st)) as [x|] eqn:El; intros H; inversion H; subst.
    - split; [apply incl_appl, incl_refl|]. split; [reflexivity|]. split; [|discriminate].
      intros k0 oi [X|[]]. inversion X; subst. split; [reflexivity|]. right. split; [reflexivity|].
      apply lookup_In in El. unfold names_of. apply (in_map fst) in El. exact El.
    - split; [unfold names_of; rewrite names_add_name; apply incl_refl|]. split; [reflexivity|].
      split; [intros k0 oi []|reflexivity]. }
  destruct v; [destruct (validate_token_name n) eqn:Ev|]; auto.
  - apply (Hsame KBadName); auto.
  - apply (Hsame KReservedName); auto.
Qed.

Lemma cn_ext_res id ns : forall st st' dg,
  cn_ext id ns st = (st', dg) ->
  incl (names_of st') (names_of st ++ ns) /\ n_start st' = n_start st /\
  forall k oi, In (k, oi) dg -> oi = Some id /\
    (((k = KBadName \/ k = KReservedName) /\ forallb token_name_ok ns = false) \/
     (k = KRedefined /\ ((exists n, In n ns /\ In n (names_of st)) \/ nodupb ns = false))).
Proof.
  induction ns as [|n r IH]; intros st st' dg H.
  - simpl in H. inversion H; subst. split; [apply incl_appl, incl_refl|]. split; [reflexivity|].
    intros k oi [].
  - simpl in H. destruct (cn_name true n (EExternal id) id st) as [s1 d1] eqn:E1.
    destruct (cn_ext id r s1) as [s2 d2] eqn:E2. inversion H; subst.
    apply cn_name_res in E1. destruct E1 as [A1 [A2 [A3 _]]].
    apply IH in E2. destruct E2 as [B1 [B2 B3]].
    split; [|split].
    + intros x Hx. apply B1 in Hx. apply in_app_or in Hx. destruct Hx as [Hx|Hx].
      * apply A1 in Hx. apply in_app_or in Hx. destruct Hx as [Hx|[Hx|[]]].
        -- apply in_or_app. left. exact Hx.
        -- apply in_or_app. right. left. exact Hx.
      * apply in_or_app. right. right. exact Hx.
    + congruence.
    + intros k oi Hin. apply in_app_or in Hin. destruct Hin as [Hin|Hin].
      * destruct (A3 k oi Hin) as [X1 [[X2 [_ X3]]|[X2 X3]]]; (split; [exact X1|]).
        -- left. split; [exact X2|]. simpl. rewrite X3. reflexivity.
        -- right. split; [exact X2|]. left. exists n. split; [left; reflexivity|exact X3].
      * destruct (B3 k oi Hin) as [X1 [[X2 X3]|[X2 X3]]]; (split; [exact X1|]).
        -- left. split; [exact X2|]. simpl. rewrite X3. apply andb_false_r.
        -- right. split; [exact X2|]. destruct X3 as [[m [M1 M2]]|X3].
           ++ apply A1 in M2. apply in_app_or in M2. destruct M2 as [M2|[M2|[]]].
              ** left. exists m. split; [right; exact M1|exact M2].
              ** right. subst m. simpl. apply mem_str_In in M1. rewrite M1. reflexivity.
           ++ right. simpl. rewrite X3. apply andb_false_r.
Qed.

(* diagnostics of a cn_name call, read as faults of the declaration [d] whose
   only own name is [n] *)
Lemma name_diags_fault v n id st dg d :
  dnames [d] = [n] -> decl_id d = id ->
  (v = true -> lexical_name_ok d = token_name_ok n) ->
  (forall k oi, In (k, oi) dg -> oi = Some id /\
     (((k = KBadName \/ k = KReservedName) /\ v = true /\ token_name_ok n = false) \/
      (k = KRedefined /\ In n (names_of st)))) ->
  forall k oi, In (k, oi) dg -> oi = Some (decl_id d) /\ fault1 k (names_of st) (n_start st) d.
Proof.
  intros Hd Hid Hl H k oi Hin. destruct (H k oi Hin) as [X1 [[X2 [X3 X4]]|[X2 X3]]].
  - split; [congruence|]. rewrite <- (Hl X3) in X4. destruct X2; subst k; exact X4.
  - split; [congruence|]. subst k. left. exists n. rewrite Hd. split; [left; reflexivity|exact X3].
Qed.

Lemma cn_own_res d st st' dg :
  cn_own d st = (st', dg) ->
  incl (names_of st') (names_of st ++ dnames [d]) /\
  (n_start st' = true -> n_start st = true \/ is_start d = true) /\
  forall k oi, In (k, oi) dg -> oi = Some (decl_id d) /\ fault1 k (names_of st) (n_start st) d.
Proof.
  destruct d as [id n e a|id e a|id n e|id ns|id n body|id b n pr]; simpl cn_own; intros H.
  - (* token *)
    destruct (cn_name true n (EToken id) id st) as [s1 d1] eqn:E1.
    apply cn_name_res in E1. destruct E1 as [A1 [A2 [A3 _]]].
    assert (F := name_diags_fault true n id st d1 (DToken id n e a) eq_refl eq_refl (fun _ => eq_refl) A3).
    destruct d1 as [|x d1]; inversion H; subst.
    + split; [|split].
      * destruct (simple_literal e); exact A1.
      * intros X. left. rewrite <- A2. destruct (simple_literal e); exact X.
      * intros k oi [].
    + split; [exact A1|]. split; [intros X; left; congruence|exact F].
  - (* frag *)
    inversion H; subst. split; [apply incl_appl, incl_refl|]. split; [auto|intros k oi []].
  - (* macro *)
    apply cn_name_res in H. destruct H as [A1 [A2 [A3 _]]].
    split; [exact A1|]. split; [intros X; left; congruence|].
    exact (name_diags_fault true n id st dg (DMacro id n e) eq_refl eq_refl (fun _ => eq_refl) A3).
  - (* external *)
    apply cn_ext_res in H. destruct H as [A1 [A2 A3]].
    assert (Hd : dnames [DExternal id ns] = ns).
    { unfold dnames. simpl. rewrite app_nil_r, map_map. simpl. apply map_id. }
    rewrite Hd. split; [exact A1|]. split; [intros X; left; congruence|].
    intros k oi Hin. destruct (A3 k oi Hin) as [X1 [[X2 X3]|[X2 X3]]]; (split; [exact X1|]).
    + destruct X2; subst k; exact X3.
    + subst k. simpl. rewrite Hd. exact X3.
  - (* mode *)
    destruct (cn_name false n (EMode id) id st) as [s1 d1] eqn:E1.
    apply cn_name_res in E1. destruct E1 as [A1 [A2 [A3 _]]].
    assert (F := name_diags_fault false n id st d1 (DMode id n body) eq_refl eq_refl
                   (fun X => False_ind _ (diff_false_true X)) A3).
    destruct d1 as [|x d1]; inversion H; subst.
    + split; [exact A1|]. split; [intros X; left; simpl in X; congruence|intros k oi []].
    + split; [exact A1|]. split; [intros X; left; congruence|exact F].
  - (* rule *)
    destruct (cn_name false n (ERule id) id (set_rules st)) as [s1 d1] eqn:E1.
    apply cn_name_res in E1. destruct E1 as [A1 [A2 [A3 _]]].
    change (names_of (set_rules st)) with (names_of st) in A1, A3.
    change (n_start (set_rules st)) with (n_start st) in A2.
    assert (F := name_diags_fault false n id st d1 (DRule id b n pr) eq_refl eq_refl
                   (fun X => False_ind _ (diff_false_true X)) A3).
    destruct d1 as [|x d1].
    + destruct b.
      * destruct (n_start s1) eqn:Es; inversion H; subst.
        -- split; [exact A1|]. split; [intros X; right; reflexivity|].
           intros k oi [X|[]]. inversion X; subst. split; [reflexivity|]. simpl. split; congruence.
        -- split; [exact A1|]. split; [intros X; right; reflexivity|intros k oi []].
      * inversion H; subst. split; [exact A1|]. split; [intros X; left; congruence|intros k oi []].
    + inversion H; subst. split; [exact A1|]. split; [intros X; left; congruence|exact F].
Qed.

Lemma p1_own d : p1_spec (cn_own d) [d].
Proof.
  intros st st' dg H. apply cn_own_res in H. destruct H as [A1 [A2 A3]]. split; [exact A1|]. split.
  - intros X. destruct (A2 X) as [Y|Y]; [left; exact Y|right; simpl; rewrite Y; reflexivity].
  - intros k oi Hin. destruct (A3 k oi Hin) as [X1 X2].
    exists (decl_id d), [], d, []. repeat split; try assumption.
    eapply fault1_mono; [| |exact X2].
    + apply incl_appl, incl_refl.
    + intros X. rewrite X. reflexivity.
Qed.

Lemma p1_decls_of (P : decl -> Prop) ds :
  (forall d, P d -> p1_spec (cn_decl d) (flat_decl d)) -> Forall P ds ->
  p1_spec (cn_decls ds) (flat_map flat_decl ds).
Proof.
  intros HP H. induction H as [|d r Hd Hr IH].
  - exact p1_nil.
  - intros st st' dg E. rewrite cn_decls_cons in E. simpl flat_map.
    exact (p1_seq _ _ _ _ (HP d Hd) IH st st' dg E).
Qed.

Lemma p1_decl d : p1_spec (cn_decl d) (flat_decl d).
Proof.
  induction d as [id n e a|id e a|id n e|id ns|id n body IHb|id b n pr] using decl_ind';
    try (intros st st' dg H; rewrite cn_decl_other in H by exact I; exact (p1_own _ st st' dg H)).
  intros st st' dg H. rewrite cn_decl_mode in H.
  change (flat_decl (DMode id n body)) with ([DMode id n body] ++ flat_map flat_decl body).
  destruct (cn_own (DMode id n body) st) as [s1 d1] eqn:E1.
  destruct d1 as [|x d1].
  - apply (p1_seq _ _ _ _ (p1_own (DMode id n body))
             (p1_decls_of _ body (fun d Hd => Hd) IHb) st st' dg).
    unfold seq2. rewrite E1, H. reflexivity.
  - inversion H; subst. apply p1_res_app_r. exact (p1_own _ _ _ _ E1).
Qed.

Lemma p1_decls ds : p1_spec (cn_decls ds) (flat_map flat_decl ds).
Proof.
  apply (p1_decls_of (fun _ => True)).
  - intros d _. apply p1_decl.
  - apply Forall_forall. auto.
Qed.

(* The fault a diagnostic of kind [k] blames on declaration [d], where [pre]
   are the declarations before [d] (all_decls s = pre ++ d :: post). *)
Definition fault_of (s : spec) (k : dkind) (pre : list decl) (d : decl) : Prop :=
  match k with
  | KBadName | KReservedName | KRedefined | KStartRedefined =>
      fault1 k (dnames pre) (existsb is_start pre) d
  | KUndefined | KNotAToken | KNotAMacro | KNotRuleOrToken => decl_refs_ok (canon s) d = false
  | KUnknownAlias | KAmbiguousAlias => decl_aliases_ok (canon s) d = false
  | KUndefinedMode => decl_modes_ok (canon s) d = false
  | KEmptyLiteral => decl_literals_ok d = false
  | KBadRange => forallb atom_ranges_ok (decl_atoms d) = false
  | KListEntryNotSimple | KListSepNotSimple => decl_lists_ok d = false
  | KTokenDiscard | KTokenEmit => decl_token_actions_ok d = false
  | KFragTwoDiscard | KFragTwoEmit | KFragDiscardAndEmit => decl_frag_actions_ok d = false
  | KMacroCycle =>
      (exists n e, d = DMacro (decl_id d) n e) /\ macro_acyclic (n_names (canon s)) d = false
  | KStartUndefined | KOther => False
  end.

Definition fault_in (s : spec) (k : dkind) (i : nat) : Prop :=
  exists pre d post, all_decls s = pre ++ d :: post /\ decl_id d = i /\ fault_of s k pre d.

Lemma pass_names_blame s st dg k oi :
  pass_names s = (st, dg) -> In (k, oi) dg -> exists i, oi = Some i /\ fault_in s k i.
Proof.
  intros H Hin. apply p1_decls in H. destruct H as [_ [_ H]].
  destruct (H k oi Hin) as [i [pre [d [post [E1 [E2 [E3 E4]]]]]]].
  exists i. split; [exact E1|]. exists pre, d, post. split; [exact E2|]. split; [exact E3|].
  simpl in E4. destruct k; simpl in *; try contradiction; exact E4.
Qed.

Section Cycle.
Variable tbl : names.

(* from macro [m], following the references [p], one reaches a macro body that
   contains the atom [a] *)
Fixpoint walk_to (m : string) (p : list string) (a : lterm) : Prop :=
  match lookup m tbl with
  | Some (EMacro _ body) =>
      match p with
      | [] => In a (lexpr_atoms body)
      | x :: q => In (LRef x) (lexpr_atoms body) /\ walk_to x q a
      end
  | _ => False
  end.

Lemma walk_to_snoc p : forall m n id body a',
  walk_to m p (LRef n) -> lookup n tbl = Some (EMacro id body) -> In a' (lexpr_atoms body) ->
  walk_to m (p ++ [n]) a'.
Proof.
  induction p as [|x q IH]; intros m n id body a' H El Ha; simpl in *;
    destruct (lookup m tbl) as [[| mid mbody | | |]|]; try contradiction.
  - split; [exact H|]. rewrite El. exact Ha.
  - destruct H as [H1 H2]. split; [exact H1|]. exact (IH _ _ _ _ _ H2 El Ha).
Qed.

Lemma flat_map_not_nil {A B : Type} (f : A -> list B) l x :
  In x l -> f x <> [] -> flat_map f l <> [].
Proof.
  intros Hin Hf E. rewrite flat_map_nil in E. apply Hf. apply E. exact Hin.
Qed.

(* a walk from [m] back to a macro [n] of the stack makes the expansion of [m]'s
   body report something *)
Lemma walk_reports n idn bodyn : lookup n tbl = Some (EMacro idn bodyn) ->
  forall p m idm bodym stk fuel,
  lookup m tbl = Some (EMacro idm bodym) -> In n stk -> walk_to m p (LRef n) ->
  flat_map (expand_atom tbl fuel stk) (lexpr_atoms bodym) <> [].
Proof.
  intros Eln. induction p as [|x q IH]; intros m idm bodym stk fuel Elm Hn H;
    simpl in H; rewrite Elm in H.
  - apply (flat_map_not_nil _ _ _ H). destruct fuel; simpl; rewrite Eln;
      apply mem_str_In in Hn; rewrite Hn; discriminate.
  - destruct H as [H1 H2]. apply (flat_map_not_nil _ _ _ H1).
    assert (Hx : exists idx bodyx, lookup x tbl = Some (EMacro idx bodyx)).
    { destruct q; simpl in H2; destruct (lookup x tbl) as [[| idx bodyx | | |]|];
        try contradiction; eauto. }
    destruct Hx as [idx [bodyx Elx]].
    destruct fuel; simpl; rewrite Elx; destruct (mem_str x stk); try discriminate.
    apply (IH x idx bodyx (x :: stk) fuel Elx); [right; exact Hn|exact H2].
Qed.

Definition inv (stk : list string) (a : lterm) : Prop :=
  forall m, In m stk -> exists p, walk_to m p a.

Lemma expand_atom_cycle : forall fuel stk a k oi,
  NoDup stk -> incl stk (map fst tbl) -> List.length tbl < fuel + List.length stk ->
  inv stk a ->
  In (k, oi) (expand_atom tbl fuel stk a) ->
  k = KMacroCycle /\ exists mid n body, oi = Some mid /\ In (n, EMacro mid body) tbl /\
    acyclic_atoms tbl (List.length tbl) [n] (lexpr_atoms body) = false.
Proof.
  induction fuel as [|f IH]; intros stk a k oi Hnd Hin Hlen Hinv.
  - exfalso. apply NoDup_incl_length in Hin; [|exact Hnd]. rewrite map_length in Hin. simpl in Hlen. lia.
  - destruct a as [cps|n|c|alts]; simpl; try contradiction.
    destruct (lookup n tbl) as [[id|mid body|id|id|id]|] eqn:El; try contradiction.
    destruct (mem_str n stk) eqn:Em.
    + intros [X|[]]. inversion X; subst. split; [reflexivity|]. exists mid, n, body.
      split; [reflexivity|]. split; [apply lookup_In; exact El|].
      apply mem_str_In in Em. destruct (Hinv n Em) as [p Hp].
      pose proof (walk_reports n mid body El p n mid body [n] (List.length tbl) El
                    (or_introl eq_refl) Hp) as W.
      unfold acyclic_atoms. destruct (flat_map _ _); [contradiction W; reflexivity|reflexivity].
    + intros H. apply in_flat_map in H. destruct H as [a' [Ha' H]].
      apply (IH (n :: stk) a' k oi); try exact H.
      * constructor; [|exact Hnd]. intros X. apply mem_str_In in X. congruence.
      * intros x [X|X]; [|apply Hin; exact X]. subst x. apply lookup_In in El.
        apply (in_map fst) in El. exact El.
      * simpl. lia.
      * intros m [X|X].
        -- subst m. exists []. simpl. rewrite El. exact Ha'.
        -- destruct (Hinv m X) as [p Hp]. exists (p ++ [n]).
           exact (walk_to_snoc p m n mid body a' Hp El Ha').
Qed.

Lemma expand_lexpr_cycle e k oi :
  In (k, oi) (expand_lexpr tbl e) ->
  k = KMacroCycle /\ exists mid n body, oi = Some mid /\ In (n, EMacro mid body) tbl /\
    acyclic_atoms tbl (List.length tbl) [n] (lexpr_atoms body) = false.
Proof.
  unfold expand_lexpr. intros H. apply in_flat_map in H. destruct H as [a [_ H]].
  apply (expand_atom_cycle (expand_fuel tbl) [] a k oi); try exact H.
  - constructor.
  - intros x [].
  - unfold expand_fuel. simpl. lia.
  - intros m [].
Qed.
(* the walk of the Check pass: from macro [n] itself *)
Lemma macro_walk_cycle n id e k oi :
  lookup n tbl = Some (EMacro id e) ->
  In (k, oi) (flat_map (expand_atom tbl (List.length tbl) [n]) (lexpr_atoms e)) ->
  k = KMacroCycle /\ exists mid n' body, oi = Some mid /\ In (n', EMacro mid body) tbl /\
    acyclic_atoms tbl (List.length tbl) [n'] (lexpr_atoms body) = false.
Proof.
  intros El H. apply in_flat_map in H. destruct H as [a [Ha H]].
  apply (expand_atom_cycle (List.length tbl) [n] a k oi); try exact H.
  - constructor; [intros []|constructor].
  - intros x [X|[]]. subst x. apply lookup_In in El. apply (in_map fst) in El. exact El.
  - simpl. lia.
  - intros m [X|[]]. subst m. exists []. simpl. rewrite El. exact Ha.
Qed.
End Cycle.

(* ---- pass 2: who is blamed --------------------------------------- *)
Lemma forallb_false_in {A : Type} (p : A -> bool) (l : list A) (x : A) :
  In x l -> p x = false -> forallb p l = false.
Proof.
  intros Hin Hp. destruct (forallb p l) eqn:E; [|reflexivity].
  rewrite forallb_forall in E. rewrite (E x Hin) in Hp. discriminate.
Qed.

Lemma ck_atom_blame st id a k oi :
  In (k, oi) (ck_atom st id a) -> oi = Some id /\
  ((k = KEmptyLiteral /\ atom_lit_ok a = false) \/
   ((k = KUndefined \/ k = KNotAMacro) /\ atom_ref_ok st a = false) \/
   (k = KBadRange /\ atom_ranges_ok a = false)).
Proof.
  destruct a as [cps|n|c|alts]; simpl; try contradiction.
  - destruct cps; simpl; [|contradiction]. intros [X|[]]. inversion X; subst. auto.
  - destruct (lookup n (n_names st)) as [[]|]; simpl; try contradiction;
      intros [X|[]]; inversion X; subst; (split; [reflexivity|]); right; left; auto.
  - intros H. apply in_flat_map in H. destruct H as [it [Hit H]]. unfold ck_range in H.
    destruct (snd it <? fst it)%Z eqn:E; [|contradiction]. destruct H as [X|[]].
    inversion X; subst. split; [reflexivity|]. right. right. split; [reflexivity|].
    apply (forallb_false_in _ _ it Hit). rewrite Z.ltb_antisym in E.
    apply negb_true_iff in E. exact E.
Qed.

Lemma ck_action_blame st id a k oi :
  In (k, oi) (ck_action st id a) -> oi = Some id /\
  ((k = KUndefinedMode /\ action_mode_ok st a = false) \/
   ((k = KUndefined \/ k = KNotAToken) /\ action_ref_ok st a = false)).
Proof.
  destruct a as [|m| |t]; simpl; try contradiction.
  - destruct (mem_str m (n_modes st)); simpl; [contradiction|]. intros [X|[]]. inversion X; subst. auto.
  - destruct (lookup t (n_names st)) as [[]|]; simpl; try contradiction;
      intros [X|[]]; inversion X; subst; auto.
Qed.

Lemma ck_pterm_blame st id t k oi :
  In (k, oi) (ck_pterm st id t) -> oi = Some id /\
  (((k = KUndefined \/ k = KNotRuleOrToken) /\ pterm_ref_ok st t = false) \/
   ((k = KUnknownAlias \/ k = KAmbiguousAlias) /\ pterm_alias_ok st t = false) \/
   ((k = KListEntryNotSimple \/ k = KListSepNotSimple) /\ pterm_lists_ok t = false) \/
   (k = KEmptyLiteral /\ pterm_lit_ok t = false)).
Proof.
  induction t as [n|lit| |c kk IH|e IHe sp IHsp opt]; simpl; try contradiction.
  - destruct (lookup n (n_names st)) as [[]|]; simpl; try contradiction;
      intros [X|[]]; inversion X; subst; auto.
  - destruct (String.eqb lit ""); simpl.
    + intros [X|[]]. inversion X; subst. auto 7.
    + destruct (count_str lit (n_aliases st)) as [|[|c]]; simpl; try contradiction;
        intros [X|[]]; inversion X; subst; auto 6.
  - exact IH.
  - intros H. apply in_app_or in H. destruct H as [H|H]; [|apply in_app_or in H; destruct H as [H|H]].
    + destruct (IHe H) as [X1 [[X2 X3]|[[X2 X3]|[[X2 X3]|[X2 X3]]]]]; (split; [exact X1|]);
        rewrite X3; simpl; auto 7.
    + destruct (IHsp H) as [X1 [[X2 X3]|[[X2 X3]|[[X2 X3]|[X2 X3]]]]]; (split; [exact X1|]);
        rewrite X3; simpl; rewrite ?andb_false_r; simpl; auto 7.
    + destruct (pterm_simple e) eqn:Ee; simpl in H.
      * destruct (pterm_simple sp) eqn:Es; simpl in H; [contradiction|].
        destruct H as [X|[]]. inversion X; subst. split; [reflexivity|]. right. right. left.
        rewrite ?andb_false_r. auto.
      * destruct H as [X|[]]. inversion X; subst. split; [reflexivity|]. right. right. left.
        rewrite ?andb_false_r. auto.
Qed.

Definition check_fault (st : nstate) (k : dkind) (d : decl) : Prop :=
  match k with
  | KUndefined | KNotAToken | KNotAMacro | KNotRuleOrToken => decl_refs_ok st d = false
  | KUnknownAlias | KAmbiguousAlias => decl_aliases_ok st d = false
  | KUndefinedMode => decl_modes_ok st d = false
  | KEmptyLiteral => decl_literals_ok d = false
  | KBadRange => forallb atom_ranges_ok (decl_atoms d) = false
  | KListEntryNotSimple | KListSepNotSimple => decl_lists_ok d = false
  | _ => False
  end.

Lemma lexpr_part_blame st id e k oi :
  In (k, oi) (ck_lexpr st id e) -> oi = Some id /\
  ((k = KEmptyLiteral /\ forallb atom_lit_ok (lexpr_atoms e) = false) \/
   ((k = KUndefined \/ k = KNotAMacro) /\ forallb (atom_ref_ok st) (lexpr_atoms e) = false) \/
   (k = KBadRange /\ forallb atom_ranges_ok (lexpr_atoms e) = false)).
Proof.
  unfold ck_lexpr. intros H. apply in_flat_map in H. destruct H as [a [Ha H]].
  destruct (ck_atom_blame _ _ _ _ _ H) as [X1 [[X2 X3]|[[X2 X3]|[X2 X3]]]]; (split; [exact X1|]).
  - left. split; [exact X2|]. exact (forallb_false_in _ _ _ Ha X3).
  - right. left. split; [exact X2|]. exact (forallb_false_in _ _ _ Ha X3).
  - right. right. split; [exact X2|]. exact (forallb_false_in _ _ _ Ha X3).
Qed.

Lemma lexer_part_blame st id e acts k oi :
  In (k, oi) (ck_lexpr st id e ++ flat_map (ck_action st id) acts) -> oi = Some id /\
  ((k = KEmptyLiteral /\ forallb atom_lit_ok (lexpr_atoms e) = false) \/
   ((k = KUndefined \/ k = KNotAMacro \/ k = KNotAToken) /\
    forallb (atom_ref_ok st) (lexpr_atoms e) && forallb (action_ref_ok st) acts = false) \/
   (k = KUndefinedMode /\ forallb (action_mode_ok st) acts = false) \/
   (k = KBadRange /\ forallb atom_ranges_ok (lexpr_atoms e) = false)).
Proof.
  intros H. apply in_app_or in H. destruct H as [H|H].
  - destruct (lexpr_part_blame _ _ _ _ _ H) as [X1 [[X2 X3]|[[X2 X3]|[X2 X3]]]]; (split; [exact X1|]).
    + left. auto.
    + right. left. split; [tauto|]. rewrite X3. reflexivity.
    + right. right. right. auto.
  - apply in_flat_map in H. destruct H as [a [Ha H]].
    destruct (ck_action_blame _ _ _ _ _ H) as [X1 [[X2 X3]|[X2 X3]]]; (split; [exact X1|]).
    + right. right. left. split; [exact X2|]. exact (forallb_false_in _ _ _ Ha X3).
    + right. left. split; [tauto|]. rewrite (forallb_false_in _ _ _ Ha X3). apply andb_false_r.
Qed.

Definition cycle_blame (tbl : names) (k : dkind) (oi : option nat) : Prop :=
  k = KMacroCycle /\ exists mid n body, oi = Some mid /\ In (n, EMacro mid body) tbl /\
    acyclic_atoms tbl (List.length tbl) [n] (lexpr_atoms body) = false.

Lemma ck_decl_blame st err d k oi :
  (forall id n e, d = DMacro id n e -> lookup n (n_names st) = Some (EMacro id e)) ->
  In (k, oi) (ck_decl st err d) ->
  cycle_blame (n_names st) k oi \/ (oi = Some (decl_id d) /\ check_fault st k d).
Proof.
  intros Hm.
  destruct d as [id n e a|id e a|id n e|id ns|id n body|id b n pr]; simpl ck_decl;
    try contradiction.
  - intros H. right.
    destruct (lexer_part_blame _ _ _ _ _ _ H) as [X1 [[X2 X3]|[[X2 X3]|[[X2 X3]|[X2 X3]]]]];
      (split; [exact X1|]).
    + subst k. simpl. unfold decl_literals_ok, decl_atoms. simpl. rewrite X3. reflexivity.
    + destruct X2 as [X2|[X2|X2]]; subst k; exact X3.
    + subst k. exact X3.
    + subst k. exact X3.
  - intros H. right.
    destruct (lexer_part_blame _ _ _ _ _ _ H) as [X1 [[X2 X3]|[[X2 X3]|[[X2 X3]|[X2 X3]]]]];
      (split; [exact X1|]).
    + subst k. simpl. unfold decl_literals_ok, decl_atoms. simpl. rewrite X3. reflexivity.
    + destruct X2 as [X2|[X2|X2]]; subst k; exact X3.
    + subst k. exact X3.
    + subst k. exact X3.
  - intros H. apply in_app_or in H. destruct H as [H|H].
    + right. destruct (lexpr_part_blame _ _ _ _ _ H) as [X1 [[X2 X3]|[[X2 X3]|[X2 X3]]]];
        (split; [exact X1|]).
      * subst k. simpl. unfold decl_literals_ok, decl_atoms. simpl. rewrite X3. reflexivity.
      * destruct X2; subst k; exact X3.
      * subst k. exact X3.
    + left. destruct (err || nonempty (ck_lexpr st id e)); [contradiction|].
      apply macro_cycle_diag_In in H.
      exact (macro_walk_cycle _ n id e k oi (Hm id n e eq_refl) H).
  - intros H. right. apply in_flat_map in H. destruct H as [pd [Hpd H]].
    apply in_flat_map in H. destruct H as [t [Ht H]].
    destruct (ck_pterm_blame _ _ _ _ _ H) as [X1 [[X2 X3]|[[X2 X3]|[[X2 X3]|[X2 X3]]]]];
      (split; [exact X1|]).
    + destruct X2; subst k; simpl;
        apply (forallb_false_in _ _ pd Hpd); exact (forallb_false_in _ _ t Ht X3).
    + destruct X2; subst k; simpl;
        apply (forallb_false_in _ _ pd Hpd); exact (forallb_false_in _ _ t Ht X3).
    + destruct X2; subst k; simpl;
        apply (forallb_false_in _ _ pd Hpd); exact (forallb_false_in _ _ t Ht X3).
    + subst k. simpl. unfold decl_literals_ok. simpl.
      rewrite (forallb_false_in _ _ pd Hpd (forallb_false_in _ _ t Ht X3)). reflexivity.
Qed.

Lemma ck_decls_In st x : forall ds err,
  In x (ck_decls st err ds) -> exists d err', In d ds /\ In x (ck_decl st err' d).
Proof.
  induction ds as [|d r IH]; intros err; simpl; [contradiction|].
  intros H. apply in_app_or in H. destruct H as [H|H].
  - exists d, err. split; [left; reflexivity|exact H].
  - destruct (IH _ H) as [d' [err' [H1 H2]]]. exists d', err'. split; [right; exact H1|exact H2].
Qed.

Lemma lookup_nodup n e : forall t, NoDup (map fst t) -> In (n, e) t -> lookup n t = Some e.
Proof.
  induction t as [|[m e'] t IH]; simpl; [contradiction|].
  intros Hnd [X|X].
  - inversion X; subst. rewrite String.eqb_refl. reflexivity.
  - inversion Hnd; subst. destruct (String.eqb n m) eqn:E.
    + apply String.eqb_eq in E. subst m. exfalso. apply H1. apply (in_map fst) in X. exact X.
    + apply IH; assumption.
Qed.

Lemma lookup_decl_macro s id n e :
  wf_unique s = true -> In (DMacro id n e) (all_decls s) ->
  lookup n (n_names (canon s)) = Some (EMacro id e).
Proof.
  intros Hu Hin. apply lookup_nodup.
  - apply wf_unique_NoDup. exact Hu.
  - simpl. apply in_flat_map. exists (DMacro id n e). split; [exact Hin|left; reflexivity].
Qed.

(* ---- pass 4: who is blamed --------------------------------------- *)
Lemma token_actions_kinds id acts k oi :
  In (k, oi) (token_actions id acts) -> oi = Some id /\ (k = KTokenDiscard \/ k = KTokenEmit).
Proof.
  induction acts as [|a r IH]; simpl; [contradiction|].
  destruct a; simpl; try exact IH; intros [X|[]]; inversion X; subst; auto.
Qed.

Lemma frag_actions_kinds id acts : forall hd he k oi,
  In (k, oi) (frag_actions id hd he acts) ->
  oi = Some id /\ (k = KFragTwoDiscard \/ k = KFragTwoEmit \/ k = KFragDiscardAndEmit).
Proof.
  induction acts as [|a r IH]; intros hd he k oi; simpl.
  - destruct (hd && he); simpl; [|contradiction]. intros [X|[]]. inversion X; subst. auto.
  - destruct a; simpl; try apply IH.
    + destruct hd; [|apply IH]. intros [X|[]]. inversion X; subst. auto.
    + destruct he; [|apply IH]. intros [X|[]]. inversion X; subst. auto.
Qed.

Definition gen_fault (k : dkind) (d : decl) : Prop :=
  match k with
  | KTokenDiscard | KTokenEmit => decl_token_actions_ok d = false
  | KFragTwoDiscard | KFragTwoEmit | KFragDiscardAndEmit => decl_frag_actions_ok d = false
  | _ => False
  end.

Lemma gen_decl_blame st d k oi :
  In (k, oi) (gen_decl st d) ->
  cycle_blame (n_names st) k oi \/ (oi = Some (decl_id d) /\ gen_fault k d).
Proof.
  destruct d as [id n e a|id e a|id n e|id ns|id n body|id b n pr]; simpl gen_decl;
    try contradiction; intros H; apply in_app_or in H; destruct H as [H|H];
    try (left; exact (expand_lexpr_cycle _ _ _ _ H)); right.
  - destruct (token_actions_kinds _ _ _ _ H) as [X1 X2]. split; [exact X1|].
    assert (F : decl_token_actions_ok (DToken id n e a) = false).
    { simpl. destruct (forallb _ a) eqn:E; [|reflexivity].
      apply token_actions_ok with (id := id) in E. rewrite E in H. contradiction. }
    destruct X2; subst k; exact F.
  - destruct (frag_actions_kinds _ _ _ _ _ _ H) as [X1 X2]. split; [exact X1|].
    assert (F : decl_frag_actions_ok (DFrag id e a) = false).
    { destruct (decl_frag_actions_ok (DFrag id e a)) eqn:E; [|reflexivity]. exfalso.
      simpl in E. rewrite !andb_true_iff, !Nat.leb_le in E.
      assert (Z : frag_actions id false false a = []) by (apply frag_actions_ok; simpl; lia).
      rewrite Z in H. contradiction. }
    destruct X2 as [X2|[X2|X2]]; subst k; exact F.
Qed.


(* ---- A3 ---------------------------------------------------------- *)
Lemma cycle_blame_fault s k oi :
  cycle_blame (n_names (canon s)) k oi -> exists i, oi = Some i /\ fault_in s k i.
Proof.
  intros [X1 [mid [n [body [X2 [X3 X4]]]]]].
  apply In_macro_decl in X3. apply in_split in X3. destruct X3 as [pre [post X3]].
  exists mid. split; [exact X2|]. exists pre, (DMacro mid n body), post.
  split; [exact X3|]. split; [reflexivity|]. subst k. simpl. split; [eauto|exact X4].
Qed.

Theorem reject_points_into_fault : forall s k oi,
  In (k, oi) (analyze s) ->
  (k = KStartUndefined /\ oi = None) \/ (exists i, oi = Some i /\ fault_in s k i).
Proof.
  intros s k oi. unfold analyze. destruct (pass_names s) as [st d1] eqn:E.
  destruct d1 as [|x d1]; [|intros H; right; exact (pass_names_blame _ _ _ _ _ E H)].
  apply pass_names_char in E. destruct E as [_ [Eu [_ E]]]. subst st.
  destruct (pass_check (canon s) s) as [|y d2] eqn:E2.
  - unfold pass_gen. destruct (flat_map (gen_decl (canon s)) (all_decls s)) as [|z d3] eqn:E3.
    + destruct (n_rules (canon s) && negb (n_start (canon s))); [|contradiction].
      intros [X|[]]. inversion X; subst. left. auto.
    + rewrite <- E3. intros H. right. apply in_flat_map in H. destruct H as [d [Hd H]].
      destruct (gen_decl_blame _ _ _ _ H) as [X|[X1 X2]]; [exact (cycle_blame_fault _ _ _ X)|].
      apply in_split in Hd. destruct Hd as [pre [post Hd]].
      exists (decl_id d). split; [exact X1|]. exists pre, d, post.
      split; [exact Hd|]. split; [reflexivity|].
      destruct k; simpl in X2; try contradiction; exact X2.
  - rewrite <- E2. intros H. right. unfold pass_check in H.
    apply ck_decls_In in H. destruct H as [d [err' [Hd H]]].
    assert (Hm : forall id n e, d = DMacro id n e ->
                 lookup n (n_names (canon s)) = Some (EMacro id e)).
    { intros id n e X. subst d. apply lookup_decl_macro; assumption. }
    destruct (ck_decl_blame _ _ _ _ _ Hm H) as [X|[X1 X2]]; [exact (cycle_blame_fault _ _ _ X)|].
    apply in_split in Hd. destruct Hd as [pre [post Hd]].
    exists (decl_id d). split; [exact X1|]. exists pre, d, post.
    split; [exact Hd|]. split; [reflexivity|].
    destruct k; simpl in X2; try contradiction; exact X2.
Qed.

(* first half of A3: the id of every positioned diagnostic is the id of a
   declaration of the specification *)
Corollary diag_ids_declared : forall s k i,
  In (k, Some i) (analyze s) -> In i (map decl_id (all_decls s)).
Proof.
  intros s k i H. destruct (reject_points_into_fault s k (Some i) H) as [[_ X]|[j [X1 X2]]];
    [discriminate|]. inversion X1; subst j.
  destruct X2 as [pre [d [post [E1 [E2 _]]]]]. rewrite E1, map_app. apply in_or_app. right.
  left. exact E2.
Qed.

(* second half of A3: if only one declaration of [s] is at fault, every
   positioned diagnostic names it *)
Corollary single_fault_blamed : forall s i0,
  (forall k i, fault_in s k i -> i = i0) ->
  forall k i, In (k, Some i) (analyze s) -> i = i0.
Proof.
  intros s i0 Hone k i H.
  destruct (reject_points_into_fault s k (Some i) H) as [[_ X]|[j [X1 X2]]]; [discriminate|].
  inversion X1; subst j. exact (Hone k i X2).
Qed.

Print Assumptions reject_points_into_fault.
Print Assumptions diag_ids_declared.
Print Assumptions single_fault_blamed.
