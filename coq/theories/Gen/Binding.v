(* Executable mirror of internal/codegen/assign_actions.go (AssignActions,
   getActionMethods, getReduceTypeForGeneratedRule, matchMethod,
   getTermGoType, ruleFromMethod), of codegen.RuleGenerated, and of the value
   flow of the `_act` template of emit_parser.go (`_cast[T]`), as of commits
   156a4e1 / e7bf6de / 0c3cc7f (casts to the term's type; @error terms have
   the error type also inside generated rules).
   Definitions only (no proofs): this file is extracted to OCaml and run
   against the real tool.  Theorems are in BindingProofs.v.

   Go types are abstract numbers; everything go/types decides is an `oracle`
   record given by the caller (the harness fills it with matrices computed by
   go/types on the package under test).

   Conventions
   - rules, productions: positions in `rules` / `prods` (= lr1 Rule.Index,
     Prod.Index).  A term is (true, terminal index) or (false, rule index);
     terminal 1 is ERROR.
   - methods: in the order ParserType.Method(i) enumerates them.  (Observed
     on the real tool: this is DECLARATION order, not name order - the
     "first method" of a rule in the return-conflict and no-such-rule
     diagnostics is the one declared first.)  m_id identifies the method in
     diagnostics and in the binding.
   - Go ranges over the map `methods` in random order at two places and over
     a set at a third; the SET of diagnostics does not depend on it, their
     order does.  Every BErr carries its diagnostics in canonical order:
     sorted by kind (constructor order of bdiag) and then by culprit number
     (sort_diags). *)
From Coq Require Import List String Arith Bool.
Import ListNotations.
Local Open Scope string_scope.
Local Open Scope nat_scope.
Local Open Scope list_scope.

Definition ty := nat.

Record oracle := {
  identical : ty -> ty -> bool;
  assignable : ty -> ty -> bool;    (* assignable v t: a value of type v is assignable to t *)
  slice_of : ty -> ty;              (* types.NewSlice *)
  is_interface : ty -> bool;
  implements : ty -> ty -> bool     (* implements d i: dynamic type d implements interface i *)
}.

Inductive rkind' :=
| NotGenerated | SPrime | ZeroOrMore | ZeroOrMoreF | OneOrMore | OneOrMoreF | ZeroOrOne | ListK.

Record brule := { br_name : string; br_kind : rkind'; br_prods : list nat }.
Record bprod := { bp_rule : nat; bp_terms : list (bool * nat) }.
Record meth := { m_id : nat; m_name : string; m_params : list ty; m_results : list ty }.

(* ------------------------------------------------------------------ *)
(* names *)

Definition has_prefix (p s : string) : bool := String.prefix p s.

Definition has_suffix (suf s : string) : bool :=
  let n := String.length s in
  let k := String.length suf in
  (k <=? n) && String.eqb (substring (n - k) k s) suf.

(* codegen.RuleGenerated: the tests in the order of the Go switch.  A name
   ending in "*!" does not end in "*", so it reaches the second test; same
   for "+!".  "@list(x,s)?" ends in "?" and is ZeroOrOne (the suffix test
   precedes the prefix test). *)
Definition rule_generated (name : string) : rkind' :=
  if String.eqb name "S'" then SPrime
  else if has_suffix "*" name then ZeroOrMore
  else if has_suffix "*!" name then ZeroOrMoreF
  else if has_suffix "+" name then OneOrMore
  else if has_suffix "+!" name then OneOrMoreF
  else if has_suffix "?" name then ZeroOrOne
  else if has_prefix "@list" name then ListK
  else NotGenerated.

(* ruleFromMethod; None is Go's "" (not an action).  "on_" and "on___x"
   give the empty rule name, which getActionMethods skips like "". *)
Definition rule_from_method (name : string) : option string :=
  if has_prefix "on_" name then
    let r := substring 3 (String.length name - 3) name in
    let r' := match index 0 "__" r with
              | Some i => substring 0 i r
              | None => r
              end in
    if String.eqb r' "" then None else Some r'
  else None.

(* "_onBounds" (OnBoundsMethodName) only sets EmitBounds; it does not start
   with "on_", so it is no action either way. *)
Definition is_on_bounds (name : string) : bool := String.eqb name "_onBounds".

(* ------------------------------------------------------------------ *)
(* results *)

Inductive bdiag :=
| DResultCount (m : nat)          (* "action method must return a single value" *)
| DReturnConflict (m : nat)       (* "action return type conflict" (m: the later method) *)
| DNoSuchRule (m : nat)           (* "no rule named" (m: first method of the name) *)
| DRuleMissingMethod (rule : nat) (* "rule missing action method" *)
| DNoMatch (prod : nat)           (* "production has no matching action method" *)
| DMultipleMatch (prod : nat)     (* "multiple action methods matching production" *)
| DUnassigned (m : nat).          (* "could not match action method to a production" *)

(* where the Go code would panic *)
Inductive psite :=
| PIdxProds        (* rule.Prods[0] / rule.Prods[1] / termCplus.Prods[1] out of range *)
| PIdxTerms        (* prod.Terms[0] out of range *)
| PNotRule         (* prod.Terms[0].( *lr1.Rule ) on a terminal *)
| PAssertNil       (* assert.True(typeCplus != nil) *)
| PAssertIdentical (* assert.True(gotypes.Identical(existing, typ)) *)
| PAssertReturn    (* assert.True(Identical(matches[0].Return, RuleGoTypes[prod.Rule])) *)
| PRecursion       (* unbounded recursion of getReduceTypeForGeneratedRule *)
| PBadIndex.       (* impossible when wf_input holds *)

Inductive result :=
| BOk (binding : list (nat * nat))    (* production -> method id, user productions only, in production order *)
      (rule_types : list (nat * ty))  (* rule -> Go type, in rule order *)
| BErr (diags : list bdiag)           (* canonical order *)
| BPanic (site : psite)
| BIllFormed                          (* the input is not a representation of an lr1.Grammar + method set *)
| BFuel.                              (* never: the fixed point needs at most |rules|+1 rounds *)

Definition diag_rank (d : bdiag) : nat :=
  match d with
  | DResultCount _ => 0 | DReturnConflict _ => 1 | DNoSuchRule _ => 2
  | DRuleMissingMethod _ => 3 | DNoMatch _ => 4 | DMultipleMatch _ => 5
  | DUnassigned _ => 6
  end.

Definition diag_culprit (d : bdiag) : nat :=
  match d with
  | DResultCount m | DReturnConflict m | DNoSuchRule m | DRuleMissingMethod m
  | DNoMatch m | DMultipleMatch m | DUnassigned m => m
  end.

Definition diag_leb (a b : bdiag) : bool :=
  (diag_rank a <? diag_rank b) ||
  ((diag_rank a =? diag_rank b) && (diag_culprit a <=? diag_culprit b)).

Fixpoint insert_diag (d : bdiag) (l : list bdiag) : list bdiag :=
  match l with
  | [] => [d]
  | x :: l' => if diag_leb d x then d :: l else x :: insert_diag d l'
  end.

Definition sort_diags (l : list bdiag) : list bdiag := fold_right insert_diag [] l.

(* ------------------------------------------------------------------ *)
(* small list helpers *)

Definition indexed {A : Type} (l : list A) : list (nat * A) :=
  combine (seq 0 (List.length l)) l.

Fixpoint list_nat_eqb (a b : list nat) : bool :=
  match a, b with
  | [], [] => true
  | x :: a', y :: b' => (x =? y) && list_nat_eqb a' b'
  | _, _ => false
  end.

Fixpoint nodup_natb (l : list nat) : bool :=
  match l with
  | [] => true
  | x :: l' => negb (existsb (Nat.eqb x) l') && nodup_natb l'
  end.

Fixpoint nodup_strb (l : list string) : bool :=
  match l with
  | [] => true
  | x :: l' => negb (existsb (String.eqb x) l') && nodup_strb l'
  end.

Definition rkind_eqb (a b : rkind') : bool :=
  match a, b with
  | NotGenerated, NotGenerated | SPrime, SPrime | ZeroOrMore, ZeroOrMore
  | ZeroOrMoreF, ZeroOrMoreF | OneOrMore, OneOrMore | OneOrMoreF, OneOrMoreF
  | ZeroOrOne, ZeroOrOne | ListK, ListK => true
  | _, _ => false
  end.

Definition is_sprime (k : rkind') : bool := rkind_eqb k SPrime.
Definition is_user (k : rkind') : bool := rkind_eqb k NotGenerated.

Definition kind_of (rules : list brule) (i : nat) : rkind' :=
  match nth_error rules i with
  | Some r => br_kind r
  | None => NotGenerated
  end.

Definition name_of (rules : list brule) (i : nat) : string :=
  match nth_error rules i with
  | Some r => br_name r
  | None => ""
  end.

(* ------------------------------------------------------------------ *)
(* representation invariants of (lr1.Grammar, method set); the harness input
   must satisfy them, otherwise assign_actions answers BIllFormed:
   - Prod.Rule and rule terms point into Rules;
   - rule.Prods is the list of the grammar's productions of that rule, in
     grammar order (lr1.Grammar.AddProd appends to both);
   - br_kind is RuleGenerated(name);
   - S' is never a term (it is created by NewGrammar, no name resolves to it);
   - rule names are unique (ast.Context.Lookup), method ids are unique. *)

Definition prods_of (prods : list bprod) (i : nat) : list nat :=
  map fst (filter (fun ip => bp_rule (snd ip) =? i) (indexed prods)).

Definition wf_term (rules : list brule) (t : bool * nat) : bool :=
  fst t || ((snd t <? List.length rules) && negb (is_sprime (kind_of rules (snd t)))).

Definition wf_prod (rules : list brule) (p : bprod) : bool :=
  (bp_rule p <? List.length rules) && forallb (wf_term rules) (bp_terms p).

Definition wf_rule (prods : list bprod) (ir : nat * brule) : bool :=
  list_nat_eqb (br_prods (snd ir)) (prods_of prods (fst ir)) &&
  rkind_eqb (br_kind (snd ir)) (rule_generated (br_name (snd ir))).

Definition wf_input (rules : list brule) (prods : list bprod) (ms : list meth) : bool :=
  forallb (wf_prod rules) prods &&
  forallb (wf_rule prods) (indexed rules) &&
  nodup_strb (map br_name rules) &&
  nodup_natb (map m_id ms).

(* ------------------------------------------------------------------ *)
(* getActionMethods *)

Definition rule_of (m : meth) : option string := rule_from_method (m_name m).

Definition is_action (m : meth) : bool :=
  match rule_of m with Some _ => true | None => false end.

Definition actions (ms : list meth) : list meth := filter is_action ms.

Definition bad_result_count (m : meth) : bool := negb (List.length (m_results m) =? 1).

Definition phase0_errs (ms : list meth) : list bdiag :=
  map (fun m => DResultCount (m_id m)) (filter bad_result_count (actions ms)).

Definition ret (m : meth) : ty := hd 0 (m_results m).

(* methods[r], in enumeration order *)
Definition in_group (r : string) (m : meth) : bool :=
  match rule_of m with
  | Some r' => String.eqb r' r
  | None => false
  end.

Definition group (acts : list meth) (r : string) : list meth := filter (in_group r) acts.

(* the keys of the map `methods` *)
Definition group_names (acts : list meth) : list string :=
  nodup string_dec
    (flat_map (fun m => match rule_of m with Some r => [r] | None => [] end) acts).

(* rules[name]: the map is filled in rule order, so the last rule of that
   name wins (names are unique under wf_input) *)
Fixpoint find_rule_from (i : nat) (rules : list brule) (name : string) : option nat :=
  match rules with
  | [] => None
  | r :: rest =>
    match find_rule_from (S i) rest name with
    | Some j => Some j
    | None => if String.eqb (br_name r) name then Some i else None
    end
  end.

Definition find_rule (rules : list brule) (name : string) : option nat :=
  find_rule_from 0 rules name.

(* ------------------------------------------------------------------ *)
(* Go types as they occur in RuleGoTypes.  INil is a nil gotypes.Type.
   types.NewSlice(nil) is a non-nil type: when the element rule has no type
   yet, `x+` and `x*` still receive one (observed on the real tool: for a rule
   x without methods, x and `x?` are reported as missing, `x+`/`x*` are not).
   ISl e is a slice whose element type is not a proper type. *)

Inductive ity := INil | IT (t : ty) | ISl (e : ity).

Definition islice (o : oracle) (e : ity) : ity :=
  match e with
  | IT t => IT (slice_of o t)
  | _ => ISl e
  end.

Fixpoint ity_identical (o : oracle) (a b : ity) : bool :=
  match a, b with
  | INil, INil => true
  | IT x, IT y => identical o x y
  | ISl x, ISl y => ity_identical o x y
  | _, _ => false
  end.

Definition ity_is_nil (t : ity) : bool := match t with INil => true | _ => false end.

Definition rtypes := list (nat * ity).

Fixpoint rt_get (rt : rtypes) (i : nat) : ity :=
  match rt with
  | [] => INil
  | (j, t) :: rest => if j =? i then t else rt_get rest i
  end.

(* getTermGoType on a terminal *)
Definition terminal_ty (tok err : ty) (i : nat) : ty := if i =? 1 then err else tok.

Section WithOracle.
Variable o : oracle.
Variables tok err : ty.
Variable rules : list brule.
Variable prods : list bprod.

(* first loop of AssignActions, one map entry *)
Definition phase1_group (acts : list meth) (r : string) : list bdiag * rtypes :=
  match group acts r with
  | [] => ([], [])
  | f :: others =>
    let confl :=
      map (fun m => DReturnConflict (m_id m))
          (filter (fun m => negb (identical o (ret m) (ret f))) others) in
    match find_rule rules r with
    | None => (confl ++ [DNoSuchRule (m_id f)], [])
    | Some i => (confl, [(i, IT (ret f))])
    end
  end.

Definition phase1_errs (acts : list meth) : list bdiag :=
  flat_map (fun r => fst (phase1_group acts r)) (group_names acts).

Definition phase1_types (acts : list meth) : rtypes :=
  flat_map (fun r => snd (phase1_group acts r)) (group_names acts).

(* getReduceTypeForGeneratedRule *)
Inductive rres := RP (s : psite) | RT (t : ity).

(* type of prod.Terms[0] in the generated-rule cases: a rule has its
   registered type, a terminal has getTermGoType(term): ErrorType for ERROR
   (terminal 1), TokenType otherwise.  (Before commit e7bf6de a terminal was
   always TokenType here, so `@error+` was registered as []Token while the
   template built a []Error.) *)
Definition first_term_ity (rt : rtypes) (p : bprod) : option ity :=
  match bp_terms p with
  | [] => None
  | (true, i) :: _ => Some (IT (terminal_ty tok err i))
  | (false, c) :: _ => Some (rt_get rt c)
  end.

Fixpoint reduce_type (fuel : nat) (rt : rtypes) (ri pi : nat) : rres :=
  match fuel with
  | O => RP PRecursion
  | S f =>
    match nth_error rules ri with
    | None => RP PBadIndex
    | Some r =>
      match br_kind r with
      | NotGenerated | SPrime => RT INil
      | ZeroOrOne =>
        match br_prods r with
        | [] => RP PIdxProds
        | p0 :: _ =>
          if negb (pi =? p0) then RT INil else
          match nth_error prods pi with
          | None => RP PBadIndex
          | Some p =>
            match first_term_ity rt p with
            | None => RP PIdxTerms
            | Some t => RT t
            end
          end
        end
      | ZeroOrMore | ZeroOrMoreF =>
        match br_prods r with
        | [] => RP PIdxProds
        | p0 :: _ =>
          if negb (pi =? p0) then RT INil else
          match nth_error prods pi with
          | None => RP PBadIndex
          | Some p =>
            match bp_terms p with
            | [] => RP PIdxTerms
            | (true, _) :: _ => RP PNotRule
            | (false, c) :: _ =>
              match nth_error rules c with
              | None => RP PBadIndex
              | Some rc =>
                match br_prods rc with
                | _ :: p1 :: _ =>
                  match reduce_type f rt c p1 with
                  | RP s => RP s
                  | RT INil => RP PAssertNil
                  | RT t => RT t
                  end
                | _ => RP PIdxProds
                end
              end
            end
          end
        end
      | OneOrMore | OneOrMoreF | ListK =>
        match br_prods r with
        | _ :: p1 :: _ =>
          if negb (pi =? p1) then RT INil else
          match nth_error prods pi with
          | None => RP PBadIndex
          | Some p =>
            match first_term_ity rt p with
            | None => RP PIdxTerms
            | Some t => RT (islice o t)
            end
          end
        | _ => RP PIdxProds
        end
      end
    end
  end.

(* under wf_input the productions of a rule are distinct, so the recursion
   stops at depth 2 (the inner call is made with Prods[1], which is not
   Prods[0]) *)
Definition reduce_fuel : nat := 2.

(* one round of the `for changed` loop *)
Inductive pres := PPanic (s : psite) | PDone (rt : rtypes) (changed : bool).

Fixpoint pass (ps : list (nat * bprod)) (rt : rtypes) (changed : bool) : pres :=
  match ps with
  | [] => PDone rt changed
  | ip :: rest =>
    match reduce_type reduce_fuel rt (bp_rule (snd ip)) (fst ip) with
    | RP s => PPanic s
    | RT INil => pass rest rt changed
    | RT t =>
      match rt_get rt (bp_rule (snd ip)) with
      | INil => pass rest ((bp_rule (snd ip), t) :: rt) true
      | ex => if ity_identical o ex t then pass rest rt changed
              else PPanic PAssertIdentical
      end
    end
  end.

Inductive dres := DvPanic (s : psite) | DvFuel | DvOk (rt : rtypes).

Fixpoint derive (fuel : nat) (rt : rtypes) : dres :=
  match fuel with
  | O => DvFuel
  | S f =>
    match pass (indexed prods) rt false with
    | PPanic s => DvPanic s
    | PDone rt' true => derive f rt'
    | PDone rt' false => DvOk rt'
    end
  end.

Definition derive_fuel : nat := List.length rules + 2.

(* "Check that every rule has been assigned a Go-type" *)
Definition missing_rules (rt : rtypes) : list bdiag :=
  flat_map (fun ir : nat * brule =>
              if is_sprime (br_kind (snd ir)) then []
              else if ity_is_nil (rt_get rt (fst ir)) then [DRuleMissingMethod (fst ir)]
              else [])
           (indexed rules).

(* getTermGoType *)
Definition term_ity (rt : rtypes) (t : bool * nat) : ity :=
  if fst t then IT (terminal_ty tok err (snd t)) else rt_get rt (snd t).

(* matchMethod / isMatch *)
Fixpoint params_match (rt : rtypes) (params : list ty) (terms : list (bool * nat)) : bool :=
  match params, terms with
  | [], [] => true
  | q :: params', t :: terms' =>
    match term_ity rt t with
    | IT s => assignable o s q && params_match rt params' terms'
    | _ => false
    end
  | _, _ => false
  end.

Definition is_match (rt : rtypes) (p : bprod) (m : meth) : bool :=
  params_match rt (m_params m) (bp_terms p).

Definition matches (rt : rtypes) (acts : list meth) (p : bprod) : list meth :=
  filter (is_match rt p) (group acts (name_of rules (bp_rule p))).

Definition user_prod (ip : nat * bprod) : bool := is_user (kind_of rules (bp_rule (snd ip))).

Definition user_prods : list (nat * bprod) := filter user_prod (indexed prods).

Definition phase4_errs (rt : rtypes) (acts : list meth) : list bdiag :=
  flat_map (fun ip : nat * bprod =>
              match matches rt acts (snd ip) with
              | [] => [DNoMatch (fst ip)]
              | [_] => []
              | _ :: _ :: _ => [DMultipleMatch (fst ip)]
              end) user_prods.

Definition phase4_panics (rt : rtypes) (acts : list meth) : bool :=
  existsb (fun ip : nat * bprod =>
             match matches rt acts (snd ip) with
             | [m] => negb (ity_identical o (IT (ret m)) (rt_get rt (bp_rule (snd ip))))
             | _ => false
             end) user_prods.

Definition phase4_binding (rt : rtypes) (acts : list meth) : list (nat * nat) :=
  flat_map (fun ip : nat * bprod =>
              match matches rt acts (snd ip) with
              | [m] => [(fst ip, m_id m)]
              | _ => []
              end) user_prods.

Definition unassigned (acts : list meth) (b : list (nat * nat)) : list bdiag :=
  map (fun m => DUnassigned (m_id m))
      (filter (fun m => negb (existsb (fun pm : nat * nat => snd pm =? m_id m) b)) acts).

Definition ity_ty (t : ity) : option ty := match t with IT x => Some x | _ => None end.

Definition rule_types_of (rt : rtypes) : list (nat * ty) :=
  flat_map (fun ir : nat * brule =>
              match ity_ty (rt_get rt (fst ir)) with
              | Some t => [(fst ir, t)]
              | None => []
              end) (indexed rules).

Definition assign_actions_wf (ms : list meth) : result :=
  let acts := actions ms in
  match phase0_errs ms with
  | (_ :: _) as e => BErr (sort_diags e)
  | [] =>
    match phase1_errs acts with
    | (_ :: _) as e => BErr (sort_diags e)
    | [] =>
      match derive derive_fuel (phase1_types acts) with
      | DvPanic s => BPanic s
      | DvFuel => BFuel
      | DvOk rt =>
        match missing_rules rt with
        | (_ :: _) as e => BErr (sort_diags e)
        | [] =>
          if phase4_panics rt acts then BPanic PAssertReturn else
          match phase4_errs rt acts with
          | (_ :: _) as e => BErr (sort_diags e)
          | [] =>
            let b := phase4_binding rt acts in
            match unassigned acts b with
            | (_ :: _) as e => BErr (sort_diags e)
            | [] => BOk b (rule_types_of rt)
            end
          end
        end
      end
    end
  end.

End WithOracle.

Definition assign_actions (o : oracle) (tok err : ty)
           (rules : list brule) (prods : list bprod) (ms : list meth) : result :=
  if wf_input rules prods ms then assign_actions_wf o tok err rules prods ms
  else BIllFormed.

(* ------------------------------------------------------------------ *)
(* run-time value flow: `_cast[T](v any) T { cv, _ := v.(T); return cv }` *)

Inductive dyn :=
| DNil                          (* the nil interface value *)
| DVal (t : ty) (payload : nat) (* an `any` holding a value of dynamic type t *)
| DZero (t : ty).               (* the zero value of the non-interface type t *)

(* the zero value of T stored back into an `any`: for an interface type that
   is the nil interface *)
Definition zero_of (o : oracle) (T : ty) : dyn :=
  if is_interface o T then DNil else DZero T.

Definition dyn_type (o : oracle) (v : dyn) : option ty :=
  match v with
  | DNil => None
  | DVal t _ => Some t
  | DZero t => if is_interface o t then None else Some t
  end.

Definition cast (o : oracle) (target : ty) (v : dyn) : dyn :=
  match dyn_type o v with
  | None => zero_of o target
  | Some t =>
    if is_interface o target then
      (if implements o t target then v else zero_of o target)
    else
      (if identical o t target then v else zero_of o target)
  end.

(* The template (since commit 156a4e1): each parameter of a user action
   receives _cast[<Go type of the TERM>](stack value); the call converts it
   implicitly to the parameter type, which assignability allows and which
   keeps the value.  (A variadic last parameter gets `...` at the call since
   0c3cc7f; nothing to model.) *)
Definition param_value (o : oracle) (term_type : ty) (v : dyn) : dyn :=
  cast o term_type v.

Definition param_value_repaired := param_value.

(* the pinned tree's template: _cast[<type of parameter i of the bound
   method>](stack value) - see BindingProofs.cast_zero_refuted *)
Definition param_value_old (o : oracle) (m : meth) (i : nat) (v : dyn) : dyn :=
  cast o (nth i (m_params m) 0) v.

(* get_term_go_type with the rule types returned by assign_actions *)
Fixpoint rtl_get (rtl : list (nat * ty)) (i : nat) : option ty :=
  match rtl with
  | [] => None
  | (j, t) :: rest => if j =? i then Some t else rtl_get rest i
  end.

Definition term_go_type (tok err : ty) (rtl : list (nat * ty)) (t : bool * nat) : option ty :=
  if fst t then Some (terminal_ty tok err (snd t)) else rtl_get rtl (snd t).

(* the arguments of the action call for production p, given the stack values
   of its terms (first term first) *)
Fixpoint action_args (o : oracle) (tok err : ty) (rtl : list (nat * ty))
         (terms : list (bool * nat)) (vs : list dyn) : list dyn :=
  match terms, vs with
  | t :: terms', v :: vs' =>
    (match term_go_type tok err rtl t with
     | Some s => param_value o s v
     | None => v
     end) :: action_args o tok err rtl terms' vs'
  | _, _ => []
  end.

(* a value that an expression of static type S can hold *)
Definition has_static_type (o : oracle) (S : ty) (v : dyn) : bool :=
  match dyn_type o v with
  | None => is_interface o S
  | Some t => if is_interface o S then implements o t S else identical o t S
  end.

(* Generated rules.  The element type REGISTERED for a generated rule
   (getReduceTypeForGeneratedRule) and the element type of the value BUILT by
   the one_or_more / list templates (get_term_go_type) are the same function
   since commit e7bf6de. *)
Definition built_elem_type (tok err : ty) (rt : rtypes) (t : bool * nat) : ity :=
  term_ity tok err rt t.
Definition registered_elem_type (tok err : ty) (rt : rtypes) (t : bool * nat) : ity :=
  if fst t then IT (terminal_ty tok err (snd t)) else rt_get rt (snd t).

(* ------------------------------------------------------------------ *)
(* The shape of a grammar after lox's desugaring (ast/parser_term.go), as a
   check: no action method is named after a generated rule; `c?` has a first
   production with a term; `c+`, `c+!`, `@list(c,s)` have a second production
   whose first term is a token or a user rule; `c*`, `c*!` start with such a
   `+` rule.  BindingComplete.binding_verdict_exact holds for inputs that pass
   it (and on them assign_actions never answers BPanic or BFuel). *)
Definition is_plusb (k : rkind') : bool :=
  match k with OneOrMore | OneOrMoreF | ListK => true | _ => false end.

Definition elem_okb (rules : list brule) (prods : list bprod) (pi : nat) : bool :=
  match nth_error prods pi with
  | Some p =>
    match bp_terms p with
    | x :: _ => fst x || is_user (kind_of rules (snd x))
    | [] => false
    end
  | None => false
  end.

Definition gen_shape_okb (rules : list brule) (prods : list bprod) (r : brule) : bool :=
  match br_kind r with
  | NotGenerated | SPrime => true
  | ZeroOrOne =>
    match br_prods r with
    | p0 :: _ =>
      match nth_error prods p0 with
      | Some p => match bp_terms p with _ :: _ => true | [] => false end
      | None => false
      end
    | [] => false
    end
  | OneOrMore | OneOrMoreF | ListK =>
    match br_prods r with
    | _ :: p1 :: _ => elem_okb rules prods p1
    | _ => false
    end
  | ZeroOrMore | ZeroOrMoreF =>
    match br_prods r with
    | p0 :: _ =>
      match nth_error prods p0 with
      | Some p =>
        match bp_terms p with
        | (false, c) :: _ =>
          match nth_error rules c with
          | Some rc =>
            is_plusb (br_kind rc) &&
            match br_prods rc with
            | _ :: p1 :: _ => elem_okb rules prods p1
            | _ => false
            end
          | None => false
          end
        | _ => false
        end
      | None => false
      end
    | [] => false
    end
  end.

Definition meth_shape_okb (rules : list brule) (m : meth) : bool :=
  match rule_of m with
  | None => true
  | Some r =>
    forallb (fun rl => negb (String.eqb (br_name rl) r) || is_user (br_kind rl)) rules
  end.

Definition shape_okb (rules : list brule) (prods : list bprod) (ms : list meth) : bool :=
  forallb (meth_shape_okb rules) ms && forallb (gen_shape_okb rules prods) rules.
